import Proofs.C18Frame
import Proofs.C18Heap
import Proofs.C18Snappy
import Proofs.C18SnappyStream
import Proofs.C18Lz4Block
import Proofs.C18Lz4Stream
import Model.CompressRecv
import Model.CompressSend
/-!
# C18 — compression is transparent and only used as negotiated (property theorems)

Model: `Model/Compress.lean` (frame.go newFramer/writeHeader/setLength/finish/readHeader/readFrame,
the OPTIONS/STARTUP builders' `&^ flagCompress`, lz4/lz4.go, conn.go startup negotiation).
The block codecs (snappy, pierrec/lz4) are parameters; `Codec.RoundTrips` / `BlockCodec.RoundTrips`
is the trusted-base hypothesis, sampled by `harness/cmd/c18` on every run.
-/
namespace C18
open Compress

/-- protocol versions the reader accepts (frame.go readHeader) -/
def ValidProto (f : Framer) : Prop := f.proto = 1 ∨ f.proto = 2 ∨ f.proto = 3 ∨ f.proto = 4 ∨ f.proto = 5

theorem frame_payload_length (f : Framer) (fl op : UInt8) (s : Int) (z : Bytes) :
    (f.frame fl op s z).length - f.headSize = z.length := by
  have := f.hdr5_length fl op s
  have := f.headSize_ge
  simp [Framer.frame, be32_length]; omega

theorem frame_drop (f : Framer) (fl op : UInt8) (s : Int) (z : Bytes) :
    (f.frame fl op s z).drop f.headSize = z := by
  have hl : (f.hdr5 fl op s ++ be32 z.length).length = f.headSize := by
    have := f.hdr5_length fl op s; have := f.headSize_ge
    simp [be32_length]; omega
  unfold Framer.frame
  exact List.drop_left' hl

theorem frame_flag (f : Framer) (fl op : UInt8) (s : Int) (z : Bytes) :
    (f.frame fl op s z).getD 1 0 = fl := by
  simp [Framer.frame, Framer.hdr5]

/-- **Transparency.** For every framer (any version 1..5, any flag byte), any compressor that
    round-trips, every header-flag byte, opcode, stream and every body: if the frame is built, a
    reader with the same compressor gets back exactly the body, and the header's length field is the
    length of what is on the wire after the header (the compressed length when compressed). -/
theorem C18_transparent_at (f : Framer) (hv : ValidProto f)
    (fl op : UInt8) (s : Int) (body wire : Bytes)
    (hc : ∀ c z, f.comp = some c → c.enc body = .ok z → c.dec z = .ok body)
    (hb : f.build fl op s body = .ok wire)
    (hsz : wire.length - f.headSize ≤ maxFrameSize) :
    f.decode wire = .ok (f.headOf fl op s (wire.length - f.headSize), body) := by
  rcases f.build_ok fl op s body wire hb with ⟨hfl, c, z, hcomp, henc, hw⟩ | ⟨hfl, hw⟩
  · subst hw
    rw [frame_payload_length] at hsz ⊢
    unfold Framer.decode
    rw [readHeader_frame f fl op s z hv hsz]
    have hdec := hc c z hcomp henc
    have hz : ¬ ((z.length : Int) > (maxFrameSize : Int)) := by omega
    have hz0 : ¬ ((z.length : Int) < 0) := by omega
    simp [Framer.readFrame, Framer.headOf, hfl, hcomp, hdec, hz, hz0]
  · subst hw
    rw [frame_payload_length] at hsz ⊢
    unfold Framer.decode
    rw [readHeader_frame f fl op s body hv hsz]
    have hz : ¬ ((body.length : Int) > (maxFrameSize : Int)) := by omega
    have : (fl &&& flagCompress == flagCompress) = false := by simpa using hfl
    have hz0 : ¬ ((body.length : Int) < 0) := by omega
    simp [Framer.readFrame, Framer.headOf, this, hz, hz0]

/-- **Transparency** in the form with the trusted-base hypothesis `Codec.RoundTrips` (all bodies). -/
theorem C18_transparent (f : Framer) (hv : ValidProto f)
    (hc : ∀ c, f.comp = some c → c.RoundTrips)
    (fl op : UInt8) (s : Int) (body wire : Bytes)
    (hb : f.build fl op s body = .ok wire)
    (hsz : wire.length - f.headSize ≤ maxFrameSize) :
    f.decode wire = .ok (f.headOf fl op s (wire.length - f.headSize), body) :=
  C18_transparent_at f hv fl op s body wire (fun c z hcomp henc => hc c hcomp body z henc) hb hsz

/-- non-vacuity: an identity "compressor", version 4, QUERY opcode, 3-byte body -/
example :
    let c : Codec := { enc := fun x => .ok (0xAA :: x), dec := fun y => .ok (y.drop 1) }
    let f := newFramer (some c) 4
    (f.build f.flags 7 1 [1, 2, 3]).toOption = some [4, 1, 0, 1, 7, 0, 0, 0, 4, 0xAA, 1, 2, 3] := by
  decide

/-! ### flags -/

theorem and1_cases (x : UInt8) : x &&& 1 = 0 ∨ x &&& 1 = 1 := by
  have : ∀ x : BitVec 8, x &&& 1 = 0 ∨ x &&& 1 = 1 := by decide
  rcases this x.toBitVec with h | h
  · left; exact UInt8.toBitVec_inj.1 (by simpa using h)
  · right; exact UInt8.toBitVec_inj.1 (by simpa using h)

theorem or_and1 (a b : UInt8) : (a ||| b) &&& 1 = (a &&& 1) ||| (b &&& 1) :=
  UInt8.toBitVec_inj.1 (by simp; ext i; simp [Bool.and_or_distrib_right])

theorem fe_and1 (x : UInt8) : (x &&& 0xFE) &&& 1 = 0 := by
  rw [UInt8.and_assoc]; have : (0xFE:UInt8) &&& 1 = 0 := by decide
  rw [this]; simp

/-- the request is one whose builder keeps the framer's compress bit -/
def Req.compressible (r : Req) : Prop := r ≠ .startup ∧ r ≠ .options

theorem headerFlags_bit (f : Framer) (r : Req) :
    (r.headerFlags f &&& flagCompress = flagCompress) ↔ (f.flags &&& flagCompress = flagCompress ∧ Req.compressible r) := by
  cases r <;> simp [Req.headerFlags, Req.compressible, flagCompress, fe_and1]

/-- **Flag ⇔ compressed, OPTIONS/STARTUP never.** For every framer flag byte (tracing, custom
    payload, beta … in any combination), every request kind, stream and body: the compress bit on the
    wire is set iff the framer's bit is set and the request is neither STARTUP nor OPTIONS; when it
    is set the bytes after the header are exactly `Encode(body)`, when it is clear they are exactly
    the body. -/
theorem C18_flag_iff (f : Framer) (r : Req) (s : Int) (body wire : Bytes)
    (h : f.buildReq r s body = .ok wire) :
    ((wire.getD 1 0 &&& flagCompress = flagCompress) ↔
        (f.flags &&& flagCompress = flagCompress ∧ Req.compressible r)) ∧
    ((wire.getD 1 0 &&& flagCompress = flagCompress) →
        ∃ c z, f.comp = some c ∧ c.enc body = .ok z ∧ wire.drop f.headSize = z) ∧
    (¬ (wire.getD 1 0 &&& flagCompress = flagCompress) → wire.drop f.headSize = body) := by
  unfold Framer.buildReq at h
  rcases f.build_ok _ _ s body wire h with ⟨hfl, c, z, hcomp, henc, hw⟩ | ⟨hfl, hw⟩
  · subst hw
    rw [frame_flag, frame_drop]
    exact ⟨by rw [headerFlags_bit] , fun _ => ⟨c, z, hcomp, henc, rfl⟩, fun hn => absurd hfl hn⟩
  · subst hw
    rw [frame_flag, frame_drop]
    exact ⟨by rw [headerFlags_bit], fun hy => absurd hy hfl, fun _ => rfl⟩

/-- OPTIONS and STARTUP are never compressed, whatever the framer's flags and compressor. -/
theorem C18_options_startup_plain (f : Framer) (r : Req) (hr : r = .startup ∨ r = .options)
    (s : Int) (body wire : Bytes) (h : f.buildReq r s body = .ok wire) :
    wire.getD 1 0 &&& flagCompress ≠ flagCompress ∧ wire.drop f.headSize = body := by
  have ⟨h1, _, h3⟩ := C18_flag_iff f r s body wire h
  have hn : ¬ (wire.getD 1 0 &&& flagCompress = flagCompress) := by
    rw [h1]; rintro ⟨_, h2, h3⟩; rcases hr with rfl | rfl <;> simp_all
  exact ⟨hn, h3 hn⟩

example :
    let c : Codec := { enc := fun x => .ok (0xAA :: x), dec := fun y => .ok (y.drop 1) }
    ((newFramer (some c) 4).buildReq .startup 0 [9]).toOption = some [4, 0, 0, 0, 1, 0, 0, 0, 1, 9] ∧
    ((newFramer (some c) 4).buildReq .query 0 [9]).toOption = some [4, 1, 0, 0, 7, 0, 0, 0, 2, 0xAA, 9] := by
  decide

/-- the sender-side panic ("compress flag set with no compressor") is unreachable for framers made
    by `newFramer`, whatever extra flag bits (tracing 0x02, custom payload 0x04, …) are or-ed in later -/
theorem C18_no_finish_panic (comp : Option Codec) (version extra : UInt8) (hx : extra &&& 1 = 0)
    (r : Req) (s : Int) (body : Bytes) :
    ({ newFramer comp version with flags := (newFramer comp version).flags ||| extra } : Framer).buildReq r s body
      ≠ .error .panic := by
  cases comp with
  | some c =>
    simp only [Framer.buildReq, Framer.build, Framer.finish, newFramer]
    repeat' split
    all_goals simp_all
  | none =>
    intro h
    have hbit : ∀ r : Req, (r.headerFlags ({ newFramer none version with flags := (newFramer none version).flags ||| extra } : Framer)) &&& 1 = 0 := by
      intro r
      have hv : ((if version == 5 then (0x10:UInt8) else 0) &&& 1) = 0 := by split <;> decide
      have : ((newFramer none version).flags ||| extra) &&& 1 = 0 := by
        simp only [newFramer, Option.isSome_none, Bool.false_eq_true, if_false, UInt8.zero_or]
        rw [or_and1, hv, hx]; decide
      cases r <;> simp [Req.headerFlags, fe_and1, this]
    simp only [Framer.buildReq, Framer.build, Framer.finish] at h
    rw [Framer.flag_of_buf, flagCompress, hbit r] at h
    split at h
    · cases h
    · simp at h

/-! ### every body is delivered -/

/-- what `build` answers when it fails -/
theorem build_err (f : Framer) (fl op : UInt8) (s : Int) (body : Bytes) (e : Err)
    (h : f.build fl op s body = .error e) :
    (e = .tooBig ∧ maxFrameSize < f.headSize + body.length) ∨
    (e = .panic ∧ fl &&& flagCompress = flagCompress ∧ f.comp = none) ∨
    (e = .codec ∧ fl &&& flagCompress = flagCompress ∧ ∃ c u, f.comp = some c ∧ c.enc body = .error u) ∨
    (e = .tooBig ∧ fl &&& flagCompress = flagCompress ∧
      ∃ c z, f.comp = some c ∧ c.enc body = .ok z ∧ maxFrameSize < f.headSize + z.length) := by
  unfold Framer.build Framer.finish at h
  rw [f.flag_of_buf] at h
  obtain ⟨_, hd⟩ := f.split_buf fl op s body
  have hl : (f.writeHeader fl op s).length = f.headSize := by
    rw [f.writeHeader_eq]; simp [f.hdr5_length]; have := f.headSize_ge; omega
  split at h
  · rename_i hbig
    left; injection h with h
    refine ⟨h.symm, ?_⟩
    simpa [hl] using hbig
  · by_cases hc : fl &&& flagCompress = flagCompress
    · simp only [hc, beq_self_eq_true, if_true] at h
      rw [hd] at h
      cases hcomp : f.comp with
      | none => simp only [hcomp] at h; injection h with h; exact .inr (.inl ⟨h.symm, hc, rfl⟩)
      | some c =>
        simp only [hcomp] at h
        cases he : c.enc body with
        | error u => simp only [he] at h; injection h with h; exact .inr (.inr (.inl ⟨h.symm, hc, c, u, rfl, he⟩))
        | ok z =>
          simp only [he] at h
          split at h
          · rename_i hbig; injection h with h
            exact .inr (.inr (.inr ⟨h.symm, hc, c, z, rfl, he, by omega⟩))
          · cases h
    · have : (fl &&& flagCompress == flagCompress) = false := by simpa using hc
      simp [this] at h

/-- the framers a connection makes: `newFramer`, then flag bits other than the compress bit or-ed in
    (tracing 0x02, custom payload 0x04, …) -/
def connFramer (comp : Option Codec) (version extra : UInt8) : Framer :=
  { newFramer comp version with flags := (newFramer comp version).flags ||| extra }

/-- **Every body is delivered, or the sender is told** (FULL statement, after the repair of KF-C18-2:
    props/C18.fix-KF-C18-2.diff). With a compressor that round-trips and whose Encode does not fail (or
    with none), on a framer the connection makes, for every request kind, stream and every body that
    fits a frame: EITHER the request is built (no error, no panic) and a reader with the same compressor
    gets back exactly the body, OR the compressor expanded the body over the limit and the sender gets
    ErrFrameTooBig — nothing in between (no frame that declares more than the limit). -/
theorem C18_delivered (comp : Option Codec) (version extra : UInt8) (hx : extra &&& 1 = 0)
    (hv : ValidProto (connFramer comp version extra))
    (hc : ∀ c, comp = some c → c.RoundTrips ∧ c.Total)
    (r : Req) (s : Int) (body : Bytes)
    (hsz : 9 + body.length ≤ maxFrameSize) :
    (∃ wire, (connFramer comp version extra).buildReq r s body = .ok wire ∧
      (connFramer comp version extra).decode wire =
        .ok ((connFramer comp version extra).headOf (r.headerFlags (connFramer comp version extra)) r.opcode s
              (wire.length - (connFramer comp version extra).headSize), body)) ∨
    ((connFramer comp version extra).buildReq r s body = .error .tooBig ∧
      ∃ c z, comp = some c ∧ c.enc body = .ok z ∧
        maxFrameSize < (connFramer comp version extra).headSize + z.length) := by
  have hcomp : (connFramer comp version extra).comp = comp := rfl
  have hhs : (connFramer comp version extra).headSize ≤ 9 := by unfold Framer.headSize; split <;> omega
  cases hb : (connFramer comp version extra).buildReq r s body with
  | error e =>
    rcases build_err _ _ _ s body e hb with ⟨_, hbig⟩ | ⟨he, _, _⟩ | ⟨_, _, c, u, hcc, hu⟩ | ⟨he, _, c, z, hcc, hez, hbig⟩
    · omega
    · subst he; exact absurd hb (C18_no_finish_panic comp version extra hx r s body)
    · rw [hcomp] at hcc
      obtain ⟨y, hy⟩ := (hc c hcc).2 body
      rw [hy] at hu; cases hu
    · subst he
      exact .inr ⟨rfl, c, z, hcomp ▸ hcc, hez, hbig⟩
  | ok wire =>
    refine .inl ⟨wire, rfl, ?_⟩
    have hb' : (connFramer comp version extra).build (r.headerFlags (connFramer comp version extra)) r.opcode s body = .ok wire := hb
    apply C18_transparent _ hv (fun c h => (hc c (hcomp ▸ h)).1) _ _ s body wire hb'
    rcases Framer.build_ok _ _ _ s body wire hb' with ⟨hfl, c, z, hcc, henc, hw⟩ | ⟨_, hw⟩
    · have hfit := Framer.build_ok_fits _ _ _ s body wire c z hb' hfl hcc henc
      subst hw; rw [frame_payload_length]; omega
    · subst hw; rw [frame_payload_length]; omega

example :
    let c : Codec := { enc := fun x => .ok (0xAA :: x), dec := fun y => .ok (y.drop 1) }
    ((connFramer (some c) 4 2).buildReq .query 1 [1, 2, 3]).toOption = some [4, 3, 0, 1, 7, 0, 0, 0, 4, 0xAA, 1, 2, 3] ∧
    ((connFramer (some c) 4 2).decode [4, 3, 0, 1, 7, 0, 0, 0, 4, 0xAA, 1, 2, 3]).toOption =
      some ({ version := 4, flags := 3, stream := 1, op := 7, length := 4 }, [1, 2, 3]) := by
  decide

/-! ### lz4 wrapper -/

theorem lz4Decode_be32 (b : BlockCodec) (n : Nat) (hn : n < 4294967296) (z : Bytes) :
    lz4Decode b (be32 n ++ z) = if n = 0 then .ok [] else
      (match b.decB z n with
       | .error e => .error e
       | .ok out => if out.length = n then .ok out else .error ()) := by
  have hr := readBE32_be32 n hn
  have hp : lz4Prefix (be32 n ++ z) = n := by simp [lz4Prefix, be32, hr]
  have hd : (be32 n ++ z).drop 4 = z := List.drop_left' (be32_length _)
  have hl : ¬ (be32 n ++ z).length < 4 := by simp [be32_length]
  unfold lz4Decode
  rw [if_neg hl, hp, hd]
  by_cases h0 : n = 0
  · simp [h0]
  · simp only [h0, if_false]
    cases b.decB z n with
    | error e => rfl
    | ok out => by_cases hl' : out.length = n <;> simp [hl']

/-- **The destination lz4.go allocates is large enough.** `make([]byte, CompressBlockBound(len+4))`
    minus the 4 prefix bytes is never below `CompressBlockBound(len)`: the block encoder is always
    called inside its documented no-failure domain. (An input-sized first attempt, a bound computed
    after slicing, a hand-made `len + len/255` … all break exactly this inequality.) -/
theorem C18_lz4_dst_bound (n : Nat) : blockBound n ≤ lz4DstLen n := by
  unfold lz4DstLen blockBound; omega

/-- **lz4 Encode never fails** for any body, given the documented contract of the block encoder. -/
theorem C18_lz4_encode_total (b : BlockCodec) (ht : b.TotalAtBound) (x : Bytes) :
    ∃ z, b.encB x (lz4DstLen x.length) = .ok z ∧ lz4Encode b x = .ok (be32 x.length ++ z) := by
  obtain ⟨z, hz⟩ := ht x (lz4DstLen x.length) (C18_lz4_dst_bound x.length)
  exact ⟨z, hz, by simp [lz4Encode, hz]⟩

/-- **lz4 length prefix.** Given the block codec round-trips, the wrapper round-trips for every
    body shorter than 2³² (the frame size limit is 2²⁸), including the empty body. -/
theorem C18_lz4_prefix (b : BlockCodec) (hb : b.RoundTrips) (x y : Bytes) (hx : x.length < 4294967296)
    (he : lz4Encode b x = .ok y) : lz4Decode b y = .ok x := by
  unfold lz4Encode at he
  cases hz : b.encB x (lz4DstLen x.length) with
  | error e => simp [hz] at he
  | ok z =>
    simp only [hz] at he
    injection he with he
    subst he
    rw [lz4Decode_be32 b x.length hx z]
    by_cases h0 : x.length = 0
    · have : x = [] := List.eq_nil_of_length_eq_zero h0
      simp [this]
    · have hne : x ≠ [] := fun h => h0 (by simp [h])
      simp [h0, hb x _ z hne (C18_lz4_dst_bound x.length) hz]

/-- the lz4 wrapper as a gocql Compressor satisfies the transparency hypothesis for bodies below 2³² -/
theorem C18_lz4_codec (b : BlockCodec) (hb : b.RoundTrips) (x y : Bytes) (hx : x.length < 4294967296)
    (he : (lz4 b).enc x = .ok y) : (lz4 b).dec y = .ok x := C18_lz4_prefix b hb x y hx he

/-- … and the totality hypothesis -/
theorem C18_lz4_codec_total (b : BlockCodec) (ht : b.TotalAtBound) : (lz4 b).Total := fun x =>
  let ⟨_, _, h⟩ := C18_lz4_encode_total b ht x
  ⟨_, h⟩

/-- **What an independent reader of Cassandra's lz4 framing sees** (op `lz4rt`): for every body
    below 2³² Encode succeeds, the first four bytes are the big-endian body length, the rest is a
    block that the block decoder (called directly, with a destination of that length) turns back
    into the body (a reader does not call it for length 0), and the wrapper's own Decode agrees. -/
theorem C18_lz4_delivered (b : BlockCodec) (hb : b.RoundTrips) (ht : b.TotalAtBound) (x : Bytes)
    (hx : x.length < 4294967296) :
    ∃ y, lz4Encode b x = .ok y ∧ 4 ≤ y.length ∧ lz4Prefix y = x.length ∧
         (x ≠ [] → b.decB (y.drop 4) x.length = .ok x) ∧ lz4Decode b y = .ok x := by
  obtain ⟨z, hz, he⟩ := C18_lz4_encode_total b ht x
  refine ⟨_, he, by simp [be32_length], ?_, ?_, C18_lz4_prefix b hb x _ hx he⟩
  · have hr := readBE32_be32 x.length hx
    simp [lz4Prefix, be32, hr]
  · have : (be32 x.length ++ z).drop 4 = z := List.drop_left' (be32_length _)
    rw [this]; exact fun hne => hb x _ z hne (C18_lz4_dst_bound x.length) hz

/-- FULL STATEMENT ("Encode never fails, whatever buffer strategy") does not hold for a wrapper that
    hands the block encoder LESS than the bound: kernel-checked witness of the library behaviour the
    seeded `len(data)`-sized first attempt ran into — a block encoder that honours its contract
    (total and round-tripping at the bound) yet reports a short destination as an error. -/
theorem C18_cex_short_dst_fails :
    let b : BlockCodec := { encB := fun x n => if blockBound x.length ≤ n then .ok x else .error (),
                            decB := fun z _ => .ok z }
    b.RoundTrips ∧ b.TotalAtBound ∧ b.encB [1, 2, 3] 3 = .error () := by
  refine ⟨?_, ?_, by simp [blockBound]⟩
  · intro x n z _ hn h; simp [hn] at h; simp [h]
  · intro x n hn; exact ⟨x, by simp [hn]⟩

/-- empty body: prefix 00000000, decoded without calling the block decoder -/
theorem C18_lz4_empty (b : BlockCodec) (z : Bytes) (h : b.encB [] (lz4DstLen 0) = .ok z) :
    lz4Encode b [] = .ok ([0, 0, 0, 0] ++ z) ∧ lz4Decode b ([0, 0, 0, 0] ++ z) = .ok [] := by
  simp [lz4Encode, lz4Decode, lz4Prefix, h, be32, readBE32]

/-- a prefix shorter than 4 bytes is an error -/
theorem C18_lz4_short (b : BlockCodec) (d : Bytes) (h : d.length < 4) : lz4Decode b d = .error () := by
  simp [lz4Decode, h]

/-- a failing block decode is an error (never a crash, never silently accepted) -/
theorem C18_lz4_corrupt (b : BlockCodec) (d : Bytes) (h4 : 4 ≤ d.length)
    (hn : lz4Prefix d ≠ 0) (hd : b.decB (d.drop 4) (lz4Prefix d) = .error ()) :
    lz4Decode b d = .error () := by
  have : ¬ d.length < 4 := by omega
  simp [lz4Decode, this, hn, hd]

/-- why the bound: the prefix is `uint32(len)`, so a body of exactly 2³² bytes would decode to the
    empty body. Unreachable through frames (`finish` refuses buffers above 2²⁸ bytes). -/
theorem C18_lz4_wraps (b : BlockCodec) (x y : Bytes) (hx : x.length = 4294967296)
    (he : lz4Encode b x = .ok y) : lz4Decode b y = .ok [] := by
  unfold lz4Encode at he
  cases hz : b.encB x (lz4DstLen x.length) with
  | error e => simp [hz] at he
  | ok z =>
    simp only [hz] at he
    injection he with he
    subst he
    simp [lz4Decode, lz4Prefix, be32, hx, readBE32]

example :
    let b : BlockCodec := { encB := fun x _ => .ok (0x55 :: x), decB := fun y n => .ok ((y.drop 1).take n) }
    (lz4Encode b [7, 8]).toOption = some [0, 0, 0, 2, 0x55, 7, 8] ∧
    (lz4Decode b [0, 0, 0, 2, 0x55, 7, 8]).toOption = some [7, 8] ∧
    (lz4Decode b [0, 0, 0]).toOption = none := by decide

/-- **The declared length is checked** (after the repair of KF-C18-1, props/C18.fix-KF-C18-1.diff): for
    every block codec and every input, whatever lz4 Decode returns has exactly the length its 4-byte
    prefix declares — a body whose prefix over- or under-declares is an error, never a short result.
    (Before the repair: `C18_cex_lz4_length_unchecked`, prefix 5, one byte back, no error.) -/
theorem C18_lz4_length_checked (b : BlockCodec) (d x : Bytes) (h : lz4Decode b d = .ok x) :
    x.length = lz4Prefix d := by
  unfold lz4Decode at h
  split at h
  · cases h
  split at h
  · rename_i h0; injection h with h; subst h; simp [h0]
  · cases hd : b.decB (d.drop 4) (lz4Prefix d) with
    | error e => simp [hd] at h
    | ok out =>
      simp only [hd] at h
      split at h
      · rename_i hl; injection h with h; subst h; exact hl
      · cases h

/-- the former counterexample is an error now; a block that decodes to the declared length is accepted -/
example :
    let b : BlockCodec := { encB := fun x _ => .ok x, decB := fun src n => .ok (src.take n) }
    (lz4Decode b [0, 0, 0, 5, 0x41]).toOption = none ∧ (lz4Decode b [0, 0, 0, 1, 0x41]).toOption = some [0x41] := by decide

/-! ### lz4: the block format as a concrete block codec (Model/CompressLz4Block.lean) -/

/-- **The LZ4 block format satisfies both block-codec hypotheses, for every body**: the literal-only
    block is never longer than `CompressBlockBound` (so it fits every destination lz4.go allocates),
    and the format's decoder, given a destination of exactly the body's length, gives the body back.
    `BlockCodec.RoundTrips` / `TotalAtBound` are therefore satisfiable by the real wire format. -/
theorem C18_lz4_format_codec : lz4Ref.RoundTrips ∧ lz4Ref.TotalAtBound := by
  constructor
  · intro x n z hx _ he
    simp only [lz4Ref] at he
    split at he
    · injection he with he; subst he; exact lz4LitBlock_decodes x hx
    · cases he
  · intro x n hn
    have := lz4LitBlock_length x
    exact ⟨lz4LitBlock x, by simp only [lz4Ref]; rw [if_pos (by omega)]⟩

/-- **Cassandra's lz4 framing end to end, no codec hypothesis**: for every body below 2³² bytes the
    wrapper of lz4/lz4.go around the LZ4 block format encodes (prefix = big-endian length, then ONE
    block), an independent reader of that framing gets the body, and the wrapper's own Decode does. -/
theorem C18_lz4_format_delivered (x : Bytes) (hx : x.length < 4294967296) :
    ∃ y, lz4Encode lz4Ref x = .ok y ∧ 4 ≤ y.length ∧ lz4Prefix y = x.length ∧
         (x ≠ [] → lz4BlockDecode (y.drop 4) x.length = .ok x) ∧ lz4Decode lz4Ref y = .ok x :=
  C18_lz4_delivered lz4Ref C18_lz4_format_codec.1 C18_lz4_format_codec.2 x hx

example : (lz4Encode lz4Ref [7, 8, 9]).toOption = some [0, 0, 0, 3, 0x30, 7, 8, 9] ∧
    (lz4Decode lz4Ref [0, 0, 0, 3, 0x30, 7, 8, 9]).toOption = some [7, 8, 9] ∧
    (lz4Decode lz4Ref [0, 0, 0, 0]).toOption = some [] := by decide

/-- **The LZ4 block decoder inverts EVERY encoder of the format.** For every list of sequences that
    is well-formed (matches of at least 4 bytes from 1..65535 bytes back, never from before the start of
    the output; literal and match lengths of any size, written as nibble + 255-extension bytes) and any
    last literals — whatever matcher chose them —: the block decodes, into any destination that is large
    enough, to the LZ77 meaning of the sequences; so through lz4.go's wrapper a body is delivered as soon
    as the sequences CompressBlock emits MEAN the body (second part: prefix = body length, one block). -/
theorem C18_lz4_decodes_any_stream (qs : List Lz4Sq) (last : Bytes) (hwf : lz4WF 0 qs) :
    (∀ n, (lz4Interp qs last #[]).size ≤ n →
        lz4BlockDecode (lz4Ser qs last) n = .ok (lz4Interp qs last #[]).toList) ∧
    ∀ x : Bytes, (lz4Interp qs last #[]).toList = x → x.length < 4294967296 →
      lz4Decode lz4Ref (be32 x.length ++ lz4Ser qs last) = .ok x := by
  refine ⟨fun n hn => lz4BlockDecode_stream qs last n hwf hn, fun x hx hlen => ?_⟩
  have hl : x.length = (lz4Interp qs last #[]).size := by rw [← hx]; simp
  rw [lz4Decode_be32 lz4Ref x.length hlen]
  by_cases h0 : x.length = 0
  · have : x = [] := List.eq_nil_of_length_eq_zero h0
    simp [this]
  · rw [if_neg h0]
    have hd : lz4Ref.decB (lz4Ser qs last) x.length = .ok x := by
      show lz4BlockDecode (lz4Ser qs last) x.length = .ok x
      rw [lz4BlockDecode_stream qs last x.length hwf (by omega), hx]
    simp [hd]

/-- non-vacuity: literals "AB", an overlapping match (offset 1, length 6), last literals "C" -/
example :
    let qs : List Lz4Sq := [{ lits := [0x41, 0x42], offset := 1, mlen := 6 }]
    lz4WF 0 qs ∧ lz4Ser qs [0x43] = [0x22, 0x41, 0x42, 0x01, 0x00, 0x10, 0x43] ∧
    (lz4Interp qs [0x43] #[]).toList = [0x41, 0x42, 0x42, 0x42, 0x42, 0x42, 0x42, 0x42, 0x43] ∧
    (lz4Decode lz4Ref ([0, 0, 0, 9] ++ lz4Ser qs [0x43])).toOption
      = some [0x41, 0x42, 0x42, 0x42, 0x42, 0x42, 0x42, 0x42, 0x43] := by
  refine ⟨by simp [lz4WF, Lz4Sq.wf, Lz4Sq.size], by decide, by decide, by decide⟩

/-- the format's decoder on matches: a literal then an OVERLAPPING match (offset 1: a run), then the
    last literals; and the errors of the format: offset 0, an offset before the start of the output, a
    match past the destination, literals past the input, a block that ends after a match, a length
    extension that never ends -/
theorem C18_lz4_format_examples :
    (lz4BlockDecode [0x11, 0x41, 0x01, 0x00, 0x10, 0x42] 7).toOption = some [0x41, 0x41, 0x41, 0x41, 0x41, 0x41, 0x42] ∧
    (lz4BlockDecode [0x11, 0x41, 0x00, 0x00, 0x10, 0x42] 7).toOption = none ∧
    (lz4BlockDecode [0x11, 0x41, 0x02, 0x00, 0x10, 0x42] 7).toOption = none ∧
    (lz4BlockDecode [0x11, 0x41, 0x01, 0x00, 0x10, 0x42] 6).toOption = none ∧
    (lz4BlockDecode [0x30, 0x41] 3).toOption = none ∧
    (lz4BlockDecode [0x11, 0x41, 0x01, 0x00] 7).toOption = none ∧
    (lz4BlockDecode [0xF0, 0xFF, 0xFF] 1000).toOption = none := by decide

/-- the one ending on which decoders differ: a LAST sequence without literals (token `00` right after a
    match, or alone). The format's decoder accepts it (the block ends after its last match); pierrec's
    amd64 decoder answers an error, its pure-Go decoder accepts (props `partial`; op `lz4blk` skips them). -/
example : (lz4BlockDecode [0x11, 0x41, 0x01, 0x00, 0x00] 6).toOption = some [0x41, 0x41, 0x41, 0x41, 0x41, 0x41] ∧
    (lz4BlockDecode [0x00] 6).toOption = some [] := by decide

/-- FULL STATEMENT ("a corrupt compressed body yields an error") for the detectable corruption "match
    offset 0": holds for the format's decoder — kernel-checked on the block that pierrec/lz4 v4.1.8's
    amd64 decoder ACCEPTS (it copies 8 not-yet-written destination bytes: zeros through lz4.go);
    replay input of the proposed finding KF-C18-3 (op `lz4dec … err`). -/
theorem C18_cex_lz4_zero_offset :
    (lz4Decode lz4Ref [0, 0, 0, 0x22, 0xe4, 0x41, 0x42, 0x43, 0x44, 0x45, 0x46, 0x47, 0x48, 0x49, 0x4a, 0x4b, 0x4c, 0x4d, 0x4e,
      0x00, 0x00, 0xc0, 0x50, 0x51, 0x52, 0x53, 0x54, 0x55, 0x56, 0x57, 0x58, 0x59, 0x5a, 0x5b]).toOption = none ∧
    (lz4Decode lz4Ref [0, 0, 0, 0x22, 0xe4, 0x41, 0x42, 0x43, 0x44, 0x45, 0x46, 0x47, 0x48, 0x49, 0x4a, 0x4b, 0x4c, 0x4d, 0x4e,
      0x01, 0x00, 0xc0, 0x50, 0x51, 0x52, 0x53, 0x54, 0x55, 0x56, 0x57, 0x58, 0x59, 0x5a, 0x5b]).toOption
      = some [0x41, 0x42, 0x43, 0x44, 0x45, 0x46, 0x47, 0x48, 0x49, 0x4a, 0x4b, 0x4c, 0x4d, 0x4e,
              0x4e, 0x4e, 0x4e, 0x4e, 0x4e, 0x4e, 0x4e, 0x4e,
              0x50, 0x51, 0x52, 0x53, 0x54, 0x55, 0x56, 0x57, 0x58, 0x59, 0x5a, 0x5b] := by decide

/-- the format's decoder may legitimately produce fewer bytes than the destination holds — lz4.go now
    refuses that short result (`C18_lz4_length_checked`) -/
example : (lz4BlockDecode [0x10, 0x41] 9).toOption = some [0x41] ∧
    (lz4Decode lz4Ref [0, 0, 0, 9, 0x10, 0x41]).toOption = none := by decide

/-! ### snappy: the block format as a second concrete codec (Model/CompressSnappy.lean) -/

/-- **The declared length is checked.** Whatever bytes arrive: if the snappy decoder accepts them, the
    body it returns has exactly the length the block's uvarint prefix declares (at most 2³²-1) — a body
    whose prefix over- or under-declares is an error, never a short or padded result. (The lz4 wrapper
    has it since the repair of KF-C18-1: `C18_lz4_length_checked`.) -/
theorem C18_snappy_length_checked (src b : Bytes) (h : snappyDecode src = .ok b) :
    ∃ rest, uvarint src = some (b.length, rest) ∧ b.length ≤ 0xffffffff := by
  unfold snappyDecode snappyDecodedLen at h
  cases hu : uvarint src with
  | none => simp [hu] at h
  | some p =>
    obtain ⟨v, rest⟩ := p
    simp only [hu] at h
    by_cases hv : v > 0xffffffff
    · simp [hv] at h
    · simp only [hv, if_false] at h
      cases hl : snapLoop (rest.length + 1) rest v #[] with
      | error e => simp [hl] at h
      | ok o =>
        simp only [hl, Except.ok.injEq] at h
        have hs := snapLoop_size _ _ _ _ _ hl
        subst h
        have hlen : o.toList.length = v := by rw [Array.length_toList]; exact hs
        rw [hlen]
        exact ⟨rest, rfl, by omega⟩

/-- a block without a complete length prefix is an error (empty input; a prefix that never ends) -/
theorem C18_snappy_short : (snappyDecode []).toOption = none ∧ (snappyDecode [0x80]).toOption = none ∧
    (snappyDecode [0xff, 0xff, 0xff, 0xff, 0xff, 0xff, 0xff, 0xff, 0xff, 0xff, 0x01]).toOption = none ∧
    (snappyDecode [0x80, 0x80, 0x80, 0x80, 0x10]).toOption = none := by decide

/-- corrupt blocks are errors: declared 5 but one literal byte; declared 1 but two literal bytes; a
    literal that runs past the input; a copy with offset 0; a copy reaching before the start of the
    output; a copy running past the declared length; a 2-byte literal length cut short -/
theorem C18_snappy_corrupt :
    (snappyDecode [5, 0x00, 0x41]).toOption = none ∧
    (snappyDecode [1, 0x04, 0x41, 0x42]).toOption = none ∧
    (snappyDecode [3, 0x08, 0x41]).toOption = none ∧
    (snappyDecode [5, 0x00, 0x41, 0x01, 0x00]).toOption = none ∧
    (snappyDecode [5, 0x00, 0x41, 0x01, 0x02]).toOption = none ∧
    (snappyDecode [3, 0x00, 0x41, 0x01, 0x01]).toOption = none ∧
    (snappyDecode [9, 0xf4, 0x01]).toOption = none := by decide

/-- **The snappy decoder inverts EVERY encoder of the format.** For every list of elements that is
    well-formed (literals of 1..65536 bytes; copies of 1..64 bytes from 1..65535 bytes back, never from
    before the start of the output) — whatever matcher chose them —: the block `uvarint(length) ‖`
    the elements' bytes (shortest literal header, the 1-byte-offset copy where it applies: exactly what
    golang/snappy's emitLiteral / emitCopy write) decodes to the LZ77 meaning of the elements. So an
    encoder is transparent as soon as the elements it emits MEAN its input (second part) — the decoder
    side of the round-trip hypothesis holds for all encoders at once. -/
theorem C18_snappy_decodes_any_stream (es : List SnapEl) (hwf : snapWF 0 es)
    (hlen : (snapInterp es #[]).size ≤ 0xffffffff) :
    snappyDecode (putUvarint 4 (snapInterp es #[]).size ++ snapSer es) = .ok (snapInterp es #[]).toList ∧
    ∀ x : Bytes, (snapInterp es #[]).toList = x →
      snappyDecode (putUvarint 4 x.length ++ snapSer es) = .ok x := by
  have h := snappyDecode_stream es hwf hlen
  refine ⟨h, fun x hx => ?_⟩
  have hl : x.length = (snapInterp es #[]).size := by rw [← hx]; simp
  rw [hl, h, hx]

/-- non-vacuity: a literal, an overlapping 1-byte-offset copy (a run), a 2-byte-offset copy -/
example :
    let es : List SnapEl := [.lit [0x41, 0x42], .copy 1 4, .copy 5 3]
    snapWF 0 es ∧ snapSer es = [0x04, 0x41, 0x42, 0x01, 0x01, 0x0a, 0x05, 0x00] ∧
    (snapInterp es #[]).toList = [0x41, 0x42, 0x42, 0x42, 0x42, 0x42, 0x42, 0x42, 0x42] ∧
    (snappyDecode ([9] ++ snapSer es)).toOption = some [0x41, 0x42, 0x42, 0x42, 0x42, 0x42, 0x42, 0x42, 0x42] := by
  refine ⟨by simp [snapWF, SnapEl.wf, SnapEl.size], by decide, by decide, by decide⟩

/-- non-vacuity of the decoder: a literal, then an OVERLAPPING copy (offset 1, length 4: a run), then a
    2-byte-offset copy of the first four bytes -/
example : (snappyDecode [9, 0x00, 0x41, 0x01, 0x01, 0x0e, 0x05, 0x00]).toOption
    = some [0x41, 0x41, 0x41, 0x41, 0x41, 0x41, 0x41, 0x41, 0x41] := by
  decide

/-- **The snappy format round-trips for every body below 2³² bytes**: the literal-only encoder of the
    format, decoded by the format's decoder, gives the body back — for all bodies, no hypothesis. So
    the transparency hypothesis `Codec.RoundTrips` is satisfiable by a real wire format, and Encode is
    total on that domain. -/
theorem C18_snappy_format_roundtrip (x : Bytes) (hx : x.length ≤ 0xffffffff) :
    (∃ y, snappyRef.enc x = .ok y) ∧ ∀ y, snappyRef.enc x = .ok y → snappyRef.dec y = .ok x := by
  have he : snappyRef.enc x = .ok (snappyLit x) := by simp [snappyRef, hx]
  refine ⟨⟨_, he⟩, fun y hy => ?_⟩
  rw [he] at hy; injection hy with hy; subst hy
  exact snappyLit_decodes x hx

example : (snappyRef.enc [1, 2, 3]).toOption = some [3, 8, 1, 2, 3] ∧
    (snappyRef.dec [3, 8, 1, 2, 3]).toOption = some [1, 2, 3] := by decide

/-- **End to end with a concrete format, no codec hypothesis.** On a connection whose compressor is the
    snappy format, for every request kind, version 1..5, flag bits, stream and EVERY body that fits a
    frame (compressed form included): the request is built, carries the compress bit iff the kind is
    neither STARTUP nor OPTIONS, and the reader gets back exactly the body. -/
theorem C18_snappy_format_delivered (version extra : UInt8) (hx : extra &&& 1 = 0)
    (hv : ValidProto (connFramer (some snappyRef) version extra))
    (r : Req) (s : Int) (body : Bytes)
    (hsz : 9 + body.length ≤ maxFrameSize) (hz : 9 + (snappyLit body).length ≤ maxFrameSize) :
    ∃ wire, (connFramer (some snappyRef) version extra).buildReq r s body = .ok wire ∧
      (connFramer (some snappyRef) version extra).decode wire =
        .ok ((connFramer (some snappyRef) version extra).headOf
              (r.headerFlags (connFramer (some snappyRef) version extra)) r.opcode s
              (wire.length - (connFramer (some snappyRef) version extra).headSize), body) := by
  have hlen : body.length ≤ 0xffffffff := by unfold maxFrameSize at hsz; omega
  obtain ⟨⟨y, hy⟩, hrt⟩ := C18_snappy_format_roundtrip body hlen
  have hyl : snappyRef.enc body = .ok (snappyLit body) := by simp [snappyRef, hlen]
  cases hb : (connFramer (some snappyRef) version extra).buildReq r s body with
  | error e =>
    exfalso
    have hhs9 : (connFramer (some snappyRef) version extra).headSize ≤ 9 := by unfold Framer.headSize; split <;> omega
    rcases build_err _ _ _ s body e hb with ⟨_, hbig⟩ | ⟨he, _, _⟩ | ⟨_, _, c, u, hcc, hu⟩ | ⟨_, _, c, z, hcc, hez, hbig⟩
    · omega
    · subst he; exact C18_no_finish_panic (some snappyRef) version extra hx r s body hb
    · have : c = snappyRef := by
        have h' : (connFramer (some snappyRef) version extra).comp = some snappyRef := rfl
        rw [h'] at hcc; injection hcc with hcc; exact hcc.symm
      subst this; rw [hy] at hu; cases hu
    · have : c = snappyRef := by
        have h' : (connFramer (some snappyRef) version extra).comp = some snappyRef := rfl
        rw [h'] at hcc; injection hcc with hcc; exact hcc.symm
      subst this; rw [hyl] at hez; injection hez with hez; subst hez; omega
  | ok wire =>
    refine ⟨wire, rfl, ?_⟩
    have hb' : (connFramer (some snappyRef) version extra).build
        (r.headerFlags (connFramer (some snappyRef) version extra)) r.opcode s body = .ok wire := hb
    have hcs : ∀ c, (connFramer (some snappyRef) version extra).comp = some c → c = snappyRef := by
      intro c hc
      have h' : (connFramer (some snappyRef) version extra).comp = some snappyRef := rfl
      rw [h'] at hc; injection hc with hc; exact hc.symm
    apply C18_transparent_at _ hv _ _ s body wire (fun c z hc hez => by rw [hcs c hc] at hez ⊢; exact hrt z hez) hb'
    rcases Framer.build_ok _ _ _ s body wire hb' with ⟨_, c, z, hcc, henc, hw⟩ | ⟨_, hw⟩
    · subst hw; rw [frame_payload_length]
      rw [hcs c hcc, hyl] at henc; injection henc with henc; subst henc; omega
    · subst hw; rw [frame_payload_length]; omega

example : ((connFramer (some snappyRef) 4 0).buildReq .query 1 [7, 7, 7]).toOption
    = some [4, 1, 0, 1, 7, 0, 0, 0, 5, 3, 8, 7, 7, 7] := by decide

/-! ### protocol v5: what is sent

gocql at this revision does NOT implement the v5 framing of Cassandra 4 (after STARTUP: segments of at
most 128 KiB, each with a CRC24-protected header and a CRC32 trailer, compression per SEGMENT and the
envelope's compress bit unused). FULL STATEMENT of what it sends instead, for all inputs: one
v3/v4-style envelope — 9 header bytes with version byte 5, the BETA bit 0x10 and (compressor
negotiated, kind not STARTUP/OPTIONS) the compress bit 0x01 in the flags byte, a 4-byte length, then
the WHOLE body as one compressor block — no segment header, no checksum, no 128 KiB split. -/

theorem or_andm (a b m : UInt8) : (a ||| b) &&& m = (a &&& m) ||| (b &&& m) :=
  UInt8.toBitVec_inj.1 (by simp; ext i; simp [Bool.and_or_distrib_right])

theorem and16_cases (x : UInt8) : x &&& 0x10 = 0 ∨ x &&& 0x10 = 0x10 := by
  have : ∀ x : BitVec 8, x &&& 0x10 = 0 ∨ x &&& 0x10 = 0x10 := by decide
  rcases this x.toBitVec with h | h
  · left; exact UInt8.toBitVec_inj.1 (by simpa using h)
  · right; exact UInt8.toBitVec_inj.1 (by simpa using h)

/-- **v5 frames are legacy envelopes.** For every compressor, flag bits, request kind, stream and body
    on a version-5 framer: the bytes are `05 ‖ flags ‖ stream(2) ‖ opcode ‖ be32(|payload|) ‖ payload`
    with the beta bit set, payload = Encode(body) as ONE block when the compress bit is set and the body
    itself otherwise; nothing precedes or follows. -/
theorem C18_v5_legacy_envelope (comp : Option Codec) (extra : UInt8) (r : Req) (s : Int) (body wire : Bytes)
    (h : (connFramer comp 5 extra).buildReq r s body = .ok wire) :
    ∃ fl payload,
      wire = [5, fl, byteOfInt (s / 256), byteOfInt s, r.opcode] ++ be32 payload.length ++ payload ∧
      fl &&& 0x10 = 0x10 ∧
      wire.length = 9 + payload.length ∧
      ((fl &&& flagCompress = flagCompress ∧ ∃ c, comp = some c ∧ c.enc body = .ok payload) ∨
       (fl &&& flagCompress ≠ flagCompress ∧ payload = body)) := by
  have hp : (connFramer comp 5 extra).proto = 5 := by
    show (5:UInt8) &&& 0x7f = 5; decide
  have hf : (connFramer comp 5 extra).flags &&& 0x10 = 0x10 := by
    have e : (connFramer comp 5 extra).flags = (if comp.isSome then flagCompress else 0) ||| 0x10 ||| extra := by
      simp [connFramer, newFramer]
    rw [e, or_andm, or_andm, show (0x10:UInt8) &&& 0x10 = 0x10 by decide]
    rcases and16_cases (if comp.isSome then flagCompress else 0) with h1 | h1 <;>
      rcases and16_cases extra with h2 | h2 <;> rw [h1, h2] <;> decide
  have hfl16 : (r.headerFlags (connFramer comp 5 extra)) &&& 0x10 = 0x10 := by
    cases r <;> simp only [Req.headerFlags] <;> try exact hf
    all_goals
      rw [UInt8.and_assoc, show (0xFE:UInt8) &&& 0x10 = 0x10 by decide]; exact hf
  unfold Framer.buildReq at h
  rcases Framer.build_ok _ _ _ s body wire h with ⟨hc, c, z, hcomp, henc, hw⟩ | ⟨hc, hw⟩
  · refine ⟨_, z, ?_, hfl16, ?_, .inl ⟨hc, c, hcomp, henc⟩⟩
    · rw [hw]; simp [Framer.frame, Framer.hdr5, hp]
    · rw [hw]; simp [Framer.frame, Framer.hdr5, hp, be32_length]; omega
  · refine ⟨_, body, ?_, hfl16, ?_, .inr ⟨hc, rfl⟩⟩
    · rw [hw]; simp [Framer.frame, Framer.hdr5, hp]
    · rw [hw]; simp [Framer.frame, Framer.hdr5, hp, be32_length]; omega

example :
    let c : Codec := { enc := fun x => .ok (0xAA :: x), dec := fun y => .ok (y.drop 1) }
    ((connFramer (some c) 5 0).buildReq .query 1 [1, 2, 3]).toOption = some [5, 0x11, 0, 1, 7, 0, 0, 0, 4, 0xAA, 1, 2, 3] ∧
    ((connFramer (some c) 5 0).buildReq .options 1 []).toOption = some [5, 0x10, 0, 1, 5, 0, 0, 0, 0] := by decide

/-! ### frames at the size limit

After the repair of KF-C18-2 (props/C18.fix-KF-C18-2.diff) `finish` compares the COMPRESSED frame with
the 256 MiB limit, too: a body the compressor expands over the limit is refused with ErrFrameTooBig
instead of being sent in a frame the reader refuses (`C18_expanded_over_limit_refused`; before the
repair: `C18_cex_expanded_over_limit`). `C18_delivered` is the full statement without the hypothesis
that the compressed form fits. -/

theorem readHeader_frame_wide (f : Framer) (fl op : UInt8) (s : Int) (payload : Bytes)
    (hv : f.proto = 1 ∨ f.proto = 2 ∨ f.proto = 3 ∨ f.proto = 4 ∨ f.proto = 5)
    (hn : payload.length < 2147483648) :
    readHeader (f.frame fl op s payload) = .ok (f.headOf fl op s payload.length, payload) := by
  have h32 : payload.length < 4294967296 := by omega
  have hr := readBE32_be32 payload.length h32
  have ht : toInt32 payload.length = (payload.length : Int) := by unfold toInt32; split <;> omega
  obtain ⟨proto, flags, comp⟩ := f
  simp only at hv
  have e1 : (1:UInt8) &&& 127 = 1 := by decide
  have e2 : (2:UInt8) &&& 127 = 2 := by decide
  have e3 : (3:UInt8) &&& 127 = 3 := by decide
  have e4 : (4:UInt8) &&& 127 = 4 := by decide
  have e5 : (5:UInt8) &&& 127 = 5 := by decide
  rcases hv with h | h | h | h | h <;> subst h <;>
    simp [Framer.frame, Framer.hdr5, Framer.headOf, readHeader, be32, hr, ht, e1, e2, e3, e4, e5]

/-- **A body the compressor expands over the limit is refused at the sender** (for ALL framers,
    compressors and bodies in that situation): `finish` answers ErrFrameTooBig; no frame is built. -/
theorem C18_expanded_over_limit_refused (f : Framer) (fl op : UInt8) (s : Int)
    (body z : Bytes) (c : Codec)
    (hfl : fl &&& flagCompress = flagCompress) (hcomp : f.comp = some c) (henc : c.enc body = .ok z)
    (hfit : f.headSize + body.length ≤ maxFrameSize)
    (hbig : maxFrameSize < f.headSize + z.length) :
    f.build fl op s body = .error .tooBig := by
  cases hbuild : f.build fl op s body with
  | error e =>
    rcases build_err f fl op s body e hbuild with ⟨he, _⟩ | ⟨_, _, hn⟩ | ⟨_, _, c', u, hc', hu⟩ | ⟨he, _⟩
    · rw [he]
    · rw [hcomp] at hn; cases hn
    · rw [hcomp] at hc'; injection hc' with hc'; subst hc'; rw [henc] at hu; cases hu
    · rw [he]
  | ok wire =>
    have := Framer.build_ok_fits f fl op s body wire c z hbuild hfl hcomp henc
    omega

/-- the hypotheses are satisfiable: a codec that prepends 16 bytes, any body 9 bytes under the limit -/
example (body : Bytes) (hb : body.length = maxFrameSize - 9) :
    let c : Codec := { enc := fun x => .ok (List.replicate 16 0 ++ x), dec := fun y => .ok (y.drop 16) }
    (newFramer (some c) 4).headSize + body.length ≤ maxFrameSize ∧
    (∃ z, c.enc body = .ok z ∧ maxFrameSize < (newFramer (some c) 4).headSize + z.length) := by
  intro c
  have h9 : (newFramer (some c) 4).headSize = 9 := by decide
  refine ⟨?_, List.replicate 16 0 ++ body, rfl, ?_⟩
  · rw [h9, hb]; unfold maxFrameSize; omega
  · rw [h9]; simp [hb]; unfold maxFrameSize; omega

/-- **`finish` through lengths only** (what op `big` answers with): whether a frame is built, and how
    long it is, depends on the body and on the compressor's output through their LENGTHS only. -/
theorem C18_finish_by_length (f : Framer) (fl op : UInt8) (s : Int) (body : Bytes) :
    (match f.build fl op s body with | .ok w => Except.ok w.length | .error e => .error e) =
    finishLen f.headSize (f.headSize + body.length) (fl &&& flagCompress == flagCompress)
      (f.comp.map fun c => match c.enc body with | .ok z => .ok z.length | .error e => .error e) := by
  have hl : (f.writeHeader fl op s).length = f.headSize := by
    rw [f.writeHeader_eq]; simp [f.hdr5_length]; have := f.headSize_ge; omega
  have hfl : (f.frame fl op s body).length = f.headSize + body.length := by
    have := frame_payload_length f fl op s body
    have h2 : f.headSize ≤ (f.frame fl op s body).length := by
      have := f.hdr5_length fl op s; have := f.headSize_ge
      simp [Framer.frame, be32_length]; omega
    omega
  cases hb : f.build fl op s body with
  | error e =>
    rcases build_err f fl op s body e hb with ⟨he, hbig⟩ | ⟨he, hc, hn⟩ | ⟨he, hc, c, u, hcc, hu⟩ | ⟨he, hc, c, z, hcc, hez, hbig⟩
    rotate_left 3
    · subst he
      by_cases hgt : f.headSize + body.length > maxFrameSize
      · simp [finishLen, hgt]
      · simp [finishLen, hgt, hc, hcc, hez, hbig]
    · subst he; simp [finishLen, hbig]
    · subst he
      have hnb : ¬ (f.headSize + body.length > maxFrameSize) := by
        intro hgt
        unfold Framer.build Framer.finish at hb
        simp [hl, hgt] at hb
      simp [finishLen, hnb, hc, hn]
    · subst he
      have hnb : ¬ (f.headSize + body.length > maxFrameSize) := by
        intro hgt
        unfold Framer.build Framer.finish at hb
        simp [hl, hgt] at hb
      simp [finishLen, hnb, hc, hcc, hu]
  | ok wire =>
    have hnb : ¬ (f.headSize + body.length > maxFrameSize) := by
      intro hgt
      unfold Framer.build Framer.finish at hb
      simp [hl, hgt] at hb
    rcases f.build_ok fl op s body wire hb with ⟨hc, c, z, hcc, he, hw⟩ | ⟨hc, hw⟩
    · subst hw
      have hz : (f.frame fl op s z).length = f.headSize + z.length := by
        have := frame_payload_length f fl op s z
        have h2 : f.headSize ≤ (f.frame fl op s z).length := by
          have := f.hdr5_length fl op s; have := f.headSize_ge
          simp [Framer.frame, be32_length]; omega
        omega
      have hfit : ¬ (f.headSize + z.length > maxFrameSize) := by
        have := Framer.build_ok_fits f fl op s body _ c z hb hc hcc he; omega
      simp [finishLen, hnb, hc, hcc, he, hz, hfit]
    · subst hw
      have : (fl &&& flagCompress == flagCompress) = false := by simpa using hc
      simp [finishLen, hnb, this, hfl]

/-- **`readFrame` through lengths only.** -/
theorem C18_read_by_length (f : Framer) (h : Head) (r : Bytes) :
    (match f.readFrame h r with | .ok b => Except.ok b.length | .error e => .error e) =
    readLen h.length r.length (h.flags &&& flagCompress == flagCompress)
      (f.comp.map fun c => match c.dec (r.take h.length.toNat) with | .ok b => .ok b.length | .error e => .error e) := by
  by_cases h1 : h.length < 0
  · simp [Framer.readFrame, readLen, h1]
  by_cases h2 : h.length > (maxFrameSize : Int)
  · by_cases h3 : r.length < h.length.toNat <;> simp [Framer.readFrame, readLen, h1, h2, h3]
  by_cases h3 : r.length < h.length.toNat
  · simp [Framer.readFrame, readLen, h1, h2, h3]
  by_cases hc : h.flags &&& flagCompress = flagCompress
  · cases hcomp : f.comp with
    | none => simp [Framer.readFrame, readLen, h1, h2, h3, hc, hcomp]
    | some c =>
      cases hd : c.dec (List.take h.length.toNat r) <;>
        simp [Framer.readFrame, readLen, h1, h2, h3, hc, hcomp, hd]
  · have : (h.flags &&& flagCompress == flagCompress) = false := by simpa using hc
    simp [Framer.readFrame, readLen, h1, h2, h3, this]; omega

example : finishLen 9 (9 + 100) true (some (.ok 120)) = .ok 129 ∧
    finishLen 9 (9 + 100) true (some (.ok maxFrameSize)) = .error .tooBig ∧
    readLen 120 120 true (some (.ok 100)) = .ok 100 ∧
    finishLen 9 (maxFrameSize + 1) true (some (.ok 5)) = .error .tooBig ∧
    readLen (maxFrameSize + 1) (maxFrameSize + 1) true (some (.ok 5)) = .error .tooBig :=
  ⟨by rfl, by rfl, by rfl, by rfl, by rfl⟩

/-! ### compressor errors on the send path (Model/CompressSend.lean)

FULL STATEMENT: for every request kind, whatever the compressor answers: an Encode error reaches the
caller as that error, NOTHING of the request is written, its stream is free again and the calls in
flight are untouched; every other request is on the wire whole, in order, and decodes to its body;
OPTIONS and STARTUP never call the compressor, so they cannot fail that way. -/

/-- **An Encode error leaves no trace.** For every request kind whose builder keeps the compress bit,
    on a framer with the bit set, a body that fits and a compressor that refuses it: `exec` returns the
    codec's error, the frames written and the registered calls are exactly what they were. -/
theorem C18_send_error_clean (f : Framer) (st : SendSt) (r : Req) (s : Int) (body : Bytes) (c : Codec) (u : Unit)
    (hr : Req.compressible r) (hfl : f.flags &&& flagCompress = flagCompress)
    (hcomp : f.comp = some c) (henc : c.enc body = .error u)
    (hsz : f.headSize + body.length ≤ maxFrameSize) :
    execSend f st r s body = (st, .failed .codec) := by
  unfold execSend
  cases hb : f.buildReq r s body with
  | ok w =>
    exfalso
    rcases f.build_ok _ _ s body w hb with ⟨_, c', z, hc', he', _⟩ | ⟨hn, _⟩
    · rw [hcomp] at hc'; injection hc' with hc'; subst hc'; rw [henc] at he'; cases he'
    · exact hn ((headerFlags_bit f r).2 ⟨hfl, hr⟩)
  | error e =>
    rcases build_err f _ _ s body e hb with ⟨_, hbig⟩ | ⟨_, _, hn⟩ | ⟨he, _, _⟩ | ⟨_, _, c', z, hc', hez, _⟩
    · omega
    · rw [hcomp] at hn; cases hn
    · subst he; rfl
    · rw [hcomp] at hc'; injection hc' with hc'; subst hc'; rw [henc] at hez; cases hez

/-- **OPTIONS and STARTUP never fail because of the compressor** (they never call it). -/
theorem C18_send_plain_never_codec (f : Framer) (r : Req) (hr : r = .startup ∨ r = .options)
    (s : Int) (body : Bytes) : f.buildReq r s body ≠ .error .codec := by
  intro h
  rcases build_err f _ _ s body _ h with ⟨he, _⟩ | ⟨he, _, _⟩ | ⟨_, hbit, _⟩ | ⟨he, _⟩
  rotate_left 3
  · cases he
  · cases he
  · cases he
  · have := (headerFlags_bit f r).1 hbit
    rcases hr with rfl | rfl <;> simp [Req.compressible] at this

theorem sendStep_wire (f : Framer) (st : SendSt) (op : SendOp) :
    (sendStep f st op).wire = st.wire ++ (op.frame f).toList := by
  cases op with
  | resp s => simp [sendStep, respond, SendOp.frame]
  | req r s body =>
    simp only [sendStep, execSend, SendOp.frame]
    cases hb : f.buildReq r s body <;> simp [Except.toOption]

theorem foldl_wire (f : Framer) (ops : List SendOp) : ∀ st : SendSt,
    (ops.foldl (sendStep f) st).wire = st.wire ++ ops.flatMap (fun op => (op.frame f).toList) := by
  induction ops with
  | nil => intro st; simp
  | cons op rest ih => intro st; simp [List.foldl, ih, sendStep_wire, List.append_assoc]

/-- **The wire is exactly the frames of the requests that were built**, for EVERY sequence of requests
    (any kinds, streams, bodies; Encode failing on any of them) and responses: in order, each whole,
    nothing from a failed request, nothing else. -/
theorem C18_send_wire_exact (f : Framer) (ops : List SendOp) :
    (runSend f ops).wire = ops.flatMap (fun op => (op.frame f).toList) := by
  have := foldl_wire f ops SendSt.init
  simpa [runSend, SendSt.init] using this

/-- … and each of them decodes, with the same compressor, to the body of ITS request. -/
theorem C18_send_wire_decodes (f : Framer) (hv : ValidProto f) (hc : ∀ c, f.comp = some c → c.RoundTrips)
    (ops : List SendOp) (w : Bytes) (hw : w ∈ (runSend f ops).wire)
    (hsz : w.length - f.headSize ≤ maxFrameSize) :
    ∃ r s body, SendOp.req r s body ∈ ops ∧ f.buildReq r s body = .ok w ∧
      f.decode w = .ok (f.headOf (r.headerFlags f) r.opcode s (w.length - f.headSize), body) := by
  rw [C18_send_wire_exact, List.mem_flatMap] at hw
  obtain ⟨op, hop, hwf⟩ := hw
  cases op with
  | resp s => simp [SendOp.frame] at hwf
  | req r s body =>
    simp only [SendOp.frame, Option.mem_toList] at hwf
    cases hb : f.buildReq r s body with
    | error e => simp [hb, Except.toOption] at hwf
    | ok w' =>
      simp [hb, Except.toOption] at hwf
      subst hwf
      exact ⟨r, s, body, hop, hb, C18_transparent f hv hc _ _ s body w' hb hsz⟩

/-- non-vacuity: three requests on a connection whose compressor refuses bodies starting with 0xEE;
    the second fails: two frames on the wire, the OPTIONS one uncompressed -/
example :
    let c : Codec := { enc := fun x => if x.head? = some 0xEE then .error () else .ok (0xAA :: x),
                       dec := fun y => .ok (y.drop 1) }
    let f := newFramer (some c) 4
    (runSend f [.req .query 1 [1, 2], .req .execute 2 [0xEE, 3], .req .options 3 [], .resp 1]).wire
      = [[4, 1, 0, 1, 7, 0, 0, 0, 3, 0xAA, 1, 2], [4, 0, 0, 3, 5, 0, 0, 0, 0]] ∧
    (runSend f [.req .query 1 [1, 2], .req .execute 2 [0xEE, 3], .req .options 3 [], .resp 1]).calls = [3] := by
  decide

/-! ### negotiation -/

/-- **Negotiation.** The configured compressor survives startup iff its name is in the server's
    COMPRESSION list; the STARTUP frame names it iff it survives; and when it does not survive every
    later frame (built by `newFramer nil`) has the compress bit clear and carries the body verbatim. -/
theorem C18_negotiation (c : Option Named) (supported : List (String × List String)) :
    (∀ n, c = some n →
        ((connCompressor c supported).isSome ↔ n.name ∈ lookup supported "COMPRESSION") ∧
        (negotiate (some n.name) supported).startupOpt =
          (if n.name ∈ lookup supported "COMPRESSION" then some n.name else none)) ∧
    (c = none → (connCompressor c supported).isNone ∧ (negotiate none supported).startupOpt = none) ∧
    (∀ version extra r s body wire, extra &&& 1 = 0 →
        ({ newFramer none version with flags := (newFramer none version).flags ||| extra } : Framer).buildReq r s body = .ok wire →
        wire.getD 1 0 &&& flagCompress ≠ flagCompress ∧
        wire.drop (newFramer none version).headSize = body) := by
  refine ⟨?_, ?_, ?_⟩
  · intro n hn
    subst hn
    by_cases hm : n.name ∈ lookup supported "COMPRESSION"
    · simp [connCompressor, negotiate, hm]
    · simp [connCompressor, negotiate, hm]
  · intro hn; subst hn; simp [connCompressor, negotiate]
  · intro version extra r s body wire hx h
    have ⟨h1, _, h3⟩ := C18_flag_iff _ r s body wire h
    have hv : ((if version == 5 then (0x10:UInt8) else 0) &&& 1) = 0 := by split <;> decide
    have hbit : ((newFramer none version).flags ||| extra) &&& 1 = 0 := by
      simp only [newFramer, Option.isSome_none, Bool.false_eq_true, if_false, UInt8.zero_or]
      rw [or_and1, hv, hx]; decide
    have hn : ¬ (wire.getD 1 0 &&& flagCompress = flagCompress) := by
      rw [h1]; rintro ⟨hf, _⟩
      simp only [flagCompress] at hf
      rw [hbit] at hf; exact absurd hf (by decide)
    exact ⟨hn, h3 hn⟩

example : (negotiate (some "lz4") [("COMPRESSION", ["snappy", "lz4"])]).keep = true ∧
          (negotiate (some "lz4") [("COMPRESSION", ["snappy"])]).keep = false ∧
          (negotiate (some "lz4") [("CQL_VERSION", ["3.4.5"])]).startupOpt = none := by decide

/-! ### unexpected / corrupt compressed responses -/

/-- `readFrame` never panics: every outcome is a value or one of the error values. -/
theorem readFrame_no_panic (f : Framer) (h : Head) (r : Bytes) : f.readFrame h r ≠ .error .panic := by
  unfold Framer.readFrame
  split
  · simp
  split
  · split <;> simp
  split
  · simp
  split
  · cases f.comp with
    | none => simp
    | some c => cases hd : c.dec (List.take h.length.toNat r) <;> simp [hd]
  · simp


/-- **Unexpected compressed response / corrupt body.** A frame with the compress bit on a connection
    without compressor is an error value ("no compressor available…"), and a body the compressor
    rejects is an error value; in no case a crash. -/
theorem C18_unexpected_compressed (f : Framer) (h : Head) (r : Bytes)
    (hflag : h.flags &&& flagCompress = flagCompress)
    (h0 : 0 ≤ h.length) (hmax : h.length ≤ maxFrameSize) (hr : h.length.toNat ≤ r.length) :
    (f.comp = none → f.readFrame h r = .error .noCompressor) ∧
    (∀ c, f.comp = some c → c.dec (r.take h.length.toNat) = .error () → f.readFrame h r = .error .codec) ∧
    (∀ r', f.readFrame h r' ≠ .error .panic) := by
  have h1 : ¬ h.length < 0 := by omega
  have h2 : ¬ h.length > (maxFrameSize : Int) := by omega
  have h3 : ¬ r.length < h.length.toNat := by omega
  refine ⟨?_, ?_, fun r' => readFrame_no_panic f h r'⟩
  · intro hc; simp [Framer.readFrame, h1, h2, h3, hflag, hc]
  · intro c hc hd; simp [Framer.readFrame, h1, h2, h3, hflag, hc, hd]

example : (newFramer none 4).readFrame { version := 0x84, flags := 1, stream := 0, op := 8, length := 2 } [1, 2]
    = .error .noCompressor := by rfl

/-! ### compressed frames on EVERY receive path (Model/CompressRecv.lean)

FULL STATEMENT: whatever frame arrives on whatever stream — a response to a waiting call, a server
event (stream -1), a reserved stream, a stream nobody waits on, one of the two responses of the
handshake — with the compression flag and no (negotiated) compressor, or with a body the compressor
rejects: the outcome is an error handed to the caller or the connection closed with that error;
never a crash of the reader goroutine, never an event / a response with some other body. Holds for
the code that exists (the event branch returns the error of readFrame); does not hold for the
variant that only logs it (`C18_cex_event_log_only`). -/

/-- **No receive path crashes**: for every compressor, version, set of waiting calls, header and
    bytes on the wire, `recv` never dereferences the header of a framer whose readFrame failed. -/
theorem C18_recv_no_crash (comp : Option Codec) (version : UInt8) (ns : Int) (calls : List Int)
    (h : Head) (r : Bytes) : recv .ret comp version ns calls h r ≠ .crash := by
  unfold recv
  split
  · simp
  split
  · unfold Framer.readInto
    cases hr : (newFramer comp version).readFrame h r <;> simp [handleEvent]
  split
  · cases hr : (newFramer comp version).readFrame h r <;> simp
  split <;> simp

/-- **A compressed frame without compressor / a rejected body is an error on every path.** With the
    compress bit set, a body that is fully there, and either no compressor on the connection or a
    compressor that rejects the body: the event path and the reserved streams close the connection
    with exactly that error, a waiting call gets exactly that error; no path produces an event or a
    successful response. -/
theorem C18_recv_compressed_error (comp : Option Codec) (version : UInt8) (ns : Int) (calls : List Int)
    (h : Head) (r : Bytes)
    (hflag : h.flags &&& flagCompress = flagCompress)
    (h0 : 0 ≤ h.length) (hmax : h.length ≤ maxFrameSize) (hr : h.length.toNat ≤ r.length)
    (hbad : comp = none ∨ ∃ c, comp = some c ∧ c.dec (r.take h.length.toNat) = .error ()) :
    ∃ e, (e = .noCompressor ∨ e = .codec) ∧
      (h.stream ≤ ns → h.stream ≤ 0 → recv .ret comp version ns calls h r = .close (.read e)) ∧
      (h.stream ≤ ns → 0 < h.stream → h.stream ∈ calls →
          recv .ret comp version ns calls h r = .deliver h.stream (.error e)) ∧
      (∀ h' b, recv .ret comp version ns calls h r ≠ .event h' b) ∧
      (∀ s b, recv .ret comp version ns calls h r ≠ .deliver s (.ok b)) := by
  have hU := C18_unexpected_compressed (newFramer comp version) h r hflag h0 hmax hr
  have hcomp : (newFramer comp version).comp = comp := rfl
  have hread : ∃ e, (e = Err.noCompressor ∨ e = Err.codec) ∧ (newFramer comp version).readFrame h r = .error e := by
    rcases hbad with hn | ⟨c, hc, hd⟩
    · exact ⟨_, .inl rfl, hU.1 (hcomp ▸ hn)⟩
    · exact ⟨_, .inr rfl, hU.2.1 c (hcomp ▸ hc) hd⟩
  obtain ⟨e, he, hrf⟩ := hread
  refine ⟨e, he, ?_, ?_, ?_, ?_⟩
  · intro hns hle
    have h1 : ¬ h.stream > ns := by omega
    unfold recv
    rw [if_neg h1]
    by_cases hm : h.stream = -1
    · rw [if_pos hm]; simp [Framer.readInto, hrf]
    · rw [if_neg hm, if_pos hle]; simp [hrf]
  · intro hns hpos hmem
    have h1 : ¬ h.stream > ns := by omega
    have h2 : ¬ h.stream = -1 := by omega
    have h3 : ¬ h.stream ≤ 0 := by omega
    have h4 : calls.contains h.stream = true := by simpa using hmem
    unfold recv
    rw [if_neg h1, if_neg h2, if_neg h3, if_pos h4, hrf]
  · intro h' b
    unfold recv
    split
    · simp
    split
    · simp [Framer.readInto, hrf]
    split
    · simp [hrf]
    split <;> simp
  · intro s b
    unfold recv
    split
    · simp
    split
    · simp [Framer.readInto, hrf, handleEvent]
    split
    · simp [hrf]
    split
    · simp [hrf]
    · simp

/-- **What the peer encoded is what every path hands on.** If the frame on the wire decodes (by
    `C18_transparent`: whenever the peer built it from `body` with a compressor that round-trips, or
    without compression), the event path hands exactly `body` to the session and a waiting call gets
    exactly `body`. -/
theorem C18_recv_transparent (comp : Option Codec) (version : UInt8) (ns : Int) (calls : List Int)
    (wire : Bytes) (h : Head) (body : Bytes)
    (hd : (newFramer comp version).decode wire = .ok (h, body)) :
    ∃ rest, readHeader wire = .ok (h, rest) ∧
      (h.stream ≤ ns → h.stream = -1 → recv .ret comp version ns calls h rest = .event h body) ∧
      (h.stream ≤ ns → 0 < h.stream → h.stream ∈ calls →
          recv .ret comp version ns calls h rest = .deliver h.stream (.ok body)) := by
  unfold Framer.decode at hd
  cases hh : readHeader wire with
  | error e => simp [hh] at hd
  | ok p =>
    obtain ⟨h1, rest⟩ := p
    simp only [hh] at hd
    cases hf : (newFramer comp version).readFrame h1 rest with
    | error e => simp [hf] at hd
    | ok b =>
      simp only [hf, Except.ok.injEq, Prod.mk.injEq] at hd
      obtain ⟨rfl, rfl⟩ := hd
      refine ⟨rest, rfl, ?_, ?_⟩
      · intro hns hm
        have h1' : ¬ h1.stream > ns := by omega
        unfold recv
        rw [if_neg h1', if_pos hm]
        simp [Framer.readInto, hf, handleEvent]
      · intro hns hpos hmem
        have h1' : ¬ h1.stream > ns := by omega
        have h2 : ¬ h1.stream = -1 := by omega
        have h3 : ¬ h1.stream ≤ 0 := by omega
        have h4 : calls.contains h1.stream = true := by simpa using hmem
        unfold recv
        rw [if_neg h1', if_neg h2, if_neg h3, if_pos h4, hf]

/-- FULL STATEMENT ("no receive path crashes, whatever recv does with a readFrame error") is false for
    the variant of the event branch that logs the error and goes on: kernel-checked witness — a
    two-byte EVENT frame with the compress bit on a connection without compressor; also the replay
    input for the real code (op `rx`, step `e=1/…`). -/
theorem C18_cex_event_log_only :
    recv .logOnly none 4 32768 [] { version := 0x84, flags := 1, stream := -1, op := 12, length := 2 } [1, 2] = .crash ∧
    recv .ret none 4 32768 [] { version := 0x84, flags := 1, stream := -1, op := 12, length := 2 } [1, 2]
      = .close (.read .noCompressor) := by
  decide

/-- **The handshake.** The two responses of the handshake go through the same readFrame: the result
    is an error value or the compressor negotiated against the SUPPORTED body that was actually read;
    a compressed SUPPORTED without a configured compressor, and a compressed READY on a connection
    that negotiated none, are the error "no compressor"; never a crash. -/
theorem C18_handshake (c : Option Named) (version : UInt8) (parse : Bytes → Supported)
    (sh : Head) (sr : Bytes) (rh : Head) (rr : Bytes) :
    (∀ res, handshake c version parse sh sr rh rr = .ok res →
        ∃ b, (newFramer (c.map (·.codec)) version).readFrame sh sr = .ok b ∧ res = connCompressor c (parse b)) ∧
    (sh.flags &&& flagCompress = flagCompress → 0 ≤ sh.length → sh.length ≤ maxFrameSize →
        sh.length.toNat ≤ sr.length → c = none →
        handshake c version parse sh sr rh rr = .error .noCompressor) ∧
    (∀ b, (newFramer (c.map (·.codec)) version).readFrame sh sr = .ok b →
        rh.flags &&& flagCompress = flagCompress → 0 ≤ rh.length → rh.length ≤ maxFrameSize →
        rh.length.toNat ≤ rr.length → connCompressor c (parse b) = none →
        handshake c version parse sh sr rh rr = .error .noCompressor) ∧
    handshake c version parse sh sr rh rr ≠ .error .panic := by
  refine ⟨?_, ?_, ?_, ?_⟩
  · intro res hres
    unfold handshake at hres
    cases hs : (newFramer (c.map (·.codec)) version).readFrame sh sr with
    | error e => simp [hs] at hres
    | ok b =>
      simp only [hs] at hres
      cases hq : (newFramer ((connCompressor c (parse b)).map (·.codec)) version).readFrame rh rr with
      | error e => simp [hq] at hres
      | ok b' =>
        simp only [hq, Except.ok.injEq] at hres
        exact ⟨b, rfl, hres.symm⟩
  · intro hf h0 hmax hr hc
    subst hc
    have := (C18_unexpected_compressed (newFramer none version) sh sr hf h0 hmax hr).1 rfl
    simp [handshake, this]
  · intro b hs hf h0 hmax hr hn
    have := (C18_unexpected_compressed (newFramer none version) rh rr hf h0 hmax hr).1 rfl
    simp [handshake, hs, hn, this]
  · unfold handshake
    cases hs : (newFramer (c.map (·.codec)) version).readFrame sh sr with
    | error e =>
      simp only [hs]
      intro hp; injection hp with hp; subst hp
      exact readFrame_no_panic _ _ _ hs
    | ok b =>
      simp only [hs]
      cases hq : (newFramer ((connCompressor c (parse b)).map (·.codec)) version).readFrame rh rr with
      | error e =>
        simp only [hq]
        intro hp; injection hp with hp; subst hp
        exact readFrame_no_panic _ _ _ hq
      | ok b' => simp [hq]

/-! ### negotiation is a function of THIS connection's SUPPORTED answer

FULL STATEMENT: over any history of connections to one host (pool fill and refill, reconnects, the
control connection; one long-lived HostInfo), whatever the node advertised on earlier connections:
each connection sends OPTIONS, its STARTUP names a compressor only from the set advertised on THIS
connection, and its frames are compressed only if that happened. Holds for the code that exists (no
state is carried from one connection to the next); refuted for the variant that keeps the first
SUPPORTED answer on the HostInfo (`C18_cex_cached_supported`). -/

theorem runHist_perConn (name : Option String) (st : Option Supported) (advs : List Supported) :
    runHist .perConn name st advs =
      advs.map (fun adv => ({ optionsSent := true, nego := negotiate name adv } : ConnObs)) := by
  induction advs generalizing st with
  | nil => rfl
  | cons a rest ih => simp [runHist, connect, ih]

/-- **Negotiation per connection.** For every configured compressor name, every history of
    advertisements (any length, any changes between connections) and whatever the HostInfo carried
    before: the i-th connection sends OPTIONS, negotiates exactly `negotiate name (advs i)`; its
    STARTUP COMPRESSION value, if any, is the configured name and is in the set advertised on this
    connection; the compressor is kept iff that is so. -/
theorem C18_negotiation_per_connection (name : Option String) (st : Option Supported)
    (advs : List Supported) (i : Nat) (o : ConnObs) (adv : Supported)
    (ho : (runHist .perConn name st advs)[i]? = some o) (ha : advs[i]? = some adv) :
    o.optionsSent = true ∧ o.nego = negotiate name adv ∧
    (∀ n, o.nego.startupOpt = some n → name = some n ∧ n ∈ lookup adv "COMPRESSION") ∧
    (o.nego.keep = true ↔ ∃ n, name = some n ∧ n ∈ lookup adv "COMPRESSION") := by
  rw [runHist_perConn, List.getElem?_map, ha] at ho
  simp only [Option.map_some, Option.some.injEq] at ho
  subst ho
  refine ⟨rfl, rfl, ?_, ?_⟩
  · intro n hn
    cases name with
    | none => simp [negotiate] at hn
    | some m =>
      by_cases hm : m ∈ lookup adv "COMPRESSION"
      · simp [negotiate, hm] at hn; subst hn; exact ⟨rfl, hm⟩
      · simp [negotiate, hm] at hn
  · cases name with
    | none => simp [negotiate]
    | some m =>
      by_cases hm : m ∈ lookup adv "COMPRESSION" <;> simp [negotiate, hm]

example : runHist .perConn (some "snappy") none
      [[("COMPRESSION", ["snappy", "lz4"])], [("COMPRESSION", ["lz4"])], [], [("COMPRESSION", ["snappy"])]]
    = [⟨true, ⟨true, some "snappy"⟩⟩, ⟨true, ⟨false, none⟩⟩, ⟨true, ⟨false, none⟩⟩, ⟨true, ⟨true, some "snappy"⟩⟩] := by
  decide

/-- the cached variant violates it: the node first advertises snappy and lz4, then lz4 only; the
    second connection sends no OPTIONS and asks for snappy, which was not advertised on it. Also the
    replay history for the real code (op `negoh snappy oCOMPRESSION=snappy,lz4 oCOMPRESSION=lz4`). -/
theorem C18_cex_cached_supported :
    (runHist .cached (some "snappy") none [[("COMPRESSION", ["snappy", "lz4"])], [("COMPRESSION", ["lz4"])]])[1]?
      = some ⟨false, ⟨true, some "snappy"⟩⟩ ∧
    "snappy" ∉ lookup [("COMPRESSION", ["lz4"])] "COMPRESSION" := by
  decide

/-! ### negotiation is a function of THIS connection's host

FULL STATEMENT: in one session over several hosts whose SUPPORTED sets differ (and change), every
connection negotiates against what ITS host advertises on THAT connection: a host that does not list
the configured compressor is NOT refused — the connection is established, its STARTUP carries no
COMPRESSION and all its frames are uncompressed — while connections of the same session to hosts
that list it are compressed; nothing carries over from one host to another. Holds for the code that
exists; refuted for a session-wide cache of the first answer (`C18_cex_session_cached_supported`). -/

theorem runHosts_perConn (name : Option String) (st : Option Supported) (conns : List (Nat × Supported)) :
    runHosts .perConn name st conns =
      conns.map (fun c => (c.1, ({ optionsSent := true, nego := negotiate name c.2 } : ConnObs))) := by
  induction conns generalizing st with
  | nil => rfl
  | cons a rest ih => obtain ⟨h, adv⟩ := a; simp [runHosts, connect, ih]

/-- **Negotiation per host.** For every configured compressor name, every history of connections of
    one session (any hosts, any advertisements, in any order) and whatever was seen before: the i-th
    connection belongs to its host, sends OPTIONS, negotiates exactly `negotiate name adv` for what THAT
    host advertises on it; it keeps the compressor iff the name is in that set; and when it does not,
    every request on it (framer `newFramer none`) has the compress bit clear and the body verbatim. -/
theorem C18_negotiation_per_host (name : Option String) (st : Option Supported)
    (conns : List (Nat × Supported)) (i h : Nat) (o : ConnObs) (h' : Nat) (adv : Supported)
    (ho : (runHosts .perConn name st conns)[i]? = some (h, o)) (ha : conns[i]? = some (h', adv)) :
    h = h' ∧ o.optionsSent = true ∧ o.nego = negotiate name adv ∧
    (o.nego.keep = true ↔ ∃ n, name = some n ∧ n ∈ lookup adv "COMPRESSION") ∧
    (o.nego.keep = false → o.nego.startupOpt = none ∧
      ∀ version extra r s body wire, extra &&& 1 = 0 →
        (connFramer none version extra).buildReq r s body = .ok wire →
        wire.getD 1 0 &&& flagCompress ≠ flagCompress ∧ wire.drop (newFramer none version).headSize = body) := by
  rw [runHosts_perConn, List.getElem?_map, ha] at ho
  simp only [Option.map_some, Option.some.injEq, Prod.mk.injEq] at ho
  obtain ⟨rfl, rfl⟩ := ho
  refine ⟨rfl, rfl, rfl, ?_, ?_⟩
  · cases name with
    | none => simp [negotiate]
    | some m => by_cases hm : m ∈ lookup adv "COMPRESSION" <;> simp [negotiate, hm]
  · intro hk
    refine ⟨?_, fun version extra r s body wire hx hb => (C18_negotiation none []).2.2 version extra r s body wire hx hb⟩
    cases name with
    | none => simp [negotiate]
    | some m =>
      by_cases hm : m ∈ lookup adv "COMPRESSION"
      · simp [negotiate, hm] at hk
      · simp [negotiate, hm]

example : runHosts .perConn (some "snappy") none
      [(0, [("COMPRESSION", ["snappy", "lz4"])]), (1, [("COMPRESSION", ["lz4"])]), (2, []), (0, [("COMPRESSION", ["snappy"])])]
    = [(0, ⟨true, ⟨true, some "snappy"⟩⟩), (1, ⟨true, ⟨false, none⟩⟩), (2, ⟨true, ⟨false, none⟩⟩), (0, ⟨true, ⟨true, some "snappy"⟩⟩)] := by
  decide

/-- the session-wide cache violates it: host 0 lists snappy, host 1 lists lz4 only; the connection to
    host 1 sends no OPTIONS and asks for snappy, which host 1 never advertised. Also the replay history
    for the real code (op `negom snappy 1 2 a0=COMPRESSION=snappy a1=COMPRESSION=lz4 s`). -/
theorem C18_cex_session_cached_supported :
    (runHosts .cached (some "snappy") none [(0, [("COMPRESSION", ["snappy"])]), (1, [("COMPRESSION", ["lz4"])])])[1]?
      = some (1, ⟨false, ⟨true, some "snappy"⟩⟩) ∧
    "snappy" ∉ lookup [("COMPRESSION", ["lz4"])] "COMPRESSION" := by
  decide

/-! ### ownership of the buffers that cross the compressor boundary (Model/CompressHeap.lean)

FULL STATEMENT of the sub-property: whatever the compressor does with memory, a result that somebody
still holds — the body `readFrame` left in the framer a caller / an Iter is still reading, an `Encode`
result — shows the value the call returned, however many codec calls of whatever sizes, in whatever
order, on whatever connection, run afterwards, and whatever the callers do to their input buffers
afterwards. That holds for the discipline of the code that exists (`fresh`: a new buffer per result —
`snappy.Decode(nil, …)`, `snappy.Encode(nil, …)`, `make` in lz4.go, a new framer per response in
Conn.recv): theorems below, for ALL op sequences. It does not hold for every discipline: kernel-checked
counterexamples for a pooled-and-returned result buffer and for a result that aliases the input. -/

/-- **Held results are never modified by later operations.** For every function table (any codec),
    every op sequence (hold / drop / caller scribbling over its inputs, any number, any sizes): a
    result that is held at the end shows exactly the value its call returned, and that value is what
    the function gives for the slot's argument — independent of everything that ran in between. -/
theorem C18_held_intact (F : Dir → Bytes → Except Unit Bytes) (ops : List Op) (k : Nat) (sl : Slot)
    (h : (run .fresh F ops).lookup k = some sl) :
    F sl.dir sl.arg = .ok sl.want ∧ (run .fresh F ops).heap.read sl.res = sl.want :=
  have ⟨_, _, h3, h4⟩ := (good_run F ops).ok k sl (mem_of_lookupSlot h)
  ⟨h4, h3⟩

/-- op `chk` answers with the specification's value: what the function gives for that slot's input -/
theorem C18_chk_spec (F : Dir → Bytes → Except Unit Bytes) (ops : List Op) (k : Nat) (b : Bytes)
    (h : (run .fresh F ops).chk k = some b) :
    ∃ sl, (run .fresh F ops).lookup k = some sl ∧ F sl.dir sl.arg = .ok b := by
  unfold St.chk at h
  cases hl : (run .fresh F ops).lookup k with
  | none => simp [hl] at h
  | some sl =>
    have ⟨h1, h2⟩ := C18_held_intact F ops k sl hl
    simp only [hl, Option.map_some, Option.some.injEq] at h
    exact ⟨sl, rfl, by rw [← h, h2]; exact h1⟩

/-- **… whatever runs later.** A slot that holds `sl` after `ops₁` holds the same slice with the same
    bytes after any continuation `ops₂` that does not itself re-use or drop that slot. -/
theorem C18_held_stable (F : Dir → Bytes → Except Unit Bytes) (ops₁ ops₂ : List Op) (k : Nat) (sl : Slot)
    (h : (run .fresh F ops₁).lookup k = some sl) (hn : ∀ op ∈ ops₂, op.touches k = false) :
    (run .fresh F (ops₁ ++ ops₂)).lookup k = some sl ∧
    (run .fresh F (ops₁ ++ ops₂)).heap.read sl.res = (run .fresh F ops₁).heap.read sl.res := by
  have hl : (run .fresh F (ops₁ ++ ops₂)).lookup k = some sl := by
    unfold run; rw [List.foldl_append]
    rw [lookup_foldl .fresh F k ops₂ hn]; exact h
  exact ⟨hl, by rw [(C18_held_intact F _ k sl hl).2, (C18_held_intact F _ k sl h).2]⟩

/-- **Codec calls do not write to their callers' buffers.** Whatever calls run later (any number,
    no `mutIn` by the caller itself): the input buffer of a held slot — and in fact every buffer that
    existed — shows the same bytes. -/
theorem C18_input_untouched (F : Dir → Bytes → Except Unit Bytes) (ops₁ ops₂ : List Op) (k : Nat) (sl : Slot)
    (h : (run .fresh F ops₁).lookup k = some sl)
    (hn : ∀ op ∈ ops₂, ∀ k' i x, op ≠ .mutIn k' i x) :
    (run .fresh F (ops₁ ++ ops₂)).heap.read sl.inp = (run .fresh F ops₁).heap.read sl.inp := by
  have hid : sl.inp.id < (run .fresh F ops₁).heap.mem.length :=
    ((good_run F ops₁).ok k sl (mem_of_lookupSlot h)).2.1
  apply read_congr
  unfold run; rw [List.foldl_append]
  exact buf_foldl_noMut F ops₂ hn _ _ hid

/-- **Several responses in flight.** On a connection whose framer `f` carries a compressor that
    round-trips, for EVERY sequence of boundary crossings (responses received on this or other
    connections, requests encoded, in any number, sizes and order): whoever still holds the body of a
    response the server built from `body` reads `body`; a held `Decode` result of the server's
    `Encode(body)` reads `body`; a held `Encode` result still decodes to its argument. -/
theorem C18_inflight_delivered (f : Framer) (hv : ValidProto f) (c : Codec) (hcomp : f.comp = some c)
    (hc : c.RoundTrips) (ops : List Op) (k : Nat) (sl : Slot)
    (h : (run .fresh (connF f c) ops).lookup k = some sl) :
    (∀ fl op s body, sl.dir = .recv → f.build fl op s body = .ok sl.arg →
        sl.arg.length - f.headSize ≤ maxFrameSize →
        (run .fresh (connF f c) ops).heap.read sl.res = body) ∧
    (∀ body, sl.dir = .dec → c.enc body = .ok sl.arg →
        (run .fresh (connF f c) ops).heap.read sl.res = body) ∧
    (sl.dir = .enc → c.dec ((run .fresh (connF f c) ops).heap.read sl.res) = .ok sl.arg) := by
  have ⟨hF, hr⟩ := C18_held_intact (connF f c) ops k sl h
  rw [hr]
  refine ⟨fun fl op s body hd hb hsz => ?_, fun body hd he => ?_, fun hd => ?_⟩
  · have ht := C18_transparent f hv (fun c' h' => by rw [hcomp] at h'; injection h' with h'; subst h'; exact hc)
      fl op s body sl.arg hb hsz
    rw [hd] at hF
    simp only [connF, ht] at hF
    injection hF with hF; exact hF.symm
  · rw [hd] at hF
    simp only [connF, hc body sl.arg he] at hF
    injection hF with hF; exact hF.symm
  · rw [hd] at hF
    exact hc sl.arg sl.want hF

theorem tagCodec_roundTrips : tagCodec.RoundTrips := by
  intro x y h
  simp only [tagCodec] at h
  injection h with h; subst h; rfl

theorem tagCodec_total : tagCodec.Total := fun _ => ⟨_, rfl⟩

/-- non-vacuity: three results of different sizes held across later calls and a scribbled input -/
example :
    let s := run .fresh (connF (newFramer (some tagCodec) 4) tagCodec)
      [.hold 0 .dec [0x5A, 1, 2, 3], .hold 1 .dec [0x5A, 9, 8, 7], .hold 2 .enc [4, 4],
       .hold 3 .recv [0x84, 1, 0, 1, 8, 0, 0, 0, 3, 0x5A, 6, 6], .mutIn 0 1 0xFF, .hold 4 .dec [0x5A], .drop 1]
    s.chk 0 = some [1, 2, 3] ∧ s.chk 1 = none ∧ s.chk 2 = some [0x5A, 4, 4] ∧ s.chk 3 = some [6, 6] ∧
    s.chk 4 = some [] ∧ s.input 0 = some [0x5A, 0xFE, 2, 3] := by decide

/-- FULL STATEMENT ("held results stay intact under EVERY memory discipline of the compressor") is
    false. Kernel-checked witness for the pooled-and-returned result buffer (`buf := pool.Get();
    defer pool.Put(buf); return snappy.Decode(buf, data)`): two responses, the second decoded while the
    first is still held and not longer than the recycled buffer — the holder of the first reads the
    bytes of the second. This is also the replay input for the real code (op `held`). -/
theorem C18_cex_pooled_result :
    let s := run .pooled (connF (newFramer (some tagCodec) 4) tagCodec)
      [.hold 0 .dec [0x5A, 1, 2, 3], .hold 1 .dec [0x5A, 9, 8, 7]]
    (s.lookup 0).map (·.want) = some [1, 2, 3] ∧ s.chk 0 = some [9, 8, 7] ∧ s.chk 1 = some [9, 8, 7] := by
  decide

/-- … the same through the receive path of a connection: two compressed responses in flight (streams
    1 and 2), the caller of stream 1 parses after stream 2 was received; a SHORTER second body leaves a
    mixture; a LONGER one does not fit the recycled buffer and leaves the first intact (why strictly
    sequential use, or growing sizes, never show it). -/
theorem C18_cex_pooled_inflight :
    let F := connF (newFramer (some tagCodec) 4) tagCodec
    let wA : Bytes := [0x84, 1, 0, 1, 8, 0, 0, 0, 4, 0x5A, 1, 2, 3]
    let wB : Bytes := [0x84, 1, 0, 2, 8, 0, 0, 0, 3, 0x5A, 9, 8]
    let wC : Bytes := [0x84, 1, 0, 3, 8, 0, 0, 0, 5, 0x5A, 7, 7, 7, 7]
    (run .pooled F [.hold 1 .recv wA, .hold 2 .recv wB]).chk 1 = some [9, 8, 3] ∧
    (run .pooled F [.hold 1 .recv wA, .hold 3 .recv wC]).chk 1 = some [1, 2, 3] ∧
    (run .fresh F [.hold 1 .recv wA, .hold 2 .recv wB, .hold 3 .recv wC]).chk 1 = some [1, 2, 3] := by
  decide

/-- … and for a result that is a sub-slice of the caller's input (a block handed back without a copy):
    the caller re-using its input buffer afterwards changes the held result. -/
theorem C18_cex_alias_input :
    let s := run .aliasInput (connF (newFramer (some tagCodec) 4) tagCodec)
      [.hold 0 .dec [0x5A, 1, 2, 3], .mutIn 0 1 0xFF]
    (s.lookup 0).map (·.want) = some [1, 2, 3] ∧ s.chk 0 = some [0xFE, 2, 3] := by
  decide

/-- the instance the model driver answers ops `held` / `flight` with (framer of a v4 connection whose
    compressor is `tagCodec`): the hypotheses of `C18_inflight_delivered` hold for it, so a consumer's
    answer is the body its response was built from — for every history of the process. -/
theorem C18_inflight_model (ops : List Op) (k : Nat) (sl : Slot)
    (h : (run .fresh (connF (newFramer (some tagCodec) 4) tagCodec) ops).lookup k = some sl)
    (fl op : UInt8) (s : Int) (body : Bytes) (hd : sl.dir = .recv)
    (hb : (newFramer (some tagCodec) 4).build fl op s body = .ok sl.arg)
    (hsz : sl.arg.length - (newFramer (some tagCodec) 4).headSize ≤ maxFrameSize) :
    (run .fresh (connF (newFramer (some tagCodec) 4) tagCodec) ops).chk k = some body := by
  have hv : ValidProto (newFramer (some tagCodec) 4) := by
    unfold ValidProto newFramer; decide
  have := (C18_inflight_delivered (newFramer (some tagCodec) 4) hv tagCodec rfl tagCodec_roundTrips ops k sl h).1
    fl op s body hd hb hsz
  simp [St.chk, h, this]

end C18
