import Model.TypeStr
/-! Helper lemmas + part theorems for the schema type-string parsers (C05 part 1). -/
namespace C05TypeStr
open TypeStr

theorem skipWs_len (s : Str) : (skipWs s).length ≤ s.length := by
  induction s with
  | nil => simp [skipWs]
  | cons c r ih => simp only [skipWs]; split <;> simp <;> omega

theorem takeIdent_len (s : Str) : (takeIdent s).1.length + (takeIdent s).2.length = s.length := by
  induction s with
  | nil => simp [takeIdent]
  | cons c r ih => simp only [takeIdent]; split <;> simp <;> omega

theorem takeIdent_lt (s : Str) (h : (takeIdent s).1.isEmpty = false) : (takeIdent s).2.length + 1 ≤ s.length := by
  have := takeIdent_len s
  cases h1 : (takeIdent s).1 with
  | nil => simp [h1] at h
  | cons a b => simp [h1] at this; omega

/-- what a parser call may return: a strictly shorter rest or `fail` — never a crash (the three reads of
`t.input[t.index]` in parseParamNodes are each behind an end-of-input check) -/
def Good {α : Type} (o : Out (α × Str)) (n : Nat) : Prop :=
  match o with
  | .ok (_, s') => s'.length + 1 ≤ n
  | .fail => True
  | .crash _ => False

theorem Good.mono {α : Type} {o : Out (α × Str)} {n m : Nat} (h : Good o n) (hnm : n ≤ m) : Good o m := by
  cases o with
  | ok a => obtain ⟨_, s'⟩ := a; simp only [Good] at *; omega
  | fail => trivial
  | crash x => exact h

theorem fin_good (name : Str) (params : Params) (s0 s2 : Str) (n : Nat)
    (h : s2.length + 1 ≤ n) (h' : s2.length ≤ s0.length) :
    Good (if s2.length ≤ s0.length then Out.ok (Node.mk name params (s0.take (s0.length - s2.length)), s2)
             else Out.crash Site.inputSlice) n := by
  simp only [h', if_true, Good]; omega

theorem parse_good : ∀ f : Nat,
    (∀ s, s.length + 1 ≤ f → Good (parseClass f s) s.length) ∧
    (∀ s acc, s.length + 2 ≤ f → Good (paramLoop f s acc) s.length) := by
  intro f
  induction f with
  | zero => exact ⟨fun s h => by omega, fun s acc h => by omega⟩
  | succ f ih =>
    obtain ⟨ihC, ihL⟩ := ih
    constructor
    · intro s hf
      unfold parseClass
      simp only []
      have h0 := skipWs_len s
      split
      · simp [Good]
      · rename_i hne
        have h1 := takeIdent_lt (skipWs s) (by simpa using hne)
        have h2 := skipWs_len (takeIdent (skipWs s)).2
        split
        · exact fin_good _ _ _ _ _ (by omega) (by omega)
        · rename_i c r heq
          have hl : (skipWs (takeIdent (skipWs s)).2).length = r.length + 1 := by rw [heq]; simp
          split
          · exact fin_good _ _ _ _ _ (by omega) (by omega)
          · have h3 := skipWs_len r
            have hg := ihL (skipWs r) [] (by omega)
            split
            · rename_i params s2 hpl
              rw [hpl] at hg
              simp only [Good] at hg
              exact fin_good _ _ _ _ _ (by omega) (by omega)
            · simp [Good]
            · rename_i x hpl
              rw [hpl] at hg
              exact hg
    · intro s acc hf
      unfold paramLoop
      split
      · simp [Good]
      · rename_i c r
        split
        · simp [Good]
        · simp only []
          split
          · simp [Good]
          · split
            · simp [Good]
            · rename_i c2 r2 heq
              have h1 := skipWs_len (takeIdent (c :: r)).2
              have h1' := takeIdent_len (c :: r)
              rw [heq] at h1
              have h3 : (if (c2 == 58) = true then skipWs r2 else c :: r).length ≤ (c :: r).length := by
                have := skipWs_len r2
                split <;> simp at * <;> omega
              have hg := ihC _ (Nat.le_trans (Nat.succ_le_succ h3) (by simpa using hf))
              split
              · rename_i node s4 hpc
                rw [hpc] at hg
                simp only [Good] at hg
                have h4 := skipWs_len s4
                split
                · simp [Good]
                · rename_i c5 r5 heq5
                  rw [heq5] at h4
                  have h6 : (if (c5 == 44) = true then skipWs r5 else c5 :: r5).length ≤ (c5 :: r5).length := by
                    have := skipWs_len r5
                    split <;> simp at * <;> omega
                  refine Good.mono (ihL _ _ ?_) ?_
                  · simp at *; omega
                  · simp at *; omega
              · simp [Good]
              · rename_i x hpc
                rw [hpc] at hg
                exact hg

/-- `o` is not a crash -/
def NoCrash {α : Type} (o : Out α) : Prop := ∀ x, o ≠ .crash x

theorem NoCrash.ok {α : Type} (a : α) : NoCrash (Out.ok a) := by intro x h; cases h
theorem NoCrash.fail {α : Type} : NoCrash (Out.fail : Out α) := by intro x h; cases h

theorem asTypeInfo_noCrash (n : Node) : NoCrash (asTypeInfo n) := by
  fun_induction asTypeInfo n <;> intro x hx <;> simp_all [NoCrash]

theorem collLoop_noCrash (ps : Params) (acc : List (Str × Ty)) : NoCrash (collLoop ps acc) := by
  induction ps generalizing acc with
  | nil => simp [collLoop, NoCrash]
  | cons p r ih =>
    obtain ⟨name, cls⟩ := p
    unfold collLoop
    have ha := asTypeInfo_noCrash cls
    cases name with
    | none => simpa using ih acc
    | some nm =>
      simp only []
      split
      · exact ih _
      · exact NoCrash.fail
      · rename_i x hx; exact absurd hx (ha x)

theorem component_noCrash (cls : Node) : NoCrash (component cls) := by
  unfold component
  have ha := asTypeInfo_noCrash cls
  split
  · split
    · split
      · exact NoCrash.ok _
      · exact NoCrash.fail
      · rename_i x hx; exact absurd hx (ha x)
    · rename_i c _ _
      have hc := asTypeInfo_noCrash c
      split
      · exact NoCrash.ok _
      · exact NoCrash.fail
      · rename_i x hx; exact absurd hx (hc x)
  · split
    · exact NoCrash.ok _
    · exact NoCrash.fail
    · rename_i x hx; exact absurd hx (ha x)

theorem typesLoop_noCrash (ps : Params) : NoCrash (typesLoop ps) := by
  induction ps with
  | nil => simp [typesLoop, NoCrash]
  | cons p r ih =>
    obtain ⟨name, cls⟩ := p
    unfold typesLoop
    have hc := component_noCrash cls
    split
    · split
      · exact NoCrash.ok _
      · exact NoCrash.fail
      · rename_i x hx; exact absurd hx (ih x)
    · exact NoCrash.fail
    · rename_i x hx; exact absurd hx (hc x)

/-- `ast.params[:count]` is in bounds: `count` is `len(params)` or `len(params) - 1` -/
theorem tail_noCrash (colls : List (Str × Ty)) (count : Nat) (params : Params) (h : count ≤ params.length) :
    NoCrash (if count ≤ params.length then
          (match typesLoop (params.take count) with
           | .ok ts => (Out.ok { isComposite := true, types := ts, collections := colls } : Out PResult)
           | .fail => .fail
           | .crash x => .crash x)
        else .crash .paramsSlice) := by
  simp only [h, if_true]
  have ht := typesLoop_noCrash (params.take count)
  split
  · exact NoCrash.ok _
  · exact NoCrash.fail
  · rename_i x hx; exact absurd hx (ht x)

theorem interpret_noCrash (input : Str) (ast : Node) : NoCrash (interpret input ast) := by
  unfold interpret
  split
  · simp only []
    cases hl : ast.params.getLast? with
    | none => simpa using NoCrash.ok _
    | some pr =>
      obtain ⟨o, lastCls⟩ := pr
      simp only []
      by_cases hcoll : kCOLLECTION.isPrefixOf lastCls.name = true
      · simp only [hcoll, if_true]
        have hcl := collLoop_noCrash lastCls.params []
        split
        · exact tail_noCrash _ _ _ (by omega)
        · exact NoCrash.fail
        · rename_i x hx; exact absurd hx (hcl x)
      · simp only [hcoll]
        exact tail_noCrash _ _ _ (Nat.le_refl _)
  · have hc := component_noCrash ast
    split
    · exact NoCrash.ok _
    · exact NoCrash.fail
    · rename_i x hx; exact absurd hx (hc x)

/-- parseType never panics, for every byte string: the recursion fuel `|input| + 1` is never
exhausted, `t.input[startIndex:endIndex]` and `ast.params[:count]` are in bounds -/
theorem parseType_noCrash (input : Str) : NoCrash (parseType input) := by
  unfold parseType
  have hg := (parse_good (input.length + 1)).1 input (Nat.le_refl _)
  split
  · exact NoCrash.ok _
  · rename_i x hx
    rw [hx] at hg
    exact hg.elim
  · exact interpret_noCrash input _

/-! ### getCassandraType -/

theorem trimLeft_len (s : Str) : (trimLeft s).length ≤ s.length := by
  induction s with
  | nil => simp [trimLeft]
  | cons c r ih => simp only [trimLeft]; split <;> simp <;> omega

theorem trimSpace_len (s : Str) : (trimSpace s).length ≤ s.length := by
  unfold trimSpace
  have h1 := trimLeft_len s
  have h2 := trimLeft_len (trimLeft s).reverse
  simp at *; omega

theorem splitCS_len (s cur : Str) : ∀ p ∈ splitCS s cur, p.length ≤ s.length + cur.length := by
  fun_induction splitCS s cur <;> intro p hp <;> simp_all
  · omega
  · rename_i ih
    rcases hp with h | h
    · subst h; simp <;> omega
    · have := ih p h; omega
  · rename_i ih; have := ih p hp; omega

theorem splitLoop_len (s seg : Str) (less : Int) : ∀ p ∈ splitLoop s seg less, p.length ≤ s.length + seg.length := by
  fun_induction splitLoop s seg less <;> intro p hp <;> simp_all
  · exact Nat.le_trans (trimSpace_len _) (by simp)
  · rename_i ih; have := ih p hp; omega
  · rename_i ih
    rcases hp with h | h
    · subst h; exact Nat.le_trans (trimSpace_len _) (by simp)
    · have := ih p h; omega
  · rename_i ih; have := ih p hp; omega

theorem splitComposite_len (s : Str) : ∀ p ∈ splitComposite s, p.length ≤ s.length := by
  intro p hp
  unfold splitComposite at hp
  split at hp
  · simpa using splitLoop_len s [] 0 p hp
  · simpa using splitCS_len s [] p hp

theorem trimPrefix_len (p s : Str) : (trimPrefix p s).length ≤ s.length := by
  unfold trimPrefix; split <;> simp

theorem prefix_len {p name : Str} (h : p.isPrefixOf name = true) : p.length ≤ name.length :=
  (List.isPrefixOf_iff_prefix.mp h).length_le

/-- `name[:len(name)-1]` is in bounds whenever one of the (non-empty) prefixes matched, and what is
passed to the recursive call is strictly shorter -/
theorem inner_ok (p name : Str) (hp : 1 ≤ p.length) (h : p.isPrefixOf name = true) :
    ∃ s, inner p name = .ok s ∧ s.length + 1 ≤ name.length := by
  have := prefix_len h
  refine ⟨trimPrefix p (name.take (name.length - 1)), ?_, ?_⟩
  · unfold inner; simp; intro hn; subst hn; simp at this; subst this; simp at hp
  · have := trimPrefix_len p (name.take (name.length - 1)); simp at this; omega

theorem mapOut_noCrash (g : Str → Out Ty) (ns : List Str) (h : ∀ n ∈ ns, NoCrash (g n)) : NoCrash (mapOut g ns) := by
  induction ns with
  | nil => intro x hx; simp [mapOut] at hx
  | cons n r ih =>
    intro x
    unfold mapOut
    have h1 := h n (by simp)
    have h2 := ih (fun m hm => h m (by simp [hm]))
    split
    · split
      · simp
      · simp
      · rename_i y hy; exact absurd hy (h2 y)
    · simp
    · rename_i y hy; exact absurd hy (h1 y)

theorem getCT_noCrash : ∀ (f : Nat) (name : Str), name.length + 1 ≤ f → NoCrash (getCT f name) := by
  intro f
  induction f with
  | zero => intro name h; omega
  | succ f ih =>
    intro name hf x
    unfold getCT
    split
    · rename_i hp
      obtain ⟨s, hs, hl⟩ := inner_ok kfrozenLt name (by decide) hp
      rw [hs]; exact ih s (by omega) x
    · split
      · rename_i hp
        obtain ⟨s, hs, hl⟩ := inner_ok ksetLt name (by decide) hp
        rw [hs]; simp only []
        have := ih s (by omega)
        split
        · simp
        · simp
        · rename_i y hy; exact absurd hy (this y)
      · split
        · rename_i hp
          obtain ⟨s, hs, hl⟩ := inner_ok klistLt name (by decide) hp
          rw [hs]; simp only []
          have := ih s (by omega)
          split
          · simp
          · simp
          · rename_i y hy; exact absurd hy (this y)
        · split
          · rename_i hp
            obtain ⟨s, hs, hl⟩ := inner_ok kmapLt name (by decide) hp
            rw [hs]; simp only []
            have hparts := splitComposite_len s
            split
            · rename_i a b heq
              have ha := ih a (by have := hparts a (by simp [heq]); omega)
              have hb := ih b (by have := hparts b (by simp [heq]); omega)
              split
              · split
                · simp
                · simp
                · rename_i y hy; exact absurd hy (hb y)
              · simp
              · rename_i y hy; exact absurd hy (ha y)
            · simp
          · split
            · rename_i hp
              obtain ⟨s, hs, hl⟩ := inner_ok ktupleLt name (by decide) hp
              rw [hs]; simp only []
              have hparts := splitComposite_len s
              have := mapOut_noCrash (getCT f) (splitComposite s) (fun n hn => ih n (by have := hparts n hn; omega))
              split
              · simp
              · simp
              · rename_i y hy; exact absurd hy (this y)
            · simp


/-! ### part theorems -/

theorem getCassandraType_noCrash (s : Str) : NoCrash (getCassandraType s) :=
  getCT_noCrash _ s (Nat.le_refl _)

theorem getTypeInfo_noCrash (s : Str) : NoCrash (getTypeInfo s) := by
  unfold getTypeInfo; split <;> exact getCassandraType_noCrash _

/-! ### output size of apacheToCassandraType -/

theorem replaceAll_len (old new : Str) (k : Nat) (hk : 1 ≤ k) (_hold : 1 ≤ old.length) (h : new.length ≤ k * old.length) :
    ∀ (n : Nat) (s : Str), (replaceAll old new n s).length ≤ k * s.length := by
  intro n
  induction n with
  | zero => intro s; simp [replaceAll]; exact Nat.le_mul_of_pos_left _ (by omega)
  | succ n ih =>
    intro s
    cases s with
    | nil => simp [replaceAll]
    | cons c r =>
      unfold replaceAll
      split
      · rename_i hp
        have hl := (List.isPrefixOf_iff_prefix.mp hp).length_le
        have := ih ((c :: r).drop old.length)
        simp only [List.length_append, List.length_drop] at *
        have h2 : k * ((c :: r).length - old.length) + k * old.length = k * (c :: r).length := by
          rw [← Nat.mul_add]; congr 1; omega
        omega
      · have := ih r
        simp only [List.length_cons]
        have : k * (r.length + 1) = k * r.length + k := by rw [Nat.mul_add]; simp
        omega

theorem replace_len (s old new : Str) (k : Nat) (hk : 1 ≤ k) (h : new.length ≤ k * old.length) :
    (replace s old new).length ≤ k * s.length := by
  unfold replace
  split
  · exact Nat.le_mul_of_pos_left _ (by omega)
  · rename_i hne
    have : 1 ≤ old.length := by
      cases old with
      | nil => simp at hne
      | cons a b => simp
    exact replaceAll_len old new k hk this h _ s

theorem lookup_mem (tbl : List (Str × Nat)) (s : Str) (v : Nat) (h : lookup tbl s = some v) : v ∈ tbl.map (·.2) := by
  induction tbl with
  | nil => simp [lookup] at h
  | cons p r ih =>
    obtain ⟨k, w⟩ := p
    unfold lookup at h
    split at h
    · cases h; simp
    · simp; right; simpa using ih h

theorem typeName_apache_len (x : Str) : (typeName (apacheType x)).length ≤ 9 := by
  have hall : ∀ v ∈ (0 :: apacheTable.map (·.2)), (typeName v).length ≤ 9 := by decide
  unfold apacheType
  cases h : lookup apacheTable (trimPrefix kAPACHE x) with
  | none => exact hall 0 (List.mem_cons_self ..)
  | some v => exact hall v (List.mem_cons_of_mem _ (lookup_mem _ _ _ h))

theorem translateFields_len (s cur : Str) : (translateFields s cur).length ≤ 9 * (s.length + cur.length) := by
  induction s generalizing cur with
  | nil =>
    unfold translateFields
    split
    · simp
    · rename_i hne
      have := typeName_apache_len cur.reverse
      cases cur with
      | nil => simp at hne
      | cons a b => simp at *; omega
  | cons c r ih =>
    unfold translateFields
    split
    · have h0 := ih []
      split
      · simp at *; omega
      · rename_i hne
        have := typeName_apache_len cur.reverse
        cases cur with
        | nil => simp at hne
        | cons a b => simp at *; omega
    · have := ih (c :: cur)
      simp at *; omega

/-- the translation of a Java class string is at most 18 times its length -/
theorem apache_len (t : Str) : (apacheToCassandraType t).length ≤ 18 * t.length := by
  unfold apacheToCassandraType
  have h1 := replace_len t kAPACHE [] 1 (by omega) (by simp)
  have h2 := replace_len (replace t kAPACHE []) [40] [60] 1 (by omega) (by simp)
  have h3 := replace_len (replace (replace t kAPACHE []) [40] [60]) [41] [62] 1 (by omega) (by simp)
  have h4 := translateFields_len (replace (replace (replace t kAPACHE []) [40] [60]) [41] [62]) []
  have h5 := replace_len (translateFields (replace (replace (replace t kAPACHE []) [40] [60]) [41] [62]) []) [44] kcommaSp 2 (by omega) (by decide)
  simp at *
  omega

end C05TypeStr
