import Model.TypeStr
/-! Helper lemmas + part theorems for the schema type-string parsers (C05 part 1). -/
namespace C05TypeStr
open TypeStr

theorem skipWs_len (s : Str) : (skipWs s).length ≤ s.length := by
  induction s with
  | nil => simp [skipWs]
  | cons c r ih => simp only [skipWs]; split <;> simp <;> omega

theorem takeIdent_len (s : Str) : (takeIdent s).1.length + (takeIdent s).2.length = s.length := by
  induction s with
  | nil => simp [takeIdent]
  | cons c r ih => simp only [takeIdent]; split <;> simp <;> omega

theorem takeIdent_lt (s : Str) (h : (takeIdent s).1.isEmpty = false) : (takeIdent s).2.length + 1 ≤ s.length := by
  have := takeIdent_len s
  cases h1 : (takeIdent s).1 with
  | nil => simp [h1] at h
  | cons a b => simp [h1] at this; omega

/-- what a parser call may return: a strictly shorter rest, `fail`, or the known end-of-input crash
(only in the unchanged code) -/
def Good {α : Type} (fx : Bool) (o : Out (α × Str)) (n : Nat) : Prop :=
  match o with
  | .ok (_, s') => s'.length + 1 ≤ n
  | .fail => True
  | .crash x => x = .paramsEof ∧ fx = false

theorem Good.mono {α : Type} {fx : Bool} {o : Out (α × Str)} {n m : Nat} (h : Good fx o n) (hnm : n ≤ m) : Good fx o m := by
  cases o with
  | ok a => obtain ⟨_, s'⟩ := a; simp only [Good] at *; omega
  | fail => trivial
  | crash x => exact h

theorem fin_good (fx : Bool) (name : Str) (params : Params) (s0 s2 : Str) (n : Nat)
    (h : s2.length + 1 ≤ n) (h' : s2.length ≤ s0.length) :
    Good fx (if s2.length ≤ s0.length then Out.ok (Node.mk name params (s0.take (s0.length - s2.length)), s2)
             else Out.crash Site.inputSlice) n := by
  simp only [h', if_true, Good]; omega

theorem parse_good (fx : Bool) : ∀ f : Nat,
    (∀ s, s.length + 1 ≤ f → Good fx (parseClass fx f s) s.length) ∧
    (∀ s acc, s.length + 2 ≤ f → Good fx (paramLoop fx f s acc) s.length) := by
  intro f
  induction f with
  | zero => exact ⟨fun s h => by omega, fun s acc h => by omega⟩
  | succ f ih =>
    obtain ⟨ihC, ihL⟩ := ih
    constructor
    · intro s hf
      unfold parseClass
      simp only []
      have h0 := skipWs_len s
      split
      · simp [Good]
      · rename_i hne
        have h1 := takeIdent_lt (skipWs s) (by simpa using hne)
        have h2 := skipWs_len (takeIdent (skipWs s)).2
        split
        · exact fin_good _ _ _ _ _ _ (by omega) (by omega)
        · rename_i c r heq
          have hl : (skipWs (takeIdent (skipWs s)).2).length = r.length + 1 := by rw [heq]; simp
          split
          · exact fin_good _ _ _ _ _ _ (by omega) (by omega)
          · have h3 := skipWs_len r
            have hg := ihL (skipWs r) [] (by omega)
            split
            · rename_i params s2 hpl
              rw [hpl] at hg
              simp only [Good] at hg
              exact fin_good _ _ _ _ _ _ (by omega) (by omega)
            · simp [Good]
            · rename_i x hpl
              rw [hpl] at hg
              exact hg
    · intro s acc hf
      unfold paramLoop
      split
      · split <;> simp [Good, *]
      · rename_i c r
        split
        · simp [Good]
        · simp only []
          split
          · simp [Good]
          · split
            · split <;> simp [Good, *]
            · rename_i c2 r2 heq
              have h1 := skipWs_len (takeIdent (c :: r)).2
              have h1' := takeIdent_len (c :: r)
              rw [heq] at h1
              have h3 : (if (c2 == 58) = true then skipWs r2 else c :: r).length ≤ (c :: r).length := by
                have := skipWs_len r2
                split <;> simp at * <;> omega
              have hg := ihC _ (Nat.le_trans (Nat.succ_le_succ h3) (by simpa using hf))
              split
              · rename_i node s4 hpc
                rw [hpc] at hg
                simp only [Good] at hg
                have h4 := skipWs_len s4
                split
                · split <;> simp [Good, *]
                · rename_i c5 r5 heq5
                  rw [heq5] at h4
                  have h6 : (if (c5 == 44) = true then skipWs r5 else c5 :: r5).length ≤ (c5 :: r5).length := by
                    have := skipWs_len r5
                    split <;> simp at * <;> omega
                  refine Good.mono (ihL _ _ ?_) ?_
                  · simp at *; omega
                  · simp at *; omega
              · simp [Good]
              · rename_i x hpc
                rw [hpc] at hg
                exact hg

/-- every crash an outcome can be is a KNOWN site of the unchanged code -/
def OnlyKnown {α : Type} (fx : Bool) (o : Out α) : Prop :=
  ∀ x, o = .crash x → x.known = true ∧ fx = false

theorem asTypeInfo_known (fx : Bool) (n : Node) : OnlyKnown fx (asTypeInfo fx n) := by
  fun_induction asTypeInfo fx n <;> intro x hx <;> simp_all [OnlyKnown] <;> (subst_vars; rfl)

theorem OnlyKnown.ok {α : Type} (fx : Bool) (a : α) : OnlyKnown fx (Out.ok a) := by intro x h; cases h
theorem OnlyKnown.fail {α : Type} (fx : Bool) : OnlyKnown fx (Out.fail : Out α) := by intro x h; cases h

theorem collLoop_known (fx : Bool) (ps : Params) (acc : List (Str × Ty)) : OnlyKnown fx (collLoop fx ps acc) := by
  induction ps generalizing acc with
  | nil => simp [collLoop, OnlyKnown]
  | cons p r ih =>
    obtain ⟨name, cls⟩ := p
    unfold collLoop
    have ha := asTypeInfo_known fx cls
    cases name with
    | none =>
      cases fx
      · intro x hx; simp at hx; subst hx; simp [Site.known]
      · simpa using ih acc
    | some nm =>
      simp only []
      split
      · exact ih _
      · exact OnlyKnown.fail fx
      · rename_i x hx; intro y hy; cases hy; exact ha x hx

theorem component_known (fx : Bool) (cls : Node) : OnlyKnown fx (component fx cls) := by
  unfold component
  have ha := asTypeInfo_known fx cls
  split
  · split
    · cases fx
      · intro x hx; simp at hx; subst hx; simp [Site.known]
      · simp only [if_true]
        split
        · exact OnlyKnown.ok _ _
        · exact OnlyKnown.fail _
        · rename_i x hx; intro y hy; cases hy; exact ha x hx
    · rename_i c _ _
      have hc := asTypeInfo_known fx c
      split
      · exact OnlyKnown.ok _ _
      · exact OnlyKnown.fail _
      · rename_i x hx; intro y hy; cases hy; exact hc x hx
  · split
    · exact OnlyKnown.ok _ _
    · exact OnlyKnown.fail _
    · rename_i x hx; intro y hy; cases hy; exact ha x hx

theorem typesLoop_known (fx : Bool) (ps : Params) : OnlyKnown fx (typesLoop fx ps) := by
  induction ps with
  | nil => simp [typesLoop, OnlyKnown]
  | cons p r ih =>
    obtain ⟨name, cls⟩ := p
    unfold typesLoop
    have hc := component_known fx cls
    split
    · split
      · exact OnlyKnown.ok _ _
      · exact OnlyKnown.fail _
      · rename_i x hx; intro y hy; cases hy; exact ih x hx
    · exact OnlyKnown.fail _
    · rename_i x hx; intro y hy; cases hy; exact hc x hx

theorem tail_known (fx : Bool) (colls : List (Str × Ty)) (count : Nat) (params : Params) (h : count ≤ params.length) :
    OnlyKnown fx (if count ≤ params.length then
          (match typesLoop fx (params.take count) with
           | .ok ts => (Out.ok { isComposite := true, types := ts, collections := colls } : Out PResult)
           | .fail => .fail
           | .crash x => .crash x)
        else .crash .paramsSlice) := by
  simp only [h, if_true]
  have ht := typesLoop_known fx (params.take count)
  split
  · exact OnlyKnown.ok _ _
  · exact OnlyKnown.fail _
  · rename_i x hx; intro y hy; cases hy; exact ht x hx

theorem interpret_known (fx : Bool) (input : Str) (ast : Node) : OnlyKnown fx (interpret fx input ast) := by
  unfold interpret
  split
  · simp only []
    cases hl : ast.params.getLast? with
    | none =>
      simp only []
      cases fx
      · intro x hx; simp at hx; subst hx; simp [Site.known]
      · simpa using OnlyKnown.ok _ _
    | some pr =>
      obtain ⟨o, lastCls⟩ := pr
      simp only []
      by_cases hcoll : kCOLLECTION.isPrefixOf lastCls.name = true
      · simp only [hcoll, if_true]
        have hcl := collLoop_known fx lastCls.params []
        split
        · exact tail_known fx _ _ _ (by omega)
        · exact OnlyKnown.fail _
        · rename_i x hx; intro y hy; cases hy; exact hcl x hx
      · simp only [hcoll]
        exact tail_known fx _ _ _ (Nat.le_refl _)
  · have hc := component_known fx ast
    split
    · exact OnlyKnown.ok _ _
    · exact OnlyKnown.fail _
    · rename_i x hx; intro y hy; cases hy; exact hc x hx

theorem parseType_known (fx : Bool) (input : Str) : OnlyKnown fx (parseType fx input) := by
  unfold parseType
  have hg := (parse_good fx (input.length + 1)).1 input (Nat.le_refl _)
  split
  · exact OnlyKnown.ok _ _
  · rename_i x hx
    rw [hx] at hg
    intro y hy; cases hy
    simp only [Good] at hg
    exact ⟨by rw [hg.1]; rfl, hg.2⟩
  · exact interpret_known fx input _

/-! ### getCassandraType -/

def NoCrash {α : Type} (o : Out α) : Prop := ∀ x, o ≠ .crash x

theorem trimLeft_len (s : Str) : (trimLeft s).length ≤ s.length := by
  induction s with
  | nil => simp [trimLeft]
  | cons c r ih => simp only [trimLeft]; split <;> simp <;> omega

theorem trimSpace_len (s : Str) : (trimSpace s).length ≤ s.length := by
  unfold trimSpace
  have h1 := trimLeft_len s
  have h2 := trimLeft_len (trimLeft s).reverse
  simp at *; omega

theorem splitCS_len (s cur : Str) : ∀ p ∈ splitCS s cur, p.length ≤ s.length + cur.length := by
  fun_induction splitCS s cur <;> intro p hp <;> simp_all
  · omega
  · rename_i ih
    rcases hp with h | h
    · subst h; simp <;> omega
    · have := ih p h; omega
  · rename_i ih; have := ih p hp; omega

theorem splitLoop_len (s seg : Str) (less : Int) : ∀ p ∈ splitLoop s seg less, p.length ≤ s.length + seg.length := by
  fun_induction splitLoop s seg less <;> intro p hp <;> simp_all
  · exact Nat.le_trans (trimSpace_len _) (by simp)
  · rename_i ih; have := ih p hp; omega
  · rename_i ih
    rcases hp with h | h
    · subst h; exact Nat.le_trans (trimSpace_len _) (by simp)
    · have := ih p h; omega
  · rename_i ih; have := ih p hp; omega

theorem splitComposite_len (s : Str) : ∀ p ∈ splitComposite s, p.length ≤ s.length := by
  intro p hp
  unfold splitComposite at hp
  split at hp
  · simpa using splitLoop_len s [] 0 p hp
  · simpa using splitCS_len s [] p hp

theorem trimPrefix_len (p s : Str) : (trimPrefix p s).length ≤ s.length := by
  unfold trimPrefix; split <;> simp

theorem prefix_len {p name : Str} (h : p.isPrefixOf name = true) : p.length ≤ name.length :=
  (List.isPrefixOf_iff_prefix.mp h).length_le

/-- `name[:len(name)-1]` is in bounds whenever one of the (non-empty) prefixes matched, and what is
passed to the recursive call is strictly shorter -/
theorem inner_ok (p name : Str) (hp : 1 ≤ p.length) (h : p.isPrefixOf name = true) :
    ∃ s, inner p name = .ok s ∧ s.length + 1 ≤ name.length := by
  have := prefix_len h
  refine ⟨trimPrefix p (name.take (name.length - 1)), ?_, ?_⟩
  · unfold inner; simp; intro hn; subst hn; simp at this; subst this; simp at hp
  · have := trimPrefix_len p (name.take (name.length - 1)); simp at this; omega

theorem mapOut_noCrash (g : Str → Out Ty) (ns : List Str) (h : ∀ n ∈ ns, NoCrash (g n)) : NoCrash (mapOut g ns) := by
  induction ns with
  | nil => intro x hx; simp [mapOut] at hx
  | cons n r ih =>
    intro x
    unfold mapOut
    have h1 := h n (by simp)
    have h2 := ih (fun m hm => h m (by simp [hm]))
    split
    · split
      · simp
      · simp
      · rename_i y hy; exact absurd hy (h2 y)
    · simp
    · rename_i y hy; exact absurd hy (h1 y)

theorem getCT_noCrash : ∀ (f : Nat) (name : Str), name.length + 1 ≤ f → NoCrash (getCT f name) := by
  intro f
  induction f with
  | zero => intro name h; omega
  | succ f ih =>
    intro name hf x
    unfold getCT
    split
    · rename_i hp
      obtain ⟨s, hs, hl⟩ := inner_ok kfrozenLt name (by decide) hp
      rw [hs]; exact ih s (by omega) x
    · split
      · rename_i hp
        obtain ⟨s, hs, hl⟩ := inner_ok ksetLt name (by decide) hp
        rw [hs]; simp only []
        have := ih s (by omega)
        split
        · simp
        · simp
        · rename_i y hy; exact absurd hy (this y)
      · split
        · rename_i hp
          obtain ⟨s, hs, hl⟩ := inner_ok klistLt name (by decide) hp
          rw [hs]; simp only []
          have := ih s (by omega)
          split
          · simp
          · simp
          · rename_i y hy; exact absurd hy (this y)
        · split
          · rename_i hp
            obtain ⟨s, hs, hl⟩ := inner_ok kmapLt name (by decide) hp
            rw [hs]; simp only []
            have hparts := splitComposite_len s
            split
            · rename_i a b heq
              have ha := ih a (by have := hparts a (by simp [heq]); omega)
              have hb := ih b (by have := hparts b (by simp [heq]); omega)
              split
              · split
                · simp
                · simp
                · rename_i y hy; exact absurd hy (hb y)
              · simp
              · rename_i y hy; exact absurd hy (ha y)
            · simp
          · split
            · rename_i hp
              obtain ⟨s, hs, hl⟩ := inner_ok ktupleLt name (by decide) hp
              rw [hs]; simp only []
              have hparts := splitComposite_len s
              have := mapOut_noCrash (getCT f) (splitComposite s) (fun n hn => ih n (by have := hparts n hn; omega))
              split
              · simp
              · simp
              · rename_i y hy; exact absurd hy (this y)
            · simp


/-! ### part theorems -/

theorem getCassandraType_noCrash (s : Str) : NoCrash (getCassandraType s) :=
  getCT_noCrash _ s (Nat.le_refl _)

theorem getTypeInfoFx_noCrash (fx : Bool) (s : Str) : NoCrash (getTypeInfoFx fx s) := by
  unfold getTypeInfoFx; split <;> exact getCassandraType_noCrash _

theorem getTypeInfo_noCrash (s : Str) : NoCrash (getTypeInfo s) := getTypeInfoFx_noCrash false s

theorem parseType_fixed_noCrash (s : Str) : NoCrash (parseType true s) := by
  intro x hx
  have := (parseType_known true s x hx).2
  cases this

/-! ### an independent necessary condition for the end-of-input crash: unbalanced parentheses -/

/-- #'(' − #')' -/
def bal : Str → Int
  | [] => 0
  | c :: r => (if c = 40 then 1 else if c = 41 then -1 else 0) + bal r

theorem bal_skipWs (s : Str) : bal (skipWs s) = bal s := by
  induction s with
  | nil => rfl
  | cons c r ih =>
    unfold skipWs
    split
    · rename_i h
      have : c ≠ 40 ∧ c ≠ 41 := by
        simp [isWs] at h; omega
      simp [bal, this.1, this.2, ih]
    · rfl

theorem bal_takeIdent (s : Str) : bal (takeIdent s).2 = bal s := by
  induction s with
  | nil => rfl
  | cons c r ih =>
    unfold takeIdent
    split
    · rename_i h
      have : c ≠ 40 ∧ c ≠ 41 := by
        simp [isIdent] at h; omega
      simp [bal, this.1, this.2, ih]
    · rfl

/-- parser results and the parenthesis balance of what they consumed -/
def BalC (o : Out (Node × Str)) (s : Str) : Prop :=
  match o with
  | .ok (_, s') => bal s' = bal s
  | .fail => True
  | .crash x => x = .paramsEof → 1 ≤ bal s

def BalL (o : Out (Params × Str)) (s : Str) : Prop :=
  match o with
  | .ok (_, s') => bal s' = bal s + 1
  | .fail => True
  | .crash x => x = .paramsEof → 0 ≤ bal s

theorem parse_bal : ∀ f : Nat,
    (∀ s, BalC (parseClass false f s) s) ∧ (∀ s acc, BalL (paramLoop false f s acc) s) := by
  intro f
  induction f with
  | zero =>
    constructor
    · intro s; simp [parseClass, BalC]
    · intro s acc; simp [paramLoop, BalL]
  | succ f ih =>
    obtain ⟨ihC, ihL⟩ := ih
    constructor
    · intro s
      unfold parseClass
      simp only []
      have e1 : bal (skipWs (takeIdent (skipWs s)).2) = bal s := by
        rw [bal_skipWs, bal_takeIdent, bal_skipWs]
      split
      · simp [BalC]
      · split
        · split
          · simp only [BalC]; rw [e1]
          · simp [BalC]
        · rename_i c r heq
          split
          · split
            · simp only [BalC]; rw [e1]
            · simp [BalC]
          · rename_i hc
            have hc' : c = 40 := by simpa using hc
            have e2 : bal (skipWs r) = bal s - 1 := by
              rw [bal_skipWs]
              have : bal (c :: r) = bal s := by rw [← heq]; exact e1
              simp [bal, hc'] at this; omega
            have hl := ihL (skipWs r) []
            split
            · rename_i params s2 hpl
              rw [hpl] at hl
              simp only [BalL] at hl
              split
              · simp only [BalC]; omega
              · simp [BalC]
            · simp [BalC]
            · rename_i x hpl
              rw [hpl] at hl
              simp only [BalL, BalC] at *
              intro hx; have := hl hx; omega
    · intro s acc
      unfold paramLoop
      split
      · simp [BalL, bal]
      · rename_i c r
        split
        · rename_i hc
          have hc' : c = 41 := by simpa using hc
          simp [BalL, bal, hc']; omega
        · rename_i hc
          have hc41 : c ≠ 41 := by simpa using hc
          simp only []
          split
          · simp [BalL]
          · have e1 : bal (skipWs (takeIdent (c :: r)).2) = bal (c :: r) := by rw [bal_skipWs, bal_takeIdent]
            split
            · rename_i heq
              rw [heq] at e1
              simp only [if_false, BalL]
              intro _; rw [← e1]; simp [bal]
            · rename_i c2 r2 heq
              rw [heq] at e1
              have e3 : bal (if (c2 == 58) = true then skipWs r2 else c :: r) = bal (c :: r) := by
                split
                · rename_i h58
                  have : c2 = 58 := by simpa using h58
                  rw [bal_skipWs, ← e1]; simp [bal, this]
                · rfl
              have hC := ihC (if (c2 == 58) = true then skipWs r2 else c :: r)
              split
              · rename_i node s4 hpc
                rw [hpc] at hC
                simp only [BalC] at hC
                have e4 : bal (skipWs s4) = bal (c :: r) := by rw [bal_skipWs, hC, e3]
                split
                · rename_i heq5
                  rw [heq5] at e4
                  simp only [if_false, BalL]
                  intro _; rw [← e4]; simp [bal]
                · rename_i c5 r5 heq5
                  rw [heq5] at e4
                  have e6 : bal (if (c5 == 44) = true then skipWs r5 else c5 :: r5) = bal (c :: r) := by
                    split
                    · rename_i h44
                      have : c5 = 44 := by simpa using h44
                      rw [bal_skipWs, ← e4]; simp [bal, this]
                    · exact e4
                  have hL := ihL (if (c5 == 44) = true then skipWs r5 else c5 :: r5)
                    ((if (c2 == 58) = true then some (takeIdent (c :: r)).1 else none, node) :: acc)
                  revert hL
                  generalize paramLoop false f _ _ = o
                  intro hL
                  cases o with
                  | ok a => obtain ⟨ps, s'⟩ := a; simp only [BalL] at *; omega
                  | fail => simp [BalL]
                  | crash x => simp only [BalL] at *; intro hx; have := hL hx; omega
              · simp [BalL]
              · rename_i x hpc
                rw [hpc] at hC
                simp only [BalC, BalL] at *
                intro hx; have := hC hx; omega

/-- the parser phase of parseType crashes at end of input only on strings with more '(' than ')' -/
theorem eof_unbalanced (s : Str) (h : parseClass false (s.length + 1) s = .crash .paramsEof) : 1 ≤ bal s := by
  have := (parse_bal (s.length + 1)).1 s
  rw [h] at this
  exact this rfl

/-! ### output size of the fixed apacheToCassandraType -/

theorem replaceAll_len (old new : Str) (k : Nat) (hk : 1 ≤ k) (_hold : 1 ≤ old.length) (h : new.length ≤ k * old.length) :
    ∀ (n : Nat) (s : Str), (replaceAll old new n s).length ≤ k * s.length := by
  intro n
  induction n with
  | zero => intro s; simp [replaceAll]; exact Nat.le_mul_of_pos_left _ (by omega)
  | succ n ih =>
    intro s
    cases s with
    | nil => simp [replaceAll]
    | cons c r =>
      unfold replaceAll
      split
      · rename_i hp
        have hl := (List.isPrefixOf_iff_prefix.mp hp).length_le
        have := ih ((c :: r).drop old.length)
        simp only [List.length_append, List.length_drop] at *
        have h2 : k * ((c :: r).length - old.length) + k * old.length = k * (c :: r).length := by
          rw [← Nat.mul_add]; congr 1; omega
        omega
      · have := ih r
        simp only [List.length_cons]
        have : k * (r.length + 1) = k * r.length + k := by rw [Nat.mul_add]; simp
        omega

theorem replace_len (s old new : Str) (k : Nat) (hk : 1 ≤ k) (h : new.length ≤ k * old.length) :
    (replace s old new).length ≤ k * s.length := by
  unfold replace
  split
  · exact Nat.le_mul_of_pos_left _ (by omega)
  · rename_i hne
    have : 1 ≤ old.length := by
      cases old with
      | nil => simp at hne
      | cons a b => simp
    exact replaceAll_len old new k hk this h _ s

theorem lookup_mem (tbl : List (Str × Nat)) (s : Str) (v : Nat) (h : lookup tbl s = some v) : v ∈ tbl.map (·.2) := by
  induction tbl with
  | nil => simp [lookup] at h
  | cons p r ih =>
    obtain ⟨k, w⟩ := p
    unfold lookup at h
    split at h
    · cases h; simp
    · simp; right; simpa using ih h

theorem typeName_apache_len (x : Str) : (typeName (apacheType x)).length ≤ 9 := by
  have hall : ∀ v ∈ (0 :: apacheTable.map (·.2)), (typeName v).length ≤ 9 := by decide
  unfold apacheType
  cases h : lookup apacheTable (trimPrefix kAPACHE x) with
  | none => exact hall 0 (List.mem_cons_self ..)
  | some v => exact hall v (List.mem_cons_of_mem _ (lookup_mem _ _ _ h))

theorem translateFields_len (s cur : Str) : (translateFields s cur).length ≤ 9 * (s.length + cur.length) := by
  induction s generalizing cur with
  | nil =>
    unfold translateFields
    split
    · simp
    · rename_i hne
      have := typeName_apache_len cur.reverse
      cases cur with
      | nil => simp at hne
      | cons a b => simp at *; omega
  | cons c r ih =>
    unfold translateFields
    split
    · have h0 := ih []
      split
      · simp at *; omega
      · rename_i hne
        have := typeName_apache_len cur.reverse
        cases cur with
        | nil => simp at hne
        | cons a b => simp at *; omega
    · have := ih (c :: cur)
      simp at *; omega

/-- with props/C05.fix-8.diff the translation of a Java class string is at most 18 times its length -/
theorem apacheFixed_len (t : Str) : (apacheToCassandraTypeFx true t).length ≤ 18 * t.length := by
  unfold apacheToCassandraTypeFx
  simp only [if_true]
  have h1 := replace_len t kAPACHE [] 1 (by omega) (by simp)
  have h2 := replace_len (replace t kAPACHE []) [40] [60] 1 (by omega) (by simp)
  have h3 := replace_len (replace (replace t kAPACHE []) [40] [60]) [41] [62] 1 (by omega) (by simp)
  have h4 := translateFields_len (replace (replace (replace t kAPACHE []) [40] [60]) [41] [62]) []
  have h5 := replace_len (translateFields (replace (replace (replace t kAPACHE []) [40] [60]) [41] [62]) []) [44] kcommaSp 2 (by omega) (by decide)
  simp at *
  omega

end C05TypeStr
