/- C03 helper lemmas: message bodies -/
import Proofs.C03Frame
import Proofs.C03Params
namespace C03
open FrameSpec FrameWrite

theorem rdBody_startup (v : Nat) (now : Int) (opts : List (Bytes × Bytes)) (body : Bytes)
    (hx : Expressible v (ask now (.startup opts)) = true) (hb : wBody v now (.startup opts) = .ok body) :
    rdBody v (opcode (.startup opts)) (payloadOf (.startup opts)) body = some (ask now (.startup opts), []) := by
  simp only [wBody, Except.ok.injEq] at hb; subst hb
  simp only [Expressible, ask, Bool.and_eq_true, decide_eq_true_eq] at hx
  have := rdStringMap_w opts [] hx.1 hx.2
  simp only [List.append_nil] at this
  simp [rdBody, opcode, ask, this]

theorem rdBody_options (v : Nat) (now : Int) (body : Bytes) (hb : wBody v now .options = .ok body) :
    rdBody v (opcode .options) (payloadOf .options) body = some (ask now .options, []) := by
  simp only [wBody, Except.ok.injEq] at hb; subst hb
  simp [rdBody, opcode, ask]

theorem rdBody_auth (v : Nat) (now : Int) (d : Option Bytes) (body : Bytes)
    (hx : Expressible v (ask now (.authResponse d)) = true) (hb : wBody v now (.authResponse d) = .ok body) :
    rdBody v (opcode (.authResponse d)) (payloadOf (.authResponse d)) body = some (ask now (.authResponse d), []) := by
  simp only [wBody, Except.ok.injEq] at hb; subst hb
  simp only [Expressible, ask, Bool.and_eq_true, decide_eq_true_eq] at hx
  have := rdBytes_wBytes d [] hx.2
  simp only [List.append_nil] at this
  have hv : ¬ v < 2 := by omega
  simp [rdBody, opcode, ask, this, hv]

theorem rdBody_register (v : Nat) (now : Int) (l : List Bytes) (body : Bytes)
    (hx : Expressible v (ask now (.register l)) = true) (hb : wBody v now (.register l) = .ok body) :
    rdBody v (opcode (.register l)) (payloadOf (.register l)) body = some (ask now (.register l), []) := by
  simp only [wBody, Except.ok.injEq] at hb; subst hb
  simp only [Expressible, ask, Bool.and_eq_true, decide_eq_true_eq] at hx
  have := rdStringList_w l [] hx.1 hx.2
  simp only [List.append_nil] at this
  simp [rdBody, opcode, ask, this]

theorem bit_b2n_1 (c : Bool) : bit (b2n c 1) 0 = c ∧ b2n c 1 < 2 := by cases c <;> decide

theorem rdBody_prepare (v : Nat) (now : Int) (s ks : Bytes) (pl : GPayload) (body : Bytes) (hv5 : v ≤ 5)
    (hx : Expressible v (ask now (.prepare s ks pl)) = true) (hb : wBody v now (.prepare s ks pl) = .ok body) :
    rdBody v (opcode (.prepare s ks pl)) (payloadOf (.prepare s ks pl)) body = some (ask now (.prepare s ks pl), []) := by
  simp only [Expressible, ask, Bool.and_eq_true, Bool.or_eq_true, decide_eq_true_eq] at hx
  obtain ⟨⟨hs, _⟩, hks⟩ := hx
  by_cases hk : ks = []
  · subst hk
    simp only [wBody, ne_eq, not_true_eq_false, false_and, if_false, Except.ok.injEq] at hb
    subst hb
    by_cases h5 : v > 4
    · have hlt : ¬ v < 5 := by omega
      simp only [rdBody, opcode, payloadOf, ask, h5, if_true, List.append_assoc]
      simp [rdLongString_wLongString _ _ hs, hlt, rdUInt, wUInt, byteOf, b2n, rdOpt, bit]
    · have hlt : v < 5 := by omega
      have e0 := rdLongString_wLongString s [] hs
      simp only [List.append_nil] at e0
      simp only [rdBody, opcode, payloadOf, ask, h5, if_false, List.append_assoc]
      simp [e0, hlt]
  · have hsome : (if ks = [] then none else some ks) = some ks := by simp [hk]
    rw [hsome] at hks
    simp only [Option.isNone_some, Bool.false_eq_true, false_or, optAll] at hks
    have h5 : v > 4 := by omega
    have hlt : ¬ v < 5 := by omega
    have hnp : ¬ (ks ≠ [] ∧ ¬ v > 4) := by intro h; exact h.2 h5
    simp only [wBody, hnp, if_false, Except.ok.injEq] at hb
    subst hb
    have e := rdString_wString ks [] hks.2
    simp only [List.append_nil] at e
    simp only [rdBody, opcode, payloadOf, ask, h5, if_true, List.append_assoc, hsome]
    simp [rdLongString_wLongString _ _ hs, hlt, hk, rdUInt, wUInt, byteOf, b2n, rdOpt, bit, e]

theorem askParams_v1 (now : Int) (p : GParams) (b : Bool) (h : paramsOkV1 (askParams now p) b = true) :
    askParams now p = noParams p.cons (p.values.map askVal) ∧ p.cons < 65536 ∧
    (if b then valuesOk 1 false (p.values.map askVal) = true else p.values = []) := by
  simp only [paramsOkV1, askParams, Bool.and_eq_true, Bool.not_eq_true', isShort, decide_eq_true_eq] at h
  obtain ⟨⟨⟨⟨⟨⟨⟨hc, hsk⟩, hps⟩, hpst⟩, hser⟩, hts⟩, hks⟩, hv⟩ := h
  refine ⟨?_, of_decide_eq_true hc, ?_⟩
  · simp only [noParams, askParams, hsk]
    congr 1
    · revert hps; split <;> simp
    · revert hpst; split <;> simp
    · revert hser; split <;> simp
    · revert hts; split <;> simp
    · revert hks; split <;> simp
  · cases b with
    | true => simpa using hv
    | false =>
      simp only [Bool.false_eq_true, if_false, List.isEmpty_iff, List.map_eq_nil_iff] at hv
      simpa using hv

theorem no_keyspace_panic (v : Nat) (now : Int) (p : GParams) (hok : paramsOk v (askParams now p) = true) :
    ¬ (p.keyspace ≠ [] ∧ ¬ v > 4) := by
  simp only [paramsOk, askParams, Bool.and_eq_true, Bool.or_eq_true, decide_eq_true_eq] at hok
  intro ⟨hk, hv⟩
  have := hok.2
  simp only [hk, if_false, Option.isNone_some, Bool.false_eq_true, false_or] at this
  omega

theorem rdBody_query (v : Nat) (now : Int) (s : Bytes) (p : GParams) (pl : GPayload) (body : Bytes)
    (hv1 : 1 ≤ v) (hv5 : v ≤ 5)
    (hx : Expressible v (ask now (.query s p pl)) = true) (hb : wBody v now (.query s p pl) = .ok body) :
    rdBody v (opcode (.query s p pl)) (payloadOf (.query s p pl)) body = some (ask now (.query s p pl), []) := by
  simp only [Expressible, ask, Bool.and_eq_true] at hx
  obtain ⟨⟨hs, _⟩, hp⟩ := hx
  by_cases h1 : v = 1
  · subst h1
    simp only [if_true] at hp
    obtain ⟨hask, hc, hvals⟩ := askParams_v1 now p false hp
    simp only [Bool.false_eq_true, if_false] at hvals
    simp only [wBody, ne_eq, not_true_eq_false, false_and, if_false, Except.ok.injEq] at hb
    subst hb
    have e := rdShort_wShort p.cons [] hc
    simp only [List.append_nil] at e
    simp only [rdBody, opcode, payloadOf, ask, wQueryParams, if_true, List.append_nil,
      rdLongString_wLongString _ _ hs, hask, hvals, List.map_nil]
    simp [e]
  · simp only [h1, if_false] at hp
    have hnp := no_keyspace_panic v now p hp
    have hnp' : ¬ (v ≠ 1 ∧ p.keyspace ≠ [] ∧ ¬ v > 4) := fun h => hnp h.2
    simp only [wBody, hnp', if_false, Except.ok.injEq] at hb
    subst hb
    have e := rdQueryParams_w v now p [] (by omega) hv5 hp
    simp only [List.append_nil] at e
    simp only [rdBody, opcode, payloadOf, ask, rdLongString_wLongString _ _ hs, h1, if_false]
    simp [e]

theorem rdBody_execute (v : Nat) (now : Int) (id : Bytes) (p : GParams) (pl : GPayload) (body : Bytes)
    (hv1 : 1 ≤ v) (hv5 : v ≤ 5)
    (hx : Expressible v (ask now (.execute id p pl)) = true) (hb : wBody v now (.execute id p pl) = .ok body) :
    rdBody v (opcode (.execute id p pl)) (payloadOf (.execute id p pl)) body = some (ask now (.execute id p pl), []) := by
  simp only [Expressible, ask, Bool.and_eq_true] at hx
  obtain ⟨⟨hs, _⟩, hp⟩ := hx
  by_cases h1 : v = 1
  · subst h1
    simp only [if_true] at hp
    obtain ⟨hask, hc, hvals⟩ := askParams_v1 now p true hp
    simp only [if_true] at hvals
    have hgt : ¬ (1 > 1) := by omega
    simp only [wBody, hgt, if_false, Except.ok.injEq] at hb
    subst hb
    have e := rdShort_wShort p.cons [] hc
    simp only [List.append_nil] at e
    have ev := rdValues_unnamed 1 p.values (wShort p.cons) hvals
    simp only [rdBody, opcode, payloadOf, ask, wExecV1, List.append_assoc,
      rdString_wString _ _ hs, hask]
    simp only [List.append_assoc] at ev
    simp [ev, e]
  · simp only [h1, if_false] at hp
    have hnp := no_keyspace_panic v now p hp
    have hgt : v > 1 := by omega
    simp only [wBody, hgt, if_true, hnp, if_false, Except.ok.injEq] at hb
    subst hb
    have e := rdQueryParams_w v now p [] (by omega) hv5 hp
    simp only [List.append_nil] at e
    simp only [rdBody, opcode, payloadOf, ask, rdString_wString _ _ hs, h1, if_false]
    simp [e]

theorem rdBStmt_wStmt (v : Nat) (s : GStmt) (r : Bytes) (h : BStmt.ok v (askStmt s) = true) :
    rdBStmt v (wStmt s ++ r) = some (askStmt s, r) := by
  by_cases hid : s.preparedID.length = 0
  · simp only [askStmt, hid, if_true, BStmt.ok, Bool.and_eq_true] at h ⊢
    have ev := rdValues_unnamed v s.values r h.2
    simp only [List.append_assoc] at ev
    simp only [rdBStmt, wStmt, hid, if_true, List.append_assoc, List.cons_append, List.nil_append,
      rdByte_byteOf 0 _ (by omega), rdLongString_wLongString _ _ h.1, ev]
  · simp only [askStmt, hid, if_false, BStmt.ok, Bool.and_eq_true] at h ⊢
    have ev := rdValues_unnamed v s.values r h.2
    simp only [List.append_assoc] at ev
    simp only [rdBStmt, wStmt, hid, if_false, List.append_assoc, List.cons_append, List.nil_append,
      rdByte_byteOf 1 _ (by omega), rdString_wString _ _ h.1, ev]
    simp

theorem bits_batch (a b : Bool) :
    let fl := b2n a 0x10 + b2n b 0x20
    fl < 256 ∧ bit fl 0 = false ∧ bit fl 1 = false ∧ bit fl 2 = false ∧ bit fl 3 = false ∧ bit fl 4 = a ∧
      bit fl 5 = b ∧ bit fl 6 = false ∧ bit fl 7 = false := by
  cases a <;> cases b <;> decide

theorem stmt_unnamed (v : Nat) (s : GStmt) (h : BStmt.ok v (askStmt s) = true) :
    s.values.any (fun x => decide (x.name ≠ [])) = false := by
  have hv : valuesOk v false (s.values.map askVal) = true := by
    unfold askStmt at h
    split at h <;> simp only [BStmt.ok, Bool.and_eq_true] at h <;> exact h.2
  have := values_unnamed v s.values hv
  simp only [List.any_eq_false, decide_eq_true_eq]
  intro x hx; simp [this x hx]

theorem rdBody_batch (v : Nat) (now : Int) (typ : Nat) (stmts : List GStmt) (cons ser : Nat) (dts : Bool) (tsv : Int)
    (pl : GPayload) (body : Bytes) (hv5 : v ≤ 5)
    (hx : Expressible v (ask now (.batch typ stmts cons ser dts tsv pl)) = true)
    (hb : wBody v now (.batch typ stmts cons ser dts tsv pl) = .ok body) :
    rdBody v (opcode (.batch typ stmts cons ser dts tsv pl)) (payloadOf (.batch typ stmts cons ser dts tsv pl)) body =
      some (ask now (.batch typ stmts cons ser dts tsv pl), []) := by
  simp only [Expressible, ask, Bool.and_eq_true, Bool.or_eq_true, decide_eq_true_eq, List.length_map,
    List.all_eq_true, List.mem_map, forall_exists_index, and_imp, forall_apply_eq_imp_iff₂] at hx
  obtain ⟨⟨⟨⟨⟨⟨⟨⟨hv2, htyp⟩, hn⟩, hst⟩, hcons⟩, _⟩, hser⟩, hts⟩, _⟩ := hx
  have hcons' : cons < 65536 := of_decide_eq_true hcons
  have hnonamed : ¬ (v > 2 ∧ stmts.any (fun s => s.values.any (fun x => decide (x.name ≠ []))) = true) := by
    intro ⟨_, h⟩
    simp only [List.any_eq_true] at h
    obtain ⟨s, hs, hs2⟩ := h
    have := stmt_unnamed v s (hst s hs)
    rw [List.any_eq_false] at this
    obtain ⟨x, hx, hx2⟩ := hs2
    exact this x hx hx2
  simp only [wBody, hnonamed, if_false, Except.ok.injEq] at hb
  subst hb
  rw [← List.append_nil (wBatchBody v now typ stmts cons ser dts tsv)]
  have hvn : ¬ v < 2 := by omega
  have eST : ∀ T : Bytes, rdCounted (rdBStmt v) (wShort stmts.length ++ (List.flatMap wStmt stmts ++ T)) =
      some (stmts.map askStmt, T) := by
    intro T
    have := rdCounted_flatMap (rdBStmt v) wStmt askStmt stmts T hn (fun s hs r => rdBStmt_wStmt v s r (hst s hs))
    simpa only [List.append_assoc] using this
  by_cases h2 : v = 2
  · subst h2
    have hgt : ¬ 2 > 2 := by omega
    have hser0 : ¬ ser > 0 := by
      intro h; simp only [h, if_true, Option.isNone_some, Bool.false_eq_true, false_or] at hser; omega
    have hdts : dts = false := by
      cases dts with
      | false => rfl
      | true => simp only [if_true, Option.isNone_some, Bool.false_eq_true, false_or] at hts; omega
    have e := rdShort_wShort cons [] hcons'
    simp only [rdBody, opcode, payloadOf, ask, wBatchBody, hgt, if_false, List.append_assoc, List.cons_append,
      List.nil_append, rdByte_byteOf _ _ htyp, eST, e, hser0, hdts]
    simp
  · have hgt : v > 2 := by omega
    obtain ⟨hfl, f0, f1, f2, f3, f4, f5, f6, f7⟩ := bits_batch (decide (ser > 0)) dts
    have hfl' : batchFlags ser dts < 256 := hfl
    have g1 : ¬ (batchFlags ser dts ≥ 256 ∨ bit (batchFlags ser dts) 0 = true ∨ bit (batchFlags ser dts) 1 = true ∨
        bit (batchFlags ser dts) 2 = true ∨ bit (batchFlags ser dts) 3 = true ∨ bit (batchFlags ser dts) 6 = true) := by
      unfold batchFlags; rw [f0, f1, f2, f3, f6]; simp; exact hfl
    have g2 : ¬ (v < 5 ∧ bit (batchFlags ser dts) 7 = true) := by
      unfold batchFlags; rw [f7]; simp
    have eSER : ∀ T : Bytes, rdOpt (bit (batchFlags ser dts) 4) rdShort ((if ser > 0 then wShort ser else []) ++ T) =
        some (if ser > 0 then some ser else none, T) := by
      intro T
      have := rdOpt_app (decide (ser > 0)) rdShort (wShort ser) ser T (fun hc => by
        have hc' : ser > 0 := by simpa using hc
        simp only [hc', if_true, Option.isNone_some, Bool.false_eq_true, false_or, optAll, isShort,
          decide_eq_true_eq] at hser
        exact rdShort_wShort _ _ hser.2)
      have e4 : bit (batchFlags ser dts) 4 = decide (ser > 0) := f4
      rw [e4]; simpa only [decide_eq_true_eq] using this
    have eTS : ∀ T : Bytes, rdOpt (bit (batchFlags ser dts) 5) rdLong ((if dts = true then wLong (tsOf now tsv) else []) ++ T) =
        some (if dts = true then some (tsOf now tsv) else none, T) := by
      intro T
      have e5 : bit (batchFlags ser dts) 5 = dts := f5
      rw [e5]
      exact rdOpt_app dts rdLong (wLong (tsOf now tsv)) (tsOf now tsv) T (fun hc => by
        simp only [hc, if_true, Option.isNone_some, Bool.false_eq_true, false_or, optAll, isInt64,
          Bool.and_eq_true, decide_eq_true_eq] at hts
        exact rdLong_wLong _ _ hts.2.1 hts.2.2)
    have e7 : bit (batchFlags ser dts) 7 = false := f7
    have e := rdShort_wShort cons
    simp only [rdBody, opcode, payloadOf, ask, wBatchBody, hgt, if_true, List.append_assoc, List.cons_append,
      List.nil_append, rdByte_byteOf _ _ htyp, eST, e _ hcons', hvn, if_false, h2, rdFlags_wFlags _ _ _ hfl',
      if_neg g1, if_neg g2, eSER, eTS, e7]
    simp [rdOpt]

/-- every message body is decoded to the request that was asked for -/
theorem rdBody_w (v : Nat) (now : Int) (g : GReq) (body : Bytes) (hv1 : 1 ≤ v) (hv5 : v ≤ 5)
    (hx : Expressible v (ask now g) = true) (hb : wBody v now g = .ok body) :
    rdBody v (opcode g) (payloadOf g) body = some (ask now g, []) := by
  cases g with
  | startup opts => exact rdBody_startup v now opts body hx hb
  | options => exact rdBody_options v now body hb
  | authResponse d => exact rdBody_auth v now d body hx hb
  | register l => exact rdBody_register v now l body hx hb
  | query s p pl => exact rdBody_query v now s p pl body hv1 hv5 hx hb
  | prepare s ks pl => exact rdBody_prepare v now s ks pl body hv5 hx hb
  | execute id p pl => exact rdBody_execute v now id p pl body hv1 hv5 hx hb
  | batch typ stmts cons ser dts tsv pl => exact rdBody_batch v now typ stmts cons ser dts tsv pl body hv5 hx hb

end C03
