/-
C03, handshake tier — helper lemmas about the statement ids the specification (and so the model of conn.go's
prepared-statement cache) holds: every id comes from a PREPARED answer of the peer.
-/
import Proofs.C03Handshake
namespace C03
open FrameSpec FrameWrite Handshake

/-- the statement ids the specification holds at a point of the exchange -/
def knownOf : SpecAt → Known
  | .use _ _ _ k _ => k
  | .reg _ _ k _ => k
  | .prep _ _ k _ _ _ _ => k
  | .exe _ _ k _ _ _ _ => k
  | _ => []

def IdsFrom (P : Bytes → Prop) (k : Known) : Prop := ∀ e ∈ k, P e.2.1

/-- if the request is an EXECUTE, its id satisfies P -/
def execIdOk (P : Bytes → Prop) : Option (Req × Bool) → Prop
  | some (Req.execute id _ _, _) => P id
  | _ => True

theorem lookup_mem {α β : Type} [BEq α] (k : α) (v : β) : ∀ (l : List (α × β)), l.lookup k = some v → ∃ k', (k', v) ∈ l
  | [], h => by simp at h
  | (k', v') :: l, h => by
    rw [List.lookup_cons] at h
    split at h
    · injection h with h; subst h; exact ⟨k', by simp⟩
    · obtain ⟨k'', hk⟩ := lookup_mem k v l h
      exact ⟨k'', by simp [hk]⟩

theorem lookup_filter_ne (key : Key) (l : Known) : (l.filter (fun e => e.1 != key)).lookup key = none := by
  rw [List.lookup_eq_none_iff]
  intro p hp
  have h := (List.mem_filter.mp hp).2
  simp only [bne_iff_ne, ne_eq] at h
  simp only [bne_iff_ne, ne_eq]
  exact fun e => h e.symm

theorem idsFrom_nil (P : Bytes → Prop) : IdsFrom P [] := by intro e he; simp at he

theorem specForget_ids (P : Bytes → Prop) (known : Known) (key : Key) (uid : Bytes) (h : IdsFrom P known) :
    IdsFrom P (specForget known key uid) := by
  unfold specForget
  split
  · split
    · intro e he; exact h e (List.mem_filter.mp he).1
    · exact h
  · exact h

theorem specExec_ids (P : Bytes → Prop) (cfg : Config) (z : Bool) (curKs : Bytes) (known : Known) (stmt : Bytes) (cons : Nat)
    (vals : List (Option Bytes)) (rest : List Action) (h : IdsFrom P known) :
    IdsFrom P (knownOf (specExec cfg z curKs known stmt cons vals rest).1) ∧
    execIdOk P (specExec cfg z curKs known stmt cons vals rest).2 := by
  unfold specExec
  cases hl : List.lookup (curKs, stmt) known with
  | none => exact ⟨h, trivial⟩
  | some info =>
    obtain ⟨id, n⟩ := info
    obtain ⟨k', hk⟩ := lookup_mem _ _ known hl
    by_cases hn : n = vals.length
    · simp only [hn, if_true]; exact ⟨h, h _ hk⟩
    · simp only [hn, if_false]; exact ⟨idsFrom_nil P, trivial⟩

theorem specNext_ids (P : Bytes → Prop) (cfg : Config) (z : Bool) (curKs : Bytes) (known : Known) (rest : List Action)
    (h : IdsFrom P known) :
    IdsFrom P (knownOf (specNext cfg z curKs known rest).1) ∧ execIdOk P (specNext cfg z curKs known rest).2 := by
  induction rest with
  | nil => exact ⟨idsFrom_nil P, trivial⟩
  | cons a rest ih =>
    cases a with
    | useKs ks => exact ⟨h, trivial⟩
    | register t s c =>
      simp only [specNext]
      split
      · exact ih
      · exact ⟨h, trivial⟩
    | exec stmt cons vals => exact specExec_ids P cfg z curKs known stmt cons vals rest h

theorem specStep_ids (P : Bytes → Prop) (cfg : Config) (au : Authn) (at_ : SpecAt) (a : PeerAnswer)
    (hP : ∀ id n, a = .prepared id n → P id) (h : IdsFrom P (knownOf at_)) :
    IdsFrom P (knownOf (specStep cfg au at_ a).1) ∧ execIdOk P (specStep cfg au at_ a).2.1 := by
  have h0 := fun z => specNext_ids P cfg z [] [] cfg.plan (idsFrom_nil P)
  cases at_ with
  | options => cases a <;> exact ⟨idsFrom_nil P, trivial⟩
  | startup z =>
    cases a <;> try exact ⟨idsFrom_nil P, trivial⟩
    case ready => exact h0 z
    case authenticate cls =>
      simp only [specStep]; split <;> exact ⟨idsFrom_nil P, trivial⟩
  | auth z hist =>
    cases a <;> try exact ⟨idsFrom_nil P, trivial⟩
    case authChallenge c =>
      simp only [specStep]; split <;> exact ⟨idsFrom_nil P, trivial⟩
    case authSuccess t =>
      simp only [specStep]
      split
      · split
        · exact h0 z
        · exact ⟨idsFrom_nil P, trivial⟩
      · exact h0 z
  | use z curKs ks known rest =>
    cases a <;> try exact ⟨idsFrom_nil P, trivial⟩
    case setKeyspace => exact specNext_ids P cfg z ks known rest h
  | reg z curKs known rest =>
    cases a <;> try exact ⟨idsFrom_nil P, trivial⟩
    case ready => exact specNext_ids P cfg z curKs known rest h
  | prep z curKs known stmt cons vals rest =>
    cases a <;> try exact ⟨idsFrom_nil P, trivial⟩
    case prepared id n =>
      simp only [specStep]
      split
      · refine ⟨?_, hP id n rfl⟩
        intro e he
        rcases List.mem_cons.mp he with rfl | he
        · exact hP id n rfl
        · exact h e he
      · exact ⟨idsFrom_nil P, trivial⟩
  | exe z curKs known stmt cons vals rest =>
    cases a <;> try exact ⟨idsFrom_nil P, trivial⟩
    case setKeyspace => exact specNext_ids P cfg z curKs known rest h
    case void => exact specNext_ids P cfg z curKs known rest h
    case unprepared uid =>
      exact specExec_ids P cfg z curKs _ stmt cons vals rest (specForget_ids P known _ uid h)
  | stop w => cases a <;> exact ⟨idsFrom_nil P, trivial⟩

theorem specRun_ids (P : Bytes → Prop) (cfg : Config) (au : Authn) :
    ∀ (answers : List PeerAnswer) (at_ : SpecAt), (∀ id n, .prepared id n ∈ answers → P id) → IdsFrom P (knownOf at_) →
      ∀ r ∈ specRun cfg au at_ answers, execIdOk P (some r) := by
  intro answers
  induction answers with
  | nil => intro at_ _ _ r hr; simp [specRun] at hr
  | cons a as ih =>
    intro at_ hP h r hr
    have hs := specStep_ids P cfg au at_ a (fun id n e => hP id n (by simp [e])) h
    simp only [specRun, List.mem_append] at hr
    rcases hr with hr | hr
    · cases hq : (specStep cfg au at_ a).2.1 with
      | none => simp [hq] at hr
      | some q =>
        simp only [hq, Option.toList_some, List.mem_singleton] at hr
        subst hr; rw [hq] at hs; exact hs.2
    · exact ih _ (fun id n hm => hP id n (by simp [hm])) hs.1 r hr
/-! ## every PREPARE / EXECUTE serves an `exec` action of the plan -/

/-- the actions the specification still has to serve at a point of the exchange (the one in progress first) -/
def actsOf : SpecAt → List Action
  | .use _ _ _ _ rest => rest
  | .reg _ _ _ rest => rest
  | .prep _ _ _ stmt cons vals rest => .exec stmt cons vals :: rest
  | .exe _ _ _ stmt cons vals rest => .exec stmt cons vals :: rest
  | _ => []

def FromPlan (plan : List Action) (l : List Action) : Prop := ∀ a ∈ l, a ∈ plan

/-- a PREPARE / EXECUTE is that of an `exec` action of the plan -/
def execOfPlan (cfg : Config) : Option (Req × Bool) → Prop
  | some (Req.execute id p pl, _) =>
    ∃ stmt cons vals curKs, Action.exec stmt cons vals ∈ cfg.plan ∧ Req.execute id p pl = specExecute cfg curKs id cons vals
  | some (Req.prepare stmt ks pl, _) =>
    ∃ cons vals curKs, Action.exec stmt cons vals ∈ cfg.plan ∧ Req.prepare stmt ks pl = specPrepare cfg.v curKs stmt
  | _ => True

theorem fromPlan_nil (plan : List Action) : FromPlan plan [] := by intro a ha; simp at ha

theorem specExec_plan (cfg : Config) (z : Bool) (curKs : Bytes) (known : Known) (stmt : Bytes) (cons : Nat)
    (vals : List (Option Bytes)) (rest : List Action) (h : FromPlan cfg.plan (.exec stmt cons vals :: rest)) :
    FromPlan cfg.plan (actsOf (specExec cfg z curKs known stmt cons vals rest).1) ∧
    execOfPlan cfg (specExec cfg z curKs known stmt cons vals rest).2 := by
  have h0 : Action.exec stmt cons vals ∈ cfg.plan := h _ (by simp)
  unfold specExec
  cases List.lookup (curKs, stmt) known with
  | none => exact ⟨h, cons, vals, curKs, h0, rfl⟩
  | some info =>
    obtain ⟨id, n⟩ := info
    by_cases hn : n = vals.length
    · simp only [hn, if_true]; exact ⟨h, stmt, cons, vals, curKs, h0, rfl⟩
    · simp only [hn, if_false]; exact ⟨fromPlan_nil _, trivial⟩

theorem specNext_plan (cfg : Config) (z : Bool) (curKs : Bytes) (known : Known) (rest : List Action)
    (h : FromPlan cfg.plan rest) :
    FromPlan cfg.plan (actsOf (specNext cfg z curKs known rest).1) ∧ execOfPlan cfg (specNext cfg z curKs known rest).2 := by
  induction rest with
  | nil => exact ⟨fromPlan_nil _, trivial⟩
  | cons a rest ih =>
    have hr : FromPlan cfg.plan rest := fun x hx => h x (by simp [hx])
    cases a with
    | useKs ks => exact ⟨hr, trivial⟩
    | register t s c =>
      simp only [specNext]
      split
      · exact ih hr
      · exact ⟨hr, trivial⟩
    | exec stmt cons vals => exact specExec_plan cfg z curKs known stmt cons vals rest h

theorem specStep_plan (cfg : Config) (au : Authn) (at_ : SpecAt) (a : PeerAnswer) (h : FromPlan cfg.plan (actsOf at_)) :
    FromPlan cfg.plan (actsOf (specStep cfg au at_ a).1) ∧ execOfPlan cfg (specStep cfg au at_ a).2.1 := by
  have h0 := fun z => specNext_plan cfg z [] [] cfg.plan (fun _ hx => hx)
  cases at_ with
  | options => cases a <;> exact ⟨fromPlan_nil _, trivial⟩
  | startup z =>
    cases a <;> try exact ⟨fromPlan_nil _, trivial⟩
    case ready => exact h0 z
    case authenticate cls =>
      simp only [specStep]; split <;> exact ⟨fromPlan_nil _, trivial⟩
  | auth z hist =>
    cases a <;> try exact ⟨fromPlan_nil _, trivial⟩
    case authChallenge c =>
      simp only [specStep]; split <;> exact ⟨fromPlan_nil _, trivial⟩
    case authSuccess t =>
      simp only [specStep]
      split
      · split
        · exact h0 z
        · exact ⟨fromPlan_nil _, trivial⟩
      · exact h0 z
  | use z curKs ks known rest =>
    cases a <;> try exact ⟨fromPlan_nil _, trivial⟩
    case setKeyspace => exact specNext_plan cfg z ks known rest h
  | reg z curKs known rest =>
    cases a <;> try exact ⟨fromPlan_nil _, trivial⟩
    case ready => exact specNext_plan cfg z curKs known rest h
  | prep z curKs known stmt cons vals rest =>
    cases a <;> try exact ⟨fromPlan_nil _, trivial⟩
    case prepared id n =>
      simp only [specStep]
      split
      · exact ⟨h, stmt, cons, vals, curKs, h _ (by simp [actsOf]), rfl⟩
      · exact ⟨fromPlan_nil _, trivial⟩
  | exe z curKs known stmt cons vals rest =>
    have hr : FromPlan cfg.plan rest := fun x hx => h x (by simp [actsOf, hx])
    cases a <;> try exact ⟨fromPlan_nil _, trivial⟩
    case setKeyspace => exact specNext_plan cfg z curKs known rest hr
    case void => exact specNext_plan cfg z curKs known rest hr
    case unprepared uid => exact specExec_plan cfg z curKs _ stmt cons vals rest h
  | stop w => cases a <;> exact ⟨fromPlan_nil _, trivial⟩

theorem specRun_plan (cfg : Config) (au : Authn) :
    ∀ (answers : List PeerAnswer) (at_ : SpecAt), FromPlan cfg.plan (actsOf at_) →
      ∀ r ∈ specRun cfg au at_ answers, execOfPlan cfg (some r) := by
  intro answers
  induction answers with
  | nil => intro at_ _ r hr; simp [specRun] at hr
  | cons a as ih =>
    intro at_ h r hr
    have hs := specStep_plan cfg au at_ a h
    simp only [specRun, List.mem_append] at hr
    rcases hr with hr | hr
    · cases hq : (specStep cfg au at_ a).2.1 with
      | none => simp [hq] at hr
      | some q =>
        simp only [hq, Option.toList_some, List.mem_singleton] at hr
        subst hr; rw [hq] at hs; exact hs.2
    · exact ih _ hs.1 r hr

end C03
