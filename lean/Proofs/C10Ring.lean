import Model.Placement
import Proofs.C10Lookup
/-!
C10 helper: ring construction (`newTokenRing`).  The model's `buildRing` (append every (token, host) pair, sort) yields,
for pairwise distinct tokens, THE strictly ascending arrangement of the pairs — and there is only one, so every correct
sorting algorithm (Go's unstable `sort.Sort` included) returns the same ring.
-/
namespace C10Ring
open Placement C10Lookup

/-- the pairs `newTokenRing` appends before sorting: for every host, for every token of the host -/
def allPairs (hosts : List (Host × List Int)) : List Entry :=
  hosts.flatMap (fun ht => ht.2.map (fun t => (t, ht.1)))

/-- no token is claimed twice (by one host or by two) — Cassandra's invariant -/
def DistinctTokens (hosts : List (Host × List Int)) : Prop := ((allPairs hosts).map (·.1)).Nodup

theorem perm_insertEntry (e : Entry) : ∀ l : List Entry, (insertEntry e l).Perm (e :: l)
  | [] => List.Perm.refl _
  | x :: xs => by
    unfold insertEntry
    split
    · exact List.Perm.refl _
    · exact ((perm_insertEntry e xs).cons x).trans (List.Perm.swap e x xs)

theorem perm_sortEntries : ∀ l : List Entry, (sortEntries l).Perm l
  | [] => List.Perm.refl _
  | y :: ys => by
    have h : sortEntries (y :: ys) = insertEntry y (sortEntries ys) := rfl
    rw [h]
    exact (perm_insertEntry y _).trans ((perm_sortEntries ys).cons y)

theorem mem_insertEntry (e x : Entry) (l : List Entry) : x ∈ insertEntry e l ↔ x = e ∨ x ∈ l := by
  rw [(perm_insertEntry e l).mem_iff]; simp

theorem sorted_insertEntry (e : Entry) : ∀ l : List Entry, Sorted l → (∀ x ∈ l, x.1 ≠ e.1) →
    Sorted (insertEntry e l)
  | [], _, _ => by simp [insertEntry, Sorted]
  | x :: xs, hs, hne => by
    unfold Sorted at hs ⊢
    rw [List.pairwise_cons] at hs
    unfold insertEntry
    split
    · rename_i hle
      have hlt : e.1 < x.1 := by
        have := hne x (by simp); omega
      rw [List.pairwise_cons]
      refine ⟨?_, List.pairwise_cons.mpr hs⟩
      intro y hy
      rcases List.mem_cons.mp hy with rfl | hy
      · exact hlt
      · have := hs.1 y hy; omega
    · rename_i hnle
      rw [List.pairwise_cons]
      refine ⟨?_, sorted_insertEntry e xs hs.2 (fun y hy => hne y (by simp [hy]))⟩
      intro y hy
      rcases (mem_insertEntry e y xs).mp hy with rfl | hy
      · omega
      · exact hs.1 y hy

theorem sorted_sortEntries : ∀ l : List Entry, (l.map (·.1)).Nodup → Sorted (sortEntries l)
  | [], _ => by simp [sortEntries, Sorted]
  | y :: ys, hnd => by
    have h : sortEntries (y :: ys) = insertEntry y (sortEntries ys) := rfl
    rw [h]
    rw [List.map_cons, List.nodup_cons] at hnd
    apply sorted_insertEntry y _ (sorted_sortEntries ys hnd.2)
    intro x hx heq
    apply hnd.1
    rw [← heq]
    exact List.mem_map.mpr ⟨x, (perm_sortEntries ys).mem_iff.mp hx, rfl⟩

/-- a strictly ascending list is determined by its elements -/
theorem sorted_perm_unique {β : Type} : ∀ (l₁ l₂ : List (Int × β)), Sorted l₁ → Sorted l₂ → l₁.Perm l₂ → l₁ = l₂
  | [], l₂, _, _, hp => (List.Perm.nil_eq hp)
  | a :: r₁, [], _, _, hp => absurd hp.symm (by simp)
  | a :: r₁, b :: r₂, h₁, h₂, hp => by
    unfold Sorted at h₁ h₂
    rw [List.pairwise_cons] at h₁ h₂
    have hab : a = b := by
      have ha : a ∈ b :: r₂ := hp.mem_iff.mp (by simp)
      have hb : b ∈ a :: r₁ := hp.mem_iff.mpr (by simp)
      rcases List.mem_cons.mp ha with h | h
      · exact h
      · rcases List.mem_cons.mp hb with h' | h'
        · exact h'.symm
        · have := h₁.1 b h'; have := h₂.1 a h; omega
    subst hab
    rw [sorted_perm_unique r₁ r₂ h₁.2 h₂.2 (List.Perm.cons_inv hp)]

theorem buildRing_sorted (hosts : List (Host × List Int)) (hd : DistinctTokens hosts) : Sorted (buildRing hosts) :=
  sorted_sortEntries _ hd

theorem buildRing_perm (hosts : List (Host × List Int)) : (buildRing hosts).Perm (allPairs hosts) :=
  perm_sortEntries _

end C10Ring
