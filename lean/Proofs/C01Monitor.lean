import Proofs.C01Mux
/-!
# The observation monitor accepts every behaviour of the multiplexing machine

`Mux.Mon` (Model/Mux.lean) is what `vdrv C01` / `vdrv C06` run over the observation stream of a REAL
connection (scripted server: `req s t` / `resp s t`; caller: `got t u`). Here: the projection of every
run of the abstract machine to that alphabet never makes the monitor reject. So a `reject:` verdict on a
real run exhibits a behaviour the machine does not have — either the property is violated
(`misrouted`, `stream-reused-while-outstanding`, `stream-out-of-range` are the property's own words) or
the model does not describe the code; it is never an artefact of the monitor.

The token a call sends is its own number (`req s c`), the server answers with the token of the request
it holds, the caller `d` that takes a response whose origin is `c` logs `got d c`.
-/
namespace Mux

/-- what is observable of one action, in the state in which it is taken -/
def obsOf (st : St) : Act → List Obs
  | .wrote c => match st.pc c with
      | .acquired s => [.req s c]
      | _ => []
  | .answer s k w => match st.wire s with
      | .pending c => [.resp s c k w]
      | _ => []
  | .deliver s => match st.wire s with
      | .answered _ k w => match st.owner s with
          | some d => if st.pc d = .waiting s then [.got d k w] else []
          | none => []
      | _ => []
  | .stray s => [.stray s]
  | .event => [.event]
  | _ => []

/-- the observation stream of a run (empty from the point where the run gets stuck) -/
def trace : St → List Act → List Obs
  | _, [] => []
  | st, a :: as => match step st a with
    | some st' => obsOf st a ++ trace st' as
    | none => []

def Mon.run (m : Mon) (os : List Obs) : Mon := os.foldl Mon.step m

/-! lookup / set -/

theorem Mon.lookup_set_self (m : Mon) (s t : Nat) (a : Bool) : (m.set s t a).lookup s = some (t, a) := by
  simp [Mon.lookup, Mon.set]

theorem find_filter_ne (l : List (Nat × Nat × Bool)) (s s' : Nat) (h : s' ≠ s) :
    (l.filter (·.1 ≠ s)).find? (·.1 = s') = l.find? (·.1 = s') := by
  induction l with
  | nil => rfl
  | cons e l ih =>
    by_cases he : e.1 = s
    · have hne : ¬ e.1 = s' := by rw [he]; exact fun x => h x.symm
      rw [List.filter_cons_of_neg (by simp [he]), List.find?_cons_of_neg (by simp [hne])]; exact ih
    · rw [List.filter_cons_of_pos (by simp [he])]
      by_cases he' : e.1 = s'
      · rw [List.find?_cons_of_pos (by simp [he']), List.find?_cons_of_pos (by simp [he'])]
      · rw [List.find?_cons_of_neg (by simp [he']), List.find?_cons_of_neg (by simp [he']), ih]

theorem Mon.lookup_set_ne (m : Mon) (s s' t : Nat) (a : Bool) (h : s' ≠ s) : (m.set s t a).lookup s' = m.lookup s' := by
  have h' : ¬ s = s' := fun e => h e.symm
  unfold Mon.lookup Mon.set
  dsimp only
  rw [List.find?_cons_of_neg (by simp [h']), find_filter_ne _ _ _ h]

@[simp] theorem Mon.set_bad (m : Mon) (s t : Nat) (a : Bool) : (m.set s t a).bad = m.bad := rfl
@[simp] theorem Mon.set_cap (m : Mon) (s t : Nat) (a : Bool) : (m.set s t a).cap = m.cap := rfl

theorem Mon.answer_cons_self (m : Mon) (t k w : Nat) :
    ({ m with sent := (t, k, w) :: m.sent } : Mon).answer t = some (k, w) := by
  simp [Mon.answer]

theorem Mon.answer_cons_ne (m : Mon) (t t' k w : Nat) (h : t' ≠ t) :
    ({ m with sent := (t, k, w) :: m.sent } : Mon).answer t' = m.answer t' := by
  have h' : ¬ t = t' := fun e => h e.symm
  simp [Mon.answer, h']

/-- simulation relation between a machine state and a monitor state -/
structure Sim (st : St) (m : Mon) : Prop where
  ok : m.bad = none
  cap : m.cap = st.cap
  pend : ∀ s t, m.lookup s = some (t, false) ↔ st.wire s = .pending t
  ans : ∀ t p, m.answer t = some p ↔ st.sent t = some p
  gots : ∀ t, t ∈ m.gots → ∃ o, st.pc t = .done o

theorem sim_init (cap : Nat) : Sim (init cap) (Mon.init cap) :=
  ⟨rfl, rfl, by intro s t; simp [Mon.lookup, Mon.init, init], by intro t p; simp [Mon.answer, Mon.init, init],
   by intro t; simp [Mon.init]⟩

/-- a step that changes neither `wire` nor `cap` nor `sent`, keeps finished calls finished and leaves the
    monitor where it is keeps the relation -/
theorem sim_silent {st st' : St} {m : Mon} (h : Sim st m) (hw : st'.wire = st.wire) (hc : st'.cap = st.cap)
    (hs : st'.sent = st.sent) (hd : ∀ t o, st.pc t = .done o → st'.pc t = .done o) : Sim st' m :=
  ⟨h.ok, by rw [hc]; exact h.cap, by intro s t; rw [hw]; exact h.pend s t, by intro t p; rw [hs]; exact h.ans t p,
   by intro t ht; obtain ⟨o, ho⟩ := h.gots t ht; exact ⟨o, hd t o ho⟩⟩

theorem sim_step (st st' : St) (m : Mon) (a : Act) (hi : Inv st) (h : Sim st m) (hs : step st a = some st') :
    Sim st' (Mon.run m (obsOf st a)) := by
  have hdone : ∀ t o, st.pc t = .done o → st'.pc t = .done o := fun t o hd => done_step st st' a t o hd hs
  cases a with
  | acquire c s =>
    simp only [step] at hs; split at hs
    · injection hs with hs; subst hs; exact sim_silent h rfl rfl rfl hdone
    · simp at hs
  | noStreams c =>
    simp only [step] at hs; split at hs
    · injection hs with hs; subst hs; exact sim_silent h rfl rfl rfl hdone
    · simp at hs
  | buildFail c =>
    simp only [step] at hs; split at hs
    · injection hs with hs; subst hs; exact sim_silent h rfl rfl rfl hdone
    · simp at hs
  | writeCancelled c =>
    simp only [step] at hs; split at hs
    · injection hs with hs; subst hs; exact sim_silent h rfl rfl rfl hdone
    · simp at hs
  | writeFailed c =>
    simp only [step] at hs; split at hs
    · injection hs with hs; subst hs; exact sim_silent h rfl rfl rfl hdone
    · simp at hs
  | timeout c =>
    simp only [step] at hs; split at hs
    · injection hs with hs; subst hs; exact sim_silent h rfl rfl rfl hdone
    · simp at hs
  | cancel c =>
    simp only [step] at hs; split at hs
    · injection hs with hs; subst hs; exact sim_silent h rfl rfl rfl hdone
    · simp at hs
  | connDone c =>
    simp only [step] at hs; split at hs
    · split at hs
      · injection hs with hs; subst hs; exact sim_silent h rfl rfl rfl hdone
      · simp at hs
    · simp at hs
  | close =>
    simp only [step] at hs; injection hs with hs; subst hs; exact sim_silent h rfl rfl rfl hdone
  | event =>
    simp only [step] at hs; injection hs with hs; subst hs
    have hm : Mon.run m (obsOf st .event) = m := by simp [obsOf, Mon.run, Mon.step]
    rw [hm]; exact h
  | stray s =>
    simp only [step] at hs; split at hs
    · rename_i hg
      injection hs with hs; subst hs
      have hnot : ∀ t0, m.lookup s ≠ some (t0, false) := by
        intro t0 hl
        have := (h.pend s t0).mp hl
        rw [hg.1] at this; cases this
      have hm : Mon.run m (obsOf st (.stray s)) = m := by
        cases hl : m.lookup s with
        | none => simp [obsOf, Mon.run, Mon.step, h.ok, hl]
        | some p =>
          obtain ⟨t0, b⟩ := p
          cases b with
          | true => simp [obsOf, Mon.run, Mon.step, h.ok, hl]
          | false => exact absurd hl (hnot t0)
      rw [hm]; exact h
    · simp at hs
  | wrote c =>
    simp only [step] at hs; split at hs
    · rename_i s hc
      injection hs with hs; subst hs
      have hown := hi.pc_own c s (Or.inl hc)
      have hr := hi.own_pc s c hown
      have hwn := hi.acq_wire c s hc
      have hnot : ∀ t0, m.lookup s ≠ some (t0, false) := by
        intro t0 hl
        have := (h.pend s t0).mp hl
        rw [hwn] at this; cases this
      have hrange : 1 ≤ s ∧ s < m.cap := by rw [h.cap]; exact ⟨hr.2.1, hr.2.2.1⟩
      have hm : Mon.run m (obsOf st (.wrote c)) = m.set s c false := by
        cases hl : m.lookup s with
        | none => simp [obsOf, hc, Mon.run, Mon.step, h.ok, hrange, hl]
        | some p =>
          obtain ⟨t0, b⟩ := p
          cases b with
          | true => simp [obsOf, hc, Mon.run, Mon.step, h.ok, hrange, hl]
          | false => exact absurd hl (hnot t0)
      rw [hm]
      refine ⟨h.ok, h.cap, ?_, h.ans, ?_⟩
      · intro s' t
        by_cases e : s' = s
        · subst e
          simp only [Mon.lookup_set_self, upd, if_pos]
          constructor
          · intro hh; injection hh with hh; injection hh with hh; rw [hh]
          · intro hh; injection hh with hh; rw [hh]
        · rw [Mon.lookup_set_ne _ _ _ _ _ e]
          simp only [upd, if_neg e]
          exact h.pend s' t
      · intro t ht
        obtain ⟨o, ho⟩ := h.gots t ht
        exact ⟨o, hdone t o ho⟩
    · simp at hs
  | answer s k w =>
    simp only [step] at hs; split at hs
    · rename_i c hw
      injection hs with hs; subst hs
      have hl := (h.pend s c).mpr hw
      have hm : Mon.run m (obsOf st (.answer s k w)) = { m.set s c true with sent := (c, k, w) :: m.sent } := by
        simp [obsOf, hw, Mon.run, Mon.step, h.ok, hl]
      rw [hm]
      refine ⟨h.ok, h.cap, ?_, ?_, ?_⟩
      · intro s' t
        show (m.set s c true).lookup s' = some (t, false) ↔ _
        by_cases e : s' = s
        · subst e
          simp [Mon.lookup_set_self, upd]
        · rw [Mon.lookup_set_ne _ _ _ _ _ e]
          simp only [upd, if_neg e]
          exact h.pend s' t
      · intro t p
        by_cases e : t = c
        · subst e
          have := Mon.answer_cons_self (m.set s t true) t k w
          simp only [upd, if_pos]
          rw [show ({ m.set s t true with sent := (t, k, w) :: m.sent } : Mon) =
                ({ m.set s t true with sent := (t, k, w) :: (m.set s t true).sent } : Mon) from rfl, this]
        · have := Mon.answer_cons_ne (m.set s c true) c t k w e
          simp only [upd, if_neg e]
          rw [show ({ m.set s c true with sent := (c, k, w) :: m.sent } : Mon) =
                ({ m.set s c true with sent := (c, k, w) :: (m.set s c true).sent } : Mon) from rfl, this]
          exact h.ans t p
      · intro t ht
        obtain ⟨o, ho⟩ := h.gots t ht
        exact ⟨o, hdone t o ho⟩
    · simp at hs
  | deliver s =>
    simp only [step] at hs; split at hs
    · rename_i c k w hw
      split at hs
      · simp at hs
      · -- the wire of `s` goes from answered to none: no `pending` fact changes
        have hpend : ∀ (st2 : St), st2.wire = upd st.wire s .none →
            ∀ s' t, m.lookup s' = some (t, false) ↔ st2.wire s' = .pending t := by
          intro st2 h2 s' t
          rw [h2]
          by_cases e : s' = s
          · subst e
            simp only [upd, if_pos]
            constructor
            · intro hh; have := (h.pend s' t).mp hh; rw [hw] at this; cases this
            · intro hh; cases hh
          · simp only [upd, if_neg e]; exact h.pend s' t
        have hgots : ∀ t, t ∈ m.gots → ∃ o, st'.pc t = .done o := by
          intro t ht
          obtain ⟨o, ho⟩ := h.gots t ht
          exact ⟨o, hdone t o ho⟩
        split at hs
        · rename_i d hd
          have hdc : d = c := by
            have := hi.wire_own s
            rcases this with h0 | ⟨c', hc', ho', _⟩
            · rw [hw] at h0; cases h0
            · rw [hw] at hc'
              rcases hc' with hc' | ⟨k', w', hc'⟩
              · cases hc'
              · injection hc' with hc' _ _; subst hc'
                rw [hd] at ho'; injection ho'
          split at hs
          · rename_i hp
            injection hs with hs
            subst hdc
            have hsent : m.answer d = some (k, w) := (h.ans d (k, w)).mpr (hi.ans_sent s d k w hw)
            have hnotin : d ∉ m.gots := by
              intro hin
              obtain ⟨o, ho⟩ := h.gots d hin
              rw [hp] at ho; cases ho
            have hm : Mon.run m (obsOf st (.deliver s)) = { m with gots := d :: m.gots } := by
              simp [obsOf, hw, hd, hp, Mon.run, Mon.step, h.ok, hnotin, hsent]
            rw [hm]
            refine ⟨h.ok, ?_, ?_, ?_, ?_⟩
            · subst hs; exact h.cap
            · apply hpend; subst hs; rfl
            · intro t p
              show m.answer t = some p ↔ _
              subst hs; exact h.ans t p
            · intro t ht
              rcases List.mem_cons.mp ht with e | e
              · subst e; subst hs; exact ⟨.resp t k w, by simp [upd]⟩
              · exact hgots t e
          · rename_i hp
            injection hs with hs
            have hm : Mon.run m (obsOf st (.deliver s)) = m := by
              simp [obsOf, hw, hd, hp, Mon.run]
            rw [hm]
            refine ⟨h.ok, ?_, ?_, ?_, hgots⟩
            · subst hs; exact h.cap
            · apply hpend; subst hs; rfl
            · intro t p; subst hs; exact h.ans t p
        · rename_i hd
          injection hs with hs
          have hm : Mon.run m (obsOf st (.deliver s)) = m := by
            simp [obsOf, hw, hd, Mon.run]
          rw [hm]
          refine ⟨h.ok, ?_, ?_, ?_, hgots⟩
          · subst hs; exact h.cap
          · apply hpend; subst hs; rfl
          · intro t p; subst hs; exact h.ans t p
    · simp at hs

theorem Mon.run_append (m : Mon) (a b : List Obs) : Mon.run m (a ++ b) = Mon.run (Mon.run m a) b := by
  simp [Mon.run, List.foldl_append]

theorem sim_run : ∀ (as : List Act) (st st' : St) (m : Mon), Inv st → Sim st m → run st as = some st' →
    Sim st' (Mon.run m (trace st as))
  | [], st, st', m, _, h, hr => by
    simp [run] at hr; subst hr; simpa [trace, Mon.run] using h
  | a :: as, st, st', m, hi, h, hr => by
    simp only [run] at hr
    split at hr
    · rename_i s1 hs1
      simp only [trace, hs1, Mon.run_append]
      exact sim_run as s1 st' _ (inv_step st s1 a hi hs1) (sim_step st s1 m a hi h hs1) hr
    · simp at hr

end Mux
