import Proofs.C01Mux
/-!
# The observation monitor accepts every behaviour of the multiplexing machine

`Mux.Mon` (Model/Mux.lean) is what `vdrv C01` / `vdrv C06` run over the observation stream of a REAL
connection (scripted server: `req s t` / `resp s t`; caller: `got t u`). Here: the projection of every
run of the abstract machine to that alphabet never makes the monitor reject. So a `reject:` verdict on a
real run exhibits a behaviour the machine does not have — either the property is violated
(`misrouted`, `stream-reused-while-outstanding`, `stream-out-of-range` are the property's own words) or
the model does not describe the code; it is never an artefact of the monitor.

The token a call sends is its own number (`req s c`), the server answers with the token of the request
it holds, the caller `d` that takes a response whose origin is `c` logs `got d c`.
-/
namespace Mux

/-- what is observable of one action, in the state in which it is taken -/
def obsOf (st : St) : Act → List Obs
  | .wrote c => match st.pc c with
      | .acquired s => [.req s c]
      | _ => []
  | .answer s => match st.wire s with
      | .pending c => [.resp s c]
      | _ => []
  | .deliver s => match st.wire s with
      | .answered c => match st.owner s with
          | some d => if st.pc d = .waiting s then [.got d c] else []
          | none => []
      | _ => []
  | _ => []

/-- the observation stream of a run (empty from the point where the run gets stuck) -/
def trace : St → List Act → List Obs
  | _, [] => []
  | st, a :: as => match step st a with
    | some st' => obsOf st a ++ trace st' as
    | none => []

def Mon.run (m : Mon) (os : List Obs) : Mon := os.foldl Mon.step m

/-! lookup / set -/

theorem Mon.lookup_set_self (m : Mon) (s t : Nat) (a : Bool) : (m.set s t a).lookup s = some (t, a) := by
  simp [Mon.lookup, Mon.set]

theorem find_filter_ne (l : List (Nat × Nat × Bool)) (s s' : Nat) (h : s' ≠ s) :
    (l.filter (·.1 ≠ s)).find? (·.1 = s') = l.find? (·.1 = s') := by
  induction l with
  | nil => rfl
  | cons e l ih =>
    by_cases he : e.1 = s
    · have hne : ¬ e.1 = s' := by rw [he]; exact fun x => h x.symm
      rw [List.filter_cons_of_neg (by simp [he]), List.find?_cons_of_neg (by simp [hne])]; exact ih
    · rw [List.filter_cons_of_pos (by simp [he])]
      by_cases he' : e.1 = s'
      · rw [List.find?_cons_of_pos (by simp [he']), List.find?_cons_of_pos (by simp [he'])]
      · rw [List.find?_cons_of_neg (by simp [he']), List.find?_cons_of_neg (by simp [he']), ih]

theorem Mon.lookup_set_ne (m : Mon) (s s' t : Nat) (a : Bool) (h : s' ≠ s) : (m.set s t a).lookup s' = m.lookup s' := by
  have h' : ¬ s = s' := fun e => h e.symm
  unfold Mon.lookup Mon.set
  dsimp only
  rw [List.find?_cons_of_neg (by simp [h']), find_filter_ne _ _ _ h]

@[simp] theorem Mon.set_bad (m : Mon) (s t : Nat) (a : Bool) : (m.set s t a).bad = m.bad := rfl
@[simp] theorem Mon.set_cap (m : Mon) (s t : Nat) (a : Bool) : (m.set s t a).cap = m.cap := rfl

/-- simulation relation between a machine state and a monitor state -/
structure Sim (st : St) (m : Mon) : Prop where
  ok : m.bad = none
  cap : m.cap = st.cap
  pend : ∀ s t, m.lookup s = some (t, false) ↔ st.wire s = .pending t

theorem sim_init (cap : Nat) : Sim (init cap) (Mon.init cap) :=
  ⟨rfl, rfl, by intro s t; simp [Mon.lookup, Mon.init, init]⟩

/-- a step that neither changes `wire` nor `cap` and is unobservable keeps the relation -/
theorem sim_silent {st st' : St} {m : Mon} (h : Sim st m) (hw : st'.wire = st.wire) (hc : st'.cap = st.cap) : Sim st' m :=
  ⟨h.ok, by rw [hc]; exact h.cap, by intro s t; rw [hw]; exact h.pend s t⟩

theorem sim_step (st st' : St) (m : Mon) (a : Act) (hi : Inv st) (h : Sim st m) (hs : step st a = some st') :
    Sim st' (Mon.run m (obsOf st a)) := by
  cases a with
  | acquire c s =>
    simp only [step] at hs; split at hs
    · injection hs with hs; subst hs; exact sim_silent h rfl rfl
    · simp at hs
  | noStreams c =>
    simp only [step] at hs; split at hs
    · injection hs with hs; subst hs; exact sim_silent h rfl rfl
    · simp at hs
  | buildFail c =>
    simp only [step] at hs; split at hs
    · injection hs with hs; subst hs; exact sim_silent h rfl rfl
    · simp at hs
  | writeCancelled c =>
    simp only [step] at hs; split at hs
    · injection hs with hs; subst hs; exact sim_silent h rfl rfl
    · simp at hs
  | writeFailed c =>
    simp only [step] at hs; split at hs
    · injection hs with hs; subst hs; exact sim_silent h rfl rfl
    · simp at hs
  | timeout c =>
    simp only [step] at hs; split at hs
    · injection hs with hs; subst hs; exact sim_silent h rfl rfl
    · simp at hs
  | cancel c =>
    simp only [step] at hs; split at hs
    · injection hs with hs; subst hs; exact sim_silent h rfl rfl
    · simp at hs
  | connDone c =>
    simp only [step] at hs; split at hs
    · split at hs
      · injection hs with hs; subst hs; exact sim_silent h rfl rfl
      · simp at hs
    · simp at hs
  | close =>
    simp only [step] at hs; injection hs with hs; subst hs; exact sim_silent h rfl rfl
  | wrote c =>
    simp only [step] at hs; split at hs
    · rename_i s hc
      injection hs with hs; subst hs
      have hown := hi.pc_own c s (Or.inl hc)
      have hr := hi.own_pc s c hown
      have hwn := hi.acq_wire c s hc
      have hnot : ∀ t0, m.lookup s ≠ some (t0, false) := by
        intro t0 hl
        have := (h.pend s t0).mp hl
        rw [hwn] at this; cases this
      have hrange : 1 ≤ s ∧ s < m.cap := by rw [h.cap]; exact ⟨hr.2.1, hr.2.2.1⟩
      have hm : Mon.run m (obsOf st (.wrote c)) = m.set s c false := by
        cases hl : m.lookup s with
        | none => simp [obsOf, hc, Mon.run, Mon.step, h.ok, hrange, hl]
        | some p =>
          obtain ⟨t0, b⟩ := p
          cases b with
          | true => simp [obsOf, hc, Mon.run, Mon.step, h.ok, hrange, hl]
          | false => exact absurd hl (hnot t0)
      rw [hm]
      refine ⟨h.ok, h.cap, ?_⟩
      intro s' t
      by_cases e : s' = s
      · subst e
        simp only [Mon.lookup_set_self, upd, if_pos]
        constructor
        · intro hh; injection hh with hh; injection hh with hh; rw [hh]
        · intro hh; injection hh with hh; rw [hh]
      · rw [Mon.lookup_set_ne _ _ _ _ _ e]
        simp only [upd, if_neg e]
        exact h.pend s' t
    · simp at hs
  | answer s =>
    simp only [step] at hs; split at hs
    · rename_i c hw
      injection hs with hs; subst hs
      have hl := (h.pend s c).mpr hw
      have hm : Mon.run m (obsOf st (.answer s)) = m.set s c true := by
        simp [obsOf, hw, Mon.run, Mon.step, h.ok, hl]
      rw [hm]
      refine ⟨h.ok, h.cap, ?_⟩
      intro s' t
      by_cases e : s' = s
      · subst e
        simp [Mon.lookup_set_self, upd]
      · rw [Mon.lookup_set_ne _ _ _ _ _ e]
        simp only [upd, if_neg e]
        exact h.pend s' t
    · simp at hs
  | deliver s =>
    simp only [step] at hs; split at hs
    · rename_i c hw
      split at hs
      · simp at hs
      · -- the wire of `s` goes from answered to none: no `pending` fact changes
        have hwire : ∀ (st2 : St) (m2 : Mon), st2.wire = upd st.wire s .none → st2.cap = st.cap → m2 = m → Sim st2 m2 := by
          intro st2 m2 h2 hc2 hm2
          subst hm2
          refine ⟨h.ok, by rw [hc2]; exact h.cap, ?_⟩
          intro s' t
          rw [h2]
          by_cases e : s' = s
          · subst e
            simp only [upd, if_pos]
            constructor
            · intro hh; have := (h.pend s' t).mp hh; rw [hw] at this; cases this
            · intro hh; cases hh
          · simp only [upd, if_neg e]; exact h.pend s' t
        split at hs
        · rename_i d hd
          have hdc : d = c := by
            have := hi.wire_own s
            rcases this with h0 | ⟨c', hc', ho', _⟩
            · rw [hw] at h0; cases h0
            · rw [hw] at hc'
              rcases hc' with hc' | hc'
              · cases hc'
              · injection hc' with hc'; subst hc'
                rw [hd] at ho'; injection ho'
          split at hs
          · rename_i hp
            injection hs with hs; subst hs
            apply hwire
            · rfl
            · rfl
            · subst hdc
              simp [obsOf, hw, hd, hp, Mon.run, Mon.step, h.ok]
          · rename_i hp
            injection hs with hs; subst hs
            apply hwire
            · rfl
            · rfl
            · simp [obsOf, hw, hd, hp, Mon.run]
        · rename_i hd
          injection hs with hs; subst hs
          apply hwire
          · rfl
          · rfl
          · simp [obsOf, hw, hd, Mon.run]
    · simp at hs

theorem Mon.run_append (m : Mon) (a b : List Obs) : Mon.run m (a ++ b) = Mon.run (Mon.run m a) b := by
  simp [Mon.run, List.foldl_append]

theorem sim_run : ∀ (as : List Act) (st st' : St) (m : Mon), Inv st → Sim st m → run st as = some st' →
    Sim st' (Mon.run m (trace st as))
  | [], st, st', m, _, h, hr => by
    simp [run] at hr; subst hr; simpa [trace, Mon.run] using h
  | a :: as, st, st', m, hi, h, hr => by
    simp only [run] at hr
    split at hr
    · rename_i s1 hs1
      simp only [trace, hs1, Mon.run_append]
      exact sim_run as s1 st' _ (inv_step st s1 a hi hs1) (sim_step st s1 m a hi h hs1) hr
    · simp at hr

end Mux
