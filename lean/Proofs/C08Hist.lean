import Proofs.C08SeqSpec
/-! C08, "any history": everything that depends on the NUMBER of past calls is the rotating offset word.
* the word scan of `GetStream` visits every word exactly once for EVERY value of the word (uint32
  arithmetic of the code = the `Nat` arithmetic of the model);
* the sequential refinement of the abstract id-set specification holds along histories in which the word
  is set to arbitrary values between the calls (`HOp.setOffset`). -/
namespace C08
open Streams

theorem nextOffset_lt {n : Nat} (hn : 0 < n) (o : Nat) : nextOffset n o < n := Nat.mod_lt _ hn

/-- a rotation by `off < n` of an index `i < n` -/
theorem rot_mod {n i off : Nat} (hi : i < n) (ho : off < n) :
    (i + off) % n = if i + off < n then i + off else i + off - n := by
  split
  · rename_i h; exact Nat.mod_eq_of_lt h
  · rename_i h
    rw [Nat.mod_eq_sub_mod (by omega), Nat.mod_eq_of_lt (by omega)]

/-- the rotation is injective on `0..n-1` -/
theorem rot_inj {n i i' off : Nat} (hi : i < n) (hi' : i' < n) (ho : off < n)
    (h : (i + off) % n = (i' + off) % n) : i = i' := by
  rw [rot_mod hi ho, rot_mod hi' ho] at h
  split at h <;> split at h <;> omega

/-- the rotation is onto `0..n-1` -/
theorem rot_surj {n off pos : Nat} (ho : off < n) (hpos : pos < n) : ∃ i, i < n ∧ (i + off) % n = pos := by
  by_cases hge : off ≤ pos
  · refine ⟨pos - off, by omega, ?_⟩
    rw [rot_mod (by omega) ho]; split <;> omega
  · refine ⟨pos + n - off, by omega, ?_⟩
    rw [rot_mod (by omega) ho]; split <;> omega

/-- the uint32 computation of the code is the `Nat` computation of the model: nothing wraps except the
    increment of the offset word itself (which `nextOffset` has) -/
theorem scanPos32_toNat (nb o : UInt32) (h0 : 0 < nb.toNat) (hmax : nb.toNat ≤ 2147483648) (i : Nat) (hi : i < nb.toNat) :
    (scanPos32 nb o (UInt32.ofNat i)).toNat = (i + nextOffset nb.toNat o.toNat) % nb.toNat := by
  have hoff : (o.toNat + 1) % 4294967296 % nb.toNat < nb.toNat := Nat.mod_lt _ h0
  simp only [scanPos32, UInt32.toNat_mod, UInt32.toNat_add, UInt32.toNat_ofNat', UInt32.toNat_one, nextOffset,
    show (2 : Nat) ^ 32 = 4294967296 from by decide]
  rw [Nat.mod_eq_of_lt (show i < 4294967296 by omega),
      Nat.mod_eq_of_lt (show i + (o.toNat + 1) % 4294967296 % nb.toNat < 4294967296 by omega)]

/-- the relation with the abstract state does not mention the offset word -/
theorem specInv_preset {n : Nat} {sh : Shared} {tbl : Array Bool} {cnt : Nat} (hI : SpecInv n sh tbl cnt) (v : Nat) :
    SpecInv n (presetOffset sh v) tbl cnt :=
  ⟨hI.len, hI.size, hI.reserved, hI.tblOk, hI.count, hI.inuse⟩

/-- all histories with presets -/
theorem specInv_runH {n : Nat} (hn : 0 < n) (ops : List HOp) (hops : HOp.op (.clear 0) ∉ ops) :
    ∀ (sh : Shared) (tbl : Array Bool) (cnt : Nat), SpecInv n sh tbl cnt →
      specCheck (64 * n) { tbl := tbl, cnt := cnt } (hTrace sh ops) = true := by
  induction ops with
  | nil => intro sh tbl cnt _; rfl
  | cons op ops ih =>
    intro sh tbl cnt hI
    have hrest : HOp.op (.clear 0) ∉ ops := fun h => hops (by simp [h])
    cases op with
    | setOffset v =>
      simp only [hTrace]
      exact ih hrest _ _ _ (specInv_preset hI v)
    | clearNeg k =>
      -- a release of something that is not an id: answers false, nothing changes
      have hge : tbl.size ≤ 64 * sh.words.length + k := by rw [hI.size, hI.len]; omega
      have htb : tbl.getD (64 * sh.words.length + k) false = false := by
        rw [Array.getD_eq_getD_getElem?, Array.getElem?_eq_none hge]; rfl
      have hav : available sh = ((64 * n - 1 - cnt : Nat) : Int) := by
        have := hI.count; have := countBelow_le (bitAt sh.words) (64 * n)
        simp only [available, hI.len, hI.inuse]; omega
      simp only [hTrace, specCheck, clearNeg, specStep]
      rw [if_pos htb.symm]
      simp only [setIfInBounds_oob tbl _ hge, Bool.false_eq_true, ↓reduceIte, hav, decide_true, Bool.true_and]
      exact ih hrest _ _ _ hI
    | op o =>
      have ho : o ≠ .clear 0 := fun h => hops (by simp [h])
      obtain ⟨st', h1, h2, h3⟩ := specInv_step hn hI o ho
      simp only [hTrace, specCheck, h1, h2, decide_true, Bool.true_and]
      exact ih hrest _ _ _ h3

/-- the fused monitor of the driver is `specCheck` applied to the model's trace -/
theorem seqMonH_eq (cap : Nat) (ops : List HOp) : ∀ (sh : Shared) (tbl : Array Bool) (cnt : Nat),
    seqMonH cap sh tbl cnt ops = specCheck cap { tbl := tbl, cnt := cnt } (hTrace sh ops) := by
  induction ops with
  | nil => intro sh tbl cnt; rfl
  | cons op ops ih =>
    intro sh tbl cnt
    cases op with
    | setOffset v => simp only [seqMonH, hTrace]; exact ih _ _ _
    | clearNeg k =>
      simp only [seqMonH, hTrace, specCheck]
      split
      · rw [ih]
      · rfl
    | op o =>
      simp only [seqMonH, hTrace, specCheck]
      split
      · rw [ih]
      · rfl

/-- without presets the histories are the op sequences of `C08_sequential_spec` -/
theorem hTrace_map_op (ops : List Op) : ∀ sh, hTrace sh (ops.map .op) = seqTrace sh ops := by
  induction ops with
  | nil => intro sh; rfl
  | cons op ops ih => intro sh; simp only [List.map, hTrace, seqTrace, ih]

end C08
