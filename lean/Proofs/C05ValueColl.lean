import Proofs.C05ValueBase
/-!
  C05 / value decoders: scalars, goType, collections, readBytes: each is `Safe` (crashes only at a
  known site, never in the fixed variant), given that the element decoders are.
-/
namespace C05Value
open CrashValue

/-! ### scalars -/

theorem nocrash_bind_ok {α : Type} {x : Res α} (hx : NoCrash x) : NoCrash (x >>= fun _ => (Res.ok () : Outcome)) :=
  nocrash_bind hx (fun _ _ => nocrash_ok _)

/-- `binary.BigEndian.Uint32(data)` behind `if len(data) < 4 { return error }` -/
theorem date_safe (d : Bytes) :
    Safe (if d.length = 0 then (Res.ok () : Outcome) else do
            errIf (d.length < 4)
            if 3 < d.length then .ok () else .crash ⟨.unmarshalDate, .index⟩) := by
  split
  · simp
  · simp only [errIf, decide_eq_true_eq]
    split
    · simp
    · have h : 3 < d.length := by omega
      simp [h]

theorem varint_safe (g : GT) (d : Bytes) : Safe (scalar .varint g (some d)) := by
  apply NoCrash.safe
  simp only [scalar, Option.getD]
  split
  · simp
  · apply nocrash_bind
    · split
      · split
        · rename_i h9
          have h0 : 0 < d.length := by omega
          have h1 : 1 ≤ d.length := by omega
          simp only [idx_ok h0, ok_bind]
          split
          · simp [sliceFrom_ok h1]
          · simp
        · simp
      · simp
    · intro special _
      split
      · simp
      · split
        · simp
        · apply nocrash_bind
          · split
            · rename_i h
              have h0 : 0 < d.length := h.1
              simp [idx_ok h0]
            · simp
          · intro v _; exact intlike_nocrash _ _ _

theorem scalar_safe (n : Native) (g : GT) (data : Option Bytes) : Safe (scalar n g data) := by
  cases n
  case date =>
    simp only [scalar]
    split
    · exact date_safe _
    · exact date_safe _
    · simp
  case varint =>
    cases data with
    | none => exact varint_safe g []
    | some d => exact varint_safe g d
  all_goals apply NoCrash.safe
  all_goals simp only [scalar]
  case custom => simp
  case ascii => split <;> simp
  case blob => split <;> simp
  case text => split <;> simp
  case varchar => split <;> simp
  case boolean => split <;> first | exact decBool_nocrash _ | simp
  case int => exact nocrash_bind (decInt_nocrash _) (fun _ _ => intlike_nocrash _ _ _)
  case bigint => exact nocrash_bind (decBigInt_nocrash _) (fun _ _ => intlike_nocrash _ _ _)
  case counter => exact nocrash_bind (decBigInt_nocrash _) (fun _ _ => intlike_nocrash _ _ _)
  case smallint => exact nocrash_bind (decShort_nocrash _) (fun _ _ => intlike_nocrash _ _ _)
  case tinyint => exact nocrash_bind (decTiny_nocrash _) (fun _ _ => intlike_nocrash _ _ _)
  case float => split <;> first | exact nocrash_bind_ok (decInt_nocrash _) | simp
  case double => split <;> first | exact nocrash_bind_ok (decBigInt_nocrash _) | simp
  case decimal =>
    split
    · split
      · simp
      · rename_i h
        have h4 : 4 ≤ (data.getD []).length := by omega
        simp only [sliceTo_ok h4, sliceFrom_ok h4, ok_bind]
        exact nocrash_bind (decInt_nocrash _) (fun _ _ => nocrash_ok _)
    · simp
  case time => split <;> first | exact nocrash_bind_ok (decBigInt_nocrash _) | simp
  case timestamp =>
    split
    · exact nocrash_bind_ok (decBigInt_nocrash _)
    · exact nocrash_bind_ok (decBigInt_nocrash _)
    · split
      · simp
      · exact nocrash_bind_ok (decBigInt_nocrash _)
    · simp
  case duration =>
    split
    · split
      · simp
      · exact decVints_nocrash _
    · simp
  case uuid => exact unmarshalUUID_nocrash _ _
  case timeuuid =>
    split
    · split
      · simp
      · rename_i h
        have h6 : 6 < (data.getD []).length := by omega
        simp only [idx_ok h6, ok_bind]
        split <;> simp
    · exact unmarshalUUID_nocrash _ _
  case inet =>
    split
    · split <;> simp
    · simp
    · simp

/-! ### goType -/

theorem goType_safe : ∀ t : CT, Safe (goType t)
  | .nat n => by cases n <;> simp [goType]
  | .list e => by
      simp only [goType]
      exact safe_bind (goType_safe e) (fun _ _ => safe_ok _)
  | .map k v => by
      simp only [goType]
      apply safe_bind (goType_safe k); intro gk _
      apply safe_bind (goType_safe v); intro gv _
      split
      · simp
      · exact safe_err
  | .tuple _ => by simp [goType]
  | .udt _ => by simp [goType]

/-! ### collection sizes and elements -/

/-- size of a count / length header: 4 bytes from protocol 3 on, 2 before -/
def hdr (proto : Nat) : Nat := if proto > 2 then 4 else 2

theorem hdr_pos (proto : Nat) : 0 < hdr proto := by unfold hdr; split <;> omega

theorem readCollectionSize_cases (proto : Nat) (d : Bytes) :
    readCollectionSize proto d = .err ∨
    ∃ m p, readCollectionSize proto d = .ok (m, p) ∧ p ≤ d.length ∧ p = hdr proto := by
  unfold readCollectionSize
  split
  · split
    · exact Or.inl rfl
    · right
      have h0 : 0 < d.length := by omega
      have h1 : 1 < d.length := by omega
      have h2 : 2 < d.length := by omega
      have h3 : 3 < d.length := by omega
      rename_i hp _
      simp only [idx_ok h0, idx_ok h1, idx_ok h2, idx_ok h3, ok_bind]
      exact ⟨_, _, rfl, by omega, by simp [hdr, hp]⟩
  · split
    · exact Or.inl rfl
    · right
      have h0 : 0 < d.length := by omega
      have h1 : 1 < d.length := by omega
      rename_i hp _
      simp only [idx_ok h0, idx_ok h1, ok_bind]
      exact ⟨_, _, rfl, by omega, by simp [hdr, hp]⟩

/-- an element read never crashes: `data[p:]`, `data[:m]`, `data[m:]` are all inside their guards;
    it consumes at least 2 bytes -/
theorem readElem_cases (fn : Fn) (proto : Nat) (d : Bytes) :
    readElem fn proto d = .err ∨
      ∃ ed rest, readElem fn proto d = .ok (ed, rest) ∧ rest.length + hdr proto ≤ d.length := by
  unfold readElem
  rcases readCollectionSize_cases proto d with h | ⟨m, p, h, hp, hp2⟩
  · left; simp [h]
  · simp only [h, ok_bind, sliceFrom_ok hp]
    split
    · split
      · left; rfl
      · rename_i hm hlen
        have hle : m.toNat ≤ (List.drop p d).length := by omega
        right
        simp only [sliceTo_ok hle, sliceFrom_ok hle, ok_bind]
        refine ⟨_, _, rfl, ?_⟩
        simp only [List.length_drop]
        omega
    · right
      refine ⟨_, _, rfl, ?_⟩
      simp only [List.length_drop]
      omega

theorem listLoop_safe (proto : Nat) (f : Option Bytes → Outcome) (len : Nat)
    (hf : ∀ ed, Safe (f ed)) :
    ∀ (cnt i : Nat) (d : Bytes), i + cnt ≤ len → Safe (listLoop proto f len cnt i d)
  | 0, _, _, _ => by simp [listLoop]
  | cnt+1, i, d, h => by
      simp only [listLoop]
      rcases readElem_cases .unmarshalList proto d with he | ⟨ed, rest, he, _⟩
      · simp [he]
      · have hi : i < len := by omega
        simp only [he, ok_bind, hi, if_true]
        apply safe_bind (hf ed); intro _ _
        exact listLoop_safe proto f len hf cnt (i+1) rest (by omega)

theorem makeCount_safe (n : Int) (avail p : Nat) : Safe (makeCount n avail p) := by
  unfold makeCount
  split
  · simp
  · split <;> simp

theorem makeMapCount_nocrash (n : Int) (avail p : Nat) : NoCrash (makeMapCount n avail p) := by
  unfold makeMapCount
  split
  · simp
  · split <;> simp

theorem unmarshalList_safe (proto : Nat) (elem : GT → Option Bytes → Outcome)
    (he : ∀ g d, Safe (elem g d)) (g : GT) (data : Option Bytes) :
    Safe (unmarshalList proto elem g data) := by
  unfold unmarshalList
  split
  · simp
  · rename_i isArr alen e _
    split
    · split <;> simp
    · rename_i d
      rcases readCollectionSize_cases proto d with h | ⟨n, p, h, hp, _⟩
      · simp [h]
      · simp only [h, ok_bind, sliceFrom_ok hp]
        split
        · split
          · simp
          · rename_i hn
            have : (alen : Int) = n := by simpa using hn
            exact listLoop_safe proto (elem e) alen (he e) n.toNat 0 _ (by omega)
        · apply safe_bind (makeCount_safe n _ p); intro cnt _
          exact listLoop_safe proto (elem e) cnt (he e) cnt 0 _ (by omega)

theorem mapLoop_safe (proto : Nat) (fk fv : Option Bytes → Outcome)
    (hk : ∀ ed, Safe (fk ed)) (hv : ∀ ed, Safe (fv ed)) :
    ∀ (cnt : Nat) (d : Bytes), Safe (mapLoop proto fk fv cnt d)
  | 0, _ => by simp [mapLoop]
  | cnt+1, d => by
      simp only [mapLoop]
      rcases readElem_cases .unmarshalMap proto d with he | ⟨kd, rest, he, _⟩
      · simp [he]
      · simp only [he, ok_bind]
        apply safe_bind (hk kd); intro _ _
        rcases readElem_cases .unmarshalMap proto rest with he2 | ⟨vd, rest2, he2, _⟩
        · simp [he2]
        · simp only [he2, ok_bind]
          apply safe_bind (hv vd); intro _ _
          exact mapLoop_safe proto fk fv hk hv cnt rest2

theorem unmarshalMap_safe (proto : Nat) (key val : GT → Option Bytes → Outcome)
    (hk : ∀ g d, Safe (key g d)) (hv : ∀ g d, Safe (val g d)) (g : GT) (data : Option Bytes) :
    Safe (unmarshalMap proto key val g data) := by
  unfold unmarshalMap
  split
  · rename_i gk gv
    split
    · simp
    · rename_i d
      rcases readCollectionSize_cases proto d with h | ⟨n, p, h, hp, _⟩
      · simp [h]
      · simp only [h, ok_bind]
        apply safe_bind (makeMapCount_nocrash n _ p).safe; intro cnt _
        simp only [sliceFrom_ok hp, ok_bind]
        exact mapLoop_safe proto _ _ (hk gk) (hv gv) _ _
  · simp

/-! ### readBytes -/

theorem readInt_ok {d : Bytes} (h : 4 ≤ d.length) : ∃ v, readInt d = .ok v := by
  have h0 : 0 < d.length := by omega
  have h1 : 1 < d.length := by omega
  have h2 : 2 < d.length := by omega
  have h3 : 3 < d.length := by omega
  simp only [readInt, idx_ok h0, idx_ok h1, idx_ok h2, idx_ok h3, ok_bind]
  exact ⟨_, rfl⟩

/-- readBytes behind its `len(data) >= 4` guard: the header read and `p[4:]` are in bounds; the
    slices `p[:size]` / `p[size:]` are behind `if int(size) > len(p) { return error }` -/
theorem readBytes_safe {d : Bytes} (h : 4 ≤ d.length) : Safe (readBytes d) := by
  obtain ⟨v, hv⟩ := readInt_ok h
  simp only [readBytes, hv, ok_bind, sliceFrom_ok h]
  split
  · simp
  · simp only [errIf, decide_eq_true_eq]
    split
    · simp
    · have hfit : v.toNat ≤ (List.drop 4 d).length := by omega
      simp [sliceTo_ok hfit, sliceFrom_ok hfit]

theorem tupleField_safe (d : Bytes) : Safe (tupleField d) := by
  unfold tupleField
  split
  · rename_i h; exact readBytes_safe h
  · simp

theorem unmG_safe {core : GT → Option Bytes → Outcome} (h : ∀ g d, Safe (core g d))
    (g : GT) (d : Option Bytes) : Safe (unmG core g d) := by
  unfold unmG
  split
  · split
    · simp
    · exact h _ _
  · exact h _ _

end C05Value
