/- C03 helper lemmas: <query_parameters> -/
import Proofs.C03Values
namespace C03
open FrameSpec FrameWrite

set_option maxRecDepth 4000 in
theorem bits8 (b0 b1 b2 b3 b4 b5 b6 b7 : Bool) :
    let fl := b2n b0 0x01 + b2n b1 0x02 + b2n b2 0x04 + b2n b3 0x08 + b2n b4 0x10 + b2n b5 0x20 + b2n b6 0x40 + b2n b7 0x80
    fl < 256 ∧ bit fl 0 = b0 ∧ bit fl 1 = b1 ∧ bit fl 2 = b2 ∧ bit fl 3 = b3 ∧ bit fl 4 = b4 ∧ bit fl 5 = b5 ∧
      bit fl 6 = b6 ∧ bit fl 7 = b7 := by
  cases b0 <;> cases b1 <;> cases b2 <;> cases b3 <;> cases b4 <;> cases b5 <;> cases b6 <;> cases b7 <;> decide

theorem rdFlags_wFlags (v fl : Nat) (r : Bytes) (h : fl < 256) : rdFlags v (wFlags v fl ++ r) = some (fl, r) := by
  by_cases h5 : v > 4
  · have : v ≥ 5 := by omega
    have hl : fl < 4294967296 := by omega
    simp [rdFlags, wFlags, h5, this, rdUInt_wUInt _ _ hl]
  · have : ¬ v ≥ 5 := by omega
    simp [rdFlags, wFlags, h5, this, rdByte_byteOf _ _ h]

theorem queryFlags_bits (v : Nat) (p : GParams) :
    queryFlags v p < 256 ∧
    bit (queryFlags v p) 0 = decide (p.values.length > 0) ∧
    bit (queryFlags v p) 1 = p.skipMeta ∧
    bit (queryFlags v p) 2 = decide (p.pageSize > 0) ∧
    bit (queryFlags v p) 3 = decide (p.pagingState.length > 0) ∧
    bit (queryFlags v p) 4 = decide (p.serialCons > 0) ∧
    bit (queryFlags v p) 5 = (decide (v > 2) && p.defaultTimestamp) ∧
    bit (queryFlags v p) 6 = namesFlag v p.values ∧
    bit (queryFlags v p) 7 = (decide (p.keyspace ≠ []) && decide (v > 4)) :=
  bits8 _ _ _ _ _ _ _ _

theorem rdQueryParams_w (v : Nat) (now : Int) (p : GParams) (r : Bytes) (hv2 : 2 ≤ v) (hv5 : v ≤ 5)
    (hok : paramsOk v (askParams now p) = true) :
    rdQueryParams v (wQueryParams v now p ++ r) = some (askParams now p, r) := by
  obtain ⟨hfl, q0, q1, q2, q3, q4, q5, q6, q7⟩ := queryFlags_bits v p
  simp only [paramsOk, askParams, Bool.and_eq_true, Bool.or_eq_true, decide_eq_true_eq] at hok
  obtain ⟨⟨⟨⟨⟨⟨hcons, hvals⟩, hps⟩, hpst⟩, hser⟩, hts⟩, hks⟩ := hok
  have hcons' : p.cons < 65536 := by simpa [isShort] using hcons
  have hv1 : ¬ v = 1 := by omega
  simp only [rdQueryParams, wQueryParams, if_neg hv1, List.append_assoc, rdShort_wShort _ _ hcons',
    rdFlags_wFlags _ _ _ hfl]
  -- the guards
  have g1 : ¬ queryFlags v p ≥ 256 := by omega
  have hnames_v : v < 3 → namesFlag v p.values = false := by
    intro h; have : ¬ v > 2 := by omega
    cases hq : p.values <;> simp [namesFlag, this]
  have g2 : ¬ (v < 3 ∧ (bit (queryFlags v p) 5 = true ∨ bit (queryFlags v p) 6 = true)) := by
    intro ⟨h3, h⟩
    have : ¬ v > 2 := by omega
    rw [q5, q6, hnames_v h3] at h
    simp [this] at h
  have hk7 : bit (queryFlags v p) 7 = decide (p.keyspace ≠ []) := by
    rw [q7]
    by_cases hk : p.keyspace = []
    · simp [hk]
    · simp only [hk, if_false, Option.isNone_some, Bool.false_eq_true, false_or] at hks
      have : v > 4 := by omega
      simp [hk, this]
  have g3 : ¬ (v < 5 ∧ bit (queryFlags v p) 7 = true) := by
    intro ⟨h5, h⟩
    have : ¬ v > 4 := by omega
    rw [q7] at h; simp [this] at h
  have g4 : ¬ (bit (queryFlags v p) 6 = true ∧ ¬ bit (queryFlags v p) 0 = true) := by
    intro ⟨h6, h0⟩
    rw [q6] at h6; rw [q0] at h0
    cases hq : p.values with
    | nil => rw [hq] at h6; simp [namesFlag] at h6
    | cons _ _ => rw [hq] at h0; simp at h0
  rw [if_neg g1, if_neg g2, if_neg g3, if_neg g4]
  -- the values
  have eV : ∀ T : Bytes,
      (if bit (queryFlags v p) 0 = true then
        rdCounted (rdNVal v (bit (queryFlags v p) 6))
          ((if p.values.length > 0 then wShort p.values.length ++ List.flatMap (wQVal (namesFlag v p.values)) p.values
            else []) ++ T)
       else some ([], (if p.values.length > 0 then wShort p.values.length ++ List.flatMap (wQVal (namesFlag v p.values)) p.values
            else []) ++ T)) = some (p.values.map askVal, T) := by
    intro T
    rw [q0, q6]
    by_cases hn : p.values.length > 0
    · have := rdValues_named v p.values T hvals
      simp only [hn, decide_true, if_true]
      simpa [List.append_assoc] using this
    · have he : p.values = [] := by
        cases hq : p.values with
        | nil => rfl
        | cons _ _ => rw [hq] at hn; simp at hn
      simp [he]
  have ePS : ∀ T : Bytes, rdOpt (bit (queryFlags v p) 2) rdInt ((if p.pageSize > 0 then wInt p.pageSize else []) ++ T) =
      some (if p.pageSize > 0 then some p.pageSize else none, T) := by
    intro T
    have := rdOpt_app (decide (p.pageSize > 0)) rdInt (wInt p.pageSize) p.pageSize T (fun hc => by
      have hc' : p.pageSize > 0 := by simpa using hc
      simp only [hc', if_true, optAll, isInt32, Bool.and_eq_true, decide_eq_true_eq] at hps
      exact rdInt_wInt _ _ hps.1 hps.2)
    rw [q2]; simpa only [decide_eq_true_eq] using this
  have ePST : ∀ T : Bytes, rdOpt (bit (queryFlags v p) 3) rdBytes
      ((if p.pagingState.length > 0 then wBytes (some p.pagingState) else []) ++ T) =
      some (if p.pagingState.length > 0 then some (some p.pagingState) else none, T) := by
    intro T
    have := rdOpt_app (decide (p.pagingState.length > 0)) rdBytes (wBytes (some p.pagingState)) (some p.pagingState) T
      (fun hc => by
        have hc' : p.pagingState.length > 0 := by simpa using hc
        simp only [hc', if_true] at hpst
        exact rdBytes_wBytes _ _ hpst)
    rw [q3]; simpa only [decide_eq_true_eq] using this
  have eSER : ∀ T : Bytes, rdOpt (bit (queryFlags v p) 4) rdShort
      ((if p.serialCons > 0 then wShort p.serialCons else []) ++ T) =
      some (if p.serialCons > 0 then some p.serialCons else none, T) := by
    intro T
    have := rdOpt_app (decide (p.serialCons > 0)) rdShort (wShort p.serialCons) p.serialCons T
      (fun hc => by
        have hc' : p.serialCons > 0 := by simpa using hc
        simp only [hc', if_true, optAll, isShort, decide_eq_true_eq] at hser
        exact rdShort_wShort _ _ hser)
    rw [q4]; simpa only [decide_eq_true_eq] using this
  have q5' : bit (queryFlags v p) 5 = decide (v > 2 ∧ p.defaultTimestamp = true) := by
    rw [q5]; simp [Bool.decide_and]
  have eTS : ∀ T : Bytes, rdOpt (bit (queryFlags v p) 5) rdLong
      ((if v > 2 ∧ p.defaultTimestamp = true then wLong (tsOf now p.tsValue) else []) ++ T) =
      some (if v > 2 ∧ p.defaultTimestamp = true then some (tsOf now p.tsValue) else none, T) := by
    intro T
    have := rdOpt_app (decide (v > 2 ∧ p.defaultTimestamp = true)) rdLong (wLong (tsOf now p.tsValue)) (tsOf now p.tsValue) T
      (fun hc => by
        have hc' : v > 2 ∧ p.defaultTimestamp = true := by simpa using hc
        simp only [hc'.2, if_true, Option.isNone_some, Bool.false_eq_true, false_or, optAll, isInt64,
          Bool.and_eq_true, decide_eq_true_eq] at hts
        exact rdLong_wLong _ _ hts.2.1 hts.2.2)
    rw [q5']; simpa only [decide_eq_true_eq] using this
  have eKS : ∀ T : Bytes, rdOpt (bit (queryFlags v p) 7) rdString
      ((if p.keyspace ≠ [] then wString p.keyspace else []) ++ T) =
      some (if p.keyspace ≠ [] then some p.keyspace else none, T) := by
    intro T
    have := rdOpt_app (decide (p.keyspace ≠ [])) rdString (wString p.keyspace) p.keyspace T
      (fun hc => by
        have hc' : p.keyspace ≠ [] := by simpa using hc
        simp only [hc', if_false, Option.isNone_some, Bool.false_eq_true, false_or, optAll] at hks
        exact rdString_wString _ _ hks.2)
    rw [hk7]; simpa only [decide_eq_true_eq] using this
  simp only [eV, ePS, ePST, eSER, eTS, eKS]
  -- the record
  have hts' : (if v > 2 ∧ p.defaultTimestamp = true then some (tsOf now p.tsValue) else none) =
      (if p.defaultTimestamp = true then some (tsOf now p.tsValue) else none) := by
    by_cases hd : p.defaultTimestamp = true
    · simp only [hd, if_true, Option.isNone_some, Bool.false_eq_true, false_or] at hts
      have : v > 2 := by omega
      simp [hd, this]
    · simp [hd]
  have hks' : (if p.keyspace ≠ [] then some p.keyspace else none) = (if p.keyspace = [] then none else some p.keyspace) := by
    by_cases hk : p.keyspace = [] <;> simp [hk]
  rw [hts', hks', q1]
  by_cases hp : p.pagingState.length > 0 <;> simp [hp, askParams]

end C03
