import Gen.Frame
import Model.MuxRx
import Proofs.GenTieC12
import Proofs.GenTieFrame
import Proofs.GenTieFrameRd
/-!
  Tie theorems between the pieces of `readHeader` REGENERATED from /repo/frame.go by tools/go2lean (`Gen.Frame`:
  version mask, header size, the header fields for both stream widths, `readInt`) and the hand-written receive
  model the C01 theorems are about (`MuxRx.readHeader`: `s8`, `s16 (be16 …)`, `s32 (be32 …)`, header sizes).
-/
namespace GenTie.Rx
open GenTie.C12

theorem toInt16 (v : BitVec 16) : v.toInt = Rx.s16 v.toNat := by
  rw [BitVec.toInt_eq_toNat_cond]; unfold Rx.s16; have := v.isLt; split <;> split <;> omega

theorem toInt32 (v : BitVec 32) : v.toInt = Rx.s32 v.toNat := by
  rw [BitVec.toInt_eq_toNat_cond]; unfold Rx.s32; have := v.isLt; split <;> split <;> omega

theorem toInt8 (v : BitVec 8) : v.toInt = Rx.s8 (UInt8.ofBitVec v) := by
  rw [BitVec.toInt_eq_toNat_cond]; unfold Rx.s8
  have e : (UInt8.ofBitVec v).toNat = v.toNat := rfl
  rw [e]; have := v.isLt; split <;> split <;> omega

/-- `version := p[0] & protoVersionMask` -/
theorem hdrVersion (v : UInt8) (rest : List UInt8) :
    (Gen.Frame.hdrVersion ((v :: rest).map (·.toBitVec))).toNat = v.toNat % 128 := by
  simp only [Gen.Frame.hdrVersion, List.map_cons, List.getD_cons_zero]
  have := (GenTie.Frame.proto_version v.toBitVec).2.2
  simpa [Gen.Frame.protoVersion_version] using this

/-- `headSize`: 8 bytes below protocol 3, 9 from 3 on (the model reads 7 resp. 8 bytes after the version byte) -/
theorem hdrSize (ver : BitVec 8) :
    (Gen.Frame.hdrSize ver).toNat = (if ver.toNat < 3 then 7 else 8) + 1 := by
  unfold Gen.Frame.hdrSize
  by_cases h : BitVec.ult ver 0x3#8
  · have : ver.toNat < 3 := by simpa [BitVec.ult] using h
    simp [h, this]
  · have : ¬ ver.toNat < 3 := by simpa [BitVec.ult] using h
    simp [h, this]

/-- `readInt(p)` on four bytes: the model's `s32 (be32 …)` -/
theorem readInt (a b c d : UInt8) (rest : List UInt8) :
    (Gen.Frame.readInt ((a :: b :: c :: d :: rest).map (·.toBitVec))).toInt = Rx.s32 (Rx.be32 a b c d) := by
  rw [toInt32]
  congr 1
  have hb := UInt8.toNat_lt b; have hc := UInt8.toNat_lt c; have hd := UInt8.toNat_lt d
  simp only [Gen.Frame.readInt, List.map_cons, List.getD_cons_zero, List.getD_cons_succ, BitVec.toNat_or,
    BitVec.toNat_shiftLeft, BitVec.toNat_setWidth, UInt8.toNat_toBitVec]
  rw [(byte_shl a 24 32 (by decide)).1, (byte_shl b 16 32 (by decide)).1, (byte_shl c 8 32 (by decide)).1,
    byte_mod d 32 (by decide), be4 _ _ _ _ hb hc hd]
  unfold Rx.be32; omega

/-- the header fields of a v3+ frame (9 bytes): stream, opcode, length as the model reads them -/
theorem hdrFieldsV3 (v fl s0 s1 op l0 l1 l2 l3 : UInt8) (x : BitVec 64) (y : BitVec 8) (z : BitVec 64) :
    let r := Gen.Frame.hdrFieldsV3 ([v, fl, s0, s1, op, l0, l1, l2, l3].map (·.toBitVec)) x y z
    r.1.toInt = Rx.s16 (Rx.be16 s0 s1) ∧ r.2.1 = op.toBitVec ∧
      r.2.2.toInt = Rx.s32 (Rx.be32 l0 l1 l2 l3) := by
  simp only [Gen.Frame.hdrFieldsV3, List.map_cons, List.map_nil, List.getD_cons_zero, List.getD_cons_succ, List.drop]
  refine ⟨?_, trivial, ?_⟩
  · rw [BitVec.toInt_signExtend_of_le (by decide), toInt16]
    congr 1
    have h1 := UInt8.toNat_lt s1
    simp only [BitVec.toNat_or, BitVec.toNat_shiftLeft, BitVec.toNat_setWidth, UInt8.toNat_toBitVec]
    rw [(byte_shl s0 8 16 (by decide)).1, byte_mod s1 16 (by decide), be2 _ _ h1]
    rfl
  · rw [BitVec.toInt_signExtend_of_le (by decide)]
    exact readInt l0 l1 l2 l3 []

/-- the header fields of a v1/v2 frame (8 bytes) -/
theorem hdrFieldsV1 (v fl s0 op l0 l1 l2 l3 : UInt8) (x : BitVec 64) (y : BitVec 8) (z : BitVec 64) :
    let r := Gen.Frame.hdrFieldsV1 ([v, fl, s0, op, l0, l1, l2, l3].map (·.toBitVec)) x y z
    r.1.toInt = Rx.s8 s0 ∧ r.2.1 = op.toBitVec ∧ r.2.2.toInt = Rx.s32 (Rx.be32 l0 l1 l2 l3) := by
  simp only [Gen.Frame.hdrFieldsV1, List.map_cons, List.map_nil, List.getD_cons_zero, List.getD_cons_succ, List.drop]
  refine ⟨?_, trivial, ?_⟩
  · rw [BitVec.toInt_signExtend_of_le (by decide), toInt8]
  · rw [BitVec.toInt_signExtend_of_le (by decide)]
    exact readInt l0 l1 l2 l3 []

end GenTie.Rx
