import Model.ConnSetup
import Proofs.C05Dispatch
/-!
# C05, connection set-up as a sequence of answers: lemmas

`Safe`: the set-up is not dead and, while the authentication loop runs with a nil challenger, the nil-challenger
row of the table has no crashing cell (`C05Dispatch.HSInv`). Every answer keeps it, for every table whose
handshake and UseKeyspace rows have no crashing cell.
-/
namespace C05ConnSetup
open ConnSetup Dispatch C05Dispatch

def Safe (tbl : Site → FrameKind → Outcome) : St → Prop
  | .hs h => HSInv tbl h
  | .dead _ => False
  | _ => True

theorem norm_safe (tbl : Site → FrameKind → Outcome) (useKs : Bool) (h : HS) (hi : HSInv tbl h) :
    Safe tbl (norm useKs h) := by
  cases h with
  | done b => cases b <;> cases useKs <;> simp [norm, Safe]
  | crashed x => exact absurd hi (fun h => h)
  | awaitSupported => exact hi
  | awaitStartup => exact hi
  | authLoop n c => exact hi

theorem step_safe (tbl : Site → FrameKind → Outcome) (cfg : AuthCfg) (useKs : Bool)
    (h0 : ∀ k, (tbl .options k).isCrash = false) (h1 : ∀ k, (tbl .startup k).isCrash = false)
    (h2 : ∀ k, (tbl (.authHandshake false) k).isCrash = false)
    (hn : cfg.nilAfter = none ∨ ∀ k, (tbl (.authHandshake true) k).isCrash = false)
    (hu : ∀ k, (tbl .useKeyspace k).isCrash = false)
    (s : St) (k : FrameKind) (hs : Safe tbl s) : Safe tbl (step tbl cfg useKs s k) := by
  cases s with
  | hs h => exact norm_safe tbl useKs _ (hsStep_inv tbl cfg h0 h1 h2 hn h k hs)
  | awaitUse =>
    have := hu k
    simp only [step]
    cases hc : tbl .useKeyspace k with
    | crash x => rw [hc] at this; exact absurd this (by simp [Outcome.isCrash])
    | handled => trivial
    | ignored => trivial
    | error => trivial
  | up => exact hs
  | failed => exact hs
  | dead x => exact hs

theorem drive_safe (tbl : Site → FrameKind → Outcome) (cfg : AuthCfg) (useKs : Bool)
    (h0 : ∀ k, (tbl .options k).isCrash = false) (h1 : ∀ k, (tbl .startup k).isCrash = false)
    (h2 : ∀ k, (tbl (.authHandshake false) k).isCrash = false)
    (hn : cfg.nilAfter = none ∨ ∀ k, (tbl (.authHandshake true) k).isCrash = false)
    (hu : ∀ k, (tbl .useKeyspace k).isCrash = false) (n : Nat) :
    ∀ (s : St) (fs : List FrameKind) (acc : List String), Safe tbl s →
      Safe tbl (drive tbl cfg useKs n s fs acc).1 := by
  induction n with
  | zero => intro s fs acc hs; exact hs
  | succ n ih =>
    intro s fs acc hs
    unfold drive
    cases hr : req s with
    | none => exact hs
    | some r =>
      cases fs with
      | nil => exact ih _ _ _ (step_safe tbl cfg useKs h0 h1 h2 hn hu s _ hs)
      | cons k rest => exact ih _ _ _ (step_safe tbl cfg useKs h0 h1 h2 hn hu s k hs)

theorem safe_not_dead (tbl : Site → FrameKind → Outcome) (s : St) (h : Safe tbl s) : s.isDead = false := by
  cases s <;> first | rfl | exact absurd h (fun h => h)

end C05ConnSetup

namespace C05ConnSetup
open ConnSetup Dispatch C05Dispatch

/-- the states `norm` produces: the handshake machine is only ever inside `.hs` while it is running -/
def Running : St → Prop
  | .hs (.done _) => False
  | .hs (.crashed _) => False
  | _ => True

theorem norm_running (useKs : Bool) (h : HS) : Running (norm useKs h) := by
  cases h with
  | done b => cases b <;> cases useKs <;> simp [norm, Running]
  | _ => simp [norm, Running]

theorem step_running (cfg : AuthCfg) (useKs : Bool) (s : St) (k : FrameKind) (h : Running s) :
    Running (step dispatch cfg useKs s k) := by
  cases s with
  | hs h' => exact norm_running useKs _
  | awaitUse =>
    simp only [step]
    cases dispatch .useKeyspace k <;> trivial
  | _ => exact h

theorem cell_options : dispatch .options .supported = .handled := by decide
theorem cell_startup : dispatch .startup .ready = .handled := by decide
theorem cell_auth (c : Bool) : dispatch (.authHandshake c) .authSuccess = .handled := by cases c <;> decide
theorem cell_use : dispatch .useKeyspace .resultKeyspace = .handled := by decide

/-- with the server's own answers every running set-up has ended after four requests -/
theorem defaults_end (cfg : AuthCfg) (useKs : Bool) (s : St) (acc : List String) (h : Running s) :
    req (drive dispatch cfg useKs 4 s [] acc).1 = none := by
  cases s with
  | hs h' =>
    cases h' with
    | awaitSupported =>
      cases useKs <;> simp [drive, req, dflt, step, hsStep, norm, cell_options, cell_startup, cell_use]
    | awaitStartup =>
      cases useKs <;> simp [drive, req, dflt, step, hsStep, norm, cell_startup, cell_use]
    | authLoop n c =>
      cases useKs <;> simp [drive, req, dflt, step, hsStep, norm, cell_auth, cell_use]
    | done b => exact absurd h (fun h => h)
    | crashed x => exact absurd h (fun h => h)
  | awaitUse => simp [drive, req, dflt, step, cell_use]
  | up => simp [drive, req]
  | failed => simp [drive, req]
  | dead x => simp [drive, req]

theorem drive_more (cfg : AuthCfg) (useKs : Bool) (n : Nat) : ∀ (s : St) (acc : List String),
    req (drive dispatch cfg useKs n s [] acc).1 = none →
    drive dispatch cfg useKs (n + 1) s [] acc = drive dispatch cfg useKs n s [] acc := by
  induction n with
  | zero =>
    intro s acc h
    simp only [drive] at h ⊢
    simp [h]
  | succ n ih =>
    intro s acc h
    rw [drive]
    cases hr : req s with
    | none => simp [drive, hr]
    | some r =>
      simp only []
      rw [drive, hr] at h
      simp only [] at h
      rw [ih _ _ h]
      conv => rhs; rw [drive, hr]

theorem drive_ends (cfg : AuthCfg) (useKs : Bool) (fs : List FrameKind) : ∀ (m : Nat) (s : St) (acc : List String),
    Running s → req (drive dispatch cfg useKs (fs.length + 4 + m) s fs acc).1 = none := by
  induction fs with
  | nil =>
    intro m s acc h
    induction m with
    | zero => exact defaults_end cfg useKs s acc h
    | succ m ihm =>
      have := drive_more cfg useKs (([] : List FrameKind).length + 4 + m) s acc ihm
      rw [show ([] : List FrameKind).length + 4 + (m + 1) = ([] : List FrameKind).length + 4 + m + 1 from rfl, this]
      exact ihm
  | cons k rest ih =>
    intro m s acc h
    rw [show (k :: rest).length + 4 + m = (rest.length + 4 + m) + 1 by simp; omega, drive]
    cases hr : req s with
    | none => simpa using hr
    | some r => exact ih m _ _ (step_running cfg useKs s k h)

/-- a settled running state that is not dead is `up` or `failed` -/
theorem settled_cases (s : St) (h : Running s) (hr : req s = none) (hd : s.isDead = false) : s = .up ∨ s = .failed := by
  cases s with
  | hs h' => cases h' <;> first | exact absurd h (fun h => h) | simp [req] at hr
  | awaitUse => simp [req] at hr
  | up => exact Or.inl rfl
  | failed => exact Or.inr rfl
  | dead x => cases hd

theorem drive_running (cfg : AuthCfg) (useKs : Bool) (n : Nat) : ∀ (s : St) (fs : List FrameKind) (acc : List String),
    Running s → Running (drive dispatch cfg useKs n s fs acc).1 := by
  induction n with
  | zero => intro s fs acc h; exact h
  | succ n ih =>
    intro s fs acc h
    unfold drive
    cases hr : req s with
    | none => exact h
    | some r =>
      cases fs with
      | nil => exact ih _ _ _ (step_running cfg useKs s _ h)
      | cons k rest => exact ih _ _ _ (step_running cfg useKs s k h)

end C05ConnSetup
