import Model.TlsAuthHist
import Proofs.C20Lemmas
/-! helper lemmas for C20: histories (sessions over time; tokens held across further Challenge calls) -/
namespace TlsAuth

/-- a derivation whose RESULT does not depend on the process-wide state gives every session the result of its own
    option values, whatever the state does -/
theorem histRun_stateless {σ : Type} (derive : Derive σ) (f : SslOpts → Except TlsErr OutCfg)
    (hf : ∀ s o, (derive s o).2 = f o) (s : σ) (os : List SslOpts) : histRun derive s os = os.map f := by
  induction os generalizing s with
  | nil => rfl
  | cons o os ih => simp only [histRun, hf, List.map_cons, ih]

theorem read_append_old (h : Heap) (t : List UInt8) (v : View) (hv : v.buf < h.length) :
    Heap.read (h ++ [t]) v = Heap.read h v := by
  simp [Heap.read, List.getD_eq_getElem?_getD, List.getElem?_append_left hv]

theorem read_append_new (h : Heap) (t : List UInt8) : Heap.read (h ++ [t]) ⟨h.length, t.length⟩ = t := by
  simp [Heap.read, List.getD_eq_getElem?_getD]

/-- with a buffer of its own per call, nothing a later call does changes what an earlier caller holds -/
theorem chalRun_fresh (cs : List ChalCall) : ∀ (h : Heap) (vs : List (Option View)),
    (∀ w, some w ∈ vs → w.buf < h.length) →
    held (chalRun placeCode h vs cs) = held (h, vs) ++ cs.map (fun c => challenge c.1 c.2) := by
  induction cs with
  | nil => intro h vs _; simp [chalRun]
  | cons c cs ih =>
    intro h vs hinv
    obtain ⟨p, cls⟩ := c
    simp only [chalRun, List.map_cons]
    cases hc : challenge p cls with
    | none =>
      simp only []
      rw [ih h (vs ++ [none]) (by
        intro w hw
        simp only [List.mem_append, List.mem_singleton, reduceCtorEq, or_false] at hw
        exact hinv w hw)]
      simp [held]
    | some t =>
      simp only [placeCode, Heap.put]
      rw [ih (h ++ [t]) (vs ++ [some (View.mk h.length t.length)]) (by
        intro w hw
        simp only [List.mem_append, List.mem_singleton, Option.some.injEq] at hw
        rcases hw with hw | rfl
        · have := hinv w hw
          simp only [List.length_append, List.length_singleton]; omega
        · simp)]
      have hold : vs.map (fun o => o.map (Heap.read (h ++ [t]))) = vs.map (fun o => o.map (Heap.read h)) := by
        apply List.map_congr_left
        intro o ho
        cases o with
        | none => rfl
        | some w => simp only [Option.map_some]; rw [read_append_old h t w (hinv w ho)]
      simp only [held, List.map_append, List.map_cons, List.map_nil, Option.map_some, hold, read_append_new,
        List.append_assoc, List.singleton_append]

end TlsAuth
