import Proofs.C12
import Model.MarshalHistory
/-!
# C02 — cross-kind round trip of a varint column: the model against the specification `Marshal.crossSpec` (helpers)
-/
namespace C02Cross
open ValueSpec Marshal C12Bytes C12Int C12Varint C12Scalar

theorem two_pow_mul8 (n : Nat) : (2:Int)^(n*8) = (256:Int)^n := by
  rw [Nat.mul_comm, Int.pow_mul]; rfl

/-- decBigInt2C (what `*big.Int` gets) is the two's complement value of the bytes -/
theorem decBigInt2C_eq_tcDec (b : Bytes) : decBigInt2C b = tcDec b := by
  cases b with
  | nil => simp [decBigInt2C, tcDec, beNat]
  | cons x r =>
    have hs := sign_iff_head x r
    unfold decBigInt2C tcDec
    rw [two_pow_mul8]
    by_cases hx : x.toNat ≥ 128
    · simp only [if_pos hx, if_pos (hs.mpr hx)]
    · simp only [if_neg hx, if_neg (fun h => hx (hs.mp h))]

theorem decBigInt2C_specVarint (v : Int) : decBigInt2C (specVarint v) = v := by
  rw [decBigInt2C_eq_tcDec, tcDec_specVarint]

/-- unmarshalVarint's front part on at most 8 bytes: sign extension gives the two's complement value -/
theorem front_val (b : Bytes) (hne : b ≠ []) (hlen : b.length ≤ 8) (k : IntKind) (named : Bool) :
    unmarshalVarintFront b k named = .val (tcDec b) := by
  cases b with
  | nil => exact absurd rfl hne
  | cons x r =>
    have hs := sign_iff_head x r
    have hlt := beNat_lt (x :: r)
    unfold unmarshalVarintFront
    have h9 : ¬ (x :: r).length = 9 := by omega
    have h8 : ¬ (x :: r).length > 8 := by omega
    simp only [h9, false_and, and_false, if_false, h8]
    unfold tcDec bytesToInt64
    rw [two_pow_mul8]
    generalize beNat (x :: r) = N at *
    have hL : (x :: r).length = 1 ∨ (x :: r).length = 2 ∨ (x :: r).length = 3 ∨ (x :: r).length = 4 ∨
        (x :: r).length = 5 ∨ (x :: r).length = 6 ∨ (x :: r).length = 7 ∨ (x :: r).length = 8 := by
      simp only [List.length_cons] at hlen ⊢; omega
    generalize (x :: r).length = L at *
    rcases hL with h | h | h | h | h | h | h | h <;> subst h <;>
      (by_cases hx : x.toNat ≥ 128
       · have h2 := hs.mpr hx
         simp [hx, toS] at h2 hlt ⊢
         first | omega | (split <;> omega)
       · have h2 : ¬ _ := fun hh => hx (hs.mp hh)
         simp [hx, toS] at h2 hlt ⊢
         first | omega | (split <;> omega))

theorem specVarint_upper (m : Nat) (h1 : 2^63 ≤ m) (h2 : m < 2^64) : specVarint (m:Int) = 0 :: beBytes 8 m := by
  have ht := tcDec_zero_beBytes8 m h2
  have hmin : minimalTC (0 :: beBytes 8 m) = true := by
    simp [beBytes, minimalTC, byteOfNat]
    omega
  have := specVarint_tcDec _ hmin
  rw [ht] at this
  exact this

theorem bytesToUint64_beBytes8 (m : Nat) (h2 : m < 2^64) : bytesToUint64 (beBytes 8 m) = (m:Int) := by
  simp [bytesToUint64, beNat_beBytes, toU]
  omega

end C02Cross
