import Model.Placement
/-! C10 helper lemmas: Go's `sort.Search` loop, the two lookups, walk order. -/
namespace C10Lookup
open Placement

/-- strictly ascending tokens (what `sort.Sort` leaves when tokens are pairwise distinct) -/
def Sorted {β : Type} (l : List (Int × β)) : Prop := l.Pairwise (fun a b => a.1 < b.1)

/-- `sort.Search` on a monotone predicate returns the boundary index. -/
theorem searchLoop_spec (f : Nat → Bool) (n : Nat)
    (mono : ∀ a b, a ≤ b → b < n → f a = true → f b = true) :
    ∀ fuel i j, i ≤ j → j ≤ n → j - i ≤ fuel →
      (∀ k, k < i → f k = false) → (∀ k, j ≤ k → k < n → f k = true) →
      i ≤ searchLoop f fuel i j ∧ searchLoop f fuel i j ≤ j ∧
      (∀ k, k < searchLoop f fuel i j → f k = false) ∧
      (∀ k, searchLoop f fuel i j ≤ k → k < n → f k = true) := by
  intro fuel
  induction fuel with
  | zero =>
    intro i j hij hjn hf lo hi
    have : i = j := by omega
    subst this
    simp only [searchLoop]
    exact ⟨Nat.le_refl _, Nat.le_refl _, lo, hi⟩
  | succ fuel ih =>
    intro i j hij hjn hf lo hi
    unfold searchLoop
    by_cases hlt : i < j
    · simp only [hlt, if_true]
      have hh1 : i ≤ (i + j) / 2 := by omega
      have hh2 : (i + j) / 2 < j := by omega
      cases hfh : f ((i + j) / 2) with
      | false =>
        simp only [Bool.not_false, if_true]
        have lo' : ∀ k, k < (i + j) / 2 + 1 → f k = false := by
          intro k hk
          cases hfk : f k with
          | false => rfl
          | true =>
            have := mono k ((i + j) / 2) (by omega) (by omega) hfk
            rw [hfh] at this; cases this
        have := ih ((i + j) / 2 + 1) j (by omega) hjn (by omega) lo' hi
        exact ⟨by omega, this.2.1, this.2.2.1, this.2.2.2⟩
      | true =>
        simp only [Bool.not_true, Bool.false_eq_true, if_false]
        have hi' : ∀ k, (i + j) / 2 ≤ k → k < n → f k = true := by
          intro k hk hkn
          exact mono _ k hk hkn hfh
        have := ih i ((i + j) / 2) hh1 (by omega) (by omega) lo hi'
        exact ⟨this.1, by omega, this.2.2.1, this.2.2.2⟩
    · simp only [hlt, if_false]
      have : i = j := by omega
      subst this
      exact ⟨Nat.le_refl _, Nat.le_refl _, lo, hi⟩

theorem tokAt_eq {β : Type} (l : List (Int × β)) (i : Nat) (h : i < l.length) : tokAt l i = l[i].1 := by
  simp [tokAt, List.getElem?_eq_getElem h]

/-- the search predicate of `GetHostForToken` / `replicasFor` -/
def pred {β : Type} (l : List (Int × β)) (t : Int) : Nat → Bool := fun i => !(decide (tokAt l i < t))

theorem pred_mono {β : Type} (l : List (Int × β)) (t : Int) (hs : Sorted l) :
    ∀ a b, a ≤ b → b < l.length → pred l t a = true → pred l t b = true := by
  intro a b hab hb ha
  have ha' : a < l.length := by omega
  simp only [pred, tokAt_eq l a ha', tokAt_eq l b hb, Bool.not_eq_true', decide_eq_false_iff_not] at *
  by_cases hEq : a = b
  · subst hEq; exact ha
  · have := (List.pairwise_iff_getElem.mp hs) a b ha' hb (by omega)
    omega

/-- binary search = linear search for the first token ≥ t -/
theorem sortSearch_eq_findIdx {β : Type} (l : List (Int × β)) (t : Int) (hs : Sorted l) :
    sortSearch l.length (pred l t) = l.findIdx (fun e => decide (t ≤ e.1)) := by
  have S := searchLoop_spec (pred l t) l.length (pred_mono l t hs) l.length 0 l.length
    (Nat.zero_le _) (Nat.le_refl _) (by omega) (by intro k hk; omega) (by intro k h1 h2; omega)
  unfold sortSearch
  generalize searchLoop (pred l t) l.length 0 l.length = r at S
  obtain ⟨_, hr, lo, hi⟩ := S
  have hb := @List.findIdx_le_length _ (fun e : Int × β => decide (t ≤ e.1)) l
  rcases Nat.lt_trichotomy r (l.findIdx (fun e => decide (t ≤ e.1))) with h | h | h
  · have h1 := hi r (Nat.le_refl _) (by omega)
    have h2 := List.not_of_lt_findIdx h
    simp only [pred, tokAt_eq l r (by omega), Bool.not_eq_true', decide_eq_false_iff_not] at h1
    simp only [decide_eq_false_iff_not] at h2
    omega
  · exact h
  · have hlt : l.findIdx (fun e => decide (t ≤ e.1)) < l.length := by omega
    have h1 := lo _ h
    have h2 := @List.findIdx_getElem _ (fun e : Int × β => decide (t ≤ e.1)) l hlt
    simp only [pred, tokAt_eq l _ hlt, Bool.not_eq_false', decide_eq_true_eq] at h1
    simp only [decide_eq_true_eq] at h2
    omega

/-- `lookupIdx` (the code: binary search, wrap to 0) = `Spec.ownerIdx` (first token ≥ t, else 0) -/
theorem lookupIdx_eq_ownerIdx {β : Type} (l : List (Int × β)) (t : Int) (hs : Sorted l) :
    lookupIdx l t = Spec.ownerIdx l t := by
  unfold lookupIdx Spec.ownerIdx
  have := sortSearch_eq_findIdx l t hs
  unfold pred at this
  simp only [this]
  by_cases h : l.findIdx (fun e => decide (t ≤ e.1)) < l.length
  · simp [h, Nat.not_le.mpr h]
  · simp [h, Nat.not_lt.mp h]

theorem ownerIdx_lt {β : Type} (l : List (Int × β)) (t : Int) (hne : l ≠ []) : Spec.ownerIdx l t < l.length := by
  unfold Spec.ownerIdx
  have : 0 < l.length := List.length_pos_iff.mpr hne
  by_cases h : l.findIdx (fun e => decide (t ≤ e.1)) < l.length <;> simp [h, this]

/-- owner of the range (previous token, token] with wrap-around -/
theorem ownerIdx_range {β : Type} (l : List (Int × β)) (t : Int) (hne : l ≠ []) :
    (t ≤ tokAt l (Spec.ownerIdx l t) ∧ ∀ k, k < Spec.ownerIdx l t → tokAt l k < t) ∨
    (Spec.ownerIdx l t = 0 ∧ ∀ k, k < l.length → tokAt l k < t) := by
  unfold Spec.ownerIdx
  by_cases h : l.findIdx (fun e => decide (t ≤ e.1)) < l.length
  · left
    simp only [h, if_true]
    refine ⟨?_, ?_⟩
    · have h2 := @List.findIdx_getElem _ (fun e : Int × β => decide (t ≤ e.1)) l h
      rw [tokAt_eq l _ h]
      simpa using h2
    · intro k hk
      have h2 := List.not_of_lt_findIdx hk
      rw [tokAt_eq l k (by omega)]
      simp only [decide_eq_false_iff_not] at h2
      omega
  · right
    simp only [h, if_false, true_and]
    intro k hk
    have hb := @List.findIdx_le_length _ (fun e : Int × β => decide (t ≤ e.1)) l
    have h2 := @List.not_of_lt_findIdx _ (fun e : Int × β => decide (t ≤ e.1)) l k (by omega)
    rw [tokAt_eq l k hk]
    simp only [decide_eq_false_iff_not] at h2
    omega

/-- the literal Go indexing `tokens[(i+j) mod len]`, `j = 0 … len-1`, is the rotation used by the model -/
theorem walkIdx_eq_rot {α : Type} [Inhabited α] (l : List α) (i : Nat) (hi : i < l.length) :
    walkIdx l i = rot l i := by
  unfold walkIdx rot
  apply List.ext_getElem
  · simp; omega
  · intro j h1 h2
    simp only [List.length_map, List.length_range] at h1
    simp only [List.getElem_map, List.getElem_range, List.getElem_append, List.length_drop, List.getElem_drop,
      List.getElem_take]
    by_cases hc : j < l.length - i
    · have : ¬ (i + j ≥ l.length) := by omega
      simp only [this, if_false, hc, dite_true]
      rw [List.getElem!_eq_getElem?_getD, List.getElem?_eq_getElem (by omega)]
      rfl
    · have : i + j ≥ l.length := by omega
      simp only [this, if_true, hc, dite_false]
      rw [List.getElem!_eq_getElem?_getD, List.getElem?_eq_getElem (by omega)]
      simp only [Option.getD_some]
      congr 1
      omega

end C10Lookup
