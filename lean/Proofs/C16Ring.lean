import Model.Ring
/-! helper lemmas about the ring's association lists and operations -/
namespace C16
open Ring

def keys {β : Type} (m : List (Nat × β)) : List Nat := m.map (·.1)

theorem mem_keys_erase {β : Type} (m : List (Nat × β)) (k k' : Nat) :
    k' ∈ keys (erase m k) ↔ k' ∈ keys m ∧ k' ≠ k := by
  simp only [keys, erase, List.mem_map, List.mem_filter]
  constructor
  · rintro ⟨e, ⟨he, hne⟩, rfl⟩
    exact ⟨⟨e, he, rfl⟩, by simpa using hne⟩
  · rintro ⟨⟨e, he, rfl⟩, hne⟩
    exact ⟨e, ⟨he, by simpa using hne⟩, rfl⟩

theorem mem_erase {β : Type} (m : List (Nat × β)) (k : Nat) (e : Nat × β) :
    e ∈ erase m k ↔ e ∈ m ∧ e.1 ≠ k := by
  simp [erase, List.mem_filter]

theorem lookup_eq_none {β : Type} (m : List (Nat × β)) (k : Nat) : lookup m k = none ↔ k ∉ keys m := by
  simp only [lookup, keys, Option.map_eq_none_iff, List.find?_eq_none, List.mem_map, not_exists, not_and]
  constructor
  · intro h e he heq; exact h e he (by simpa using heq)
  · intro h e he heq; exact h e he (by simpa using heq)

theorem lookup_some_mem {β : Type} (m : List (Nat × β)) (k : Nat) (v : β) (h : lookup m k = some v) : (k, v) ∈ m := by
  simp only [lookup, Option.map_eq_some_iff] at h
  obtain ⟨e, he, rfl⟩ := h
  have h1 := List.mem_of_find?_eq_some he
  have h2 := List.find?_some he
  have : e.1 = k := by simpa using h2
  rw [← this]
  exact h1

theorem lookup_mem_keys {β : Type} (m : List (Nat × β)) (k : Nat) (v : β) (h : lookup m k = some v) : k ∈ keys m := by
  have := lookup_some_mem m k v h
  exact List.mem_map.mpr ⟨(k, v), this, rfl⟩

theorem lookup_of_mem_nodup {β : Type} (m : List (Nat × β)) (hn : (keys m).Nodup) (e : Nat × β) (he : e ∈ m) :
    lookup m e.1 = some e.2 := by
  induction m with
  | nil => cases he
  | cons x t ih =>
    simp only [keys, List.map_cons, List.nodup_cons] at hn
    rcases List.mem_cons.mp he with rfl | h
    · simp [lookup]
    · have hne : x.1 ≠ e.1 := by
        intro heq
        exact hn.1 (List.mem_map.mpr ⟨e, h, heq.symm⟩)
      have := ih hn.2 h
      simp only [lookup, List.find?_cons] at this ⊢
      have hb : (x.1 == e.1) = false := by simpa using hne
      rw [hb]
      exact this

theorem lookup_put_self {β : Type} (m : List (Nat × β)) (k : Nat) (v : β) : lookup (put m k v) k = some v := by
  simp [lookup, put]

theorem lookup_erase_ne {β : Type} (m : List (Nat × β)) (k k' : Nat) (h : k' ≠ k) :
    lookup (erase m k) k' = lookup m k' := by
  simp only [lookup, erase]
  congr 1
  induction m with
  | nil => rfl
  | cons x t ih =>
    simp only [List.filter_cons]
    by_cases hx : x.1 = k
    · have h1 : (x.1 != k) = false := by simp [hx]
      have h2 : (x.1 == k') = false := by simp [hx, Ne.symm h]
      simp only [h1, List.find?_cons, h2]
      exact ih
    · have h1 : (x.1 != k) = true := by simp [hx]
      simp only [h1, List.find?_cons, if_true]
      split
      · rfl
      · exact ih

theorem lookup_put_ne {β : Type} (m : List (Nat × β)) (k k' : Nat) (v : β) (h : k' ≠ k) :
    lookup (put m k v) k' = lookup m k' := by
  have hb : (k == k') = false := by simpa using (Ne.symm h)
  rw [← lookup_erase_ne m k k' h]
  simp [lookup, put, hb]

theorem lookup_erase_self {β : Type} (m : List (Nat × β)) (k : Nat) : lookup (erase m k) k = none := by
  rw [lookup_eq_none, mem_keys_erase]; simp

theorem keys_put {β : Type} (m : List (Nat × β)) (k : Nat) (v : β) (k' : Nat) :
    k' ∈ keys (put m k v) ↔ k' = k ∨ k' ∈ keys m := by
  simp only [put, keys, List.map_cons, List.mem_cons]
  have := mem_keys_erase m k k'
  simp only [keys] at this
  rw [this]
  constructor
  · rintro (h | h)
    · exact Or.inl h
    · exact Or.inr h.1
  · rintro (h | h)
    · exact Or.inl h
    · by_cases e : k' = k
      · exact Or.inl e
      · exact Or.inr ⟨h, e⟩

theorem keys_erase_nodup {β : Type} (m : List (Nat × β)) (k : Nat) (h : (keys m).Nodup) : (keys (erase m k)).Nodup := by
  unfold keys erase at *
  exact List.Sublist.nodup (List.Sublist.map _ List.filter_sublist) h

theorem keys_put_nodup {β : Type} (m : List (Nat × β)) (k : Nat) (v : β) (h : (keys m).Nodup) : (keys (put m k v)).Nodup := by
  simp only [put, keys, List.map_cons, List.nodup_cons]
  refine ⟨?_, keys_erase_nodup m k h⟩
  have := mem_keys_erase m k k
  simp only [keys] at this
  rw [this]; simp

/-! ### ring operations -/

theorem ids_addIfMissing (r : Ring.Ring) (h : RHost) (id : Nat) :
    id ∈ keys (r.addIfMissing h).1.byId ↔ id = h.id ∨ id ∈ keys r.byId := by
  unfold Ring.addIfMissing
  split
  · rename_i e he
    have := lookup_mem_keys _ _ _ he
    constructor
    · intro hh; exact Or.inr hh
    · rintro (rfl | hh)
      · exact this
      · exact hh
  · exact keys_put _ _ _ _

theorem ids_remove (r : Ring.Ring) (k id : Nat) :
    id ∈ keys (r.remove k).1.byId ↔ id ∈ keys r.byId ∧ id ≠ k := by
  unfold Ring.remove
  split
  · exact mem_keys_erase _ _ _
  · rename_i hn
    rw [lookup_eq_none] at hn
    constructor
    · intro hh; exact ⟨hh, fun e => hn (e ▸ hh)⟩
    · intro hh; exact hh.1

end C16
