import Model.Ring
/-! helper lemmas about the ring's association lists and operations -/
namespace C16
open Ring

def keys {β : Type} (m : List (Nat × β)) : List Nat := m.map (·.1)

theorem mem_keys_erase {β : Type} (m : List (Nat × β)) (k k' : Nat) :
    k' ∈ keys (erase m k) ↔ k' ∈ keys m ∧ k' ≠ k := by
  simp only [keys, erase, List.mem_map, List.mem_filter]
  constructor
  · rintro ⟨e, ⟨he, hne⟩, rfl⟩
    exact ⟨⟨e, he, rfl⟩, by simpa using hne⟩
  · rintro ⟨⟨e, he, rfl⟩, hne⟩
    exact ⟨e, ⟨he, by simpa using hne⟩, rfl⟩

theorem mem_erase {β : Type} (m : List (Nat × β)) (k : Nat) (e : Nat × β) :
    e ∈ erase m k ↔ e ∈ m ∧ e.1 ≠ k := by
  simp [erase, List.mem_filter]

theorem lookup_eq_none {β : Type} (m : List (Nat × β)) (k : Nat) : lookup m k = none ↔ k ∉ keys m := by
  simp only [lookup, keys, Option.map_eq_none_iff, List.find?_eq_none, List.mem_map, not_exists, not_and]
  constructor
  · intro h e he heq; exact h e he (by simpa using heq)
  · intro h e he heq; exact h e he (by simpa using heq)

theorem lookup_some_mem {β : Type} (m : List (Nat × β)) (k : Nat) (v : β) (h : lookup m k = some v) : (k, v) ∈ m := by
  simp only [lookup, Option.map_eq_some_iff] at h
  obtain ⟨e, he, rfl⟩ := h
  have h1 := List.mem_of_find?_eq_some he
  have h2 := List.find?_some he
  have : e.1 = k := by simpa using h2
  rw [← this]
  exact h1

theorem lookup_mem_keys {β : Type} (m : List (Nat × β)) (k : Nat) (v : β) (h : lookup m k = some v) : k ∈ keys m := by
  have := lookup_some_mem m k v h
  exact List.mem_map.mpr ⟨(k, v), this, rfl⟩

theorem lookup_of_mem_nodup {β : Type} (m : List (Nat × β)) (hn : (keys m).Nodup) (e : Nat × β) (he : e ∈ m) :
    lookup m e.1 = some e.2 := by
  induction m with
  | nil => cases he
  | cons x t ih =>
    simp only [keys, List.map_cons, List.nodup_cons] at hn
    rcases List.mem_cons.mp he with rfl | h
    · simp [lookup]
    · have hne : x.1 ≠ e.1 := by
        intro heq
        exact hn.1 (List.mem_map.mpr ⟨e, h, heq.symm⟩)
      have := ih hn.2 h
      simp only [lookup, List.find?_cons] at this ⊢
      have hb : (x.1 == e.1) = false := by simpa using hne
      rw [hb]
      exact this

theorem lookup_put_self {β : Type} (m : List (Nat × β)) (k : Nat) (v : β) : lookup (put m k v) k = some v := by
  simp [lookup, put]

theorem lookup_erase_ne {β : Type} (m : List (Nat × β)) (k k' : Nat) (h : k' ≠ k) :
    lookup (erase m k) k' = lookup m k' := by
  simp only [lookup, erase]
  congr 1
  induction m with
  | nil => rfl
  | cons x t ih =>
    simp only [List.filter_cons]
    by_cases hx : x.1 = k
    · have h1 : (x.1 != k) = false := by simp [hx]
      have h2 : (x.1 == k') = false := by simp [hx, Ne.symm h]
      simp only [h1, List.find?_cons, h2]
      exact ih
    · have h1 : (x.1 != k) = true := by simp [hx]
      simp only [h1, List.find?_cons, if_true]
      split
      · rfl
      · exact ih

theorem lookup_put_ne {β : Type} (m : List (Nat × β)) (k k' : Nat) (v : β) (h : k' ≠ k) :
    lookup (put m k v) k' = lookup m k' := by
  have hb : (k == k') = false := by simpa using (Ne.symm h)
  rw [← lookup_erase_ne m k k' h]
  simp [lookup, put, hb]

theorem lookup_erase_self {β : Type} (m : List (Nat × β)) (k : Nat) : lookup (erase m k) k = none := by
  rw [lookup_eq_none, mem_keys_erase]; simp

theorem keys_put {β : Type} (m : List (Nat × β)) (k : Nat) (v : β) (k' : Nat) :
    k' ∈ keys (put m k v) ↔ k' = k ∨ k' ∈ keys m := by
  simp only [put, keys, List.map_cons, List.mem_cons]
  have := mem_keys_erase m k k'
  simp only [keys] at this
  rw [this]
  constructor
  · rintro (h | h)
    · exact Or.inl h
    · exact Or.inr h.1
  · rintro (h | h)
    · exact Or.inl h
    · by_cases e : k' = k
      · exact Or.inl e
      · exact Or.inr ⟨h, e⟩

theorem keys_erase_nodup {β : Type} (m : List (Nat × β)) (k : Nat) (h : (keys m).Nodup) : (keys (erase m k)).Nodup := by
  unfold keys erase at *
  exact List.Sublist.nodup (List.Sublist.map _ List.filter_sublist) h

theorem keys_put_nodup {β : Type} (m : List (Nat × β)) (k : Nat) (v : β) (h : (keys m).Nodup) : (keys (put m k v)).Nodup := by
  simp only [put, keys, List.map_cons, List.nodup_cons]
  refine ⟨?_, keys_erase_nodup m k h⟩
  have := mem_keys_erase m k k
  simp only [keys] at this
  rw [this]; simp

/-! ### ring operations -/

theorem ids_addIfMissing (r : Ring.Ring) (h : RHost) (id : Nat) :
    id ∈ keys (r.addIfMissing h).1.byId ↔ id = h.id ∨ id ∈ keys r.byId := by
  unfold Ring.addIfMissing
  split
  · rename_i e he
    have := lookup_mem_keys _ _ _ he
    constructor
    · intro hh; exact Or.inr hh
    · rintro (rfl | hh)
      · exact this
      · exact hh
  · exact keys_put _ _ _ _

theorem ids_remove (r : Ring.Ring) (k id : Nat) :
    id ∈ keys (r.remove k).1.byId ↔ id ∈ keys r.byId ∧ id ≠ k := by
  unfold Ring.remove
  split
  · exact mem_keys_erase _ _ _
  · rename_i hn
    rw [lookup_eq_none] at hn
    constructor
    · intro hh; exact ⟨hh, fun e => hn (e ▸ hh)⟩
    · intro hh; exact hh.1

/-! ### views of the two mutating operations -/

theorem mem_key_unique {β : Type} (m : List (Nat × β)) (hn : (keys m).Nodup) (e1 e2 : Nat × β)
    (h1 : e1 ∈ m) (h2 : e2 ∈ m) (hk : e1.1 = e2.1) : e1 = e2 := by
  have a := lookup_of_mem_nodup m hn e1 h1
  have b := lookup_of_mem_nodup m hn e2 h2
  rw [hk, b] at a
  have : e2.2 = e1.2 := Option.some.inj a
  exact Prod.ext hk this.symm

theorem addIfMissing_of_none (r : Ring.Ring) (h : RHost) (hn : lookup r.byId h.id = none) :
    r.addIfMissing h = ({ byId := put r.byId h.id h, byIp := put r.byIp h.addr h.id, list := r.list ++ [h] }, h, false) := by
  unfold Ring.addIfMissing; rw [hn]

theorem addIfMissing_of_some (r : Ring.Ring) (h e : RHost) (hs : lookup r.byId h.id = some e) :
    r.addIfMissing h = (r, e, true) := by
  unfold Ring.addIfMissing; rw [hs]

theorem remove_of_none (r : Ring.Ring) (k : Nat) (hn : lookup r.byId k = none) : r.remove k = (r, false) := by
  unfold Ring.remove; rw [hn]

theorem remove_of_some (r : Ring.Ring) (k : Nat) (h : RHost) (hs : lookup r.byId k = some h) :
    r.remove k = ({ byId := erase r.byId k,
                    byIp := if lookup r.byIp h.addr = some k then erase r.byIp h.addr else r.byIp,
                    list := eraseFirstId r.list k }, true) := by
  unfold Ring.remove; rw [hs]

/-- membership in the by-id index after adding a host with a new id -/
theorem mem_add_new (r : Ring.Ring) (h : RHost) (hn : lookup r.byId h.id = none) (e : Nat × RHost) :
    e ∈ (r.addIfMissing h).1.byId ↔ e = (h.id, h) ∨ e ∈ r.byId := by
  rw [addIfMissing_of_none r h hn]
  simp only [put, List.mem_cons, mem_erase]
  rw [lookup_eq_none] at hn
  constructor
  · rintro (h1 | h1)
    · exact Or.inl h1
    · exact Or.inr h1.1
  · rintro (h1 | h1)
    · exact Or.inl h1
    · exact Or.inr ⟨h1, fun hk => hn (hk ▸ List.mem_map.mpr ⟨e, h1, rfl⟩)⟩

theorem byIp_add_new (r : Ring.Ring) (h : RHost) (hn : lookup r.byId h.id = none) :
    (r.addIfMissing h).1.byIp = put r.byIp h.addr h.id := by
  rw [addIfMissing_of_none r h hn]

theorem mem_remove (r : Ring.Ring) (k : Nat) (e : Nat × RHost) :
    e ∈ (r.remove k).1.byId ↔ e ∈ r.byId ∧ e.1 ≠ k := by
  cases hl : lookup r.byId k with
  | none =>
    rw [remove_of_none r k hl]
    rw [lookup_eq_none] at hl
    exact ⟨fun h1 => ⟨h1, fun hk => hl (hk ▸ List.mem_map.mpr ⟨e, h1, rfl⟩)⟩, fun h1 => h1.1⟩
  | some h => rw [remove_of_some r k h hl]; exact mem_erase _ _ _

/-- removing host id `k` leaves every by-address entry that does not map to `k` as it is -/
theorem byIp_remove_keep (r : Ring.Ring) (k a : Nat) (hne : lookup r.byIp a ≠ some k) :
    lookup (r.remove k).1.byIp a = lookup r.byIp a := by
  cases hl : lookup r.byId k with
  | none => rw [remove_of_none r k hl]
  | some h =>
    rw [remove_of_some r k h hl]
    dsimp only
    split
    · rename_i hc
      have : a ≠ h.addr := fun e => hne (e ▸ hc)
      exact lookup_erase_ne _ _ _ this
    · rfl

/-- after removing host id `k` (with address `h.addr`) a by-address entry is an old entry -/
theorem byIp_remove_sub (r : Ring.Ring) (k a id : Nat) (hs : lookup (r.remove k).1.byIp a = some id) :
    lookup r.byIp a = some id := by
  cases hl : lookup r.byId k with
  | none => rw [remove_of_none r k hl] at hs; exact hs
  | some h =>
    rw [remove_of_some r k h hl] at hs
    dsimp only at hs
    split at hs
    · by_cases e : a = h.addr
      · subst e; rw [lookup_erase_self] at hs; cases hs
      · rwa [lookup_erase_ne _ _ _ e] at hs
    · exact hs

/-- after removing host id `k` no by-address entry of the removed host's own address maps to `k` -/
theorem byIp_remove_self (r : Ring.Ring) (k : Nat) (h : RHost) (hl : lookup r.byId k = some h) :
    lookup (r.remove k).1.byIp h.addr ≠ some k := by
  rw [remove_of_some r k h hl]
  dsimp only
  split
  · rw [lookup_erase_self]; exact fun e => by cases e
  · rename_i hc; exact hc

end C16
