/- C03 helper lemmas: header, values, query parameters, batch entries -/
import Proofs.C03Prim
namespace C03
open FrameSpec FrameWrite

/-- stream ids the allocator hands out for a protocol version (C08): 7 bits up to v2, 15 bits from v3 -/
def StreamInRange (v : Nat) (s : Int) : Prop := 0 ≤ s ∧ s < (if v ≤ 2 then 128 else 32768)

/-- a frame that is built passed the count checks, and is the frame of the builders proper -/
theorem encodeReq_ok {v : Nat} {tracing : Bool} {stream now : Int} {g : GReq} {bs : Bytes}
    (he : encodeReq v tracing stream now g = .ok bs) :
    tooManyG g = false ∧ encodeReq0 v tracing stream now g = .ok bs := by
  unfold encodeReq at he
  cases h : tooManyG g
  · simp only [h, Bool.false_eq_true, if_false] at he; exact ⟨rfl, he⟩
  · simp [h] at he

theorem encodeReq_eq0 (v : Nat) (tracing : Bool) (stream now : Int) (g : GReq) (h : tooManyG g = false) :
    encodeReq v tracing stream now g = encodeReq0 v tracing stream now g := by
  simp [encodeReq, h]

theorem rdStream_w (v : Nat) (s : Int) (r : Bytes) (h : StreamInRange v s) :
    rdStream v ((if v > 2 then [byteOf ((s / 256) % 256).toNat, byteOf (s % 256).toNat]
                 else [byteOf (s % 256).toNat]) ++ r) = some (s, r) := by
  unfold StreamInRange at h
  by_cases hv : v ≤ 2
  · have hv' : ¬ v > 2 := by omega
    simp only [hv, if_true] at h
    simp [rdStream, hv, hv', rdByte, byteOf]
    omega
  · have hv' : v > 2 := by omega
    simp only [hv, if_false] at h
    simp [rdStream, hv, hv', rdShort, byteOf]
    omega

theorem rdInt_wUInt (n : Nat) (r : Bytes) (h : n < 2147483648) : rdInt (wUInt n ++ r) = some ((n : Int), r) := by
  have := rdInt_wInt (n : Int) r (by omega) (by omega)
  have e : ((n : Int) % 4294967296).toNat = n := by omega
  simpa [wInt, e] using this

/-- the header written by writeHeader/finish is read back, and exactly `length` bytes are the body -/
theorem decodeReq_frame (v fl : Nat) (stream : Int) (op : Nat) (full rest : Bytes)
    (hv1 : 1 ≤ v) (hv5 : v ≤ 5) (hs : StreamInRange v stream) (hfl : fl < 256) (hop : op < 256)
    (hlen : full.length < 2147483648) :
    decodeReq (wHeader v fl stream op full.length ++ full ++ rest) = decodeBody v fl stream op full rest := by
  have hvb : v < 256 := by omega
  have hnv : ¬ (v < 1 ∨ v > 5) := by omega
  simp only [decodeReq, wHeader, List.append_assoc, List.cons_append, List.nil_append,
    rdByte_byteOf _ _ hvb, rdByte_byteOf _ _ hfl, hnv, if_false, rdStream_w _ _ _ hs,
    rdByte_byteOf _ _ hop, rdInt_wUInt _ _ hlen]
  have hn : ¬ ((full.length : Int) < 0) := by omega
  simp only [hn, if_false]
  simp only [takeN_append, Int.toNat_natCast]

theorem bits3 (a b c : Bool) :
    let fl := b2n a 0x02 + b2n b 0x04 + b2n c 0x10
    fl < 32 ∧ bit fl 0 = false ∧ bit fl 1 = a ∧ bit fl 2 = b ∧ bit fl 3 = false ∧ bit fl 4 = c := by
  cases a <;> cases b <;> cases c <;> decide

theorem payloadOp_of_payload (g : GReq) (h : (payloadOf g).length > 0) : payloadOp (opcode g) = true := by
  cases g <;> simp [payloadOf] at h <;> simp [payloadOp, opcode]

theorem opcode_lt (g : GReq) : opcode g < 256 := by
  cases g <;> simp [opcode]

theorem payloadOk_of_expressible (v : Nat) (now : Int) (g : GReq) (h : Expressible v (ask now g) = true) :
    payloadOk v (payloadOf g) = true := by
  cases g with
  | startup _ => simp [payloadOf, payloadOk]
  | options => simp [payloadOf, payloadOk]
  | authResponse _ => simp [payloadOf, payloadOk]
  | register _ => simp [payloadOf, payloadOk]
  | query _ _ _ => simp only [Expressible, ask, Bool.and_eq_true] at h; exact h.1.2
  | prepare _ _ _ => simp only [Expressible, ask, Bool.and_eq_true] at h; exact h.1.2
  | execute _ _ _ => simp only [Expressible, ask, Bool.and_eq_true] at h; exact h.1.2
  | batch _ _ _ _ _ _ _ => simp only [Expressible, ask, Bool.and_eq_true] at h; exact h.1.1.1.2

/-- a frame = header + optional payload + body: decoding reduces to decoding the message body -/
theorem roundtrip_of_body (v : Nat) (tracing : Bool) (stream now : Int) (g : GReq) (bs rest : Bytes)
    (hv1 : 1 ≤ v) (hv5 : v ≤ 5) (hs : StreamInRange v stream)
    (hx : Expressible v (ask now g) = true)
    (hbody : ∀ body, wBody v now g = .ok body →
      rdBody v (opcode g) (payloadOf g) body = some (ask now g, []))
    (he : encodeReq v tracing stream now g = .ok bs) :
    decodeReq (bs ++ rest) = some ⟨v, tracing, stream, ask now g, rest⟩ := by
  have hpl := payloadOk_of_expressible v now g hx
  have he := (encodeReq_ok he).2
  unfold encodeReq0 at he
  by_cases hnp' : (payloadOf g).length > 0 ∧ v < 4
  · simp [hnp'] at he
  · have hnp := hnp'
    simp only [hnp', if_false] at he
    cases hb : wBody v now g with
    | error e => simp [hb] at he
    | ok body =>
      simp only [hb] at he
      by_cases hsz : (if v > 2 then 9 else 8) + (wPayload (payloadOf g) ++ body).length > maxFrameSize
      · rw [if_pos hsz] at he; cases he
      · rw [if_neg hsz] at he
        injection he with he
        subst he
        have hb2 := hbody body hb
        obtain ⟨h32, b0, b1, b2, b3, b4⟩ := bits3 tracing (decide ((payloadOf g).length > 0)) (decide (v = 5))
        have hfl : headerFlags v tracing g < 256 := by unfold headerFlags; omega
        have hlen : (wPayload (payloadOf g) ++ body).length < 2147483648 := by
          unfold maxFrameSize at hsz; split at hsz <;> omega
        rw [decodeReq_frame v _ stream _ _ rest hv1 hv5 hs hfl (opcode_lt g) hlen]
        unfold decodeBody
        have e1 : ¬ (headerFlags v tracing g ≥ 32 ∨ bit (headerFlags v tracing g) 0 = true ∨ bit (headerFlags v tracing g) 3 = true) := by
          unfold headerFlags; simp only [b0, b3]; simp; omega
        have e2 : ¬ (bit (headerFlags v tracing g) 4 ≠ decide (v = 5)) := by
          unfold headerFlags; simp only [b4]; simp
        have e3 : ¬ (bit (headerFlags v tracing g) 2 = true ∧ (v < 4 ∨ ¬ payloadOp (opcode g) = true)) := by
          unfold headerFlags; simp only [b2]
          intro ⟨hp, hq⟩
          have hp' : (payloadOf g).length > 0 := by simpa using hp
          rw [payloadOp_of_payload g hp'] at hq
          have : ¬ ((payloadOf g).length > 0 ∧ v < 4) := hnp
          simp at hq; omega
        have e4 : bit (headerFlags v tracing g) 2 = decide ((payloadOf g).length > 0) := by
          unfold headerFlags; exact b2
        have e5 : bit (headerFlags v tracing g) 1 = tracing := by
          unfold headerFlags; exact b1
        rw [if_neg e1, if_neg e2, if_neg e3]
        simp only [e4, e5]
        have e6 : rdOpt (decide ((payloadOf g).length > 0)) rdBytesMap (wPayload (payloadOf g) ++ body) =
            some (if decide ((payloadOf g).length > 0) then some (payloadOf g) else none, body) := by
          have := rdOpt_app (decide ((payloadOf g).length > 0)) rdBytesMap (wBytesMap (payloadOf g)) (payloadOf g) body
            (fun hc => by
              have hc' : (payloadOf g).length > 0 := by simpa using hc
              have hne : (payloadOf g).isEmpty = false := by
                cases hq : payloadOf g with
                | nil => simp [hq] at hc'
                | cons _ _ => rfl
              simp only [payloadOk, hne, Bool.false_or, Bool.and_eq_true, decide_eq_true_eq] at hpl
              exact rdBytesMap_w _ _ hpl.1.2 hpl.2)
          simpa [wPayload] using this
        rw [e6]
        have e7 : (if decide ((payloadOf g).length > 0) then some (payloadOf g) else none).getD [] = payloadOf g := by
          cases hq : payloadOf g <;> simp
        simp only [e7, hb2]

end C03
