import Proofs.C02Scalar
/-!
# C02 — duration vints, decode direction (helpers; the byte loop of decVint after encVint is NOT finished)
-/
namespace C02Vint
open ValueSpec Marshal C12Bytes C12Vint

/-- `int64((n >> 1) ^ -(n & 1))` is the inverse zig-zag code, for every uint64 -/
theorem decIntZigZag_spec (u : Nat) (hu : u < 2^64) : decIntZigZag u = unzigzag u := by
  unfold decIntZigZag unzigzag
  have hm : u % 18446744073709551616 = u := Nat.mod_eq_of_lt hu
  have hsh : (BitVec.ofNat 64 u >>> 1).toNat = u / 2 := by
    simp [BitVec.toNat_ushiftRight, hm, Nat.shiftRight_eq_div_pow]
  have hand : (BitVec.ofNat 64 u &&& 1#64).toNat = u % 2 := by
    simp [BitVec.toNat_and, hm, Nat.and_one_is_mod]
  by_cases he : u % 2 = 0
  · have h1 : BitVec.ofNat 64 u &&& 1#64 = 0#64 := by
      apply BitVec.eq_of_toNat_eq; rw [hand, he]; rfl
    rw [h1, if_pos he]
    simp only [BitVec.neg_zero, BitVec.xor_zero]
    rw [BitVec.toInt_eq_toNat_cond, hsh]
    have : 2 * (u / 2) < 2 ^ 64 := by omega
    simp [this]
  · have h1 : BitVec.ofNat 64 u &&& 1#64 = 1#64 := by
      apply BitVec.eq_of_toNat_eq; rw [hand]; simp; omega
    rw [h1, if_neg he]
    have hneg : -(1#64) = BitVec.allOnes 64 := by decide
    rw [hneg, BitVec.xor_allOnes]
    rw [BitVec.toInt_eq_toNat_cond, BitVec.toNat_not, hsh]
    have : ¬ 2 * (2 ^ 64 - 1 - u / 2) < 2 ^ 64 := by omega
    simp [this]
    omega

/-- the accumulation loop of decVint (`ret <<= 8; ret |= b`, modulo 2^64) is the big-endian value when nothing overflows -/
theorem fold_nomod : ∀ (l : Bytes) (a : Nat), a * 256 ^ l.length + beNat l < 2^64 →
    l.foldl (fun acc x => (acc * 256 + x.toNat) % 2^64) a = a * 256 ^ l.length + beNat l
  | [], a, h => by simp [beNat]
  | b :: l, a, h => by
    have hP := pow256_pos l.length
    have key : a * 256 ^ (b :: l).length + beNat (b :: l) = (a * 256 + b.toNat) * 256 ^ l.length + beNat l := by
      rw [beNat_cons, List.length_cons, Nat.pow_succ, Nat.add_mul, Nat.mul_comm (256 ^ l.length) 256, ← Nat.mul_assoc]
      omega
    rw [key] at h ⊢
    have hle : a * 256 + b.toNat ≤ (a * 256 + b.toNat) * 256 ^ l.length := Nat.le_mul_of_pos_right _ hP
    have hlt : a * 256 + b.toNat < 2^64 := by omega
    simp only [List.foldl_cons, Nat.mod_eq_of_lt hlt]
    exact fold_nomod l (a * 256 + b.toNat) h


theorem bitLen_eq (y k : Nat) (h1 : y < 2 ^ (k+1)) (h2 : 2 ^ k ≤ y) : bitLen y = k + 1 := by
  have a := (bitLen_le_iff y (k+1)).mpr h1
  have b : ¬ bitLen y ≤ k := fun h => by have := (bitLen_le_iff y k).mp h; omega
  omega

end C02Vint
