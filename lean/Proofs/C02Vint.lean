import Proofs.C02Scalar
/-!
# C02 — duration vints, decode direction (helpers; the byte loop of decVint after encVint is NOT finished)
-/
namespace C02Vint
open ValueSpec Marshal C12Bytes C12Vint

/-- `int64((n >> 1) ^ -(n & 1))` is the inverse zig-zag code, for every uint64 -/
theorem decIntZigZag_spec (u : Nat) (hu : u < 2^64) : decIntZigZag u = unzigzag u := by
  unfold decIntZigZag unzigzag
  have hm : u % 18446744073709551616 = u := Nat.mod_eq_of_lt hu
  have hsh : (BitVec.ofNat 64 u >>> 1).toNat = u / 2 := by
    simp [BitVec.toNat_ushiftRight, hm, Nat.shiftRight_eq_div_pow]
  have hand : (BitVec.ofNat 64 u &&& 1#64).toNat = u % 2 := by
    simp [BitVec.toNat_and, hm, Nat.and_one_is_mod]
  by_cases he : u % 2 = 0
  · have h1 : BitVec.ofNat 64 u &&& 1#64 = 0#64 := by
      apply BitVec.eq_of_toNat_eq; rw [hand, he]; rfl
    rw [h1, if_pos he]
    simp only [BitVec.neg_zero, BitVec.xor_zero]
    rw [BitVec.toInt_eq_toNat_cond, hsh]
    have : 2 * (u / 2) < 2 ^ 64 := by omega
    simp [this]
  · have h1 : BitVec.ofNat 64 u &&& 1#64 = 1#64 := by
      apply BitVec.eq_of_toNat_eq; rw [hand]; simp; omega
    rw [h1, if_neg he]
    have hneg : -(1#64) = BitVec.allOnes 64 := by decide
    rw [hneg, BitVec.xor_allOnes]
    rw [BitVec.toInt_eq_toNat_cond, BitVec.toNat_not, hsh]
    have : ¬ 2 * (2 ^ 64 - 1 - u / 2) < 2 ^ 64 := by omega
    simp [this]
    omega

/-- the accumulation loop of decVint (`ret <<= 8; ret |= b`, modulo 2^64) is the big-endian value when nothing overflows -/
theorem fold_nomod : ∀ (l : Bytes) (a : Nat), a * 256 ^ l.length + beNat l < 2^64 →
    l.foldl (fun acc x => (acc * 256 + x.toNat) % 2^64) a = a * 256 ^ l.length + beNat l
  | [], a, h => by simp [beNat]
  | b :: l, a, h => by
    have hP := pow256_pos l.length
    have key : a * 256 ^ (b :: l).length + beNat (b :: l) = (a * 256 + b.toNat) * 256 ^ l.length + beNat l := by
      rw [beNat_cons, List.length_cons, Nat.pow_succ, Nat.add_mul, Nat.mul_comm (256 ^ l.length) 256, ← Nat.mul_assoc]
      omega
    rw [key] at h ⊢
    have hle : a * 256 + b.toNat ≤ (a * 256 + b.toNat) * 256 ^ l.length := Nat.le_mul_of_pos_right _ hP
    have hlt : a * 256 + b.toNat < 2^64 := by omega
    simp only [List.foldl_cons, Nat.mod_eq_of_lt hlt]
    exact fold_nomod l (a * 256 + b.toNat) h


theorem bitLen_eq (y k : Nat) (h1 : y < 2 ^ (k+1)) (h2 : 2 ^ k ≤ y) : bitLen y = k + 1 := by
  have a := (bitLen_le_iff y (k+1)).mpr h1
  have b : ¬ bitLen y ≤ k := fun h => by have := (bitLen_le_iff y k).mp h; omega
  omega

/-- masking the length marker off the first byte leaves the high value bits -/
theorem and_marker (e : Nat) (he : 1 ≤ e ∧ e ≤ 8) (x : Nat) (hx : x < 2 ^ (8 - e)) :
    (x + (256 - 2 ^ (8 - e))) &&& (255 >>> e) = x := by
  obtain ⟨h1, h8⟩ := he
  have : e = 1 ∨ e = 2 ∨ e = 3 ∨ e = 4 ∨ e = 5 ∨ e = 6 ∨ e = 7 ∨ e = 8 := by omega
  rcases this with rfl | rfl | rfl | rfl | rfl | rfl | rfl | rfl <;> (revert x; decide)

theorem bitLen_zero : bitLen 0 = 0 := by rw [bitLen]; simp

/-- the number of leading one bits of the first byte is the number of extra bytes -/
theorem leadOnes_marker (e : Nat) (he : 1 ≤ e ∧ e ≤ 8) (x : Nat) (hx : x < 2 ^ (7 - e)) (first : UInt8)
    (hf : first.toNat = x + (256 - 2 ^ (8 - e))) : leadOnes first = e := by
  obtain ⟨h1, h8⟩ := he
  unfold leadOnes
  rw [hf]
  have : e = 1 ∨ e = 2 ∨ e = 3 ∨ e = 4 ∨ e = 5 ∨ e = 6 ∨ e = 7 ∨ e = 8 := by omega
  rcases this with rfl | rfl | rfl | rfl | rfl | rfl | rfl | rfl <;> simp only [Nat.reducePow, Nat.reduceSub] at hx ⊢
  · rw [bitLen_eq (255 - (x + 128)) 6 (by simp only [Nat.reduceAdd, Nat.reducePow]; omega) (by simp only [Nat.reducePow]; omega)]
  · rw [bitLen_eq (255 - (x + 192)) 5 (by simp only [Nat.reduceAdd, Nat.reducePow]; omega) (by simp only [Nat.reducePow]; omega)]
  · rw [bitLen_eq (255 - (x + 224)) 4 (by simp only [Nat.reduceAdd, Nat.reducePow]; omega) (by simp only [Nat.reducePow]; omega)]
  · rw [bitLen_eq (255 - (x + 240)) 3 (by simp only [Nat.reduceAdd, Nat.reducePow]; omega) (by simp only [Nat.reducePow]; omega)]
  · rw [bitLen_eq (255 - (x + 248)) 2 (by simp only [Nat.reduceAdd, Nat.reducePow]; omega) (by simp only [Nat.reducePow]; omega)]
  · rw [bitLen_eq (255 - (x + 252)) 1 (by simp only [Nat.reduceAdd, Nat.reducePow]; omega) (by simp only [Nat.reducePow]; omega)]
  · rw [bitLen_eq (255 - (x + 254)) 0 (by simp only [Nat.reduceAdd, Nat.reducePow]; omega) (by simp only [Nat.reducePow]; omega)]
  · have : x = 0 := by omega
    subst this
    simp [bitLen_zero]

/-- decVint on a first byte carrying the marker for `e` extra bytes -/
theorem decVint_core (e : Nat) (he : 1 ≤ e ∧ e ≤ 8) (x : Nat) (hx : x < 2 ^ (7 - e)) (first : UInt8)
    (hf : first.toNat = x + (256 - 2 ^ (8 - e))) (r : Bytes) (hr : ¬ r.length < e) :
    decVint (first :: r) =
      some (decIntZigZag ((r.take e).foldl (fun acc b => (acc * 256 + b.toNat) % 2^64) x), r.drop e) := by
  have hx8 : x < 2 ^ (8 - e) := by
    have : 2 ^ (7 - e) ≤ 2 ^ (8 - e) := Nat.pow_le_pow_right (by decide) (by omega)
    omega
  have hge : ¬ first.toNat < 128 := by
    rw [hf]
    have : 2 ^ (8 - e) ≤ 2 ^ 7 := Nat.pow_le_pow_right (by decide) (by omega)
    simp only [Nat.reducePow] at this
    omega
  have hl := leadOnes_marker e he x hx first hf
  have ha : first.toNat &&& (255 >>> e) = x := by rw [hf]; exact and_marker e he x hx8
  unfold decVint
  simp only [if_neg hge, hl, ha, if_neg hr]

/-- the multi-byte case: first byte = marker + high bits, then `e` bytes -/
theorem decVint_multi (e : Nat) (he : 1 ≤ e ∧ e ≤ 8) (u : Nat) (hu : u < 2^64) (hx : u / 256 ^ e < 2 ^ (7 - e))
    (rest : Bytes) :
    decVint (beBytes (e + 1) (u + (256 - 2 ^ (8 - e)) * 256 ^ e) ++ rest) = some (decIntZigZag u, rest) := by
  rw [beBytes_head, beBytes_add_mul, Nat.add_mul_div_right _ _ (Nat.pow_pos (by decide))]
  have hdm : u = u / 256 ^ e * 256 ^ e + u % 256 ^ e := by
    have := Nat.div_add_mod u (256 ^ e); rw [Nat.mul_comm] at this; exact this.symm
  have hbn : beNat (beBytes e u) = u % 256 ^ e := beNat_beBytes e u
  have hlen : (beBytes e u).length = e := beBytes_length e u
  have hx8 : u / 256 ^ e < 2 ^ (8 - e) := by
    have : 2 ^ (7 - e) ≤ 2 ^ (8 - e) := Nat.pow_le_pow_right (by decide) (by omega)
    omega
  have h256 : 2 ^ (8 - e) ≤ 256 := by
    have : 2 ^ (8 - e) ≤ 2 ^ 8 := Nat.pow_le_pow_right (by decide) (by omega)
    simpa using this
  have hft : (byteOfNat (u / 256 ^ e + (256 - 2 ^ (8 - e)))).toNat = u / 256 ^ e + (256 - 2 ^ (8 - e)) := by
    rw [byteOfNat_toNat]; exact Nat.mod_eq_of_lt (by omega)
  have hfold : ((beBytes e u ++ rest).take e).foldl (fun acc b => (acc * 256 + b.toNat) % 2^64) (u / 256 ^ e) = u := by
    rw [List.take_append_of_le_length (by omega), List.take_of_length_le (by omega)]
    rw [fold_nomod _ _ (by rw [hlen, hbn, ← hdm]; exact hu), hlen, hbn, ← hdm]
  have hdrop : (beBytes e u ++ rest).drop e = rest := by
    rw [List.drop_append_of_le_length (by omega), List.drop_of_length_le (by omega)]; rfl
  have hlenr : ¬ (beBytes e u ++ rest).length < e := by simp [hlen]
  rw [List.cons_append, decVint_core e he _ hx _ hft _ hlenr, hfold, hdrop]

/-- decVint (marshal.go) reads back what encVint wrote — the specification's signed vint — for EVERY int64, leaving
    the rest of the input -/
theorem decVint_specVint (n : Int) (h : fitsS 8 n = true) (rest : Bytes) :
    decVint (specVint n ++ rest) = some (n, rest) := by
  have hu := zigzag_lt n h
  have hz : decIntZigZag (zigzag n) = n := by rw [decIntZigZag_spec _ hu, unzigzag_zigzag]
  unfold specVint specUVint
  generalize zigzag n = u at *
  simp only
  rcases uvintSize_cases u hu with ⟨hs, hb⟩ | ⟨hs, hb⟩ | ⟨hs, hb⟩ | ⟨hs, hb⟩ | ⟨hs, hb⟩ | ⟨hs, hb⟩ | ⟨hs, hb⟩ | ⟨hs, hb⟩ | ⟨hs, hb⟩ <;>
    rw [hs]
  · have hb' : u < 128 := by simpa using hb
    have hft : (byteOfNat u).toNat = u := by rw [byteOfNat_toNat]; omega
    simp only [beBytes, Nat.reducePow, Nat.reduceSub, Nat.zero_mul, Nat.add_zero, List.nil_append, List.cons_append]
    unfold decVint
    simp only [hft, if_pos hb', hz]
  · rw [← hz]; exact decVint_multi 1 (by omega) u hu (by simp only [Nat.reducePow, Nat.reduceSub] at *; omega) rest
  · rw [← hz]; exact decVint_multi 2 (by omega) u hu (by simp only [Nat.reducePow, Nat.reduceSub] at *; omega) rest
  · rw [← hz]; exact decVint_multi 3 (by omega) u hu (by simp only [Nat.reducePow, Nat.reduceSub] at *; omega) rest
  · rw [← hz]; exact decVint_multi 4 (by omega) u hu (by simp only [Nat.reducePow, Nat.reduceSub] at *; omega) rest
  · rw [← hz]; exact decVint_multi 5 (by omega) u hu (by simp only [Nat.reducePow, Nat.reduceSub] at *; omega) rest
  · rw [← hz]; exact decVint_multi 6 (by omega) u hu (by simp only [Nat.reducePow, Nat.reduceSub] at *; omega) rest
  · rw [← hz]; exact decVint_multi 7 (by omega) u hu (by simp only [Nat.reducePow, Nat.reduceSub] at *; omega) rest
  · rw [← hz]; exact decVint_multi 8 (by omega) u hu (by simp only [Nat.reducePow, Nat.reduceSub] at *; omega) rest

/-- the three vints of a duration: months and days of int32, nanoseconds of int64 -/
theorem decVints_encVints (m d n : Int) (hm : fitsS 4 m = true) (hd : fitsS 4 d = true) (hn : fitsS 8 n = true) :
    decVints (encVints m d n) = some (m, d, n) := by
  have hm8 := C12.fits4_fits8 m hm
  have hd8 := C12.fits4_fits8 d hd
  unfold encVints decVints
  rw [encVint_spec m hm8, encVint_spec d hd8, encVint_spec n hn, List.append_assoc, decVint_specVint m hm8]
  simp only
  rw [decVint_specVint d hd8]
  simp only
  have := decVint_specVint n hn []
  rw [List.append_nil] at this
  rw [this]
  simp only [C02Scalar.toS32_fits m hm, C02Scalar.toS32_fits d hd]

theorem encVints_ne_nil (m d n : Int) (hm : fitsS 4 m = true) (hd : fitsS 4 d = true) (hn : fitsS 8 n = true) :
    encVints m d n ≠ [] := by
  intro h
  have h1 := decVints_encVints m d n hm hd hn
  rw [h] at h1
  simp [decVints, decVint] at h1

end C02Vint
