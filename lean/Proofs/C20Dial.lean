import Model.TlsAuthDial
import Proofs.C20Lemmas
/-! helper lemmas for C20: dialling (every dialer configuration; several dials through one shared tls.Config) -/
namespace TlsAuth

/-- a `WrapTLS` that leaves the dialer's config alone leaves the dialer's state alone -/
theorem dialDefault_readonly (wrap : Wrap) (hro : ∀ t a, (wrap t a).1 = t) (trust : Signer → Bool) (cb : Bool)
    (tls : Option OutCfg) (d : DialTry) : (dialDefault wrap trust cb tls d).1 = tls := by
  unfold dialDefault
  cases d.host.ip with
  | none => rfl
  | some ip =>
    simp only
    split
    · rfl
    · split
      · rfl
      · cases tls with
        | none => rfl
        | some t => simp [hro]

/-- … and then every dial of a sequence is a function of the configuration and that dial alone -/
theorem dialSeq_readonly (wrap : Wrap) (hro : ∀ t a, (wrap t a).1 = t) (trust : Signer → Bool) (cb : Bool)
    (tls : Option OutCfg) (ds : List DialTry) :
    dialSeq wrap trust cb tls ds = ds.map (fun d => (dialDefault wrap trust cb tls d).2) ∧
    dialFinal wrap trust cb tls ds = tls := by
  induction ds with
  | nil => exact ⟨rfl, rfl⟩
  | cons d ds ih =>
    simp only [dialSeq, dialFinal, dialDefault_readonly wrap hro, List.map_cons]
    exact ⟨by rw [ih.1], ih.2⟩

theorem wrapCode_readonly (t : OutCfg) (a : List UInt8) : (wrapCode t a).1 = t := rfl

/-- `connConfig` does not look at the `Dialer` field except to pass it on -/
theorem connConfig_dialer (c : DialCfg) (b : Bool) :
    connConfig { c with dialer := b } =
      (match connConfig c with
       | .ok (.dflt _ t) => .ok (.dflt b t)
       | r => r) := by
  obtain ⟨hd, d, ssl⟩ := c
  cases hd
  · cases ssl with
    | none => rfl
    | some o =>
      simp only [connConfig, Bool.false_eq_true, if_false]
      cases setupTLSConfig o <;> rfl
  · rfl

end TlsAuth
