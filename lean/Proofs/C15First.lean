import Model.PagingFirst
import Proofs.C15Paging
/-! helper lemmas for the single-row helpers of C15 (`Model/PagingFirst.lean`) -/
namespace Paging.First
open Paging Paging.Hist

theorem queryScan_spec (pp : Nat → Nat) : ∀ (script : List Reply) (c : Bool) (q : Qry), q.disableAutoPage = false →
    ((queryScan pp script c q).row, (queryScan pp script c q).err) = Spec.first script := by
  intro script
  induction script with
  | nil => intro c q _; simp [queryScan, Spec.first, Paging.Spec.rows, Paging.Spec.err]
  | cons r rest ih =>
    intro c q hq
    cases r with
    | unprepared =>
      have := ih false q hq
      simpa [queryScan, Spec.first, Paging.Spec.rows, Paging.Spec.err] using this
    | fail f => simp [queryScan, Spec.first, Paging.Spec.rows, Paging.Spec.err]
    | page rows st =>
      cases st with
      | none =>
        cases rows with
        | nil => simp [queryScan, pageIter, Spec.first, Paging.Spec.rows, Paging.Spec.err]
        | cons a as => simp [queryScan, Spec.first, Paging.Spec.rows]
      | some s =>
        cases rows with
        | nil =>
          have := ih true { q with pageState := s } hq
          simpa [queryScan, pageIter, hq, Spec.first, Paging.Spec.rows, Paging.Spec.err] using this
        | cons a as => simp [queryScan, Spec.first, Paging.Spec.rows]

theorem queryExec_spec (pp : Nat → Nat) : ∀ (script : List Reply) (c : Bool) (q : Qry),
    (connExec pp script c q).iter.err = Spec.execErr script := by
  intro script
  induction script with
  | nil => intro c q; rfl
  | cons r rest ih =>
    intro c q
    cases r with
    | unprepared => simpa [connExec, Spec.execErr] using ih false q
    | fail f => rfl
    | page rows st => simp [connExec, pageIter, Spec.execErr]

end Paging.First
