import Model.UuidGen
import Proofs.C19Time
/-! helper lemmas for C19: the generator as a state machine over a stream of clock readings -/
namespace Uuid

/-- converse of `with_inj` (same node): the UUID depends on the timestamp only modulo 2^60 and on the clock
    only modulo 2^14 -/
theorem with_congr (t1 t2 c1 c2 : Nat) (nd : List UInt8)
    (ht : t1 % 2 ^ 60 = t2 % 2 ^ 60) (hc : c1 % 2 ^ 14 = c2 % 2 ^ 14) :
    timeUUIDWith t1 c1 nd = timeUUIDWith t2 c2 nd := by
  simp only [Nat.reducePow] at ht hc
  have tb : ∀ k, k ≤ 48 → k % 8 = 0 → tbyte t1 k = tbyte t2 k := by
    intro k hk h8
    apply UInt8.toNat_inj.mp
    rw [tbyte_toNat, tbyte_toNat]
    have : k = 0 ∨ k = 8 ∨ k = 16 ∨ k = 24 ∨ k = 32 ∨ k = 40 ∨ k = 48 := by omega
    rcases this with rfl | rfl | rfl | rfl | rfl | rfl | rfl <;> simp only [Nat.reducePow] <;> omega
  have b6 : ((tbyte t1 56 &&& (0x0F : UInt8)) ||| (0x10 : UInt8)) = ((tbyte t2 56 &&& (0x0F : UInt8)) ||| (0x10 : UInt8)) := by
    apply UInt8.toNat_inj.mp
    rw [v1_toNat, v1_toNat, tbyte_toNat, tbyte_toNat]
    simp only [Nat.reducePow]; omega
  have b8 : ((UInt8.ofNat (c1 >>> 8) &&& (0x3F : UInt8)) ||| (0x80 : UInt8)) = ((UInt8.ofNat (c2 >>> 8) &&& (0x3F : UInt8)) ||| (0x80 : UInt8)) := by
    apply UInt8.toNat_inj.mp
    rw [var_toNat, var_toNat]
    simp only [UInt8.toNat_ofNat', Nat.shiftRight_eq_div_pow, Nat.reducePow]; omega
  have b9 : UInt8.ofNat c1 = UInt8.ofNat c2 := by
    apply UInt8.toNat_inj.mp
    simp only [UInt8.toNat_ofNat', Nat.reducePow]; omega
  unfold timeUUIDWith
  rw [tb 24 (by omega) rfl, tb 16 (by omega) rfl, tb 8 (by omega) rfl, tb 0 (by omega) rfl,
    tb 40 (by omega) rfl, tb 32 (by omega) rfl, tb 48 (by omega) rfl, b6, b8, b9]

/-- exactly when two time-UUIDs of one node coincide -/
theorem with_eq_iff (t1 t2 c1 c2 : Nat) (nd : List UInt8) :
    timeUUIDWith t1 c1 nd = timeUUIDWith t2 c2 nd ↔ t1 % 2 ^ 60 = t2 % 2 ^ 60 ∧ c1 % 2 ^ 14 = c2 % 2 ^ 14 :=
  ⟨with_inj _ _ _ _ _ _, fun h => with_congr _ _ _ _ _ h.1 h.2⟩

theorem genRun_eq_gens (hw : List UInt8) (tms : List (Int × Nat)) : ∀ c, genRun hw c tms = gens hw c tms := by
  induction tms with
  | nil => intro c; rfl
  | cons tm tms ih => intro c; simp only [genRun, gens, timeUUID, ih]

theorem genRun_length (hw : List UInt8) (tms : List (Int × Nat)) : ∀ c, (genRun hw c tms).length = tms.length := by
  induction tms with
  | nil => intro c; rfl
  | cons tm tms ih => intro c; simp only [genRun, List.length_cons, ih]

/-- the `i`-th UUID of a run: the reading of step `i` with the counter value `c + 1 + i` (uint32) -/
theorem genRun_get (hw : List UInt8) (tms : List (Int × Nat)) : ∀ (c i : Nat) (hi : i < tms.length),
    (genRun hw c tms)[i]'(by rw [genRun_length]; exact hi) =
      timeUUIDWith (bits64 (getTimestamp tms[i].1 tms[i].2)) ((c + 1 + i) % 2 ^ 32) hw := by
  induction tms with
  | nil => intro c i hi; cases hi
  | cons tm tms ih =>
    intro c i hi
    cases i with
    | zero => simp [genRun, timeUUID, uuidFromTime]
    | succ i =>
      simp only [genRun, List.getElem_cons_succ]
      rw [ih _ i (by simpa using hi)]
      simp only [timeUUID, uuidFromTime]
      congr 1
      simp only [Nat.reducePow]; omega

/-- two steps of one run hand out the same UUID exactly when they stored the same tick and their counter
    values agree modulo 2^14, i.e. they are a multiple of 16384 increments apart -/
theorem genRun_eq_iff (hw : List UInt8) (tms : List (Int × Nat)) (c i j : Nat)
    (hi : i < tms.length) (hj : j < tms.length) :
    (genRun hw c tms)[i]'(by rw [genRun_length]; exact hi) = (genRun hw c tms)[j]'(by rw [genRun_length]; exact hj) ↔
      tick tms[i] = tick tms[j] ∧ i % 16384 = j % 16384 := by
  rw [genRun_get hw tms c i hi, genRun_get hw tms c j hj, with_eq_iff]
  simp only [tick, Nat.reducePow]
  constructor
  · rintro ⟨h1, h2⟩; exact ⟨h1, by omega⟩
  · rintro ⟨h1, h2⟩; exact ⟨h1, by omega⟩

/-- counter after a run -/
theorem genRun_ctr (hw : List UInt8) (tms : List (Int × Nat)) : ∀ c, c < 2 ^ 32 →
    (tms.foldl (fun s now => (timeUUID s hw now).2) c) = genCtr c tms.length := by
  induction tms with
  | nil => intro c hc; simp only [List.foldl_nil, genCtr, List.length_nil, Nat.add_zero]; exact (Nat.mod_eq_of_lt hc).symm
  | cons tm tms ih =>
    intro c hc
    simp only [List.foldl_cons, List.length_cons]
    rw [ih _ (by simp only [timeUUID, uuidFromTime]; exact Nat.mod_lt _ (by decide))]
    simp only [genCtr, timeUUID, uuidFromTime, Nat.reducePow]
    omega

/-! ### readings ↦ ticks -/

/-- order of wall-clock readings `(seconds, nanoseconds)` -/
def readingLe (a b : Int × Nat) : Prop := a.1 < b.1 ∨ (a.1 = b.1 ∧ a.2 ≤ b.2)

theorem tick_exact (now : Int × Nat) (h : Representable now.1 now.2) :
    (tick now : Int) = (now.1 - timeBase) * 10000000 + (now.2 / 100 : Nat) := by
  obtain ⟨hb, hlt⟩ := bits64_getTimestamp now.1 now.2 h
  unfold tick
  rw [Nat.mod_eq_of_lt hlt]
  exact hb

theorem tick_mono (a b : Int × Nat) (ha : Representable a.1 a.2) (hb : Representable b.1 b.2)
    (h : readingLe a b) : tick a ≤ tick b := by
  have ea := tick_exact a ha
  have eb := tick_exact b hb
  obtain ⟨_, ha2, _⟩ := ha
  obtain ⟨_, hb2, _⟩ := hb
  unfold readingLe at h
  simp only [timeBase] at *
  omega

/-- the stepped clock stays representable and its tick is `(sec - base)·10^7 + (nsec + (k/every)·stepns)/100` -/
theorem stepped_repr (sec : Int) (nsec every stepns k : Nat) (hs : timeBase ≤ sec)
    (hlt : (sec - timeBase) * 10000000 + ((nsec + k / every * stepns) / 100 : Nat) < 2 ^ 60) :
    Representable (steppedClock sec nsec every stepns k).1 (steppedClock sec nsec every stepns k).2 ∧
    (tick (steppedClock sec nsec every stepns k) : Int) =
      (sec - timeBase) * 10000000 + ((nsec + k / every * stepns) / 100 : Nat) := by
  generalize hx : nsec + k / every * stepns = x at hlt
  have hr : Representable (steppedClock sec nsec every stepns k).1 (steppedClock sec nsec every stepns k).2 := by
    simp only [steppedClock, unixNorm, hx, Representable, timeBase] at *
    omega
  refine ⟨hr, ?_⟩
  rw [tick_exact _ hr]
  simp only [steppedClock, unixNorm, hx, timeBase]
  omega

/-! ### `firstDup` (the driver's duplicate search) is correct -/


theorem clockKey_lt (u : List UInt8) : clockKey u < 16384 := by
  unfold clockKey
  rw [or_shl _ 8 _ (byteAt u 9).toNat_lt, low6_eq_mod]
  have := (byteAt u 9).toNat_lt
  omega

theorem getD_set {α} (bk : Array (List α)) (b b' : Nat) (v : List α) (hb : b < bk.size) :
    (bk.setIfInBounds b v).getD b' [] = if b' = b then v else bk.getD b' [] := by
  simp only [Array.getD_eq_getD_getElem?, Array.getElem?_setIfInBounds]
  by_cases h : b' = b
  · subst h; simp [hb]
  · have : ¬ b = b' := fun e => h e.symm
    simp [h, this]

structure BInv (pre : List (List UInt8)) (bk : Array (List (List UInt8 × Nat))) : Prop where
  size : bk.size = 16384
  sound : ∀ b e, e ∈ bk.getD b [] → pre[e.2]? = some e.1
  complete : ∀ m (h : m < pre.length), (pre[m], m) ∈ bk.getD (clockKey pre[m]) []

theorem firstDupAux_spec (us : List (List UInt8)) : ∀ (pre : List (List UInt8)) (bk : Array (List (List UInt8 × Nat))),
    BInv pre bk → pre.Pairwise (· ≠ ·) →
    (∀ i j, firstDupAux us pre.length bk = some (i, j) →
        i < j ∧ ∃ u, (pre ++ us)[i]? = some u ∧ (pre ++ us)[j]? = some u) ∧
    (firstDupAux us pre.length bk = none → (pre ++ us).Pairwise (· ≠ ·)) := by
  induction us with
  | nil =>
    intro pre bk _ hp
    exact ⟨by intro i j h; simp [firstDupAux] at h, by intro _; simpa using hp⟩
  | cons u us ih =>
    intro pre bk inv hp
    cases hf : (bk.getD (clockKey u) []).find? (fun e => e.1 == u) with
    | some e =>
      have hmem := List.mem_of_find?_eq_some hf
      have heq : e.1 = u := by simpa using List.find?_some hf
      have hs := inv.sound _ e hmem
      have hlt : e.2 < pre.length := by
        rcases Nat.lt_or_ge e.2 pre.length with h | h
        · exact h
        · rw [List.getElem?_eq_none h] at hs; cases hs
      constructor
      · intro i j h
        simp only [firstDupAux, hf, Option.some.injEq, Prod.mk.injEq] at h
        obtain ⟨rfl, rfl⟩ := h
        refine ⟨hlt, u, ?_, ?_⟩
        · rw [List.getElem?_append_left hlt, hs, heq]
        · simp
      · intro h; simp only [firstDupAux, hf] at h; cases h
    | none =>
      have hnot : ∀ e ∈ bk.getD (clockKey u) [], e.1 ≠ u := by
        intro e he h
        have := List.find?_eq_none.mp hf e he
        simp [h] at this
      have hfresh : ∀ v ∈ pre, v ≠ u := by
        intro v hv h
        obtain ⟨m, hm, rfl⟩ := List.getElem_of_mem hv
        have := inv.complete m hm
        rw [h] at this
        exact hnot _ this rfl
      have hb : clockKey u < bk.size := by rw [inv.size]; exact clockKey_lt u
      have inv' : BInv (pre ++ [u]) (bk.setIfInBounds (clockKey u) ((u, pre.length) :: bk.getD (clockKey u) [])) := by
        refine ⟨by simp [inv.size], ?_, ?_⟩
        · intro b e he
          rw [getD_set _ _ _ _ hb] at he
          have old : ∀ e, e ∈ bk.getD b [] → (pre ++ [u])[e.2]? = some e.1 := by
            intro e he
            have hs := inv.sound b e he
            have hlt : e.2 < pre.length := by
              rcases Nat.lt_or_ge e.2 pre.length with h | h
              · exact h
              · rw [List.getElem?_eq_none h] at hs; cases hs
            rw [List.getElem?_append_left hlt, hs]
          by_cases hbb : b = clockKey u
          · rw [if_pos hbb] at he
            rcases List.mem_cons.mp he with rfl | he
            · simp
            · exact old e (hbb ▸ he)
          · rw [if_neg hbb] at he
            exact old e he
        · intro m hm
          rw [getD_set _ _ _ _ hb]
          simp only [List.length_append, List.length_singleton] at hm
          rcases Nat.lt_or_ge m pre.length with hlt | hge
          · have hg : (pre ++ [u])[m] = pre[m] := List.getElem_append_left hlt
            rw [hg]
            have := inv.complete m hlt
            by_cases hk : clockKey pre[m] = clockKey u
            · rw [if_pos hk]; exact List.mem_cons_of_mem _ (hk ▸ this)
            · rw [if_neg hk]; exact this
          · have hm' : m = pre.length := by omega
            subst hm'
            simp
      have hp' : (pre ++ [u]).Pairwise (· ≠ ·) := by
        rw [List.pairwise_append]
        exact ⟨hp, by simp, by intro a ha b hb; simp at hb; subst hb; exact hfresh a ha⟩
      have := ih (pre ++ [u]) _ inv' hp'
      simp only [List.length_append, List.length_singleton, List.append_assoc, List.singleton_append] at this
      constructor
      · intro i j h
        simp only [firstDupAux, hf] at h
        exact this.1 i j h
      · intro h
        simp only [firstDupAux, hf] at h
        exact this.2 h

theorem firstDup_spec (us : List (List UInt8)) :
    (∀ i j, firstDup us = some (i, j) → i < j ∧ ∃ u, us[i]? = some u ∧ us[j]? = some u) ∧
    (firstDup us = none → us.Pairwise (· ≠ ·)) := by
  have inv : BInv [] (Array.replicate 16384 ([] : List (List UInt8 × Nat))) := by
    refine ⟨by simp, ?_, by intro m h; cases h⟩
    intro b e he
    simp [Array.getD_eq_getD_getElem?, Array.getElem?_replicate] at he
    split at he <;> simp at he
  simpa [firstDup] using firstDupAux_spec us [] _ inv List.Pairwise.nil

end Uuid
