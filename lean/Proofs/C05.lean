import Proofs.C05TypeStr
import Proofs.C05Frame
import Proofs.C05Rows
import Proofs.C05Dispatch
import Proofs.C05Value
import Proofs.C05Seq
import Proofs.C05Event
import Proofs.C05ConnSetup
import Proofs.C05TokenRing
/-!
# C05 — no bytes from the network can crash the application

Property theorems only; models in Model/{TypeStr,CrashValue,RowsCrash,FrameCrash,Dispatch}.lean,
helper lemmas in Proofs/C05*.lean. A `crash` outcome of a model is produced exactly where the Go
code would raise a run-time panic that nothing recovers.
-/
namespace C05

section typestrings
open TypeStr

/-! ## 1. schema type strings (metadata.go parseType, helpers.go getCassandraType …)

The model is the code after the repairs of KF-C05-1 (parseParamNodes read `t.input[t.index]` at end of
input in three places), KF-C05-2/3 (parse / asTypeInfo indexed `params[count-1]`, `params[0]`,
`params[1]` and dereferenced a nil `param.name` without checking) and KF-C05-4 (apacheToCassandraType
grew exponentially). -/

/-- FULL: parseType cannot panic, for every byte string. The content: every index / slice expression of
the parser (`t.input[t.index]` ×3, `t.input[startIndex:endIndex]`, `ast.params[count-1]`,
`ast.params[:count]`, `class.params[0]`, `class.params[1]`, `*param.name`) is in bounds / non-nil for all
inputs and the recursion terminates (fuel |s|+1 is never exhausted). -/
theorem C05_typestrings_total (s : Str) : (parseType s).crashSite = none := by
  cases hc : parseType s with
  | ok a => rfl
  | fail => rfl
  | crash x => exact absurd hc (C05TypeStr.parseType_noCrash s x)

/-- getCassandraType / getTypeInfo (CQL type names of the v3 schema tables) never panic: the only
slice expression `name[:len(name)-1]` is guarded by the prefix tests, the recursion terminates. -/
theorem C05_cqltypenames_total (s : Str) :
    (getCassandraType s).crashSite = none ∧ (getTypeInfo s).crashSite = none := by
  constructor
  · cases hc : getCassandraType s with
    | crash x => exact absurd hc (C05TypeStr.getCassandraType_noCrash s x)
    | _ => rfl
  · cases hc : getTypeInfo s with
    | crash x => exact absurd hc (C05TypeStr.getTypeInfo_noCrash s x)
    | _ => rfl

/-- ALLOCATION (part of the property: "never allocates memory wildly out of proportion to the bytes
received"): the CQL translation of a Java class string is at most 18 times as long as the string -/
theorem C05_typestring_alloc_bound (t : Str) : (apacheToCassandraType t).length ≤ 18 * t.length :=
  C05TypeStr.apache_len t

/-- byte lists of ASCII text for the witnesses -/
def str (s : String) : Str := s.toList.map (·.toNat)

/-! regression: the strings that crashed the parser before the repairs (the `ops` of KF-C05-1..4,
replayed on the real code by the check) are custom types now; non-vacuity: a well-formed composite
comparator still parses into its components -/
example : (parseType [65, 40]).crashSite = none ∧ (parseType [65, 40, 66]).crashSite = none ∧
    (parseType [65, 40, 66, 40, 67, 41]).crashSite = none := by decide
example : renderOut renderResult (parseType [65, 40]) = "ok:S[c4128]{}" := by decide
example : renderOut renderResult (parseType kCOMPOSITE) = renderOut renderResult (.ok (customResult kCOMPOSITE)) := by decide +kernel
example : renderOut renderResult (parseType kLISTT) = renderOut renderResult (.ok (customResult kLISTT)) := by decide +kernel
example : renderOut renderResult (parseType (kMAPT ++ [40, 65, 41])) = renderOut renderResult (.ok (customResult (kMAPT ++ [40, 65, 41]))) := by decide +kernel
example : renderOut renderResult (parseType kREVERSED) = renderOut renderResult (.ok (customResult kREVERSED)) := by decide +kernel
example : (parseType (kCOMPOSITE ++ [40] ++ kCOLLECTION ++ [40, 65, 41, 41])).crashSite = none := by decide +kernel
example : renderOut renderResult (parseType (kCOMPOSITE ++ [40] ++ kLISTT ++ [40, 65, 41, 44] ++ kREVERSED ++ [40, 66, 41, 41]))
    = "ok:C[L(c41),r:c42]{}" := by decide +kernel
/-- `c,u,s,t,o,m` (11 bytes) became 331 bytes, `c,u,s,t,o,m,c,u` 2232 bytes before the repair of KF-C05-4 -/
example : (apacheToCassandraType [99,44,117,44,115,44,116,44,111,44,109]).length = 46 := by decide +kernel

end typestrings

/-! ## 4. response frames (frame.go parseFrame and the primitive readers 1771-1937)

The model is the code after the repairs of KF-C05-5 (readInetAdressOnly sliced `size` (4/16) bytes
behind `len(f.buf) < 1`: EVENT STATUS_CHANGE / TOPOLOGY_CHANGE on the connection's goroutine and the v5
error map), KF-C05-6/7 (parsePreparedMetadata `make([]int, pkeyCount)` with a negative / unchecked
count) and KF-C05-8 (readTypeInfo `make` of an unchecked tuple / UDT element count). -/
section frames
open FrameCrash

/-- the generic lemma: a primitive reader whose length check is at least what it slices cannot
crash on any buffer; every fixed-size primitive of the table satisfies it -/
theorem C05_prim_guard_ge_need (site : FrameCrash.Site) (guard need : Nat) (h : need ≤ guard) (st : St) :
    (take site guard need st).crashSite = none := C05Frame.take_noCrash site guard need h st

theorem C05_prim_table : ∀ p ∈ primTable, p.2.2 ≤ p.2.1 := C05Frame.primTable_ok

/-- FULL: for every protocol version, direction bit, header flags, opcode and body, parseFrame raises
no run-time panic. The content: every read of the parser (all primitives, all error codes, result
kinds, metadata, the partition-key list, type descriptions of any nesting, schema changes, events incl.
their inet addresses, SUPPORTED, AUTH frames, tracing / warning / custom-payload prefixes) is guarded,
no `make` gets a negative size, and the type-description recursion terminates (fuel |body|+1 is never
exhausted). -/
theorem C05_frame_total (proto : Nat) (resp : Bool) (flags op : Nat) (body : Bytes) :
    (parseFrame proto resp flags op body).crashSite = none :=
  C05Frame.parseFrame_noCrash proto resp flags op body

/-! regression: the frames that crashed the parser before the repairs (the `ops` of KF-C05-5, 6) are
parse errors now -/
/-- EVENT STATUS_CHANGE "UP", inet size 16 with 2 bytes left (protocol 4); TOPOLOGY_CHANGE with a 4-byte
address and 3 bytes left; RESULT/PREPARED (protocol 4) with partition-key count −1 -/
theorem C05_former_frame_witnesses_are_errors :
    (parseFrame 4 true 0 0x0C
      [0, 13, 83, 84, 65, 84, 85, 83, 95, 67, 72, 65, 78, 71, 69, 0, 2, 85, 80, 16, 254, 128]).isErr = true ∧
    (parseFrame 3 true 0 0x0C
      [0, 15, 84, 79, 80, 79, 76, 79, 71, 89, 95, 67, 72, 65, 78, 71, 69, 0, 8, 78, 69, 87, 95, 78, 79, 68, 69, 4, 10, 0, 0]).isErr = true ∧
    (parseFrame 4 true 0 0x08
      [0, 0, 0, 4, 0, 2, 1, 2, 0, 0, 0, 4, 0, 0, 0, 0, 255, 255, 255, 255]).isErr = true := by decide +kernel

example : (parseFrame 4 true 0 0x02 []).crashSite = none := by decide +kernel

/-! ### recursion depth (KF-C05-13, open)

The nesting depth of a parsed type description — the depth of readTypeInfo's recursion, hence its
goroutine stack use — is bounded by the number of unread body bytes and by nothing else: 2 bytes per
level suffice (`00 20` = list<…>). Go's stack limit is not part of the model; the measured
≥ 336 bytes of stack per level make a 4 MB body fatal (subprocess scenario `deep`). -/

theorem C05_typeinfo_depth_le_body (st : St) (t : TI) (st' : St) (h : readTypeInfoTop st = .ok t st') :
    tiDepth t ≤ st.buf.length + 1 := C05Rows.typeInfoTop_depth st t st' h

/-- 8 bytes → depth 4: list<list<list<int>>> -/
theorem C05_cex_typeinfo_depth :
    (match readTypeInfoTop { buf := [0, 32, 0, 32, 0, 32, 0, 9], alloc := 0 } with
     | .ok t _ => tiDepth t
     | _ => 0) = 4 := by decide +kernel

/-! ### allocation -/

/-- the partition-key index list: what parsePreparedMetadata allocates for it (8 bytes per index) is
at most 4 times the unread body (`pkeyCount*2 > len(f.buf)` is rejected before `make`) -/
theorem C05_alloc_pk_guard (pk : Nat) (st : St) (h : ¬ 2 * pk > st.buf.length) : 8 * pk ≤ 4 * st.buf.length := by
  omega

/-- a tuple / UDT element list: what readTypeInfo allocates for ONE description (16 / 32 bytes per
element) is at most 8 times the unread body; `guardCount` rejects the count otherwise, before `make` -/
theorem C05_alloc_typeinfo_guard (k n : Nat) (st : St) (u : Unit) (st' : St)
    (h : guardCount (k * n) st = .ok u st') : st' = st ∧ 8 * k * n ≤ 8 * st.buf.length := by
  unfold guardCount at h
  split at h
  · cases h
  · cases h
    refine ⟨rfl, ?_⟩
    rename_i hg
    have : k * n ≤ st.buf.length := by omega
    calc 8 * k * n = 8 * (k * n) := by rw [Nat.mul_assoc]
      _ ≤ 8 * st.buf.length := Nat.mul_le_mul_left 8 this

/-- regression (KF-C05-7): the 18-byte PREPARED body announcing 2^24 partition-key indices allocated
128 MiB before the repair; it is rejected before the allocation now. (KF-C05-8): three nested tuple
descriptions announcing 65535 elements each allocated 3 MiB; rejected before the first `make` now. -/
theorem C05_former_alloc_witnesses :
    (parseFrame 4 true 0 0x08 [0, 0, 0, 4, 0, 0, 0, 0, 0, 4, 0, 0, 0, 0, 1, 0, 0, 0]).isErr = true ∧
    (parseFrame 4 true 0 0x08 [0, 0, 0, 4, 0, 0, 0, 0, 0, 4, 0, 0, 0, 0, 1, 0, 0, 0]).allocated = 0 ∧
    (parseFrame 4 true 0 0x08
      [0, 0, 0, 2, 0, 0, 0, 1, 0, 0, 0, 1, 0, 1, 107, 0, 1, 116, 0, 1, 99,
       0, 49, 255, 255, 0, 49, 255, 255, 0, 49, 255, 255]).allocated ≤ 256 := by
  decide +kernel

/-- NO linear bound for parseFrame as a whole (KF-C05-8, still open in this form): the element-count
guard compares with the bytes still unread at THAT level, and nested descriptions are all alive at
once, so k nested tuple descriptions `00 31 <n_i>` with n_i = (bytes left)/2 allocate about
8·|body| each: quadratic in the body. 10 levels in 61 bytes allocate 1440 bytes of element slots
(vs 16·9 if counts were exact). -/
theorem C05_cex_alloc_nested_quadratic :
    (parseFrame 4 true 0 0x08
      ([0, 0, 0, 2, 0, 0, 0, 1, 0, 0, 0, 1, 0, 1, 107, 0, 1, 116, 0, 1, 99] ++
       [0, 49, 0, 18, 0, 49, 0, 16, 0, 49, 0, 14, 0, 49, 0, 12, 0, 49, 0, 10, 0, 49, 0, 8, 0, 49, 0, 6, 0, 49, 0, 4,
        0, 49, 0, 2, 0, 49, 0, 0])).allocated ≥ 16 * (18 + 16 + 14 + 12 + 10 + 8 + 6 + 4 + 2) := by
  decide +kernel

/-- readFrame: PARTIAL allocation bound — when the announced body arrives, what was allocated for
it is at most its size; in every case at most maxFrameSize -/
theorem C05_alloc_bound_partial (length : Int) (flags : Nat) (avail : Bytes) :
    (∀ body a, readFrame length flags avail = .ok body a → a ≤ avail.length) ∧
    (∀ a, readFrame length flags avail = .err a → a ≤ maxFrameSize) := by
  unfold readFrame
  simp only [maxFrameSize, defaultBufSize]
  by_cases h1 : length < 0
  · simp [h1]
  · by_cases h2 : length.toNat > 268435456
    · simp [h1, h2]
    · by_cases h3 : avail.length < length.toNat
      · simp only [h1, h2, h3, if_true, if_false]
        constructor
        · intro body a h; cases h
        · intro a h; cases h; (by_cases h5 : 128 ≥ length.toNat <;> simp [h5] <;> omega)
      · by_cases h4 : bit flags 0 = true
        · simp only [h1, h2, h3, h4, if_true, if_false]
          constructor
          · intro body a h; cases h
          · intro a h; cases h; (by_cases h5 : 128 ≥ length.toNat <;> simp [h5] <;> omega)
        · simp only [h1, h2, h3, h4, if_false]
          constructor
          · intro body a h; cases h; (by_cases h5 : 128 ≥ length.toNat <;> simp [h5] <;> omega)
          · intro a h; cases h

/-- D15: the FULL bound (allocation ≤ a·received + b) fails: a 9-byte header announcing 2^28 bytes
makes readFrame allocate 256 MiB before a single body byte has arrived (KF-C05-10) -/
theorem C05_cex_alloc_header :
    readHeader [132, 0, 0, 1, 8, 16, 0, 0, 0] = .ok 132 0 1 8 268435456 ∧
    readFrame 268435456 0 [] = .err 268435456 := by decide +kernel

end frames

/-! ## 3. row iteration (session.go Iter.Scan / readColumn / scanColumn)

The model is the code after the repairs of KF-C05-10 (fewer than 4 bytes left when a cell length is
read: framer.readInt's `panic(error)` escaped Iter.Scan), KF-C05-11 (a column list ending in 0-element
tuples: `dest[0]` on an empty slice) and KF-C05-12 (a tuple cell whose field length exceeds the cell:
marshal.go readBytes). -/
section rows
open FrameCrash RowsCrash C05Rows

/-- FULL: iterating ANY result body (every row/column count, every cell length, every truncation)
never panics: short bodies and missing destinations are errors, and `dest[i:]` / `dest[:count]` are
always in bounds (the destination count is exactly what the parsed metadata adds up to). -/
theorem C05_rows_total (proto flags : Nat) (body : Bytes) (o : ROut)
    (ho : iterate proto flags body = some o) : o.crashSite = none := by
  unfold iterate at ho
  split at ho
  · rename_i m n st hp
    cases ho
    exact C05Rows.scanAll_safe m (C05Rows.parsed_meta_ok proto true flags 8 body m n st hp) n st.buf
  · cases ho

/-- regression: the result bodies that crashed Iter.Scan before the repairs (the `ops` of KF-C05-10, 11,
12) end in an error now: one int column, 2 rows announced, body ends after the first cell; a single
column of type tuple<> (no elements); tuple<int,int> cell of 5 bytes whose first field announces 9 -/
theorem C05_former_rows_witnesses_are_errors :
    iterate 4 0 [0, 0, 0, 2, 0, 0, 0, 1, 0, 0, 0, 1, 0, 1, 107, 0, 1, 116, 0, 1, 99, 0, 9, 0, 0, 0, 2, 0, 0, 0, 1, 7]
      = some (.err 1) ∧
    iterate 4 0 [0, 0, 0, 2, 0, 0, 0, 1, 0, 0, 0, 1, 0, 1, 107, 0, 1, 116, 0, 1, 99, 0, 49, 0, 0, 0, 0, 0, 1, 255, 255, 255, 255]
      = some (.err 0) ∧
    iterate 4 0 [0, 0, 0, 2, 0, 0, 0, 1, 0, 0, 0, 1, 0, 1, 107, 0, 1, 116, 0, 1, 99, 0, 49, 0, 2, 0, 9, 0, 9,
                       0, 0, 0, 1, 0, 0, 0, 5, 0, 0, 0, 9, 7]
      = some (.err 0) := by decide +kernel

/-- non-vacuity: the same frame with both cells present iterates two rows -/
example : iterate 4 0 [0, 0, 0, 2, 0, 0, 0, 1, 0, 0, 0, 1, 0, 1, 107, 0, 1, 116, 0, 1, 99, 0, 9, 0, 0, 0, 2,
                             0, 0, 0, 1, 7, 255, 255, 255, 255] = some (.ok 2) := by decide +kernel

/-! ### allocation of the row consumers (Scan loops, Scanner, MapScan, SliceMap, RowData) -/

/-- however many rows a ROWS frame announces, a consumer gets through at most one row per 4 bytes of the
row set it received (one described column at least): the announced count costs nothing by itself -/
theorem C05_rows_scanned_le_body (m : Meta) (hc : m.cols ≠ []) (numRows : Nat) (rest : Bytes) :
    4 * (scanAll m numRows rest).rows ≤ rest.length := C05Rows.rows_scanned_le_body m hc numRows rest

/-- ALLOCATION BOUND for the row consumers: the model's allocation counter (one unit per destination and
row scanned, plus the bytes of the row set) is at most (|rows|/4 + 1)·(destinations + 1) + |rows|, for every
announced row count (spec-backed op `alloc rows …`: the real code's bytes allocated are compared with
this bound times generous per-unit constants) -/
theorem C05_rows_alloc_bound (m : Meta) (hc : m.cols ≠ []) (numRows : Nat) (rest : Bytes) :
    consumeUnits m numRows rest ≤ consumeBound m rest := C05Rows.consumeUnits_le_bound m hc numRows rest

/-- non-vacuity / the witness of the seeded change C05-2: one int column, 2^24 rows announced, 6 bytes of
row set: 2 allocation units per row for at most 1 + 1 rows -/
example : (match parseFrame 4 true 0 8 [0,0,0,2, 0,0,0,1, 0,0,0,1, 0,2,107,115, 0,1,116, 0,1,99, 0,9, 1,0,0,0, 0,0,0,8, 0,1] with
    | .ok (.rows m n) st => (n, consumeUnits m n st.buf, consumeBound m st.buf)
    | _ => (0, 0, 0)) = (16777216, 8, 10) := by decide +kernel

/-! ### MapScan / SliceMap destinations (Iter.RowData → helpers.go goType)

History: with /repo at 19ec182 this check found that a map type whose key is not comparable as a Go
type made `reflect.MapOf` panic in RowData / MapScan / SliceMap (KF-C05-14; the excluded shape was
syntactic: a map, where goType looks, keyed by blob, list, set, map, tuple or UDT — all legal as FROZEN
map keys in CQL). The guard is in /repo since commit c637d3e, and the FULL property now holds. -/

/-- FULL (current tree): RowData over the columns of ANY parsed ROWS frame never panics; the only
remaining hypothesis — no NativeType carrying a collection id — is a fact about what readTypeInfo builds
(`colNative`), not about the bytes. -/
theorem C05_rowdata_total (cols : List TI) (n : Nat) (h : ∀ c ∈ cols, colNative c = true) :
    (rowData cols n).isCrash = false :=
  C05Rows.rowData_safe true cols n (fun c hc => ⟨Or.inl rfl, h c hc⟩)

/-- the code before c637d3e, for the record: no panic outside the excluded shape … -/
theorem C05_rowdata_old_partial (cols : List TI) (n : Nat) (h : ∀ c ∈ cols, colOk c = true ∧ colNative c = true) :
    (rowDataG false cols n).isCrash = false :=
  C05Rows.rowData_safe false cols n (fun c hc => ⟨Or.inr (h c hc).1, (h c hc).2⟩)

/-- … and a panic on the legal column type map<frozen<list<int>>, int>, which is an error now -/
theorem C05_rowdata_map_key_list_fixed :
    newRowOld 4 0 [0, 0, 0, 2, 0, 0, 0, 1, 0, 0, 0, 1, 0, 1, 107, 0, 1, 116, 0, 1, 99, 0, 33, 0, 32, 0, 9, 0, 9, 0, 0, 0, 0] = some .crashMapOf ∧
    newRow 4 0 [0, 0, 0, 2, 0, 0, 0, 1, 0, 0, 0, 1, 0, 1, 107, 0, 1, 116, 0, 1, 99, 0, 33, 0, 32, 0, 9, 0, 9, 0, 0, 0, 0] = some .err := by decide +kernel

/-- non-vacuity: map<int, list<int>> is fine -/
example : newRow 4 0 [0, 0, 0, 2, 0, 0, 0, 1, 0, 0, 0, 1, 0, 1, 107, 0, 1, 116, 0, 1, 99, 0, 33, 0, 9, 0, 32, 0, 9, 0, 0, 0, 0] = some (.ok 1) := by decide +kernel

end rows

/-! ## 2. value decoders (marshal.go Unmarshal on arbitrary bytes)

Full statement, allocation bounds and the regression witnesses are in Proofs/C05Value.lean. -/
section values
open CrashValue

/-- FULL: no protocol version, type tree, destination and bytes (or NULL) crash `Unmarshal` -/
theorem C05_values_total (proto : Nat) (t : CT) (dst : Dest) (data : Option Bytes) :
    ∀ s, unmarshal proto t dst data ≠ .crash s :=
  C05Value.C05_values_total proto t dst data

end values

/-! ## 5. response-kind dispatch (conn.go / control.go / events.go type switches)

Full statements and the lifting lemmas are in Proofs/C05Dispatch.lean; the table `Dispatch.dispatch`
is compared cell by cell with the table re-extracted from the source (go/ast) on every run, and every
drivable cell is driven through a real Session in a subprocess. -/
section dispatch
open Dispatch

/-- FULL: no (site, kind) cell crashes. -/
theorem C05_dispatch_total (s : Site) (k : FrameKind) : (dispatch s k).isCrash = false :=
  C05Dispatch.C05_dispatch_total s k
/-- FULL: no sequence of frames crashes a site's loop (heartbeats, event stream, request sites). -/
theorem C05_stream_total (s : Site) (fs : List FrameKind) : siteRun dispatch s fs = none :=
  C05Dispatch.C05_stream_total s fs
/-- FULL: no sequence of frames crashes the handshake, whatever the authenticator does. -/
theorem C05_handshake_total (cfg : AuthCfg) (fs : List FrameKind) :
    (hsRun dispatch cfg .awaitSupported fs).isCrashed = false :=
  C05Dispatch.C05_handshake_total cfg fs
/-- KF-C05-26 (open, a resource finding: no crash cell): UNPREPARED re-enters executeQuery /
    executeBatch, the recursion depth is whatever the server wants -/
theorem C05_retry_depth_unbounded (n : Nat) :
    retryDepth .executeQuery (List.replicate n .unprepared) = n ∧
    retryDepth .executeBatch (List.replicate n .unprepared) = n :=
  C05Dispatch.C05_retry_depth_unbounded n

end dispatch

/-! ## 6. sequences of answers on the prepare / execute / unprepared / re-prepare / paging paths

Model/PrepLife.lean: the prepared-statement cache of a connection with any number of concurrent callers
(queries, paging queries, batches) as a state machine whose inputs are the peer's answers — any of the 18
frame kinds or a malformed body, to any pending PREPARE / EXECUTE / BATCH, in any order, plus frames on the
event stream. A cache entry may be absent, in flight, finished with a statement, or finished WITHOUT one; the
last state is what `evictPreparedID` would dereference (`Res.crash`). Lemmas in Proofs/C05Seq.lean; the
machine is compared step by step (frames at the peer, returns of the calls, cache contents through the hook
VerifC05dStmtCache) with a real Session in child processes (ops `seq`, `seqinv`). -/
section sequences
open PrepLife

/-- FULL: for every set of callers and EVERY sequence of answers, no step of the machine reaches the nil
    dereference in evictPreparedID, and in the state reached every cached flight that is finished holds a
    prepared statement. -/
theorem C05_prepcache_total (cs : List (CKind × List Nat)) (is : List Input) :
    (run PArm.removes (init cs) is).crashed = false ∧ Inv (run PArm.removes (init cs) is).state.core :=
  C05Seq.run_safe C05Seq.removes_ok is (init cs) C05Seq.init_inv

/-- FULL: one step from ANY state that satisfies the invariant (not only the reachable ones) neither crashes
    nor breaks it. -/
theorem C05_prepcache_step (s : State) (i : Input) (h : Inv s.core) :
    step PArm.removes s i ≠ .crash ∧ ∀ s' log, step PArm.removes s i = .next s' log → Inv s'.core :=
  ⟨C05Seq.step_no_crash _ i h, fun _ _ he => C05Seq.step_inv C05Seq.removes_ok h he⟩

/-- FULL (spec-backed op `seqinv`): the model's answer is `ok` for every scenario, so an implementation
    answer `bad:nil-entry` (a finished flight without statement seen in the cache at a quiescent point) or
    `crash:..` is a failing input. -/
theorem C05_seqinv_ok (cs : List (CKind × List Nat)) (is : List Input) :
    invAnswer PArm.removes (init cs) is = "ok" :=
  C05Seq.invAnswer_ok C05Seq.removes_ok is (init cs) C05Seq.init_inv

/-- the same for every removal table in which each arm that stores an error also removes the key: that is the
    whole of what the safety of evictPreparedID needs from prepareStatement -/
theorem C05_prepcache_total_of_removal (rm : PArm → Bool) (hrm : ∀ a, a.result = .failed → rm a = true)
    (cs : List (CKind × List Nat)) (is : List Input) :
    (run rm (init cs) is).crashed = false :=
  (C05Seq.run_safe hrm is (init cs) C05Seq.init_inv).1

/-- ... and the hypothesis is needed: forget the removal in ONE arm (`default:`, a well-formed frame of an
    unexpected kind) and six answers crash the machine — statement prepared, two executions in flight, the
    first answered UNPREPARED, the re-prepare answered RESULT/Void, the second answered UNPREPARED. The cached
    entry is then `failed` (the state is representable, the invariant is not vacuous). -/
theorem C05_prepcache_removal_needed :
    (run C05Seq.rmForgetDefault (init [(.query, [0]), (.query, [0])])
      [.start 0, .pans 0 (.frame .resultPrepared 1 1), .start 1, .xans 0 (.frame .unprepared 1 false),
       .pans 0 (.frame .resultVoid 0 1), .xans 1 (.frame .unprepared 1 false)]).crashed = true ∧
    invOK (run C05Seq.rmForgetDefault (init [(.query, [0])])
      [.start 0, .pans 0 (.frame .resultVoid 0 1)]).state.core 3 = false := by
  constructor <;> decide

example : (run PArm.removes (init [(.query, [0]), (.query, [0])])
      [.start 0, .pans 0 (.frame .resultPrepared 1 1), .start 1, .xans 0 (.frame .unprepared 1 false),
       .pans 0 (.frame .resultVoid 0 1), .xans 1 (.frame .unprepared 1 false)]).state.core.cache 0 = some 2 := by
  decide

end sequences

/-! ## 7. frames on stream -1 under every Events configuration

Model/EventFlow.lean: a session built by NewSession for ANY `ClusterConfig.Events` (what was registered does not
bind the peer), fed ANY sequence of frames on stream -1 — events of every kind, well-formed frames that are no
events, unparsable bodies — on any connection, during the handshake or later, in rounds (push, debounce timers
expire, handleSchemaEvent / handleNodeEvent run, ring refresh). `Res.crash` is the nil dereference in
`eventDebouncer.debounce` that handleEvent would reach through a session without that debouncer. Lemmas in
Proofs/C05Event.lean; the machine is compared round by round (debouncer contents through the hook
VerifC05fEventBuffers, log lines, calls of the host selection policy, schema-agreement and ring-refresh queries
at the peer, state of the node and its pool) with a real Session in child processes (ops `evt`, `evtinv`). -/
section events
open EventFlow

/-- FULL: for every Events configuration and EVERY scenario (frames pushed while OPTIONS / STARTUP / REGISTER of a
    connection are outstanding, then any number of rounds of any frames on the control and pool connections),
    the process does not die. -/
theorem C05_events_total (cfg : EvCfg) (rs : List (List Step)) : (run cfg rs).isCrash = false :=
  (C05Event.runWith_ok ctorAlways cfg rfl rfl rs).1

/-- FULL: handleEvent from ANY session state in which both debouncers exist (not only the reachable ones), for any
    frame: no crash, both still exist, and neither holds more than eventBufferSize frames if it did not before. -/
theorem C05_events_step (s : Sess) (e : Ev) (h : C05Event.Inv s) :
    ∃ s' lg, handleEvent s e = .ok s' lg ∧ C05Event.Inv s' ∧ (C05Event.BInv s → C05Event.BInv s') := by
  obtain ⟨s', lg, h1, h2, h3, _, _⟩ := C05Event.handleEvent_ok s e h
  exact ⟨s', lg, h1, h2, h3⟩

/-- ALLOCATION: whatever arrives, at every observation point each debouncer holds at most eventBufferSize (1000)
    frames (the rest is logged and dropped), for every configuration and scenario. -/
theorem C05_events_buffer_bound (cfg : EvCfg) (rs : List (List Step)) : (run cfg rs).invOK = true :=
  (C05Event.runWith_ok ctorAlways cfg rfl rfl rs).2

/-- FULL (spec-backed op `evtinv`): the model's answer is `ok` for every scenario, so an implementation answer
    `crash:..` or `bad:buffer-over` is a failing input. -/
theorem C05_evtinv_ok (cfg : EvCfg) (rs : List (List Step)) : (run cfg rs).invStr = "ok" :=
  C05Event.invStr_ok _ (C05_events_total cfg rs) (C05_events_buffer_bound cfg rs)

/-- EXACTLY what the safety of handleEvent needs from NewSession: a way of building the session is crash-free
    for every configuration and scenario IF AND ONLY IF it allocates both debouncers for every configuration
    (session.go:164-165 does: `ctorAlways`). -/
theorem C05_events_total_iff (ct : Ctor) :
    (∀ cfg rs, (runWith ct cfg rs).isCrash = false) ↔ ∀ cfg, ct.node cfg = true ∧ ct.schema cfg = true := by
  constructor
  · intro h cfg
    refine ⟨?_, ?_⟩
    · cases hn : ct.node cfg with
      | true => rfl
      | false => have := h cfg [[], [⟨.ctl, C05Event.evStatus, 1⟩]]; rw [C05Event.no_node_deb_crashes ct cfg hn] at this; cases this
    · cases hs : ct.schema cfg with
      | true => rfl
      | false => have := h cfg [[], [⟨.ctl, C05Event.evSchema, 1⟩]]; rw [C05Event.no_schema_deb_crashes ct cfg hs] at this; cases this
  · intro h cfg rs
    exact (C05Event.runWith_ok ct cfg (h cfg).1 (h cfg).2 rs).1

/-- ... e.g. a NewSession that builds a debouncer only for the kinds the control connection registers for
    (`ctorRegistered`): with DisableSchemaEvents one unsolicited SCHEMA_CHANGE on the control connection — or already
    while the OPTIONS of the very first connection is outstanding — kills the process; with topology and status
    events disabled one STATUS_CHANGE does. The state is representable, the invariant is not vacuous. -/
theorem C05_events_registered_ctor_crashes :
    runWith ctorRegistered ⟨false, false, true⟩ [[], [⟨.ctl, C05Event.evSchema, 1⟩]] = .crash 1 ∧
    runWith ctorRegistered ⟨false, false, true⟩ [[⟨.hsOptions, C05Event.evSchema, 1⟩]] = .crash 0 ∧
    runWith ctorRegistered ⟨true, true, false⟩ [[], [⟨.pool, C05Event.evStatus, 1⟩]] = .crash 1 := by
  refine ⟨?_, ?_, ?_⟩ <;> decide

/-- non-vacuity: the same frames on the session NewSession builds are debounced and handled
    (KEYSPACE CREATED: one schema-agreement poll and policy.KeyspaceChanged; UP of an unknown host: ring refresh);
    1005 frames: 1000 kept, 5 dropped -/
example : (match run ⟨false, false, true⟩ [[], [⟨.ctl, C05Event.evSchema, 1⟩, ⟨.pool, C05Event.evStatus, 1⟩]] with
    | .ok [_, o] => (o.nodeBuf, o.schemaBuf, o.fx.ag, o.fx.kcC, o.refresh, o.pool)
    | _ => (0, 0, 0, 0, false, false)) = (1, 1, 1, 1, true, true) := by decide
example : (match run ⟨false, false, false⟩ [[], [⟨.ctl, C05Event.evStatus, 1005⟩]] with
    | .ok [_, o] => (o.nodeBuf, o.logs.dropped)
    | _ => (0, 0)) = (1000, 5) := by decide +kernel
example : run ⟨false, false, false⟩ [[⟨.hsStartup, C05Event.evSchema, 1⟩]] = .connectError := by decide

end events

/-! ## 8. connection set-up as a sequence of answers (handshake, then USE keyspace)

Model/ConnSetup.lean: OPTIONS -> STARTUP -> AUTH_RESPONSE.. (`Dispatch.hsStep`) -> `USE "ks"` of a pool connection,
every request answered with ANY of the 18 kinds; compared with a real session in child processes (op `hs`:
the requests the peer saw, and whether the session came up). Lemmas in Proofs/C05ConnSetup.lean. -/
section connsetup
open ConnSetup

/-- FULL: for every authenticator behaviour, with or without a session keyspace, and EVERY script of answers,
    setting up the connection never panics (it runs on a driver goroutine: startupCoordinator / hostConnPool.fill). -/
theorem C05_connsetup_total (cfg : Dispatch.AuthCfg) (useKs : Bool) (script : List Dispatch.FrameKind) :
    (run cfg useKs script).1.isDead = false :=
  C05ConnSetup.safe_not_dead Dispatch.dispatch _
    (C05ConnSetup.drive_safe _ cfg useKs (fun k => C05Dispatch.C05_dispatch_total _ k)
      (fun k => C05Dispatch.C05_dispatch_total _ k) (fun k => C05Dispatch.C05_dispatch_total _ k)
      (Or.inr fun k => C05Dispatch.C05_dispatch_total _ k) (fun k => C05Dispatch.C05_dispatch_total _ k)
      _ _ _ _ trivial)

/-- FULL: ... and it always ENDS, with the connection up or an error to the caller: whatever the script, once the
    peer answers like a server again the set-up is over within four requests (no state waits for ever). -/
theorem C05_connsetup_ends (cfg : Dispatch.AuthCfg) (useKs : Bool) (script : List Dispatch.FrameKind) :
    (run cfg useKs script).1 = .up ∨ (run cfg useKs script).1 = .failed :=
  C05ConnSetup.settled_cases _
    (C05ConnSetup.drive_running cfg useKs _ _ _ _ trivial)
    (C05ConnSetup.drive_ends cfg useKs script 0 _ _ trivial)
    (C05_connsetup_total cfg useKs script)

/-- non-vacuity: PasswordAuthenticator, keyspace: AUTHENTICATE, AUTH_SUCCESS, then the USE answered with RESULT/Void
    fails after four requests; answered by the server it comes up; an AUTH_CHALLENGE to the nil challenger fails -/
example : run Dispatch.passwordAuth true [.supported, .authenticate, .authSuccess, .resultVoid] = (.failed, ["O", "S", "A", "Q"]) := by decide
example : run Dispatch.passwordAuth true [.supported, .authenticate] = (.up, ["O", "S", "A", "Q"]) := by decide
example : run Dispatch.passwordAuth false [.supported, .authenticate, .authChallenge] = (.failed, ["O", "S", "A"]) := by decide

/-- FULL, configuration as a parameter: for EVERY configuration (CQLVersion set or empty, ProtoVersion fixed or
    discovered, compressor or none, Authenticator / AuthProvider / a failing AuthProvider, host lookup on or off),
    EVERY content of the SUPPORTED multimap (any keys in any order, repeated keys, zero / one / many entries, empty
    strings, unknown names), EVERY script of answers to the set-up requests and every answer to the discovery
    connection, nothing panics: the set-up as the code builds it reads no element of any list the node sent. -/
theorem C05_connsetup_cfg_total (cfg : SetupCfg) (sup : Supported) (script : List Dispatch.FrameKind) (d : Disc) :
    (runCfg .configured cfg sup script d).isDead = false := by
  unfold runCfg
  split
  · rfl
  · split
    · rfl
    · have hv : cqlVersion .configured cfg sup = some (if cfg.cqlSet then "3.0.0" else "~") := by
        unfold cqlVersion; split <;> rfl
      rw [hv]
      simp only []
      rw [C05_connsetup_total]
      simp only [Bool.false_eq_true, if_false]
      split <;> rfl

/-- what reading an element would need: a STARTUP that takes the FIRST version the node offers when none is
    configured (`supported["CQL_VERSION"][0]`) dies on a well-formed SUPPORTED whose CQL_VERSION list is empty -
    also when a later duplicate of the key is the empty one - and only with CQLVersion "" -/
theorem C05_connsetup_first_offered_crashes :
    runCfg .firstOffered ⟨false, false, false, 0, true⟩ [(.cql, [])] [] .normal = .dead ∧
    runCfg .firstOffered ⟨false, false, true, 1, false⟩ [(.cql, [.v300]), (.comp, [.snappy]), (.cql, [])] [] .normal = .dead ∧
    (runCfg .firstOffered ⟨true, false, false, 0, true⟩ [(.cql, [])] [] .normal).isDead = false ∧
    (runCfg .firstOffered ⟨false, false, false, 0, true⟩ [(.cql, [.v345, .v300])] [] .normal).isDead = false := by
  refine ⟨?_, ?_, ?_, ?_⟩ <;> decide

/-- non-vacuity: the last COMPRESSION entry decides; discovery adopts the version an ERROR names -/
example : runCfg .configured ⟨false, false, true, 0, true⟩ [(.comp, []), (.comp, [.lz4, .snappy])] [] .normal
    = .done .up ["O", "S"] "~" "snappy" := by decide
example : runCfg .configured ⟨true, false, true, 0, true⟩ [(.comp, [.lz4, .snappy]), (.comp, [])] [] .normal
    = .done .up ["O", "S"] "3.0.0" "none" := by decide
example : runCfg .configured ⟨true, true, false, 0, true⟩ [] [] (.errGreatest (some 4)) = .done .up ["O", "S"] "3.0.0" "none" ∧
    runCfg .configured ⟨true, true, false, 0, true⟩ [] [] (.errGreatest (some 77)) = .done .failed [] "-" "-" ∧
    runCfg .configured ⟨true, true, false, 0, true⟩ [] [] (.errGreatest none) = .done .failed [] "-" "-" := by decide

end connsetup

/-! ## 9. token strings from the network (partitioner name, `tokens` column of system.local / system.peers)

Model/TokenRing.lean: newTokenRing (partitioner by name suffix, ParseString per partitioner, sort with token.Less) and
GetHostForToken; compared with the real functions through the hook VerifC05hRing (op `ring`). -/
section tokenring
open TokenRing

/-- FULL: for EVERY partitioner name, EVERY assignment of arbitrary byte strings as tokens to hosts and EVERY string
    looked up, building the ring and the lookup do not panic: ParseString never hands out a nil token (Murmur3: 0 /
    clamped for strings that are no int64; ordered: the string; Random: a non-nil big.Int whatever SetString says). -/
theorem C05_tokenring_total (name : Str) (hosts : List (List Str)) (lookup : Str) :
    (ringOf false name hosts lookup).isCrash = false :=
  C05TokenRing.ringOf_total name hosts lookup

/-- ... and that is what it takes: a Random ParseString that returns SetString's own result (nil for a string that is
    no base-10 integer) dies as soon as such a token is sorted next to another one or looked up; numeric strings and
    the other partitioners are not affected -/
theorem C05_tokenring_nil_crashes :
    ringOf true (asc "org.apache.cassandra.dht.RandomPartitioner") [[asc "5", asc "12x4"]] (asc "1") = .crash ∧
    ringOf true (asc "RandomPartitioner") [[asc "5"], [[]]] (asc "1") = .crash ∧
    ringOf true (asc "RandomPartitioner") [[asc "5"]] (asc "x") = .crash ∧
    (ringOf true (asc "RandomPartitioner") [[asc "5", asc "-12"]] (asc "+1")).isCrash = false ∧
    (ringOf true (asc "Murmur3Partitioner") [[asc "5", asc "12x4"]] []).isCrash = false := by
  refine ⟨?_, ?_, ?_, ?_, ?_⟩ <;> decide

/-- non-vacuity: Murmur3 ring of "5", "" (= 0), "99999999999999999999" (clamped), "-3": sorted, lookup of 4 ends at 5 -/
example : ringOf false (asc "Murmur3Partitioner") [[asc "5", []], [asc "99999999999999999999", asc "-3"]] (asc "4")
    = .ok [.m (-3), .m 0, .m 5, .m 9223372036854775807] (some (.m 5)) := by decide
example : ringOf false (asc "FooPartitioner") [[asc "5"]] (asc "4") = .err := by decide

end tokenring

end C05
