import Proofs.C05TypeStr
/-!
# C05 — no bytes from the network can crash the application

Property theorems only; models in Model/{TypeStr,CrashValue,RowsCrash,FrameCrash,Dispatch}.lean,
helper lemmas in Proofs/C05*.lean. A `crash` outcome of a model is produced exactly where the Go
code would raise a run-time panic that nothing recovers.
-/
namespace C05
open TypeStr

/-! ## 1. schema type strings (metadata.go parseType, helpers.go getCassandraType …)

FULL PROPERTY (does NOT hold for the unchanged code):
  `∀ s, (parseType false s).crashSite = none`
The unchanged parser indexes `t.input[t.index]` at end of input in three places of parseParamNodes
and indexes `params[0]` / `params[1]` / `params[count-1]` / dereferences a nil `param.name` without
checking the parameter count (KF-C05-1 … KF-C05-4). -/

/-- the decidable predicate characterising the known-bad strings: the unchanged parser reaches one
of the seven unguarded accesses (`Site.known`), i.e. one of the guards of props/C05.fix-1.diff fires -/
def tsKnownBad (s : Str) : Bool :=
  match (parseType false s).crashSite with
  | some x => x.known
  | none => false

/-- PARTIAL: outside the known-bad strings parseType cannot panic, for every byte string. The
content: every OTHER index/slice expression of the parser (`t.input[startIndex:endIndex]`,
`ast.params[:count]`) is in bounds for all inputs and the recursion terminates (fuel |s|+1 is
never exhausted). -/
theorem C05_typestrings_total_partial (s : Str) (h : tsKnownBad s = false) :
    (parseType false s).crashSite = none := by
  cases hc : parseType false s with
  | ok a => rfl
  | fail => rfl
  | crash x =>
    have hk := (C05TypeStr.parseType_known false s x hc).1
    simp [tsKnownBad, hc, Out.crashSite, hk] at h

/-- the same, site form: whatever panics in parseType panics at one of the seven known sites -/
theorem C05_typestrings_crash_sites (s : Str) (x : Site) (h : (parseType false s).crashSite = some x) :
    x.known = true := by
  cases hc : parseType false s with
  | ok a => simp [hc, Out.crashSite] at h
  | fail => simp [hc, Out.crashSite] at h
  | crash y =>
    simp [hc, Out.crashSite] at h; subst h
    exact (C05TypeStr.parseType_known false s y hc).1

/-- getCassandraType / getTypeInfo (CQL type names of the v3 schema tables) never panic: the only
slice expression `name[:len(name)-1]` is guarded by the prefix tests, the recursion terminates. -/
theorem C05_cqltypenames_total (s : Str) :
    (getCassandraType s).crashSite = none ∧ (getTypeInfo s).crashSite = none := by
  constructor
  · cases hc : getCassandraType s with
    | crash x => exact absurd hc (C05TypeStr.getCassandraType_noCrash s x)
    | _ => rfl
  · cases hc : getTypeInfo s with
    | crash x => exact absurd hc (C05TypeStr.getTypeInfo_noCrash s x)
    | _ => rfl

/-- byte lists of ASCII text for the witnesses -/
def str (s : String) : Str := s.toList.map (·.toNat)

/-! counterexamples (kernel-evaluated; the same strings are replayed on the real code) -/
theorem C05_cex_typestring_unclosed : (parseType false [65, 40]).crashSite = some .paramsEof := by decide
theorem C05_cex_typestring_unclosed_after_name : (parseType false [65, 40, 66]).crashSite = some .paramsEof := by decide
theorem C05_cex_typestring_unclosed_after_class : (parseType false [65, 40, 66, 40, 67, 41]).crashSite = some .paramsEof := by decide
theorem C05_cex_typestring_composite_empty : (parseType false (kCOMPOSITE ++ [40, 41])).crashSite = some .compositeNoParams := by decide
theorem C05_cex_typestring_composite_bare : (parseType false kCOMPOSITE).crashSite = some .compositeNoParams := by decide
theorem C05_cex_typestring_list_bare : (parseType false kLISTT).crashSite = some .listNoParams := by decide
theorem C05_cex_typestring_set_bare : (parseType false kSETT).crashSite = some .setNoParams := by decide
theorem C05_cex_typestring_map_one : (parseType false (kMAPT ++ [40, 65, 41])).crashSite = some .mapFewParams := by decide
theorem C05_cex_typestring_reversed_bare : (parseType false kREVERSED).crashSite = some .reversedNoParams := by decide
theorem C05_cex_typestring_collection_unnamed :
    (parseType false (kCOMPOSITE ++ [40] ++ kCOLLECTION ++ [40, 65, 41, 41])).crashSite = some .collectionNoName := by decide +kernel

/-- non-vacuity: well-formed strings are outside the known-bad set and parse -/
example : tsKnownBad (kCOMPOSITE ++ [40] ++ kLISTT ++ [40, 65, 41, 44] ++ kREVERSED ++ [40, 66, 41, 41]) = false := by decide +kernel
example : tsKnownBad [] = false := by decide

/-- ALLOCATION (part of the property: "never allocates memory wildly out of proportion to the bytes
received"): apacheToCassandraType replaces every field by its type name IN THE WHOLE STRING, so the
11-byte string `c,u,s,t,o,m` becomes 331 bytes and `c,u,s,t,o,m,c,u` (15 bytes) 2232 bytes; the
growth is exponential in the number of fields (35 bytes → 3.5 MB, ~60 bytes exhaust memory):
KF-C05-5. No bound theorem is claimed for apacheToCassandraType. -/
theorem C05_cex_typestring_alloc :
    (apacheToCassandraType [99,44,117,44,115,44,116,44,111,44,109]).length = 331 ∧
    (apacheToCassandraType [99,44,117,44,115,44,116,44,111,44,109,44,99,44,117]).length = 2232 := by decide +kernel

end C05
