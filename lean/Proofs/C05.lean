import Proofs.C05TypeStr
import Proofs.C05Frame
import Proofs.C05Rows
import Proofs.C05Dispatch
import Proofs.C05Value
/-!
# C05 — no bytes from the network can crash the application

Property theorems only; models in Model/{TypeStr,CrashValue,RowsCrash,FrameCrash,Dispatch}.lean,
helper lemmas in Proofs/C05*.lean. A `crash` outcome of a model is produced exactly where the Go
code would raise a run-time panic that nothing recovers.
-/
namespace C05

section typestrings
open TypeStr

/-! ## 1. schema type strings (metadata.go parseType, helpers.go getCassandraType …)

FULL PROPERTY (does NOT hold for the unchanged code):
  `∀ s, (parseType false s).crashSite = none`
The unchanged parser indexes `t.input[t.index]` at end of input in three places of parseParamNodes
and indexes `params[0]` / `params[1]` / `params[count-1]` / dereferences a nil `param.name` without
checking the parameter count (KF-C05-1 … KF-C05-4). -/

/-- the decidable predicate characterising the known-bad strings: the unchanged parser reaches one
of the seven unguarded accesses (`Site.known`), i.e. one of the guards of props/C05.fix-1.diff fires -/
def tsKnownBad (s : Str) : Bool :=
  match (parseType false s).crashSite with
  | some x => x.known
  | none => false

/-- PARTIAL: outside the known-bad strings parseType cannot panic, for every byte string. The
content: every OTHER index/slice expression of the parser (`t.input[startIndex:endIndex]`,
`ast.params[:count]`) is in bounds for all inputs and the recursion terminates (fuel |s|+1 is
never exhausted). -/
theorem C05_typestrings_total_partial (s : Str) (h : tsKnownBad s = false) :
    (parseType false s).crashSite = none := by
  cases hc : parseType false s with
  | ok a => rfl
  | fail => rfl
  | crash x =>
    have hk := (C05TypeStr.parseType_known false s x hc).1
    simp [tsKnownBad, hc, Out.crashSite, hk] at h

/-- the same, site form: whatever panics in parseType panics at one of the seven known sites -/
theorem C05_typestrings_crash_sites (s : Str) (x : Site) (h : (parseType false s).crashSite = some x) :
    x.known = true := by
  cases hc : parseType false s with
  | ok a => simp [hc, Out.crashSite] at h
  | fail => simp [hc, Out.crashSite] at h
  | crash y =>
    simp [hc, Out.crashSite] at h; subst h
    exact (C05TypeStr.parseType_known false s y hc).1

/-- an independent NECESSARY condition for the end-of-input site (KF-C05-1): the parser phase of
parseType (`parseClass false (|s|+1) s`) runs off the end only on strings with more '(' than ')' -/
theorem C05_typestrings_eof_unbalanced (s : Str)
    (h : parseClass false (s.length + 1) s = .crash .paramsEof) : 1 ≤ C05TypeStr.bal s :=
  C05TypeStr.eof_unbalanced s h

/-- getCassandraType / getTypeInfo (CQL type names of the v3 schema tables) never panic: the only
slice expression `name[:len(name)-1]` is guarded by the prefix tests, the recursion terminates. -/
theorem C05_cqltypenames_total (s : Str) :
    (getCassandraType s).crashSite = none ∧ (getTypeInfo s).crashSite = none := by
  constructor
  · cases hc : getCassandraType s with
    | crash x => exact absurd hc (C05TypeStr.getCassandraType_noCrash s x)
    | _ => rfl
  · cases hc : getTypeInfo s with
    | crash x => exact absurd hc (C05TypeStr.getTypeInfo_noCrash s x)
    | _ => rfl

/-- byte lists of ASCII text for the witnesses -/
def str (s : String) : Str := s.toList.map (·.toNat)

/-! counterexamples (kernel-evaluated; the same strings are replayed on the real code) -/
theorem C05_cex_typestring_unclosed : (parseType false [65, 40]).crashSite = some .paramsEof := by decide
theorem C05_cex_typestring_unclosed_after_name : (parseType false [65, 40, 66]).crashSite = some .paramsEof := by decide
theorem C05_cex_typestring_unclosed_after_class : (parseType false [65, 40, 66, 40, 67, 41]).crashSite = some .paramsEof := by decide
theorem C05_cex_typestring_composite_empty : (parseType false (kCOMPOSITE ++ [40, 41])).crashSite = some .compositeNoParams := by decide
theorem C05_cex_typestring_composite_bare : (parseType false kCOMPOSITE).crashSite = some .compositeNoParams := by decide
theorem C05_cex_typestring_list_bare : (parseType false kLISTT).crashSite = some .listNoParams := by decide
theorem C05_cex_typestring_set_bare : (parseType false kSETT).crashSite = some .setNoParams := by decide
theorem C05_cex_typestring_map_one : (parseType false (kMAPT ++ [40, 65, 41])).crashSite = some .mapFewParams := by decide
theorem C05_cex_typestring_reversed_bare : (parseType false kREVERSED).crashSite = some .reversedNoParams := by decide
theorem C05_cex_typestring_collection_unnamed :
    (parseType false (kCOMPOSITE ++ [40] ++ kCOLLECTION ++ [40, 65, 41, 41])).crashSite = some .collectionNoName := by decide +kernel

/-- non-vacuity: well-formed strings are outside the known-bad set and parse -/
example : tsKnownBad (kCOMPOSITE ++ [40] ++ kLISTT ++ [40, 65, 41, 44] ++ kREVERSED ++ [40, 66, 41, 41]) = false := by decide +kernel
example : tsKnownBad [] = false := by decide

/-- ALLOCATION (part of the property: "never allocates memory wildly out of proportion to the bytes
received"): apacheToCassandraType replaces every field by its type name IN THE WHOLE STRING, so the
11-byte string `c,u,s,t,o,m` becomes 331 bytes and `c,u,s,t,o,m,c,u` (15 bytes) 2232 bytes; the
growth is exponential in the number of fields (35 bytes → 3.5 MB, ~60 bytes exhaust memory):
KF-C05-5. No bound theorem is claimed for apacheToCassandraType. -/
theorem C05_cex_typestring_alloc :
    (apacheToCassandraType [99,44,117,44,115,44,116,44,111,44,109]).length = 331 ∧
    (apacheToCassandraType [99,44,117,44,115,44,116,44,111,44,109,44,99,44,117]).length = 2232 := by decide +kernel

end typestrings

/-! ## 4. response frames (frame.go parseFrame and the primitive readers 1771-1937)

FULL PROPERTY (does NOT hold for the unchanged code):
  `∀ proto resp flags op body, (parseFrame false proto resp flags op body).crashSite = none`
Known bad: readInetAdressOnly slices `size` (4/16) bytes behind `len(f.buf) < 1` (KF-C05-6, EVENT
STATUS_CHANGE / TOPOLOGY_CHANGE on a bare goroutine and the v5 error map); parsePreparedMetadata
`make([]int, pkeyCount)` with a negative count (KF-C05-7). -/
section frames
open FrameCrash

/-- the decidable predicate characterising the known-bad frames: the unchanged parser reaches one of
the two weak guards with too few bytes / a negative count (`Site.known`) -/
def frameKnownBad (proto : Nat) (resp : Bool) (flags op : Nat) (body : Bytes) : Bool :=
  match (parseFrame false proto resp flags op body).crashSite with
  | some s => s.known
  | none => false

/-- the generic lemma: a primitive reader whose length check is at least what it slices cannot
crash on any buffer; every fixed-size primitive of the table satisfies it -/
theorem C05_prim_guard_ge_need (site : FrameCrash.Site) (guard need : Nat) (h : need ≤ guard) (st : St) :
    (take site guard need st).crashSite = none := C05Frame.take_noCrash site guard need h st

theorem C05_prim_table : ∀ p ∈ primTable, p.2.2 ≤ p.2.1 := C05Frame.primTable_ok

/-- PARTIAL: for every protocol version, direction bit, header flags, opcode and body, parseFrame's
only run-time panics are the two known sites. The content: every OTHER read of the parser (all
primitives, all error codes, result kinds, metadata, type descriptions of any nesting, schema
changes, events, SUPPORTED, AUTH frames, tracing / warning / custom-payload prefixes) is guarded, and
the type-description recursion terminates (fuel |body|+1 is never exhausted). -/
theorem C05_frame_total_partial (proto : Nat) (resp : Bool) (flags op : Nat) (body : Bytes)
    (h : frameKnownBad proto resp flags op body = false) :
    (parseFrame false proto resp flags op body).crashSite = none := by
  cases hc : (parseFrame false proto resp flags op body).crashSite with
  | none => rfl
  | some s =>
    have hk := (C05Frame.parseFrame_known false proto resp flags op body s hc).1
    simp [frameKnownBad, hc, hk] at h

theorem C05_frame_crash_sites (proto : Nat) (resp : Bool) (flags op : Nat) (body : Bytes) (s : FrameCrash.Site)
    (h : (parseFrame false proto resp flags op body).crashSite = some s) : s.known = true :=
  (C05Frame.parseFrame_known false proto resp flags op body s h).1

/-- D6: EVENT STATUS_CHANGE "UP", inet size 16 with 2 bytes left (protocol 4) -/
theorem C05_cex_frame_event_short_inet :
    (parseFrame false 4 true 0 0x0C
      [0, 13, 83, 84, 65, 84, 85, 83, 95, 67, 72, 65, 78, 71, 69, 0, 2, 85, 80, 16, 254, 128]).crashSite
      = some .inetBody := by decide +kernel

/-- the same site through TOPOLOGY_CHANGE with a 4-byte address and 3 bytes left -/
theorem C05_cex_frame_event_short_inet4 :
    (parseFrame false 3 true 0 0x0C
      [0, 15, 84, 79, 80, 79, 76, 79, 71, 89, 95, 67, 72, 65, 78, 71, 69, 0, 8, 78, 69, 87, 95, 78, 79, 68, 69, 4, 10, 0, 0]).crashSite
      = some .inetBody := by decide +kernel

/-- D7: RESULT/PREPARED (protocol 4) with partition-key count −1 -/
theorem C05_cex_frame_prepared_negative_pk :
    (parseFrame false 4 true 0 0x08
      [0, 0, 0, 4, 0, 2, 1, 2, 0, 0, 0, 4, 0, 0, 0, 0, 255, 255, 255, 255]).crashSite = some .pkeysMake := by decide +kernel

example : frameKnownBad 4 true 0 0x02 [] = false := by decide +kernel

/-! ### recursion depth (KF-C05-13)

The nesting depth of a parsed type description — the depth of readTypeInfo's recursion, hence its
goroutine stack use — is bounded by the number of unread body bytes and by nothing else: 2 bytes per
level suffice (`00 20` = list<…>). Go's stack limit is not part of the model; the measured
≥ 336 bytes of stack per level make a 4 MB body fatal (subprocess scenario `deep`). -/

theorem C05_typeinfo_depth_le_body (st : St) (t : TI) (st' : St) (h : readTypeInfoTop false st = .ok t st') :
    tiDepth t ≤ st.buf.length + 1 := C05Rows.typeInfoTop_depth false st t st' h

/-- 8 bytes → depth 4: list<list<list<int>>> -/
theorem C05_cex_typeinfo_depth :
    (match readTypeInfoTop false { buf := [0, 32, 0, 32, 0, 32, 0, 9], alloc := 0 } with
     | .ok t _ => tiDepth t
     | _ => 0) = 4 := by decide +kernel

/-! ### allocation -/

/-- D7 (allocation): an 18-byte PREPARED body makes parsePreparedMetadata allocate 8·2^24 bytes
(128 MiB; 16 GiB for count 2^31−1) before it finds the body exhausted (KF-C05-8) -/
theorem C05_cex_alloc_pk_count :
    (parseFrame false 4 true 0 0x08 [0, 0, 0, 4, 0, 0, 0, 0, 0, 4, 0, 0, 0, 0, 1, 0, 0, 0]).allocated = 134217728 := by
  decide +kernel

/-- nested tuple descriptions: each level costs 4 body bytes and allocates 16·65535 bytes, all
levels alive at once (KF-C05-9; a 4 KiB body → 1 GiB) -/
theorem C05_cex_alloc_nested_tuples :
    (parseFrame false 4 true 0 0x08
      [0, 0, 0, 2, 0, 0, 0, 1, 0, 0, 0, 1, 0, 1, 107, 0, 1, 116, 0, 1, 99,
       0, 49, 255, 255, 0, 49, 255, 255, 0, 49, 255, 255]).allocated ≥ 3 * (16 * 65535) := by
  decide +kernel

/-- readFrame: PARTIAL allocation bound — when the announced body arrives, what was allocated for
it is at most its size; in every case at most maxFrameSize -/
theorem C05_alloc_bound_partial (length : Int) (flags : Nat) (avail : Bytes) :
    (∀ body a, readFrame length flags avail = .ok body a → a ≤ avail.length) ∧
    (∀ a, readFrame length flags avail = .err a → a ≤ maxFrameSize) := by
  unfold readFrame
  simp only [maxFrameSize, defaultBufSize]
  by_cases h1 : length < 0
  · simp [h1]
  · by_cases h2 : length.toNat > 268435456
    · simp [h1, h2]
    · by_cases h3 : avail.length < length.toNat
      · simp only [h1, h2, h3, if_true, if_false]
        constructor
        · intro body a h; cases h
        · intro a h; cases h; (by_cases h5 : 128 ≥ length.toNat <;> simp [h5] <;> omega)
      · by_cases h4 : bit flags 0 = true
        · simp only [h1, h2, h3, h4, if_true, if_false]
          constructor
          · intro body a h; cases h
          · intro a h; cases h; (by_cases h5 : 128 ≥ length.toNat <;> simp [h5] <;> omega)
        · simp only [h1, h2, h3, h4, if_false]
          constructor
          · intro body a h; cases h; (by_cases h5 : 128 ≥ length.toNat <;> simp [h5] <;> omega)
          · intro a h; cases h

/-- D15: the FULL bound (allocation ≤ a·received + b) fails: a 9-byte header announcing 2^28 bytes
makes readFrame allocate 256 MiB before a single body byte has arrived (KF-C05-10) -/
theorem C05_cex_alloc_header :
    readHeader [132, 0, 0, 1, 8, 16, 0, 0, 0] = .ok 132 0 1 8 268435456 ∧
    readFrame 268435456 0 [] = .err 268435456 := by decide +kernel

end frames

/-! ## 3. row iteration (session.go Iter.Scan / readColumn / scanColumn)

FULL PROPERTY (does NOT hold): `∀ proto flags body o, iterate false proto flags body = some o → o.crashSite = none`
Known bad: fewer than 4 bytes left when a cell length is read → framer.readInt `panic(error)` escapes
Iter.Scan (KF-C05-11); a column list ending in 0-element tuples → `dest[0]` on an empty slice
(KF-C05-12); a tuple cell whose field length exceeds the cell → marshal.go readBytes (KF-C05-13). -/
section rows
open FrameCrash RowsCrash C05Rows

def rowsKnownBad (proto flags : Nat) (body : Bytes) : Bool :=
  match iterate false proto flags body with
  | some o => (match o.crashSite with | some s => s.known | none => false)
  | none => false

/-- PARTIAL: iterating ANY result body (every row/column count, every cell length, every
truncation) panics only at the three known sites: `dest[i:]` / `dest[:count]` are always in bounds
(the destination count is exactly what the parsed metadata adds up to). -/
theorem C05_rows_total_partial (proto flags : Nat) (body : Bytes) (o : ROut)
    (ho : iterate false proto flags body = some o) (h : rowsKnownBad proto flags body = false) :
    o.crashSite = none := by
  cases hc : o.crashSite with
  | none => rfl
  | some s =>
    unfold iterate at ho
    split at ho
    · rename_i m n st hp
      cases ho
      have hm := C05Rows.parsed_meta_ok false proto true flags 8 body m n st hp
      have hk := (C05Rows.scanAll_known false m hm n st.buf s hc).1
      simp [rowsKnownBad, iterate, hp, hc, hk] at h
    · cases ho

/-- D12: one int column, 2 rows announced, body ends after the first cell -/
theorem C05_cex_rows_short_body :
    iterate false 4 0 [0, 0, 0, 2, 0, 0, 0, 1, 0, 0, 0, 1, 0, 1, 107, 0, 1, 116, 0, 1, 99, 0, 9, 0, 0, 0, 2, 0, 0, 0, 1, 7]
      = some (.crash .readIntShort) := by decide +kernel

/-- a single column of type tuple<> (no elements): Scan indexes an empty destination list -/
theorem C05_cex_rows_empty_tuple :
    iterate false 4 0 [0, 0, 0, 2, 0, 0, 0, 1, 0, 0, 0, 1, 0, 1, 107, 0, 1, 116, 0, 1, 99, 0, 49, 0, 0, 0, 0, 0, 1, 255, 255, 255, 255]
      = some (.crash .destIndex) := by decide +kernel

/-- D12: tuple<int,int> cell of 5 bytes whose first field announces 9 bytes -/
theorem C05_cex_rows_tuple_field :
    iterate false 4 0 [0, 0, 0, 2, 0, 0, 0, 1, 0, 0, 0, 1, 0, 1, 107, 0, 1, 116, 0, 1, 99, 0, 49, 0, 2, 0, 9, 0, 9,
                       0, 0, 0, 1, 0, 0, 0, 5, 0, 0, 0, 9, 7]
      = some (.crash .tupleField) := by decide +kernel

/-- non-vacuity: the same frame with both cells present iterates two rows -/
example : iterate false 4 0 [0, 0, 0, 2, 0, 0, 0, 1, 0, 0, 0, 1, 0, 1, 107, 0, 1, 116, 0, 1, 99, 0, 9, 0, 0, 0, 2,
                             0, 0, 0, 1, 7, 255, 255, 255, 255] = some (.ok 2) := by decide +kernel

/-! ### MapScan / SliceMap destinations (Iter.RowData → helpers.go goType)

History: with /repo at 19ec182 this check found that a map type whose key is not comparable as a Go
type made `reflect.MapOf` panic in RowData / MapScan / SliceMap (KF-C05-14; the excluded shape was
syntactic: a map, where goType looks, keyed by blob, list, set, map, tuple or UDT — all legal as FROZEN
map keys in CQL). The guard is in /repo since commit c637d3e, and the FULL property now holds. -/

/-- FULL (current tree): RowData over the columns of ANY parsed ROWS frame never panics; the only
remaining hypothesis — no NativeType carrying a collection id — is a fact about what readTypeInfo builds
(`colNative`), not about the bytes. -/
theorem C05_rowdata_total (cols : List TI) (n : Nat) (h : ∀ c ∈ cols, colNative c = true) :
    (rowData cols n).isCrash = false :=
  C05Rows.rowData_safe true cols n (fun c hc => ⟨Or.inl rfl, h c hc⟩)

/-- the code before c637d3e, for the record: no panic outside the excluded shape … -/
theorem C05_rowdata_old_partial (cols : List TI) (n : Nat) (h : ∀ c ∈ cols, colOk c = true ∧ colNative c = true) :
    (rowDataG false cols n).isCrash = false :=
  C05Rows.rowData_safe false cols n (fun c hc => ⟨Or.inr (h c hc).1, (h c hc).2⟩)

/-- … and a panic on the legal column type map<frozen<list<int>>, int>, which is an error now -/
theorem C05_rowdata_map_key_list_fixed :
    newRowOld 4 0 [0, 0, 0, 2, 0, 0, 0, 1, 0, 0, 0, 1, 0, 1, 107, 0, 1, 116, 0, 1, 99, 0, 33, 0, 32, 0, 9, 0, 9, 0, 0, 0, 0] = some .crashMapOf ∧
    newRow false 4 0 [0, 0, 0, 2, 0, 0, 0, 1, 0, 0, 0, 1, 0, 1, 107, 0, 1, 116, 0, 1, 99, 0, 33, 0, 32, 0, 9, 0, 9, 0, 0, 0, 0] = some .err := by decide +kernel

/-- non-vacuity: map<int, list<int>> is fine -/
example : newRow false 4 0 [0, 0, 0, 2, 0, 0, 0, 1, 0, 0, 0, 1, 0, 1, 107, 0, 1, 116, 0, 1, 99, 0, 33, 0, 9, 0, 32, 0, 9, 0, 0, 0, 0] = some (.ok 1) := by decide +kernel

end rows

/-! ## 2. value decoders (marshal.go Unmarshal on arbitrary bytes)

Full statement, the known-bad predicate, closed-form site conditions and the counterexamples
(`C05Value.C05_cex_*`, all replayable op lines) are in Proofs/C05Value.lean. -/
section values
open CrashValue

/-- value decoders: every crash of `Unmarshal` (code as it is) is at one of the seven known sites -/
theorem C05_values_crash_sites (proto : Nat) (t : CT) (dst : Dest) (data : Option Bytes) (s : Site)
    (h : unmarshal false proto t dst data = .crash s) : C05Value.known s = true :=
  C05Value.C05_values_crash_sites proto t dst data s h

/-- value decoders: outside the decidable `knownBad` set no bytes crash `Unmarshal` -/
theorem C05_values_total_partial (proto : Nat) (t : CT) (dst : Dest) (data : Option Bytes)
    (h : C05Value.knownBad proto t dst data = false) : ∀ s, unmarshal false proto t dst data ≠ .crash s :=
  C05Value.C05_values_total_partial proto t dst data h

end values

/-! ## 5. response-kind dispatch (conn.go / control.go / events.go type switches)

Full statements, the excluded known-bad cells and the lifting lemmas are in Proofs/C05Dispatch.lean;
the table `Dispatch.dispatch` is compared cell by cell with the table re-extracted from the source
(go/ast) on every run, and every drivable cell is driven through a real Session in a subprocess. -/
section dispatch
open Dispatch

/-- ✱ partial: every (site, kind) cell outside `knownBad` does not crash. -/
theorem C05_dispatch_total_partial (s : Site) (k : FrameKind) (h : knownBad s k = false) :
    (dispatch false s k).isCrash = false := C05Dispatch.C05_dispatch_total_partial s k h
/-- exactness: the unchanged code crashes at a cell iff it is known-bad. -/
theorem C05_dispatch_crash_iff (s : Site) (k : FrameKind) :
    (dispatch false s k).isCrash = knownBad s k := C05Dispatch.C05_dispatch_crash_iff s k
/-- ✱ partial: no sequence of frames avoiding the known-bad cells crashes a site's loop. -/
theorem C05_stream_total_partial (s : Site) (fs : List FrameKind)
    (h : ∀ k ∈ fs, knownBad s k = false) : siteRun (dispatch false) s fs = none :=
  C05Dispatch.C05_stream_total_partial s fs h
theorem C05_stream_crash_iff (s : Site) (fs : List FrameKind) :
    siteRun (dispatch false) s fs ≠ none ↔ ∃ k ∈ fs, knownBad s k = true :=
  C05Dispatch.C05_stream_crash_iff s fs
/-- ✱ partial: no sequence of frames crashes the handshake unless the authenticator returns a nil
    next challenger. -/
theorem C05_handshake_total_partial (cfg : AuthCfg) (fs : List FrameKind) (h : cfg.nilAfter = none) :
    (hsRun (dispatch false) cfg .awaitSupported fs).isCrashed = false :=
  C05Dispatch.C05_handshake_total_partial cfg fs h
theorem C05_password_handshake_crash_iff (fs : List FrameKind) :
    (hsRun (dispatch false) passwordAuth .awaitSupported fs).isCrashed = true ↔
      [.supported, .authenticate, .authChallenge] <+: fs :=
  C05Dispatch.C05_password_handshake_crash_iff fs
/-- counterexamples (known findings KF-C05-disp-1..3) -/
theorem C05_cex_conn_heartbeat :
    dispatch false .connHeartBeat .ready = .crash .panicDefault ∧
    dispatch false .connHeartBeat .resultVoid = .crash .panicDefault := C05Dispatch.C05_cex_conn_heartbeat
theorem C05_cex_control_heartbeat :
    dispatch false .controlHeartBeat .ready = .crash .panicDefault ∧
    dispatch false .controlHeartBeat .resultVoid = .crash .panicDefault := C05Dispatch.C05_cex_control_heartbeat
theorem C05_cex_nil_challenger :
    dispatch false (.authHandshake true) .authChallenge = .crash .nilDeref := C05Dispatch.C05_cex_nil_challenger
theorem C05_cex_password_handshake :
    hsRun (dispatch false) passwordAuth .awaitSupported [.supported, .authenticate, .authChallenge]
      = .crashed .nilDeref ∧
    hsRun (dispatch false) passwordAuth .awaitSupported [.supported, .authenticate]
      = .authLoop 1 true := C05Dispatch.C05_cex_password_handshake
theorem C05_retry_depth_unbounded (n : Nat) :
    retryDepth false .executeQuery (List.replicate n .unprepared) = n ∧
    retryDepth false .executeBatch (List.replicate n .unprepared) = n :=
  C05Dispatch.C05_retry_depth_unbounded n

end dispatch

end C05
