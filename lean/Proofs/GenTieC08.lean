import Gen.Streams
import Model.Streams
/-!
  Tie theorems between the definitions REGENERATED from /repo/internal/streams/streams.go by tools/go2lean
  (`Gen.Streams`, Go `int` = BitVec 64 with signed `/` and `%`) and the hand-written `Nat` model the C08 theorems
  are about (`Streams`), for every non-negative `int` argument.
-/
namespace GenTie.C08

theorem bucketBits : Gen.Streams.bucketBits_int = 64 := rfl

private theorem msb_of_lt {j : Nat} (h : j < 2^63) : (BitVec.ofNat 64 j).msb = false := by
  rw [BitVec.msb_eq_decide]; simp; omega

/-- `bucketOffset(i) = i / bucketBits` -/
theorem bucketOffset (j : Nat) (h : j < 2^63) :
    (Gen.Streams.bucketOffset (BitVec.ofNat 64 j)).toNat = Streams.bucketOffset j := by
  unfold Gen.Streams.bucketOffset Streams.bucketOffset
  have h64 : (0x40#64).msb = false := by decide
  rw [BitVec.sdiv_eq, msb_of_lt h, h64]
  simp [BitVec.toNat_udiv]
  omega

/-- `streamOffset(stream) = bucketBits - uint64(stream%bucketBits) - 1` -/
theorem streamOffset (j : Nat) (h : j < 2^63) :
    (Gen.Streams.streamOffset (BitVec.ofNat 64 j)).toNat = Streams.streamOffset j := by
  unfold Gen.Streams.streamOffset Streams.streamOffset
  have h64 : (0x40#64).msb = false := by decide
  rw [BitVec.srem_eq, msb_of_lt h, h64]
  simp [BitVec.toNat_sub, BitVec.toNat_umod]
  omega

/-- `streamFromBucket(bucket, streamInBucket)` (no overflow below 2^57 buckets) -/
theorem streamFromBucket (b j : Nat) (hb : b < 2^50) (hj : j < 64) :
    (Gen.Streams.streamFromBucket (BitVec.ofNat 64 b) (BitVec.ofNat 64 j)).toNat = Streams.streamFromBucket b j := by
  unfold Gen.Streams.streamFromBucket Streams.streamFromBucket
  simp [BitVec.toNat_add, BitVec.toNat_mul]
  omega

/-- `isSet(bits, stream)`: bit `streamOffset(stream)` of the word -/
theorem isSet (w : BitVec 64) (j : Nat) (h : j < 2^63) :
    Gen.Streams.isSet w (BitVec.ofNat 64 j) = w.getLsbD (Streams.streamOffset j) := by
  unfold Gen.Streams.isSet
  rw [streamOffset j h]
  generalize Streams.streamOffset j = k
  rw [Bool.eq_iff_iff]
  simp only [beq_iff_eq]
  constructor
  · intro hh
    have := congrArg (fun v => v.getLsbD 0) hh
    simpa using this
  · intro hh
    apply BitVec.eq_of_getLsbD_eq
    intro i hi
    by_cases h0 : i = 0
    · subst h0; simpa using hh
    · simp [h0]

/-- `New`: 128 streams / 2 words for protocol ≤ 2, 32768 / 512 above -/
theorem newSizes (p : Nat) (h : p < 2^63) :
    (Gen.Streams.newSizes (BitVec.ofNat 64 p)).2.toNat = Streams.wordsOfProto p := by
  unfold Gen.Streams.newSizes Streams.wordsOfProto
  have : BitVec.slt 0x2#64 (BitVec.ofNat 64 p) = decide (p > 2) := by
    simp [BitVec.slt, BitVec.toInt_eq_toNat_cond]
    by_cases hp : p > 2 <;> simp [hp] <;> omega
  rw [this]
  by_cases hp : p > 2 <;> simp [hp] <;> decide

/-- `offset = (offset + 1) % s.numBuckets` in uint32 arithmetic -/
theorem nextOffset (n o : Nat) (hn : n < 2^32) (ho : o < 2^32) :
    (Gen.Streams.nextOffset (BitVec.ofNat 32 n) (BitVec.ofNat 32 o)).toNat = Streams.nextOffset n o := by
  unfold Gen.Streams.nextOffset Streams.nextOffset
  have h1 : n % 4294967296 = n := Nat.mod_eq_of_lt hn
  have h2 : o % 4294967296 = o := Nat.mod_eq_of_lt ho
  simp [BitVec.toNat_umod, BitVec.toNat_add, h1, h2]

/-- `pos := int((i + offset) % s.numBuckets)` after `offset = (offset + 1) % s.numBuckets`: the model's `scanPos32` -/
theorem scanPos (nb o i : UInt32) :
    Gen.Streams.scanPos nb.toBitVec (Gen.Streams.nextOffset nb.toBitVec o.toBitVec) i.toBitVec
      = (Streams.scanPos32 nb o i).toBitVec.setWidth 64 := rfl

/-- `mask := uint64(1 << streamOffset(j))` (GetStream) -/
theorem getMask (j : Nat) (h : j < 2^63) : Gen.Streams.getMask (BitVec.ofNat 64 j) = Streams.mask j := by
  unfold Gen.Streams.getMask Streams.mask
  rw [streamOffset j h]

/-- `mask := uint64(1) << streamOffset(stream)` (Clear) -/
theorem clearMask (j : Nat) (h : j < 2^63) : Gen.Streams.clearMask (BitVec.ofNat 64 j) = Streams.mask j := by
  unfold Gen.Streams.clearMask Streams.mask
  rw [streamOffset j h]

end GenTie.C08
