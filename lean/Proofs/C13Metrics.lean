import Model.Executor
/-! `queryMetrics` (Model/Executor.lean `QM`): the association-list implementation computes, for every history of
    attempts, exactly the documented numbers (`Executor.Spec.obsAt`, `Executor.Spec.avgLatency`). -/
namespace Executor

theorem hostAtt_bump (l : List HostM) (h lat h' : Nat) :
    hostAtt (bumpHost l h lat) h' = hostAtt l h' + (if h' = h then 1 else 0) := by
  induction l with
  | nil => by_cases e : h' = h <;> simp [bumpHost, hostAtt, e] ; intro g; exact absurd g.symm e
  | cons x xs ih =>
    by_cases hx : x.host = h
    · by_cases e : h' = h
      · subst e; simp [bumpHost, hostAtt, hx]
      · have : ¬ x.host = h' := by intro g; exact e (by rw [← g, hx])
        have e' : ¬ h = h' := fun g => e g.symm
        simp [bumpHost, hostAtt, hx, e, e']
    · by_cases e : x.host = h'
      · have : ¬ h' = h := by intro g; exact hx (by rw [e, g])
        simp [bumpHost, hostAtt, e, this]
      · simp [bumpHost, hostAtt, hx, e, ih]

theorem hostTot_bump (l : List HostM) (h lat h' : Nat) :
    hostTot (bumpHost l h lat) h' = hostTot l h' + (if h' = h then lat else 0) := by
  induction l with
  | nil => by_cases e : h' = h <;> simp [bumpHost, hostTot, e] ; intro g; exact absurd g.symm e
  | cons x xs ih =>
    by_cases hx : x.host = h
    · by_cases e : h' = h
      · subst e; simp [bumpHost, hostTot, hx]
      · have e' : ¬ h = h' := fun g => e g.symm
        simp [bumpHost, hostTot, hx, e, e']
    · by_cases e : x.host = h'
      · have : ¬ h' = h := by intro g; exact hx (by rw [e, g])
        simp [bumpHost, hostTot, e, this]
      · simp [bumpHost, hostTot, hx, e, ih]

theorem sumAtt_bump (l : List HostM) (h lat : Nat) :
    ((bumpHost l h lat).map (·.attempts)).sum = (l.map (·.attempts)).sum + 1 := by
  induction l with
  | nil => simp [bumpHost]
  | cons x xs ih =>
    by_cases hx : x.host = h
    · simp [bumpHost, hx]; omega
    · simp [bumpHost, hx, ih]; omega

theorem sumTot_bump (l : List HostM) (h lat : Nat) :
    ((bumpHost l h lat).map (·.total)).sum = (l.map (·.total)).sum + lat := by
  induction l with
  | nil => simp [bumpHost]
  | cons x xs ih =>
    by_cases hx : x.host = h
    · simp [bumpHost, hx]; omega
    · simp [bumpHost, hx, ih]; omega

/-- the metrics are those of the history `pre` -/
structure MInv (pre : List (Nat × Nat)) (q : QM) : Prop where
  total : q.totalAttempts = pre.length
  att : ∀ h, hostAtt q.m h = (pre.filter (·.1 == h)).length
  tot : ∀ h, hostTot q.m h = ((pre.filter (·.1 == h)).map (·.2)).sum
  sumA : (q.m.map (·.attempts)).sum = pre.length
  sumT : (q.m.map (·.total)).sum = (pre.map (·.2)).sum

theorem minv_attempt (pre : List (Nat × Nat)) (q : QM) (h lat : Nat) (hi : MInv pre q) :
    MInv (pre ++ [(h, lat)]) (q.attempt h lat).1 := by
  refine ⟨by simp [QM.attempt, hi.total], ?_, ?_, ?_, ?_⟩
  · intro h'
    simp only [QM.attempt, hostAtt_bump, hi.att, List.filter_append, List.length_append]
    by_cases e : h' = h
    · subst e; simp
    · have : ¬ h = h' := fun g => e g.symm
      simp [e, this]
  · intro h'
    simp only [QM.attempt, hostTot_bump, hi.tot, List.filter_append, List.map_append, List.sum_append]
    by_cases e : h' = h
    · subst e; simp
    · have : ¬ h = h' := fun g => e g.symm
      simp [e, this]
  · simp [QM.attempt, sumAtt_bump, hi.sumA]
  · simp [QM.attempt, sumTot_bump, hi.sumT]

theorem obsAt_mid (pre rest : List (Nat × Nat)) (h lat : Nat) :
    Spec.obsAt (pre ++ (h, lat) :: rest) pre.length =
      ⟨pre.length, ((pre ++ [(h, lat)]).filter (·.1 == h)).length, (((pre ++ [(h, lat)]).filter (·.1 == h)).map (·.2)).sum⟩ := by
  have ht : (pre ++ (h, lat) :: rest).take (pre.length + 1) = pre ++ [(h, lat)] := by
    rw [List.take_append]
    simp [List.take_of_length_le]
  have hg : (pre ++ (h, lat) :: rest).getD pre.length (0, 0) = (h, lat) := by
    simp [List.getD_eq_getElem?_getD]
  simp only [Spec.obsAt, ht, hg]

theorem run_spec : ∀ (rest pre : List (Nat × Nat)) (q : QM), MInv pre q →
    MInv (pre ++ rest) (q.run rest).1 ∧
    (q.run rest).2 = (List.range rest.length).map (fun j => Spec.obsAt (pre ++ rest) (pre.length + j))
  | [], pre, q, hi => by simp [QM.run, hi]
  | (h, lat) :: rest, pre, q, hi => by
    have h1 := minv_attempt pre q h lat hi
    have ih := run_spec rest (pre ++ [(h, lat)]) (q.attempt h lat).1 h1
    have happ : pre ++ [(h, lat)] ++ rest = pre ++ (h, lat) :: rest := by simp
    rw [happ] at ih
    refine ⟨ih.1, ?_⟩
    simp only [QM.run]
    rw [ih.2]
    simp only [List.length_cons, List.range_succ_eq_map, List.map_cons, List.map_map, Nat.add_zero]
    congr 1
    · -- the record of this attempt
      rw [obsAt_mid]
      have := h1.att h
      have := h1.tot h
      simp only [QM.attempt] at *
      simp [hi.total, *]
    · apply List.map_congr_left
      intro j _
      simp [List.length_append, Nat.add_assoc, Nat.add_comm 1 j]

theorem latency_spec (pre : List (Nat × Nat)) (q : QM) (hi : MInv pre q) : q.latency = Spec.avgLatency pre := by
  simp [QM.latency, Spec.avgLatency, hi.sumA, hi.sumT]

end Executor
