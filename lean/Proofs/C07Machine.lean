import Model.Writer
namespace Writer

/-- the inductive invariant of the writer machine -/
structure Inv (lens : Nat → Nat) (s : St) : Prop where
  bound : ∀ c ∈ s.wire, 0 < c.n ∧ c.n ≤ c.len ∧ c.len = lens c.id
  nodup : (s.wire.map (·.id)).Nodup
  /-- a writer that has not written yet has no bytes on the wire -/
  fresh : ∀ w, (s.pc w = .idle ∨ s.pc w = .queued ∨ s.pc w = .cancelled) → ∀ c ∈ s.wire, c.id ≠ w
  /-- success is reported only for a whole frame that is on the wire -/
  okWhole : ∀ w n, (s.pc w = .wrote n true ∨ s.pc w = .done true) → 0 < lens w → ⟨w, lens w, lens w⟩ ∈ s.wire
  /-- an incomplete frame on the wire: its writer got an error and is on its way to closeWithError,
      or the connection is closed -/
  torn : ∀ c ∈ s.wire, c.n < c.len → s.closed = true ∨ s.pc c.id = .wrote c.n false ∨ s.pc c.id = .failing

theorem inv_init (lens : Nat → Nat) : Inv lens init := by
  constructor <;> simp [init]

theorem setPc_same (pc : Nat → Pc) (w : Nat) (v : Pc) : setPc pc w v w = v := by simp [setPc]
theorem setPc_other (pc : Nat → Pc) (w x : Nat) (v : Pc) (h : x ≠ w) : setPc pc w v x = pc x := by simp [setPc, h]

theorem inv_step (lens : Nat → Nat) (s s' : St) (a : Act) (h : Inv lens s) (hs : step lens s a = some s') :
    Inv lens s' := by
  cases a with
  | submit w cdf =>
    simp only [step] at hs
    split at hs
    · rename_i hidle
      injection hs with hs; subst hs
      constructor
      · exact h.bound
      · exact h.nodup
      · intro x hx c hc
        by_cases hxw : x = w
        · subst hxw; exact h.fresh x (Or.inl hidle) c hc
        · simp only [setPc_other _ _ _ _ hxw] at hx; exact h.fresh x hx c hc
      · intro x n hx hpos
        by_cases hxw : x = w
        · subst hxw; simp only [setPc_same] at hx; cases cdf <;> simp at hx
        · simp only [setPc_other _ _ _ _ hxw] at hx; exact h.okWhole x n hx hpos
      · intro c hc hlt
        have hcw : c.id ≠ w := h.fresh w (Or.inl hidle) c hc
        simp only [setPc_other _ _ _ _ hcw]
        exact h.torn c hc hlt
    · simp at hs
  | write w k =>
    simp only [step] at hs
    split at hs
    · rename_i hcond
      obtain ⟨hq, hk, hcl⟩ := hcond
      injection hs with hs; subst hs
      have hfresh := h.fresh w (Or.inr (Or.inl hq))
      by_cases hk0 : k = 0
      · subst hk0
        simp only [if_true]
        constructor
        · exact h.bound
        · exact h.nodup
        · intro x hx c hc
          by_cases hxw : x = w
          · subst hxw; exact hfresh c hc
          · simp only [setPc_other _ _ _ _ hxw] at hx; exact h.fresh x hx c hc
        · intro x n hx hpos
          by_cases hxw : x = w
          · subst hxw
            simp only [setPc_same] at hx
            rcases hx with hx | hx
            · simp at hx; omega
            · simp at hx
          · simp only [setPc_other _ _ _ _ hxw] at hx; exact h.okWhole x n hx hpos
        · intro c hc hlt
          have hcw : c.id ≠ w := hfresh c hc
          simp only [setPc_other _ _ _ _ hcw]
          exact h.torn c hc hlt
      · simp only [hk0, if_false]
        have hclosed : s.closed = false := by
          cases hc : s.closed with
          | false => rfl
          | true => exact absurd (hcl hc) hk0
        constructor
        · intro c hc
          simp only [List.mem_append, List.mem_singleton] at hc
          rcases hc with hc | hc
          · exact h.bound c hc
          · subst hc; exact ⟨Nat.pos_of_ne_zero hk0, hk, rfl⟩
        · simp only [List.map_append, List.map_cons, List.map_nil]
          rw [List.nodup_append]
          refine ⟨h.nodup, by simp, ?_⟩
          intro a ha b hb
          simp only [List.mem_singleton] at hb
          subst hb
          simp only [List.mem_map] at ha
          obtain ⟨c, hc, hca⟩ := ha
          intro heq
          exact hfresh c hc (by rw [hca, heq])
        · intro x hx c hc
          by_cases hxw : x = w
          · subst hxw; simp only [setPc_same] at hx; simp at hx
          · simp only [setPc_other _ _ _ _ hxw] at hx
            simp only [List.mem_append, List.mem_singleton] at hc
            rcases hc with hc | hc
            · exact h.fresh x hx c hc
            · subst hc; exact fun e => hxw e.symm
        · intro x n hx hpos
          by_cases hxw : x = w
          · subst hxw
            simp only [setPc_same] at hx
            rcases hx with hx | hx
            · injection hx with h1 h2
              have : k = lens x := by simpa using h2
              subst this
              simp
            · simp at hx
          · simp only [setPc_other _ _ _ _ hxw] at hx
            have := h.okWhole x n hx hpos
            simp [this]
        · intro c hc hlt
          simp only [List.mem_append, List.mem_singleton] at hc
          rcases hc with hc | hc
          · have hcw : c.id ≠ w := hfresh c hc
            simp only [setPc_other _ _ _ _ hcw]
            exact h.torn c hc hlt
          · subst hc
            simp only [setPc_same]
            right; left
            have : ¬ k = lens w := by simp at hlt; omega
            simp [this]
    · simp at hs
  | ret w =>
    simp only [step] at hs
    split at hs
    · rename_i n hw
      injection hs with hs; subst hs
      constructor
      · exact h.bound
      · exact h.nodup
      · intro x hx c hc
        by_cases hxw : x = w
        · subst hxw; simp only [setPc_same] at hx; simp at hx
        · simp only [setPc_other _ _ _ _ hxw] at hx; exact h.fresh x hx c hc
      · intro x m hx hpos
        by_cases hxw : x = w
        · subst hxw; exact h.okWhole x n (Or.inl hw) hpos
        · simp only [setPc_other _ _ _ _ hxw] at hx; exact h.okWhole x m hx hpos
      · intro c hc hlt
        by_cases hcw : c.id = w
        · have := h.torn c hc hlt
          rw [hcw, hw] at this
          rcases this with t | t | t
          · exact Or.inl t
          · simp at t
          · simp at t
        · simp only [setPc_other _ _ _ _ hcw]; exact h.torn c hc hlt
    · rename_i n hw
      injection hs with hs; subst hs
      constructor
      · exact h.bound
      · exact h.nodup
      · intro x hx c hc
        by_cases hxw : x = w
        · subst hxw; simp only [setPc_same] at hx; simp at hx
        · simp only [setPc_other _ _ _ _ hxw] at hx; exact h.fresh x hx c hc
      · intro x m hx hpos
        by_cases hxw : x = w
        · subst hxw; simp only [setPc_same] at hx; simp at hx
        · simp only [setPc_other _ _ _ _ hxw] at hx; exact h.okWhole x m hx hpos
      · intro c hc hlt
        by_cases hcw : c.id = w
        · rw [hcw]; simp [setPc_same]
        · simp only [setPc_other _ _ _ _ hcw]; exact h.torn c hc hlt
    · simp at hs
  | close w =>
    simp only [step] at hs
    split at hs
    · rename_i hf
      injection hs with hs; subst hs
      constructor
      · exact h.bound
      · exact h.nodup
      · intro x hx c hc
        by_cases hxw : x = w
        · subst hxw; simp only [setPc_same] at hx; simp at hx
        · simp only [setPc_other _ _ _ _ hxw] at hx; exact h.fresh x hx c hc
      · intro x m hx hpos
        by_cases hxw : x = w
        · subst hxw; simp only [setPc_same] at hx; simp at hx
        · simp only [setPc_other _ _ _ _ hxw] at hx; exact h.okWhole x m hx hpos
      · intro c hc hlt; exact Or.inl rfl
    · simp at hs

/-- every reachable state satisfies the invariant (all schedules, any number of writers) -/
theorem inv_run (lens : Nat → Nat) : ∀ (as : List Act) (s s' : St), Inv lens s → run lens s as = some s' → Inv lens s'
  | [], s, s', h, hr => by simp [run] at hr; subst hr; exact h
  | a :: as, s, s', h, hr => by
    simp only [run] at hr
    split at hr
    · rename_i s1 hs1
      exact inv_run lens as s1 s' (inv_step lens s s1 a h hs1) hr
    · simp at hr

/-- progress: a writer whose write was cut can always take its next step (nothing can block it) -/
theorem torn_writer_can_close (lens : Nat → Nat) (s : St) (w n : Nat) (h : s.pc w = .wrote n false) :
    ∃ s1 s2, step lens s (.ret w) = some s1 ∧ step lens s1 (.close w) = some s2 ∧ s2.closed = true := by
  refine ⟨{ s with pc := setPc s.pc w .failing },
    { s with pc := setPc (setPc s.pc w .failing) w (.done false), closed := true }, ?_, ?_, rfl⟩
  · simp only [step, h]
  · simp only [step, setPc_same, if_true]

end Writer
