import Model.Writer
namespace Writer

/-! ## facts about `glue` (every wire) -/

theorem glue_snoc (wire : List Piece) (p : Piece) : glue (wire ++ [p]) = addPiece (glue wire) p := by
  simp [glue, List.foldl_append]

theorem range_bytes_append (id a n m : Nat) :
    ((List.range n).map fun i => (id, a + i)) ++ ((List.range m).map fun i => (id, a + n + i)) =
    (List.range (n + m)).map fun i => (id, a + i) := by
  rw [List.range_add, List.map_append, List.map_map]
  congr 1
  apply List.map_congr_left
  intro i _
  simp [Nat.add_assoc]

theorem addPiece_bytes (cs : List Chunk) (p : Piece) :
    (addPiece cs p).reverse.flatMap Chunk.bytes = cs.reverse.flatMap Chunk.bytes ++ p.bytes := by
  cases cs with
  | nil => simp [addPiece, Chunk.bytes, Piece.bytes]
  | cons c cs =>
    simp only [addPiece]
    split
    · rename_i hc
      obtain ⟨hid, hoff⟩ := hc
      simp only [List.reverse_cons, List.flatMap_append, List.flatMap_cons, List.flatMap_nil, List.append_nil,
        List.append_assoc]
      congr 1
      simp only [Chunk.bytes, Piece.bytes, ← hid, ← hoff]
      exact (range_bytes_append c.id c.start c.n p.n).symm
    · simp [Chunk.bytes, Piece.bytes]

theorem foldl_addPiece_bytes (wire : List Piece) : ∀ (acc : List Chunk),
    (wire.foldl addPiece acc).reverse.flatMap Chunk.bytes = acc.reverse.flatMap Chunk.bytes ++ wire.flatMap Piece.bytes := by
  induction wire with
  | nil => intro acc; simp
  | cons p wire ih =>
    intro acc
    rw [List.foldl_cons, ih, addPiece_bytes]
    simp [List.append_assoc]

/-- `glue` does not change the byte stream: the bytes of the chunks (oldest first) are the bytes of the pieces -/
theorem glue_bytes (wire : List Piece) :
    (glue wire).reverse.flatMap Chunk.bytes = wire.flatMap Piece.bytes := by
  simpa [glue] using foldl_addPiece_bytes wire []

/-! ## the inductive invariant -/

/-- accounting: the chunks on the wire are exactly the frame prefixes the control states say were sent -/
structure Acct (lens : Nat → Nat) (wire : List Piece) (pc : Nat → Pc) : Prop where
  acct : ∀ c ∈ glue wire, c.start = 0 ∧ 0 < c.n ∧ c.n = (pc c.id).sent
  pres : ∀ w, 0 < (pc w).sent → ∃ c ∈ glue wire, c.id = w
  nodup : ((glue wire).map (·.id)).Nodup
  bound : ∀ w, (pc w).sent ≤ lens w

theorem Acct.congr {lens : Nat → Nat} {wire : List Piece} {pc pc' : Nat → Pc} (h : Acct lens wire pc)
    (hs : ∀ x, (pc' x).sent = (pc x).sent) : Acct lens wire pc' :=
  ⟨fun c hc => by rw [hs]; exact h.acct c hc, fun w hw => h.pres w (by rw [← hs]; exact hw), h.nodup,
   fun w => by rw [hs]; exact h.bound w⟩

structure Inv (cfg : Cfg) (s : St) : Prop where
  acc : Acct cfg.lens s.wire s.pc
  /-- mutual exclusion: whoever is inside the socket Write holds the semaphore / is the flusher's buffer -/
  mutex : ∀ w off, s.pc w = .inWrite off → s.owner = some w
  /-- the frame being written is the LAST thing on the wire -/
  head : ∀ w off, s.pc w = .inWrite off → 0 < off → (glue s.wire).head? = some ⟨w, 0, off⟩
  okFull : ∀ w n, (s.pc w = .wrote n true ∨ s.pc w = .done n true) → n = cfg.lens w
  failedClosing : ∀ w n, s.pc w = .done n false → 0 < n → s.closing = true
  closerEx : s.closing = true → s.closed = true ∨ s.ext = true ∨ ∃ w n, s.pc w = .closer n
  closedClosing : s.closed = true → s.closing = true
  closerClosing : ∀ w n, s.pc w = .closer n → s.closing = true
  todoQ : ∀ w ∈ s.todo, s.pc w = .queued
  queueQ : ∀ w ∈ s.queue, s.pc w = .queued
  disj : ∀ w ∈ s.queue, w ∉ s.todo

theorem setPc_same (pc : Nat → Pc) (w : Nat) (v : Pc) : setPc pc w v w = v := by simp [setPc]
theorem setPc_other (pc : Nat → Pc) (w x : Nat) (v : Pc) (h : x ≠ w) : setPc pc w v x = pc x := by simp [setPc, h]

theorem sent_setPc (pc : Nat → Pc) (w : Nat) (v : Pc) (h : v.sent = (pc w).sent) (x : Nat) :
    (setPc pc w v x).sent = (pc x).sent := by
  by_cases hx : x = w
  · subst hx; rw [setPc_same, h]
  · rw [setPc_other _ _ _ _ hx]

theorem setMany_mem (pc : Nat → Pc) (ws : List Nat) (v : Pc) (x : Nat) (h : x ∈ ws) : setMany pc ws v x = v := by
  simp [setMany, h]
theorem setMany_not_mem (pc : Nat → Pc) (ws : List Nat) (v : Pc) (x : Nat) (h : x ∉ ws) : setMany pc ws v x = pc x := by
  simp [setMany, h]

theorem closerEx_mono {pc pc' : Nat → Pc} {closing closed ext : Bool}
    (hpres : ∀ x n, pc x = .closer n → pc' x = .closer n)
    (hce : closing = true → closed = true ∨ ext = true ∨ ∃ w n, pc w = .closer n) :
    closing = true → closed = true ∨ ext = true ∨ ∃ w n, pc' w = .closer n := by
  intro hc
  rcases hce hc with h | h | ⟨w, n, h⟩
  · exact Or.inl h
  · exact Or.inr (Or.inl h)
  · exact Or.inr (Or.inr ⟨w, n, hpres w n h⟩)

theorem inv_init (cfg : Cfg) : Inv cfg init := by
  constructor
  · constructor <;> simp [init, glue, Pc.sent]
  all_goals simp [init]

theorem glue_piece (cfg : Cfg) (s : St) (h : Inv cfg s) (w off k : Nat) (hw : s.pc w = .inWrite off) :
    ∃ rest, glue (s.wire ++ [⟨w, off, k⟩]) = ⟨w, 0, off + k⟩ :: rest ∧
      (∀ c ∈ rest, c ∈ glue s.wire ∧ c.id ≠ w) ∧ (∀ c ∈ glue s.wire, c.id ≠ w → c ∈ rest) ∧
      (rest.map (·.id)).Nodup := by
  rw [glue_snoc]
  by_cases hoff : off = 0
  · subst hoff
    have hno : ∀ c ∈ glue s.wire, c.id ≠ w := by
      intro c hc hid
      have := h.acc.acct c hc
      rw [hid, hw] at this
      simp [Pc.sent] at this
      omega
    refine ⟨glue s.wire, ?_, fun c hc => ⟨hc, hno c hc⟩, fun c hc _ => hc, h.acc.nodup⟩
    cases hg : glue s.wire with
    | nil => simp [addPiece]
    | cons c cs =>
      have : c.id ≠ w := hno c (by rw [hg]; simp)
      simp [addPiece, this]
  · have hhead := h.head w off hw (Nat.pos_of_ne_zero hoff)
    cases hg : glue s.wire with
    | nil => rw [hg] at hhead; simp at hhead
    | cons c cs =>
      rw [hg] at hhead
      simp only [List.head?_cons, Option.some.injEq] at hhead
      subst hhead
      have hnd := h.acc.nodup
      rw [hg] at hnd
      simp only [List.map_cons, List.nodup_cons, List.mem_map, not_exists, not_and] at hnd
      refine ⟨cs, by simp [addPiece], ?_, ?_, hnd.2⟩
      · intro c hc
        exact ⟨by simp [hc], fun hid => hnd.1 c hc hid⟩
      · intro c hc hid
        simp only [List.mem_cons] at hc
        rcases hc with hc | hc
        · subst hc; simp at hid
        · exact hc


theorem inv_step_piece (cfg : Cfg) (s s' : St) (w k : Nat) (h : Inv cfg s)
    (hs : step cfg s (.piece w k) = some s') : Inv cfg s' := by
  simp only [step] at hs
  split at hs
  · rename_i off hw
    split at hs
    · rename_i hg
      obtain ⟨hk, hle, hcl⟩ := hg
      injection hs with hs; subst hs
      obtain ⟨rest, hglue, hrest, hkeep, hnd⟩ := glue_piece cfg s h w off k hw
      obtain ⟨hacc, hmutex, hhead, hok, hfc, hce, hcc, hrc, htq, hqq, hdisj⟩ := h
      have hown := hmutex w off hw
      refine ⟨⟨?_, ?_, ?_, ?_⟩, ?_, ?_, ?_, ?_, closerEx_mono (by grind [setPc, setMany]) hce, ?_, ?_, ?_, ?_, hdisj⟩
      · intro c hc
        dsimp only at hc ⊢
        simp only [hglue, List.mem_cons] at hc
        rcases hc with hc | hc
        · subst hc; simp [setPc_same, Pc.sent]; omega
        · have := hrest c hc
          rw [setPc_other _ _ _ _ this.2]
          exact hacc.acct c this.1
      · intro x hx
        dsimp only at hx ⊢
        simp only [hglue]
        by_cases hxw : x = w
        · subst hxw; exact ⟨⟨x, 0, off + k⟩, by simp, rfl⟩
        · rw [setPc_other _ _ _ _ hxw] at hx
          obtain ⟨c, hc, hid⟩ := hacc.pres x hx
          exact ⟨c, by simp [hkeep c hc (by rw [hid]; exact hxw)], hid⟩
      · dsimp only
        simp only [hglue, List.map_cons, List.nodup_cons, List.mem_map, not_exists, not_and]
        exact ⟨fun c hc hid => (hrest c hc).2 hid, hnd⟩
      · intro x
        dsimp only
        by_cases hxw : x = w
        · subst hxw; simp [setPc_same, Pc.sent]; omega
        · rw [setPc_other _ _ _ _ hxw]; exact hacc.bound x
      all_goals grind [setPc]
    · simp at hs
  · simp at hs

theorem inv_step_nopiece (cfg : Cfg) (hser : cfg.serialised = true) (s s' : St) (a : Act) (h : Inv cfg s)
    (hnp : ∀ w k, a ≠ .piece w k)
    (hs : step cfg s a = some s') : Inv cfg s' := by
  obtain ⟨hacc, hmutex, hhead, hok, hfc, hce, hcc, hrc, htq, hqq, hdisj⟩ := h
  cases a with
  | submit w =>
    simp only [step] at hs
    split at hs
    · rename_i hidle
      injection hs with hs; subst hs
      refine ⟨hacc.congr (sent_setPc _ _ _ (by simp [hidle, Pc.sent])), ?_, ?_, ?_, ?_, closerEx_mono (by grind [setPc, setMany]) hce, ?_, ?_, ?_, ?_, hdisj⟩
      all_goals grind [setPc]
    · simp at hs
  | cancel w =>
    simp only [step] at hs
    split at hs
    · rename_i hidle
      injection hs with hs; subst hs
      refine ⟨hacc.congr (sent_setPc _ _ _ (by simp [hidle, Pc.sent])), ?_, ?_, ?_, ?_, closerEx_mono (by grind [setPc, setMany]) hce, ?_, ?_, ?_, ?_, hdisj⟩
      all_goals grind [setPc]
    · simp at hs
  | enqueue w =>
    simp only [step] at hs
    split at hs
    · rename_i hg
      obtain ⟨hc, hw, hf⟩ := hg
      injection hs with hs; subst hs
      refine ⟨hacc.congr (sent_setPc _ _ _ (by simp [hw, Pc.sent])), ?_, ?_, ?_, ?_, closerEx_mono (by grind [setPc, setMany]) hce, ?_, ?_, ?_, ?_, ?_⟩
      all_goals grind [setPc]
    · simp at hs
  | tick =>
    simp only [step] at hs
    split at hs
    · injection hs with hs; subst hs
      refine ⟨hacc, hmutex, hhead, hok, hfc, hce, hcc, hrc, ?_, ?_, ?_⟩
      all_goals grind
    · simp at hs
  | enter w =>
    simp only [step] at hs
    split at hs
    · rename_i hg
      obtain ⟨hown, hw⟩ := hg
      have hown := hown hser
      injection hs with hs; subst hs
      have hsent : (Pc.inWrite 0).sent = (s.pc w).sent := by
        rcases hw with ⟨_, hw⟩ | ⟨_, hw, _⟩ <;> simp [hw, Pc.sent]
      refine ⟨hacc.congr (sent_setPc _ _ _ hsent), ?_, ?_, ?_, ?_, closerEx_mono (by grind [setPc, setMany]) hce, ?_, ?_, ?_, ?_, ?_⟩
      all_goals grind [setPc]
    · simp at hs
  | piece w k => exact absurd rfl (hnp w k)
  | endWrite w ok =>
    simp only [step] at hs
    split at hs
    · rename_i off hw
      split at hs
      · rename_i hg
        injection hs with hs; subst hs
        have hsent : ∀ x, (setPc (if (cfg.coalesce && !ok) = true then setMany s.pc s.todo (.wrote 0 false) else s.pc) w
            (.wrote off (ok || (cfg.coalesce && off == cfg.lens w))) x).sent = (s.pc x).sent := by
          intro x
          by_cases hx : x = w
          · subst hx; simp [setPc_same, hw, Pc.sent]
          · rw [setPc_other _ _ _ _ hx]
            split
            · by_cases hm : x ∈ s.todo
              · rw [setMany_mem _ _ _ _ hm, htq x hm]; rfl
              · rw [setMany_not_mem _ _ _ _ hm]
            · rfl
        refine ⟨hacc.congr hsent, ?_, ?_, ?_, ?_, closerEx_mono (by grind [setPc, setMany]) hce, ?_, ?_, ?_, ?_, ?_⟩
        all_goals grind [setPc, setMany]
      · simp at hs
    · simp at hs
  | quit w =>
    simp only [step] at hs
    split at hs
    · rename_i hg
      injection hs with hs; subst hs
      have hsent : (Pc.wrote 0 false).sent = (s.pc w).sent := by
        rcases hg with ⟨_, hw⟩ | ⟨_, hw, _⟩ <;> simp [hw, Pc.sent]
      refine ⟨hacc.congr (sent_setPc _ _ _ hsent), ?_, ?_, ?_, ?_, closerEx_mono (by grind [setPc, setMany]) hce, ?_, ?_, ?_, ?_, ?_⟩
      all_goals grind [setPc]
    · simp at hs
  | ret w =>
    simp only [step] at hs
    split at hs
    · rename_i hw
      injection hs with hs; subst hs
      refine ⟨hacc.congr (sent_setPc _ _ _ (by simp [hw, Pc.sent])), ?_, ?_, ?_, ?_, closerEx_mono (by grind [setPc, setMany]) hce, ?_, ?_, ?_, ?_, hdisj⟩
      all_goals grind [setPc]
    · rename_i n hw
      injection hs with hs; subst hs
      refine ⟨hacc.congr (sent_setPc _ _ _ (by simp [hw, Pc.sent])), ?_, ?_, ?_, ?_, closerEx_mono (by grind [setPc, setMany]) hce, ?_, ?_, ?_, ?_, hdisj⟩
      all_goals grind [setPc]
    · rename_i n hw
      injection hs with hs; subst hs
      refine ⟨hacc.congr (sent_setPc _ _ _ (by simp [hw, Pc.sent])), ?_, ?_, ?_, ?_, closerEx_mono (by grind [setPc, setMany]) hce, ?_, ?_, ?_, ?_, hdisj⟩
      all_goals grind [setPc]
    · simp at hs
  | close w =>
    simp only [step] at hs
    split at hs
    · rename_i n hw
      injection hs with hs; subst hs
      have hsent : (if s.closing = true then Pc.done n false else Pc.closer n).sent = (s.pc w).sent := by
        split <;> simp [hw, Pc.sent]
      refine ⟨hacc.congr (sent_setPc _ _ _ hsent), ?_, ?_, ?_, ?_, ?ce, ?_, ?_, ?_, ?_, hdisj⟩
      case ce =>
        intro _
        by_cases hc : s.closing = true
        · rcases hce hc with h | h | ⟨w1, n1, h1⟩
          · exact Or.inl h
          · exact Or.inr (Or.inl h)
          · refine Or.inr (Or.inr ⟨w1, n1, ?_⟩)
            have : w1 ≠ w := by intro e; rw [e, hw] at h1; cases h1
            simp only [setPc_other _ _ _ _ this, h1]
        · exact Or.inr (Or.inr ⟨w, n, by simp [setPc_same, hc]⟩)
      all_goals grind [setPc]
    · simp at hs
  | closeFinish w =>
    simp only [step] at hs
    split at hs
    · rename_i n hw
      split at hs
      · injection hs with hs; subst hs
        refine ⟨hacc.congr (sent_setPc _ _ _ (by simp [hw, Pc.sent])), ?_, ?_, ?_, ?_, ?_, ?_, ?_, ?_, ?_, hdisj⟩
        all_goals grind [setPc]
      · simp at hs
    · simp at hs
  | shutdown =>
    simp only [step] at hs
    injection hs with hs; subst hs
    exact ⟨hacc, hmutex, hhead, hok, fun _ _ _ _ => rfl, fun _ => Or.inl rfl, fun _ => rfl, fun _ _ _ => rfl, htq, hqq, hdisj⟩
  | cancelCtx w =>
    simp only [step] at hs
    split at hs
    · injection hs with hs; subst hs
      exact ⟨hacc, hmutex, hhead, hok, hfc, hce, hcc, hrc, htq, hqq, hdisj⟩
    · simp at hs
  | shutQuit =>
    simp only [step] at hs
    split at hs
    · injection hs with hs; subst hs
      exact ⟨hacc, hmutex, hhead, hok, fun _ _ _ _ => rfl, fun _ => Or.inr (Or.inl rfl), fun _ => rfl, fun _ _ _ => rfl, htq, hqq, hdisj⟩
    · simp at hs
  | flusherQuit =>
    simp only [step] at hs
    split at hs
    · split at hs
      · injection hs with hs; subst hs
        refine ⟨hacc, hmutex, hhead, hok, hfc, hce, hcc, hrc, ?_, ?_, ?_⟩
        all_goals grind
      · injection hs with hs; subst hs
        exact ⟨hacc, hmutex, hhead, hok, hfc, hce, hcc, hrc, htq, hqq, hdisj⟩
    · simp at hs

/-- the invariant is preserved by every action of the serialised machine -/
theorem inv_step (cfg : Cfg) (hser : cfg.serialised = true) (s s' : St) (a : Act) (h : Inv cfg s)
    (hs : step cfg s a = some s') : Inv cfg s' := by
  by_cases hp : ∃ w k, a = .piece w k
  · obtain ⟨w, k, rfl⟩ := hp
    exact inv_step_piece cfg s s' w k h hs
  · exact inv_step_nopiece cfg hser s s' a h (fun w k e => hp ⟨w, k, e⟩) hs

/-- every reachable state satisfies the invariant (all schedules, any number of writers) -/
theorem inv_run (cfg : Cfg) (hser : cfg.serialised = true) :
    ∀ (as : List Act) (s s' : St), Inv cfg s → run cfg s as = some s' → Inv cfg s'
  | [], s, s', h, hr => by simp [run] at hr; subst hr; exact h
  | a :: as, s, s', h, hr => by
    simp only [run] at hr
    split at hr
    · rename_i s1 hs1
      exact inv_run cfg hser as s1 s' (inv_step cfg hser s s1 a h hs1) hr
    · simp at hr

/-- progress: a writer whose write was cut can always take its next steps (nothing in the model blocks it), after
    which the connection is closing; and whoever is the closer can finish, after which the socket is closed -/
theorem torn_writer_can_close (cfg : Cfg) (s : St) (w n : Nat) (h : s.pc w = .wrote n false) :
    ∃ s1 s2, step cfg s (.ret w) = some s1 ∧ step cfg s1 (.close w) = some s2 ∧ s2.closing = true := by
  refine ⟨{ s with pc := setPc s.pc w (.failing n) },
    { s with pc := setPc (setPc s.pc w (.failing n)) w (if s.closing then .done n false else .closer n), closing := true },
    ?_, ?_, rfl⟩
  · simp only [step, h]
  · simp only [step, setPc_same]

theorem closer_can_finish (cfg : Cfg) (s : St) (w n : Nat) (h : s.pc w = .closer n) :
    ∃ s1, run cfg s [.cancelCtx w, .closeFinish w] = some s1 ∧ s1.closed = true :=
  ⟨{ s with quit := true, pc := setPc s.pc w (.done n false), closed := true }, by simp [run, step, h], rfl⟩

/-- every piece on the wire belongs to some chunk of the same frame -/
theorem foldl_addPiece_ids (wire : List Piece) : ∀ (acc : List Chunk),
    (∀ c ∈ acc, ∃ c' ∈ wire.foldl addPiece acc, c'.id = c.id) ∧
    (∀ p ∈ wire, ∃ c' ∈ wire.foldl addPiece acc, c'.id = p.id) := by
  induction wire with
  | nil => intro acc; exact ⟨fun c hc => ⟨c, hc, rfl⟩, by simp⟩
  | cons q wire ih =>
    intro acc
    have hstep : (∀ c ∈ acc, ∃ c' ∈ addPiece acc q, c'.id = c.id) ∧ (∃ c' ∈ addPiece acc q, c'.id = q.id) := by
      cases acc with
      | nil => simp [addPiece]
      | cons a acc =>
        simp only [addPiece]
        split
        · rename_i hc
          refine ⟨?_, ⟨⟨a.id, a.start, a.n + q.n⟩, List.mem_cons_self, hc.1⟩⟩
          intro c hc'
          simp only [List.mem_cons] at hc'
          rcases hc' with rfl | hc'
          · exact ⟨⟨c.id, c.start, c.n + q.n⟩, List.mem_cons_self, rfl⟩
          · exact ⟨c, List.mem_cons_of_mem _ hc', rfl⟩
        · refine ⟨?_, ⟨⟨q.id, q.off, q.n⟩, List.mem_cons_self, rfl⟩⟩
          intro c hc'
          exact ⟨c, List.mem_cons_of_mem _ hc', rfl⟩
    obtain ⟨ih1, ih2⟩ := ih (addPiece acc q)
    constructor
    · intro c hc
      obtain ⟨c1, hc1, e1⟩ := hstep.1 c hc
      obtain ⟨c2, hc2, e2⟩ := ih1 c1 hc1
      exact ⟨c2, hc2, e2.trans e1⟩
    · intro p hp
      simp only [List.mem_cons] at hp
      rcases hp with rfl | hp
      · obtain ⟨c1, hc1, e1⟩ := hstep.2
        obtain ⟨c2, hc2, e2⟩ := ih1 c1 hc1
        exact ⟨c2, hc2, e2.trans e1⟩
      · exact ih2 p hp

theorem glue_has_piece (wire : List Piece) (p : Piece) (hp : p ∈ wire) : ∃ c ∈ glue wire, c.id = p.id :=
  (foldl_addPiece_ids wire []).2 p hp

theorem scanFrom_snoc (lens : Nat → Nat) (ps : List Piece) : ∀ (cs : List Chunk) (p : Piece),
    scanFrom lens cs (ps ++ [p]) =
      match scanFrom lens cs ps with
      | some cs' => if framed lens (addPiece cs' p) then some (addPiece cs' p) else none
      | none => none := by
  induction ps with
  | nil => intro cs p; simp [scanFrom]
  | cons q ps ih =>
    intro cs p
    simp only [List.cons_append, scanFrom]
    split
    · exact ih _ p
    · rfl

/-- what an accepting scan returns is `glue`, and it is framed (unless the wire is empty) -/
theorem scanFrom_some (lens : Nat → Nat) (ps : List Piece) : ∀ (cs cs' : List Chunk),
    scanFrom lens cs ps = some cs' → cs' = ps.foldl addPiece cs ∧ (ps ≠ [] → framed lens cs' = true) := by
  induction ps with
  | nil => intro cs cs' h; simp [scanFrom] at h; subst h; simp
  | cons q ps ih =>
    intro cs cs' h
    simp only [scanFrom] at h
    split at h
    · rename_i hf
      obtain ⟨h1, h2⟩ := ih _ _ h
      refine ⟨by simpa using h1, fun _ => ?_⟩
      cases ps with
      | nil => simp [scanFrom] at h; subst h; exact hf
      | cons r rs => exact h2 (by simp)
    · simp at h

theorem step_wire (cfg : Cfg) (s s' : St) (a : Act) (hs : step cfg s a = some s') :
    s'.wire = s.wire ∨ ∃ p, s'.wire = s.wire ++ [p] := by
  cases a <;> simp only [step] at hs <;> (try split at hs) <;> (try split at hs) <;>
    (try (simp at hs)) <;> (try (injection hs with hs; subst hs; simp))
  all_goals (first | (subst hs; simp) | skip)


theorem framed_of_inv (cfg : Cfg) (s : St) (inv : Inv cfg s) : framed cfg.lens (glue s.wire) = true := by
  simp only [framed, Bool.and_eq_true, List.all_eq_true, decide_eq_true_eq, beq_iff_eq]
  refine ⟨fun c hc => ?_, inv.acc.nodup⟩
  obtain ⟨h0, hpos, hn⟩ := inv.acc.acct c hc
  exact ⟨⟨h0, hpos⟩, by rw [hn]; exact inv.acc.bound c.id⟩

/-- the online check accepts the wire of every state reachable from a state whose wire it accepts -/
theorem scan_run (cfg : Cfg) (hser : cfg.serialised = true) : ∀ (as : List Act) (s s' : St), Inv cfg s →
    scan cfg.lens s.wire = some (glue s.wire) → run cfg s as = some s' → scan cfg.lens s'.wire = some (glue s'.wire)
  | [], s, s', _, hsc, hr => by simp [run] at hr; subst hr; exact hsc
  | a :: as, s, s', inv, hsc, hr => by
    simp only [run] at hr
    split at hr
    · rename_i s1 hs1
      have inv1 := inv_step cfg hser s s1 a inv hs1
      refine scan_run cfg hser as s1 s' inv1 ?_ hr
      rcases step_wire cfg s s1 a hs1 with hw | ⟨p, hw⟩
      · rw [hw]; exact hsc
      · have hf := framed_of_inv cfg s1 inv1
        rw [hw] at hf ⊢
        unfold scan at hsc ⊢
        rw [scanFrom_snoc, hsc]
        simp only [← glue_snoc]
        simp [hf]
    · simp at hr

/-- a rejection pinpoints a prefix of the byte stream that is not framed -/
theorem scanFrom_none (lens : Nat → Nat) (ps : List Piece) : ∀ (cs : List Chunk),
    scanFrom lens cs ps = none → ∃ pre, pre <+: ps ∧ framed lens (pre.foldl addPiece cs) = false := by
  induction ps with
  | nil => intro cs h; simp [scanFrom] at h
  | cons q ps ih =>
    intro cs h
    simp only [scanFrom] at h
    split at h
    · obtain ⟨pre, hpre, hf⟩ := ih _ h
      exact ⟨q :: pre, by simpa using hpre, by simpa using hf⟩
    · rename_i hf
      exact ⟨[q], by simp, by simpa using hf⟩

/-- `done` is final: nothing changes the control state of a writer that has returned, and no byte of its frame
    is added to the wire afterwards -/
theorem done_step (cfg : Cfg) (s s' : St) (a : Act) (inv : Inv cfg s) (w n : Nat) (ok : Bool)
    (hd : s.pc w = .done n ok) (hs : step cfg s a = some s') :
    s'.pc w = .done n ok ∧ s'.wire.filter (·.id = w) = s.wire.filter (·.id = w) := by
  have htodo : w ∉ s.todo := fun hm => by have := inv.todoQ w hm; rw [hd] at this; cases this
  cases a with
  | piece x k =>
    simp only [step] at hs
    split at hs
    · rename_i off hx
      split at hs
      · injection hs with hs; subst hs
        have hxw : w ≠ x := by intro e; rw [e, hx] at hd; cases hd
        refine ⟨by simp only [setPc_other _ _ _ _ hxw, hd], ?_⟩
        simp [List.filter_append, Ne.symm hxw]
      · simp at hs
    · simp at hs
  | endWrite x ok' =>
    simp only [step] at hs
    split at hs
    · rename_i off hx
      split at hs
      · injection hs with hs; subst hs
        have hxw : w ≠ x := by intro e; rw [e, hx] at hd; cases hd
        refine ⟨?_, rfl⟩
        simp only [setPc_other _ _ _ _ hxw]
        split
        · rw [setMany_not_mem _ _ _ _ htodo, hd]
        · exact hd
      · simp at hs
    · simp at hs
  | closeFinish x =>
    simp only [step] at hs
    split at hs
    · split at hs
      · injection hs with hs; subst hs
        refine ⟨?_, rfl⟩
        have hxw : w ≠ x := by intro e; subst e; simp_all
        simp only [setPc_other _ _ _ _ hxw, hd]
      · simp at hs
    · simp at hs
  | submit x | cancel x | enqueue x | enter x | quit x | ret x | close x =>
    simp only [step] at hs
    split at hs <;> first
      | (injection hs with hs; subst hs
         refine ⟨?_, rfl⟩
         have hxw : w ≠ x := by intro e; subst e; simp_all
         simp only [setPc_other _ _ _ _ hxw, hd])
      | (simp at hs)
  | tick =>
    simp only [step] at hs
    split at hs
    · injection hs with hs; subst hs; exact ⟨hd, rfl⟩
    · simp at hs
  | shutdown =>
    simp only [step] at hs
    injection hs with hs; subst hs; exact ⟨hd, rfl⟩
  | cancelCtx x =>
    simp only [step] at hs
    split at hs
    · injection hs with hs; subst hs; exact ⟨hd, rfl⟩
    · simp at hs
  | shutQuit =>
    simp only [step] at hs
    split at hs
    · injection hs with hs; subst hs; exact ⟨hd, rfl⟩
    · simp at hs
  | flusherQuit =>
    simp only [step] at hs
    split at hs
    · split at hs <;> (injection hs with hs; subst hs; exact ⟨hd, rfl⟩)
    · simp at hs

theorem done_run (cfg : Cfg) (hser : cfg.serialised = true) (w n : Nat) (ok : Bool) : ∀ (as : List Act) (s s' : St),
    Inv cfg s → s.pc w = .done n ok → run cfg s as = some s' →
    s'.pc w = .done n ok ∧ s'.wire.filter (·.id = w) = s.wire.filter (·.id = w)
  | [], s, s', _, hd, hr => by simp [run] at hr; subst hr; exact ⟨hd, rfl⟩
  | a :: as, s, s', inv, hd, hr => by
    simp only [run] at hr
    split at hr
    · rename_i s1 hs1
      have h1 := done_step cfg s s1 a inv w n ok hd hs1
      have h2 := done_run cfg hser w n ok as s1 s' (inv_step cfg hser s s1 a inv hs1) h1.1 hr
      exact ⟨h2.1, h2.2.trans h1.2⟩
    · simp at hr

end Writer
