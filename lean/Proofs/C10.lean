import Model.Placement
import Proofs.C10Lookup
import Proofs.C10Simple
import Proofs.C10Nts
import Proofs.C10NtsNodup
import Proofs.C10NtsSpec
import Proofs.C10SpecDedup
import Proofs.C10NtsLookup
import Proofs.C10Ring
import Proofs.C10Strategy
import Proofs.C10Ordered
/-!
# C10 — replica sets for a token equal Cassandra's placement  (property theorems)

Model: `Model/Placement.lean` (namespace `Placement`, mirrors token.go / topology.go),
specification: `Placement.Spec` (Cassandra's firstTokenIndex / SimpleStrategy / NetworkTopologyStrategy 3.0).
All theorems quantify over every ring / replication setting / token; the only standing hypothesis on rings is
`Sorted` (strictly ascending tokens: what `sort.Sort` produces from pairwise distinct tokens).

`networkTopology.replicaMap` is the code AFTER the repairs of KF-C10-1 (seen-host check), KF-C10-2 (sanity check counts
the ring's datacenters) and KF-C10-3 (`dcRacks` from token owners): the former `_partial` theorems
(`OneTokenPerNode`, "every ring DC replicated", "hosts = the ring's nodes") are now stated and proved for ALL rings —
any number of tokens per node, datacenters, racks, replication factors incl. 0 / larger than the DC / DCs unknown
to the ring.  The old failing inputs are kept as regression `example`s at the end.
-/
namespace C10
open Placement C10Lookup C10Simple C10Nts C10NtsNodup C10NtsSpec C10SpecDedup C10NtsLookup C10Ring C10Strategy C10Ordered

/-! ## ring lookup -/

/-- `GetHostForToken` / `replicasFor`: Go's binary search with wrap-around computes Cassandra's
`firstTokenIndex` (first ring token ≥ t, else index 0) — for every sorted ring and every token. -/
theorem C10_lookup {β : Type} (ring : List (Int × β)) (t : Int) (hs : Sorted ring) :
    lookupIdx ring t = Spec.ownerIdx ring t :=
  lookupIdx_eq_ownerIdx ring t hs

/-- the entry returned is the owner of the range (previous token, token], wrapping around: either its
token is ≥ t and every earlier token is < t (equal / between / below the smallest), or every ring token
is < t and it is entry 0 (above the largest). -/
theorem C10_lookup_owner (ring : List Entry) (t : Int) (hs : Sorted ring) (hne : ring ≠ []) :
    lookupIdx ring t < ring.length ∧
    getHostForToken ring t = ring[lookupIdx ring t]? ∧
    ((t ≤ tokAt ring (lookupIdx ring t) ∧ ∀ k, k < lookupIdx ring t → tokAt ring k < t) ∨
     (lookupIdx ring t = 0 ∧ ∀ k, k < ring.length → tokAt ring k < t)) := by
  rw [C10_lookup ring t hs]
  refine ⟨ownerIdx_lt ring t hne, ?_, ownerIdx_range ring t hne⟩
  unfold getHostForToken
  have : ring.length ≠ 0 := by
    have := List.length_pos_iff.mpr hne; omega
  rw [if_neg this, C10_lookup ring t hs]

example : getHostForToken [(0, ⟨1, 1, 1⟩), (10, ⟨2, 1, 1⟩)] 11 = some (0, ⟨1, 1, 1⟩) := by decide
example : getHostForToken [(0, ⟨1, 1, 1⟩), (10, ⟨2, 1, 1⟩)] 10 = some (10, ⟨2, 1, 1⟩) := by decide

/-- the literal Go index arithmetic of both placement loops is the rotation the model walks -/
theorem C10_walk_order (tokens : List Entry) (i : Nat) (hi : i < tokens.length) :
    walkIdx tokens i = rot tokens i :=
  walkIdx_eq_rot tokens i hi

/-! ## SimpleStrategy -/

/-- number of distinct nodes of a ring -/
def distinctNodes (ring : List Entry) : Nat := (Spec.firsts (ring.map (·.2))).length

/-- for every sorted ring (any number of vnodes), every rf and every lookup token: the replicas the driver
associates with the token (`replicasFor` on `simpleStrategy.replicaMap`) are Cassandra's:
the first `rf` distinct nodes clockwise from the owner of the token. -/
theorem C10_simple (ring : List Entry) (rf : Nat) (t : Int) (hs : Sorted ring) (hne : ring ≠ []) :
    (replicasFor (simpleReplicaMap rf ring) t).map (·.2) = some (Spec.simple ring rf t) := by
  rw [replicasFor_simple ring rf t hs hne]
  simp only [Option.map_some, Option.some.injEq]
  unfold simpleReplicasAt Spec.simple
  rw [simpleWalk_init, rot_owner_eq_clockwise ring t hs]

/-- empty ring: no entry (Pick then falls back), Cassandra has no replica either -/
theorem C10_simple_empty (rf : Nat) (t : Int) :
    replicasFor (simpleReplicaMap rf []) t = none ∧ Spec.simple [] rf t = [] := by
  constructor
  · rfl
  · simp [Spec.simple, Spec.clockwise, Spec.firsts]

/-- a simple replica list never contains a node twice -/
theorem C10_simple_nodup (ring : List Entry) (rf : Nat) (t : Int) : (Spec.simple ring rf t).Nodup :=
  List.Sublist.nodup (List.take_sublist _ _) (nodup_firsts _)

theorem mem_clockwise {β : Type} (ring : List (Int × β)) (t : Int) (x : Int × β) :
    x ∈ Spec.clockwise ring t ↔ x ∈ ring := by
  unfold Spec.clockwise
  simp only [List.mem_append, List.mem_filter, decide_eq_true_eq]
  constructor
  · rintro (h | h) <;> exact h.1
  · intro h
    by_cases hx : t ≤ x.1
    · exact Or.inl ⟨h, hx⟩
    · exact Or.inr ⟨h, by omega⟩

/-- its length is min(rf, number of distinct nodes of the ring) -/
theorem C10_simple_length (ring : List Entry) (rf : Nat) (t : Int) :
    (Spec.simple ring rf t).length = min rf (distinctNodes ring) := by
  unfold Spec.simple distinctNodes
  rw [List.length_take]
  congr 1
  apply length_firsts_congr
  intro x
  simp only [List.mem_map]
  constructor
  · rintro ⟨e, he, rfl⟩; exact ⟨e, (mem_clockwise ring t e).mp he, rfl⟩
  · rintro ⟨e, he, rfl⟩; exact ⟨e, (mem_clockwise ring t e).mpr he, rfl⟩

/-- the owner of the token's range comes first (whenever rf > 0) -/
theorem C10_simple_primary (ring : List Entry) (rf : Nat) (t : Int) (hs : Sorted ring) (hne : ring ≠ [])
    (hrf : 0 < rf) :
    (Spec.simple ring rf t).head? = (getHostForToken ring t).map (·.2) := by
  obtain ⟨hlt, hget, _⟩ := C10_lookup_owner ring t hs hne
  rw [hget, C10_lookup ring t hs]
  rw [C10_lookup ring t hs] at hlt
  unfold Spec.simple
  rw [← rot_owner_eq_clockwise ring t hs]
  unfold rot
  obtain ⟨k, hk⟩ : ∃ k, rf = k + 1 := ⟨rf - 1, by omega⟩
  have hcons : (List.drop (Spec.ownerIdx ring t) ring ++ List.take (Spec.ownerIdx ring t) ring).map (·.2)
      = ring[Spec.ownerIdx ring t].2 ::
        ((List.drop (Spec.ownerIdx ring t + 1) ring ++ List.take (Spec.ownerIdx ring t) ring).map (·.2)) := by
    rw [List.drop_eq_getElem_cons hlt]; rfl
  rw [hcons, hk, List.getElem?_eq_getElem hlt]
  simp only [Spec.firsts, List.take_succ_cons, List.head?_cons, Option.map_some]

example : (replicasFor (simpleReplicaMap 2 [(0, ⟨1, 1, 1⟩), (5, ⟨1, 1, 1⟩), (10, ⟨2, 1, 1⟩)]) 3).map (·.2)
    = some [⟨1, 1, 1⟩, ⟨2, 1, 1⟩] := by decide

/-! ## NetworkTopologyStrategy — for EVERY ring and EVERY rf map (vnodes, unknown DCs, rf 0, rf > DC size) -/

/-- what `replicaMap` computes before the token loop: `dcRacks` from the hosts of the ring entries -/
abbrev cfgOf (rfs : List (Nat × Nat)) (tokens : List Entry) : NtsCfg := mkCfg rfs (tokens.map (·.2))

/-- the replica map the loop builds: one entry per ring token whose primary's DC has rf > 0 -/
def ntsDesc (rfs : List (Nat × Nat)) (tokens : List Entry) : ReplicaRing :=
  ((indexed tokens).filter (fun p => decide (rfOf rfs p.2.2.dc ≠ 0))).map
    (fun p => (p.2.1, (ntsReplicasAt (cfgOf rfs tokens) tokens p.1).replicas))

/-- the inner loop with its seen-host check = the check-free loop over the first occurrences of the nodes clockwise -/
theorem ntsReplicasAt_eq (c : NtsCfg) (tokens : List Entry) (i : Nat) :
    ntsReplicasAt c tokens i = walk0 c ntsInit (Spec.firsts (rot (tokens.map (·.2)) i)) := by
  have hr : (rot tokens i).map (·.2) = rot (tokens.map (·.2)) i := by simp [rot]
  unfold ntsReplicasAt
  rw [ntsWalk_eq_walk0, dedup_nil_eq_firsts, hr]

theorem nts_entry_good (rfs : List (Nat × Nat)) (tokens : List Entry) (p : Nat × Entry) (hp : p ∈ indexed tokens) :
    Good (cfgOf rfs tokens) (ntsReplicasAt (cfgOf rfs tokens) tokens p.1) ∧
    (rfOf rfs p.2.2.dc ≠ 0 → (ntsReplicasAt (cfgOf rfs tokens) tokens p.1).replicas.head? = some p.2.2) := by
  obtain ⟨hi, he⟩ := mem_indexed tokens p hp
  rw [ntsReplicasAt_eq]
  refine ⟨good_walk _ _ _ (good_init _), ?_⟩
  intro hrf
  have hi' : p.1 < (tokens.map (·.2)).length := by simpa using hi
  have hm : p.2 ∈ tokens := he ▸ List.getElem_mem hi
  have hget : (tokens.map (·.2))[p.1] = p.2.2 := by simp [he]
  rw [rot_head _ p.1 hi', hget]
  simp only [Spec.firsts]
  exact walk_head (cfgOf rfs tokens) rfl p.2.2 _ hrf
    (rack_known rfs _ p.2.2 (List.mem_map.mpr ⟨p.2, hm, rfl⟩))

theorem ntsLoop_desc (rfs : List (Nat × Nat)) (tokens : List Entry) :
    ntsLoop (cfgOf rfs tokens) tokens (indexed tokens) [] = .ok (ntsDesc rfs tokens) := by
  rw [ntsLoop_ok (cfgOf rfs tokens) tokens (indexed tokens) []]
  · simp only [List.nil_append]; rfl
  · intro p hp hrf
    obtain ⟨g, hd⟩ := nts_entry_good rfs tokens p hp
    exact ⟨g.nocrash, hd hrf⟩

theorem indexed_length {α : Type} (l : List α) : (indexed l).length = l.length := by simp [indexed]

/-- `C10_no_panic`: for every ring (any vnodes, racks, DCs) and every rf map — rf 0, larger than the DC, datacenters
unknown to the ring, ring datacenters unknown to the keyspace — `networkTopology.replicaMap` returns the described
map; none of its four panics ("replica overflow", "no replicas for token", "first replica is not the primary",
"token map different size to token ring") can fire. -/
theorem C10_no_panic (rfs : List (Nat × Nat)) (tokens : List Entry) :
    ntsReplicaMap rfs tokens = .ok (ntsDesc rfs tokens) := by
  unfold ntsReplicaMap
  simp only [ntsLoop_desc rfs tokens]
  have hno : ¬ (dcsWithReplicas (cfgOf rfs tokens) = (cfgOf rfs tokens).nDcRacks ∧
      (ntsDesc rfs tokens).length ≠ tokens.length) := by
    rintro ⟨hcnt, hlen⟩
    apply hlen
    have hall : ∀ d ∈ (cfgOf rfs tokens).dcs, decide (rfOf (cfgOf rfs tokens).rfs d > 0) = true :=
      List.length_filter_eq_length_iff.mp hcnt
    unfold ntsDesc
    rw [List.length_map, List.filter_eq_self.mpr, indexed_length]
    intro p hp
    obtain ⟨hi, he⟩ := mem_indexed tokens p hp
    have hm : p.2 ∈ tokens := he ▸ List.getElem_mem hi
    have hd : p.2.2.dc ∈ (cfgOf rfs tokens).dcs := by
      simp only [cfgOf, mkCfg, mem_toSet, List.mem_map]
      exact ⟨p.2.2, ⟨p.2, hm, rfl⟩, rfl⟩
    have hpos : rfOf rfs p.2.2.dc > 0 := by simpa [cfgOf, mkCfg] using hall _ hd
    have hne : rfOf rfs p.2.2.dc ≠ 0 := by omega
    simpa using hne
  rw [if_neg hno]

theorem C10_no_panic_crash (rfs : List (Nat × Nat)) (tokens : List Entry) :
    crashOf (ntsReplicaMap rfs tokens) = none := by
  rw [C10_no_panic]; rfl

/-- every entry of the map: per-DC replica count ≤ rf of that DC -/
theorem C10_nts_bound_rf (rfs : List (Nat × Nat)) (tokens : List Entry)
    (e : Int × List Host) (he : e ∈ ntsDesc rfs tokens) (d : Nat) :
    (e.2.filter (fun x => decide (x.dc = d))).length ≤ rfOf rfs d := by
  unfold ntsDesc at he
  obtain ⟨p, hp, rfl⟩ := List.mem_map.mp he
  obtain ⟨g, _⟩ := nts_entry_good rfs tokens p (List.mem_filter.mp hp).1
  rw [g.cnt d]
  exact g.le d

/-- the first replica of every entry is the primary of the entry's token (the owner of its range) -/
theorem C10_nts_primary_first (rfs : List (Nat × Nat)) (tokens : List Entry)
    (e : Int × List Host) (he : e ∈ ntsDesc rfs tokens) :
    ∃ th ∈ tokens, th.1 = e.1 ∧ e.2.head? = some th.2 := by
  unfold ntsDesc at he
  obtain ⟨p, hp, rfl⟩ := List.mem_map.mp he
  obtain ⟨hpi, hrf⟩ := List.mem_filter.mp hp
  obtain ⟨hi, hel⟩ := mem_indexed tokens p hpi
  obtain ⟨_, hd⟩ := nts_entry_good rfs tokens p hpi
  exact ⟨p.2, hel ▸ List.getElem_mem hi, rfl, hd (by simpa using hrf)⟩

theorem nts_entry_j (rfs : List (Nat × Nat)) (tokens : List Entry) (i : Nat) :
    J (Spec.firsts (rot (tokens.map (·.2)) i)) (ntsReplicasAt (cfgOf rfs tokens) tokens i) := by
  rw [ntsReplicasAt_eq]
  have := j_walk (cfgOf rfs tokens) (Spec.firsts (rot (tokens.map (·.2)) i)) [] ntsInit
    (by simpa using nodup_firsts _) (good_init _) j_init
  simpa using this

/-- `C10_nts_nodup`: for every ring — any number of tokens per node — no replica list contains a node twice. -/
theorem C10_nts_nodup (rfs : List (Nat × Nat)) (tokens : List Entry)
    (e : Int × List Host) (he : e ∈ ntsDesc rfs tokens) : e.2.Nodup := by
  unfold ntsDesc at he
  obtain ⟨p, _, rfl⟩ := List.mem_map.mp he
  exact (nts_entry_j rfs tokens p.1).rnd

/-- the distinct nodes of datacenter `d` that own tokens of the ring -/
def nodesOfDC (tokens : List Entry) (d : Nat) : List Host :=
  (Spec.firsts (tokens.map (·.2))).filter (fun x => decide (x.dc = d))

/-- `C10_nts_bound`: for every ring, per datacenter a replica list holds at most min(rf, distinct nodes of the DC)
nodes — it never exceeds the available distinct nodes. -/
theorem C10_nts_bound (rfs : List (Nat × Nat)) (tokens : List Entry)
    (e : Int × List Host) (he : e ∈ ntsDesc rfs tokens) (d : Nat) :
    (e.2.filter (fun x => decide (x.dc = d))).length ≤ min (rfOf rfs d) (nodesOfDC tokens d).length := by
  have hb := C10_nts_bound_rf rfs tokens e he d
  have hnd := C10_nts_nodup rfs tokens e he
  unfold ntsDesc at he
  obtain ⟨p, _, rfl⟩ := List.mem_map.mp he
  have j := nts_entry_j rfs tokens p.1
  have := nodup_subset_length_le
    ((ntsReplicasAt (cfgOf rfs tokens) tokens p.1).replicas.filter (fun x => decide (x.dc = d)))
    (nodesOfDC tokens d)
    (List.Sublist.nodup List.filter_sublist hnd)
    (by
      intro x hx
      unfold nodesOfDC
      rw [List.mem_filter] at hx ⊢
      refine ⟨?_, hx.2⟩
      rw [mem_firsts]
      exact (mem_rot _ _ x).mp ((mem_firsts _ x).mp (j.rp x hx.1)))
  exact Nat.le_min.mpr ⟨hb, this⟩

/-- … and in total it never exceeds the distinct nodes of the ring -/
theorem C10_nts_bound_total (rfs : List (Nat × Nat)) (tokens : List Entry)
    (e : Int × List Host) (he : e ∈ ntsDesc rfs tokens) : e.2.length ≤ distinctNodes tokens := by
  have hnd := C10_nts_nodup rfs tokens e he
  unfold ntsDesc at he
  obtain ⟨p, _, rfl⟩ := List.mem_map.mp he
  have j := nts_entry_j rfs tokens p.1
  exact nodup_subset_length_le _ _ hnd (by
    intro x hx
    rw [mem_firsts]
    exact (mem_rot _ _ x).mp ((mem_firsts _ x).mp (j.rp x hx)))

/-! ## NetworkTopologyStrategy: the code = Cassandra, for every ring -/

theorem nodup_foldl_setAdd {α : Type} [DecidableEq α] (l : List α) : ∀ (acc : List α), acc.Nodup →
    (l.foldl setAdd acc).Nodup := by
  induction l with
  | nil => intro acc h; exact h
  | cons a r ih =>
    intro acc h
    simp only [List.foldl_cons]
    apply ih
    unfold setAdd
    by_cases ha : a ∈ acc
    · simp [ha, h]
    · simp only [ha, if_false]
      rw [List.nodup_append]
      exact ⟨h, by simp, by intro x hx y hy; simp at hy; subst hy; intro e; subst e; exact ha hx⟩

theorem nodup_toSet {α : Type} [DecidableEq α] (l : List α) : (toSet l).Nodup :=
  nodup_foldl_setAdd l [] (by simp)

/-- the environment in which the simulation runs: any ring; the walk is over the first occurrences of its nodes -/
theorem env_of (rfs : List (Nat × Nat)) (ring : List Entry) (hkeys : (rfs.map (·.1)).Nodup) (i : Nat) :
    Env (cfgOf rfs ring) (Spec.topoOf ring) ([] ++ Spec.firsts (rot (ring.map (·.2)) i)) := by
  have hmem : ∀ x, x ∈ Spec.firsts (rot (ring.map (·.2)) i) ↔ x ∈ ring.map (·.2) := by
    intro x; rw [mem_firsts, mem_rot]
  refine ⟨?_, ?_, ?_, by simpa using nodup_firsts _, hkeys, rfl⟩
  · intro d
    simp only [Spec.topoOf, cfgOf, mkCfg]
    apply List.Perm.length_eq
    rw [List.perm_ext_iff_of_nodup (nodup_firsts _) (nodup_toSet _)]
    intro r
    rw [mem_firsts, mem_toSet]
    simp only [List.mem_map, List.mem_filter, decide_eq_true_eq, mem_firsts]
  · intro x hx
    simp only [List.nil_append] at hx
    exact rack_known rfs _ x ((hmem x).mp hx)
  · intro d
    simp only [Spec.topoOf, List.nil_append]
    apply nodup_subset_length_le
    · exact List.Sublist.nodup List.filter_sublist (nodup_firsts _)
    · intro x hx
      rw [List.mem_filter] at hx ⊢
      exact ⟨(mem_firsts _ x).mpr ((hmem x).mp hx.1), hx.2⟩

/-- `C10_nts_equal`: for every sorted ring — any number of tokens per node, DCs, racks unevenly populated — and every
rf map (rf 0, rf larger than the DC, DCs unknown to the ring; keys distinct as in a Go map), every entry of
`networkTopology.replicaMap`'s result holds exactly Cassandra's replicas of the entry's token, in Cassandra's order. -/
theorem C10_nts_equal (rfs : List (Nat × Nat)) (ring : List Entry) (hs : Sorted ring)
    (hkeys : (rfs.map (·.1)).Nodup)
    (e : Int × List Host) (he : e ∈ ntsDesc rfs ring) : e.2 = Spec.nts ring rfs e.1 := by
  unfold ntsDesc at he
  obtain ⟨p, hp, rfl⟩ := List.mem_map.mp he
  obtain ⟨hi, hel⟩ := mem_indexed ring p (List.mem_filter.mp hp).1
  simp only
  unfold Spec.nts
  rw [← hel, ← rot_owner_eq_clockwise ring _ hs, ownerIdx_self ring hs p.1 hi]
  have hr : (rot ring p.1).map (·.2) = rot (ring.map (·.2)) p.1 := by simp [rot]
  rw [hr, spec_walk_firsts, ntsReplicasAt_eq]
  exact sim_walk (cfgOf rfs ring) (Spec.topoOf ring) (Spec.firsts (rot (ring.map (·.2)) p.1)) [] ntsInit Spec.init
    (env_of rfs ring hkeys p.1) (good_init _) j_init (sim_init _)

example : Spec.nts [(0, ⟨1, 1, 1⟩), (10, ⟨2, 1, 1⟩), (20, ⟨3, 1, 2⟩)] [(1, 2)] 0 = [⟨1, 1, 1⟩, ⟨3, 1, 2⟩] := by decide

/-! ## the whole replica map and the lookup of an arbitrary token -/

theorem indexed_map_snd {α : Type} (l : List α) : (indexed l).map (·.2) = l := by
  unfold indexed
  exact List.map_snd_zip (by simp)

/-- `C10_nts_map`: for every sorted ring and rf map, `networkTopology.replicaMap` returns — without panic — exactly
the map that has, for every ring token whose primary's datacenter is replicated, Cassandra's replicas of that token. -/
theorem C10_nts_map (rfs : List (Nat × Nat)) (ring : List Entry) (hs : Sorted ring) (hkeys : (rfs.map (·.1)).Nodup) :
    ntsReplicaMap rfs ring =
      .ok ((ring.filter (fun e => repl rfs e.2)).map (fun e => (e.1, Spec.nts ring rfs e.1))) := by
  rw [C10_no_panic]
  congr 1
  have hcongr : ntsDesc rfs ring =
      ((indexed ring).filter (fun p => repl rfs p.2.2)).map (fun p => (p.2.1, Spec.nts ring rfs p.2.1)) := by
    unfold ntsDesc
    apply List.map_congr_left
    intro p hp
    have hmem : (p.2.1, (ntsReplicasAt (cfgOf rfs ring) ring p.1).replicas) ∈ ntsDesc rfs ring := by
      unfold ntsDesc
      exact List.mem_map.mpr ⟨p, hp, rfl⟩
    have := C10_nts_equal rfs ring hs hkeys _ hmem
    simp only at this
    rw [this]
  rw [hcongr]
  have h1 : (fun p : Nat × Entry => (p.2.1, Spec.nts ring rfs p.2.1))
      = (fun e : Entry => (e.1, Spec.nts ring rfs e.1)) ∘ (·.2) := rfl
  have h2 : (fun p : Nat × Entry => repl rfs p.2.2) = (fun e : Entry => repl rfs e.2) ∘ (·.2) := rfl
  rw [h1, h2, ← List.map_map, ← List.filter_map, indexed_map_snd]

/-- `C10_nts_lookup`: for every sorted ring, rf map and lookup token `t` (equal to, between, below the smallest, above
the largest ring token): the replicas the driver associates with `t` — `replicasFor` on the replica map, no replicas when
it returns nil — are exactly Cassandra's replicas of `t`. -/
theorem C10_nts_lookup (rfs : List (Nat × Nat)) (ring : List Entry) (t : Int) (hs : Sorted ring)
    (hkeys : (rfs.map (·.1)).Nodup) :
    (match ntsReplicaMap rfs ring with
     | .ok rr => (match replicasFor rr t with
        | some e => some e.2
        | none => some [])
     | .error _ => none) = some (Spec.nts ring rfs t) := by
  rw [C10_nts_map rfs ring hs hkeys]
  simp only
  by_cases hne : ring.filter (fun e => repl rfs e.2) = []
  · rw [hne, nts_none_retained ring rfs t hne]
    rfl
  · rw [replicasFor_map _ (fun e => Spec.nts ring rfs e.1) t (sorted_filter ring _ hs) hne]
    simp only
    rw [← nts_at_retained ring rfs t hs hne]

example : (match ntsReplicaMap [(1, 1)] [(0, ⟨1, 1, 1⟩), (10, ⟨2, 3, 1⟩)] with
     | .ok rr => (replicasFor rr 5).map (·.2)
     | .error _ => none) = some [⟨1, 1, 1⟩] := by decide

/-! ## ring construction (`newTokenRing`) and the theorems above stated from the CLUSTER LAYOUT

All theorems above carry the hypothesis `Sorted ring`.  It is discharged here: for every list of hosts with their
tokens — any number of hosts, any number of tokens per host (vnodes, none), given in any order — in which no token is
claimed twice, the ring `newTokenRing` builds is strictly ascending and holds exactly the (token, host) pairs of the
layout; and that arrangement is unique, so ANY correct sorting algorithm (Go's `sort.Sort` is not stable and is free to
change) returns the list the model computes.  Cassandra's `TokenMetadata.sortedTokens` with `tokenToEndpointMap` is
characterised the same way (`cring` below): the ascending arrangement of the layout's pairs. -/

/-- `C10_ring_sorted`: the ring built from any layout with pairwise distinct tokens is strictly ascending and is a
rearrangement of exactly the layout's (token, host) pairs (nothing lost, nothing invented, multiplicities kept). -/
theorem C10_ring_sorted (hosts : List (Host × List Int)) (hd : DistinctTokens hosts) :
    Sorted (buildRing hosts) ∧ (buildRing hosts).Perm (allPairs hosts) :=
  ⟨buildRing_sorted hosts hd, buildRing_perm hosts⟩

/-- `C10_ring_unique`: whatever a sorting algorithm does, if its result is ascending and a rearrangement of the
layout's pairs it IS the model's ring — the instability of `sort.Sort` cannot be observed on distinct tokens. -/
theorem C10_ring_unique (hosts : List (Host × List Int)) (hd : DistinctTokens hosts) (ring : List Entry)
    (hs : Sorted ring) (hp : ring.Perm (allPairs hosts)) : ring = buildRing hosts :=
  sorted_perm_unique ring (buildRing hosts) hs (buildRing_sorted hosts hd) (hp.trans (buildRing_perm hosts).symm)

/-- the ring does not depend on the order in which the hosts are reported (nor on the order of a host's tokens) -/
theorem C10_ring_order_irrelevant (h₁ h₂ : List (Host × List Int)) (hd : DistinctTokens h₁)
    (hp : (allPairs h₁).Perm (allPairs h₂)) : buildRing h₁ = buildRing h₂ := by
  have hd₂ : DistinctTokens h₂ := by
    unfold DistinctTokens at hd ⊢
    exact (hp.map (fun e : Entry => e.1)).nodup_iff.mp hd
  exact C10_ring_unique h₂ hd₂ (buildRing h₁) (buildRing_sorted h₁ hd) ((buildRing_perm h₁).trans hp)

example : buildRing [(⟨2, 1, 1⟩, [10, -5]), (⟨1, 1, 2⟩, [3])] = [(-5, ⟨2, 1, 1⟩), (3, ⟨1, 1, 2⟩), (10, ⟨2, 1, 1⟩)] := by
  decide
example : DistinctTokens [(⟨2, 1, 1⟩, [10, -5]), (⟨1, 1, 2⟩, [3])] := by unfold DistinctTokens; decide

/-- `C10_cluster_owner`: from the layout — the host `GetHostForToken` returns on the ring the driver builds is the owner
of the token on Cassandra's ring `cring` (first token ≥ t, else the smallest: the range (previous token, token] with
wrap-around). -/
theorem C10_cluster_owner (hosts : List (Host × List Int)) (hd : DistinctTokens hosts) (cring : List Entry)
    (hcs : Sorted cring) (hcp : cring.Perm (allPairs hosts)) (t : Int) :
    getHostForToken (buildRing hosts) t = cring[Spec.ownerIdx cring t]? := by
  rw [C10_ring_unique hosts hd cring hcs hcp]
  by_cases hne : buildRing hosts = []
  · rw [hne]; rfl
  · obtain ⟨_, hget, _⟩ := C10_lookup_owner (buildRing hosts) t (buildRing_sorted hosts hd) hne
    rw [hget, C10_lookup _ t (buildRing_sorted hosts hd)]

/-- `C10_cluster_simple`: from the layout, SimpleStrategy — replicas of every token = Cassandra's on Cassandra's ring. -/
theorem C10_cluster_simple (hosts : List (Host × List Int)) (hd : DistinctTokens hosts) (cring : List Entry)
    (hcs : Sorted cring) (hcp : cring.Perm (allPairs hosts)) (hne : cring ≠ []) (rf : Nat) (t : Int) :
    (replicasFor (simpleReplicaMap rf (buildRing hosts)) t).map (·.2) = some (Spec.simple cring rf t) := by
  have he := C10_ring_unique hosts hd cring hcs hcp
  rw [← he]
  exact C10_simple cring rf t hcs hne

/-- `C10_cluster_nts`: from the layout, NetworkTopologyStrategy — `replicaMap` does not panic and the replicas of every
token are Cassandra's on Cassandra's ring (vnodes, uneven racks, rf 0 / above the DC size, unknown DCs). -/
theorem C10_cluster_nts (hosts : List (Host × List Int)) (hd : DistinctTokens hosts) (cring : List Entry)
    (hcs : Sorted cring) (hcp : cring.Perm (allPairs hosts)) (rfs : List (Nat × Nat)) (hkeys : (rfs.map (·.1)).Nodup)
    (t : Int) :
    (match ntsReplicaMap rfs (buildRing hosts) with
     | .ok rr => (match replicasFor rr t with
        | some e => some e.2
        | none => some [])
     | .error _ => none) = some (Spec.nts cring rfs t) := by
  have he := C10_ring_unique hosts hd cring hcs hcp
  rw [← he]
  exact C10_nts_lookup rfs cring t hcs hkeys

example : (replicasFor (simpleReplicaMap 2 (buildRing [(⟨2, 1, 1⟩, [10, -5]), (⟨1, 1, 2⟩, [3])])) 4).map (·.2)
    = some [⟨2, 1, 1⟩, ⟨1, 1, 2⟩] := by decide

/-! ## keyspace replication options: `getStrategy` / `getReplicationFactorFromOpts` for EVERY option map -/

/-- `C10_strategy` (op `sstrategy`): for every strategy class Cassandra ships (with or without the package prefix) and
EVERY option map — any keys, values of any dynamic type, any text — `getStrategy` returns what the replication setting
means (`Spec.strategy`): SimpleStrategy with the number `replication_factor` denotes (positional decimal value, optional
sign, int64 range; no strategy when it denotes none), NetworkTopologyStrategy with exactly the datacenters whose value
denotes a number (the `class` key and unreadable values left out), no strategy for LocalStrategy. -/
theorem C10_strategy (cls : List Char) (opts : List (List Char × OptVal)) (s : Strategy)
    (h : Spec.strategy cls opts = some s) : getStrategy cls opts = s :=
  getStrategy_eq cls opts s h

/-- the replication factor as Cassandra renders it (`Integer.toString`, here `Nat.repr`) — for EVERY number up to the
largest 64-bit int — and as an int value is read back as that number -/
theorem C10_rf_rendering (n : Nat) (h : n < 2 ^ 63) :
    rfFromOpt (.str (Nat.repr n).toList) = some n ∧ rfFromOpt (.int n) = some n := by
  constructor
  · rw [rfFromOpt_eq]; exact rfOfOpt_repr n h
  · simp [rfFromOpt]

example : rfFromOpt (.str "3".toList) = some 3 ∧ rfFromOpt (.str "3/1".toList) = none ∧
    rfFromOpt (.str "-0".toList) = some 0 ∧ rfFromOpt (.str "9223372036854775808".toList) = none := by decide

/-- `C10_strategy_nts_map`: the NetworkTopologyStrategy a keyspace's options give, as a FUNCTION datacenter ↦ rf —
independent of the order in which Go iterates over the option map: for every option map (keys distinct), the
datacenter map has distinct keys (the hypothesis `hkeys` of the placement theorems) and maps `dc` to the number the
option `dc` denotes; `class`, absent options and options denoting no number are not in it. -/
theorem C10_strategy_nts_map (cls : List Char) (opts : List (List Char × OptVal))
    (hc : Spec.classKind cls = some .nts) (hnd : (opts.map (·.1)).Nodup) :
    ∃ dcs, getStrategy cls opts = .nts dcs ∧ (dcs.map (·.1)).Nodup ∧
      ∀ dc, dcs.lookup dc = if dc = "class".toList then none else (opts.lookup dc).bind Spec.rfOfOpt := by
  refine ⟨_, getStrategy_eq cls opts _ (by unfold Spec.strategy; rw [hc]), ?_, ?_⟩
  · exact List.Sublist.nodup ((keys_filterMap_sublist Spec.rfOfOpt _).trans (List.filter_sublist.map _)) hnd
  · intro dc
    have hnd' : ((opts.filter (fun kv => kv.1 ≠ "class".toList)).map (·.1)).Nodup :=
      List.Sublist.nodup (List.filter_sublist.map _) hnd
    rw [lookup_filterMap_keys Spec.rfOfOpt _ hnd' dc, lookup_filter_key]
    split <;> rfl

example : getStrategy "org.apache.cassandra.locator.NetworkTopologyStrategy".toList
    [("class".toList, .str "x".toList), ("dc1".toList, .str "3".toList), ("dc2".toList, .int 2),
     ("dc3".toList, .str "3/1".toList)] matches .nts [(_, 3), (_, 2)] := by decide

/-! ## the ordered partitioner (ByteOrderedPartitioner): ring tokens are reported as hexadecimal TEXT  (KF-C10-5)

Cassandra reports a ByteOrderedPartitioner token in `system.local` / `system.peers` as the lowercase hexadecimal
rendering of its bytes.  `orderedPartitioner.ParseString` keeps that text as the token; `Hash` takes the raw key bytes.
The ORDER of the ring is nevertheless right for every ring (`C10_ordered_ring_order`, `C10_ordered_ring`: the rendering
is strictly monotone), hence so is every replica map, which only depends on that order.  What fails is the lookup of a
partition key: its raw bytes are compared with the TEXT of the ring tokens.

FULL property — does NOT hold for the unchanged code (`C10_cex_ordered_lookup`):

  theorem C10_ordered_lookup (cring : List OEntry) (hs : SortedO cring) (hb : ∀ e ∈ cring, IsBytes e.1) (key : List Nat) :
      (getHostForTokenO (buildRingO (Spec.reported cring)) (orderedHash key)).map (·.2)
        = (Spec.ownerO cring key).map (·.2)
-/

/-- the driver orders ring tokens (the reported text, through `ParseString` and `orderedToken.Less`) exactly as
Cassandra orders the tokens (byte strings) — for ALL byte strings -/
theorem C10_ordered_ring_order (a b : List Nat) (ha : IsBytes a) (hb : IsBytes b) :
    lexLt (orderedParse (Spec.hexOf a)) (orderedParse (Spec.hexOf b)) = lexLt a b := by
  have := hex_lexLt a b ha hb
  unfold orderedParse
  cases h1 : lexLt (Spec.hexOf a) (Spec.hexOf b) <;> cases h2 : lexLt a b <;> simp_all

/-- for every ring (ascending by token, any number of tokens per node): the ring `newTokenRing` builds from the reported
tokens lists the same hosts in the same order as Cassandra's ring, entry by entry the rendering of Cassandra's token -/
theorem C10_ordered_ring (cring : List OEntry) (hs : SortedO cring) (hb : ∀ e ∈ cring, IsBytes e.1) :
    buildRingO (Spec.reported cring) = cring.map (fun e => (Spec.hexOf e.1, e.2)) :=
  buildRingO_reported cring hs hb

/-- `C10_ordered_lookup_partial`: the owner `GetHostForToken` returns for the token of a partition key is the owner on
Cassandra's ring for every ring and every key for which comparing the key with the reported TEXT of each ring token
gives the same answer as comparing it with the token (`hag` — exactly the predicate by which the harness keeps lookups
out of the spec-backed diff). -/
theorem C10_ordered_lookup_partial (cring : List OEntry) (hs : SortedO cring) (hb : ∀ e ∈ cring, IsBytes e.1)
    (key : List Nat) (hag : ∀ e ∈ cring, lexLt (Spec.hexOf e.1) key = lexLt e.1 key) :
    (getHostForTokenO (buildRingO (Spec.reported cring)) (orderedHash key)).map (·.2)
      = (Spec.ownerO cring key).map (·.2) := by
  rw [buildRingO_reported cring hs hb]
  unfold getHostForTokenO Spec.ownerO orderedHash
  have hl : (rendered cring).length = cring.length := by simp [rendered]
  rw [hl, lookupIdxO_rendered cring key hag, lookupIdxO_eq cring key hs]
  by_cases h0 : cring.length = 0
  · have : cring = [] := List.length_eq_zero_iff.mp h0
    subst this; rfl
  · rw [if_neg h0]
    simp only [rendered, List.getElem?_map, Option.map_map]
    rfl

example : (Spec.ownerO [([0x40], (⟨1, 1, 1⟩ : Host)), ([0x80], ⟨2, 1, 1⟩)] [0x41]).map (·.2.id) = some 2 := by decide

/-- `C10_cex_ordered_lookup` (kernel-checked counterexample to the full property): ring a = 0x40, b = 0x80 (reported as
the texts "40", "80"); the key with the single byte 0x50 lies in (0x40, 0x80] and belongs to b; the driver compares
0x50 = 'P' with the texts "40" and "80", finds it above both, wraps around and answers a. -/
theorem C10_cex_ordered_lookup :
    let cring : List OEntry := [([0x40], ⟨1, 1, 1⟩), ([0x80], ⟨2, 1, 1⟩)]
    SortedO cring ∧ (∀ e ∈ cring, IsBytes e.1) ∧
    (getHostForTokenO (buildRingO (Spec.reported cring)) (orderedHash [0x50])).map (·.2.id) = some 1 ∧
    (Spec.ownerO cring [0x50]).map (·.2.id) = some 2 := by
  refine ⟨by unfold SortedO; decide, by unfold IsBytes; decide, by decide, by decide⟩

/-! ## rings that are NOT strictly ascending (two claims of one token while a node is being replaced, any order)

`C10_no_panic`, `C10_nts_nodup`, `C10_nts_bound`, `C10_nts_bound_total`, `C10_nts_primary_first` above carry no
hypothesis on the token list at all: they hold for rings with equal tokens, in any order.  The same for SimpleStrategy: -/

theorem perm_insertRep (e : Int × List Host) : ∀ l : ReplicaRing, (insertRep e l).Perm (e :: l)
  | [] => List.Perm.refl _
  | x :: xs => by
    unfold insertRep
    split
    · exact List.Perm.refl _
    · exact ((perm_insertRep e xs).cons x).trans (List.Perm.swap e x xs)

theorem perm_sortReps : ∀ l : ReplicaRing, (sortReps l).Perm l
  | [] => List.Perm.refl _
  | y :: ys => by
    have h : sortReps (y :: ys) = insertRep y (sortReps ys) := rfl
    rw [h]
    exact (perm_insertRep y _).trans ((perm_sortReps ys).cons y)

/-- `C10_simple_any_ring`: for EVERY token list — equal tokens, any order, any number of tokens per node — every entry
of `simpleStrategy.replicaMap`'s result names no node twice and at most min(rf, distinct nodes of the ring) nodes. -/
theorem C10_simple_any_ring (rf : Nat) (tokens : List Entry) (e : Int × List Host)
    (he : e ∈ simpleReplicaMap rf tokens) : e.2.Nodup ∧ e.2.length ≤ min rf (distinctNodes tokens) := by
  unfold simpleReplicaMap at he
  rw [(perm_sortReps _).mem_iff] at he
  obtain ⟨i, _, rfl⟩ := List.mem_map.mp he
  simp only
  unfold simpleReplicasAt
  rw [simpleWalk_init]
  refine ⟨List.Sublist.nodup (List.take_sublist _ _) (nodup_firsts _), ?_⟩
  rw [List.length_take]
  have : (Spec.firsts ((rot tokens i).map (·.2))).length = distinctNodes tokens := by
    unfold distinctNodes
    apply length_firsts_congr
    intro x
    have hr : (rot tokens i).map (·.2) = rot (tokens.map (·.2)) i := by simp [rot]
    rw [hr, mem_rot]
  omega

example : simpleReplicaMap 2 [(5, ⟨1, 1, 1⟩), (5, ⟨2, 1, 1⟩), (5, ⟨1, 1, 1⟩)]
    = [(5, [⟨1, 1, 1⟩, ⟨2, 1, 1⟩]), (5, [⟨2, 1, 1⟩, ⟨1, 1, 1⟩]), (5, [⟨1, 1, 1⟩, ⟨2, 1, 1⟩])] := by decide

/-! ## a statement of topology.go no input can reach: `return true` in `networkTopology.haveRF` -/

theorem filter_split (d : Nat) : ∀ l : List Host,
    (l.filter (fun x => decide (x.dc = d))).length + (l.filter (fun x => !decide (x.dc = d))).length = l.length
  | [] => rfl
  | x :: r => by
    have := filter_split d r
    by_cases hx : x.dc = d <;> simp [hx] <;> omega

theorem sum_filter_le : ∀ (ks : List Nat), ks.Nodup → ∀ (l : List Host),
    (ks.map (fun d => (l.filter (fun x => decide (x.dc = d))).length)).sum ≤ l.length
  | [], _, l => by simp
  | d :: ks, hnd, l => by
    rw [List.nodup_cons] at hnd
    have ih := sum_filter_le ks hnd.2 (l.filter (fun x => !decide (x.dc = d)))
    have hsame : ks.map (fun d' => ((l.filter (fun x => !decide (x.dc = d))).filter (fun x => decide (x.dc = d'))).length)
        = ks.map (fun d' => (l.filter (fun x => decide (x.dc = d'))).length) := by
      apply List.map_congr_left
      intro d' hd'
      rw [List.filter_filter]
      congr 1
      apply List.filter_congr
      intro x _
      have hne : d' ≠ d := by intro e; subst e; exact hnd.1 hd'
      by_cases hx : x.dc = d'
      · have : ¬ x.dc = d := by intro e; exact hne (hx ▸ e)
        simp [hx, hne]
      · simp [hx]
    rw [hsame] at ih
    have hsplit := filter_split d l
    simp only [List.map_cons, List.sum_cons]
    omega

theorem haveRF_dead (c : NtsCfg) (st : NtsSt) (g : Good c st) (hk : (c.rfs.map (·.1)).Nodup)
    (htot : c.totalRF = (c.rfs.map (·.2)).sum) (hlt : st.replicas.length < c.totalRF) : haveRF c st = false := by
  cases h : haveRF c st with
  | false => rfl
  | true =>
    exfalso
    unfold haveRF at h
    simp only [Bool.and_eq_true, List.all_eq_true, beq_iff_eq] at h
    have h2 : c.rfs.map (·.2) = (c.rfs.map (·.1)).map (fun d => (st.replicas.filter (fun x => decide (x.dc = d))).length) := by
      rw [List.map_map]
      apply List.map_congr_left
      intro p hp
      simp only [Function.comp]
      rw [g.cnt p.1]
      exact h.2 p hp
    have := sum_filter_le (c.rfs.map (·.1)) hk st.replicas
    rw [← h2] at this
    omega

/-- `C10_haveRF_never_true`: the loop condition `len(replicas) < totalRF && !n.haveRF(replicasInDC)` evaluates `haveRF`
only while `len(replicas) < totalRF`; in every state the loop can be in (invariant `Good`, kept by every step:
`good_walk`) `haveRF` is then false — its final `return true` is unreachable for every ring and every rf map, which is
why no campaign ever covers that statement (TIECOV: haveRF 5/6). -/
theorem C10_haveRF_never_true (rfs : List (Nat × Nat)) (tokens : List Entry) (hkeys : (rfs.map (·.1)).Nodup)
    (st : NtsSt) (g : Good (cfgOf rfs tokens) st) (hlt : st.replicas.length < (cfgOf rfs tokens).totalRF) :
    haveRF (cfgOf rfs tokens) st = false :=
  haveRF_dead (cfgOf rfs tokens) st g hkeys rfl hlt

example : Good (cfgOf [(1, 2)] [(0, ⟨1, 1, 1⟩)]) (ntsReplicasAt (cfgOf [(1, 2)] [(0, ⟨1, 1, 1⟩)]) [(0, ⟨1, 1, 1⟩)] 0) ∧
    (ntsReplicasAt (cfgOf [(1, 2)] [(0, ⟨1, 1, 1⟩)]) [(0, ⟨1, 1, 1⟩)] 0).replicas.length < 2 := by
  refine ⟨?_, by decide⟩
  rw [ntsReplicasAt_eq]
  exact good_walk _ _ _ (good_init _)

/-! ## regression: the inputs of the repaired findings -/

/-- KF-C10-1 input {A:0,5; B:10; C:20}, one rack, rf {dc1:2}: token 0 ↦ [A, B], as Cassandra -/
example :
    (ntsReplicaMap [(1, 2)] [(0, ⟨1, 1, 1⟩), (5, ⟨1, 1, 1⟩), (10, ⟨2, 1, 1⟩), (20, ⟨3, 1, 1⟩)]).toOption
      = some [(0, [⟨1, 1, 1⟩, ⟨2, 1, 1⟩]), (5, [⟨1, 1, 1⟩, ⟨2, 1, 1⟩]), (10, [⟨2, 1, 1⟩, ⟨3, 1, 1⟩]),
              (20, [⟨3, 1, 1⟩, ⟨1, 1, 1⟩])] := by decide

example :
    [0, 5, 10, 20].map (Spec.nts [(0, ⟨1, 1, 1⟩), (5, ⟨1, 1, 1⟩), (10, ⟨2, 1, 1⟩), (20, ⟨3, 1, 1⟩)] [(1, 2)])
      = [[⟨1, 1, 1⟩, ⟨2, 1, 1⟩], [⟨1, 1, 1⟩, ⟨2, 1, 1⟩], [⟨2, 1, 1⟩, ⟨3, 1, 1⟩], [⟨3, 1, 1⟩, ⟨1, 1, 1⟩]] := by decide

/-- … and the loop WITHOUT the seen-host check (the code before the repair) on the same walk lists A twice -/
example :
    (walk0 (cfgOf [(1, 2)] [(0, ⟨1, 1, 1⟩), (5, ⟨1, 1, 1⟩), (10, ⟨2, 1, 1⟩), (20, ⟨3, 1, 1⟩)]) ntsInit
        [⟨1, 1, 1⟩, ⟨1, 1, 1⟩, ⟨2, 1, 1⟩, ⟨3, 1, 1⟩]).replicas = [⟨1, 1, 1⟩, ⟨1, 1, 1⟩] := by decide

/-- KF-C10-2 input: keyspace {dc1:1, dc2:1}, ring with dc1 and dc3: no panic, the dc1 token is mapped, the dc3 token
has no entry -/
example :
    (ntsReplicaMap [(1, 1), (2, 1)] [(0, ⟨1, 1, 1⟩), (10, ⟨2, 3, 1⟩)]).toOption = some [(0, [⟨1, 1, 1⟩])] := by decide

/-- … whereas the guard before the repair (number of keyspace DCs with rf > 0 = number of ring DCs) was on -/
example : ([(1, 1), (2, 1)].filter (fun p : Nat × Nat => decide (p.2 > 0))).length
    = (cfgOf [(1, 1), (2, 1)] [(0, ⟨1, 1, 1⟩), (10, ⟨2, 3, 1⟩)]).nDcRacks := by decide

/-- KF-C10-3 input: A(r1):0, B(r1):10, C(r2) without tokens, rf {dc1:2}: the token-less host is not part of the
topology any more, both tokens get two replicas, as in Cassandra -/
example :
    (ntsReplicaMap [(1, 2)] [(0, ⟨1, 1, 1⟩), (10, ⟨2, 1, 1⟩)]).toOption
      = some [(0, [⟨1, 1, 1⟩, ⟨2, 1, 1⟩]), (10, [⟨2, 1, 1⟩, ⟨1, 1, 1⟩])] := by decide

/-- … whereas with rack 2 of the token-less host counted in `dcRacks` (the code before the repair) the skipped host
is never drained -/
example :
    (walk0 (mkCfg [(1, 2)] [⟨1, 1, 1⟩, ⟨2, 1, 1⟩, ⟨3, 1, 2⟩]) ntsInit [⟨1, 1, 1⟩, ⟨2, 1, 1⟩]).replicas
      = [⟨1, 1, 1⟩] := by decide

end C10
