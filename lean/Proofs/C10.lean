import Model.Placement
import Proofs.C10Lookup
import Proofs.C10Simple
/-!
# C10 — replica sets for a token equal Cassandra's placement  (property theorems)

Model: `Model/Placement.lean` (namespace `Placement`, mirrors token.go / topology.go),
specification: `Placement.Spec` (Cassandra's firstTokenIndex / SimpleStrategy / NetworkTopologyStrategy 3.0).
All theorems quantify over every ring / replication setting / token; the only standing hypothesis on rings is
`Sorted` (strictly ascending tokens: what `sort.Sort` produces from pairwise distinct tokens).
-/
namespace C10
open Placement C10Lookup C10Simple

/-! ## ring lookup -/

/-- `GetHostForToken` / `replicasFor`: Go's binary search with wrap-around computes Cassandra's
`firstTokenIndex` (first ring token ≥ t, else index 0) — for every sorted ring and every token. -/
theorem C10_lookup {β : Type} (ring : List (Int × β)) (t : Int) (hs : Sorted ring) :
    lookupIdx ring t = Spec.ownerIdx ring t :=
  lookupIdx_eq_ownerIdx ring t hs

/-- the entry returned is the owner of the range (previous token, token], wrapping around: either its
token is ≥ t and every earlier token is < t (equal / between / below the smallest), or every ring token
is < t and it is entry 0 (above the largest). -/
theorem C10_lookup_owner (ring : List Entry) (t : Int) (hs : Sorted ring) (hne : ring ≠ []) :
    lookupIdx ring t < ring.length ∧
    getHostForToken ring t = ring[lookupIdx ring t]? ∧
    ((t ≤ tokAt ring (lookupIdx ring t) ∧ ∀ k, k < lookupIdx ring t → tokAt ring k < t) ∨
     (lookupIdx ring t = 0 ∧ ∀ k, k < ring.length → tokAt ring k < t)) := by
  rw [C10_lookup ring t hs]
  refine ⟨ownerIdx_lt ring t hne, ?_, ownerIdx_range ring t hne⟩
  unfold getHostForToken
  have : ring.length ≠ 0 := by
    have := List.length_pos_iff.mpr hne; omega
  rw [if_neg this, C10_lookup ring t hs]

example : getHostForToken [(0, ⟨1, 1, 1⟩), (10, ⟨2, 1, 1⟩)] 11 = some (0, ⟨1, 1, 1⟩) := by decide
example : getHostForToken [(0, ⟨1, 1, 1⟩), (10, ⟨2, 1, 1⟩)] 10 = some (10, ⟨2, 1, 1⟩) := by decide

/-- the literal Go index arithmetic of both placement loops is the rotation the model walks -/
theorem C10_walk_order (tokens : List Entry) (i : Nat) (hi : i < tokens.length) :
    walkIdx tokens i = rot tokens i :=
  walkIdx_eq_rot tokens i hi

/-! ## SimpleStrategy -/

/-- number of distinct nodes of a ring -/
def distinctNodes (ring : List Entry) : Nat := (Spec.firsts (ring.map (·.2))).length

/-- for every sorted ring (any number of vnodes), every rf and every lookup token: the replicas the driver
associates with the token (`replicasFor` on `simpleStrategy.replicaMap`) are Cassandra's:
the first `rf` distinct nodes clockwise from the owner of the token. -/
theorem C10_simple (ring : List Entry) (rf : Nat) (t : Int) (hs : Sorted ring) (hne : ring ≠ []) :
    (replicasFor (simpleReplicaMap rf ring) t).map (·.2) = some (Spec.simple ring rf t) := by
  rw [replicasFor_simple ring rf t hs hne]
  simp only [Option.map_some, Option.some.injEq]
  unfold simpleReplicasAt Spec.simple
  rw [simpleWalk_init, rot_owner_eq_clockwise ring t hs]

/-- empty ring: no entry (Pick then falls back), Cassandra has no replica either -/
theorem C10_simple_empty (rf : Nat) (t : Int) :
    replicasFor (simpleReplicaMap rf []) t = none ∧ Spec.simple [] rf t = [] := by
  constructor
  · rfl
  · simp [Spec.simple, Spec.clockwise, Spec.firsts]

/-- a simple replica list never contains a node twice -/
theorem C10_simple_nodup (ring : List Entry) (rf : Nat) (t : Int) : (Spec.simple ring rf t).Nodup :=
  List.Sublist.nodup (List.take_sublist _ _) (nodup_firsts _)

theorem mem_clockwise {β : Type} (ring : List (Int × β)) (t : Int) (x : Int × β) :
    x ∈ Spec.clockwise ring t ↔ x ∈ ring := by
  unfold Spec.clockwise
  simp only [List.mem_append, List.mem_filter, decide_eq_true_eq]
  constructor
  · rintro (h | h) <;> exact h.1
  · intro h
    by_cases hx : t ≤ x.1
    · exact Or.inl ⟨h, hx⟩
    · exact Or.inr ⟨h, by omega⟩

/-- its length is min(rf, number of distinct nodes of the ring) -/
theorem C10_simple_length (ring : List Entry) (rf : Nat) (t : Int) :
    (Spec.simple ring rf t).length = min rf (distinctNodes ring) := by
  unfold Spec.simple distinctNodes
  rw [List.length_take]
  congr 1
  apply length_firsts_congr
  intro x
  simp only [List.mem_map]
  constructor
  · rintro ⟨e, he, rfl⟩; exact ⟨e, (mem_clockwise ring t e).mp he, rfl⟩
  · rintro ⟨e, he, rfl⟩; exact ⟨e, (mem_clockwise ring t e).mpr he, rfl⟩

/-- the owner of the token's range comes first (whenever rf > 0) -/
theorem C10_simple_primary (ring : List Entry) (rf : Nat) (t : Int) (hs : Sorted ring) (hne : ring ≠ [])
    (hrf : 0 < rf) :
    (Spec.simple ring rf t).head? = (getHostForToken ring t).map (·.2) := by
  obtain ⟨hlt, hget, _⟩ := C10_lookup_owner ring t hs hne
  rw [hget, C10_lookup ring t hs]
  rw [C10_lookup ring t hs] at hlt
  unfold Spec.simple
  rw [← rot_owner_eq_clockwise ring t hs]
  unfold rot
  obtain ⟨k, hk⟩ : ∃ k, rf = k + 1 := ⟨rf - 1, by omega⟩
  have hcons : (List.drop (Spec.ownerIdx ring t) ring ++ List.take (Spec.ownerIdx ring t) ring).map (·.2)
      = ring[Spec.ownerIdx ring t].2 ::
        ((List.drop (Spec.ownerIdx ring t + 1) ring ++ List.take (Spec.ownerIdx ring t) ring).map (·.2)) := by
    rw [List.drop_eq_getElem_cons hlt]; rfl
  rw [hcons, hk, List.getElem?_eq_getElem hlt]
  simp only [Spec.firsts, List.take_succ_cons, List.head?_cons, Option.map_some]

example : (replicasFor (simpleReplicaMap 2 [(0, ⟨1, 1, 1⟩), (5, ⟨1, 1, 1⟩), (10, ⟨2, 1, 1⟩)]) 3).map (·.2)
    = some [⟨1, 1, 1⟩, ⟨2, 1, 1⟩] := by decide

end C10
