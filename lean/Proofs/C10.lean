import Model.Placement
namespace C10
open Placement
theorem C10_smoke : rot [1,2,3] 1 = [2,3,1] := by decide
end C10
