import Model.Placement
import Proofs.C10Lookup
import Proofs.C10Simple
import Proofs.C10Nts
import Proofs.C10NtsNodup
import Proofs.C10NtsSpec
/-!
# C10 — replica sets for a token equal Cassandra's placement  (property theorems)

Model: `Model/Placement.lean` (namespace `Placement`, mirrors token.go / topology.go),
specification: `Placement.Spec` (Cassandra's firstTokenIndex / SimpleStrategy / NetworkTopologyStrategy 3.0).
All theorems quantify over every ring / replication setting / token; the only standing hypothesis on rings is
`Sorted` (strictly ascending tokens: what `sort.Sort` produces from pairwise distinct tokens).
-/
namespace C10
open Placement C10Lookup C10Simple C10Nts C10NtsNodup C10NtsSpec

/-! ## ring lookup -/

/-- `GetHostForToken` / `replicasFor`: Go's binary search with wrap-around computes Cassandra's
`firstTokenIndex` (first ring token ≥ t, else index 0) — for every sorted ring and every token. -/
theorem C10_lookup {β : Type} (ring : List (Int × β)) (t : Int) (hs : Sorted ring) :
    lookupIdx ring t = Spec.ownerIdx ring t :=
  lookupIdx_eq_ownerIdx ring t hs

/-- the entry returned is the owner of the range (previous token, token], wrapping around: either its
token is ≥ t and every earlier token is < t (equal / between / below the smallest), or every ring token
is < t and it is entry 0 (above the largest). -/
theorem C10_lookup_owner (ring : List Entry) (t : Int) (hs : Sorted ring) (hne : ring ≠ []) :
    lookupIdx ring t < ring.length ∧
    getHostForToken ring t = ring[lookupIdx ring t]? ∧
    ((t ≤ tokAt ring (lookupIdx ring t) ∧ ∀ k, k < lookupIdx ring t → tokAt ring k < t) ∨
     (lookupIdx ring t = 0 ∧ ∀ k, k < ring.length → tokAt ring k < t)) := by
  rw [C10_lookup ring t hs]
  refine ⟨ownerIdx_lt ring t hne, ?_, ownerIdx_range ring t hne⟩
  unfold getHostForToken
  have : ring.length ≠ 0 := by
    have := List.length_pos_iff.mpr hne; omega
  rw [if_neg this, C10_lookup ring t hs]

example : getHostForToken [(0, ⟨1, 1, 1⟩), (10, ⟨2, 1, 1⟩)] 11 = some (0, ⟨1, 1, 1⟩) := by decide
example : getHostForToken [(0, ⟨1, 1, 1⟩), (10, ⟨2, 1, 1⟩)] 10 = some (10, ⟨2, 1, 1⟩) := by decide

/-- the literal Go index arithmetic of both placement loops is the rotation the model walks -/
theorem C10_walk_order (tokens : List Entry) (i : Nat) (hi : i < tokens.length) :
    walkIdx tokens i = rot tokens i :=
  walkIdx_eq_rot tokens i hi

/-! ## SimpleStrategy -/

/-- number of distinct nodes of a ring -/
def distinctNodes (ring : List Entry) : Nat := (Spec.firsts (ring.map (·.2))).length

/-- for every sorted ring (any number of vnodes), every rf and every lookup token: the replicas the driver
associates with the token (`replicasFor` on `simpleStrategy.replicaMap`) are Cassandra's:
the first `rf` distinct nodes clockwise from the owner of the token. -/
theorem C10_simple (ring : List Entry) (rf : Nat) (t : Int) (hs : Sorted ring) (hne : ring ≠ []) :
    (replicasFor (simpleReplicaMap rf ring) t).map (·.2) = some (Spec.simple ring rf t) := by
  rw [replicasFor_simple ring rf t hs hne]
  simp only [Option.map_some, Option.some.injEq]
  unfold simpleReplicasAt Spec.simple
  rw [simpleWalk_init, rot_owner_eq_clockwise ring t hs]

/-- empty ring: no entry (Pick then falls back), Cassandra has no replica either -/
theorem C10_simple_empty (rf : Nat) (t : Int) :
    replicasFor (simpleReplicaMap rf []) t = none ∧ Spec.simple [] rf t = [] := by
  constructor
  · rfl
  · simp [Spec.simple, Spec.clockwise, Spec.firsts]

/-- a simple replica list never contains a node twice -/
theorem C10_simple_nodup (ring : List Entry) (rf : Nat) (t : Int) : (Spec.simple ring rf t).Nodup :=
  List.Sublist.nodup (List.take_sublist _ _) (nodup_firsts _)

theorem mem_clockwise {β : Type} (ring : List (Int × β)) (t : Int) (x : Int × β) :
    x ∈ Spec.clockwise ring t ↔ x ∈ ring := by
  unfold Spec.clockwise
  simp only [List.mem_append, List.mem_filter, decide_eq_true_eq]
  constructor
  · rintro (h | h) <;> exact h.1
  · intro h
    by_cases hx : t ≤ x.1
    · exact Or.inl ⟨h, hx⟩
    · exact Or.inr ⟨h, by omega⟩

/-- its length is min(rf, number of distinct nodes of the ring) -/
theorem C10_simple_length (ring : List Entry) (rf : Nat) (t : Int) :
    (Spec.simple ring rf t).length = min rf (distinctNodes ring) := by
  unfold Spec.simple distinctNodes
  rw [List.length_take]
  congr 1
  apply length_firsts_congr
  intro x
  simp only [List.mem_map]
  constructor
  · rintro ⟨e, he, rfl⟩; exact ⟨e, (mem_clockwise ring t e).mp he, rfl⟩
  · rintro ⟨e, he, rfl⟩; exact ⟨e, (mem_clockwise ring t e).mpr he, rfl⟩

/-- the owner of the token's range comes first (whenever rf > 0) -/
theorem C10_simple_primary (ring : List Entry) (rf : Nat) (t : Int) (hs : Sorted ring) (hne : ring ≠ [])
    (hrf : 0 < rf) :
    (Spec.simple ring rf t).head? = (getHostForToken ring t).map (·.2) := by
  obtain ⟨hlt, hget, _⟩ := C10_lookup_owner ring t hs hne
  rw [hget, C10_lookup ring t hs]
  rw [C10_lookup ring t hs] at hlt
  unfold Spec.simple
  rw [← rot_owner_eq_clockwise ring t hs]
  unfold rot
  obtain ⟨k, hk⟩ : ∃ k, rf = k + 1 := ⟨rf - 1, by omega⟩
  have hcons : (List.drop (Spec.ownerIdx ring t) ring ++ List.take (Spec.ownerIdx ring t) ring).map (·.2)
      = ring[Spec.ownerIdx ring t].2 ::
        ((List.drop (Spec.ownerIdx ring t + 1) ring ++ List.take (Spec.ownerIdx ring t) ring).map (·.2)) := by
    rw [List.drop_eq_getElem_cons hlt]; rfl
  rw [hcons, hk, List.getElem?_eq_getElem hlt]
  simp only [Spec.firsts, List.take_succ_cons, List.head?_cons, Option.map_some]

example : (replicasFor (simpleReplicaMap 2 [(0, ⟨1, 1, 1⟩), (5, ⟨1, 1, 1⟩), (10, ⟨2, 1, 1⟩)]) 3).map (·.2)
    = some [⟨1, 1, 1⟩, ⟨2, 1, 1⟩] := by decide

/-! ## NetworkTopologyStrategy — what holds for EVERY ring and EVERY rf map (vnodes, unknown DCs, rf 0, rf > DC size) -/

/-- the replica map the loop builds when it does not panic: one entry per ring token whose primary's DC has rf > 0 -/
def ntsDesc (rfs : List (Nat × Nat)) (hosts : List Host) (tokens : List Entry) : ReplicaRing :=
  ((indexed tokens).filter (fun p => decide (rfOf rfs p.2.2.dc ≠ 0))).map
    (fun p => (p.2.1, (ntsReplicasAt (mkCfg rfs hosts) tokens p.1).replicas))

theorem nts_entry_good (rfs : List (Nat × Nat)) (hosts : List Host) (tokens : List Entry)
    (hh : ∀ e ∈ tokens, e.2 ∈ hosts) (p : Nat × Entry) (hp : p ∈ indexed tokens) :
    Good (mkCfg rfs hosts) (ntsReplicasAt (mkCfg rfs hosts) tokens p.1) ∧
    (rfOf rfs p.2.2.dc ≠ 0 → (ntsReplicasAt (mkCfg rfs hosts) tokens p.1).replicas.head? = some p.2.2) := by
  obtain ⟨hi, he⟩ := mem_indexed tokens p hp
  refine ⟨good_walk _ _ _ (good_init _), ?_⟩
  intro hrf
  unfold ntsReplicasAt
  rw [rot_head tokens p.1 hi, he, List.map_cons]
  have hm : p.2 ∈ tokens := he ▸ List.getElem_mem hi
  exact walk_head (mkCfg rfs hosts) rfl p.2.2 _ hrf (rack_known rfs hosts p.2.2 (hh p.2 hm))

theorem ntsLoop_desc (rfs : List (Nat × Nat)) (hosts : List Host) (tokens : List Entry)
    (hh : ∀ e ∈ tokens, e.2 ∈ hosts) :
    ntsLoop (mkCfg rfs hosts) tokens (indexed tokens) [] = .ok (ntsDesc rfs hosts tokens) := by
  rw [ntsLoop_ok (mkCfg rfs hosts) tokens (indexed tokens) []]
  · simp only [List.nil_append]; rfl
  · intro p hp hrf
    obtain ⟨g, hd⟩ := nts_entry_good rfs hosts tokens hh p hp
    exact ⟨g.nocrash, hd hrf⟩

/-- `C10_no_panic`, the part that holds unconditionally: for every ring built from the hosts (any vnodes, racks, DCs)
and every rf map, `networkTopology.replicaMap` either returns the described map or panics with
"token map different size to token ring" — the "replica overflow", "no replicas for token" and
"first replica is not the primary" panics can never fire. -/
theorem C10_nts_panic_only_size (rfs : List (Nat × Nat)) (hosts : List Host) (tokens : List Entry)
    (hh : ∀ e ∈ tokens, e.2 ∈ hosts) :
    ntsReplicaMap rfs hosts tokens = .ok (ntsDesc rfs hosts tokens) ∨
    ntsReplicaMap rfs hosts tokens = .error .sizeMismatch := by
  unfold ntsReplicaMap
  simp only [ntsLoop_desc rfs hosts tokens hh]
  by_cases hc : (rfs.filter (fun p => decide (p.2 > 0))).length = (mkCfg rfs hosts).nDcRacks ∧
      (ntsDesc rfs hosts tokens).length ≠ tokens.length
  · right; rw [if_pos hc]
  · left; rw [if_neg hc]

theorem indexed_length {α : Type} (l : List α) : (indexed l).length = l.length := by simp [indexed]

/-- FULL statement (false for the unchanged code, see `C10_cex_no_panic`):
      ∀ rfs hosts tokens, (∀ e ∈ tokens, e.2 ∈ hosts) → crashOf (ntsReplicaMap rfs hosts tokens) = none.
`_partial`: no panic when every datacenter of the ring has rf > 0 in the keyspace, or when the number of keyspace
DCs with rf > 0 differs from the number of ring DCs (the guard of the faulty sanity check is then off). -/
theorem C10_no_panic_partial (rfs : List (Nat × Nat)) (hosts : List Host) (tokens : List Entry)
    (hh : ∀ e ∈ tokens, e.2 ∈ hosts)
    (hyp : (∀ e ∈ tokens, rfOf rfs e.2.dc ≠ 0) ∨
           (rfs.filter (fun p => decide (p.2 > 0))).length ≠ (mkCfg rfs hosts).nDcRacks) :
    ntsReplicaMap rfs hosts tokens = .ok (ntsDesc rfs hosts tokens) := by
  unfold ntsReplicaMap
  simp only [ntsLoop_desc rfs hosts tokens hh]
  rcases hyp with hall | hne
  · have hlen : (ntsDesc rfs hosts tokens).length = tokens.length := by
      unfold ntsDesc
      rw [List.length_map, List.filter_eq_self.mpr, indexed_length]
      intro p hp
      obtain ⟨hi, he⟩ := mem_indexed tokens p hp
      have hm : p.2 ∈ tokens := he ▸ List.getElem_mem hi
      simpa using hall p.2 hm
    simp [hlen]
  · simp [hne]

/-- D2, kernel-checked: keyspace {dc1:1, dc2:1} on a ring with dc1 and dc3 panics
"token map different size to token ring". -/
theorem C10_cex_no_panic :
    crashOf (ntsReplicaMap [(1, 1), (2, 1)] [⟨1, 1, 1⟩, ⟨2, 3, 1⟩] [(0, ⟨1, 1, 1⟩), (10, ⟨2, 3, 1⟩)])
      = some Crash.sizeMismatch := by decide

/-- every entry of the map: per-DC replica count ≤ rf of that DC (for every ring — also with vnodes),
and the first replica is the primary of the entry's token. -/
theorem C10_nts_bound_rf (rfs : List (Nat × Nat)) (hosts : List Host) (tokens : List Entry)
    (hh : ∀ e ∈ tokens, e.2 ∈ hosts) (e : Int × List Host) (he : e ∈ ntsDesc rfs hosts tokens) (d : Nat) :
    (e.2.filter (fun x => decide (x.dc = d))).length ≤ rfOf rfs d := by
  unfold ntsDesc at he
  obtain ⟨p, hp, rfl⟩ := List.mem_map.mp he
  obtain ⟨g, _⟩ := nts_entry_good rfs hosts tokens hh p (List.mem_filter.mp hp).1
  rw [g.cnt d]
  exact g.le d

theorem C10_nts_primary_first (rfs : List (Nat × Nat)) (hosts : List Host) (tokens : List Entry)
    (hh : ∀ e ∈ tokens, e.2 ∈ hosts) (e : Int × List Host) (he : e ∈ ntsDesc rfs hosts tokens) :
    ∃ th ∈ tokens, th.1 = e.1 ∧ e.2.head? = some th.2 := by
  unfold ntsDesc at he
  obtain ⟨p, hp, rfl⟩ := List.mem_map.mp he
  obtain ⟨hpi, hrf⟩ := List.mem_filter.mp hp
  obtain ⟨hi, hel⟩ := mem_indexed tokens p hpi
  obtain ⟨_, hd⟩ := nts_entry_good rfs hosts tokens hh p hpi
  exact ⟨p.2, hel ▸ List.getElem_mem hi, rfl, hd (by simpa using hrf)⟩

/-- D1, kernel-checked: ring {A:0,5; B:10; C:20}, one rack, rf {dc1:2}: token 0 ↦ [A, A]. -/
theorem C10_cex_nts_dup :
    (ntsReplicaMap [(1, 2)] [⟨1, 1, 1⟩, ⟨2, 1, 1⟩, ⟨3, 1, 1⟩]
        [(0, ⟨1, 1, 1⟩), (5, ⟨1, 1, 1⟩), (10, ⟨2, 1, 1⟩), (20, ⟨3, 1, 1⟩)]).toOption
      = some [(0, [⟨1, 1, 1⟩, ⟨1, 1, 1⟩]), (5, [⟨1, 1, 1⟩, ⟨2, 1, 1⟩]), (10, [⟨2, 1, 1⟩, ⟨3, 1, 1⟩]),
              (20, [⟨3, 1, 1⟩, ⟨1, 1, 1⟩])] := by decide

/-- … whereas Cassandra places token 0 on [A, B] -/
theorem C10_cex_nts_dup_spec :
    Spec.nts [(0, ⟨1, 1, 1⟩), (5, ⟨1, 1, 1⟩), (10, ⟨2, 1, 1⟩), (20, ⟨3, 1, 1⟩)] [(1, 2)] 0
      = [⟨1, 1, 1⟩, ⟨2, 1, 1⟩] := by decide

/-! ## NetworkTopologyStrategy — what holds only without vnodes on the unchanged code -/

/-- hypothesis excluding the recorded defect D1: every node owns exactly one ring token -/
def OneTokenPerNode (tokens : List Entry) : Prop := (tokens.map (·.2)).Nodup

theorem nts_entry_j (rfs : List (Nat × Nat)) (hosts : List Host) (tokens : List Entry)
    (h1 : OneTokenPerNode tokens) (i : Nat) :
    J (rot (tokens.map (·.2)) i) (ntsReplicasAt (mkCfg rfs hosts) tokens i) := by
  have hr : (rot tokens i).map (·.2) = rot (tokens.map (·.2)) i := by simp [rot]
  unfold ntsReplicasAt
  rw [hr]
  have := j_walk (mkCfg rfs hosts) (rot (tokens.map (·.2)) i) [] ntsInit
    (by simpa using rot_nodup _ i h1) (good_init _) j_init
  simpa using this

/-- FULL statement (false for the unchanged code, see `C10_cex_nts_dup`):
      ∀ rfs hosts tokens, ∀ e ∈ ntsDesc rfs hosts tokens, e.2.Nodup.
`_partial`: with one token per node no replica list contains a node twice. -/
theorem C10_nts_nodup_partial (rfs : List (Nat × Nat)) (hosts : List Host) (tokens : List Entry)
    (h1 : OneTokenPerNode tokens) (e : Int × List Host) (he : e ∈ ntsDesc rfs hosts tokens) : e.2.Nodup := by
  unfold ntsDesc at he
  obtain ⟨p, _, rfl⟩ := List.mem_map.mp he
  exact (nts_entry_j rfs hosts tokens h1 p.1).rnd

/-- `_partial` (one token per node): per datacenter a replica list holds at most min(rf, nodes of the DC) nodes.
(The rf half holds for every ring: `C10_nts_bound_rf`; the node-count half fails with vnodes: [A, A].) -/
theorem C10_nts_bound_partial (rfs : List (Nat × Nat)) (hosts : List Host) (tokens : List Entry)
    (hh : ∀ e ∈ tokens, e.2 ∈ hosts) (h1 : OneTokenPerNode tokens)
    (e : Int × List Host) (he : e ∈ ntsDesc rfs hosts tokens) (d : Nat) :
    (e.2.filter (fun x => decide (x.dc = d))).length ≤
      min (rfOf rfs d) (((tokens.map (·.2)).filter (fun x => decide (x.dc = d))).length) := by
  have hb := C10_nts_bound_rf rfs hosts tokens hh e he d
  have hnd := C10_nts_nodup_partial rfs hosts tokens h1 e he
  unfold ntsDesc at he
  obtain ⟨p, _, rfl⟩ := List.mem_map.mp he
  have j := nts_entry_j rfs hosts tokens h1 p.1
  have := nodup_subset_length_le
    ((ntsReplicasAt (mkCfg rfs hosts) tokens p.1).replicas.filter (fun x => decide (x.dc = d)))
    ((tokens.map (·.2)).filter (fun x => decide (x.dc = d)))
    (List.Sublist.nodup List.filter_sublist hnd)
    (by
      intro x hx
      rw [List.mem_filter] at hx ⊢
      exact ⟨(mem_rot _ _ x).mp (j.rp x hx.1), hx.2⟩)
  exact Nat.le_min.mpr ⟨hb, this⟩

example : OneTokenPerNode [(0, ⟨1, 1, 1⟩), (10, ⟨2, 1, 2⟩), (20, ⟨3, 2, 1⟩)] := by
  unfold OneTokenPerNode; decide

/-! ## NetworkTopologyStrategy: model = Cassandra (one token per node) -/

theorem ownerIdx_self (ring : List Entry) (hs : Sorted ring) (i : Nat) (hi : i < ring.length) :
    Spec.ownerIdx ring (ring[i].1) = i := by
  unfold Spec.ownerIdx
  have : ring.findIdx (fun e => decide (ring[i].1 ≤ e.1)) = i := by
    rw [List.findIdx_eq hi]
    refine ⟨by simp, ?_⟩
    intro j hji
    have := (List.pairwise_iff_getElem.mp hs) j i (by omega) hi hji
    simp only [decide_eq_false_iff_not]; omega
  rw [this, if_pos hi]

theorem nodup_foldl_setAdd {α : Type} [DecidableEq α] (l : List α) : ∀ (acc : List α), acc.Nodup →
    (l.foldl setAdd acc).Nodup := by
  induction l with
  | nil => intro acc h; exact h
  | cons a r ih =>
    intro acc h
    simp only [List.foldl_cons]
    apply ih
    unfold setAdd
    by_cases ha : a ∈ acc
    · simp [ha, h]
    · simp only [ha, if_false]
      rw [List.nodup_append]
      exact ⟨h, by simp, by intro x hx y hy; simp at hy; subst hy; intro e; subst e; exact ha hx⟩

theorem nodup_toSet {α : Type} [DecidableEq α] (l : List α) : (toSet l).Nodup :=
  nodup_foldl_setAdd l [] (by simp)

/-- the environment in which the simulation runs: ring without vnodes, hosts = the ring's nodes -/
theorem env_of (rfs : List (Nat × Nat)) (hosts : List Host) (ring : List Entry)
    (h1 : OneTokenPerNode ring) (hhosts : ∀ x, x ∈ hosts ↔ x ∈ ring.map (·.2))
    (hkeys : (rfs.map (·.1)).Nodup) (i : Nat) :
    Env (mkCfg rfs hosts) (Spec.topoOf ring) ([] ++ rot (ring.map (·.2)) i) := by
  have hf : Spec.firsts (ring.map (·.2)) = ring.map (·.2) := firsts_of_nodup _ h1
  refine ⟨?_, ?_, ?_, by simpa using rot_nodup _ i h1, hkeys, rfl⟩
  · intro d
    simp only [Spec.topoOf, mkCfg, hf]
    apply List.Perm.length_eq
    rw [List.perm_ext_iff_of_nodup (nodup_firsts _) (nodup_toSet _)]
    intro r
    rw [mem_firsts, mem_toSet]
    simp only [List.mem_map, List.mem_filter, decide_eq_true_eq]
    constructor
    · rintro ⟨x, ⟨hx, hd⟩, rfl⟩; exact ⟨x, ⟨(hhosts x).mpr (by simpa using hx), hd⟩, rfl⟩
    · rintro ⟨x, ⟨hx, hd⟩, rfl⟩; exact ⟨x, ⟨by simpa using (hhosts x).mp hx, hd⟩, rfl⟩
  · intro x hx
    simp only [List.nil_append] at hx
    exact rack_known rfs hosts x ((hhosts x).mpr ((mem_rot _ _ x).mp hx))
  · intro d
    simp only [Spec.topoOf, hf, List.nil_append]
    apply nodup_subset_length_le
    · exact List.Sublist.nodup List.filter_sublist (rot_nodup _ i h1)
    · intro x hx
      rw [List.mem_filter] at hx ⊢
      exact ⟨(mem_rot _ _ x).mp hx.1, hx.2⟩

/-- FULL statement (false for the unchanged code because of D1, `C10_cex_nts_dup` / `C10_cex_nts_dup_spec`):
      every entry of networkTopology.replicaMap's result holds Cassandra's replicas of the entry's token.
`_partial`: proved for rings with one token per node whose hosts are the ring's nodes (every host owns a token),
for every rf map (rf 0, rf larger than the DC, DCs unknown to the ring), any number of DCs and racks. -/
theorem C10_nts_equal_partial (rfs : List (Nat × Nat)) (hosts : List Host) (ring : List Entry)
    (hs : Sorted ring) (h1 : OneTokenPerNode ring) (hhosts : ∀ x, x ∈ hosts ↔ x ∈ ring.map (·.2))
    (hkeys : (rfs.map (·.1)).Nodup)
    (e : Int × List Host) (he : e ∈ ntsDesc rfs hosts ring) : e.2 = Spec.nts ring rfs e.1 := by
  unfold ntsDesc at he
  obtain ⟨p, hp, rfl⟩ := List.mem_map.mp he
  obtain ⟨hi, hel⟩ := mem_indexed ring p (List.mem_filter.mp hp).1
  simp only
  unfold Spec.nts ntsReplicasAt
  rw [← hel, ← rot_owner_eq_clockwise ring _ hs, ownerIdx_self ring hs p.1 hi]
  have hr : (rot ring p.1).map (·.2) = rot (ring.map (·.2)) p.1 := by simp [rot]
  rw [hr]
  exact sim_walk (mkCfg rfs hosts) (Spec.topoOf ring) (rot (ring.map (·.2)) p.1) [] ntsInit Spec.init
    (env_of rfs hosts ring h1 hhosts hkeys p.1) (good_init _) j_init (sim_init _)

example : Spec.nts [(0, ⟨1, 1, 1⟩), (10, ⟨2, 1, 1⟩), (20, ⟨3, 1, 2⟩)] [(1, 2)] 0 = [⟨1, 1, 1⟩, ⟨3, 1, 2⟩] := by decide

end C10
