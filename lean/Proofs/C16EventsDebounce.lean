import Model.ClusterView
/-! helper lemmas: the refresh debouncer turns any number of requests made within one interval into at
most two refreshes (potential-function argument over all interleavings of requests, timer, flusher) -/
namespace C16
open ClusterView

def early (T : Nat) (d : RDeb) : Bool :=
  d.fired || d.nowPending || (match d.deadline with | some dl => decide (dl < T) | none => false)
def late (d : RDeb) : Bool := d.fired || d.nowPending || d.deadline.isSome

/-- an upper bound on the refreshes still to come when no request is made at or after time `T` -/
def phi (T : Nat) (d : RDeb) : Nat :=
  if d.now < T then 1 + (if early T d then 1 else 0) else (if late d then 1 else 0)

theorem phi_le_two (T : Nat) (d : RDeb) : phi T d ≤ 2 := by
  unfold phi; split <;> split <;> omega

theorem rstep_now (I : Nat) (d : RDeb) (a : RAct) : d.now ≤ (rstep I d a).now := by
  cases a <;> simp only [rstep]
  · cases d.deadline with
    | none => simp
    | some dl => dsimp only; split <;> simp
  · exact Nat.le_refl _
  · exact Nat.le_refl _
  · split <;> exact Nat.le_refl _
  · exact Nat.le_refl _

theorem rstep_phi (I T : Nat) (d : RDeb) (a : RAct) (hT : T ≤ d.now + I) (ha : a ≠ .refreshNow)
    (hd : a = .debounce → d.now < T) :
    (rstep I d a).refreshes + phi T (rstep I d a) ≤ d.refreshes + phi T d := by
  obtain ⟨now, deadline, fired, nowPending, busy, refreshes⟩ := d
  cases a with
  | refreshNow => exact absurd rfl ha
  | done => simp [rstep, phi, early, late]
  | debounce =>
    have hlt : now < T := hd rfl
    have hnot : ¬ (now + I < T) := by simp only at hT; omega
    simp only [rstep, phi, early, hlt, ↓reduceIte, hnot, decide_false, Bool.or_false]
    cases fired <;> cases nowPending <;> cases deadline <;> simp <;> split <;> omega
  | wake =>
    simp only [rstep, phi, early, late]
    cases busy <;> cases fired <;> cases nowPending <;> simp <;> (try split) <;> (try split) <;> omega
  | tick =>
    simp only [rstep, phi, early, late]
    cases deadline with
    | none =>
      simp only [Option.isSome_none, Bool.or_false]
      by_cases h1 : now + 1 < T
      · have h0 : now < T := by omega
        simp [h1, h0]
      · by_cases h0 : now < T
        · simp only [h1, h0, ↓reduceIte]
          split <;> omega
        · simp [h1, h0]
    | some dl =>
      dsimp only
      by_cases hf : dl ≤ now + 1
      · simp only [hf, ↓reduceIte, Bool.true_or, Bool.or_true, Option.isSome_some]
        by_cases h1 : now + 1 < T
        · have h0 : now < T := by omega
          have h2 : dl < T := by omega
          simp [h1, h0, h2]
        · by_cases h0 : now < T
          · simp only [h1, h0, ↓reduceIte]; omega
          · simp [h1, h0]
      · simp only [hf, ↓reduceIte, Option.isSome_some, Bool.or_true]
        by_cases h1 : now + 1 < T
        · have h0 : now < T := by omega
          simp [h1, h0]
        · by_cases h0 : now < T
          · simp only [h1, h0, ↓reduceIte]; omega
          · simp [h1, h0]

/-- along the run: every `debounce()` happens before time `T`, nobody calls `refreshNow()` -/
def ReqsBefore (I T : Nat) : RDeb → List RAct → Prop
  | _, [] => True
  | d, a :: as => (a = .debounce → d.now < T) ∧ a ≠ .refreshNow ∧ ReqsBefore I T (rstep I d a) as

instance decReqsBefore (I T : Nat) : (d : RDeb) → (as : List RAct) → Decidable (ReqsBefore I T d as)
  | _, [] => isTrue trivial
  | d, a :: as =>
    have := decReqsBefore I T (rstep I d a) as
    inferInstanceAs (Decidable ((a = .debounce → d.now < T) ∧ a ≠ .refreshNow ∧ ReqsBefore I T (rstep I d a) as))

theorem rrun_phi (I T : Nat) (as : List RAct) : ∀ (d : RDeb), T ≤ d.now + I → ReqsBefore I T d as →
    (rrun I d as).refreshes + phi T (rrun I d as) ≤ d.refreshes + phi T d := by
  induction as with
  | nil => intro d _ _; exact Nat.le_refl _
  | cons a t ih =>
    intro d hT hr
    simp only [rrun, List.foldl_cons]
    have h1 := rstep_phi I T d a hT hr.2.1 hr.1
    have hn := rstep_now I d a
    have h2 := ih (rstep I d a) (by omega) hr.2.2
    simp only [rrun] at h2
    omega

end C16
