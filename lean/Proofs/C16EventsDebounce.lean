import Model.ClusterView
/-! helper lemmas: the refresh debouncer turns any number of requests made within one interval into at
most two refreshes (potential-function argument over all interleavings of requests, timer, flusher) -/
namespace C16
open ClusterView

def early (T : Nat) (d : RDeb) : Bool :=
  d.fired || d.nowPending || (match d.deadline with | some dl => decide (dl < T) | none => false)
def late (d : RDeb) : Bool := d.fired || d.nowPending || d.deadline.isSome

/-- an upper bound on the refreshes still to come when no request is made at or after time `T` (a flusher that
has left its select starts one refresh for certain, which clears everything pending) -/
def phi (T : Nat) (d : RDeb) : Nat :=
  if d.phase = .woken then 1 + (if d.now < T then 1 else 0)
  else if d.now < T then 1 + (if early T d then 1 else 0) else (if late d then 1 else 0)

theorem phi_le_two (T : Nat) (d : RDeb) : phi T d ≤ 2 := by
  unfold phi; split <;> (try split) <;> (try split) <;> omega

theorem rstep_now (I : Nat) (d : RDeb) (a : RAct) : d.now ≤ (rstep I d a).now := by
  cases a <;> simp only [rstep, rstepWith, id]
  · cases d.deadline with
    | none => simp
    | some dl => dsimp only; split <;> simp
  all_goals (try split) <;> exact Nat.le_refl _

theorem rstep_phi (I T : Nat) (d : RDeb) (a : RAct) (hT : T ≤ d.now + I) (ha : a ≠ .refreshNow)
    (hd : a = .debounce → d.now < T) :
    (rstep I d a).refreshes + phi T (rstep I d a) ≤ d.refreshes + phi T d := by
  obtain ⟨now, deadline, fired, nowPending, bc, phase, refreshes⟩ := d
  cases a with
  | refreshNow => exact absurd rfl ha
  | done =>
    cases phase <;> simp [rstep, rstepWith, phi, early, late]
  | debounce =>
    have hlt : now < T := hd rfl
    have hnot : ¬ (now + I < T) := by simp only at hT; omega
    cases phase <;> simp only [rstep, rstepWith, phi, early, hlt, ↓reduceIte, hnot, decide_false, Bool.or_false, reduceCtorEq] <;>
      cases fired <;> cases nowPending <;> cases deadline <;> simp <;> (try split) <;> omega
  | wakeT =>
    cases phase <;> cases fired <;> simp [rstep, rstepWith, phi, early, late] <;> (try split) <;> (try split) <;> omega
  | wakeN =>
    cases phase <;> cases nowPending <;> simp [rstep, rstepWith, phi, early, late] <;> (try split) <;> (try split) <;> omega
  | start =>
    cases phase <;> simp [rstep, rstepWith, phi, early, late] <;> (try split) <;> omega
  | tick =>
    by_cases hw : phase = .woken
    · subst hw
      simp only [rstep, rstepWith, phi]
      cases deadline with
      | none => simp only [↓reduceIte]; split <;> split <;> omega
      | some dl => dsimp only; split <;> simp only [↓reduceIte] <;> split <;> split <;> omega
    · have hw' : ∀ (d' : RDeb), d'.phase = phase → phi T d' =
          (if d'.now < T then 1 + (if early T d' then 1 else 0) else (if late d' then 1 else 0)) := by
        intro d' h; unfold phi; rw [h]; simp [hw]
      simp only [rstep, rstepWith]
      cases deadline with
      | none =>
        rw [hw' _ rfl, hw' _ rfl]
        simp only [early, late, Option.isSome_none, Bool.or_false]
        by_cases h1 : now + 1 < T
        · have h0 : now < T := by omega
          simp [h1, h0]
        · by_cases h0 : now < T
          · simp only [h1, h0, ↓reduceIte]
            split <;> omega
          · simp [h1, h0]
      | some dl =>
        dsimp only
        by_cases hf : dl ≤ now + 1
        · simp only [hf, ↓reduceIte]
          rw [hw' _ rfl, hw' _ rfl]
          simp only [early, late, Bool.true_or, Bool.or_true, Option.isSome_some]
          by_cases h1 : now + 1 < T
          · have h0 : now < T := by omega
            have h2 : dl < T := by omega
            simp [h1, h0, h2]
          · by_cases h0 : now < T
            · simp only [h1, h0, ↓reduceIte]; omega
            · simp [h1, h0]
        · simp only [hf, ↓reduceIte]
          rw [hw' _ rfl, hw' _ rfl]
          simp only [early, late, Option.isSome_some, Bool.or_true]
          by_cases h1 : now + 1 < T
          · have h0 : now < T := by omega
            simp [h1, h0]
          · by_cases h0 : now < T
            · simp only [h1, h0, ↓reduceIte]; omega
            · simp [h1, h0]

/-- along the run: every `debounce()` happens before time `T`, nobody calls `refreshNow()` -/
def ReqsBefore (I T : Nat) : RDeb → List RAct → Prop
  | _, [] => True
  | d, a :: as => (a = .debounce → d.now < T) ∧ a ≠ .refreshNow ∧ ReqsBefore I T (rstep I d a) as

instance decReqsBefore (I T : Nat) : (d : RDeb) → (as : List RAct) → Decidable (ReqsBefore I T d as)
  | _, [] => isTrue trivial
  | d, a :: as =>
    have := decReqsBefore I T (rstep I d a) as
    inferInstanceAs (Decidable ((a = .debounce → d.now < T) ∧ a ≠ .refreshNow ∧ ReqsBefore I T (rstep I d a) as))

theorem rrun_phi (I T : Nat) (as : List RAct) : ∀ (d : RDeb), T ≤ d.now + I → ReqsBefore I T d as →
    (rrun I d as).refreshes + phi T (rrun I d as) ≤ d.refreshes + phi T d := by
  induction as with
  | nil => intro d _ _; exact Nat.le_refl _
  | cons a t ih =>
    intro d hT hr
    simp only [rrun, List.foldl_cons]
    have h1 := rstep_phi I T d a hT hr.2.1 hr.1
    have hn := rstep_now I d a
    have h2 := ih (rstep I d a) (by omega) hr.2.2
    simp only [rrun] at h2
    omega

end C16
