import Gen.Frame
import Model.FrameWrite
/-!
  Tie theorems between the primitive writers REGENERATED from /repo/frame.go by tools/go2lean (`Gen.Frame`) and the
  hand-written request model the C03 theorems are about (`FrameWrite.wShort/wUInt/wInt/wLong`).
-/
namespace GenTie.Frame
open FrameWrite

/-- the low byte of an arithmetic shift that stays inside the word is the low byte of the logical shift -/
theorem low_byte_sshift {w : Nat} (n : BitVec w) (k : Nat) (h : k + 8 ≤ w) :
    (BitVec.sshiftRight n k).setWidth 8 = (n >>> k).setWidth 8 := by
  apply BitVec.eq_of_getLsbD_eq
  intro i hi
  have h1 : k + i < w := by omega
  have h2 : ¬ w ≤ i := by omega
  simp [BitVec.getLsbD_sshiftRight, hi, h1, h2]

theorem low_byte {w : Nat} (n : BitVec w) (k : Nat) :
    UInt8.ofBitVec ((n >>> k).setWidth 8) = byteOf (n.toNat / 2^k) := by
  unfold byteOf
  apply UInt8.toBitVec_inj.mp
  apply BitVec.eq_of_toNat_eq
  simp [BitVec.toNat_setWidth, BitVec.toNat_ushiftRight, Nat.shiftRight_eq_div_pow]

theorem low_byte0 {w : Nat} (n : BitVec w) : UInt8.ofBitVec (n.setWidth 8) = byteOf n.toNat := by
  have := low_byte n 0; simpa using this

/-- `appendShort(p, n)` -/
theorem appendShort (p : List (BitVec 8)) (n : Nat) (h : n < 65536) :
    (Gen.Frame.appendShort p (BitVec.ofNat 16 n)).map UInt8.ofBitVec = p.map UInt8.ofBitVec ++ wShort n := by
  have e : (BitVec.ofNat 16 n).toNat = n := by simp; omega
  simp only [Gen.Frame.appendShort, wShort, List.map_append, List.map_cons, List.map_nil, low_byte, e]
  simp only [low_byte0, e]

/-- `appendUint(p, n)` -/
theorem appendUint (p : List (BitVec 8)) (n : Nat) (h : n < 4294967296) :
    (Gen.Frame.appendUint p (BitVec.ofNat 32 n)).map UInt8.ofBitVec = p.map UInt8.ofBitVec ++ wUInt n := by
  have e : (BitVec.ofNat 32 n).toNat = n := by simp; omega
  simp only [Gen.Frame.appendUint, wUInt, List.map_append, List.map_cons, List.map_nil, low_byte, e]
  simp only [low_byte0, e]

/-- `appendInt(p, n)`: the model's `wInt z` for every int32 -/
theorem appendInt (p : List (BitVec 8)) (z : Int) :
    (Gen.Frame.appendInt p (BitVec.ofInt 32 z)).map UInt8.ofBitVec = p.map UInt8.ofBitVec ++ wInt z := by
  have e : (BitVec.ofInt 32 z).toNat = (z % 4294967296).toNat := by simp [BitVec.toNat_ofInt]
  simp only [Gen.Frame.appendInt, wInt, wUInt, List.map_append, List.map_cons, List.map_nil,
    low_byte_sshift (w := 32) _ 24 (by decide), low_byte_sshift (w := 32) _ 16 (by decide), low_byte_sshift (w := 32) _ 8 (by decide),
    low_byte, e]
  simp only [low_byte0, e]

/-- `appendLong(p, n)`: the model's `wLong z` for every int64 -/
theorem appendLong (p : List (BitVec 8)) (z : Int) :
    (Gen.Frame.appendLong p (BitVec.ofInt 64 z)).map UInt8.ofBitVec = p.map UInt8.ofBitVec ++ wLong z := by
  have e : (BitVec.ofInt 64 z).toNat = (z % 18446744073709551616).toNat := by simp [BitVec.toNat_ofInt]
  simp only [Gen.Frame.appendLong, wLong, wUInt, List.map_append, List.map_cons, List.map_nil,
    low_byte_sshift (w := 64) _ 56 (by decide), low_byte_sshift (w := 64) _ 48 (by decide),
    low_byte_sshift (w := 64) _ 40 (by decide), low_byte_sshift (w := 64) _ 32 (by decide),
    low_byte_sshift (w := 64) _ 24 (by decide), low_byte_sshift (w := 64) _ 16 (by decide),
    low_byte_sshift (w := 64) _ 8 (by decide), low_byte, e]
  simp only [low_byte0, e]
  generalize (z % 18446744073709551616).toNat = n
  simp [Nat.div_div_eq_div_mul]

/-- `protoVersion.request/response/version`: direction bit and version mask -/
theorem proto_version (p : BitVec 8) :
    Gen.Frame.protoVersion_request p = !(p.getLsbD 7) ∧ Gen.Frame.protoVersion_response p = p.getLsbD 7 ∧
    (Gen.Frame.protoVersion_version p).toNat = p.toNat % 128 := by
  refine ⟨?_, ?_, ?_⟩
  · revert p; decide
  · revert p; decide
  · revert p; decide


theorem byteOf_congr {a b : Nat} (h : a % 256 = b % 256) : byteOf a = byteOf b := by
  unfold byteOf
  apply UInt8.toNat_inj.mp
  simp [h]

/-- `writeHeader` followed by `setLength`: the model's header, for both stream widths -/
theorem header (buf0 : List (BitVec 8)) (p fl op : BitVec 8) (stream : Int) (len : Nat) (hl : len < 2^63) :
    (Gen.Frame.setLength p (Gen.Frame.writeHeader buf0 p fl op (BitVec.ofInt 64 stream)) (BitVec.ofNat 64 len)).map UInt8.ofBitVec
      = wHeader p.toNat fl.toNat stream op.toNat len := by
  have e : (BitVec.ofInt 64 stream).toNat = (stream % 18446744073709551616).toNat := by simp [BitVec.toNat_ofInt]
  have el : (BitVec.ofNat 64 len).toNat = len := by simp; omega
  have hb : ∀ x : BitVec 8, UInt8.ofBitVec x = byteOf x.toNat := by
    intro x; have := low_byte0 x; simpa using this
  unfold Gen.Frame.setLength Gen.Frame.writeHeader wHeader
  by_cases h : BitVec.ult 0x2#8 p
  · have hv : p.toNat > 2 := by simpa [BitVec.ult] using h
    simp only [h, if_true, hv]
    simp [low_byte_sshift (w := 64) _ 24 (by decide), low_byte_sshift (w := 64) _ 16 (by decide),
      low_byte_sshift (w := 64) _ 8 (by decide), e, el, hb, wUInt]
    simp only [Nat.shiftRight_eq_div_pow]
    refine ⟨?_, ?_, ?_, ?_, ?_, ?_⟩ <;> apply byteOf_congr <;> omega
  · have hv : ¬ p.toNat > 2 := by simpa [BitVec.ult] using h
    simp only [h, hv]
    simp [low_byte_sshift (w := 64) _ 24 (by decide), low_byte_sshift (w := 64) _ 16 (by decide),
      low_byte_sshift (w := 64) _ 8 (by decide), e, el, hb, wUInt]
    simp only [Nat.shiftRight_eq_div_pow]
    refine ⟨?_, ?_, ?_, ?_, ?_⟩ <;> apply byteOf_congr <;> omega

/-! ### The framer's primitive writers (methods with the pointer receiver `f *framer`, translated as functions from
  the receiver field `f.buf` they read to the field they assign): each appends the model's bytes to the buffer -/

theorem wShort_mod (n : Nat) : wShort (n % 65536) = wShort n := by
  unfold wShort
  congr 1
  · apply byteOf_congr; omega
  · congr 1; apply byteOf_congr; omega

theorem map_ofBitVec_toBitVec (s : List UInt8) : (s.map (·.toBitVec)).map UInt8.ofBitVec = s := by
  induction s with
  | nil => rfl
  | cons a s ih => simp [ih]

/-- `appendShort` for every uint16 -/
theorem appendShort16 (p : List (BitVec 8)) (v : BitVec 16) :
    (Gen.Frame.appendShort p v).map UInt8.ofBitVec = p.map UInt8.ofBitVec ++ wShort v.toNat := by
  have := appendShort p v.toNat v.isLt
  simpa using this

theorem writeByte (buf : List (BitVec 8)) (b : BitVec 8) :
    (Gen.Frame.framer_writeByte buf b).map UInt8.ofBitVec = buf.map UInt8.ofBitVec ++ [UInt8.ofBitVec b] := by
  simp [Gen.Frame.framer_writeByte]

theorem writeShort (buf : List (BitVec 8)) (v : BitVec 16) :
    (Gen.Frame.framer_writeShort buf v).map UInt8.ofBitVec = buf.map UInt8.ofBitVec ++ wShort v.toNat :=
  appendShort16 buf v

theorem writeConsistency (buf : List (BitVec 8)) (v : BitVec 16) :
    (Gen.Frame.framer_writeConsistency buf v).map UInt8.ofBitVec = buf.map UInt8.ofBitVec ++ wShort v.toNat :=
  appendShort16 buf v

theorem writeInt (buf : List (BitVec 8)) (z : Int) :
    (Gen.Frame.framer_writeInt buf (BitVec.ofInt 32 z)).map UInt8.ofBitVec = buf.map UInt8.ofBitVec ++ wInt z :=
  appendInt buf z

theorem writeUint (buf : List (BitVec 8)) (n : Nat) (h : n < 4294967296) :
    (Gen.Frame.framer_writeUint buf (BitVec.ofNat 32 n)).map UInt8.ofBitVec = buf.map UInt8.ofBitVec ++ wUInt n :=
  appendUint buf n h

theorem writeLong (buf : List (BitVec 8)) (z : Int) :
    (Gen.Frame.framer_writeLong buf (BitVec.ofInt 64 z)).map UInt8.ofBitVec = buf.map UInt8.ofBitVec ++ wLong z :=
  appendLong buf z

theorem writeUnset (buf : List (BitVec 8)) :
    (Gen.Frame.framer_writeUnset buf).map UInt8.ofBitVec = buf.map UInt8.ofBitVec ++ wInt (-2) := by
  have e : (0xfffffffe#32 : BitVec 32) = BitVec.ofInt 32 (-2) := by decide
  unfold Gen.Frame.framer_writeUnset
  simp only [e, writeInt]

theorem len16 (n : Nat) : ((BitVec.ofNat 64 n).setWidth 16).toNat = n % 65536 := by
  simp

theorem len32 (n : Nat) : (BitVec.ofNat 64 n).setWidth 32 = BitVec.ofInt 32 (n : Int) := by
  apply BitVec.eq_of_toNat_eq
  simp

/-- `writeString(s)`: `uint16(len(s))` (truncating) then all the bytes -/
theorem writeString (buf : List (BitVec 8)) (s : List UInt8) :
    (Gen.Frame.framer_writeString buf (s.map (·.toBitVec))).map UInt8.ofBitVec = buf.map UInt8.ofBitVec ++ wString s := by
  unfold Gen.Frame.framer_writeString wString
  simp only [List.map_append, writeShort, List.length_map, len16, wShort_mod, map_ofBitVec_toBitVec, List.append_assoc]

theorem writeShortBytes (buf : List (BitVec 8)) (s : List UInt8) :
    (Gen.Frame.framer_writeShortBytes buf (s.map (·.toBitVec))).map UInt8.ofBitVec = buf.map UInt8.ofBitVec ++ wString s := by
  unfold Gen.Frame.framer_writeShortBytes wString
  simp only [List.map_append, writeShort, List.length_map, len16, wShort_mod, map_ofBitVec_toBitVec, List.append_assoc]

theorem writeLongString (buf : List (BitVec 8)) (s : List UInt8) :
    (Gen.Frame.framer_writeLongString buf (s.map (·.toBitVec))).map UInt8.ofBitVec = buf.map UInt8.ofBitVec ++ wLongString s := by
  unfold Gen.Frame.framer_writeLongString wLongString
  simp only [List.map_append, List.length_map, len32, writeInt, map_ofBitVec_toBitVec, List.append_assoc]

/-- the two arms of `writeBytes` (`p == nil` is not translated: a nil slice and an empty one are the same list) -/
theorem writeBytes_nil (buf : List (BitVec 8)) :
    (Gen.Frame.writeBytesNil buf).map UInt8.ofBitVec = buf.map UInt8.ofBitVec ++ wBytes none := by
  have e : (0xffffffff#32 : BitVec 32) = BitVec.ofInt 32 (-1) := by decide
  unfold Gen.Frame.writeBytesNil wBytes
  simp only [e, writeInt]

theorem writeBytes_some (buf : List (BitVec 8)) (p : List UInt8) :
    (Gen.Frame.writeBytesSome buf (p.map (·.toBitVec))).map UInt8.ofBitVec = buf.map UInt8.ofBitVec ++ wBytes (some p) := by
  unfold Gen.Frame.writeBytesSome wBytes
  simp only [List.map_append, List.length_map, len32, writeInt, map_ofBitVec_toBitVec, List.append_assoc]

end GenTie.Frame
