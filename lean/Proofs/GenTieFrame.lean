import Gen.Frame
import Model.FrameWrite
/-!
  Tie theorems between the primitive writers REGENERATED from /repo/frame.go by tools/go2lean (`Gen.Frame`) and the
  hand-written request model the C03 theorems are about (`FrameWrite.wShort/wUInt/wInt/wLong`).
-/
namespace GenTie.Frame
open FrameWrite

/-- the low byte of an arithmetic shift that stays inside the word is the low byte of the logical shift -/
theorem low_byte_sshift {w : Nat} (n : BitVec w) (k : Nat) (h : k + 8 ≤ w) :
    (BitVec.sshiftRight n k).setWidth 8 = (n >>> k).setWidth 8 := by
  apply BitVec.eq_of_getLsbD_eq
  intro i hi
  have h1 : k + i < w := by omega
  have h2 : ¬ w ≤ i := by omega
  simp [BitVec.getLsbD_sshiftRight, hi, h1, h2]

theorem low_byte {w : Nat} (n : BitVec w) (k : Nat) :
    UInt8.ofBitVec ((n >>> k).setWidth 8) = byteOf (n.toNat / 2^k) := by
  unfold byteOf
  apply UInt8.toBitVec_inj.mp
  apply BitVec.eq_of_toNat_eq
  simp [BitVec.toNat_setWidth, BitVec.toNat_ushiftRight, Nat.shiftRight_eq_div_pow]

theorem low_byte0 {w : Nat} (n : BitVec w) : UInt8.ofBitVec (n.setWidth 8) = byteOf n.toNat := by
  have := low_byte n 0; simpa using this

/-- `appendShort(p, n)` -/
theorem appendShort (p : List (BitVec 8)) (n : Nat) (h : n < 65536) :
    (Gen.Frame.appendShort p (BitVec.ofNat 16 n)).map UInt8.ofBitVec = p.map UInt8.ofBitVec ++ wShort n := by
  have e : (BitVec.ofNat 16 n).toNat = n := by simp; omega
  simp only [Gen.Frame.appendShort, wShort, List.map_append, List.map_cons, List.map_nil, low_byte, e]
  simp only [low_byte0, e]

/-- `appendUint(p, n)` -/
theorem appendUint (p : List (BitVec 8)) (n : Nat) (h : n < 4294967296) :
    (Gen.Frame.appendUint p (BitVec.ofNat 32 n)).map UInt8.ofBitVec = p.map UInt8.ofBitVec ++ wUInt n := by
  have e : (BitVec.ofNat 32 n).toNat = n := by simp; omega
  simp only [Gen.Frame.appendUint, wUInt, List.map_append, List.map_cons, List.map_nil, low_byte, e]
  simp only [low_byte0, e]

/-- `appendInt(p, n)`: the model's `wInt z` for every int32 -/
theorem appendInt (p : List (BitVec 8)) (z : Int) :
    (Gen.Frame.appendInt p (BitVec.ofInt 32 z)).map UInt8.ofBitVec = p.map UInt8.ofBitVec ++ wInt z := by
  have e : (BitVec.ofInt 32 z).toNat = (z % 4294967296).toNat := by simp [BitVec.toNat_ofInt]
  simp only [Gen.Frame.appendInt, wInt, wUInt, List.map_append, List.map_cons, List.map_nil,
    low_byte_sshift (w := 32) _ 24 (by decide), low_byte_sshift (w := 32) _ 16 (by decide), low_byte_sshift (w := 32) _ 8 (by decide),
    low_byte, e]
  simp only [low_byte0, e]

/-- `appendLong(p, n)`: the model's `wLong z` for every int64 -/
theorem appendLong (p : List (BitVec 8)) (z : Int) :
    (Gen.Frame.appendLong p (BitVec.ofInt 64 z)).map UInt8.ofBitVec = p.map UInt8.ofBitVec ++ wLong z := by
  have e : (BitVec.ofInt 64 z).toNat = (z % 18446744073709551616).toNat := by simp [BitVec.toNat_ofInt]
  simp only [Gen.Frame.appendLong, wLong, wUInt, List.map_append, List.map_cons, List.map_nil,
    low_byte_sshift (w := 64) _ 56 (by decide), low_byte_sshift (w := 64) _ 48 (by decide),
    low_byte_sshift (w := 64) _ 40 (by decide), low_byte_sshift (w := 64) _ 32 (by decide),
    low_byte_sshift (w := 64) _ 24 (by decide), low_byte_sshift (w := 64) _ 16 (by decide),
    low_byte_sshift (w := 64) _ 8 (by decide), low_byte, e]
  simp only [low_byte0, e]
  generalize (z % 18446744073709551616).toNat = n
  simp [Nat.div_div_eq_div_mul]

/-- `protoVersion.request/response/version`: direction bit and version mask -/
theorem proto_version (p : BitVec 8) :
    Gen.Frame.protoVersion_request p = !(p.getLsbD 7) ∧ Gen.Frame.protoVersion_response p = p.getLsbD 7 ∧
    (Gen.Frame.protoVersion_version p).toNat = p.toNat % 128 := by
  refine ⟨?_, ?_, ?_⟩
  · revert p; decide
  · revert p; decide
  · revert p; decide

end GenTie.Frame
