import Model.Uuid
/-! helper lemmas for C19: the parser and the printer -/
namespace Uuid

theorem hexVal_hexDigit : ∀ n, n < 16 → hexVal (hexDigit n) = some n := by decide

theorem hexDigit_ne_hyphen : ∀ n, n < 16 → hexDigit n ≠ '-' := by decide

def nibbles : List UInt8 → List Nat
  | [] => []
  | b :: bs => b.toNat / 16 :: b.toNat % 16 :: nibbles bs

theorem nibbles_length (bs : List UInt8) : (nibbles bs).length = 2 * bs.length := by
  induction bs with
  | nil => rfl
  | cons b bs ih => simp [nibbles, ih]; omega

theorem nibbles_append (as bs : List UInt8) : nibbles (as ++ bs) = nibbles as ++ nibbles bs := by
  induction as with
  | nil => rfl
  | cons a as ih => simp [nibbles, ih]

theorem pack_nibbles (bs : List UInt8) : pack (nibbles bs) = bs := by
  induction bs with
  | nil => rfl
  | cons b bs ih =>
    simp only [nibbles, pack, ih]
    congr 1
    apply UInt8.toNat_inj.mp
    have := b.toNat_lt
    simp [UInt8.toNat_ofNat']
    omega

theorem parseLoop_hyphen (rest : List Char) (acc : List Nat) (h : acc.length % 2 = 0) :
    parseLoop ('-' :: rest) acc = parseLoop rest acc := by
  simp [parseLoop, h]

theorem parseLoop_digit (n : Nat) (hn : n < 16) (rest : List Char) (acc : List Nat) (h : acc.length < 32) :
    parseLoop (hexDigit n :: rest) acc = parseLoop rest (acc ++ [n]) := by
  simp [parseLoop, hexDigit_ne_hyphen n hn, hexVal_hexDigit n hn, h]

theorem parseLoop_hexBytes (bs : List UInt8) : ∀ (rest : List Char) (acc : List Nat),
    acc.length + 2 * bs.length ≤ 32 →
    parseLoop (hexBytes bs ++ rest) acc = parseLoop rest (acc ++ nibbles bs) := by
  induction bs with
  | nil => intro rest acc _; simp [hexBytes, nibbles]
  | cons b bs ih =>
    intro rest acc h
    have hb := b.toNat_lt
    simp only [List.length_cons] at h
    simp only [hexBytes, hexByte, List.cons_append, List.nil_append, nibbles]
    rw [parseLoop_digit _ (by omega) _ _ (by omega)]
    rw [parseLoop_digit _ (by omega) _ _ (by simp; omega)]
    rw [ih rest _ (by simp; omega)]
    simp

theorem list16 (u : List UInt8) (h : u.length = 16) :
    ∃ b0 b1 b2 b3 b4 b5 b6 b7 b8 b9 b10 b11 b12 b13 b14 b15,
      u = [b0, b1, b2, b3, b4, b5, b6, b7, b8, b9, b10, b11, b12, b13, b14, b15] := by
  rcases u with _|⟨b0,_|⟨b1,_|⟨b2,_|⟨b3,_|⟨b4,_|⟨b5,_|⟨b6,_|⟨b7,_|⟨b8,_|⟨b9,_|⟨b10,_|⟨b11,_|⟨b12,_|⟨b13,_|⟨b14,_|⟨b15,_|⟨b16,r⟩⟩⟩⟩⟩⟩⟩⟩⟩⟩⟩⟩⟩⟩⟩⟩⟩ <;>
    simp at h
  exact ⟨_, _, _, _, _, _, _, _, _, _, _, _, _, _, _, _, rfl⟩

theorem parse_print (u : List UInt8) (h : u.length = 16) : parse (print u) = some u := by
  obtain ⟨b0, b1, b2, b3, b4, b5, b6, b7, b8, b9, b10, b11, b12, b13, b14, b15, rfl⟩ := list16 u h
  have e : print [b0, b1, b2, b3, b4, b5, b6, b7, b8, b9, b10, b11, b12, b13, b14, b15] =
      hexBytes [b0, b1, b2, b3] ++ ('-' :: (hexBytes [b4, b5] ++ ('-' :: (hexBytes [b6, b7] ++
        ('-' :: (hexBytes [b8, b9] ++ ('-' :: (hexBytes [b10, b11, b12, b13, b14, b15] ++ [])))))))) := by
    simp [print]
  rw [parse, e]
  rw [parseLoop_hexBytes _ _ _ (by simp), parseLoop_hyphen _ _ (by simp [nibbles_length])]
  rw [parseLoop_hexBytes _ _ _ (by simp [nibbles_length]), parseLoop_hyphen _ _ (by simp [nibbles_length])]
  rw [parseLoop_hexBytes _ _ _ (by simp [nibbles_length]), parseLoop_hyphen _ _ (by simp [nibbles_length])]
  rw [parseLoop_hexBytes _ _ _ (by simp [nibbles_length]), parseLoop_hyphen _ _ (by simp [nibbles_length])]
  rw [parseLoop_hexBytes _ _ _ (by simp [nibbles_length])]
  simp only [List.nil_append, ← nibbles_append, List.cons_append]
  simp [parseLoop, nibbles_length, pack_nibbles]

theorem print_length (u : List UInt8) (h : u.length = 16) : (print u).length = 36 := by
  obtain ⟨b0, b1, b2, b3, b4, b5, b6, b7, b8, b9, b10, b11, b12, b13, b14, b15, rfl⟩ := list16 u h
  simp [print, hexBytes, hexByte]

theorem print_hyphens (u : List UInt8) (h : u.length = 16) :
    (print u)[8]? = some '-' ∧ (print u)[13]? = some '-' ∧ (print u)[18]? = some '-' ∧ (print u)[23]? = some '-' := by
  obtain ⟨b0, b1, b2, b3, b4, b5, b6, b7, b8, b9, b10, b11, b12, b13, b14, b15, rfl⟩ := list16 u h
  simp [print, hexBytes, hexByte]

/-! ### the accepted language -/

theorem hexVal_isSome_iff (c : Char) : (hexVal c).isSome = Spec.isHex c := by
  simp only [hexVal, Spec.isHex]
  split
  · simp_all
  · split
    · simp_all
    · split <;> simp_all

theorem hexVal_hyphen : hexVal '-' = none := by decide

/-- hyphens only where an even number of digits precedes them -/
def HyphensOk (n : Nat) (s : List Char) : Prop :=
  ∀ pre post, s = pre ++ '-' :: post → (n + (Spec.digitsOf pre).length) % 2 = 0

theorem parseLoop_iff (s : List Char) : ∀ (acc r : List Nat),
    parseLoop s acc = some r ↔
      ((∀ c ∈ s, c = '-' ∨ Spec.isHex c = true) ∧ acc.length + (Spec.digitsOf s).length = 32 ∧
        HyphensOk acc.length s ∧ r = acc ++ digitVals s) := by
  induction s with
  | nil =>
    intro acc r
    simp [parseLoop, Spec.digitsOf, digitVals, HyphensOk]
    intro _; exact eq_comm
  | cons c cs ih =>
    intro acc r
    by_cases hc : c = '-'
    · subst hc
      by_cases hev : acc.length % 2 = 0
      · rw [parseLoop_hyphen _ _ hev, ih]
        have hd : Spec.digitsOf ('-' :: cs) = Spec.digitsOf cs := by simp [Spec.digitsOf]
        have hv : digitVals ('-' :: cs) = digitVals cs := by simp [digitVals, hd]
        rw [hd, hv]
        constructor
        · rintro ⟨h1, h2, h3, h4⟩
          refine ⟨?_, h2, ?_, h4⟩
          · intro c hc; rcases List.mem_cons.mp hc with rfl | hc
            · exact Or.inl rfl
            · exact h1 c hc
          · intro pre post e
            rcases List.cons_eq_append_iff.mp e with ⟨rfl, _⟩ | ⟨pre', rfl, e'⟩
            · simpa [Spec.digitsOf] using hev
            · have := h3 pre' post e'
              simpa [Spec.digitsOf] using this
        · rintro ⟨h1, h2, h3, h4⟩
          refine ⟨fun c hc => h1 c (List.mem_cons_of_mem _ hc), h2, ?_, h4⟩
          intro pre post e
          have := h3 ('-' :: pre) post (by simp [e])
          simpa [Spec.digitsOf] using this
      · have : parseLoop ('-' :: cs) acc = none := by simp [parseLoop, hev, hexVal_hyphen]
        rw [this]
        constructor
        · intro h; cases h
        · rintro ⟨_, _, h3, _⟩
          have := h3 [] cs rfl
          simp [Spec.digitsOf] at this
          exact absurd this hev
    · have hd : Spec.digitsOf (c :: cs) = c :: Spec.digitsOf cs := by simp [Spec.digitsOf, hc]
      cases hv : hexVal c with
      | none =>
        have : parseLoop (c :: cs) acc = none := by simp [parseLoop, hc, hv]
        rw [this]
        constructor
        · intro h; cases h
        · rintro ⟨h1, _⟩
          rcases h1 c (List.mem_cons_self ..) with h | h
          · exact absurd h hc
          · rw [← hexVal_isSome_iff, hv] at h; cases h
      | some d =>
        have hvals : digitVals (c :: cs) = d :: digitVals cs := by simp [digitVals, hd, hv]
        have hx : Spec.isHex c = true := by rw [← hexVal_isSome_iff, hv]; rfl
        by_cases hlt : acc.length < 32
        · have : parseLoop (c :: cs) acc = parseLoop cs (acc ++ [d]) := by simp [parseLoop, hc, hv, hlt]
          rw [this, ih, hd, hvals]
          simp only [List.length_append, List.length_cons, List.length_nil]
          constructor
          · rintro ⟨h1, h2, h3, h4⟩
            refine ⟨?_, by omega, ?_, by simp [h4]⟩
            · intro c' hc'; rcases List.mem_cons.mp hc' with rfl | hc'
              · exact Or.inr hx
              · exact h1 c' hc'
            · intro pre post e
              rcases List.cons_eq_append_iff.mp e with ⟨rfl, e'⟩ | ⟨pre', rfl, e'⟩
              · exact absurd (List.cons.inj e').1.symm hc
              · have := h3 pre' post e'
                simp [Spec.digitsOf, hc] at this ⊢
                omega
          · rintro ⟨h1, h2, h3, h4⟩
            refine ⟨fun c' hc' => h1 c' (List.mem_cons_of_mem _ hc'), by omega, ?_, by simp [h4]⟩
            intro pre post e
            have := h3 (c :: pre) post (by simp [e])
            simp [Spec.digitsOf, hc] at this ⊢
            omega
        · have : parseLoop (c :: cs) acc = none := by simp [parseLoop, hc, hv, hlt]
          rw [this]
          constructor
          · intro h; cases h
          · rintro ⟨_, h2, _⟩
            rw [hd] at h2; simp at h2; omega

end Uuid
