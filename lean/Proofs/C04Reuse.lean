/- C04 helper lemmas: typed destinations REUSED across the rows of a page (Model/RowsReuse.lean) -/
import Proofs.C04Maps
import Model.RowsReuse
namespace C04
open FrameRead RespSpec Rows RowsReuse Marshal
open ValueSpec (CqlTy)

/-! ## which calls look at what the destination already holds -/

/-- the excluded condition for destinations WITHOUT parts: an EMPTY (zero-length, non-null) value of an ascii / text /
    varchar / blob column into an unnamed `[]byte` (`*v = append((*v)[:0], data...)`: nil stays nil, non-nil becomes
    empty). (`*[n]T` and structs count as excluded here; `sensitive` below looks into them.) -/
def sensitiveFlat (t : Option CqlTy) (ty : GoTy) (data : Option FrameRead.Bytes) : Bool :=
  match ty with
  | .bytes false =>
    (match t with | some t => textFamily t | none => false) && (match data with | some [] => true | _ => false)
  | .array _ _ => true
  | .struct _ => true
  | .udtstruct _ _ => true
  | _ => false

theorem withPtr_base (f : GoTy → Option FrameRead.Bytes → URes) (ty : GoTy) (data : Option FrameRead.Bytes)
    (h : ∀ t, ty ≠ .ptr t) : withPtr f ty data = f ty data := by
  cases ty <;> simp_all [withPtr, stripPtr]

/-- outside the excluded condition a call on a destination that holds ANY value stores what the same call stores
    in a fresh zero value -/
theorem intoBase_fresh_flat (p : Nat) (t : CqlTy) (ty : GoTy) (data : Option FrameRead.Bytes) (prev : GoVal)
    (h : sensitiveFlat (some t) ty data = false) : intoBase p t ty data prev = unmarshal p t ty data := by
  unfold unmarshal
  cases ty with
  | ptr g => unfold intoBase; rfl
  | bytes named =>
    rw [withPtr_base _ _ _ (by intro t h; cases h)]
    unfold intoBase
    cases named with
    | true => rfl
    | false =>
      simp only [sensitiveFlat, Bool.and_eq_false_iff] at h
      by_cases htf : textFamily t = true
      · simp only [htf, if_true]
        rcases h with h | h
        · simp [htf] at h
        · cases data with
          | none => rfl
          | some d => cases d with
            | nil => simp at h
            | cons a b => rfl
      · simp [htf]
  | array n g => simp [sensitiveFlat] at h
  | struct gs => simp [sensitiveFlat] at h
  | udtstruct ns gs => simp [sensitiveFlat] at h
  | _ => rw [withPtr_base _ _ _ (by intro t h; cases h)]; unfold intoBase; rfl

/-- Go destination types whose Unmarshal never looks at what the destination holds, whatever the column and the
    cell: everything except the unnamed `[]byte` (empty cells) and the in-place composites -/
def statelessTy : GoTy → Bool
  | .bytes false => false
  | .array _ _ => false
  | .struct _ => false
  | .udtstruct _ _ => false
  | _ => true


/-! ## destinations with parts: a struct for a UDT column, `[n]T` for a list / set column -/

/-- which struct fields the reset of the missing fields (`zeroRest`: the value's data is used up before the type's
    fields are — repair of KF-C04-7) writes. `wrote`: the fields the value itself has written.
    `none`: a field the value has written is reset again (the type names the same struct field twice): C12's decode
    model of a FRESH struct (Marshal.unmarshalUdtStruct), where the reset is otherwise a no-op, does not describe it -/
def zeroMask (fnames : List String) (gs : List GoTy) (wrote : List Bool) : List String → List CqlTy → List Bool → Option (List Bool)
  | name :: names, _ :: ts, mask =>
    (match lookupIdx name fnames 0 with
     | none => zeroMask fnames gs wrote names ts mask
     | some i => (match gs[i]? with
       | none => zeroMask fnames gs wrote names ts mask
       | some _ => if wrote[i]? = some true then none else zeroMask fnames gs wrote names ts (mask.set i true)))
  | _, _, mask => some mask

/-- which struct fields a UDT value determines (the loop of unmarshalUDT without the decoding): the fields its own
    fields write, and — a value with fewer fields than the type — the fields the reset of the missing fields writes;
    `none`: a written field falls under the flat excluded condition -/
def udtMask (fnames : List String) (gs : List GoTy) : List String → List CqlTy → FrameRead.Bytes → List Bool → Option (List Bool)
  | name :: names, t :: ts, data, mask =>
    if data = [] then zeroMask fnames gs mask (name :: names) (t :: ts) mask
    else if ValueSpec.shorter data 4 then some mask
    else (match readBytesM data with
     | none => some mask
     | some (item, r) =>
       (match lookupIdx name fnames 0 with
        | none => udtMask fnames gs names ts r mask
        | some i => (match gs[i]? with
          | none => udtMask fnames gs names ts r mask
          | some g => if sensitiveFlat (some t) g item then none else udtMask fnames gs names ts r (mask.set i true))))
  | _, _, _, mask => some mask

/-- a UDT value into a struct that holds another row's value: excluded unless the value is null / empty (the struct
    is reset) or EVERY FIELD OF THE STRUCT IS NAMED BY A FIELD OF THE TYPE the loop reaches — written from the value,
    or reset because the value carries fewer fields than the type (repair of KF-C04-7: a short value is no longer
    excluded) — and no written field is an empty text-family value into a `[]byte` field (KF-C04-6) / a nested
    in-place composite. What stays excluded besides KF-C04-6 is not a finding: a struct field that NO field of the
    column's type names is the application's own field, a non-empty value never touches it (fresh struct: zero). -/
def udtSens (names : List String) (ts : List CqlTy) (fnames : List String) (gs : List GoTy) (data : Option FrameRead.Bytes) : Bool :=
  if dataBytes data = [] then false
  else match udtMask fnames gs names ts (dataBytes data) (List.replicate gs.length false) with
    | none => true
    | some m => !(m.all id)

/-- a list / set into `[n]T`: every element is overwritten; excluded when the element type is itself excluded for
    some value (`[n][]byte` of a text-family element type, nested arrays / structs) -/
def arrSens (et : CqlTy) (g : GoTy) : Bool :=
  !(statelessTy g || (match g with | .bytes false => !textFamily et | _ => false))

/-- THE EXCLUDED CONDITION of the `C04_rows_independent…_partial` theorems: the (column type, Go type, data) for
    which what `Unmarshal(info, data, &x)` leaves in `x` depends on what `x` held before. -/
def sensitive (t : Option CqlTy) (ty : GoTy) (data : Option FrameRead.Bytes) : Bool :=
  match ty with
  | .udtstruct fnames gs => (match t with | some (.udt names ts) => udtSens names ts fnames gs data | _ => true)
  | .struct gs => (match t with | some (.udt names ts) => udtSens names ts [] gs data | _ => true)
  | .array _ g => (match t with | some (.list et) => arrSens et g | some (.set et) => arrSens et g | _ => true)
  | _ => sensitiveFlat t ty data

/-- two runs of the field loop — in place on `acc1` (the code on a reused struct) and C12's model of the loop on a
    fresh struct `acc2` — agree on every field that `m'` marks as written -/
def URel (L : Nat) (a b : LRes (List GoVal)) (m' : List Bool) : Prop :=
  match a, b with
  | .ok r1 _, .ok r2 _ => r1.length = L ∧ r2.length = L ∧ m'.length = L ∧ ∀ j : Nat, m'[j]? = some true → r1[j]? = r2[j]?
  | .err, .err => True
  | .crash, .crash => True
  | .unmodelled, .unmodelled => True
  | _, _ => False

theorem zeroOfs_eq_map (gs : List GoTy) : zeroOfs gs = gs.map zeroOf := by
  induction gs with
  | nil => simp [zeroOfs]
  | cons g gs ih => simp [zeroOfs, ih]

theorem zeroOfs_getElem? (gs : List GoTy) (i : Nat) (g : GoTy) (h : gs[i]? = some g) :
    (zeroOfs gs)[i]? = some (zeroOf g) := by
  rw [zeroOfs_eq_map, List.getElem?_map, h]; rfl

/-- the reset of the missing fields on the reused struct `acc1` against the untouched fresh struct `acc2` (which
    still holds zero values wherever the value wrote nothing): they agree on every field `m'` marks -/
theorem zero_rel (fnames : List String) (gs : List GoTy) (wrote : List Bool) (acc2 : List GoVal)
    (hw : wrote.length = gs.length)
    (h5 : ∀ j : Nat, wrote[j]? = some false → acc2[j]? = (zeroOfs gs)[j]?) :
    ∀ (names : List String) (ts : List CqlTy) (acc1 : List GoVal) (mask m' : List Bool),
    acc1.length = gs.length → mask.length = gs.length →
    (∀ j : Nat, mask[j]? = some true → acc1[j]? = acc2[j]?) →
    zeroMask fnames gs wrote names ts mask = some m' →
    (zeroRest fnames gs names ts acc1).length = gs.length ∧ m'.length = gs.length ∧
      ∀ j : Nat, m'[j]? = some true → (zeroRest fnames gs names ts acc1)[j]? = acc2[j]? := by
  intro names
  induction names with
  | nil =>
    intro ts acc1 mask m' h1 h3 h4 hm
    simp only [zeroMask] at hm
    cases hm
    simp only [zeroRest]
    exact ⟨h1, h3, h4⟩
  | cons name names ih =>
    intro ts acc1 mask m' h1 h3 h4 hm
    cases ts with
    | nil =>
      simp only [zeroMask] at hm
      cases hm
      simp only [zeroRest]
      exact ⟨h1, h3, h4⟩
    | cons t ts =>
      simp only [zeroMask] at hm
      rw [zeroRest]
      cases hl : lookupIdx name fnames 0 with
      | none =>
        rw [hl] at hm
        simp only at hm ⊢
        exact ih ts acc1 mask m' h1 h3 h4 hm
      | some i =>
        rw [hl] at hm
        simp only at hm ⊢
        cases hg : gs[i]? with
        | none =>
          rw [hg] at hm
          simp only at hm ⊢
          exact ih ts acc1 mask m' h1 h3 h4 hm
        | some g =>
          rw [hg] at hm
          simp only at hm ⊢
          have hi : i < gs.length := (List.getElem?_eq_some_iff.mp hg).1
          by_cases hwi : wrote[i]? = some true
          · simp [hwi] at hm
          · simp only [hwi, if_false] at hm
            have hwf : wrote[i]? = some false := by
              rw [List.getElem?_eq_getElem (by omega)] at hwi ⊢
              cases hb : wrote[i] <;> simp_all
            have hz : acc2[i]? = some (zeroOf g) := by rw [h5 i hwf]; exact zeroOfs_getElem? gs i g hg
            apply ih ts (acc1.set i (zeroOf g)) (mask.set i true) m' (by simp [h1]) (by simp [h3]) _ hm
            intro j hj
            by_cases hji : j = i
            · subst hji
              rw [hz]
              simp [h1, hi]
            · have : mask[j]? = some true := by
                rw [List.getElem?_set] at hj
                simp [Ne.symm hji] at hj
                exact hj
              rw [List.getElem?_set]
              simp [Ne.symm hji]
              exact h4 j this

theorem udt_rel (p : Nat) (fnames : List String) (gs : List GoTy) :
    ∀ (names : List String) (ts : List CqlTy) (data : FrameRead.Bytes) (acc1 acc2 : List GoVal) (mask m' : List Bool),
    acc1.length = gs.length → acc2.length = gs.length → mask.length = gs.length →
    (∀ j : Nat, mask[j]? = some true → acc1[j]? = acc2[j]?) →
    (∀ j : Nat, mask[j]? = some false → acc2[j]? = (zeroOfs gs)[j]?) →
    udtMask fnames gs names ts data mask = some m' →
    URel gs.length (udtInto p names ts fnames gs data acc1) (unmarshalUdtStruct p names ts fnames gs data acc2) m' := by
  intro names
  induction names with
  | nil =>
    intro ts data acc1 acc2 mask m' h1 h2 h3 h4 h5 hm
    simp only [udtMask] at hm
    cases hm
    simp [udtInto, unmarshalUdtStruct, URel, h1, h2, h3]
    exact h4
  | cons name names ih =>
    intro ts data acc1 acc2 mask m' h1 h2 h3 h4 h5 hm
    cases ts with
    | nil =>
      simp only [udtMask] at hm
      cases hm
      simp [udtInto, unmarshalUdtStruct, URel, h1, h2, h3]
      exact h4
    | cons t ts =>
      simp only [udtMask] at hm
      rw [udtInto, unmarshalUdtStruct]
      by_cases hd : data = []
      · simp only [hd, if_true] at hm ⊢
        obtain ⟨z1, z2, z3⟩ := zero_rel fnames gs mask acc2 h3 h5 (name :: names) (t :: ts) acc1 mask m' h1 h3 h4 hm
        exact ⟨z1, h2, z2, z3⟩
      · simp only [hd, if_false] at hm ⊢
        by_cases hs : ValueSpec.shorter data 4 = true
        · simp only [hs, if_true] at hm ⊢
          simp [URel]
        · simp only [hs] at hm ⊢
          simp only [Bool.false_eq_true, if_false] at hm ⊢
          cases hr : readBytesM data with
          | none => simp [URel]
          | some ir =>
            obtain ⟨item, r⟩ := ir
            rw [hr] at hm
            simp only at hm ⊢
            cases hl : lookupIdx name fnames 0 with
            | none =>
              rw [hl] at hm
              simp only at hm ⊢
              exact ih ts r acc1 acc2 mask m' h1 h2 h3 h4 h5 hm
            | some i =>
              rw [hl] at hm
              simp only at hm ⊢
              cases hg : gs[i]? with
              | none =>
                rw [hg] at hm
                simp only at hm ⊢
                exact ih ts r acc1 acc2 mask m' h1 h2 h3 h4 h5 hm
              | some g =>
                rw [hg] at hm
                simp only at hm ⊢
                by_cases hsens : sensitiveFlat (some t) g item = true
                · simp [hsens] at hm
                · have hsens' : sensitiveFlat (some t) g item = false := by simpa using hsens
                  simp only [hsens, Bool.false_eq_true, if_false] at hm
                  have hin := intoBase_fresh_flat p t g item (acc1.getD i .nil) hsens'
                  rw [hin]
                  unfold unmarshal
                  have hi : i < gs.length := by
                    have := List.getElem?_eq_some_iff.mp hg
                    exact this.1
                  cases hres : withPtr (unmarshalBase p t) g item with
                  | ok v =>
                    simp only
                    apply ih ts r (acc1.set i v) (acc2.set i v) (mask.set i true) m' (by simp [h1]) (by simp [h2]) (by simp [h3]) _ _ hm
                    · intro j hj
                      by_cases hji : j = i
                      · subst hji
                        simp [h1, h2, hi]
                      · have : mask[j]? = some true := by
                          rw [List.getElem?_set] at hj
                          simp [Ne.symm hji] at hj
                          exact hj
                        rw [List.getElem?_set, List.getElem?_set]
                        simp [Ne.symm hji]
                        exact h4 j this
                    · intro j hj
                      have hji : j ≠ i := by
                        intro hji
                        subst hji
                        rw [List.getElem?_set] at hj
                        simp [h3, hi] at hj
                      have : mask[j]? = some false := by
                        rw [List.getElem?_set] at hj
                        simp [Ne.symm hji] at hj
                        exact hj
                      rw [List.getElem?_set]
                      simp [Ne.symm hji]
                      exact h5 j this
                  | err => simp [URel]
                  | crash => simp [URel]
                  | unmodelled => simp [URel]

theorem zeroOfs_length (gs : List GoTy) : (zeroOfs gs).length = gs.length := by
  induction gs with
  | nil => simp [zeroOfs]
  | cons g gs ih => simp [zeroOfs, ih]

theorem fit_length (n : Nat) (l : List GoVal) : (fit n l).length = n := by
  simp [fit]

/-- when the value determines every field of the struct (written, or reset as missing), the struct's earlier contents
    do not matter -/
theorem udt_fresh (p : Nat) (names : List String) (ts : List CqlTy) (fnames : List String) (gs : List GoTy)
    (data : FrameRead.Bytes) (prevs : List GoVal) (k : List GoVal → GoVal) (m' : List Bool)
    (hm : udtMask fnames gs names ts data (List.replicate gs.length false) = some m') (hall : m'.all id = true) :
    (match udtInto p names ts fnames gs data (fit gs.length prevs) with
      | .ok vs _ => URes.ok (k vs) | .err => .err | .crash => .crash | .unmodelled => .unmodelled)
    = (match unmarshalUdtStruct p names ts fnames gs data (zeroOfs gs) with
      | .ok vs _ => URes.ok (k vs) | .err => .err | .crash => .crash | .unmodelled => .unmodelled) := by
  have hrel := udt_rel p fnames gs names ts data (fit gs.length prevs) (zeroOfs gs) (List.replicate gs.length false) m'
    (fit_length _ _) (zeroOfs_length gs) (by simp)
    (by intro j hj; rw [List.getElem?_replicate] at hj; split at hj <;> simp at hj) (fun _ _ => rfl) hm
  cases h1 : udtInto p names ts fnames gs data (fit gs.length prevs) with
  | ok r1 rest1 =>
    cases h2 : unmarshalUdtStruct p names ts fnames gs data (zeroOfs gs) with
    | ok r2 rest2 =>
      rw [h1, h2] at hrel
      obtain ⟨l1, l2, l3, hj⟩ := hrel
      have : r1 = r2 := by
        apply List.ext_getElem?
        intro j
        by_cases hjl : j < gs.length
        · apply hj j
          have hmj : m'[j] = true := by
            have := List.all_eq_true.mp hall (m'[j]'(by omega)) (List.getElem_mem _)
            simpa using this
          rw [List.getElem?_eq_getElem (by omega), hmj]
        · have a1 : r1[j]? = none := by simp; omega
          have a2 : r2[j]? = none := by simp; omega
          rw [a1, a2]
      simp [this]
    | err => rw [h1, h2] at hrel; exact absurd hrel (by simp [URel])
    | crash => rw [h1, h2] at hrel; exact absurd hrel (by simp [URel])
    | unmodelled => rw [h1, h2] at hrel; exact absurd hrel (by simp [URel])
  | err =>
    cases h2 : unmarshalUdtStruct p names ts fnames gs data (zeroOfs gs) <;> rw [h1, h2] at hrel <;> simp [URel] at hrel ⊢
  | crash =>
    cases h2 : unmarshalUdtStruct p names ts fnames gs data (zeroOfs gs) <;> rw [h1, h2] at hrel <;> simp [URel] at hrel ⊢
  | unmodelled =>
    cases h2 : unmarshalUdtStruct p names ts fnames gs data (zeroOfs gs) <;> rw [h1, h2] at hrel <;> simp [URel] at hrel ⊢

/-- the element loop on an array whose element calls never look at the element they replace -/
theorem elemsInto_eq (p : Nat) (f : Option FrameRead.Bytes → GoVal → URes) (g' : Option FrameRead.Bytes → URes)
    (h : ∀ item prev, f item prev = g' item) :
    ∀ (n : Nat) (b : FrameRead.Bytes) (prevs : List GoVal), elemsInto p f n b prevs = unmarshalElems p g' n b := by
  intro n
  induction n with
  | zero => intro b prevs; rfl
  | succ n ih =>
    intro b prevs
    simp only [elemsInto, unmarshalElems]
    cases readCollItem p b with
    | none => rfl
    | some ir =>
      obtain ⟨item, r⟩ := ir
      simp only [h, ih]
      cases g' item with
      | ok v => simp only []; cases unmarshalElems p g' n r <;> rfl
      | _ => rfl

/-- outside the excluded condition a call on a destination that holds ANY value stores what the same call stores
    in a fresh zero value -/
theorem intoBase_fresh (p : Nat) (t : CqlTy) (ty : GoTy) (data : Option FrameRead.Bytes) (prev : GoVal)
    (h : sensitive (some t) ty data = false) : intoBase p t ty data prev = unmarshal p t ty data := by
  cases ty with
  | udtstruct fnames gs =>
    cases t with
    | udt names ts =>
      simp only [sensitive, udtSens] at h
      unfold unmarshal
      rw [withPtr_base _ _ _ (by intro t h; cases h)]
      unfold intoBase
      simp only [unmarshalBase]
      by_cases hd : dataBytes data = []
      · simp [hd]
      · simp only [hd, if_false] at h ⊢
        cases hm : udtMask fnames gs names ts (dataBytes data) (List.replicate gs.length false) with
        | none => rw [hm] at h; simp at h
        | some m' =>
          rw [hm] at h
          have hall : m'.all id = true := by simpa using h
          exact udt_fresh p names ts fnames gs (dataBytes data) (partsOf prev) (fun vs => .udtstruct fnames vs) m' hm hall
    | _ => simp [sensitive] at h
  | struct gs =>
    cases t with
    | udt names ts =>
      simp only [sensitive, udtSens] at h
      unfold unmarshal
      rw [withPtr_base _ _ _ (by intro t h; cases h)]
      unfold intoBase
      simp only [unmarshalBase]
      by_cases hd : dataBytes data = []
      · simp [hd]
      · simp only [hd, if_false] at h ⊢
        cases hm : udtMask [] gs names ts (dataBytes data) (List.replicate gs.length false) with
        | none => rw [hm] at h; simp at h
        | some m' =>
          rw [hm] at h
          have hall : m'.all id = true := by simpa using h
          exact udt_fresh p names ts [] gs (dataBytes data) (partsOf prev) (fun vs => .struct vs) m' hm hall
    | _ => simp [sensitive] at h
  | array len g =>
    have helem : ∀ (et : CqlTy), arrSens et g = false →
        ∀ item prev, intoBase p et g item prev = withPtr (unmarshalBase p et) g item := by
      intro et he item prev
      have : sensitiveFlat (some et) g item = false := by
        simp only [arrSens, Bool.not_eq_false', Bool.or_eq_true] at he
        rcases he with he | he
        · cases g with
          | bytes named => cases named <;> simp_all [statelessTy, sensitiveFlat]
          | _ => simp_all [statelessTy, sensitiveFlat]
        · cases g with
          | bytes named => cases named <;> simp_all [sensitiveFlat]
          | _ => simp at he
      exact intoBase_fresh_flat p et g item prev this
    unfold unmarshal
    rw [withPtr_base _ _ _ (by intro t h; cases h)]
    cases t with
    | list et =>
      have he : arrSens et g = false := by simpa [sensitive] using h
      unfold intoBase
      cases data with
      | none => rfl
      | some d =>
        simp only [unmarshalBase, unmarshalListTo]
        cases readCollSize p d with
        | none => rfl
        | some nr =>
          obtain ⟨n, r⟩ := nr
          simp only [elemsInto_eq p _ _ (helem et he)]
          split
          · rfl
          · cases unmarshalElems p (withPtr (unmarshalBase p et) g) n.toNat r <;> rfl
    | set et =>
      have he : arrSens et g = false := by simpa [sensitive] using h
      unfold intoBase
      cases data with
      | none => rfl
      | some d =>
        simp only [unmarshalBase, unmarshalListTo]
        cases readCollSize p d with
        | none => rfl
        | some nr =>
          obtain ⟨n, r⟩ := nr
          simp only [elemsInto_eq p _ _ (helem et he)]
          split
          · rfl
          · cases unmarshalElems p (withPtr (unmarshalBase p et) g) n.toNat r <;> rfl
    | _ => simp [sensitive] at h
  | ptr g => exact intoBase_fresh_flat p t _ data prev (by simpa [sensitive] using h)
  | bytes named => exact intoBase_fresh_flat p t _ data prev (by simpa [sensitive] using h)
  | _ => exact intoBase_fresh_flat p t _ data prev (by simpa [sensitive] using h)

theorem unmarshalInto_fresh (p : Nat) (t : Option CqlTy) (ty : GoTy) (data : Option FrameRead.Bytes) (prev : GoVal)
    (h : sensitive t ty data = false) : unmarshalInto p t ty data prev = unmarshalFresh p t ty data := by
  cases t with
  | none => rfl
  | some t => exact intoBase_fresh p t ty data prev h

/-! ## the specification: every call of a row decoded on its own -/

inductive FreshRow
  | ok (vals : List GoVal)    -- every cell decodes: the values the row stands for
  | err                       -- some cell does not decode into its destination's type: Unmarshal returns an error
  | bad                       -- outside the decode model (`unmodelled`) or a panic
deriving Repr

/-- the calls of a row, each decoded into a FRESH zero value of its destination's Go type (C12's decode model);
    the first call that does not decode decides -/
def freshCalls (p : Nat) (tys : List GoTy) : List Call → FreshRow
  | [] => .ok []
  | c :: cs =>
    match tys[c.dest]? with
    | none => .bad
    | some ty =>
      match unmarshalFresh p (cqlOf c.typ) ty c.data with
      | .ok v => (match freshCalls p tys cs with
          | .ok vs => .ok (v :: vs)
          | o => o)
      | .err => .err
      | _ => .bad

/-- no call of the row falls under the excluded condition -/
def insensitive (tys : List GoTy) (calls : List Call) : Bool :=
  calls.all (fun c => match tys[c.dest]? with
    | some ty => !sensitive (cqlOf c.typ) ty c.data
    | none => true)

/-- the calls of a row go to consecutive destinations, each exactly once: applied to destinations holding ANY
    values (`done ++ restv`) they leave exactly the fresh decodes, or stop at the first cell that does not decode -/
theorem applyCalls_fresh (p : Nat) (tys : List GoTy) (calls : List Call) (done restv : List GoVal)
    (hd : calls.map (·.dest) = List.range' done.length calls.length)
    (hl : done.length + restv.length = tys.length) (hr : restv.length = calls.length)
    (hins : insensitive tys calls = true) :
    match freshCalls p tys calls with
    | .ok vs => applyCalls p tys calls (done ++ restv) = .ok (done ++ vs)
    | .err => ∃ v', applyCalls p tys calls (done ++ restv) = .err v'
    | .bad => applyCalls p tys calls (done ++ restv) = .crash ∨ applyCalls p tys calls (done ++ restv) = .unmodelled := by
  induction calls generalizing done restv with
  | nil =>
    have : restv = [] := by simpa using hr
    subst this
    simp [freshCalls, applyCalls]
  | cons c cs ih =>
    simp only [List.map_cons, List.length_cons, List.range'_succ, List.cons.injEq] at hd
    obtain ⟨hc, hcs⟩ := hd
    cases restv with
    | nil => simp at hr
    | cons v0 restv' =>
      simp only [List.length_cons] at hl hr
      have hlt : done.length < tys.length := by omega
      obtain ⟨ty, hty⟩ : ∃ ty, tys[c.dest]? = some ty := by
        rw [hc]; exact ⟨tys[done.length], by simp [hlt]⟩
      have hv : (done ++ v0 :: restv')[c.dest]? = some v0 := by
        rw [hc]; simp
      have hins' : sensitive (cqlOf c.typ) ty c.data = false ∧ insensitive tys cs = true := by
        simpa [insensitive, hty] using hins
      have hinto := unmarshalInto_fresh p (cqlOf c.typ) ty c.data v0 hins'.1
      simp only [freshCalls, applyCalls, applyCall, hty, hv, hinto]
      cases hres : unmarshalFresh p (cqlOf c.typ) ty c.data with
      | ok v =>
        have hset : (done ++ v0 :: restv').set c.dest v = (done ++ [v]) ++ restv' := by
          rw [hc]; simp
        simp only [hset]
        have := ih (done ++ [v]) restv' (by simpa using hcs) (by simp; omega) (by omega) hins'.2
        cases hf : freshCalls p tys cs with
        | ok vs => rw [hf] at this; simpa using this
        | err => rw [hf] at this; simpa using this
        | bad => rw [hf] at this; simpa using this
      | err => exact ⟨_, rfl⟩
      | crash => exact Or.inl rfl
      | unmodelled => exact Or.inr rfl

/-! ## one Scan -/

/-- Iter.Scan of a well-formed row into typed destinations that hold ANY values `vals`: the row's fresh decodes are
    delivered, or (a cell does not decode) Scan returns false with iter.err set and the row not counted -/
theorem scanT_row (p : Nat) (it : Iter) (tcs : List (TypeDesc × Cell)) (rest : FrameRead.Bytes) (tys : List GoTy)
    (vals : List GoVal) (hf : it.failed = false) (hp : it.pos < it.numRows)
    (hm : colsMatch it.md.columns (tcs.map (·.1))) (hw : wfRow tcs = true)
    (hW : totalWidth (tcs.map (·.1)) = tys.length) (ha : it.md.actualColCount = (tys.length : Int))
    (hb : it.buf = eRow (tcs.map (·.2)) ++ rest) (hv : vals.length = tys.length)
    (hins : insensitive tys (rowCalls 0 tcs) = true) :
    match freshCalls p tys (rowCalls 0 tcs) with
    | .ok vs => scanT p it tys vals = .row { it with pos := it.pos + 1, buf := rest } vs
    | .err => ∃ v', scanT p it tys vals = .stop { it with failed := true } v'
    | .bad => scanT p it tys vals = .crash ∨ scanT p it tys vals = .unmodelled := by
  have hscan := scan_row it tcs rest tys.length hf hp hm hw hW ha hb
  have hd := rowCalls_dest 0 tcs
  have hlen := rowCalls_length 0 tcs
  rw [hW] at hd hlen
  have happ := applyCalls_fresh p tys (rowCalls 0 tcs) [] vals (by simpa [hlen] using hd) (by simpa using hv)
    (by rw [hlen]; exact hv) hins
  unfold scanT
  rw [map_true_replicate, hscan]
  cases hfc : freshCalls p tys (rowCalls 0 tcs) with
  | ok vs =>
    rw [hfc] at happ
    simp only [List.nil_append] at happ
    simp [happ]
  | err =>
    rw [hfc] at happ
    obtain ⟨v', hv'⟩ := happ
    simp only [List.nil_append] at hv'
    exact ⟨v', by simp [hv']⟩
  | bad =>
    rw [hfc] at happ
    simp only [List.nil_append] at happ
    rcases happ with h | h
    · exact Or.inl (by simp [h])
    · exact Or.inr (by simp [h])

/-! ## the loop `for iter.Scan(&x0, &x1, …) { … }` -/

/-- successive Iter.Scan calls with the SAME typed destinations: the destinations' values after every row that was
    delivered, and the iterator when Scan returned false; `none`: a panic / outside the decode model -/
def scanAllT (p : Nat) (tys : List GoTy) : Nat → Iter → List GoVal → Option (List (List GoVal) × Iter)
  | 0, it, _ => some ([], it)
  | n + 1, it, vals =>
    match scanT p it tys vals with
    | .row it' vals' =>
      (match scanAllT p tys n it' vals' with
       | some (l, it'') => some (vals' :: l, it'')
       | none => none)
    | .stop it' _ => some ([], it')
    | _ => none

/-- the specification of a page read into typed destinations: every row's cells decoded on their own, up to the
    first row with a cell that does not decode (`true`: there was one) -/
def deliver (p : Nat) (tys : List GoTy) : List (List Call) → Option (List (List GoVal) × Bool)
  | [] => some ([], false)
  | calls :: more =>
    match freshCalls p tys calls with
    | .bad => none
    | .err => some ([], true)
    | .ok vals => (deliver p tys more).map (fun lf => (vals :: lf.1, lf.2))

theorem scanAllT_ok (p : Nat) (tys : List GoTy) (rows : List (List (TypeDesc × Cell))) (ts : List TypeDesc) (it : Iter)
    (vals : List GoVal) (hf : it.failed = false) (hn : it.pos + rows.length = it.numRows)
    (hm : colsMatch it.md.columns ts) (hts : ∀ row ∈ rows, row.map (·.1) = ts)
    (hw : ∀ row ∈ rows, wfRow row = true)
    (hW : totalWidth ts = tys.length) (ha : it.md.actualColCount = (tys.length : Int))
    (hb : it.buf = eRows (rows.map (fun row => row.map (·.2)))) (hv : vals.length = tys.length)
    (hins : ∀ row ∈ rows, insensitive tys (rowCalls 0 row) = true) :
    (scanAllT p tys (rows.length + 1) it vals).map (fun r => (r.1, r.2.failed, r.2.pos))
      = (deliver p tys (rows.map (rowCalls 0))).map (fun lf => (lf.1, lf.2, it.pos + (lf.1.length : Int))) := by
  induction rows generalizing it vals with
  | nil =>
    have hp : it.pos = it.numRows := by simpa using hn
    have hs : scan it (tys.map (fun _ => true)) = .stop it [] := scan_end it _ hf hp
    simp [scanAllT, scanT, hs, applyCalls, deliver, hf]
  | cons row rows ih =>
    have hrow := hts row (by simp)
    have hb' : it.buf = eRow (row.map (·.2)) ++ eRows (rows.map (fun row => row.map (·.2))) := by
      simpa [eRows, eRow] using hb
    have hp : it.pos < it.numRows := by simp at hn; omega
    have hone := scanT_row p it row _ tys vals hf hp (by rw [hrow]; exact hm) (hw row (by simp))
      (by rw [hrow]; exact hW) ha hb' hv (hins row (by simp))
    simp only [List.length_cons, List.map_cons, deliver]
    rw [scanAllT]
    cases hfc : freshCalls p tys (rowCalls 0 row) with
    | bad =>
      rw [hfc] at hone
      rcases hone with h | h <;> simp [h]
    | err =>
      rw [hfc] at hone
      obtain ⟨v', h⟩ := hone
      simp [h]
    | ok vs =>
      rw [hfc] at hone
      simp only [hone]
      -- the destinations now hold the row's values: the induction hypothesis is for ANY values
      have hvs : vs.length = tys.length := by
        have h1 := applyCalls_fresh p tys (rowCalls 0 row) [] vals
          (by
            have hd := rowCalls_dest 0 row
            have hl := rowCalls_length 0 row
            rw [hrow, hW] at hd hl
            simpa [hl] using hd)
          (by simpa using hv)
          (by
            have hl := rowCalls_length 0 row
            rw [hrow, hW] at hl
            rw [hl]; exact hv)
          (hins row (by simp))
        rw [hfc] at h1
        simp only [List.nil_append] at h1
        -- applyCalls only `set`s: the length is kept
        have hlen : ∀ (cs : List Call) (v w : List GoVal), applyCalls p tys cs v = .ok w → w.length = v.length := by
          intro cs
          induction cs with
          | nil => intro v w h; simp [applyCalls] at h; rw [← h]
          | cons c cs ihc =>
            intro v w h
            simp only [applyCalls] at h
            cases hc : applyCall p tys v c with
            | ok v1 =>
              rw [hc] at h
              have h2 := ihc v1 w h
              have h3 : v1.length = v.length := by
                unfold applyCall at hc
                split at hc
                · split at hc <;> simp at hc
                  rw [← hc]; simp
                · simp at hc
              omega
            | err v1 => rw [hc] at h; simp at h
            | crash => rw [hc] at h; simp at h
            | unmodelled => rw [hc] at h; simp at h
        have := hlen _ _ _ h1
        omega
      have := ih { it with pos := it.pos + 1, buf := eRows (rows.map (fun row => row.map (·.2))) } vs
        hf (by simp at hn ⊢; omega) hm (fun r hr => hts r (by simp [hr])) (fun r hr => hw r (by simp [hr])) ha rfl hvs
        (fun r hr => hins r (by simp [hr]))
      simp only at this
      cases hrest : scanAllT p tys (rows.length + 1)
          { it with pos := it.pos + 1, buf := eRows (rows.map (fun row => row.map (·.2))) } vs with
      | none =>
        rw [hrest] at this
        cases hdl : deliver p tys (rows.map (rowCalls 0)) with
        | none => simp
        | some x => rw [hdl] at this; simp at this
      | some r =>
        rw [hrest] at this
        cases hdl : deliver p tys (rows.map (rowCalls 0)) with
        | none => rw [hdl] at this; simp at this
        | some x =>
          rw [hdl] at this
          simp only [Option.map_some, Option.some.injEq, Prod.mk.injEq] at this ⊢
          obtain ⟨h1, h2, h3⟩ := this
          refine ⟨by rw [h1], h2, ?_⟩
          rw [h3]; simp; omega

/-- applyCalls only overwrites destinations: their number is kept -/
theorem applyCalls_length (p : Nat) (tys : List GoTy) (cs : List Call) (v w : List GoVal)
    (h : applyCalls p tys cs v = .ok w) : w.length = v.length := by
  induction cs generalizing v with
  | nil => simp [applyCalls] at h; rw [← h]
  | cons c cs ihc =>
    simp only [applyCalls] at h
    cases hc : applyCall p tys v c with
    | ok v1 =>
      rw [hc] at h
      have h2 := ihc v1 h
      have h3 : v1.length = v.length := by
        unfold applyCall at hc
        split at hc
        · split at hc <;> simp at hc
          rw [← hc]; simp
        · simp at hc
      omega
    | err v1 => rw [hc] at h; simp at h
    | crash => rw [hc] at h; simp at h
    | unmodelled => rw [hc] at h; simp at h

/-- the fresh decodes of a row are as many as its destinations -/
theorem freshCalls_length (p : Nat) (tys : List GoTy) (tcs : List (TypeDesc × Cell)) (vs : List GoVal)
    (hW : totalWidth (tcs.map (·.1)) = tys.length) (hins : insensitive tys (rowCalls 0 tcs) = true)
    (h : freshCalls p tys (rowCalls 0 tcs) = .ok vs) : vs.length = tys.length := by
  have hd := rowCalls_dest 0 tcs
  have hl := rowCalls_length 0 tcs
  rw [hW] at hd hl
  have h1 := applyCalls_fresh p tys (rowCalls 0 tcs) [] (tys.map zeroOf) (by simpa [hl] using hd) (by simp)
    (by simp [hl]) hins
  rw [h] at h1
  simp only [List.nil_append] at h1
  have := applyCalls_length p tys _ _ _ h1
  simpa using this

/-! ## the Scanner: `for sc.Next() { sc.Scan(&x0, &x1, …) }` -/

/-- one `Next(); Scan(typed destinations)` round on a well-formed row -/
theorem scannerT_row (p : Nat) (s : Scanner) (tcs : List (TypeDesc × Cell)) (rest : FrameRead.Bytes) (tys : List GoTy)
    (vals : List GoVal) (hf : s.it.failed = false) (hp : s.it.pos < s.it.numRows) (hc : s.cols.length = tcs.length)
    (hm : colsMatch s.it.md.columns (tcs.map (·.1))) (hw : wfRow tcs = true)
    (hW : totalWidth (tcs.map (·.1)) = tys.length) (ha : s.it.md.actualColCount = (tys.length : Int))
    (hb : s.it.buf = eRow (tcs.map (·.2)) ++ rest) (hv : vals.length = tys.length)
    (hins : insensitive tys (rowCalls 0 tcs) = true) :
    ∃ s1, s.next = .ok (s1, true) ∧
      let s2 : Scanner := { it := { s.it with pos := s.it.pos + 1, buf := rest }, cols := tcs.map (fun tc => cellData tc.2), valid := false }
      match freshCalls p tys (rowCalls 0 tcs) with
      | .ok vs => scannerScanT p s1 tys vals = .ok s2 vs
      | .err => ∃ v', scannerScanT p s1 tys vals = .error s2 v'
      | .bad => scannerScanT p s1 tys vals = .crash ∨ scannerScanT p s1 tys vals = .unmodelled := by
  obtain ⟨s1, hnext, hscan⟩ := scanner_row s tcs rest tys.length hf hp hc hm hw hW ha hb
  refine ⟨s1, hnext, ?_⟩
  have hd := rowCalls_dest 0 tcs
  have hlen := rowCalls_length 0 tcs
  rw [hW] at hd hlen
  have happ := applyCalls_fresh p tys (rowCalls 0 tcs) [] vals (by simpa [hlen] using hd) (by simpa using hv)
    (by rw [hlen]; exact hv) hins
  intro s2
  unfold scannerScanT
  rw [map_true_replicate, hscan]
  cases hfc : freshCalls p tys (rowCalls 0 tcs) with
  | ok vs =>
    rw [hfc] at happ
    simp only [List.nil_append] at happ
    simp [happ, s2]
  | err =>
    rw [hfc] at happ
    obtain ⟨v', hv'⟩ := happ
    simp only [List.nil_append] at hv'
    exact ⟨v', by simp [hv', s2]⟩
  | bad =>
    rw [hfc] at happ
    simp only [List.nil_append] at happ
    rcases happ with h | h
    · exact Or.inl (by simp [h])
    · exact Or.inr (by simp [h])

/-- the Scanner loop with the SAME typed destinations: the values after every row delivered, did a Scan return an
    error, the Scanner at the end; `none`: a panic / outside the decode model -/
def scannerAllT (p : Nat) (tys : List GoTy) : Nat → Scanner → List GoVal → Option (List (List GoVal) × Bool × Scanner)
  | 0, s, _ => some ([], false, s)
  | n + 1, s, vals =>
    match s.next with
    | .ok (s1, true) =>
      (match scannerScanT p s1 tys vals with
       | .ok s2 vals' =>
         (match scannerAllT p tys n s2 vals' with
          | some (l, e, s3) => some (vals' :: l, e, s3)
          | none => none)
       | .error s2 _ => some ([], true, s2)
       | _ => none)
    | .ok (s1, false) => some ([], false, s1)
    | _ => none

theorem scannerAllT_ok (p : Nat) (tys : List GoTy) (rows : List (List (TypeDesc × Cell))) (ts : List TypeDesc) (s : Scanner)
    (vals : List GoVal) (hf : s.it.failed = false) (hn : s.it.pos + rows.length = s.it.numRows)
    (hc : s.cols.length = ts.length)
    (hm : colsMatch s.it.md.columns ts) (hts : ∀ row ∈ rows, row.map (·.1) = ts)
    (hw : ∀ row ∈ rows, wfRow row = true)
    (hW : totalWidth ts = tys.length) (ha : s.it.md.actualColCount = (tys.length : Int))
    (hb : s.it.buf = eRows (rows.map (fun row => row.map (·.2)))) (hv : vals.length = tys.length)
    (hins : ∀ row ∈ rows, insensitive tys (rowCalls 0 row) = true) :
    (scannerAllT p tys (rows.length + 1) s vals).map (fun r => (r.1, r.2.1, r.2.2.it.failed))
      = (deliver p tys (rows.map (rowCalls 0))).map (fun lf => (lf.1, lf.2, false)) := by
  induction rows generalizing s vals with
  | nil =>
    have hp : s.it.pos = s.it.numRows := by simpa using hn
    simp [scannerAllT, scanner_end s hf hp, deliver, hf]
  | cons row rows ih =>
    have hrow := hts row (by simp)
    have hlen : row.length = ts.length := by rw [← hrow]; simp
    have hb' : s.it.buf = eRow (row.map (·.2)) ++ eRows (rows.map (fun row => row.map (·.2))) := by
      simpa [eRows, eRow] using hb
    have hp : s.it.pos < s.it.numRows := by simp at hn; omega
    obtain ⟨s1, hnext, hone⟩ := scannerT_row p s row _ tys vals hf hp (by rw [hc, hlen]) (by rw [hrow]; exact hm)
      (hw row (by simp)) (by rw [hrow]; exact hW) ha hb' hv (hins row (by simp))
    simp only [List.length_cons, List.map_cons, deliver]
    rw [scannerAllT]
    simp only [hnext]
    simp only at hone
    cases hfc : freshCalls p tys (rowCalls 0 row) with
    | bad =>
      rw [hfc] at hone
      rcases hone with h | h <;> simp [h]
    | err =>
      rw [hfc] at hone
      obtain ⟨v', h⟩ := hone
      simp [h, hf]
    | ok vs =>
      rw [hfc] at hone
      simp only [hone]
      have hvs : vs.length = tys.length :=
        freshCalls_length p tys row vs (by rw [hrow]; exact hW) (hins row (by simp)) hfc
      have := ih
        { it := { s.it with pos := s.it.pos + 1, buf := eRows (rows.map (fun row => row.map (·.2))) },
          cols := row.map (fun tc => cellData tc.2), valid := false } vs
        hf (by simp at hn ⊢; omega) (by simp [hlen]) hm (fun r hr => hts r (by simp [hr])) (fun r hr => hw r (by simp [hr]))
        ha rfl hvs (fun r hr => hins r (by simp [hr]))
      simp only at this
      cases hrest : scannerAllT p tys (rows.length + 1)
          { it := { s.it with pos := s.it.pos + 1, buf := eRows (rows.map (fun row => row.map (·.2))) },
            cols := row.map (fun tc => cellData tc.2), valid := false } vs with
      | none =>
        rw [hrest] at this
        cases hdl : deliver p tys (rows.map (rowCalls 0)) with
        | none => simp
        | some x => rw [hdl] at this; simp at this
      | some r =>
        rw [hrest] at this
        cases hdl : deliver p tys (rows.map (rowCalls 0)) with
        | none => rw [hdl] at this; simp at this
        | some x =>
          rw [hdl] at this
          simp only [Option.map_some, Option.some.injEq, Prod.mk.injEq] at this ⊢
          obtain ⟨h1, h2, h3⟩ := this
          exact ⟨by rw [h1], h2, h3⟩


/-! ## MapScan with pointers to the same variables in a new map per row -/

def mapScanAllT (p : Nat) (tys : List GoTy) : Nat → Iter → List GoVal → Option (List (List GoVal) × Iter)
  | 0, it, _ => some ([], it)
  | n + 1, it, vals =>
    match mapScanT p it tys vals with
    | .row it' vals' =>
      (match mapScanAllT p tys n it' vals' with
       | some (l, it'') => some (vals' :: l, it'')
       | none => none)
    | .stop it' _ => some ([], it')
    | _ => none

theorem scanT_md (p : Nat) (it it' : Iter) (tys : List GoTy) (vals vals' : List GoVal)
    (h : scanT p it tys vals = .row it' vals') : it'.md = it.md := by
  unfold scanT at h
  cases hs : scan it (tys.map (fun _ => true)) with
  | row it1 calls =>
    rw [hs] at h
    have hmd : it1.md = it.md := by
      unfold scan at hs
      split at hs
      · simp at hs
      · split at hs
        · simp at hs
        · split at hs
          · simp at hs
          · split at hs
            · simp at hs; rw [← hs.1]
            · simp at hs
            · simp at hs
    simp only at h
    cases ha : applyCalls p tys calls vals with
    | ok v => rw [ha] at h; simp at h; rw [← h.1]; exact hmd
    | err v => rw [ha] at h; simp at h
    | crash => rw [ha] at h; simp at h
    | unmodelled => rw [ha] at h; simp at h
  | stop it1 calls =>
    rw [hs] at h
    simp only at h
    cases ha : applyCalls p tys calls vals <;> rw [ha] at h <;> simp at h
  | crash => rw [hs] at h; simp at h

/-- when RowData names every destination once, the MapScan loop IS the Scan loop -/
theorem mapScanAllT_eq (p : Nat) (tys : List GoTy) (names : List FrameRead.Bytes) (n : Nat) (it : Iter) (vals : List GoVal)
    (hn : rowDataNames it.md.columns = some names) (hl : names.length = tys.length) (hd : names.Nodup) :
    mapScanAllT p tys n it vals = scanAllT p tys n it vals := by
  induction n generalizing it vals with
  | zero => rfl
  | succ n ih =>
    unfold mapScanAllT scanAllT
    by_cases hf : it.failed = true
    · have hs : scan it (tys.map (fun _ => true)) = .stop it [] := by unfold scan; simp [hf]
      simp [mapScanT, hf, scanT, hs, applyCalls]
    · have hf' : it.failed = false := by simpa using hf
      have hm : mapScanT p it tys vals = scanT p it tys vals := by
        simp [mapScanT, hf', hn, hl, hd]
      rw [hm]
      cases hs : scanT p it tys vals with
      | row it' vals' =>
        have hmd := scanT_md p it it' tys vals vals' hs
        simp only []
        rw [ih it' vals' (by rw [hmd]; exact hn)]
      | stop it' v => rfl
      | crash => rfl
      | unmodelled => rfl

/-! ## destination types that never fall under the excluded condition -/

theorem insensitive_of_stateless (tys : List GoTy) (h : tys.all statelessTy = true) (calls : List Call) :
    insensitive tys calls = true := by
  simp only [insensitive, List.all_eq_true]
  intro c _
  cases hty : tys[c.dest]? with
  | none => rfl
  | some ty =>
    have hmem : ty ∈ tys := List.mem_of_getElem? hty
    have hs : statelessTy ty = true := (List.all_eq_true.mp h) ty hmem
    cases ty with
    | bytes named => cases named <;> simp_all [statelessTy, sensitive, sensitiveFlat]
    | _ => simp_all [statelessTy, sensitive, sensitiveFlat]

end C04
