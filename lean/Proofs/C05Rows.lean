import Model.RowsCrash
import Proofs.C05Frame
/-! Helper lemmas + part theorems for row iteration (C05 part 3). -/
namespace C05Rows
open FrameCrash RowsCrash

def StepSafe {α : Type} (o : Step α) : Prop := ∀ s, o ≠ .crash s

theorem tupleCell_safe (k : Nat) (data : Bytes) : StepSafe (tupleCell k data) := by
  induction k generalizing data with
  | zero => intro s h; simp [tupleCell] at h
  | succ k ih =>
    unfold tupleCell
    split
    · exact ih _
    · simp only []
      split
      · exact ih _
      · split
        · intro s h; cases h
        · exact ih _

/-- the destination slice expressions of scanColumn / Iter.Scan are in bounds as long as the
destinations still to be filled fit: `i + Σ width ≤ n` -/
theorem scanCols_safe (n : Nat) (cols : List TI) (i : Nat) (buf : Bytes)
    (h : i + (cols.map width).sum ≤ n) : StepSafe (scanCols n cols i buf) := by
  induction cols generalizing i buf with
  | nil => intro s hs; simp [scanCols] at hs
  | cons col rest ih =>
    unfold scanCols
    simp only [List.map_cons, List.sum_cons] at h
    split
    · intro s hs; cases hs
    · simp only []
      split
      · intro s hs; cases hs
      · split
        · omega
        · split
          · intro s hs; cases hs
          · split
            · rename_i es
              simp only [width] at h
              split
              · omega
              · have ht := tupleCell_safe es.length
                split
                · exact ih _ _ (by omega)
                · intro s hs; cases hs
                · rename_i s' hs'
                  exact absurd hs' (ht _ s')
            · rename_i hnt
              have hw : width col = 1 := by
                cases col with
                | tuple es => exact absurd rfl (hnt es)
                | _ => rfl
              rw [hw] at h
              exact ih _ _ (by omega)

theorem scanLoop_safe (cols : List TI) (n : Nat) (h : (cols.map width).sum ≤ n)
    (todo done : Nat) (buf : Bytes) : (scanLoop cols n todo done buf).crashSite = none := by
  induction todo generalizing done buf with
  | zero => simp [scanLoop, ROut.crashSite]
  | succ todo ih =>
    unfold scanLoop
    split
    · simp [ROut.crashSite]
    · have hk := scanCols_safe n cols 0 buf (by omega)
      split
      · exact ih _ _
      · simp [ROut.crashSite]
      · rename_i s' hs'
        exact absurd hs' (hk s')

/-- row iteration over ANY body never panics, provided the metadata lists no more columns than it
announces (true of every parsed frame: `C05Rows.parsed_meta_ok`) -/
theorem scanAll_safe (m : Meta) (hm : m.cols.length ≤ m.colCount) (numRows : Nat) (rest : Bytes) :
    (scanAll m numRows rest).crashSite = none := by
  unfold scanAll
  split
  · split <;> simp [ROut.crashSite]
  · exact scanLoop_safe m.cols (destLen m) (by unfold destLen; omega) numRows 0 rest

/-! ### rows scanned vs bytes received (allocation of the row consumers) -/

/-- one Scan call over `cols` consumes at least the 4 length bytes of every column -/
theorem scanCols_consumes (n : Nat) (cols : List TI) (i : Nat) (buf b : Bytes)
    (h : scanCols n cols i buf = .ok b) : b.length + 4 * cols.length ≤ buf.length := by
  induction cols generalizing i buf with
  | nil => simp [scanCols] at h; subst h; simp
  | cons col rest ih =>
    unfold scanCols at h
    split at h
    · cases h
    · rename_i h4
      simp only [] at h
      split at h
      · cases h
      · split at h
        · cases h
        · split at h
          · cases h
          · have hb2 : (if signed32 (be (buf.take 4)) < 0 then buf.drop 4
                else (buf.drop 4).drop (signed32 (be (buf.take 4))).toNat).length + 4 ≤ buf.length := by
              split <;> simp <;> omega
            split at h
            · split at h
              · cases h
              · split at h
                · have := ih _ _ h
                  simp only [List.length_cons] at *; omega
                · cases h
                · cases h
            · have := ih _ _ h
              simp only [List.length_cons] at *; omega

theorem scanLoop_rows (cols : List TI) (hc : cols ≠ []) (n : Nat) (todo done : Nat) (buf : Bytes) :
    4 * (scanLoop cols n todo done buf).rows ≤ 4 * done + buf.length := by
  induction todo generalizing done buf with
  | zero => simp [scanLoop, ROut.rows]
  | succ todo ih =>
    unfold scanLoop
    split
    · simp only [ROut.rows]; omega
    · split
      · rename_i b hb
        have hcons := scanCols_consumes n cols 0 buf b hb
        have hl : 1 ≤ cols.length := by
          cases cols with
          | nil => exact absurd rfl hc
          | cons a r => simp
        have := ih (done + 1) b
        omega
      · simp only [ROut.rows]; omega
      · simp only [ROut.rows]; omega

/-- THE ROW-COUNT BOUND: however many rows the frame announces, a consumer gets through at most one row
per 4 bytes of row set (given at least one described column; the harness keeps the destination list
below `destCap`) -/
theorem rows_scanned_le_body (m : Meta) (hc : m.cols ≠ []) (numRows : Nat) (rest : Bytes) :
    4 * (scanAll m numRows rest).rows ≤ rest.length := by
  unfold scanAll
  split
  · split <;> simp [ROut.rows]
  · simpa using scanLoop_rows m.cols hc (destLen m) numRows 0 rest

/-- the allocation counter of the row consumers is within the bound for EVERY announced row count -/
theorem consumeUnits_le_bound (m : Meta) (hc : m.cols ≠ []) (numRows : Nat) (rest : Bytes) :
    consumeUnits m numRows rest ≤ consumeBound m rest := by
  have h := rows_scanned_le_body m hc numRows rest
  unfold consumeUnits consumeBound
  have : (scanAll m numRows rest).rows ≤ rest.length / 4 := by omega
  have h2 : ((scanAll m numRows rest).rows + 1) * (destLen m + 1) ≤ (rest.length / 4 + 1) * (destLen m + 1) :=
    Nat.mul_le_mul_right (destLen m + 1) (Nat.succ_le_succ this)
  omega

/-! ### what a parsed ROWS frame looks like: no more described columns than announced -/

def Post {α : Type} (Q : α → Prop) (p : P α) : Prop :=
  ∀ st, match p st with
    | .ok a _ => Q a
    | _ => True

theorem post_bind {α β : Type} {Q : β → Prop} (R : α → Prop) {p : P α} {f : α → P β}
    (hp : Post R p) (hf : ∀ a, R a → Post Q (f a)) : Post Q (p >>= f) := by
  intro st
  show match P.bind p f st with | .ok a _ => Q a | _ => True
  unfold P.bind
  have h1 := hp st
  cases h : p st with
  | ok a st' => rw [h] at h1; exact hf a h1 st'
  | err al => trivial
  | crash s al => trivial

theorem post_bind_any {α β : Type} {Q : β → Prop} {p : P α} {f : α → P β}
    (hf : ∀ a, Post Q (f a)) : Post Q (p >>= f) :=
  post_bind (fun _ => True) (fun st => by split <;> trivial) (fun a _ => hf a)

theorem post_pure {α : Type} {Q : α → Prop} {a : α} (h : Q a) : Post Q (pure a : P α) := by
  intro st; exact h

theorem post_fail {α : Type} {Q : α → Prop} : Post Q (fail : P α) := by
  intro st; trivial

theorem post_ite {α : Type} {Q : α → Prop} {c : Prop} [Decidable c] {p q : P α}
    (hp : Post Q p) (hq : Post Q q) : Post Q (if c then p else q) := by
  split <;> assumption

theorem colLoop_len (g : Bool) (n : Nat) (acc : List TI) :
    Post (fun l => l.length = n + acc.length) (colLoop g n acc) := by
  induction n generalizing acc with
  | zero => unfold colLoop; exact post_pure (by simp)
  | succ n ih =>
    unfold colLoop
    refine post_bind_any (fun c => ?_)
    intro st
    have := ih (c :: acc) st
    split <;> simp_all
    omega

def MetaOk (m : Meta) : Prop := m.cols.length ≤ m.colCount

theorem metaTail_ok (flags colCount : Nat) : Post MetaOk (metaTail flags colCount) := by
  unfold metaTail
  refine post_bind_any (fun _ => ?_)
  refine post_ite (post_pure (by simp [MetaOk])) ?_
  refine post_bind_any (fun _ => ?_)
  refine post_bind_any (fun _ => ?_)
  refine post_bind _ (colLoop_len _ colCount []) (fun cols hc => ?_)
  refine post_bind_any (fun _ => ?_)
  exact post_pure (by simp [MetaOk] at *; omega)

theorem parseResultMetadata_ok : Post MetaOk (parseResultMetadata ) := by
  unfold parseResultMetadata
  refine post_bind_any (fun _ => ?_)
  refine post_bind_any (fun _ => ?_)
  exact post_ite post_fail (metaTail_ok _ _)

def FrameOk : Frame → Prop
  | .rows m _ => MetaOk m
  | .simple _ => True

/-- structural automation for `Post FrameOk (do …)` goals whose results are `.simple _` -/
macro "post_simple" : tactic => `(tactic| repeat (first
  | exact post_pure trivial
  | exact post_fail
  | assumption
  | apply post_bind_any
  | apply post_ite
  | intro _))

theorem parseResultSchemaChange_ok (proto : Nat) : Post FrameOk (parseResultSchemaChange proto) := by
  unfold parseResultSchemaChange; post_simple

theorem parseResultFrame_ok (proto : Nat) : Post FrameOk (parseResultFrame proto) := by
  have := parseResultSchemaChange_ok proto
  unfold parseResultFrame
  refine post_bind_any (fun kind => ?_)
  refine post_ite (post_pure trivial) ?_
  refine post_ite ?_ (by post_simple)
  refine post_bind _ (parseResultMetadata_ok ) (fun m hm => ?_)
  refine post_bind_any (fun n => ?_)
  exact post_ite post_fail (post_pure hm)

theorem parseErrorFrame_ok (proto : Nat) : Post FrameOk (parseErrorFrame proto) := by
  unfold parseErrorFrame; post_simple

theorem parseEventFrame_ok (proto : Nat) : Post FrameOk (parseEventFrame proto) := by
  have := parseResultSchemaChange_ok proto
  unfold parseEventFrame; post_simple

theorem parseFrameP_ok (proto : Nat) (resp : Bool) (flags op : Nat) :
    Post FrameOk (parseFrameP proto resp flags op) := by
  have := parseResultFrame_ok proto
  have := parseErrorFrame_ok proto
  have := parseEventFrame_ok proto
  unfold parseFrameP; post_simple

/-- every ROWS frame that parseFrame returns describes at most as many columns as it announces -/
theorem parsed_meta_ok (proto : Nat) (resp : Bool) (flags op : Nat) (body : Bytes)
    (m : Meta) (n : Nat) (st : St) (h : parseFrame proto resp flags op body = .ok (.rows m n) st) :
    m.cols.length ≤ m.colCount := by
  have := parseFrameP_ok proto resp flags op { buf := body, alloc := 0 }
  unfold parseFrame at h
  rw [h] at this
  exact this

/-! ### nesting depth of parsed type descriptions -/

theorem post_crashAt {α : Type} {Q : α → Prop} (s : Site) : Post Q (crashAt s : P α) := by
  intro st; trivial

/-- the nesting depth of a parsed type description is bounded by the recursion fuel, i.e. by the
number of unread body bytes + 1: nothing else bounds it -/
theorem typeInfo_depth : ∀ f : Nat,
    Post (fun t => tiDepth t ≤ f) (readTypeInfo f) ∧
    (∀ named n, Post (fun ts => tiDepthL ts ≤ f) (typeLoop f named n)) := by
  intro f
  induction f with
  | zero =>
    constructor
    · unfold readTypeInfo; exact post_crashAt _
    · intro named n; unfold typeLoop; exact post_crashAt _
  | succ f ih =>
    obtain ⟨ihT, ihL⟩ := ih
    constructor
    · unfold readTypeInfo
      refine post_bind_any (fun id => ?_)
      refine post_bind_any (fun typ => ?_)
      refine post_ite ?_ (post_ite ?_ (post_ite ?_ (post_ite ?_ ?_)))
      · refine post_bind_any (fun n => ?_)
        refine post_bind_any (fun _ => ?_)
        refine post_bind_any (fun _ => ?_)
        refine post_bind _ (ihL false n) (fun es hes => ?_)
        exact post_pure (by simp [tiDepth]; omega)
      · refine post_bind_any (fun _ => ?_)
        refine post_bind_any (fun _ => ?_)
        refine post_bind_any (fun n => ?_)
        refine post_bind_any (fun _ => ?_)
        refine post_bind_any (fun _ => ?_)
        refine post_bind _ (ihL true n) (fun es hes => ?_)
        exact post_pure (by simp [tiDepth]; omega)
      · refine post_bind _ ihT (fun k hk => ?_)
        refine post_bind _ ihT (fun v hv => ?_)
        exact post_pure (by simp [tiDepth]; omega)
      · refine post_bind _ ihT (fun e he => ?_)
        exact post_pure (by simp [tiDepth]; omega)
      · exact post_pure (by simp [tiDepth])
    · intro named n
      unfold typeLoop
      cases n with
      | zero => exact post_pure (by simp [tiDepthL])
      | succ n =>
        simp only []
        refine post_bind_any (fun _ => ?_)
        refine post_bind _ ihT (fun t ht => ?_)
        refine post_bind _ (ihL named n) (fun ts hts => ?_)
        exact post_pure (by simp [tiDepthL]; omega)

theorem typeInfoTop_depth (st : St) (t : TI) (st' : St) (h : readTypeInfoTop st = .ok t st') :
    tiDepth t ≤ st.buf.length + 1 := by
  have := (typeInfo_depth (st.buf.length + 1)).1 st
  unfold readTypeInfoTop at h
  rw [h] at this
  exact this

/-! ### Iter.RowData / goType -/

/-- goType panics only through reflect.MapOf on a non-comparable key — and not at all once the
Comparable guard is there (`g = true`, the current tree) — or on a NativeType carrying a collection id -/
theorem goType_safe_old (t : TI) (h1 : badMapKey t = false) (h2 : nativeCollection t = false) :
    (goTypeG false t).isCrash = false := by
  fun_induction goTypeG false t <;> simp_all [badMapKey, nativeCollection, GT.isCrash]
  rename_i k v c1 c2 hk hv hc
  cases k with
  | simple t =>
    simp at h1
    simp only [goTypeG] at hk
    split at hk
    · simp_all
    · split at hk
      · simp_all
      · split at hk
        · simp_all
        · split at hk <;> simp_all
  | _ => simp at h1

theorem goType_safe_new (t : TI) (h2 : nativeCollection t = false) :
    (goTypeG true t).isCrash = false := by
  fun_induction goTypeG true t <;> simp_all [nativeCollection, GT.isCrash]

theorem goType_safe (g : Bool) (t : TI) (h1 : g = true ∨ badMapKey t = false) (h2 : nativeCollection t = false) :
    (goTypeG g t).isCrash = false := by
  cases g with
  | true => exact goType_safe_new t h2
  | false =>
    rcases h1 with h | h
    · cases h
    · exact goType_safe_old t h h2

theorem goTypes_safe (g : Bool) (es : List TI) (n : Nat)
    (h : ∀ t ∈ es, (g = true ∨ badMapKey t = false) ∧ nativeCollection t = false) :
    (goTypes g es n).isCrash = false := by
  induction es generalizing n with
  | nil => simp [goTypes, RD.isCrash]
  | cons t r ih =>
    unfold goTypes
    have ht := goType_safe g t (h t (by simp)).1 (h t (by simp)).2
    split
    · exact ih _ (fun x hx => h x (by simp [hx]))
    · simp [RD.isCrash]
    · rename_i hc; rw [hc] at ht; simp [GT.isCrash] at ht
    · rename_i hc; rw [hc] at ht; simp [GT.isCrash] at ht

/-- a column is fine for the OLD goType (no Comparable guard) when (each element of a tuple column, or
the column type itself) has no map with a non-comparable key -/
def colOk : TI → Bool
  | .tuple es => es.all (fun t => !badMapKey t)
  | t => !badMapKey t

/-- NativeType values carrying a collection id do not occur in what readTypeInfo builds -/
def colNative : TI → Bool
  | .tuple es => es.all (fun t => !nativeCollection t)
  | t => !nativeCollection t

theorem rowData_safe (g : Bool) (cols : List TI) (n : Nat)
    (h : ∀ c ∈ cols, (g = true ∨ colOk c = true) ∧ colNative c = true) : (rowDataG g cols n).isCrash = false := by
  induction cols generalizing n with
  | nil => simp [rowDataG, RD.isCrash]
  | cons c r ih =>
    have hc := h c (by simp)
    have hr : ∀ x ∈ r, (g = true ∨ colOk x = true) ∧ colNative x = true := fun x hx => h x (by simp [hx])
    have generic : ∀ t : TI, (g = true ∨ badMapKey t = false) → nativeCollection t = false →
        (match goTypeG g t with
          | .ok _ => rowDataG g r (n + 1)
          | .err => .err
          | .crashMapOf => .crashMapOf
          | .crashAssert => .crashAssert).isCrash = false := by
      intro t h1 h2
      have ht := goType_safe g t h1 h2
      split
      · exact ih _ hr
      · simp [RD.isCrash]
      · rename_i hx; rw [hx] at ht; simp [GT.isCrash] at ht
      · rename_i hx; rw [hx] at ht; simp [GT.isCrash] at ht
    cases c with
    | tuple es =>
      simp only [rowDataG]
      simp only [colOk, colNative, List.all_eq_true] at hc
      have := goTypes_safe g es n (fun t ht => by
        refine ⟨?_, ?_⟩
        · rcases hc.1 with h | h
          · exact Or.inl h
          · have := h t ht; simp at this; exact Or.inr this
        · have := hc.2 t ht; simpa using this)
      split
      · exact ih _ hr
      · rename_i o hne
        exact this
    | simple t => simp only [rowDataG]; simp [colOk, colNative] at hc; exact generic _ hc.1 hc.2
    | list e => simp only [rowDataG]; simp [colOk, colNative] at hc; exact generic _ hc.1 hc.2
    | map k v => simp only [rowDataG]; simp [colOk, colNative] at hc; exact generic _ hc.1 hc.2
    | udt fs => simp only [rowDataG]; simp [colOk, colNative] at hc; exact generic _ hc.1 hc.2

end C05Rows
