import Model.RowsCrash
import Proofs.C05Frame
/-! Helper lemmas + part theorems for row iteration (C05 part 3). -/
namespace C05Rows
open FrameCrash RowsCrash

def StepKnown (fx : Bool) {α : Type} (o : Step α) : Prop :=
  ∀ s, o = .crash s → s.known = true ∧ fx = false

theorem tupleCell_known (fx : Bool) (k : Nat) (data : Bytes) : StepKnown fx (tupleCell fx k data) := by
  induction k generalizing data with
  | zero => intro s h; simp [tupleCell] at h
  | succ k ih =>
    unfold tupleCell
    split
    · exact ih _
    · simp only []
      split
      · exact ih _
      · split
        · cases fx
          · intro s h; simp at h; subst h; exact ⟨rfl, rfl⟩
          · intro s h; simp at h
        · exact ih _

/-- the destination slice expressions of scanColumn / Iter.Scan are in bounds as long as the
destinations still to be filled fit: `i + Σ width ≤ n` -/
theorem scanCols_known (fx : Bool) (n : Nat) (cols : List TI) (i : Nat) (buf : Bytes)
    (h : i + (cols.map width).sum ≤ n) : StepKnown fx (scanCols fx n cols i buf) := by
  induction cols generalizing i buf with
  | nil => intro s hs; simp [scanCols] at hs
  | cons col rest ih =>
    unfold scanCols
    simp only [List.map_cons, List.sum_cons] at h
    split
    · cases fx
      · intro s hs; simp at hs; subst hs; exact ⟨rfl, rfl⟩
      · intro s hs; simp at hs
    · simp only []
      split
      · intro s hs; cases hs
      · split
        · omega
        · split
          · cases fx
            · intro s hs; simp at hs; subst hs; exact ⟨rfl, rfl⟩
            · intro s hs; simp at hs
          · cases col with
            | tuple k =>
              simp only [width] at h
              simp only []
              split
              · omega
              · have ht := tupleCell_known fx k
                split
                · exact ih _ _ (by omega)
                · intro s hs; cases hs
                · rename_i s' hs'
                  intro s hs; cases hs
                  exact ht _ s' hs'
            | other =>
              simp only [width] at h
              exact ih _ _ (by omega)

theorem scanLoop_known (fx : Bool) (cols : List TI) (n : Nat) (h : (cols.map width).sum ≤ n)
    (todo done : Nat) (buf : Bytes) (s : RSite)
    (hs : (scanLoop fx cols n todo done buf).crashSite = some s) : s.known = true ∧ fx = false := by
  induction todo generalizing done buf with
  | zero => simp [scanLoop, ROut.crashSite] at hs
  | succ todo ih =>
    unfold scanLoop at hs
    split at hs
    · simp [ROut.crashSite] at hs
    · have hk := scanCols_known fx n cols 0 buf (by omega)
      split at hs
      · exact ih _ _ hs
      · simp [ROut.crashSite] at hs
      · rename_i s' hs'
        simp [ROut.crashSite] at hs
        subst hs
        exact hk s' hs'

/-- row iteration over ANY body: whatever panics, panics at a known site (and only in the unchanged
code), provided the metadata lists no more columns than it announces (true of every parsed frame:
`C05Rows.parsed_meta_ok`) -/
theorem scanAll_known (fx : Bool) (m : Meta) (hm : m.cols.length ≤ m.colCount) (numRows : Nat) (rest : Bytes) (s : RSite)
    (hs : (scanAll fx m numRows rest).crashSite = some s) : s.known = true ∧ fx = false := by
  unfold scanAll at hs
  split at hs
  · split at hs <;> simp [ROut.crashSite] at hs
  · exact scanLoop_known fx m.cols (destLen m) (by unfold destLen; omega) numRows 0 rest s hs

/-! ### what a parsed ROWS frame looks like: no more described columns than announced -/

def Post {α : Type} (Q : α → Prop) (p : P α) : Prop :=
  ∀ st, match p st with
    | .ok a _ => Q a
    | _ => True

theorem post_bind {α β : Type} {Q : β → Prop} (R : α → Prop) {p : P α} {f : α → P β}
    (hp : Post R p) (hf : ∀ a, R a → Post Q (f a)) : Post Q (p >>= f) := by
  intro st
  show match P.bind p f st with | .ok a _ => Q a | _ => True
  unfold P.bind
  have h1 := hp st
  cases h : p st with
  | ok a st' => rw [h] at h1; exact hf a h1 st'
  | err al => trivial
  | crash s al => trivial

theorem post_bind_any {α β : Type} {Q : β → Prop} {p : P α} {f : α → P β}
    (hf : ∀ a, Post Q (f a)) : Post Q (p >>= f) :=
  post_bind (fun _ => True) (fun st => by split <;> trivial) (fun a _ => hf a)

theorem post_pure {α : Type} {Q : α → Prop} {a : α} (h : Q a) : Post Q (pure a : P α) := by
  intro st; exact h

theorem post_fail {α : Type} {Q : α → Prop} : Post Q (fail : P α) := by
  intro st; trivial

theorem post_ite {α : Type} {Q : α → Prop} {c : Prop} [Decidable c] {p q : P α}
    (hp : Post Q p) (hq : Post Q q) : Post Q (if c then p else q) := by
  split <;> assumption

theorem colLoop_len (fx : Bool) (g : Bool) (n : Nat) (acc : List TI) :
    Post (fun l => l.length = n + acc.length) (colLoop fx g n acc) := by
  induction n generalizing acc with
  | zero => unfold colLoop; exact post_pure (by simp)
  | succ n ih =>
    unfold colLoop
    refine post_bind_any (fun c => ?_)
    intro st
    have := ih (c :: acc) st
    split <;> simp_all
    omega

def MetaOk (m : Meta) : Prop := m.cols.length ≤ m.colCount

theorem metaTail_ok (fx : Bool) (flags colCount : Nat) : Post MetaOk (metaTail fx flags colCount) := by
  unfold metaTail
  refine post_bind_any (fun _ => ?_)
  refine post_ite (post_pure (by simp [MetaOk])) ?_
  refine post_bind_any (fun _ => ?_)
  refine post_bind_any (fun _ => ?_)
  refine post_bind _ (colLoop_len fx _ colCount []) (fun cols hc => ?_)
  refine post_bind_any (fun _ => ?_)
  exact post_pure (by simp [MetaOk] at *; omega)

theorem parseResultMetadata_ok (fx : Bool) : Post MetaOk (parseResultMetadata fx) := by
  unfold parseResultMetadata
  refine post_bind_any (fun _ => ?_)
  refine post_bind_any (fun _ => ?_)
  exact post_ite post_fail (metaTail_ok fx _ _)

def FrameOk : Frame → Prop
  | .rows m _ => MetaOk m
  | .simple _ => True

/-- structural automation for `Post FrameOk (do …)` goals whose results are `.simple _` -/
macro "post_simple" : tactic => `(tactic| repeat (first
  | exact post_pure trivial
  | exact post_fail
  | assumption
  | apply post_bind_any
  | apply post_ite
  | intro _))

theorem parseResultSchemaChange_ok (proto : Nat) : Post FrameOk (parseResultSchemaChange proto) := by
  unfold parseResultSchemaChange; post_simple

theorem parseResultFrame_ok (fx : Bool) (proto : Nat) : Post FrameOk (parseResultFrame fx proto) := by
  have := parseResultSchemaChange_ok proto
  unfold parseResultFrame
  refine post_bind_any (fun kind => ?_)
  refine post_ite (post_pure trivial) ?_
  refine post_ite ?_ (by post_simple)
  refine post_bind _ (parseResultMetadata_ok fx) (fun m hm => ?_)
  refine post_bind_any (fun n => ?_)
  exact post_ite post_fail (post_pure hm)

theorem parseErrorFrame_ok (fx : Bool) (proto : Nat) : Post FrameOk (parseErrorFrame fx proto) := by
  unfold parseErrorFrame; post_simple

theorem parseEventFrame_ok (fx : Bool) (proto : Nat) : Post FrameOk (parseEventFrame fx proto) := by
  have := parseResultSchemaChange_ok proto
  unfold parseEventFrame; post_simple

theorem parseFrameP_ok (fx : Bool) (proto : Nat) (resp : Bool) (flags op : Nat) :
    Post FrameOk (parseFrameP fx proto resp flags op) := by
  have := parseResultFrame_ok fx proto
  have := parseErrorFrame_ok fx proto
  have := parseEventFrame_ok fx proto
  unfold parseFrameP; post_simple

/-- every ROWS frame that parseFrame returns describes at most as many columns as it announces -/
theorem parsed_meta_ok (fx : Bool) (proto : Nat) (resp : Bool) (flags op : Nat) (body : Bytes)
    (m : Meta) (n : Nat) (st : St) (h : parseFrame fx proto resp flags op body = .ok (.rows m n) st) :
    m.cols.length ≤ m.colCount := by
  have := parseFrameP_ok fx proto resp flags op { buf := body, alloc := 0 }
  unfold parseFrame at h
  rw [h] at this
  exact this

end C05Rows
