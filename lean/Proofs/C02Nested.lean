import Proofs.C02Scalar
import Proofs.C02Hist
/-!
# C02 — the structural steps of the nested round trip (helpers)

`RT p t ty g`: whatever the model's `marshal p t g` returns without error, `unmarshal p t ty` of it is `g`.
Steps: scalar leaves (C02Scalar.SRT), pointers / pointer-to-pointer, nil pointers, lists / sets into slices and arrays,
maps — each with the element statements as hypotheses, both collection framings.
-/
namespace C02Nested
open ValueSpec Marshal C12Bytes C02Scalar

def RT (p : Nat) (t : CqlTy) (ty : GoTy) (g : GoVal) : Prop :=
  ∀ ob, marshal p t g = .ok ob → unmarshal p t ty ob = .ok g

/-- the value is not written as null -/
def NonNull (p : Nat) (t : CqlTy) (g : GoVal) : Prop := marshal p t g ≠ .ok none

/-! ## pointers -/

/-- not a pointer type -/
def isBase : GoTy → Bool
  | .ptr _ => false
  | _ => true

/-- not a pointer value -/
def isPlain : GoVal → Bool
  | .ptr _ => false
  | .nilptr => false
  | _ => true

def ptrTy : Nat → GoTy → GoTy
  | 0, t => t
  | n+1, t => .ptr (ptrTy n t)

theorem stripPtr_base (ty : GoTy) (h : isBase ty = true) : stripPtr ty = (0, ty) := by
  cases ty <;> simp_all [stripPtr, isBase]

theorem stripPtr_ptrTy (k : Nat) (ty : GoTy) (h : isBase ty = true) : stripPtr (ptrTy k ty) = (k, ty) := by
  induction k with
  | zero => exact stripPtr_base ty h
  | succ k ih => simp [ptrTy, stripPtr, ih]

theorem marshal_wrapPtr (p : Nat) (t : CqlTy) (k : Nat) (g : GoVal) : marshal p t (wrapPtr k g) = marshal p t g := by
  induction k with
  | zero => rfl
  | succ k ih => simp [wrapPtr, marshal, ih]

theorem unmarshal_base (p : Nat) (t : CqlTy) (ty : GoTy) (h : isBase ty = true) (data : Option Bytes) :
    unmarshal p t ty data = unmarshalBase p t ty data := by
  simp [unmarshal, withPtr, stripPtr_base ty h]

/-- a nil pointer of any depth is null, and null is the nil pointer -/
theorem rt_nilptr (p : Nat) (t : CqlTy) (k : Nat) (ty : GoTy) (hb : isBase ty = true) :
    RT p t (ptrTy (k+1) ty) .nilptr := by
  intro ob h
  simp [marshal] at h
  subst h
  simp [unmarshal, withPtr, stripPtr_ptrTy (k+1) ty hb]

/-- `*T`, `**T`, …: a chain of non-nil pointers to a value that is not written as null -/
theorem rt_ptr (p : Nat) (t : CqlTy) (k : Nat) (ty : GoTy) (hb : isBase ty = true) (g : GoVal)
    (h : RT p t ty g) (hnn : NonNull p t g) : RT p t (ptrTy k ty) (wrapPtr k g) := by
  intro ob hm
  rw [marshal_wrapPtr] at hm
  have hu := h ob hm
  cases k with
  | zero => exact hu
  | succ k =>
    cases ob with
    | none => exact absurd hm hnn
    | some b =>
      rw [unmarshal_base p t ty hb] at hu
      simp [unmarshal, withPtr, stripPtr_ptrTy (k+1) ty hb, hu]

/-! ## scalar leaves -/

theorem marshal_scalar (p : Nat) (t : CqlTy) (g : GoVal) (ht : CqlTy.isScalar t = true) (hg : isPlain g = true) :
    marshal p t g = marshalScalar t g := by
  cases g <;> simp [isPlain] at hg <;> cases t <;> simp [CqlTy.isScalar] at ht <;> simp [marshal]

theorem unmarshalBase_scalar (p : Nat) (t : CqlTy) (ty : GoTy) (data : Option Bytes) (ht : CqlTy.isScalar t = true) :
    unmarshalBase p t ty data = unmarshalScalar t data.isNone (dataBytes data) ty := by
  cases t <;> simp [CqlTy.isScalar] at ht <;> simp [unmarshalBase]

theorem rt_scalar (p : Nat) (t : CqlTy) (ty : GoTy) (g : GoVal) (ht : CqlTy.isScalar t = true)
    (hb : isBase ty = true) (hg : isPlain g = true) (h : SRT t ty g) : RT p t ty g := by
  intro ob hm
  rw [marshal_scalar p t g ht hg] at hm
  rw [unmarshal_base p t ty hb, unmarshalBase_scalar p t ty ob ht]
  exact h ob hm

/-! ## lists and sets -/

theorem collSize_length (p : Nat) (n : Int) (c : Bytes) (h : collSize p n = some c) : c.length = collHdr p := by
  unfold collSize at h
  unfold collHdr
  by_cases hp : p > 2
  · simp only [hp, if_true] at h ⊢
    split at h
    · cases h
    · injection h with h; subst h; rfl
  · simp only [hp, if_false] at h ⊢
    split at h
    · cases h
    · injection h with h; subst h; rfl

theorem collItem_length (p : Nat) (item : Option Bytes) (e : Bytes) (h : collItem p item = some e) :
    collHdr p ≤ e.length := by
  cases item with
  | none => simp only [collItem] at h; rw [collSize_length p _ e h]; exact Nat.le_refl _
  | some b =>
    simp only [collItem] at h
    cases hc : collSize p (b.length : Int) with
    | none => rw [hc] at h; cases h
    | some c =>
      rw [hc] at h
      simp at h; subst h
      simp [collSize_length p _ c hc]

/-- one element written by marshalList / marshalMap and read back, null or not -/
theorem item_back (p : Nat) (item : Option Bytes) (e rest : Bytes) (h : collItem p item = some e)
    (hnull : p ≤ 2 → item ≠ none) : readCollItem p (e ++ rest) = some (item, rest) := by
  cases item with
  | some b => exact C12Frame.readCollItem_collItem p b e rest h
  | none =>
    have hp : p ≥ 3 := by
      by_cases hp : p ≤ 2
      · exact absurd rfl (hnull hp)
      · omega
    exact C12Frame.readCollItem_null p hp e rest h

/-- the loop of marshalList against the loop of unmarshalList: the elements come back one by one — every protocol
    version; under protocol ≤ 2 for elements that are not null (the 2-byte framing has no null, KF-C02-3) -/
theorem elems_back (p : Nat) (et : CqlTy) (gty : GoTy) :
    ∀ (vs : List GoVal) (body rest : Bytes),
      (∀ v, v ∈ vs → RT p et gty v) → (p ≤ 2 → ∀ v, v ∈ vs → NonNull p et v) →
      marshalElems p et vs = .ok (some body) →
      unmarshalElems p (unmarshal p et gty) vs.length (body ++ rest) = .ok vs rest ∧ vs.length * collHdr p ≤ body.length
  | [], body, rest, _, _, h => by
    simp [marshalElems] at h
    subst h
    exact ⟨rfl, by simp⟩
  | v :: vs, body, rest, hrt, hnn, h => by
    rw [marshalElems] at h
    cases hm : marshal p et v with
    | ok item =>
      rw [hm] at h
      simp only at h
      cases hc : collItem p item with
      | none => rw [hc] at h; simp at h
      | some e =>
        rw [hc] at h
        simp only at h
        cases hr : marshalElems p et vs with
        | ok orest =>
          cases orest with
          | none => rw [hr] at h; simp at h
          | some rest' =>
            rw [hr] at h
            simp at h
            subst h
            obtain ⟨ih, ihl⟩ := elems_back p et gty vs rest' rest (fun w hw => hrt w (List.mem_cons_of_mem _ hw))
              (fun hp w hw => hnn hp w (List.mem_cons_of_mem _ hw)) hr
            have hback := item_back p item e (rest' ++ rest) hc
              (fun hp hi => hnn hp v List.mem_cons_self (by rw [hm, hi]))
            have hv := hrt v List.mem_cons_self item hm
            refine ⟨?_, ?_⟩
            · simp only [List.length_cons, unmarshalElems, List.append_assoc, hback, hv, ih]
            · have := collItem_length p item e hc
              simp only [List.length_cons, List.length_append, Nat.add_mul]
              omega
        | err => rw [hr] at h; simp at h
        | crash => rw [hr] at h; simp at h
        | unmodelled => rw [hr] at h; simp at h
    | err => rw [hm] at h; simp at h
    | crash => rw [hm] at h; simp at h
    | unmodelled => rw [hm] at h; simp at h

theorem collHdr_pos (p : Nat) : 0 < collHdr p := by unfold collHdr; split <;> omega

/-- wrapSeq then the header read back -/
theorem wrapSeq_ok (p n : Nat) (body : MRes) (b : Bytes) (h : wrapSeq p n body = .ok (some b)) :
    ∃ c bd, collSize p (n:Int) = some c ∧ body = .ok (some bd) ∧ b = c ++ bd := by
  unfold wrapSeq at h
  cases hc : collSize p (n:Int) with
  | none => rw [hc] at h; simp at h
  | some c =>
    rw [hc] at h
    simp only at h
    cases body with
    | ok ob =>
      cases ob with
      | none => simp at h
      | some bd => simp at h; exact ⟨c, bd, rfl, rfl, h.symm⟩
    | err => simp at h
    | crash => simp at h
    | unmodelled => simp at h

theorem marshalElems_not_null (p : Nat) (et : CqlTy) : ∀ vs : List GoVal, marshalElems p et vs ≠ .ok none
  | [] => by simp [marshalElems]
  | v :: vs => by
    intro hb
    have ih := marshalElems_not_null p et vs
    rw [marshalElems] at hb
    cases hm : marshal p et v with
    | ok item =>
      rw [hm] at hb; simp only at hb
      cases hc : collItem p item with
      | none => rw [hc] at hb; simp at hb
      | some e =>
        rw [hc] at hb; simp only at hb
        cases hr : marshalElems p et vs with
        | ok orest =>
          cases orest with
          | none => exact ih hr
          | some r => rw [hr] at hb; simp at hb
        | err => rw [hr] at hb; simp at hb
        | crash => rw [hr] at hb; simp at hb
        | unmodelled => rw [hr] at hb; simp at hb
    | err => rw [hm] at hb; simp at hb
    | crash => rw [hm] at hb; simp at hb
    | unmodelled => rw [hm] at hb; simp at hb

theorem wrapSeq_not_null (p n : Nat) (vs : List GoVal) (et : CqlTy) : wrapSeq p n (marshalElems p et vs) ≠ .ok none := by
  unfold wrapSeq
  cases collSize p (n:Int) with
  | none => simp
  | some c =>
    simp only
    cases hb : marshalElems p et vs with
    | ok ob =>
      cases ob with
      | none => exact absurd hb (marshalElems_not_null p et vs)
      | some b => simp
    | err => simp
    | crash => simp
    | unmodelled => simp

/-- the body of unmarshalList on what marshalList wrote, slice target -/
theorem list_back_slice (p : Nat) (et : CqlTy) (gty : GoTy) (vs : List GoVal) (b : Bytes)
    (hrt : ∀ v, v ∈ vs → RT p et gty v) (hnn : p ≤ 2 → ∀ v, v ∈ vs → NonNull p et v)
    (h : wrapSeq p vs.length (marshalElems p et vs) = .ok (some b)) :
    unmarshalListTo p (unmarshal p et gty) (.slice gty) (some b) = .ok (.slice false vs) := by
  obtain ⟨c, bd, hc, hbody, rfl⟩ := wrapSeq_ok p vs.length _ b h
  obtain ⟨hel, hlen⟩ := elems_back p et gty vs bd [] hrt hnn hbody
  have hrc := C12Frame.readCollSize_collSize p vs.length c bd hc
  have hdiv : ¬ vs.length > bd.length / collHdr p := by
    have := (Nat.le_div_iff_mul_le (collHdr_pos p)).mpr hlen
    omega
  simp only [List.append_nil] at hel
  simp only [unmarshalListTo, hrc]
  have hn0 : ¬ ((vs.length : Int) < 0) := by omega
  simp only [if_neg hn0, Int.toNat_natCast, if_neg hdiv, hel]

/-- … array target of the same length -/
theorem list_back_array (p : Nat) (et : CqlTy) (gty : GoTy) (vs : List GoVal) (b : Bytes)
    (hrt : ∀ v, v ∈ vs → RT p et gty v) (hnn : p ≤ 2 → ∀ v, v ∈ vs → NonNull p et v)
    (h : wrapSeq p vs.length (marshalElems p et vs) = .ok (some b)) :
    unmarshalListTo p (unmarshal p et gty) (.array vs.length gty) (some b) = .ok (.array vs) := by
  obtain ⟨c, bd, hc, hbody, rfl⟩ := wrapSeq_ok p vs.length _ b h
  obtain ⟨hel, _⟩ := elems_back p et gty vs bd [] hrt hnn hbody
  have hrc := C12Frame.readCollSize_collSize p vs.length c bd hc
  simp only [List.append_nil] at hel
  simp only [unmarshalListTo, hrc]
  have hn0 : ¬ ((vs.length : Int) ≠ (vs.length : Nat)) := by simp
  simp only [if_neg hn0, Int.toNat_natCast, hel]

def isListLike (t : CqlTy) (et : CqlTy) : Prop := t = .list et ∨ t = .set et

theorem unmarshal_eta (p : Nat) (et : CqlTy) (gty : GoTy) : withPtr (unmarshalBase p et) gty = unmarshal p et gty := by
  funext data; rfl

/-- list<T> / set<T> ↔ []G (non-nil, possibly empty) -/
theorem rt_slice (p : Nat) (t et : CqlTy) (ht : isListLike t et) (gty : GoTy) (vs : List GoVal)
    (hrt : ∀ v, v ∈ vs → RT p et gty v) (hnn : p ≤ 2 → ∀ v, v ∈ vs → NonNull p et v) :
    RT p t (.slice gty) (.slice false vs) := by
  intro ob h
  rcases ht with rfl | rfl <;>
    (simp only [marshal] at h
     simp only [Bool.false_eq_true, if_false] at h
     cases ob with
     | none => exact absurd h (wrapSeq_not_null p _ vs et)
     | some b =>
       rw [unmarshal_base _ _ _ rfl]
       simp only [unmarshalBase, unmarshal_eta]
       exact list_back_slice p et gty vs b hrt hnn h)

/-- the nil slice is null and null is the nil slice -/
theorem rt_nil_slice (p : Nat) (t et : CqlTy) (ht : isListLike t et) (gty : GoTy) :
    RT p t (.slice gty) (.slice true []) := by
  intro ob h
  rcases ht with rfl | rfl <;>
    (simp [marshal] at h
     subst h
     rw [unmarshal_base _ _ _ rfl]
     simp [unmarshalBase, unmarshalListTo])

/-- list<T> / set<T> ↔ [n]G -/
theorem rt_array (p : Nat) (t et : CqlTy) (ht : isListLike t et) (gty : GoTy) (vs : List GoVal)
    (hrt : ∀ v, v ∈ vs → RT p et gty v) (hnn : p ≤ 2 → ∀ v, v ∈ vs → NonNull p et v) :
    RT p t (.array vs.length gty) (.array vs) := by
  intro ob h
  rcases ht with rfl | rfl <;>
    (simp only [marshal] at h
     cases ob with
     | none => exact absurd h (wrapSeq_not_null p _ vs et)
     | some b =>
       rw [unmarshal_base _ _ _ rfl]
       simp only [unmarshalBase, unmarshal_eta]
       exact list_back_array p et gty vs b hrt hnn h)

theorem nonNull_slice (p : Nat) (t et : CqlTy) (ht : isListLike t et) (vs : List GoVal) :
    NonNull p t (.slice false vs) := by
  unfold NonNull
  rcases ht with rfl | rfl <;>
    (simp only [marshal, Bool.false_eq_true, if_false]
     exact wrapSeq_not_null p _ vs et)

theorem nonNull_array (p : Nat) (t et : CqlTy) (ht : isListLike t et) (vs : List GoVal) :
    NonNull p t (.array vs) := by
  unfold NonNull
  rcases ht with rfl | rfl <;>
    (simp only [marshal]
     exact wrapSeq_not_null p _ vs et)

/-! ## maps -/

/-- a Go map holds each key once: no earlier key equals a later one -/
def KeysDistinct : List (GoVal × GoVal) → Prop
  | [] => True
  | kv :: r => (∀ kv', kv' ∈ r → (kv.1 == kv'.1) = false) ∧ KeysDistinct r

theorem mapInsert_fresh (k v : GoVal) : ∀ acc : List (GoVal × GoVal),
    (∀ a, a ∈ acc → (a.1 == k) = false) → mapInsert k v acc = acc ++ [(k, v)]
  | [], _ => rfl
  | (k', v') :: r, h => by
    have h1 : (k' == k) = false := h (k', v') List.mem_cons_self
    have ih := mapInsert_fresh k v r (fun a ha => h a (List.mem_cons_of_mem _ ha))
    simp [mapInsert, h1, ih]

theorem marshalPairs_not_null (p : Nat) (kt vt : CqlTy) : ∀ kvs : List (GoVal × GoVal), marshalPairs p kt vt kvs ≠ .ok none
  | [] => by simp [marshalPairs]
  | (k, v) :: r => by
    intro hb
    have ih := marshalPairs_not_null p kt vt r
    rw [marshalPairs] at hb
    cases hk : marshal p kt k with
    | ok ki =>
      rw [hk] at hb; simp only at hb
      cases hkc : collItem p ki with
      | none => rw [hkc] at hb; simp at hb
      | some ke =>
        rw [hkc] at hb; simp only at hb
        cases hv : marshal p vt v with
        | ok vi =>
          rw [hv] at hb; simp only at hb
          cases hvc : collItem p vi with
          | none => rw [hvc] at hb; simp at hb
          | some ve =>
            rw [hvc] at hb; simp only at hb
            cases hr : marshalPairs p kt vt r with
            | ok orest =>
              cases orest with
              | none => exact ih hr
              | some r' => rw [hr] at hb; simp at hb
            | err => rw [hr] at hb; simp at hb
            | crash => rw [hr] at hb; simp at hb
            | unmodelled => rw [hr] at hb; simp at hb
        | err => rw [hv] at hb; simp at hb
        | crash => rw [hv] at hb; simp at hb
        | unmodelled => rw [hv] at hb; simp at hb
    | err => rw [hk] at hb; simp at hb
    | crash => rw [hk] at hb; simp at hb
    | unmodelled => rw [hk] at hb; simp at hb

/-- the loop of marshalMap against the loop of unmarshalMap (SetMapIndex on distinct keys appends) -/
theorem pairs_back (p : Nat) (kt vt : CqlTy) (gk gv : GoTy) :
    ∀ (kvs : List (GoVal × GoVal)) (body rest : Bytes) (acc : List (GoVal × GoVal)),
      (∀ kv, kv ∈ kvs → RT p kt gk kv.1 ∧ RT p vt gv kv.2) →
      (p ≤ 2 → ∀ kv, kv ∈ kvs → NonNull p kt kv.1 ∧ NonNull p vt kv.2) →
      KeysDistinct kvs → (∀ a, a ∈ acc → ∀ kv, kv ∈ kvs → (a.1 == kv.1) = false) →
      marshalPairs p kt vt kvs = .ok (some body) →
      unmarshalPairs p (unmarshal p kt gk) (unmarshal p vt gv) kvs.length (body ++ rest) acc = .ok (acc ++ kvs) rest ∧
        kvs.length * (2 * collHdr p) ≤ body.length
  | [], body, rest, acc, _, _, _, _, h => by
    simp [marshalPairs] at h
    subst h
    exact ⟨by simp [unmarshalPairs], by simp⟩
  | (k, v) :: r, body, rest, acc, hrt, hnn, hd, hacc, h => by
    rw [marshalPairs] at h
    cases hk : marshal p kt k with
    | ok ki =>
      rw [hk] at h; simp only at h
      cases hkc : collItem p ki with
      | none => rw [hkc] at h; simp at h
      | some ke =>
        rw [hkc] at h; simp only at h
        cases hv : marshal p vt v with
        | ok vi =>
          rw [hv] at h; simp only at h
          cases hvc : collItem p vi with
          | none => rw [hvc] at h; simp at h
          | some ve =>
            rw [hvc] at h; simp only at h
            cases hr : marshalPairs p kt vt r with
            | ok orest =>
              cases orest with
              | none => rw [hr] at h; simp at h
              | some rest' =>
                rw [hr] at h
                simp at h
                subst h
                have hins : mapInsert k v acc = acc ++ [(k, v)] :=
                  mapInsert_fresh k v acc (fun a ha => hacc a ha (k, v) List.mem_cons_self)
                have hacc' : ∀ a, a ∈ acc ++ [(k, v)] → ∀ kv, kv ∈ r → (a.1 == kv.1) = false := by
                  intro a ha kv hkv
                  rcases List.mem_append.mp ha with ha | ha
                  · exact hacc a ha kv (List.mem_cons_of_mem _ hkv)
                  · simp at ha; subst ha; exact hd.1 kv hkv
                obtain ⟨ih, ihl⟩ := pairs_back p kt vt gk gv r rest' rest (acc ++ [(k, v)])
                  (fun w hw => hrt w (List.mem_cons_of_mem _ hw))
                  (fun hp w hw => hnn hp w (List.mem_cons_of_mem _ hw)) hd.2 hacc' hr
                have hkb := item_back p ki ke (ve ++ (rest' ++ rest)) hkc
                  (fun hp hi => (hnn hp (k, v) List.mem_cons_self).1 (by rw [hk, hi]))
                have hvb := item_back p vi ve (rest' ++ rest) hvc
                  (fun hp hi => (hnn hp (k, v) List.mem_cons_self).2 (by rw [hv, hi]))
                have hku := (hrt (k, v) List.mem_cons_self).1 ki hk
                have hvu := (hrt (k, v) List.mem_cons_self).2 vi hv
                refine ⟨?_, ?_⟩
                · simp only [List.length_cons, unmarshalPairs, List.append_assoc, hkb, hku, hvb, hvu, hins, ih]
                  simp
                · have h1 := collItem_length p ki ke hkc
                  have h2 := collItem_length p vi ve hvc
                  simp only [List.length_cons, List.length_append, Nat.add_mul]
                  omega
            | err => rw [hr] at h; simp at h
            | crash => rw [hr] at h; simp at h
            | unmodelled => rw [hr] at h; simp at h
        | err => rw [hv] at h; simp at h
        | crash => rw [hv] at h; simp at h
        | unmodelled => rw [hv] at h; simp at h
    | err => rw [hk] at h; simp at h
    | crash => rw [hk] at h; simp at h
    | unmodelled => rw [hk] at h; simp at h

theorem wrapSeq_pairs_not_null (p n : Nat) (kvs : List (GoVal × GoVal)) (kt vt : CqlTy) :
    wrapSeq p n (marshalPairs p kt vt kvs) ≠ .ok none := by
  unfold wrapSeq
  cases collSize p (n:Int) with
  | none => simp
  | some c =>
    simp only
    cases hb : marshalPairs p kt vt kvs with
    | ok ob =>
      cases ob with
      | none => exact absurd hb (marshalPairs_not_null p kt vt kvs)
      | some b => simp
    | err => simp
    | crash => simp
    | unmodelled => simp

/-- map<K, V> ↔ map[GK]GV (non-nil, possibly empty), distinct keys -/
theorem rt_map (p : Nat) (kt vt : CqlTy) (gk gv : GoTy) (kvs : List (GoVal × GoVal))
    (hrt : ∀ kv, kv ∈ kvs → RT p kt gk kv.1 ∧ RT p vt gv kv.2)
    (hnn : p ≤ 2 → ∀ kv, kv ∈ kvs → NonNull p kt kv.1 ∧ NonNull p vt kv.2)
    (hd : KeysDistinct kvs) : RT p (.map kt vt) (.map gk gv) (.map false kvs) := by
  intro ob h
  simp only [marshal, Bool.false_eq_true, if_false] at h
  cases ob with
  | none => exact absurd h (wrapSeq_pairs_not_null p _ kvs kt vt)
  | some b =>
    obtain ⟨c, bd, hc, hbody, rfl⟩ := wrapSeq_ok p kvs.length _ b h
    obtain ⟨hel, hlen⟩ := pairs_back p kt vt gk gv kvs bd [] [] hrt hnn hd (fun a ha => by simp at ha) hbody
    have hrc := C12Frame.readCollSize_collSize p kvs.length c bd hc
    have hpos : 0 < 2 * collHdr p := by have := collHdr_pos p; omega
    have hdiv : ¬ kvs.length > bd.length / (2 * collHdr p) := by
      have := (Nat.le_div_iff_mul_le hpos).mpr hlen
      omega
    simp only [List.append_nil, List.nil_append] at hel
    rw [unmarshal_base _ _ _ rfl]
    simp only [unmarshalBase, unmarshal_eta, hrc]
    have hn0 : ¬ ((kvs.length : Int) < 0) := by omega
    simp only [if_neg hn0, Int.toNat_natCast, if_neg hdiv, hel]

/-- the nil map is null and null is the nil map -/
theorem rt_nil_map (p : Nat) (kt vt : CqlTy) (gk gv : GoTy) : RT p (.map kt vt) (.map gk gv) (.map true []) := by
  intro ob h
  simp [marshal] at h
  subst h
  rw [unmarshal_base _ _ _ rfl]
  simp [unmarshalBase]

theorem nonNull_map (p : Nat) (kt vt : CqlTy) (kvs : List (GoVal × GoVal)) : NonNull p (.map kt vt) (.map false kvs) := by
  unfold NonNull
  simp only [marshal, Bool.false_eq_true, if_false]
  exact wrapSeq_pairs_not_null p _ kvs kt vt

/-- the distinct-keys hypothesis as a computation (`==` on `GoVal` is the structural `GoVal.beqV`) -/
def keysDistinctB : List (GoVal × GoVal) → Bool
  | [] => true
  | kv :: r => r.all (fun kv' => !(kv.1 == kv'.1)) && keysDistinctB r

theorem keysDistinct_of_B : ∀ kvs : List (GoVal × GoVal), keysDistinctB kvs = true → KeysDistinct kvs
  | [], _ => trivial
  | kv :: r, h => by
    simp only [keysDistinctB, Bool.and_eq_true, List.all_eq_true, Bool.not_eq_eq_eq_not, Bool.not_true] at h
    exact ⟨fun kv' hkv' => h.1 kv' hkv', keysDistinct_of_B r h.2⟩

/-! ## tuples bound to / decoded into a struct -/

/-- the encoding is short enough for a 4-byte signed length -/
def Small (p : Nat) (t : CqlTy) (g : GoVal) : Prop := ∀ b, marshal p t g = .ok (some b) → b.length < 2^31

/-- unmarshalTuple decodes EVERY field into a fresh goType(elem) first, a null one as well: that must not fail -/
def NullOK (p : Nat) (t : CqlTy) : Prop := ∃ v0, unmarshal p t (goTypeOf t) none = .ok v0

/-- the fields of a struct bound to a tuple column, field by field: a field of type goType(elem) holding a value whose
    round trip holds, or a field of type *goType(elem): nil, or pointing to such a value that is not written as null -/
inductive FieldsRT (p : Nat) : List CqlTy → List GoTy → List GoVal → Prop
  | nil : FieldsRT p [] [] []
  | val {t ts gs v vs} : isBase (goTypeOf t) = true → v.isNilPtr = false → RT p t (goTypeOf t) v → Small p t v →
      FieldsRT p ts gs vs → FieldsRT p (t :: ts) (goTypeOf t :: gs) (v :: vs)
  | null {t ts gs vs} : NullOK p t → FieldsRT p ts gs vs → FieldsRT p (t :: ts) (.ptr (goTypeOf t) :: gs) (.nilptr :: vs)
  | ptr {t ts gs v vs} : RT p t (goTypeOf t) v → NonNull p t v → Small p t v →
      FieldsRT p ts gs vs → FieldsRT p (t :: ts) (.ptr (goTypeOf t) :: gs) (.ptr v :: vs)
  /-- an interface{} field / element holding a goType(elem) value -/
  | iface {t ts gs v vs} : v.isNilPtr = false → RT p t (goTypeOf t) v → Small p t v →
      FieldsRT p ts gs vs → FieldsRT p (t :: ts) (.iface :: gs) (v :: vs)

theorem FieldsRT_length {p : Nat} {ts : List CqlTy} {gs : List GoTy} {vs : List GoVal} (h : FieldsRT p ts gs vs) :
    vs.length = ts.length ∧ gs.length = ts.length := by
  induction h with
  | nil => exact ⟨rfl, rfl⟩
  | val _ _ _ _ _ ih => simp [ih.1, ih.2]
  | null _ _ ih => simp [ih.1, ih.2]
  | ptr _ _ _ _ ih => simp [ih.1, ih.2]
  | iface _ _ _ _ ih => simp [ih.1, ih.2]

theorem setSlot_val (t : CqlTy) (hb : isBase (goTypeOf t) = true) (item : Option Bytes) (v : GoVal) :
    C12Frame.setSlot t (goTypeOf t) item v = .ok v := by
  have hr : (goTypeOf t == goTypeOf t) = true := C12Frame.beqT_refl (goTypeOf t)
  unfold C12Frame.setSlot
  generalize hg : goTypeOf t = g at hb hr
  cases g <;> simp_all [isBase]

/-- marshalTuple's loop over struct fields against unmarshalTuple's loop -/
theorem fields_back (p : Nat) : ∀ (ts : List CqlTy) (gs : List GoTy) (vs : List GoVal), FieldsRT p ts gs vs →
    ∀ (body rest : Bytes), marshalTupleFields p ts vs = .ok (some body) →
      unmarshalTupleSet p ts gs (body ++ rest) = .ok vs rest := by
  intro ts gs vs h
  induction h with
  | nil =>
    intro body rest hm
    simp [marshalTupleFields] at hm
    subst hm
    simp [unmarshalTupleSet]
  | @val t ts gs v vs hb hnp hrt hsm _ ih =>
    intro body rest hm
    rw [marshalTupleFields] at hm
    simp only [hnp, Bool.false_eq_true, if_false] at hm
    cases hv : marshal p t v with
    | ok item =>
      rw [hv] at hm; simp only at hm
      cases hr : marshalTupleFields p ts vs with
      | ok orest =>
        cases orest with
        | none => rw [hr] at hm; simp at hm
        | some rest' =>
          rw [hr] at hm; simp at hm; subst hm
          have hrd := C12Frame.readBytesM_appendBytes item (rest' ++ rest)
            (by intro b hb'; subst hb'; exact hsm b hv)
          have hu := hrt item hv
          rw [C12Frame.unmarshalTupleSet_cons]
          simp only [List.append_assoc, C12Frame.appendBytes_length_ge, Bool.not_false, if_true, hrd]
          have hf : C12Frame.setField p t (goTypeOf t) item = .ok v := by
            unfold C12Frame.setField
            rw [unmarshal_eta, hu]
            exact setSlot_val t hb item v
          simp only [hf, ih rest' rest hr]
      | err => rw [hr] at hm; simp at hm
      | crash => rw [hr] at hm; simp at hm
      | unmodelled => rw [hr] at hm; simp at hm
    | err => rw [hv] at hm; simp at hm
    | crash => rw [hv] at hm; simp at hm
    | unmodelled => rw [hv] at hm; simp at hm
  | @null t ts gs vs hn _ ih =>
    intro body rest hm
    rw [marshalTupleFields] at hm
    simp only [GoVal.isNilPtr, if_true] at hm
    cases hr : marshalTupleFields p ts vs with
    | ok orest =>
      cases orest with
      | none => rw [hr] at hm; simp at hm
      | some rest' =>
        rw [hr] at hm; simp at hm; subst hm
        have hrd := C12Frame.readBytesM_appendBytes none (rest' ++ rest) (by intro b hb'; cases hb')
        rw [C12Frame.unmarshalTupleSet_cons]
        simp only [List.append_assoc, C12Frame.appendBytes_length_ge, Bool.not_false, if_true, hrd]
        have hf : C12Frame.setField p t (.ptr (goTypeOf t)) none = .ok .nilptr := by
          unfold C12Frame.setField
          obtain ⟨v0, h0⟩ := hn
          rw [unmarshal_eta, h0]
          simp [C12Frame.setSlot_ptr]
        simp only [hf, ih rest' rest hr]
    | err => rw [hr] at hm; simp at hm
    | crash => rw [hr] at hm; simp at hm
    | unmodelled => rw [hr] at hm; simp at hm
  | @ptr t ts gs v vs hrt hnn hsm _ ih =>
    intro body rest hm
    rw [marshalTupleFields] at hm
    simp only [GoVal.isNilPtr, Bool.false_eq_true, if_false, marshal] at hm
    cases hv : marshal p t v with
    | ok item =>
      cases item with
      | none => exact absurd hv hnn
      | some b =>
        rw [hv] at hm; simp only at hm
        cases hr : marshalTupleFields p ts vs with
        | ok orest =>
          cases orest with
          | none => rw [hr] at hm; simp at hm
          | some rest' =>
            rw [hr] at hm; simp at hm; subst hm
            have hrd := C12Frame.readBytesM_appendBytes (some b) (rest' ++ rest)
              (by intro b' hb'; injection hb' with hb'; subst hb'; exact hsm b hv)
            have hu := hrt (some b) hv
            rw [C12Frame.unmarshalTupleSet_cons]
            simp only [List.append_assoc, C12Frame.appendBytes_length_ge, Bool.not_false, if_true, hrd]
            have hf : C12Frame.setField p t (.ptr (goTypeOf t)) (some b) = .ok (.ptr v) := by
              unfold C12Frame.setField
              rw [unmarshal_eta, hu]
              simp [C12Frame.setSlot_ptr]
            simp only [hf, ih rest' rest hr]
        | err => rw [hr] at hm; simp at hm
        | crash => rw [hr] at hm; simp at hm
        | unmodelled => rw [hr] at hm; simp at hm
    | err => rw [hv] at hm; simp at hm
    | crash => rw [hv] at hm; simp at hm
    | unmodelled => rw [hv] at hm; simp at hm
  | @iface t ts gs v vs hnp hrt hsm _ ih =>
    intro body rest hm
    rw [marshalTupleFields] at hm
    simp only [hnp, Bool.false_eq_true, if_false] at hm
    cases hv : marshal p t v with
    | ok item =>
      rw [hv] at hm; simp only at hm
      cases hr : marshalTupleFields p ts vs with
      | ok orest =>
        cases orest with
        | none => rw [hr] at hm; simp at hm
        | some rest' =>
          rw [hr] at hm; simp at hm; subst hm
          have hrd := C12Frame.readBytesM_appendBytes item (rest' ++ rest)
            (by intro b hb'; subst hb'; exact hsm b hv)
          have hu := hrt item hv
          rw [C12Frame.unmarshalTupleSet_cons]
          simp only [List.append_assoc, C12Frame.appendBytes_length_ge, Bool.not_false, if_true, hrd]
          have hf : C12Frame.setField p t .iface item = .ok v := by
            unfold C12Frame.setField
            rw [unmarshal_eta, hu]
            rfl
          simp only [hf, ih rest' rest hr]
      | err => rw [hr] at hm; simp at hm
      | crash => rw [hr] at hm; simp at hm
      | unmodelled => rw [hr] at hm; simp at hm
    | err => rw [hv] at hm; simp at hm
    | crash => rw [hv] at hm; simp at hm
    | unmodelled => rw [hv] at hm; simp at hm

theorem marshalTupleFields_not_null (p : Nat) : ∀ (ts : List CqlTy) (vs : List GoVal), marshalTupleFields p ts vs ≠ .ok none
  | [], _ => by simp [marshalTupleFields]
  | _ :: _, [] => by simp [marshalTupleFields]
  | t :: ts, v :: vs => by
    intro hm
    have ih := marshalTupleFields_not_null p ts vs
    rw [marshalTupleFields] at hm
    split at hm
    · split at hm
      · cases hm
      · rename_i hr _; exact ih (by rw [← hm])
    · simp_all

/-- tuple<T1, …, Tn> ↔ struct whose i-th field has type goType(Ti) or *goType(Ti): null (nil pointer), EMPTY and
    values keep their meanings, every arity, every protocol version -/
theorem rt_tuple_struct (p : Nat) (ts : List CqlTy) (gs : List GoTy) (vs : List GoVal) (h : FieldsRT p ts gs vs) :
    RT p (.tuple ts) (.struct gs) (.struct vs) := by
  intro ob hm
  obtain ⟨hl1, hl2⟩ := FieldsRT_length h
  simp only [marshal, hl1, ne_eq, not_true_eq_false, if_false, wrapTuple] at hm
  rw [unmarshal_base _ _ _ rfl]
  simp only [unmarshalBase, hl2, ne_eq, not_true_eq_false, if_false]
  by_cases hts : ts = []
  · subst hts
    cases h
    simp at hm
    subst hm
    simp [dataBytes, unmarshalTupleSet]
  · simp only [hts, if_false] at hm
    cases ob with
    | none => exact absurd hm (marshalTupleFields_not_null p ts vs)
    | some body =>
      have := fields_back p ts gs vs h body [] hm
      simp only [List.append_nil] at this
      simp only [dataBytes, Option.getD, this]

/-! ## tuples bound to / decoded into a slice, an array, a []interface{} -/

/-- the common part: what unmarshalTuple's loop gives for the bytes marshalTuple's loop wrote -/
theorem tuple_set_back (p : Nat) (ts : List CqlTy) (gs : List GoTy) (vs : List GoVal) (h : FieldsRT p ts gs vs)
    (ob : Option Bytes) (hm : wrapTuple ts (marshalTupleFields p ts vs) = .ok ob) :
    unmarshalTupleSet p ts gs (dataBytes ob) = .ok vs [] := by
  simp only [wrapTuple] at hm
  by_cases hts : ts = []
  · subst hts
    cases h
    simp at hm
    subst hm
    simp [dataBytes, unmarshalTupleSet]
  · simp only [hts, if_false] at hm
    cases ob with
    | none => exact absurd hm (marshalTupleFields_not_null p ts vs)
    | some body =>
      have := fields_back p ts gs vs h body [] hm
      simpa [dataBytes] using this

/-- tuple<T, …, T'> ↔ []G: every element type has goType G (or G = *goType …, uniformly) -/
theorem rt_tuple_slice (p : Nat) (ts : List CqlTy) (g : GoTy) (vs : List GoVal)
    (h : FieldsRT p ts (List.replicate ts.length g) vs) (hg : (g == GoTy.iface) = false) :
    RT p (.tuple ts) (.slice g) (.slice false vs) := by
  intro ob hm
  obtain ⟨hl1, _⟩ := FieldsRT_length h
  simp only [marshal, hl1, ne_eq, not_true_eq_false, if_false] at hm
  rw [unmarshal_base _ _ _ rfl]
  simp only [unmarshalBase, tuple_set_back p ts _ vs h ob hm, hg, Bool.false_eq_true, if_false]

/-- tuple ↔ [n]G -/
theorem rt_tuple_array (p : Nat) (ts : List CqlTy) (g : GoTy) (vs : List GoVal)
    (h : FieldsRT p ts (List.replicate ts.length g) vs) :
    RT p (.tuple ts) (.array ts.length g) (.array vs) := by
  intro ob hm
  obtain ⟨hl1, _⟩ := FieldsRT_length h
  simp only [marshal, hl1, ne_eq, not_true_eq_false, if_false] at hm
  rw [unmarshal_base _ _ _ rfl]
  simp only [unmarshalBase, ne_eq, not_true_eq_false, if_false, tuple_set_back p ts _ vs h ob hm]

theorem ifaces_eq_fields (p : Nat) : ∀ (ts : List CqlTy) (vs : List GoVal),
    (∀ v, v ∈ vs → v.isNil = false ∧ v.isNilPtr = false) → marshalTupleIfaces p ts vs = marshalTupleFields p ts vs
  | [], _, _ => by simp [marshalTupleIfaces, marshalTupleFields]
  | _ :: _, [], _ => by simp [marshalTupleIfaces, marshalTupleFields]
  | t :: ts, v :: vs, h => by
    have hv := h v List.mem_cons_self
    have ih := ifaces_eq_fields p ts vs (fun w hw => h w (List.mem_cons_of_mem _ hw))
    rw [marshalTupleIfaces, marshalTupleFields, ih]
    simp [hv.1, hv.2]

/-- tuple ↔ []interface{} holding goType(elem) values (no nil element: a null would come back as a zero value) -/
theorem rt_tuple_ifaces (p : Nat) (ts : List CqlTy) (vs : List GoVal)
    (h : FieldsRT p ts (List.replicate ts.length .iface) vs) (hn : ∀ v, v ∈ vs → v.isNil = false ∧ v.isNilPtr = false) :
    RT p (.tuple ts) (.slice .iface) (.ifaces vs) := by
  intro ob hm
  obtain ⟨hl1, _⟩ := FieldsRT_length h
  simp only [marshal, hl1, ne_eq, not_true_eq_false, if_false, ifaces_eq_fields p ts vs hn] at hm
  rw [unmarshal_base _ _ _ rfl]
  have hi : (GoTy.iface == GoTy.iface) = true := rfl
  simp only [unmarshalBase, tuple_set_back p ts _ vs h ob hm, hi, if_true]

/-! ## UDT ↔ map[string]interface{} -/

/-- one UDT field with the value the map holds for it -/
structure UField where
  name : String
  t : CqlTy
  v : GoVal

theorem enc1_of_mem (p : Nat) : ∀ (fl : List UField) (k : Nat) (f : UField), (fl.map (·.name)).Nodup → f ∈ fl →
    ∃ i, lookupIdx f.name (fl.map (·.name)) k = some (k + i) ∧ (fl.map (·.t))[i]? = some f.t
  | [], _, _, _, h => by cases h
  | g :: r, k, f, hnd, hm => by
    simp only [List.map_cons, List.nodup_cons] at hnd
    rcases List.mem_cons.mp hm with rfl | hm
    · exact ⟨0, by simp [lookupIdx], by simp⟩
    · have hne : ¬ g.name = f.name := by
        intro he
        exact hnd.1 (by rw [he]; exact List.mem_map_of_mem hm)
      obtain ⟨i, h1, h2⟩ := enc1_of_mem p r (k+1) f hnd.2 hm
      refine ⟨i + 1, ?_, by simpa using h2⟩
      simp only [List.map_cons, lookupIdx, if_neg hne, h1]
      congr 1; omega

theorem seqItems_not_none : ∀ rs : List MRes, seqItems (fun item => some (appendBytes item)) rs ≠ .ok none
  | [] => by simp [seqItems]
  | r :: rs => by
    intro h
    have ih := seqItems_not_none rs
    simp only [seqItems] at h
    cases r with
    | ok item =>
      simp only at h
      cases hr : seqItems (fun item => some (appendBytes item)) rs with
      | ok o => cases o with
        | none => exact ih hr
        | some x => rw [hr] at h; simp at h
      | err => rw [hr] at h; simp at h
      | crash => rw [hr] at h; simp at h
      | unmodelled => rw [hr] at h; simp at h
    | err => simp at h
    | crash => simp at h
    | unmodelled => simp at h

/-- marshalUDT on a map[string]interface{} holding exactly the UDT's fields: the fields' encodings in order -/
theorem marshal_udtmap (p : Nat) (fl : List UField) (hnd : (fl.map (·.name)).Nodup) (hne : fl ≠ []) :
    marshal p (.udt (fl.map (·.name)) (fl.map (·.t))) (.udtmap false (fl.map (·.name)) (fl.map (·.v))) =
      seqItems (fun item => some (appendBytes item)) (fl.map (fun f => marshal p f.t f.v)) := by
  have hz : fl.map (·.name) = (fl.map (fun f => (f.name, f.v))).map (·.1) := by simp [List.map_map, Function.comp_def]
  have hv : fl.map (·.v) = (fl.map (fun f => (f.name, f.v))).map (·.2) := by simp [List.map_map, Function.comp_def]
  have hnames : fl.map (·.name) ≠ [] := by simpa using hne
  simp only [marshal]
  rw [C02Hist.marshalNamed_eq]
  conv => lhs; arg 2; rw [hv]; arg 2; rw [hz]
  conv => lhs; arg 3; rw [hz]
  rw [C02Hist.udtAssemble_pick, if_neg hnames]
  congr 1
  rw [List.map_map]
  apply List.map_congr_left
  intro f hf
  simp only [Function.comp]
  have hmem : (f.name, f.v) ∈ fl.map (fun f => (f.name, f.v)) := List.mem_map_of_mem hf
  rw [C02Hist.pick_of_mem _ f.name f.v _ (by rw [← hz]; exact hnd) hmem]
  obtain ⟨i, h1, h2⟩ := enc1_of_mem p fl 0 f hnd hf
  simp only [C02Hist.enc1, h1, Nat.zero_add, h2]

/-- marshalUDT's field loop against unmarshalUDT's loop into map[string]interface{} -/
theorem udtmap_back (p : Nat) : ∀ (fl : List UField) (body rest : Bytes),
    (∀ f, f ∈ fl → RT p f.t (goTypeOf f.t) f.v ∧ Small p f.t f.v) →
    seqItems (fun item => some (appendBytes item)) (fl.map (fun f => marshal p f.t f.v)) = .ok (some body) →
    unmarshalUdtMap p (fl.map (·.name)) (fl.map (·.t)) (body ++ rest) = .ok (fl.map (·.v)) rest
  | [], body, rest, _, h => by
    simp [seqItems] at h
    subst h
    simp [unmarshalUdtMap]
  | f :: fl, body, rest, hrt, h => by
    simp only [List.map_cons, seqItems] at h
    cases hm : marshal p f.t f.v with
    | ok item =>
      rw [hm] at h
      simp only at h
      cases hr : seqItems (fun item => some (appendBytes item)) (fl.map (fun f => marshal p f.t f.v)) with
      | ok orest =>
        rw [hr] at h
        have hf := hrt f List.mem_cons_self
        have hu := hf.1 item hm
        have hsm : ∀ b, item = some b → b.length < 2^31 := by intro b hb; subst hb; exact hf.2 b hm
        cases orest with
        | none => exact absurd hr (seqItems_not_none _)
        | some rest' =>
          simp at h
          subst h
          have ih := udtmap_back p fl rest' rest (fun g hg => hrt g (List.mem_cons_of_mem _ hg)) hr
          have hrd := C12Frame.readBytesM_appendBytes item (rest' ++ rest) hsm
          have hsh := C12Frame.appendBytes_length_ge item (rest' ++ rest)
          have hne : appendBytes item ++ (rest' ++ rest) ≠ [] := by
            intro h0
            rw [h0] at hsh
            simp [shorter] at hsh
          simp only [List.map_cons, unmarshalUdtMap, List.append_assoc, if_neg hne, hsh, Bool.false_eq_true, if_false, hrd]
          rw [unmarshal_eta, hu]
          simp only [ih]
      | err => rw [hr] at h; simp at h
      | crash => rw [hr] at h; simp at h
      | unmodelled => rw [hr] at h; simp at h
    | err => rw [hm] at h; simp at h
    | crash => rw [hm] at h; simp at h
    | unmodelled => rw [hm] at h; simp at h

/-- UDT ↔ map[string]interface{} holding, for every field of the UDT (in any number, distinct names), a goType(field)
    value whose round trip holds: the map comes back with the same entries -/
theorem rt_udtmap (p : Nat) (fl : List UField) (hnd : (fl.map (·.name)).Nodup) (hne : fl ≠ [])
    (hrt : ∀ f, f ∈ fl → RT p f.t (goTypeOf f.t) f.v ∧ Small p f.t f.v) :
    RT p (.udt (fl.map (·.name)) (fl.map (·.t))) .udtmap (.udtmap false (fl.map (·.name)) (fl.map (·.v))) := by
  intro ob hm
  rw [marshal_udtmap p fl hnd hne] at hm
  rw [unmarshal_base _ _ _ rfl]
  cases ob with
  | none => exact absurd hm (seqItems_not_none _)
  | some body =>
    have := udtmap_back p fl body [] hrt hm
    simp only [List.append_nil] at this
    simp only [unmarshalBase, this]
    rw [List.take_of_length_le (by simp)]

theorem nullOK_scalar (p : Nat) (t : CqlTy) (ht : CqlTy.isScalar t = true) : NullOK p t := by
  unfold NullOK
  cases t <;> simp [CqlTy.isScalar] at ht <;>
    first
      | exact ⟨_, rfl⟩
      | (simp only [unmarshal, withPtr, goTypeOf, stripPtr]
         rw [unmarshalBase_scalar _ _ _ _ rfl]
         first
           | (rw [us_uuid _ (Or.inl rfl)]; simp [dataBytes])
           | (rw [us_uuid _ (Or.inr rfl)]; simp [dataBytes]))

theorem nullOK_coll (p : Nat) (t : CqlTy) (ht : (∃ e, isListLike t e) ∨ (∃ k v, t = .map k v)) : NullOK p t := by
  unfold NullOK
  rcases ht with ⟨e, rfl | rfl⟩ | ⟨k, v, rfl⟩ <;> exact ⟨_, rfl⟩

/-! ## tuple fields as data (for the inductive `Clean` of Proofs/C02.lean) -/

inductive FKind | val | null | ptr | iface

/-- one struct field bound to a tuple element of type `t`: `val` = a field of type goType(t) holding `v`,
    `null` = a nil field of type *goType(t), `ptr` = a field of type *goType(t) pointing to `v` -/
structure TField where
  t : CqlTy
  kind : FKind
  v : GoVal

def TField.ty (f : TField) : GoTy := match f.kind with | .val => goTypeOf f.t | .iface => .iface | _ => .ptr (goTypeOf f.t)
def TField.val (f : TField) : GoVal := match f.kind with | .val => f.v | .null => .nilptr | .ptr => .ptr f.v | .iface => f.v

/-- the side conditions of a field that do not mention the round trip of its value -/
def TField.side (p : Nat) (f : TField) : Prop :=
  match f.kind with
  | .val => isBase (goTypeOf f.t) = true ∧ f.v.isNilPtr = false ∧ Small p f.t f.v
  | .null => NullOK p f.t
  | .ptr => NonNull p f.t f.v ∧ Small p f.t f.v
  | .iface => f.v.isNilPtr = false ∧ f.v.isNil = false ∧ Small p f.t f.v

theorem fieldsRT_of (p : Nat) : ∀ fs : List TField,
    (∀ f, f ∈ fs → f.kind ≠ .null → RT p f.t (goTypeOf f.t) f.v) → (∀ f, f ∈ fs → f.side p) →
    FieldsRT p (fs.map (·.t)) (fs.map (·.ty)) (fs.map (·.val))
  | [], _, _ => .nil
  | f :: fs, hrt, hs => by
    have ih := fieldsRT_of p fs (fun g hg => hrt g (List.mem_cons_of_mem _ hg)) (fun g hg => hs g (List.mem_cons_of_mem _ hg))
    have h1 := hrt f List.mem_cons_self
    have h2 := hs f List.mem_cons_self
    obtain ⟨t, kind, v⟩ := f
    cases kind with
    | val =>
      simp only [TField.side] at h2
      exact .val h2.1 h2.2.1 (h1 (by intro h; cases h)) h2.2.2 ih
    | null =>
      simp only [TField.side] at h2
      exact .null h2 ih
    | ptr =>
      simp only [TField.side] at h2
      exact .ptr (h1 (by intro h; cases h)) h2.1 h2.2 ih
    | iface =>
      simp only [TField.side] at h2
      exact .iface h2.1 (h1 (by intro h; cases h)) h2.2.2 ih

theorem map_ty_replicate (fs : List TField) (g : GoTy) (h : ∀ f, f ∈ fs → f.ty = g) :
    fs.map (·.ty) = List.replicate (fs.map (·.t)).length g := by
  induction fs with
  | nil => rfl
  | cons f fs ih =>
    simp only [List.map_cons, List.length_cons, List.replicate_succ]
    rw [h f List.mem_cons_self, ih (fun f' hf' => h f' (List.mem_cons_of_mem _ hf'))]

end C02Nested
