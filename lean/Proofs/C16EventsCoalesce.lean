import Model.ClusterView
import Proofs.C16Ring
/-! helper lemmas: the coalescing loop of `handleNodeEvent` keeps, per address, the LAST status -/
namespace C16
open Ring ClusterView

/-- specification: the last STATUS_CHANGE event of address `a` in the batch (none if there is none) -/
def lastStatus : List Ev → Nat → Option Change
  | [], _ => none
  | .topology :: t, a => lastStatus t a
  | .status c a' :: t, a =>
    match lastStatus t a with
    | some c' => some c'
    | none => if a' = a then some c else none

theorem hasKey_iff {β : Type} (m : List (Nat × β)) (k : Nat) : hasKey m k = true ↔ k ∈ keys m := by
  simp only [hasKey, keys, List.any_eq_true, List.mem_map]
  constructor
  · rintro ⟨e, he, h⟩; exact ⟨e, he, by simpa using h⟩
  · rintro ⟨e, he, h⟩; exact ⟨e, he, by simpa using h⟩

theorem hasKey_false_iff {β : Type} (m : List (Nat × β)) (k : Nat) : hasKey m k = false ↔ k ∉ keys m := by
  rw [← hasKey_iff]; simp

theorem lookup_append {β : Type} (m n : List (Nat × β)) (k : Nat) :
    lookup (m ++ n) k = match lookup m k with | some v => some v | none => lookup n k := by
  simp only [lookup, List.find?_append]
  cases List.find? (fun e => e.1 == k) m <;> simp

theorem lookup_cons {β : Type} (x : Nat × β) (t : List (Nat × β)) (k : Nat) :
    lookup (x :: t) k = if x.1 = k then some x.2 else lookup t k := by
  simp only [lookup, List.find?_cons]
  by_cases h : x.1 = k
  · simp [h]
  · have : (x.1 == k) = false := by simpa using h
    simp [this, h]

theorem hasKey_cons {β : Type} (x : Nat × β) (t : List (Nat × β)) (k : Nat) :
    hasKey (x :: t) k = (x.1 == k || hasKey t k) := by
  simp [hasKey]

theorem lookup_update {β : Type} (m : List (Nat × β)) (a : Nat) (c : β) (k : Nat) :
    lookup (m.map (fun e => if e.1 == a then (a, c) else e)) k =
      if a = k then (if hasKey m a = true then some c else none) else lookup m k := by
  induction m with
  | nil => simp [lookup, hasKey]
  | cons x t ih =>
    rw [List.map_cons, lookup_cons, ih, hasKey_cons, lookup_cons]
    by_cases hxa : x.1 = a
    · have h1 : (x.1 == a) = true := by simpa using hxa
      simp only [h1, ↓reduceIte, Bool.true_or]
      by_cases hak : a = k
      · simp [hak]
      · have : ¬ x.1 = k := by rw [hxa]; exact hak
        simp [hak, this]
    · have h1 : (x.1 == a) = false := by simpa using hxa
      simp only [h1, Bool.false_eq_true, ↓reduceIte, Bool.false_or]
      by_cases hak : a = k
      · have : ¬ x.1 = k := by rw [← hak]; exact hxa
        simp [hak, this]
      · simp [hak]

theorem coalesceStep_status (m : List (Nat × Change)) (c : Change) (a : Nat) :
    coalesceStep m (.status c a) =
      if hasKey m a then m.map (fun e => if e.1 == a then (a, c) else e) else m ++ [(a, c)] := rfl

theorem lookup_coalesceStep (m : List (Nat × Change)) (c : Change) (a' a : Nat) :
    lookup (coalesceStep m (.status c a')) a = if a' = a then some c else lookup m a := by
  rw [coalesceStep_status]
  by_cases hk : hasKey m a' = true
  · rw [if_pos hk, lookup_update]
    by_cases h : a' = a
    · subst h; simp [hk]
    · simp [h]
  · rw [if_neg hk, lookup_append]
    have hk' : a' ∉ keys m := (hasKey_false_iff m a').mp (by simpa using hk)
    by_cases h : a' = a
    · subst h
      have : lookup m a' = none := (lookup_eq_none m a').mpr hk'
      rw [this]
      simp [lookup]
    · cases hl : lookup m a with
      | some v => simp [h]
      | none => simp [h, lookup]

theorem lookup_foldl_coalesce (b : List Ev) : ∀ (m : List (Nat × Change)) (a : Nat),
    lookup (b.foldl coalesceStep m) a = match lastStatus b a with | some c => some c | none => lookup m a := by
  induction b with
  | nil => intro m a; simp [lastStatus]
  | cons e t ih =>
    intro m a
    simp only [List.foldl_cons]
    rw [ih]
    cases e with
    | topology => simp [coalesceStep, lastStatus]
    | status c a' =>
      simp only [lastStatus]
      cases lastStatus t a with
      | some c' => rfl
      | none =>
        simp only [lookup_coalesceStep]
        by_cases h : a' = a <;> simp [h]

/-- the map built by the coalescing loop holds, for every address, exactly its last status -/
theorem lookup_coalesce (b : List Ev) (a : Nat) : lookup (coalesce b) a = lastStatus b a := by
  unfold coalesce
  rw [lookup_foldl_coalesce]
  cases lastStatus b a <;> simp [lookup]

theorem keys_update {β : Type} (m : List (Nat × β)) (a : Nat) (c : β) :
    keys (m.map (fun e => if e.1 == a then (a, c) else e)) = keys m := by
  induction m with
  | nil => rfl
  | cons x t ih =>
    simp only [keys, List.map_cons, List.cons.injEq] at ih ⊢
    refine ⟨?_, ih⟩
    by_cases h : x.1 = a
    · simp [h]
    · have : (x.1 == a) = false := by simpa using h
      simp [this]

theorem keys_coalesceStep_nodup (m : List (Nat × Change)) (e : Ev) (h : (keys m).Nodup) :
    (keys (coalesceStep m e)).Nodup := by
  cases e with
  | topology => exact h
  | status c a =>
    rw [coalesceStep_status]
    by_cases hk : hasKey m a = true
    · rw [if_pos hk, keys_update]; exact h
    · rw [if_neg hk]
      have hk' : a ∉ keys m := (hasKey_false_iff m a).mp (by simpa using hk)
      simp only [keys, List.map_append, List.map_cons, List.map_nil]
      rw [List.nodup_append]
      refine ⟨h, by simp, ?_⟩
      intro x hx y hy
      simp only [List.mem_singleton] at hy
      subst hy
      intro heq; subst heq; exact hk' hx

theorem keys_coalesce_nodup (b : List Ev) : (keys (coalesce b)).Nodup := by
  unfold coalesce
  have : ∀ (m : List (Nat × Change)), (keys m).Nodup → (keys (b.foldl coalesceStep m)).Nodup := by
    induction b with
    | nil => intro m h; exact h
    | cons e t ih => intro m h; exact ih _ (keys_coalesceStep_nodup m e h)
  exact this [] (by simp [keys])

/-- two association lists with duplicate-free keys and the same lookups are permutations of each other -/
theorem perm_of_lookup_eq {β : Type} (l1 l2 : List (Nat × β)) (h1 : (keys l1).Nodup) (h2 : (keys l2).Nodup)
    (h : ∀ a, lookup l1 a = lookup l2 a) : l1.Perm l2 := by
  have nd : ∀ (l : List (Nat × β)), (keys l).Nodup → l.Nodup := by
    intro l
    induction l with
    | nil => intro _; exact List.nodup_nil
    | cons x t ih =>
      intro hn
      simp only [keys, List.map_cons, List.nodup_cons] at hn
      refine List.nodup_cons.mpr ⟨fun hx => hn.1 (List.mem_map.mpr ⟨x, hx, rfl⟩), ih hn.2⟩
  have n1 : l1.Nodup := nd l1 h1
  have n2 : l2.Nodup := nd l2 h2
  rw [List.perm_ext_iff_of_nodup n1 n2]
  intro e
  constructor
  · intro he
    have := lookup_of_mem_nodup l1 h1 e he
    rw [h] at this
    exact lookup_some_mem l2 e.1 e.2 this
  · intro he
    have := lookup_of_mem_nodup l2 h2 e he
    rw [← h] at this
    exact lookup_some_mem l1 e.1 e.2 this

end C16
