import Proofs.C11
/-! # C11 — live iterators WHILE the topology changes

Property text: "for safety (no panic, no nil host), all interleavings of picks with concurrent host add / remove /
up / down". In the sequential model (every call atomic; `C11_cow_concurrent_linearizable` reduces the concurrent
list calls to that) a schedule is any list of: `Pick` into a slot, one call of the iterator of a slot, somebody
else's pick, and ANY operation of `TAOp` (AddHost / RemoveHost / HostUp / HostDown / KeyspaceChanged / installed
table / counter preset / metadata change) in between. `C11_iterators_independent` needs the lists fixed; here
they change under the feet of the iterators.

What makes it work in the code: `Pick` of the token-aware policy fixes its replica list and - the up/down state of
the host objects being fixed - the hosts of its replica phases (`used`); the fallback policy's `Pick` takes ONE
snapshot of the copy-on-write lists at the call where the iterator leaves its replica phases. So whatever happens
in between, an iterator offers `used ++ (snapshot of the fallback at ONE state tL of the run) minus used`. -/
namespace C11
open Policies

/-- a schedule step: an iterator operation or a topology / metadata operation -/
inductive XOp
  | i (o : IOp)
  | topo (o : TAOp)

def xstep (up : Nat → Bool) (st : TA × (Nat → Option GSlot)) : XOp → TA × (Nat → Option GSlot)
  | .i o => istep up st o
  | .topo o => (st.1.apply o, st.2)

def xrun (up : Nat → Bool) (st : TA × (Nat → Option GSlot)) (sched : List XOp) : TA × (Nat → Option GSlot) :=
  sched.foldl (xstep up) st

/-- what holds for a live iterator at every moment, `Q` being any predicate that holds of every policy state of
the run: its replica-phase hosts are up; either it is still in its replica phases, or its fallback iterator exists
and everything it has offered and will offer is `used ++ (what the fallback policy offered in ONE state tL of the run)
minus used` (a query handed to the fallback policy as it is: `used = []`, the fallback's sequence itself) -/
def SlotInv (up : Nat → Bool) (Q : TA → Prop) (g : GSlot) : Prop :=
  (∀ x ∈ g.it.used, up x.id = true) ∧
  ((g.it.fb = none ∧ g.it.given ++ g.it.head = g.it.used) ∨
   (∃ sc tL, g.it.fb = some sc ∧ g.it.head = [] ∧ Q tL ∧ Inv tL.pol ∧ sc.crashed = (tL.pol.pickScan up).crashed ∧
      (g.it.given ++ sc.offered = g.it.used ++ minusUsed g.it.used (tL.pol.pickScan up).offered ∨
       (g.it.used = [] ∧ g.it.given ++ sc.offered = (tL.pol.pickScan up).offered))))

theorem openIter_pol (t : TA) (up : Nat → Bool) (σ : List Host → List Host) (rk : Option (Nat × Nat)) :
    (t.openIter up σ rk).1.pol = t.pol ∨ (t.openIter up σ rk).1.pol = t.pol.bump := by
  unfold TA.openIter
  simp only
  repeat' split
  all_goals first | exact Or.inl rfl | exact Or.inr rfl

theorem nextIter_pol (t : TA) (up : Nat → Bool) (it : Iter) :
    (t.nextIter up it).1.pol = t.pol ∨ (t.nextIter up it).1.pol = t.pol.bump := by
  unfold TA.nextIter
  simp only
  repeat' split
  all_goals first | exact Or.inl rfl | exact Or.inr rfl

theorem open_inv (up : Nat → Bool) (Q : TA → Prop) (t : TA) (hq : Q t) (hp : Inv t.pol)
    (σ : List Host → List Host) (rk : Option (Nat × Nat)) : SlotInv up Q ⟨(t.openIter up σ rk).2, σ, rk⟩ := by
  have plain : (t.openIter up σ rk).2 = ⟨[], [], [], some (t.pol.pickScan up)⟩ →
      SlotInv up Q ⟨(t.openIter up σ rk).2, σ, rk⟩ := by
    intro e
    rw [e]
    exact ⟨fun x hx => by simp at hx, Or.inr ⟨_, t, rfl, rfl, hq, hp, rfl, Or.inr ⟨rfl, by simp⟩⟩⟩
  cases rk with
  | none => exact plain rfl
  | some kt =>
    obtain ⟨ks, tok⟩ := kt
    cases hr : t.replicasFor ks tok with
    | noRing => exact plain (by simp only [TA.openIter, hr])
    | emptyRing => exact plain (by simp only [TA.openIter, hr])
    | hosts l ft =>
      have e : (t.openIter up σ (some (ks, tok))).2 =
          ⟨[], taHead t.pol.tier t.pol.maxTier up t.nonlocal (if ft && t.shuffle then σ l else l),
            taHead t.pol.tier t.pol.maxTier up t.nonlocal (if ft && t.shuffle then σ l else l), none⟩ := by
        simp only [TA.openIter, hr]
      rw [e]
      exact ⟨fun x hx => (mem_taHead _ _ _ _ _ x hx).2, Or.inl ⟨rfl, by simp⟩⟩

theorem next_inv (up : Nat → Bool) (Q : TA → Prop) (t : TA) (hq : Q t) (hp : Inv t.pol) (g : GSlot)
    (hg : SlotInv up Q g) : SlotInv up Q { g with it := (t.nextIter up g.it).2.1 } := by
  obtain ⟨it, σ, rk⟩ := g
  obtain ⟨given, head, used, fb⟩ := it
  obtain ⟨hu, hg⟩ := hg
  simp only at hu hg
  cases head with
  | cons x r =>
    simp only [TA.nextIter]
    refine ⟨hu, ?_⟩
    rcases hg with ⟨h1, h2⟩ | ⟨sc, tL, _, h2, _⟩
    · exact Or.inl ⟨h1, by simp only [List.append_assoc, List.singleton_append]; exact h2⟩
    · cases h2
  | nil =>
    rcases hg with ⟨h1, h2⟩ | ⟨sc, tL, h1, _, h3, h4, h5, h6⟩
    · -- the fallback policy's Pick happens now, in state t
      subst h1
      simp only [List.append_nil] at h2
      subst h2
      simp only [TA.nextIter]
      cases hoff : minusUsed given (t.pol.pickScan up).offered with
      | nil =>
        simp only
        exact ⟨hu, Or.inr ⟨_, t, rfl, rfl, hq, hp, rfl, Or.inl (by rw [hoff])⟩⟩
      | cons x r =>
        simp only
        exact ⟨hu, Or.inr ⟨_, t, rfl, rfl, hq, hp, rfl, Or.inl (by rw [hoff]; simp)⟩⟩
    · subst h1
      obtain ⟨off, cr⟩ := sc
      simp only at h5 h6
      cases off with
      | nil =>
        simp only [TA.nextIter]
        exact ⟨hu, Or.inr ⟨_, tL, rfl, rfl, h3, h4, h5, h6⟩⟩
      | cons x r =>
        simp only [TA.nextIter]
        refine ⟨hu, Or.inr ⟨_, tL, rfl, rfl, h3, h4, h5, ?_⟩⟩
        simp only [List.append_assoc, List.singleton_append]
        exact h6

theorem xrun_inv (up : Nat → Bool) (Q : TA → Prop) (ops : List XOp) :
    ∀ (st : TA × (Nat → Option GSlot)), (∀ n, n ≤ ops.length → Q (xrun up st (ops.take n)).1) → Inv st.1.pol →
    (∀ k g, st.2 k = some g → SlotInv up Q g) →
    Inv (xrun up st ops).1.pol ∧ ∀ k g, (xrun up st ops).2 k = some g → SlotInv up Q g := by
  induction ops with
  | nil => intro st _ hp hs; exact ⟨hp, hs⟩
  | cons o r ih =>
    intro st hQ hp hs
    have hq : Q st.1 := hQ 0 (Nat.zero_le _)
    have hQ' : ∀ n, n ≤ r.length → Q (xrun up (xstep up st o) (r.take n)).1 := by
      intro n hn
      have := hQ (n + 1) (by simp; omega)
      simpa [xrun] using this
    show Inv (xrun up (xstep up st o) r).1.pol ∧ _
    apply ih (xstep up st o) hQ'
    · cases o with
      | topo o' => exact TAInv_apply st.1 hp o'
      | i o' =>
        cases o' with
        | openI k σ rk =>
          simp only [xstep, istep]
          rcases openIter_pol st.1 up σ rk with e | e <;> rw [e]
          · exact hp
          · exact Inv_bump _ hp
        | nextI k =>
          simp only [xstep, istep]
          cases hk : st.2 k with
          | none => exact hp
          | some g =>
            simp only
            rcases nextIter_pol st.1 up g.it with e | e <;> rw [e]
            · exact hp
            · exact Inv_bump _ hp
        | pick σ rk limit =>
          simp only [xstep, istep]
          rcases pick_pol st.1 up σ rk limit with e | e <;> rw [e]
          · exact hp
          · exact Inv_bump _ hp
    · intro j g hj
      cases o with
      | topo o' => exact hs j g hj
      | i o' =>
        cases o' with
        | openI k σ rk =>
          simp only [xstep, istep] at hj
          by_cases hjk : j = k
          · rw [if_pos hjk] at hj
            injection hj with hj
            rw [← hj]
            exact open_inv up Q st.1 hq hp σ rk
          · rw [if_neg hjk] at hj
            exact hs j g hj
        | nextI k =>
          simp only [xstep, istep] at hj
          cases hk : st.2 k with
          | none => rw [hk] at hj; exact hs j g hj
          | some g0 =>
            rw [hk] at hj
            simp only at hj
            by_cases hjk : j = k
            · rw [if_pos hjk] at hj
              injection hj with hj
              rw [← hj]
              exact next_inv up Q st.1 hq hp g0 (hs k g0 hk)
            · rw [if_neg hjk] at hj
              exact hs j g hj
        | pick σ rk limit => exact hs j g hj

theorem runScan_up (up : Nat → Bool) (l : List (Option Host)) : ∀ x ∈ (runScan up l).offered, up x.id = true := by
  induction l with
  | nil => intro x hx; simp [runScan] at hx
  | cons a r ih =>
    cases a with
    | none => intro x hx; simp [runScan] at hx
    | some h =>
      intro x hx
      unfold runScan at hx
      split at hx
      · rename_i hup
        simp only [List.mem_cons] at hx
        rcases hx with e | e
        · rw [e]; exact hup
        · exact ih x e
      · exact ih x hx

theorem pickScan_up (p : Pol) (up : Nat → Bool) : ∀ x ∈ (p.pickScan up).offered, up x.id = true :=
  runScan_up up _

/-- ITERATORS UNDER TOPOLOGY CHANGES. From any state with the list invariant (every reachable state has it), for EVERY
schedule of `Pick`s into slots, single iterator calls, other picks and ANY topology / metadata operations in any
order, for every live iterator `g` at the end of the schedule:
 * every host it has offered is up (the up/down state of the host objects is fixed; no down host, for every counter);
 * if it has got past its replica phases there is ONE state `tL` of the run (the state after some prefix of the
   schedule: the moment it left its replica phases) such that, below the counter bound in `tL` (KF-C11-3), the
   iterator does not panic, what it has offered and will still offer has no host twice (the replica list of its
   `Pick` having none), and contains EVERY host the fallback policy listed in `tL` that is up - in particular every up
   host that stays listed during the whole run, whatever is added, removed or reported meanwhile. -/
theorem C11_iterator_topology_interleaved (up : Nat → Bool) (t0 : TA) (hp0 : Inv t0.pol) (sched : List XOp)
    (slot : Nat) (g : GSlot) :
    let st := xrun up (t0, fun _ => none) sched
    st.2 slot = some g →
    (∀ x ∈ g.it.given, up x.id = true) ∧
    ∀ sc, g.it.fb = some sc →
      (∀ x ∈ sc.offered, up x.id = true) ∧
      ∃ n, n ≤ sched.length ∧
        let tL := (xrun up (t0, fun _ => none) (sched.take n)).1
        Inv tL.pol ∧
        (Pol.below tL.pol →
          sc.crashed = false ∧ (g.it.used.Nodup → (g.it.given ++ sc.offered).Nodup) ∧
          ∀ h, known tL.pol h → up h.id = true → h ∈ g.it.given ++ sc.offered) := by
  intro st hslot
  have hrun := xrun_inv up (fun t => ∃ n, n ≤ sched.length ∧ t = (xrun up (t0, fun _ => none) (sched.take n)).1) sched
    (t0, fun _ => none) (fun n hn => ⟨n, hn, rfl⟩) hp0 (fun k g hk => by cases hk)
  obtain ⟨hu, hg⟩ := hrun.2 slot g hslot
  rcases hg with ⟨h1, h2⟩ | ⟨sc, tL, h1, _, ⟨n, hn, hq⟩, h4, h5, h6⟩
  · refine ⟨?_, fun sc hsc => by rw [h1] at hsc; cases hsc⟩
    intro x hx
    exact hu x (by rw [← h2]; exact List.mem_append_left _ hx)
  · have hall : ∀ x ∈ g.it.given ++ sc.offered, up x.id = true := by
      intro x hx
      rcases h6 with h6 | ⟨_, h6⟩
      · rw [h6, List.mem_append] at hx
        rcases hx with hx | hx
        · exact hu x hx
        · exact pickScan_up tL.pol up x ((minusUsed_sublist _ _).subset hx)
      · rw [h6] at hx
        exact pickScan_up tL.pol up x hx
    refine ⟨fun x hx => hall x (List.mem_append_left _ hx), ?_⟩
    intro sc' hsc'
    rw [h1] at hsc'
    injection hsc' with hsc'
    subst hsc'
    refine ⟨fun x hx => hall x (List.mem_append_right _ hx), n, hn, ?_⟩
    show Inv (xrun up (t0, fun _ => none) (sched.take n)).1.pol ∧ _
    rw [← hq]
    refine ⟨h4, fun hb => ?_⟩
    have hX := pickScan_small tL.pol up hb
    rw [hX] at h5 h6
    simp only at h5 h6
    refine ⟨h5, ?_, ?_⟩
    · intro hnd
      rcases h6 with h6 | ⟨_, h6⟩
      · rw [h6, List.nodup_append]
        refine ⟨hnd, minusUsed_nodup _ _, ?_⟩
        intro a ha b hb' e
        subst e
        exact ((mem_minusUsed _ _ a).mp hb').2 ha
      · rw [h6]; exact pickSeq_nodup tL.pol h4 up
    · intro h hk hup
      have hm : h ∈ tL.pol.pickSeq up := (mem_pickSeq tL.pol h4 up h).mpr ⟨hk, hup⟩
      rcases h6 with h6 | ⟨_, h6⟩
      · rw [h6, List.mem_append]
        by_cases hin : h ∈ g.it.used
        · exact Or.inl hin
        · exact Or.inr ((mem_minusUsed _ _ h).mpr ⟨hm, hin⟩)
      · rw [h6]; exact hm

/-- non-vacuity: rack-aware fallback, iterator A opened on token 50 (replicas a, c), one call; then host b is REMOVED
and host d reported down-and-up again while A is alive; A drained: it offers the replicas first, never b (gone when
it left its replica phases), d once - and the state it took its fallback snapshot in is the state after 4 steps -/
example :
    let sched := [XOp.i (.openI 0 id (some (0, 50))), .i (.nextI 0), .topo (.remove cexB'), .topo (.hostDown cexD'),
      .topo (.hostUp cexD'), .i (.nextI 0), .i (.nextI 0), .i (.nextI 0)]
    let st := xrun (fun _ => true) (cexTAok, fun _ => none) sched
    (st.2 0).map (·.it.given) = some [cexA', cexC', cexD'] ∧
    (st.2 0).map (fun g => g.it.fb.map (·.offered)) = some (some []) := by
  decide

end C11
