import Model.ClusterView
/-! helper lemmas: no request to the refresh debouncer is lost — whatever the flusher is doing when the request
arrives (in its select, between select and mutex, inside refreshFn), a refresh STARTS after it. Safety part:
an invariant of all schedules (a request not yet followed by a refresh start keeps the debouncer `armed`);
progress part: the fair continuation `drain` reaches a quiet state from every state. -/
namespace C16
open ClusterView

/-- invariant of every schedule: each request made so far has been followed by a refresh start, or a refresh is
certainly still to come (`armed`); and a broadcaster with waiting `refreshNow()` callers is backed by a token
in `refreshNowCh` or by a flusher on its way to the refresh -/
def Served (g : RGhost) : Prop :=
  (∀ r ∈ g.reqs, r < g.d.refreshes ∨ (r = g.d.refreshes ∧ g.d.armed = true)) ∧
  (g.d.bc = true → g.d.nowPending = true ∨ g.d.phase = .woken)

theorem served_init : Served {} := by
  refine ⟨?_, ?_⟩
  · intro r hr; simp at hr
  · intro h; simp at h

theorem rstep_refreshes_mono (I : Nat) (d : RDeb) (a : RAct) : d.refreshes ≤ (rstep I d a).refreshes := by
  cases a <;> simp only [rstep, rstepWith, id]
  · cases d.deadline with
    | none => simp
    | some dl => dsimp only; split <;> simp
  all_goals (try split) <;> simp

/-- a step other than `start` does not change the number of refreshes and keeps `armed` -/
theorem rstep_armed (I : Nat) (d : RDeb) (a : RAct) (hb : d.bc = true → d.nowPending = true ∨ d.phase = .woken)
    (h : d.armed = true) :
    d.refreshes < (rstep I d a).refreshes ∨ ((rstep I d a).refreshes = d.refreshes ∧ (rstep I d a).armed = true) := by
  obtain ⟨now, deadline, fired, nowPending, bc, phase, refreshes⟩ := d
  cases a with
  | tick =>
    simp only [rstep, rstepWith]
    cases deadline with
    | none => right; simpa [RDeb.armed] using h
    | some dl => dsimp only; split <;> (right; simp [RDeb.armed])
  | debounce => right; simp [rstep, rstepWith, RDeb.armed]
  | refreshNow =>
    simp only [rstep, rstepWith]
    split
    · right; exact ⟨rfl, h⟩
    · right; simp [RDeb.armed]
  | wakeT =>
    simp only [rstep, rstepWith]
    split
    · right; simp [RDeb.armed]
    · right; exact ⟨rfl, h⟩
  | wakeN =>
    simp only [rstep, rstepWith]
    split
    · right; simp [RDeb.armed]
    · right; exact ⟨rfl, h⟩
  | start =>
    simp only [rstep, rstepWith]
    split
    · left; simp
    · right; exact ⟨rfl, h⟩
  | done =>
    simp only [rstep, rstepWith, id]
    split
    · rename_i hp
      subst hp
      right; refine ⟨rfl, ?_⟩
      simpa [RDeb.armed] using h
    · right; exact ⟨rfl, h⟩

theorem rstep_bc (I : Nat) (d : RDeb) (a : RAct) (hb : d.bc = true → d.nowPending = true ∨ d.phase = .woken) :
    (rstep I d a).bc = true → (rstep I d a).nowPending = true ∨ (rstep I d a).phase = .woken := by
  obtain ⟨now, deadline, fired, nowPending, bc, phase, refreshes⟩ := d
  simp only at hb
  cases a with
  | tick =>
    simp only [rstep, rstepWith]
    cases deadline with
    | none => simpa using hb
    | some dl => dsimp only; split <;> simpa using hb
  | debounce => simpa [rstep, rstepWith] using hb
  | refreshNow =>
    simp only [rstep, rstepWith]
    split
    · simpa using hb
    · simp
  | wakeT =>
    simp only [rstep, rstepWith]
    split
    · simp
    · simpa using hb
  | wakeN =>
    simp only [rstep, rstepWith]
    split
    · simp
    · simpa using hb
  | start =>
    simp only [rstep, rstepWith]
    split
    · simp
    · simpa using hb
  | done =>
    simp only [rstep, rstepWith, id]
    split
    · rename_i hp
      subst hp
      intro h
      have := hb h
      simpa using this
    · simpa using hb

/-- a request leaves the debouncer armed -/
theorem rstep_request_armed (I : Nat) (d : RDeb) (a : RAct) (ha : a = .debounce ∨ a = .refreshNow)
    (hb : d.bc = true → d.nowPending = true ∨ d.phase = .woken) :
    (rstep I d a).refreshes = d.refreshes ∧ (rstep I d a).armed = true := by
  obtain ⟨now, deadline, fired, nowPending, bc, phase, refreshes⟩ := d
  simp only at hb
  rcases ha with rfl | rfl
  · simp [rstep, rstepWith, RDeb.armed]
  · simp only [rstep, rstepWith]
    split
    · rename_i h
      refine ⟨rfl, ?_⟩
      rcases hb h with h1 | h1
      · simp [RDeb.armed, h1]
      · simp [RDeb.armed, h1]
    · simp [RDeb.armed]

theorem gstep_d (I : Nat) (g : RGhost) (a : RAct) : (gstep I g a).d = rstep I g.d a := by
  cases a <;> simp only [gstep, gstepWith, rstep] <;> split <;> rfl

theorem gstep_reqs (I : Nat) (g : RGhost) (a : RAct) :
    (gstep I g a).reqs = if a = .debounce ∨ a = .refreshNow then g.reqs ++ [g.d.refreshes] else g.reqs := by
  cases a <;> simp [gstep, gstepWith] <;> split <;> rfl

theorem gstep_served (I : Nat) (g : RGhost) (a : RAct) (hs : Served g) : Served (gstep I g a) := by
  obtain ⟨h1, h2⟩ := hs
  refine ⟨?_, ?_⟩
  · intro r hr
    rw [gstep_d]
    have hold : ∀ r ∈ g.reqs, r < (rstep I g.d a).refreshes ∨ (r = (rstep I g.d a).refreshes ∧ (rstep I g.d a).armed = true) := by
      intro r hr
      rcases h1 r hr with h | ⟨h, ha⟩
      · left; exact Nat.lt_of_lt_of_le h (rstep_refreshes_mono I g.d a)
      · rcases rstep_armed I g.d a h2 ha with h' | ⟨h', ha'⟩
        · left; omega
        · right; exact ⟨by omega, ha'⟩
    by_cases hreq : a = .debounce ∨ a = .refreshNow
    · have hr' : r ∈ g.reqs ∨ r = g.d.refreshes := by
        rw [gstep_reqs, if_pos hreq] at hr
        simpa using hr
      rcases hr' with hr' | rfl
      · exact hold r hr'
      · have := rstep_request_armed I g.d a hreq h2
        right; exact ⟨this.1.symm, this.2⟩
    · have hr' : r ∈ g.reqs := by
        rw [gstep_reqs, if_neg hreq] at hr
        exact hr
      exact hold r hr'
  · rw [gstep_d]; exact rstep_bc I g.d a h2

theorem grun_served (I : Nat) (as : List RAct) : ∀ (g : RGhost), Served g → Served (grun I g as) := by
  induction as with
  | nil => intro g h; exact h
  | cons a t ih => intro g h; exact ih _ (gstep_served I g a h)

theorem grun_d (I : Nat) (as : List RAct) : ∀ (g : RGhost), (grun I g as).d = rrun I g.d as := by
  induction as with
  | nil => intro g; rfl
  | cons a t ih =>
    intro g
    simp only [grun, rrun, List.foldl_cons]
    have := ih (gstep I g a)
    simp only [grun, rrun] at this
    rw [this, gstep_d]

theorem grun_append (I : Nat) (g : RGhost) (as bs : List RAct) : grun I g (as ++ bs) = grun I (grun I g as) bs := by
  simp [grun, List.foldl_append]

theorem rrun_append (I : Nat) (d : RDeb) (as bs : List RAct) : rrun I d (as ++ bs) = rrun I (rrun I d as) bs := by
  simp [rrun, List.foldl_append]

/-- in a state that is not armed every request made so far has been followed by a refresh start -/
theorem served_lost_nil (g : RGhost) (hs : Served g) (hq : g.d.armed = false) : g.lost = [] := by
  unfold RGhost.lost
  rw [List.filter_eq_nil_iff]
  intro i hi
  have hi' : i < g.reqs.length := by simpa using hi
  have hm : g.reqs.getD i 0 ∈ g.reqs := by
    rw [List.getD_eq_getElem?_getD, List.getElem?_eq_getElem hi']
    exact List.getElem_mem hi'
  rcases hs.1 _ hm with h | ⟨_, ha⟩
  · simp only [decide_eq_true_eq]; omega
  · rw [hq] at ha; exact absurd ha (by decide)

/-! ### progress: `drain` reaches a quiet state from every state -/

theorem ticks_none (I : Nat) (n : Nat) : ∀ (d : RDeb), d.deadline = none →
    rrun I d (List.replicate n .tick) = { d with now := d.now + n } := by
  induction n with
  | zero => intro d _; rfl
  | succ n ih =>
    intro d h
    obtain ⟨now, deadline, fired, nowPending, bc, phase, refreshes⟩ := d
    simp only at h
    subst h
    simp only [List.replicate_succ, rrun, List.foldl_cons]
    have := ih { now := now + 1, deadline := none, fired := fired, nowPending := nowPending, bc := bc, phase := phase, refreshes := refreshes } rfl
    simp only [rrun] at this
    simp only [rstep, rstepWith]
    rw [this]
    simp only [RDeb.mk.injEq, and_true]
    omega

theorem ticks_fire (I : Nat) (n : Nat) : ∀ (d : RDeb) (dl : Nat), d.deadline = some dl → dl ≤ d.now + n → 1 ≤ n →
    rrun I d (List.replicate n .tick) = { d with now := d.now + n, deadline := none, fired := true } := by
  induction n with
  | zero => intro d dl _ _ h; omega
  | succ n ih =>
    intro d dl h hle _
    obtain ⟨now, deadline, fired, nowPending, bc, phase, refreshes⟩ := d
    simp only at h hle
    subst h
    simp only [List.replicate_succ, rrun, List.foldl_cons]
    simp only [rstep, rstepWith]
    by_cases hf : dl ≤ now + 1
    · simp only [hf, ↓reduceIte]
      have := ticks_none I n { now := now + 1, deadline := none, fired := true, nowPending := nowPending, bc := bc, phase := phase, refreshes := refreshes } rfl
      simp only [rrun] at this
      rw [this]
      simp only [RDeb.mk.injEq, and_true]
      omega
    · simp only [hf, ↓reduceIte]
      have := ih { now := now + 1, deadline := some dl, fired := fired, nowPending := nowPending, bc := bc, phase := phase, refreshes := refreshes } dl rfl
        (by simp only; omega) (by omega)
      simp only [rrun] at this
      rw [this]
      simp only [RDeb.mk.injEq, and_true]
      omega

/-- after `fire`'s ticks the timer is not armed any more -/
theorem ticksToFire_spec (I : Nat) (d : RDeb) :
    rrun I d (ticksToFire d) =
      match d.deadline with
      | some dl => { d with now := d.now + max 1 (dl - d.now), deadline := none, fired := true }
      | none => d := by
  unfold ticksToFire
  cases h : d.deadline with
  | none => rfl
  | some dl =>
    simp only
    exact ticks_fire I _ d dl h (by omega) (by omega)

/-- the flusher's schedule leaves no channel value behind and the flusher not `woken` -/
theorem flusher_spec (I : Nat) (d : RDeb) :
    let d' := rrun I d (flusherSched d)
    (d'.phase = .running ∧ d'.fired = false ∧ d'.nowPending = false ∧ d'.deadline = none) ∨
    (d' = d ∧ d.phase = .idle ∧ d.fired = false ∧ d.nowPending = false) ∨ (d' = d ∧ d.phase = .running) := by
  obtain ⟨now, deadline, fired, nowPending, bc, phase, refreshes⟩ := d
  cases phase <;> cases fired <;> cases nowPending <;> simp [flusherSched, rrun, rstep, rstepWith]

theorem drain_quiet (I : Nat) (d : RDeb) : (rrun I d (dsched I d .drain)).quiet = true := by
  simp only [dsched, rrun_append]
  -- first release
  have e1 : ∀ d : RDeb, rrun I d (dschedOne I d .release) = rrun I (rstep I d .done) (flusherSched (rstep I d .done)) := by
    intro d; simp [dschedOne, rrun]
  have e2 : ∀ d : RDeb, rrun I d (dschedOne I d .fire) =
      rrun I (rrun I d (ticksToFire d)) (flusherSched (rrun I d (ticksToFire d))) := by
    intro d; simp [dschedOne, rrun_append]
  -- state after release: running & clean, or idle with empty channels
  have r1 : ∀ d : RDeb, let d' := rrun I d (dschedOne I d .release)
      (d'.phase = .running ∧ d'.fired = false ∧ d'.nowPending = false ∧ d'.deadline = none) ∨
      (d'.phase = .idle ∧ d'.fired = false ∧ d'.nowPending = false) := by
    intro d
    simp only [e1]
    rcases flusher_spec I (rstep I d .done) with h | ⟨h, h'⟩ | ⟨h, h'⟩
    · left; exact h
    · right; rw [h]; exact h'
    · exfalso
      obtain ⟨now, deadline, fired, nowPending, bc, phase, refreshes⟩ := d
      cases phase <;> simp [rstep, rstepWith] at h'
  generalize hd1 : rrun I d (dschedOne I d .release) = d1
  have h1 := r1 d
  simp only [hd1] at h1
  -- after fire
  have r2 : let d2 := rrun I d1 (dschedOne I d1 .fire)
      (d2.phase = .running ∧ d2.fired = false ∧ d2.nowPending = false ∧ d2.deadline = none) ∨
      (d2.phase = .idle ∧ d2.fired = false ∧ d2.nowPending = false ∧ d2.deadline = none) := by
    simp only [e2]
    rcases h1 with ⟨hp, hf, hn, hdl⟩ | ⟨hp, hf, hn⟩
    · have ht : rrun I d1 (ticksToFire d1) = d1 := by rw [ticksToFire_spec, hdl]
      rw [ht]
      rcases flusher_spec I d1 with h | ⟨h, h'⟩ | ⟨h, _⟩
      · left; exact h
      · rw [hp] at h'; exact absurd h'.1 (by decide)
      · left; rw [h]; exact ⟨hp, hf, hn, hdl⟩
    · have ht := ticksToFire_spec I d1
      cases hdl : d1.deadline with
      | none =>
        rw [hdl] at ht
        rw [ht]
        rcases flusher_spec I d1 with h | ⟨h, _⟩ | ⟨h, h'⟩
        · left; exact h
        · right; rw [h]; exact ⟨hp, hf, hn, hdl⟩
        · rw [hp] at h'; exact absurd h' (by decide)
      | some dl =>
        rw [hdl] at ht
        simp only at ht
        rw [ht]
        rcases flusher_spec I { d1 with now := d1.now + max 1 (dl - d1.now), deadline := none, fired := true } with h | ⟨_, h'⟩ | ⟨_, h'⟩
        · left; exact h
        · exact absurd h'.2.1 (by simp)
        · simp only [hp] at h'; exact absurd h' (by decide)
  generalize hd2 : rrun I d1 (dschedOne I d1 .fire) = d2
  simp only [hd2] at r2
  -- second release
  simp only [e1]
  rcases r2 with ⟨hp, hf, hn, hdl⟩ | ⟨hp, hf, hn, hdl⟩
  · obtain ⟨now, deadline, fired, nowPending, bc, phase, refreshes⟩ := d2
    simp only at hp hf hn hdl
    subst hp hf hn hdl
    simp [rstep, rstepWith, flusherSched, rrun, RDeb.quiet, RDeb.armed]
  · obtain ⟨now, deadline, fired, nowPending, bc, phase, refreshes⟩ := d2
    simp only at hp hf hn hdl
    subst hp hf hn hdl
    simp [rstep, rstepWith, flusherSched, rrun, RDeb.quiet, RDeb.armed]

theorem quiet_not_armed (d : RDeb) (h : d.quiet = true) : d.armed = false := by
  unfold RDeb.quiet at h
  cases ha : d.armed <;> simp [ha] at h ⊢

theorem dstep_served (I : Nat) (g : RGhost) (op : DOp) (hs : Served g) : Served (dstep I g op) :=
  grun_served I _ g hs

theorem drun_served (I : Nat) (ops : List DOp) : ∀ (g : RGhost), Served g → Served (drun I g ops) := by
  induction ops with
  | nil => intro g h; exact h
  | cons a t ih => intro g h; exact ih _ (dstep_served I g a h)

/-! ### the callers of refreshNow(): answered by a refresh that started after their call -/

/-- invariant of every schedule about the listeners: positions are valid; the listeners the running refresh took
made their call before it started; so did every answered listener w.r.t. the refresh that answered it; waiting
listeners sit on a broadcaster; taken listeners belong to a running refresh -/
def Heard (g : RGhost) : Prop :=
  (∀ i ∈ g.waiting, i < g.reqs.length) ∧
  (∀ i ∈ g.cur, i < g.reqs.length ∧ g.reqs.getD i 0 < g.d.refreshes) ∧
  (∀ e ∈ g.answers, e.1 < g.reqs.length ∧ g.reqs.getD e.1 0 < e.2) ∧
  (g.waiting ≠ [] → g.d.bc = true) ∧
  (g.cur ≠ [] → g.d.phase = .running)

theorem heard_init : Heard {} := by
  refine ⟨?_, ?_, ?_, ?_, ?_⟩ <;> simp

theorem reqs_le (g : RGhost) (hs : Served g) (i : Nat) : g.reqs.getD i 0 ≤ g.d.refreshes := by
  by_cases hi : i < g.reqs.length
  · have hm : g.reqs.getD i 0 ∈ g.reqs := by
      rw [List.getD_eq_getElem?_getD, List.getElem?_eq_getElem hi]
      exact List.getElem_mem hi
    rcases hs.1 _ hm with h | ⟨h, _⟩ <;> omega
  · rw [List.getD_eq_getElem?_getD, List.getElem?_eq_none (by omega)]
    simp

theorem getD_append_lt (l l' : List Nat) (i : Nat) (h : i < l.length) : (l ++ l').getD i 0 = l.getD i 0 := by
  rw [List.getD_eq_getElem?_getD, List.getD_eq_getElem?_getD, List.getElem?_append_left h]

theorem rstep_bc_keep (I : Nat) (d : RDeb) (a : RAct) (ha : a ≠ .start) (h : d.bc = true) : (rstep I d a).bc = true := by
  obtain ⟨now, deadline, fired, nowPending, bc, phase, refreshes⟩ := d
  simp only at h
  subst h
  cases a with
  | start => exact absurd rfl ha
  | tick =>
    simp only [rstep, rstepWith]
    cases deadline with
    | none => rfl
    | some dl => dsimp only; split <;> rfl
  | done => simp only [rstep, rstepWith, id]; split <;> rfl
  | _ => simp only [rstep, rstepWith] <;> (try split) <;> rfl

theorem rstep_running_keep (I : Nat) (d : RDeb) (a : RAct) (ha : a ≠ .done) (h : d.phase = .running) :
    (rstep I d a).phase = .running := by
  obtain ⟨now, deadline, fired, nowPending, bc, phase, refreshes⟩ := d
  simp only at h
  subst h
  cases a with
  | done => exact absurd rfl ha
  | tick =>
    simp only [rstep, rstepWith]
    cases deadline with
    | none => rfl
    | some dl => dsimp only; split <;> rfl
  | refreshNow => simp only [rstep, rstepWith]; split <;> rfl
  | _ => simp [rstep, rstepWith]

theorem rstep_same_refreshes (I : Nat) (d : RDeb) (a : RAct) (ha : a ≠ .start) : (rstep I d a).refreshes = d.refreshes := by
  cases a with
  | start => exact absurd rfl ha
  | tick =>
    simp only [rstep, rstepWith]
    cases d.deadline with
    | none => rfl
    | some dl => dsimp only; split <;> rfl
  | done => simp only [rstep, rstepWith, id]; split <;> rfl
  | _ => simp only [rstep, rstepWith] <;> (try split) <;> rfl

/-- steps that touch neither the bookkeeping of requests nor that of listeners -/
theorem heard_plain (I : Nat) (g : RGhost) (a : RAct) (hh : Heard g) (ha : a ≠ .start) (hd : a ≠ .done)
    (g' : RGhost) (hg : g' = { g with d := rstep I g.d a }) : Heard g' := by
  subst hg
  obtain ⟨h1, h2, h3, h4, h5⟩ := hh
  refine ⟨h1, ?_, h3, ?_, ?_⟩
  · intro i hi
    have := h2 i hi
    simp only [rstep_same_refreshes I g.d a ha]
    exact this
  · intro hw; exact rstep_bc_keep I g.d a ha (h4 hw)
  · intro hc; exact rstep_running_keep I g.d a hd (h5 hc)

theorem gstep_heard (I : Nat) (g : RGhost) (a : RAct) (hs : Served g) (hh : Heard g) : Heard (gstep I g a) := by
  cases a with
  | tick => exact heard_plain I g .tick hh (by decide) (by decide) _ rfl
  | wakeT => exact heard_plain I g .wakeT hh (by decide) (by decide) _ rfl
  | wakeN => exact heard_plain I g .wakeN hh (by decide) (by decide) _ rfl
  | debounce =>
    obtain ⟨h1, h2, h3, h4, h5⟩ := hh
    simp only [gstep, gstepWith]
    refine ⟨?_, ?_, ?_, ?_, ?_⟩
    · intro i hi; have := h1 i hi; simp only [List.length_append, List.length_cons, List.length_nil]; omega
    · intro i hi
      obtain ⟨hl, hr⟩ := h2 i hi
      simp only [List.length_append, List.length_cons, List.length_nil]
      rw [getD_append_lt _ _ _ hl]
      exact ⟨by omega, by simpa [rstepWith] using hr⟩
    · intro e he
      obtain ⟨hl, hr⟩ := h3 e he
      simp only [List.length_append, List.length_cons, List.length_nil]
      rw [getD_append_lt _ _ _ hl]
      exact ⟨by omega, hr⟩
    · intro hw; simpa [rstepWith] using h4 hw
    · intro hc; simpa [rstepWith] using h5 hc
  | refreshNow =>
    obtain ⟨h1, h2, h3, h4, h5⟩ := hh
    simp only [gstep, gstepWith]
    refine ⟨?_, ?_, ?_, ?_, ?_⟩
    · intro i hi
      simp only [List.length_append, List.length_cons, List.length_nil]
      rcases List.mem_append.1 hi with hi | hi
      · have := h1 i hi; omega
      · simp only [List.mem_singleton] at hi; omega
    · intro i hi
      obtain ⟨hl, hr⟩ := h2 i hi
      simp only [List.length_append, List.length_cons, List.length_nil]
      rw [getD_append_lt _ _ _ hl]
      refine ⟨by omega, ?_⟩
      have := rstep_same_refreshes I g.d .refreshNow (by decide)
      simp only [rstep] at this
      rw [this]; exact hr
    · intro e he
      obtain ⟨hl, hr⟩ := h3 e he
      simp only [List.length_append, List.length_cons, List.length_nil]
      rw [getD_append_lt _ _ _ hl]
      exact ⟨by omega, hr⟩
    · intro _
      simp only [rstepWith]
      split
      · assumption
      · rfl
    · intro hc
      have := rstep_running_keep I g.d .refreshNow (by decide) (h5 hc)
      simpa [rstep] using this
  | start =>
    obtain ⟨h1, h2, h3, h4, h5⟩ := hh
    simp only [gstep, gstepWith]
    by_cases hw : g.d.phase = .woken
    · simp only [hw, ↓reduceIte]
      refine ⟨?_, ?_, h3, ?_, ?_⟩
      · intro i hi; simp at hi
      · intro i hi
        refine ⟨h1 i hi, ?_⟩
        have := reqs_le g hs i
        simp only [rstepWith, hw, ↓reduceIte]
        omega
      · intro h; exact absurd rfl h
      · intro _; simp [rstepWith, hw]
    · simp only [hw, ↓reduceIte]
      have e : rstepWith id I g.d .start = g.d := by simp [rstepWith, hw]
      rw [e]
      exact ⟨h1, h2, h3, h4, h5⟩
  | done =>
    obtain ⟨h1, h2, h3, h4, h5⟩ := hh
    simp only [gstep, gstepWith]
    by_cases hr : g.d.phase = .running
    · simp only [hr, ↓reduceIte]
      refine ⟨h1, ?_, ?_, ?_, ?_⟩
      · intro i hi; simp at hi
      · intro e he
        rcases List.mem_append.1 he with he | he
        · exact h3 e he
        · obtain ⟨i, hi, rfl⟩ := List.mem_map.1 he
          exact h2 i hi
      · intro hw
        have := rstep_bc_keep I g.d .done (by decide) (h4 hw)
        simpa [rstep] using this
      · intro h; exact absurd rfl h
    · simp only [hr, ↓reduceIte]
      have e : rstepWith id I g.d .done = g.d := by simp [rstepWith, hr]
      rw [e]
      exact ⟨h1, h2, h3, h4, h5⟩

theorem grun_served_heard (I : Nat) (as : List RAct) : ∀ (g : RGhost), Served g → Heard g →
    Served (grun I g as) ∧ Heard (grun I g as) := by
  induction as with
  | nil => intro g h1 h2; exact ⟨h1, h2⟩
  | cons a t ih => intro g h1 h2; exact ih _ (gstep_served I g a h1) (gstep_heard I g a h1 h2)

/-- no caller of refreshNow() is handed the result of a refresh that started before its call -/
theorem heard_early_nil (g : RGhost) (hh : Heard g) : g.early = [] := by
  unfold RGhost.early
  rw [List.map_eq_nil_iff, List.filter_eq_nil_iff]
  intro e he
  have := (hh.2.2.1 e he).2
  simp only [decide_eq_true_eq]; omega

/-- in a quiet state every caller of refreshNow() has its answer -/
theorem heard_unanswered_nil (g : RGhost) (hs : Served g) (hh : Heard g) (hq : g.d.quiet = true) : g.unanswered = [] := by
  have harm := quiet_not_armed _ hq
  have hidle : g.d.phase = .idle := by
    unfold RDeb.quiet at hq
    simp only [Bool.and_eq_true, beq_iff_eq] at hq
    exact hq.2
  have hbc : g.d.bc = false := by
    cases hb : g.d.bc with
    | false => rfl
    | true =>
      rcases hs.2 hb with h | h
      · simp [RDeb.armed, h] at harm
      · rw [hidle] at h; exact absurd h (by decide)
  have hw : g.waiting = [] := by
    by_cases h : g.waiting = []
    · exact h
    · have := hh.2.2.2.1 h; rw [hbc] at this; exact absurd this (by decide)
  have hc : g.cur = [] := by
    by_cases h : g.cur = []
    · exact h
    · have := hh.2.2.2.2 h; rw [hidle] at this; exact absurd this (by decide)
  simp [RGhost.unanswered, hw, hc]

theorem drun_served_heard (I : Nat) (ops : List DOp) : ∀ (g : RGhost), Served g → Heard g →
    Served (drun I g ops) ∧ Heard (drun I g ops) := by
  induction ops with
  | nil => intro g h1 h2; exact ⟨h1, h2⟩
  | cons a t ih =>
    intro g h1 h2
    have := grun_served_heard I (dsched I g.d a) g h1 h2
    exact ih _ this.1 this.2

end C16
