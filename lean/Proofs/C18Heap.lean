import Model.CompressHeap
/-! helper lemmas for C18 (ownership of the buffers that cross the compressor boundary):
    the invariant of the `fresh` discipline and its preservation by every step -/
namespace Compress

/-! ### slots -/

theorem mem_of_lookupSlot {k : Nat} {sl : Slot} : ∀ {l : List (Nat × Slot)}, lookupSlot k l = some sl → (k, sl) ∈ l
  | [], h => by simp [lookupSlot] at h
  | (k', sl') :: r, h => by
    unfold lookupSlot at h
    split at h
    · rename_i hk; injection h with h; subst hk; subst h; exact List.mem_cons_self
    · exact List.mem_cons_of_mem _ (mem_of_lookupSlot h)

theorem mem_of_mem_eraseSlot {k : Nat} {e : Nat × Slot} : ∀ {l : List (Nat × Slot)}, e ∈ eraseSlot k l → e ∈ l
  | [], h => by simp [eraseSlot] at h
  | (k', sl') :: r, h => by
    unfold eraseSlot at h
    split at h
    · exact List.mem_cons_of_mem _ (mem_of_mem_eraseSlot h)
    · rcases List.mem_cons.1 h with h | h
      · subst h; exact List.mem_cons_self
      · exact List.mem_cons_of_mem _ (mem_of_mem_eraseSlot h)

theorem lookupSlot_eraseSlot_ne {k k' : Nat} (hne : k' ≠ k) :
    ∀ (l : List (Nat × Slot)), lookupSlot k (eraseSlot k' l) = lookupSlot k l
  | [] => rfl
  | (k'', sl) :: r => by
    unfold eraseSlot
    split
    · rename_i h; subst h
      rw [lookupSlot_eraseSlot_ne hne r]
      simp [lookupSlot, hne]
    · simp only [lookupSlot]
      rw [lookupSlot_eraseSlot_ne hne r]

/-! ### buffers -/

theorem buf_alloc_lt (h : Heap) (b : Bytes) (id : Nat) (hid : id < h.mem.length) :
    (h.alloc b).1.buf id = h.buf id := by
  simp [Heap.alloc, Heap.buf, List.getD_eq_getElem?_getD, List.getElem?_append_left hid]

theorem buf_alloc_new (h : Heap) (b : Bytes) : (h.alloc b).1.buf h.mem.length = b := by
  simp [Heap.alloc, Heap.buf, List.getD_eq_getElem?_getD]

theorem alloc_length (h : Heap) (b : Bytes) : (h.alloc b).1.mem.length = h.mem.length + 1 := by
  simp [Heap.alloc]

theorem alloc_view (h : Heap) (b : Bytes) : (h.alloc b).2 = { id := h.mem.length, off := 0, len := b.length } := rfl

theorem buf_poke_ne (h : Heap) (id id' i : Nat) (x : UInt8) (hne : id' ≠ id) :
    (h.poke id' i x).buf id = h.buf id := by
  simp [Heap.poke, Heap.buf, List.getD_eq_getElem?_getD, List.getElem?_set_ne hne]

theorem poke_length (h : Heap) (id i : Nat) (x : UInt8) : (h.poke id i x).mem.length = h.mem.length := by
  simp [Heap.poke]

theorem read_congr (h h' : Heap) (v : View) (e : h'.buf v.id = h.buf v.id) : h'.read v = h.read v := by
  simp [Heap.read, e]

/-! ### the invariant of the `fresh` discipline -/

/-- every held result lives in a buffer that exists, still shows the value the call returned, that
    value is what the function gives for the slot's argument, and no result buffer is anybody's
    input buffer -/
structure Good (F : Dir → Bytes → Except Unit Bytes) (s : St) : Prop where
  ok : ∀ k sl, (k, sl) ∈ s.slots →
    sl.res.id < s.heap.mem.length ∧ sl.inp.id < s.heap.mem.length ∧
    s.heap.read sl.res = sl.want ∧ F sl.dir sl.arg = .ok sl.want
  sep : ∀ k sl k' sl', (k, sl) ∈ s.slots → (k', sl') ∈ s.slots → sl.res.id ≠ sl'.inp.id

theorem good_init (F : Dir → Bytes → Except Unit Bytes) : Good F St.init :=
  ⟨fun _ _ h => by simp [St.init] at h, fun _ _ _ _ h => by simp [St.init] at h⟩

theorem good_step (F : Dir → Bytes → Except Unit Bytes) (s : St) (op : Op) (g : Good F s) :
    Good F (step .fresh F s op) := by
  cases op with
  | drop k =>
    exact ⟨fun k' sl h => g.ok k' sl (mem_of_mem_eraseSlot h),
           fun k1 s1 k2 s2 h1 h2 => g.sep k1 s1 k2 s2 (mem_of_mem_eraseSlot h1) (mem_of_mem_eraseSlot h2)⟩
  | mutIn k i x =>
    simp only [step]
    cases hl : s.lookup k with
    | none => exact g
    | some sl0 =>
      simp only
      split
      · have hm0 : (k, sl0) ∈ s.slots := mem_of_lookupSlot hl
        refine ⟨fun k' sl h => ?_, fun k1 s1 k2 s2 h1 h2 => g.sep k1 s1 k2 s2 h1 h2⟩
        have ⟨h1, h2, h3, h4⟩ := g.ok k' sl h
        refine ⟨by simpa [poke_length] using h1, by simpa [poke_length] using h2, ?_, h4⟩
        have hne : sl0.inp.id ≠ sl.res.id := fun e => g.sep k' sl k sl0 h hm0 e.symm
        show (s.heap.poke sl0.inp.id (sl0.inp.off + i) x).read sl.res = sl.want
        rw [read_congr _ _ _ (buf_poke_ne s.heap sl.res.id sl0.inp.id _ x hne)]; exact h3
      · exact g
  | hold k dir x =>
    simp only [step]
    -- old slots keep their buffers: allocation appends
    have hold1 : ∀ k' sl, (k', sl) ∈ eraseSlot k s.slots →
        sl.res.id < s.heap.mem.length ∧ sl.inp.id < s.heap.mem.length ∧
        s.heap.read sl.res = sl.want ∧ F sl.dir sl.arg = .ok sl.want :=
      fun k' sl h => g.ok k' sl (mem_of_mem_eraseSlot h)
    cases hF : F dir x with
    | error e =>
      simp only
      refine ⟨fun k' sl h => ?_, fun k1 s1 k2 s2 h1 h2 => g.sep k1 s1 k2 s2 (mem_of_mem_eraseSlot h1) (mem_of_mem_eraseSlot h2)⟩
      have ⟨h1, h2, h3, h4⟩ := hold1 k' sl h
      refine ⟨by rw [alloc_length]; omega, by rw [alloc_length]; omega, ?_, h4⟩
      rw [read_congr _ _ _ (buf_alloc_lt s.heap x sl.res.id h1)]; exact h3
    | ok out =>
      simp only [Heap.place]
      have hlen1 : (s.heap.alloc x).1.mem.length = s.heap.mem.length + 1 := alloc_length _ _
      have hlen2 : ((s.heap.alloc x).1.alloc out).1.mem.length = s.heap.mem.length + 2 := by
        rw [alloc_length, hlen1]
      have hres : ((s.heap.alloc x).1.alloc out).2 = { id := s.heap.mem.length + 1, off := 0, len := out.length } := by
        rw [alloc_view, hlen1]
      have hinp : (s.heap.alloc x).2 = { id := s.heap.mem.length, off := 0, len := x.length } := alloc_view _ _
      refine ⟨fun k' sl h => ?_, fun k1 s1 k2 s2 h1 h2 => ?_⟩
      · rcases List.mem_cons.1 h with h | h
        · injection h with hk hs
          subst hs
          refine ⟨by simp only [hres, hlen2]; omega, by simp only [hinp, hlen2]; omega, ?_, hF⟩
          simp only [hres, Heap.read]
          have : ((s.heap.alloc x).1.alloc out).1.buf (s.heap.mem.length + 1) = out := by
            have := buf_alloc_new (s.heap.alloc x).1 out
            rwa [hlen1] at this
          simp [this]
        · have ⟨h1, h2, h3, h4⟩ := hold1 k' sl h
          refine ⟨by rw [hlen2]; omega, by rw [hlen2]; omega, ?_, h4⟩
          have e1 := buf_alloc_lt s.heap x sl.res.id h1
          have e2 := buf_alloc_lt (s.heap.alloc x).1 out sl.res.id (by rw [hlen1]; omega)
          rw [read_congr _ _ _ (e2.trans e1)]; exact h3
      · rcases List.mem_cons.1 h1 with h1 | h1 <;> rcases List.mem_cons.1 h2 with h2 | h2
        · injection h1 with _ e1; injection h2 with _ e2; subst e1; subst e2
          simp only [hres, hinp]; omega
        · injection h1 with _ e1; subst e1
          have := (hold1 k2 s2 h2).2.1
          simp only [hres]; omega
        · injection h2 with _ e2; subst e2
          have := (hold1 k1 s1 h1).1
          simp only [hinp]; omega
        · exact g.sep k1 s1 k2 s2 (mem_of_mem_eraseSlot h1) (mem_of_mem_eraseSlot h2)

theorem good_foldl (F : Dir → Bytes → Except Unit Bytes) (ops : List Op) :
    ∀ s, Good F s → Good F (ops.foldl (step .fresh F) s) := by
  induction ops with
  | nil => exact fun _ g => g
  | cons op r ih => exact fun s g => ih _ (good_step F s op g)

theorem good_run (F : Dir → Bytes → Except Unit Bytes) (ops : List Op) : Good F (run .fresh F ops) :=
  good_foldl F ops _ (good_init F)

/-- a step that does not name slot `k` leaves WHO holds WHAT in slot `k` alone (any discipline) -/
theorem lookup_step (d : Discipline) (F : Dir → Bytes → Except Unit Bytes) (s : St) (op : Op) (k : Nat)
    (hn : op.touches k = false) : (step d F s op).lookup k = s.lookup k := by
  cases op with
  | drop k' =>
    have hne : k' ≠ k := by simpa [Op.touches] using hn
    exact lookupSlot_eraseSlot_ne hne _
  | mutIn k' i x =>
    simp only [step]
    cases s.lookup k' with
    | none => rfl
    | some sl0 => simp only; split <;> rfl
  | hold k' dir x =>
    have hne : k' ≠ k := by simpa [Op.touches] using hn
    simp only [step]
    cases F dir x with
    | error e => exact lookupSlot_eraseSlot_ne hne _
    | ok out =>
      simp only [St.lookup, lookupSlot, hne, if_false]
      exact lookupSlot_eraseSlot_ne hne _

theorem lookup_foldl (d : Discipline) (F : Dir → Bytes → Except Unit Bytes) (k : Nat) (ops : List Op)
    (hn : ∀ op ∈ ops, op.touches k = false) :
    ∀ s, (ops.foldl (step d F) s).lookup k = s.lookup k := by
  induction ops with
  | nil => exact fun _ => rfl
  | cons op r ih =>
    intro s
    rw [List.foldl_cons, ih (fun o ho => hn o (List.mem_cons_of_mem _ ho)), lookup_step d F s op k (hn op List.mem_cons_self)]

/-- a codec call writes to no buffer that existed before it (only the caller's own `mutIn` does) -/
theorem buf_step_noMut (F : Dir → Bytes → Except Unit Bytes) (s : St) (op : Op) (id : Nat)
    (hn : ∀ k' i x, op ≠ .mutIn k' i x) (hid : id < s.heap.mem.length) :
    (step .fresh F s op).heap.buf id = s.heap.buf id ∧ id < (step .fresh F s op).heap.mem.length := by
  cases op with
  | drop k => exact ⟨rfl, hid⟩
  | mutIn k i x => exact absurd rfl (hn k i x)
  | hold k dir x =>
    simp only [step]
    have hlen1 : (s.heap.alloc x).1.mem.length = s.heap.mem.length + 1 := alloc_length _ _
    cases F dir x with
    | error e => exact ⟨buf_alloc_lt s.heap x id hid, by simp only [hlen1]; omega⟩
    | ok out =>
      simp only [Heap.place]
      refine ⟨?_, by rw [alloc_length, hlen1]; omega⟩
      rw [buf_alloc_lt (s.heap.alloc x).1 out id (by rw [hlen1]; omega)]
      exact buf_alloc_lt s.heap x id hid

theorem buf_foldl_noMut (F : Dir → Bytes → Except Unit Bytes) (ops : List Op)
    (hn : ∀ op ∈ ops, ∀ k' i x, op ≠ .mutIn k' i x) :
    ∀ (s : St) (id : Nat), id < s.heap.mem.length → (ops.foldl (step .fresh F) s).heap.buf id = s.heap.buf id := by
  induction ops with
  | nil => exact fun _ _ _ => rfl
  | cons op r ih =>
    intro s id hid
    have ⟨h1, h2⟩ := buf_step_noMut F s op id (hn op List.mem_cons_self) hid
    rw [List.foldl_cons, ih (fun o ho => hn o (List.mem_cons_of_mem _ ho)) _ id h2, h1]

end Compress
