import Proofs.C12
import Model.MarshalHistory
/-!
# C02 — history independence and layout independence of the model (helper lemmas)
-/
namespace C02Hist
open ValueSpec Marshal

/-! ## a process: the answers do not depend on the state -/

theorem procRun_eq_map (h : Hist) (cs : List Call) : procRun h cs = cs.map callModel := by
  induction cs generalizing h with
  | nil => rfl
  | cons c cs ih => simp [procRun, procStep, ih]

/-! ## UDT struct: the encoding depends on the tag → value association only -/

/-- the encoding of the Go field tagged `fname` (generic in the per-field encoder) -/
def namedList (e : String → GoVal → MRes) : List String → List GoVal → List MRes
  | f :: fs, v :: vs => e f v :: namedList e fs vs
  | _, _ => []

/-- the per-field encoder of marshalUDT: the UDT field of the same name decides the column type -/
def enc1 (p : Nat) (names : List String) (ts : List CqlTy) (fname : String) (v : GoVal) : MRes :=
  match lookupIdx fname names 0 with
  | some i => (match ts[i]? with
      | some t => marshal p t v
      | none => .ok none)
  | none => .ok none

theorem marshalNamed_eq (p : Nat) (names : List String) (ts : List CqlTy) (fnames : List String) (vs : List GoVal) :
    marshalNamed p names ts fnames vs = namedList (enc1 p names ts) fnames vs := by
  induction fnames generalizing vs with
  | nil => cases vs <;> simp [marshalNamed, namedList]
  | cons f fs ih =>
    cases vs with
    | nil => simp [marshalNamed, namedList]
    | cons v vs =>
      simp only [marshalNamed, namedList, enc1, ih]
      rfl

/-- what marshalUDT looks up for the UDT field `n`: the first Go field tagged `n` (association list form) -/
def pick (e : String → GoVal → MRes) (n : String) : List (String × GoVal) → MRes
  | [] => .ok none
  | (f, v) :: r => if f = n then e f v else pick e n r

theorem lookupIdx_shift (n : String) (fs : List String) (k : Nat) :
    lookupIdx n fs (k+1) = (lookupIdx n fs k).map (· + 1) := by
  induction fs generalizing k with
  | nil => rfl
  | cons f r ih =>
    simp only [lookupIdx]
    split
    · rfl
    · exact ih (k+1)

theorem lookup_pick (e : String → GoVal → MRes) (n : String) (fs : List (String × GoVal)) :
    (match lookupIdx n (fs.map (·.1)) 0 with
     | some i => (match (namedList e (fs.map (·.1)) (fs.map (·.2)))[i]? with | some r => r | none => MRes.ok none)
     | none => MRes.ok none) = pick e n fs := by
  induction fs with
  | nil => rfl
  | cons a r ih =>
    obtain ⟨f, v⟩ := a
    simp only [List.map_cons, lookupIdx, namedList, pick]
    by_cases hf : f = n
    · simp [hf]
    · simp only [hf, if_false]
      rw [lookupIdx_shift, ← ih]
      cases lookupIdx n (r.map (·.1)) 0 with
      | none => rfl
      | some i => simp

theorem pick_of_mem (e : String → GoVal → MRes) (n : String) (v : GoVal) (fs : List (String × GoVal))
    (hnd : (fs.map (·.1)).Nodup) (hm : (n, v) ∈ fs) : pick e n fs = e n v := by
  induction fs with
  | nil => simp at hm
  | cons a r ih =>
    obtain ⟨f, w⟩ := a
    simp only [List.map_cons, List.nodup_cons] at hnd
    simp only [pick]
    by_cases hf : f = n
    · simp only [hf, if_true]
      rcases List.mem_cons.mp hm with h | h
      · injection h with _ h2
        rw [h2]
      · exfalso
        apply hnd.1
        rw [hf]
        exact List.mem_map.mpr ⟨(n, v), h, rfl⟩
    · simp only [hf, if_false]
      rcases List.mem_cons.mp hm with h | h
      · injection h with h1 _
        exact absurd h1.symm hf
      · exact ih hnd.2 h

theorem pick_of_not_mem (e : String → GoVal → MRes) (n : String) (fs : List (String × GoVal))
    (hm : n ∉ fs.map (·.1)) : pick e n fs = .ok none := by
  induction fs with
  | nil => rfl
  | cons a r ih =>
    obtain ⟨f, w⟩ := a
    simp only [List.map_cons, List.mem_cons, not_or] at hm
    simp only [pick]
    rw [if_neg (fun h => hm.1 h.symm)]
    exact ih hm.2

theorem pick_perm (e : String → GoVal → MRes) (n : String) (fs gs : List (String × GoVal))
    (hp : fs.Perm gs) (hnd : (fs.map (·.1)).Nodup) : pick e n fs = pick e n gs := by
  have hnd' : (gs.map (·.1)).Nodup := (hp.map (·.1)).nodup_iff.mp hnd
  by_cases hm : n ∈ fs.map (·.1)
  · obtain ⟨a, ha, hn⟩ := List.mem_map.mp hm
    obtain ⟨f, v⟩ := a
    simp only at hn
    subst hn
    rw [pick_of_mem e f v fs hnd ha, pick_of_mem e f v gs hnd' (hp.mem_iff.mp ha)]
  · have hm' : n ∉ gs.map (·.1) := fun h => hm ((hp.map (·.1)).mem_iff.mpr h)
    rw [pick_of_not_mem e n fs hm, pick_of_not_mem e n gs hm']

theorem udtAssemble_pick (names : List String) (e : String → GoVal → MRes) (fs : List (String × GoVal)) :
    udtAssemble names (namedList e (fs.map (·.1)) (fs.map (·.2))) (fs.map (·.1)) =
      if names = [] then .ok none else
        seqItems (fun item => some (appendBytes item)) (names.map (fun n => pick e n fs)) := by
  unfold udtAssemble
  split
  · rfl
  · congr 1
    apply List.map_congr_left
    intro n _
    exact lookup_pick e n fs

end C02Hist
