import Model.TokenMeta
import Proofs.C16EventsAgree
/-! helper lemmas for the token-aware policy's metadata (Model/TokenMeta.lean): after `updateAllReplicas` EVERY
replica table is computed from the current token ring; invariant of all sequences of policy operations -/
namespace C16TokenMeta
open Ring ClusterView TokenMeta

theorem upd_tring (te : TEnv) (tm : TMeta) (ks : Nat) : (tm.updateReplicas te ks).tring = tm.tring := by
  unfold TMeta.updateReplicas
  split <;> rfl

theorem upd_part (te : TEnv) (tm : TMeta) (ks : Nat) : (tm.updateReplicas te ks).part = tm.part := by
  unfold TMeta.updateReplicas
  split <;> rfl

/-- an entry of the table after `updateReplicas ks`: the fresh entry of `ks`, or an old entry of another keyspace -/
theorem upd_mem (te : TEnv) (tm : TMeta) (ks : Nat) (e : Nat × List RHost) (he : e ∈ (tm.updateReplicas te ks).repl) :
    (e.1 = ks ∧ ∃ l, tm.tring = some l ∧ e.2 = replicaHosts te l) ∨ (e.1 ≠ ks ∧ e ∈ tm.repl) := by
  unfold TMeta.updateReplicas at he
  split at he
  · next l hk ht =>
    rcases List.mem_cons.mp he with h | h
    · left; subst h; exact ⟨rfl, l, ht, rfl⟩
    · right
      have := List.mem_filter.mp h
      exact ⟨by simpa using this.2, this.1⟩
  · right
    have := List.mem_filter.mp he
    exact ⟨by simpa using this.2, this.1⟩

theorem fold_tring (te : TEnv) (K : List Nat) : ∀ tm : TMeta, (K.foldl (TMeta.updateReplicas te) tm).tring = tm.tring := by
  induction K with
  | nil => intro tm; rfl
  | cons k t ih => intro tm; simp only [List.foldl_cons]; rw [ih, upd_tring]

theorem fold_part (te : TEnv) (K : List Nat) : ∀ tm : TMeta, (K.foldl (TMeta.updateReplicas te) tm).part = tm.part := by
  induction K with
  | nil => intro tm; rfl
  | cons k t ih => intro tm; simp only [List.foldl_cons]; rw [ih, upd_part]

/-- after `updateReplicas` for the keyspaces `K`: the tables of the keyspaces in `K` are fresh, the others untouched -/
theorem fold_mem (te : TEnv) (K : List Nat) : ∀ (tm : TMeta) (e : Nat × List RHost),
    e ∈ (K.foldl (TMeta.updateReplicas te) tm).repl →
    (e.1 ∈ K → ∃ l, tm.tring = some l ∧ e.2 = replicaHosts te l) ∧ (e.1 ∉ K → e ∈ tm.repl) := by
  induction K with
  | nil => intro tm e he; exact ⟨fun h => (by cases h), fun _ => he⟩
  | cons k t ih =>
    intro tm e he
    simp only [List.foldl_cons] at he
    have ⟨h1, h2⟩ := ih (tm.updateReplicas te k) e he
    rw [upd_tring] at h1
    constructor
    · intro hk
      by_cases ht : e.1 ∈ t
      · exact h1 ht
      · have hek : e.1 = k := by
          rcases List.mem_cons.mp hk with h | h
          · exact h
          · exact absurd h ht
        rcases upd_mem te tm k e (h2 ht) with ⟨_, hl⟩ | ⟨hne, _⟩
        · exact hl
        · exact absurd hek hne
    · intro hk
      have hk1 : e.1 ≠ k := fun h => hk (h ▸ List.mem_cons_self)
      have hk2 : e.1 ∉ t := fun h => hk (List.mem_cons_of_mem _ h)
      rcases upd_mem te tm k e (h2 hk2) with ⟨h, _⟩ | ⟨_, h⟩
      · exact absurd h hk1
      · exact h

theorem updateAll_tring (te : TEnv) (tm : TMeta) : (tm.updateAll te).tring = tm.tring := fold_tring te _ tm
theorem updateAll_part (te : TEnv) (tm : TMeta) : (tm.updateAll te).part = tm.part := fold_part te _ tm

/-- after `updateAllReplicas` EVERY table is computed from the current token ring -/
theorem updateAll_fresh (te : TEnv) (tm : TMeta) (e : Nat × List RHost) (he : e ∈ (tm.updateAll te).repl) :
    ∃ l, tm.tring = some l ∧ e.2 = replicaHosts te l := by
  unfold TMeta.updateAll at he
  have ⟨h1, h2⟩ := fold_mem te _ tm e he
  by_cases hk : e.1 ∈ te.sessionKs :: (tm.repl.map (·.1)).filter (· != te.sessionKs)
  · exact h1 hk
  · exfalso
    have hmem := h2 hk
    apply hk
    by_cases hs : e.1 = te.sessionKs
    · rw [hs]; exact List.mem_cons_self
    · apply List.mem_cons_of_mem
      apply List.mem_filter.mpr
      exact ⟨List.mem_map.mpr ⟨e, hmem, rfl⟩, by simpa using hs⟩

/-- the metadata follows the host list `ta` of the token-aware policy -/
structure TInv (te : TEnv) (tm : TMeta) (ta : List RHost) : Prop where
  ring : ∀ l, tm.tring = some l → l = ta
  nopart : tm.part = false → tm.tring = none
  haspart : tm.part = true → tm.tring = some ta
  repl : ∀ e ∈ tm.repl, tm.tring = some ta ∧ e.2 = replicaHosts te ta

theorem tinv_init (te : TEnv) : TInv te {} [] :=
  ⟨fun l h => (by cases h), fun _ => rfl, fun h => (by cases h), fun e he => (by cases he)⟩

theorem tinv_updateReplicas (te : TEnv) (tm : TMeta) (ta : List RHost) (ks : Nat) (h : TInv te tm ta) :
    TInv te (tm.updateReplicas te ks) ta := by
  refine ⟨?_, ?_, ?_, ?_⟩
  · rw [upd_tring]; exact h.ring
  · rw [upd_tring, upd_part]; exact h.nopart
  · rw [upd_tring, upd_part]; exact h.haspart
  · intro e he
    rw [upd_tring]
    rcases upd_mem te tm ks e he with ⟨_, l, hl, hr⟩ | ⟨_, hm⟩
    · have := h.ring l hl
      subst this
      exact ⟨hl, hr⟩
    · exact h.repl e hm

/-- the ring-changing part of AddHost / RemoveHost in the code that exists re-establishes the invariant for the NEW list -/
theorem tinv_ringChanged (te : TEnv) (tm : TMeta) (ta ta' : List RHost) (h : TInv te tm ta) :
    TInv te (tm.ringChanged false te ta') ta' := by
  have hrc : tm.ringChanged false te ta' = (tm.reset ta').updateAll te := by simp [TMeta.ringChanged]
  rw [hrc]
  cases hp : tm.part with
  | false =>
    have hreset : tm.reset ta' = tm := by simp [TMeta.reset, hp]
    have hnone := h.nopart hp
    rw [hreset]
    refine ⟨?_, ?_, ?_, ?_⟩
    · intro l hl; rw [updateAll_tring, hnone] at hl; cases hl
    · intro _; rw [updateAll_tring]; exact hnone
    · intro hq; rw [updateAll_part, hp] at hq; cases hq
    · intro e he
      have ⟨l, hl, _⟩ := updateAll_fresh te tm e he
      rw [hnone] at hl; cases hl
  | true =>
    have hreset : tm.reset ta' = { tm with tring := some ta' } := by simp [TMeta.reset, hp]
    rw [hreset]
    refine ⟨?_, ?_, ?_, ?_⟩
    · intro l hl; rw [updateAll_tring] at hl; exact (Option.some.inj hl).symm
    · intro hq; rw [updateAll_part] at hq; rw [hp] at hq; cases hq
    · intro _; rw [updateAll_tring]
    · intro e he
      rw [updateAll_tring]
      have ⟨l, hl, hr⟩ := updateAll_fresh te _ e he
      have : ta' = l := Option.some.inj hl
      subst this
      exact ⟨rfl, hr⟩

theorem tinv_setPartitioner (te : TEnv) (tm : TMeta) (ta : List RHost) (h : TInv te tm ta) (hp : tm.part = false) :
    TInv te ((({ tm with part := true } : TMeta).reset ta).updateAll te) ta := by
  have hnone := h.nopart hp
  have h' : TInv te ({ tm with part := true, tring := some ta } : TMeta) ta := by
    refine ⟨fun l hl => (Option.some.inj hl).symm, fun hq => (by cases hq), fun _ => rfl, ?_⟩
    intro e he
    have := (h.repl e he).1
    rw [hnone] at this; cases this
  have hreset : ({ tm with part := true } : TMeta).reset ta = { tm with part := true, tring := some ta } := by
    simp [TMeta.reset]
  rw [hreset]
  have hrc := tinv_ringChanged te ({ tm with part := true, tring := some ta } : TMeta) ta ta h'
  have : ({ tm with part := true, tring := some ta } : TMeta).ringChanged false te ta
      = ({ tm with part := true, tring := some ta } : TMeta).updateAll te := by
    simp [TMeta.ringChanged, TMeta.reset]
  rw [this] at hrc
  exact hrc

theorem add_ta' (env : Env) (p : Policy) (h : RHost) : (p.add env h).ta = if env.tokenAware then cowAdd p.ta h else p.ta :=
  C16.add_ta env p h

theorem cowAdd_of_inList (l : List RHost) (h : RHost) (hi : inList l h = true) : cowAdd l h = l := by
  unfold cowAdd; unfold inList at hi; simp [hi]

theorem cowRemove_of_not_inList (l : List RHost) (h : RHost) (hi : inList l h = false) : cowRemove l (cAddr h) = l := by
  unfold cowRemove
  apply List.filter_eq_self.mpr
  intro e he
  unfold inList at hi
  have := List.any_eq_false.mp hi e he
  simpa using this

/-- the token-aware list is empty unless the policy is token aware; the metadata is untouched then -/
structure PInv (env : Env) (te : TEnv) (s : PS) : Prop where
  tinv : TInv te s.tm s.p.ta

theorem pinv_step (env : Env) (te : TEnv) (s : PS) (o : PolOp) (h : PInv env te s) : PInv env te (pstep env te s o) := by
  constructor
  cases o with
  | add x =>
    show TInv te _ (s.p.add env x).ta
    rw [C16.add_ta]
    simp only [pstep, pstepWith]
    cases hta : env.tokenAware with
    | false => simpa using h.tinv
    | true =>
      cases hi : inList s.p.ta x with
      | true => simp only [Bool.true_and, Bool.not_true, if_true]; rw [cowAdd_of_inList _ _ hi]; simpa using h.tinv
      | false => simpa using tinv_ringChanged te s.tm s.p.ta _ h.tinv
  | remove x =>
    show TInv te _ (s.p.remove env x).ta
    rw [C16.remove_ta]
    simp only [pstep, pstepWith]
    cases hta : env.tokenAware with
    | false => simpa using h.tinv
    | true =>
      cases hi : inList s.p.ta x with
      | false => simp only [Bool.true_and, if_true]; rw [cowRemove_of_not_inList _ _ hi]; simpa using h.tinv
      | true => simpa using tinv_ringChanged te s.tm s.p.ta _ h.tinv
  | up x =>
    show TInv te s.tm (s.p.up env x).ta
    have : (s.p.up env x).ta = s.p.ta := C16.fbAdd_ta env s.p x
    rw [this]; exact h.tinv
  | down x =>
    show TInv te s.tm (s.p.dn env x).ta
    have : (s.p.dn env x).ta = s.p.ta := C16.fbRemove_ta env s.p x
    rw [this]; exact h.tinv
  | setPartitioner =>
    simp only [pstep, pstepWith]
    cases hta : env.tokenAware with
    | false => simpa using h.tinv
    | true =>
      cases hp : s.tm.part with
      | true => simpa using h.tinv
      | false => simpa using tinv_setPartitioner te s.tm s.p.ta h.tinv hp
  | keyspaceChanged ks =>
    simp only [pstep, pstepWith]
    cases hta : env.tokenAware with
    | false => simpa using h.tinv
    | true => simpa using tinv_updateReplicas te s.tm s.p.ta ks h.tinv

theorem pinv_run (env : Env) (te : TEnv) (ops : List PolOp) : ∀ s, PInv env te s → PInv env te (prun env te s ops) := by
  induction ops with
  | nil => intro s h; exact h
  | cons o t ih => intro s h; exact ih _ (pinv_step env te s o h)

/-- every host the metadata refers to is an entry of the token-aware host list -/
theorem refs_subset (te : TEnv) (tm : TMeta) (ta : List RHost) (h : TInv te tm ta) : ∀ x ∈ tm.refs, x ∈ ta := by
  intro x hx
  unfold TMeta.refs at hx
  rcases List.mem_append.mp hx with hx | hx
  · cases ht : tm.tring with
    | none => rw [ht] at hx; simp at hx
    | some l =>
      rw [ht] at hx
      have := h.ring l ht
      subst this
      simpa using hx
  · rcases List.mem_flatten.mp hx with ⟨l, hl, hxl⟩
    rcases List.mem_map.mp hl with ⟨e, he, rfl⟩
    have := (h.repl e he).2
    rw [this] at hxl
    exact (List.mem_filter.mp hxl).1

theorem tinv_follow (te : TEnv) (tm : TMeta) (ta ta' : List RHost) (h : TInv te tm ta) : TInv te (tm.follow te ta ta') ta' := by
  unfold TMeta.follow
  split
  · next he => subst he; exact h
  · exact tinv_ringChanged te tm ta ta' h

/-! ### schema events -/

theorem schemaFold_cache (env : Env) (te : TEnv) (p : Policy) (b : List SchemaEv) : ∀ (s : SchemaSt) (ks : Nat),
    (handleSchemaEvent env te p s b).cache.contains ks = (!(b.any (fun e => e.ks == ks)) && s.cache.contains ks) := by
  induction b with
  | nil => intro s ks; simp [handleSchemaEvent]
  | cons e t ih =>
    intro s ks
    have hstep : (schemaStep env te p s e).cache = s.cache.filter (· != e.ks) := by cases e <;> rfl
    show (handleSchemaEvent env te p (schemaStep env te p s e) t).cache.contains ks = _
    rw [ih, hstep]
    by_cases hk : e.ks = ks
    · subst hk; simp
    · have : (e.ks == ks) = false := by simpa using hk
      have hne : ks ≠ e.ks := fun h => hk h.symm
      simp [this, List.contains_eq_mem, List.mem_filter, hne]

theorem schema_cache_spec (env : Env) (te : TEnv) (p : Policy) (ks : Nat) : ∀ (rev : List SchemaOp),
    (rev.reverse.foldl (schemaOp env te p) {}).cache.contains ks = cachedSpecRev ks rev := by
  intro rev
  induction rev with
  | nil => rfl
  | cons o t ih =>
    rw [List.reverse_cons, List.foldl_append]
    simp only [List.foldl_cons, List.foldl_nil]
    cases o with
    | fill k =>
      simp only [schemaOp, cachedSpecRev]
      rw [← ih]
      generalize (List.foldl (schemaOp env te p) {} t.reverse).cache = c
      by_cases hc : c.contains k = true
      · simp only [hc, if_true]
        by_cases hk : k = ks
        · subst hk
          have : k ∈ c := by simpa using hc
          simp [this]
        · have : (k == ks) = false := by simpa using hk
          simp [this]
      · simp only [hc]
        by_cases hk : k = ks
        · subst hk; simp
        · have h1 : (k == ks) = false := by simpa using hk
          have h2 : (ks == k) = false := by simpa using fun h : ks = k => hk h.symm
          simp [h1]
          intro h; exact absurd h.symm hk
    | events b =>
      simp only [schemaOp, cachedSpecRev]
      rw [schemaFold_cache, ih]

theorem tinv_schema (env : Env) (te : TEnv) (p : Policy) (b : List SchemaEv) : ∀ (s : SchemaSt),
    TInv te s.tm p.ta → TInv te (handleSchemaEvent env te p s b).tm p.ta := by
  induction b with
  | nil => intro s h; exact h
  | cons e t ih =>
    intro s h
    apply ih
    cases e with
    | keyspace k =>
      have hp : (pstep env te ⟨p, s.tm⟩ (.keyspaceChanged k)).p = p := by
        simp only [pstep, pstepWith]; split <;> rfl
      have := (pinv_step env te ⟨p, s.tm⟩ (.keyspaceChanged k) ⟨h⟩).tinv
      rw [hp] at this
      exact this
    | other k => exact h

end C16TokenMeta
