/- C04 helper lemmas: a whole query over its pages (Model/RowsPaged.lean) -/
import Proofs.C04Wire
import Proofs.C04Rows
import Proofs.C04Meta
import Model.RowsPaged
namespace C04
open FrameRead RespSpec Rows Paged

/-! ## one response through the receive path and executeQuery's switch -/

theorem recv_eq (v : Nat) (wire : FrameRead.Bytes) :
    Paged.recv v wire = recvParse (Compress.newFramer none (UInt8.ofNat v)) v wire := rfl

theorem recv_wf (v : Nat) (r : LResp) (hw : wf v r = true) (hlen : (encodeBody v r).length ≤ Compress.maxFrameSize) :
    Paged.recv v (encodeFrame v r) = .ok (view v r, restOf r) := by
  rw [recv_eq]; exact recvParse_plain none v r hw hlen

/-- the page's has_more_pages flag, as the driver reads it, is set exactly when the page carries a paging state -/
theorem morePages_flag (m : Meta) : hasFlag (viewMeta m).flags flagHasMorePages = m.paging.isSome := by
  have hfl : m.flagBits < 2147483648 := by have := flagBits_lt m; omega
  simp only [viewMeta, hasFlag_small _ _ hfl]
  obtain ⟨paging, cols⟩ := m
  cases cols with
  | omitted n g => cases paging <;> cases g <;> simp [Meta.flagBits, Cols.flagBits, flagHasMorePages]
  | global ks tb cs => cases paging <;> simp [Meta.flagBits, Cols.flagBits, flagHasMorePages]
  | perCol cs => cases paging <;> simp [Meta.flagBits, Cols.flagBits, flagHasMorePages]

/-- what the application must see of a response (everything but the rows themselves) -/
def hdrSpec (r : LResp) : PageHdr := { traceId := r.tracing, warnings := r.warnings, payload := r.payload }

/-- the Iter a page of rows must give -/
def qOf (r : LResp) (m : Meta) (rs : List (List Cell)) : QIter :=
  { it := iterOf (viewMeta m) rs.length (eRows rs), err := none, hdr := some (hdrSpec r), more := m.paging.isSome }

/-- the Iter an ERROR response must give: `iter.err` is the error with the code, message and fields the server sent -/
def qErr (r : LResp) (msg : FrameRead.Bytes) (e : ErrBody) : QIter :=
  { it := failedIter [], err := some (.server e.code msg (viewErr e)), hdr := some (hdrSpec r), more := false }

/-- the Iter of a result without rows (void, set keyspace, schema change) -/
def qEmpty (r : LResp) : QIter :=
  { it := iterOf ResultMeta.zero 0 [], err := none, hdr := some (hdrSpec r), more := false }

theorem step1_rows (v : Nat) (r : LResp) (m : Meta) (rs : List (List Cell)) (hw : wf v r = true)
    (hlen : (encodeBody v r).length ≤ Compress.maxFrameSize) (hb : r.body = .result (.rows m rs)) :
    step1 v true (encodeFrame v r) = .iter (qOf r m rs) := by
  simp only [step1, recv_wf v r hw hlen, dispatch, view, hb, viewBody, restOf, restOfBody, morePages_flag, Bool.and_true]
  rfl

theorem step1_error (v : Nat) (ap : Bool) (r : LResp) (msg : FrameRead.Bytes) (e : ErrBody) (hw : wf v r = true)
    (hlen : (encodeBody v r).length ≤ Compress.maxFrameSize) (hb : r.body = .error msg e) (hu : ∀ id, e ≠ .unprepared id) :
    step1 v ap (encodeFrame v r) = .iter (qErr r msg e) := by
  simp only [step1, recv_wf v r hw hlen, dispatch, view, hb, viewBody, restOf, restOfBody]
  cases e <;> first | rfl | (exact absurd rfl (hu _))

/-! ## Scan inside a page, at a page switch, at the end -/

theorem pscan_of_scan_row (v : Nat) (ap : Bool) (dests : List Bool) (fut : List FrameRead.Bytes) (q : QIter) (it' : Iter)
    (calls : List Call) (h : scan q.it dests = .row it' calls) :
    pscan v ap dests fut q = .row { q with it := it' } fut calls := by
  have hnf : needFetch q = false := by
    unfold scan at h
    unfold needFetch
    by_cases hf : q.it.failed = true
    · simp [hf] at h
    · by_cases hp : q.it.pos ≥ q.it.numRows
      · simp [hf, hp] at h
      · simp [hp]
  cases fut with
  | nil => simp [pscan, hnf, scanHere, h]
  | cons w ws => simp [pscan, hnf, scanHere, h]

/-- the iterator at the end of its page -/
def atEnd (q : QIter) : QIter := { q with it := { q.it with pos := q.it.numRows, buf := [] } }

/-- the rows of the current page: every Scan returns true with exactly the calls the row stands for; then
    the loop goes on from the end of the page -/
theorem pdrain_page (v : Nat) (rows : List (List (TypeDesc × Cell))) (ts : List TypeDesc) (q : QIter) (W k : Nat)
    (fut : List FrameRead.Bytes)
    (hf : q.it.failed = false) (hn : q.it.pos + rows.length = q.it.numRows)
    (hm : colsMatch q.it.md.columns ts) (hts : ∀ row ∈ rows, row.map (·.1) = ts)
    (hw : ∀ row ∈ rows, wfRow row = true)
    (hW : totalWidth ts = W) (ha : q.it.md.actualColCount = (W : Int))
    (hb : q.it.buf = eRows (rows.map (fun row => row.map (·.2)))) :
    pdrain v (List.replicate W true) (rows.length + k) fut q
      = (match pdrain v (List.replicate W true) k fut (atEnd q) with
         | some (cs, q', f) => some (rows.map (rowCalls 0) ++ cs, q', f)
         | none => none) := by
  induction rows generalizing q with
  | nil =>
    have hp : q.it.pos = q.it.numRows := by simpa using hn
    have hb' : q.it.buf = [] := by simpa [eRows] using hb
    have : atEnd q = q := by
      obtain ⟨⟨f, p, md, n, b⟩, e, h, mo⟩ := q
      simp only [atEnd] at *
      subst hp; subst hb'; rfl
    rw [this]
    simp only [List.length_nil, Nat.zero_add, List.map_nil, List.nil_append]
    cases pdrain v (List.replicate W true) k fut q with
    | none => rfl
    | some x => rfl
  | cons row rows ih =>
    have hrow := hts row (by simp)
    have hb' : q.it.buf = eRow (row.map (·.2)) ++ eRows (rows.map (fun row => row.map (·.2))) := by
      simpa [eRows, eRow] using hb
    have hp : q.it.pos < q.it.numRows := by simp at hn; omega
    have hscan := scan_row q.it row _ W hf hp (by rw [hrow]; exact hm) (hw row (by simp)) (by rw [hrow]; exact hW) ha hb'
    have hstep := pscan_of_scan_row v true (List.replicate W true) fut q _ _ hscan
    have hlen : (row :: rows).length + k = (rows.length + k) + 1 := by simp; omega
    rw [hlen]
    simp only [pdrain, hstep]
    have := ih { q with it := { q.it with pos := q.it.pos + 1, buf := eRows (rows.map (fun row => row.map (·.2))) } }
      hf (by simp at hn ⊢; omega) hm (fun r hr => hts r (by simp [hr])) (fun r hr => hw r (by simp [hr])) ha rfl
    rw [this]
    have he : atEnd { q with it := { q.it with pos := q.it.pos + 1, buf := eRows (rows.map (fun row => row.map (·.2))) } } = atEnd q := rfl
    rw [he]
    cases pdrain v (List.replicate W true) k fut (atEnd q) with
    | none => rfl
    | some x => simp

theorem needFetch_atEnd (q : QIter) (hf : q.it.failed = false) : needFetch (atEnd q) = q.more := by
  simp [needFetch, atEnd, hf]

/-- at the end of a page that announces more the next Scan goes on in the iterator of the NEXT response -/
theorem pscan_switch (v : Nat) (dests : List Bool) (q : QIter) (hf : q.it.failed = false) (hm : q.more = true)
    (w : FrameRead.Bytes) (ws : List FrameRead.Bytes) (q' : QIter) (hs : step1 v true w = .iter q') :
    pscan v true dests (w :: ws) (atEnd q) = pscan v true dests ws q' := by
  simp [pscan, needFetch_atEnd q hf, hm, hs]

theorem pdrain_switch (v : Nat) (dests : List Bool) (q : QIter) (hf : q.it.failed = false) (hm : q.more = true)
    (w : FrameRead.Bytes) (ws : List FrameRead.Bytes) (q' : QIter) (hs : step1 v true w = .iter q') (k : Nat) :
    pdrain v dests (k + 1) (w :: ws) (atEnd q) = pdrain v dests (k + 1) ws q' := by
  simp only [pdrain, pscan_switch v dests q hf hm w ws q' hs]

/-- at the end of a page that does not announce more: `false`, no error, nothing written -/
theorem pdrain_last (v : Nat) (dests : List Bool) (q : QIter) (hf : q.it.failed = false) (hm : q.more = false)
    (fut : List FrameRead.Bytes) (k : Nat) :
    pdrain v dests (k + 1) fut (atEnd q) = some ([], atEnd q, fut) := by
  have hnf : needFetch (atEnd q) = false := by rw [needFetch_atEnd q hf, hm]
  have hsc : scan (atEnd q).it dests = .stop (atEnd q).it [] := scan_end _ _ (by simpa [atEnd] using hf) (by simp [atEnd])
  have hfa : (atEnd q).it.failed = false := by simpa [atEnd] using hf
  cases fut with
  | nil => simp [pdrain, pscan, hnf, scanHere, hsc, hfa]
  | cons w ws => simp [pdrain, pscan, hnf, scanHere, hsc, hfa]

/-- an ERROR response: Scan returns false at once, `iter.err` stays the server's error -/
theorem pdrain_error (v : Nat) (dests : List Bool) (r : LResp) (msg : FrameRead.Bytes) (e : ErrBody)
    (fut : List FrameRead.Bytes) (k : Nat) :
    pdrain v dests (k + 1) fut (qErr r msg e) = some ([], qErr r msg e, fut) := by
  have hnf : needFetch (qErr r msg e) = false := by simp [needFetch, qErr, failedIter]
  have hsc : scan (qErr r msg e).it dests = .stop (qErr r msg e).it [] := by simp [scan, qErr, failedIter]
  cases fut with
  | nil =>
    simp only [pdrain, pscan, hnf, scanHere, hsc]
    simp [qErr, failedIter]
  | cons w ws =>
    simp only [pdrain, pscan, hnf, scanHere, hsc]
    simp [qErr, failedIter]

theorem step1_empty (v : Nat) (ap : Bool) (r : LResp) (hw : wf v r = true)
    (hlen : (encodeBody v r).length ≤ Compress.maxFrameSize)
    (hb : r.body = .result .void ∨ (∃ ks, r.body = .result (.setKeyspace ks)) ∨ (∃ sc, r.body = .result (.schemaChange sc))) :
    step1 v ap (encodeFrame v r) = .iter (qEmpty r) := by
  simp only [step1, recv_wf v r hw hlen, view, restOf]
  rcases hb with hb | ⟨ks, hb⟩ | ⟨sc, hb⟩
  · simp only [hb, viewBody, restOfBody, dispatch]; rfl
  · simp only [hb, viewBody, restOfBody, dispatch]; rfl
  · simp only [hb, viewBody, restOfBody]
    cases sc <;> rfl

/-! ## the pages of a query -/

/-- the typed rows of a page: the helper facts of C04_cells_scan -/
def typedRowsP (ts : List TypeDesc) (rs : List (List Cell)) : List (List (TypeDesc × Cell)) := rs.map (fun row => ts.zip row)

def wfRowsP (ts : List TypeDesc) (rs : List (List Cell)) : Bool :=
  rs.all (fun row => row.length == ts.length && wfRow (ts.zip row))

theorem typedRowsP_props (ts : List TypeDesc) (rs : List (List Cell)) (hw : wfRowsP ts rs = true) :
    (∀ row ∈ typedRowsP ts rs, row.map (·.1) = ts) ∧ (∀ row ∈ typedRowsP ts rs, wfRow row = true) ∧
    (typedRowsP ts rs).map (fun row => row.map (·.2)) = rs := by
  have h : ∀ row ∈ rs, row.length = ts.length ∧ wfRow (ts.zip row) = true := by
    simpa [wfRowsP] using hw
  refine ⟨?_, ?_, ?_⟩
  · intro row hr
    obtain ⟨r0, hr0, rfl⟩ := List.mem_map.mp hr
    exact List.map_fst_zip (by rw [(h r0 hr0).1]; exact Nat.le_refl _)
  · intro row hr
    obtain ⟨r0, hr0, rfl⟩ := List.mem_map.mp hr
    exact (h r0 hr0).2
  · simp only [typedRowsP, List.map_map]
    conv => rhs; rw [← List.map_id rs]
    apply List.map_congr_left
    intro r0 hr0
    exact List.map_snd_zip (by rw [(h r0 hr0).1]; exact Nat.le_refl _)

/-- one RESULT/Rows response of a query: the response, its metadata, its rows -/
structure RowsPage where
  r : LResp
  m : Meta
  rs : List (List Cell)

/-- a well-formed page for protocol version `v` whose rows fill `W` destinations: the response is well-formed and
    fits a frame, it carries its column specifications, every row has one cell per column and every cell fits -/
def PageOk (v W : Nat) (p : RowsPage) : Prop :=
  wf v p.r = true ∧ (encodeBody v p.r).length ≤ Compress.maxFrameSize ∧ p.r.body = .result (.rows p.m p.rs) ∧
  (∀ n g, p.m.cols ≠ .omitted n g) ∧ wfRowsP (colTypes p.m.cols) p.rs = true ∧ totalWidth (colTypes p.m.cols) = W

/-- the recorder calls the rows of a page stand for, row by row -/
def pageCalls (p : RowsPage) : List (List Call) := (typedRowsP (colTypes p.m.cols) p.rs).map (rowCalls 0)

def pageQ (p : RowsPage) : QIter := qOf p.r p.m p.rs

def lastPage (p : RowsPage) : List RowsPage → RowsPage
  | [] => p
  | x :: xs => lastPage x xs

/-- every page but the last announces more pages -/
def chained (p : RowsPage) : List RowsPage → Prop
  | [] => True
  | x :: xs => p.m.paging.isSome = true ∧ chained x xs

def rowCount (ps : List RowsPage) : Nat := (ps.map (fun p => p.rs.length)).sum

theorem pdrain_page_spec (v W : Nat) (p : RowsPage) (hp : PageOk v W p) (k : Nat) (fut : List FrameRead.Bytes) :
    pdrain v (List.replicate W true) (p.rs.length + k) fut (pageQ p)
      = (match pdrain v (List.replicate W true) k fut (atEnd (pageQ p)) with
         | some (cs, q', f) => some (pageCalls p ++ cs, q', f)
         | none => none) := by
  obtain ⟨_, _, _, hcols, hwr, hW⟩ := hp
  obtain ⟨h1, h2, h3⟩ := typedRowsP_props (colTypes p.m.cols) p.rs hwr
  have := pdrain_page v (typedRowsP (colTypes p.m.cols) p.rs) (colTypes p.m.cols) (pageQ p) W k fut rfl
    (by simp [pageQ, qOf, iterOf, typedRowsP]) (by simpa [pageQ, qOf, iterOf, viewMeta] using colsMatch_view p.m.cols) h1 h2 hW
    (by simpa [pageQ, qOf, iterOf, viewMeta, hW] using actualCount_eq p.m.cols hcols)
    (by simp [pageQ, qOf, iterOf, h3])
  have hl : (typedRowsP (colTypes p.m.cols) p.rs).length = p.rs.length := by simp [typedRowsP]
  rw [hl] at this
  exact this

/-- ALL PAGES: the Scan loop over the pages `p :: rest` (each answered to the request the page before made
    necessary), followed by whatever the server answers afterwards (`tailFut`), delivers the calls of every row of
    every page in order — each page read with the metadata IT carries — and goes on at the end of the last page -/
theorem pages_drain (v W : Nat) (rest : List RowsPage) : ∀ (p : RowsPage), PageOk v W p → (∀ x ∈ rest, PageOk v W x) →
    chained p rest → ∀ (k : Nat) (tailFut : List FrameRead.Bytes),
    pdrain v (List.replicate W true) (rowCount (p :: rest) + (k + 1)) (rest.map (fun x => encodeFrame v x.r) ++ tailFut) (pageQ p)
      = (match pdrain v (List.replicate W true) (k + 1) tailFut (atEnd (pageQ (lastPage p rest))) with
         | some (cs, q', f) => some ((p :: rest).flatMap pageCalls ++ cs, q', f)
         | none => none) := by
  induction rest with
  | nil =>
    intro p hp _ _ k tailFut
    have := pdrain_page_spec v W p hp (k + 1) tailFut
    simpa [rowCount, lastPage] using this
  | cons x xs ih =>
    intro p hp hall hch k tailFut
    obtain ⟨hmore, hch'⟩ := hch
    have hx : PageOk v W x := hall x (by simp)
    have h1 := pdrain_page_spec v W p hp (rowCount (x :: xs) + (k + 1)) ((x :: xs).map (fun x => encodeFrame v x.r) ++ tailFut)
    have hcount : rowCount (p :: x :: xs) + (k + 1) = p.rs.length + (rowCount (x :: xs) + (k + 1)) := by
      simp [rowCount]; omega
    rw [hcount, h1]
    have hstep : step1 v true (encodeFrame v x.r) = .iter (pageQ x) := step1_rows v x.r x.m x.rs hx.1 hx.2.1 hx.2.2.1
    have hsw := pdrain_switch v (List.replicate W true) (pageQ p) rfl (by simpa [pageQ, qOf] using hmore)
      (encodeFrame v x.r) (xs.map (fun x => encodeFrame v x.r) ++ tailFut) (pageQ x) hstep (rowCount (x :: xs) + k)
    have hk : rowCount (x :: xs) + (k + 1) = rowCount (x :: xs) + k + 1 := by omega
    simp only [List.map_cons, List.cons_append]
    rw [hk, hsw, ← hk, ih x hx (fun y hy => hall y (by simp [hy])) hch' k tailFut]
    simp only [lastPage]
    cases pdrain v (List.replicate W true) (k + 1) tailFut (atEnd (pageQ (lastPage x xs))) with
    | none => rfl
    | some y => simp [List.flatMap_cons]

/-! ## the Scanner over the pages -/

theorem needFetch_inpage (q : QIter) (hp : q.it.pos < q.it.numRows) : needFetch q = false := by
  have : ¬ q.it.pos ≥ q.it.numRows := by omega
  simp [needFetch, this]

theorem pnext_here (v : Nat) (fut : List FrameRead.Bytes) (s : PScanner) (h : needFetch s.q = false) :
    pnext v true fut s = nextHere s fut := by
  cases fut <;> simp [pnext, h]

/-- one row of the current page through Next + Scan -/
theorem pscanner_row (v : Nat) (fut : List FrameRead.Bytes) (s : PScanner) (tcs : List (TypeDesc × Cell)) (rest : FrameRead.Bytes) (W : Nat)
    (hf : s.q.it.failed = false) (hp : s.q.it.pos < s.q.it.numRows) (hc : s.cols.length = tcs.length)
    (hm : colsMatch s.q.it.md.columns (tcs.map (·.1))) (hw : wfRow tcs = true)
    (hW : totalWidth (tcs.map (·.1)) = W) (ha : s.q.it.md.actualColCount = (W : Int))
    (hb : s.q.it.buf = eRow (tcs.map (·.2)) ++ rest) :
    let s1 : PScanner := { q := { s.q with it := { s.q.it with pos := s.q.it.pos + 1, buf := rest } },
                           cols := tcs.map (fun tc => cellData tc.2), valid := true }
    pnext v true fut s = .ok s1 fut true ∧
    ∃ s2, pscannerScan s1 (List.replicate W true) = .ok s2 (rowCalls 0 tcs) ∧ s2.cols = s1.cols ∧ s2.valid = false := by
  intro s1
  constructor
  · rw [pnext_here v fut s (needFetch_inpage s.q hp)]
    unfold nextHere Scanner.next
    have h2 : ¬ s.q.it.pos ≥ s.q.it.numRows := by omega
    simp only [hf, Bool.false_eq_true, if_false, h2, hc, hb]
    rw [readCells_ok tcs rest hw]
    simp [s1, hf]
  · refine ⟨{ it := s1.q.it, cols := s1.cols, valid := false }, ?_, rfl, rfl⟩
    unfold pscannerScan Scanner.scan
    have h3 : ¬ ((List.replicate W true).length : Int) ≠ s.q.it.md.actualColCount := by simp [ha]
    have := scannerCols_ok s.q.it.md.columns tcs [] 0 W [] hm hw (by simpa using hW)
    simp only [List.length_nil, List.nil_append] at this
    simp only [s1, Bool.not_true, Bool.false_eq_true, if_false, h3, this]

theorem pdrainS_page (v : Nat) (rows : List (List (TypeDesc × Cell))) (ts : List TypeDesc) (W k : Nat)
    (fut : List FrameRead.Bytes) : ∀ (s : PScanner),
    s.q.it.failed = false → s.q.it.pos + rows.length = s.q.it.numRows → s.cols.length = ts.length →
    colsMatch s.q.it.md.columns ts → (∀ row ∈ rows, row.map (·.1) = ts) → (∀ row ∈ rows, wfRow row = true) →
    totalWidth ts = W → s.q.it.md.actualColCount = (W : Int) →
    s.q.it.buf = eRows (rows.map (fun row => row.map (·.2))) →
    ∃ s1 : PScanner, s1.q = atEnd s.q ∧ s1.cols.length = ts.length ∧
      pdrainS v (List.replicate W true) (rows.length + k) fut s
        = (match pdrainS v (List.replicate W true) k fut s1 with
           | some (cs, s', f) => some (rows.map (rowCalls 0) ++ cs, s', f)
           | none => none) := by
  induction rows with
  | nil =>
    intro s hf hn hc _ _ _ _ _ hb
    have hp : s.q.it.pos = s.q.it.numRows := by simpa using hn
    have hb' : s.q.it.buf = [] := by simpa [eRows] using hb
    refine ⟨s, ?_, hc, ?_⟩
    · obtain ⟨⟨⟨f, p, md, n, b⟩, e, h, mo⟩, c, va⟩ := s
      simp only [atEnd] at *
      subst hp; subst hb'; rfl
    · simp only [List.length_nil, Nat.zero_add, List.map_nil, List.nil_append]
      cases pdrainS v (List.replicate W true) k fut s with
      | none => rfl
      | some x => rfl
  | cons row rows ih =>
    intro s hf hn hc hm hts hw hW ha hb
    have hrow := hts row (by simp)
    have hlen : row.length = ts.length := by rw [← hrow]; simp
    have hb' : s.q.it.buf = eRow (row.map (·.2)) ++ eRows (rows.map (fun row => row.map (·.2))) := by
      simpa [eRows, eRow] using hb
    have hp : s.q.it.pos < s.q.it.numRows := by simp at hn; omega
    obtain ⟨hnext, s2, hscan, hc2, hv2⟩ := pscanner_row v fut s row _ W hf hp (by rw [hc, hlen]) (by rw [hrow]; exact hm)
      (hw row (by simp)) (by rw [hrow]; exact hW) ha hb'
    obtain ⟨s1, hq1, hc1, hd1⟩ := ih
      { q := { s.q with it := { s.q.it with pos := s.q.it.pos + 1, buf := eRows (rows.map (fun row => row.map (·.2))) } },
        cols := row.map (fun tc => cellData tc.2), valid := false }
      hf (by simp at hn ⊢; omega) (by simp [hlen]) hm (fun r hr => hts r (by simp [hr])) (fun r hr => hw r (by simp [hr])) hW ha rfl
    refine ⟨s1, by rw [hq1]; rfl, hc1, ?_⟩
    have hl : (row :: rows).length + k = (rows.length + k) + 1 := by simp; omega
    rw [hl]
    simp only [pdrainS, hnext, hscan, hc2, hv2]
    rw [hd1]
    cases pdrainS v (List.replicate W true) k fut s1 with
    | none => rfl
    | some x => simp

theorem pdrainS_switch (v : Nat) (dests : List Bool) (s : PScanner) (hf : s.q.it.failed = false)
    (hp : s.q.it.pos ≥ s.q.it.numRows) (hm : s.q.more = true)
    (w : FrameRead.Bytes) (ws : List FrameRead.Bytes) (q' : QIter) (hs : step1 v true w = .iter q') (k : Nat) :
    pdrainS v dests (k + 1) (w :: ws) s = pdrainS v dests (k + 1) ws { s with q := q' } := by
  have hn : needFetch s.q = true := by simp [needFetch, hf, hp, hm]
  simp only [pdrainS, pnext, hn, if_true, hs]

theorem pdrainS_last (v : Nat) (dests : List Bool) (s : PScanner) (hf : s.q.it.failed = false)
    (hp : s.q.it.pos = s.q.it.numRows) (hm : s.q.more = false) (fut : List FrameRead.Bytes) (k : Nat) :
    pdrainS v dests (k + 1) fut s = some ([], s, fut) := by
  have hn : needFetch s.q = false := by simp [needFetch, hm]
  have hnx : Scanner.next { it := s.q.it, cols := s.cols, valid := s.valid } = .ok ({ it := s.q.it, cols := s.cols, valid := s.valid }, false) :=
    scanner_end _ hf hp
  simp only [pdrainS, pnext_here v fut s hn, nextHere, hnx, hf]
  simp

theorem pdrainS_error (v : Nat) (dests : List Bool) (s : PScanner) (r : LResp) (msg : FrameRead.Bytes) (e : ErrBody)
    (hq : s.q = qErr r msg e) (fut : List FrameRead.Bytes) (k : Nat) :
    pdrainS v dests (k + 1) fut s = some ([], s, fut) := by
  have hf : s.q.it.failed = true := by rw [hq]; rfl
  have hn : needFetch s.q = false := by simp [needFetch, hf]
  have hnx : Scanner.next { it := s.q.it, cols := s.cols, valid := s.valid } = .ok ({ it := s.q.it, cols := s.cols, valid := s.valid }, false) := by
    simp [Scanner.next, hf]
  have he : s.q.err.isNone = false := by rw [hq]; rfl
  simp only [pdrainS, pnext_here v fut s hn, nextHere, hnx, hf, he]
  simp

/-- a page whose rows have `C` columns (the Scanner's cell buffer is made once, from the first page) -/
def PageOkS (v W C : Nat) (p : RowsPage) : Prop := PageOk v W p ∧ (colTypes p.m.cols).length = C

theorem pdrainS_page_spec (v W C : Nat) (p : RowsPage) (hp : PageOkS v W C p) (k : Nat) (fut : List FrameRead.Bytes)
    (s : PScanner) (hq : s.q = pageQ p) (hc : s.cols.length = C) :
    ∃ s1 : PScanner, s1.q = atEnd (pageQ p) ∧ s1.cols.length = C ∧
      pdrainS v (List.replicate W true) (p.rs.length + k) fut s
        = (match pdrainS v (List.replicate W true) k fut s1 with
           | some (cs, s', f) => some (pageCalls p ++ cs, s', f)
           | none => none) := by
  obtain ⟨⟨_, _, _, hcols, hwr, hW⟩, hC⟩ := hp
  obtain ⟨h1, h2, h3⟩ := typedRowsP_props (colTypes p.m.cols) p.rs hwr
  obtain ⟨s1, hq1, hc1, hd⟩ := pdrainS_page v (typedRowsP (colTypes p.m.cols) p.rs) (colTypes p.m.cols) W k fut s
    (by rw [hq]; rfl) (by rw [hq]; simp [pageQ, qOf, iterOf, typedRowsP]) (by rw [hc, hC])
    (by rw [hq]; simpa [pageQ, qOf, iterOf, viewMeta] using colsMatch_view p.m.cols) h1 h2 hW
    (by rw [hq]; simpa [pageQ, qOf, iterOf, viewMeta, hW] using actualCount_eq p.m.cols hcols)
    (by rw [hq]; simp [pageQ, qOf, iterOf, h3])
  have hl : (typedRowsP (colTypes p.m.cols) p.rs).length = p.rs.length := by simp [typedRowsP]
  rw [hl] at hd
  exact ⟨s1, by rw [hq1, hq], by rw [hc1, hC], hd⟩

/-- ALL PAGES through the Scanner -/
theorem pagesS_drain (v W C : Nat) (rest : List RowsPage) : ∀ (p : RowsPage), PageOkS v W C p → (∀ x ∈ rest, PageOkS v W C x) →
    chained p rest → ∀ (k : Nat) (tailFut : List FrameRead.Bytes) (s : PScanner), s.q = pageQ p → s.cols.length = C →
    ∃ s1 : PScanner, s1.q = atEnd (pageQ (lastPage p rest)) ∧ s1.cols.length = C ∧
    pdrainS v (List.replicate W true) (rowCount (p :: rest) + (k + 1)) (rest.map (fun x => encodeFrame v x.r) ++ tailFut) s
      = (match pdrainS v (List.replicate W true) (k + 1) tailFut s1 with
         | some (cs, s', f) => some ((p :: rest).flatMap pageCalls ++ cs, s', f)
         | none => none) := by
  induction rest with
  | nil =>
    intro p hp _ _ k tailFut s hq hc
    obtain ⟨s1, h1, h2, h3⟩ := pdrainS_page_spec v W C p hp (k + 1) tailFut s hq hc
    exact ⟨s1, h1, h2, by simpa [rowCount, lastPage] using h3⟩
  | cons x xs ih =>
    intro p hp hall hch k tailFut s hq hc
    obtain ⟨hmore, hch'⟩ := hch
    have hx : PageOkS v W C x := hall x (by simp)
    obtain ⟨s1, hq1, hc1, h1⟩ := pdrainS_page_spec v W C p hp (rowCount (x :: xs) + (k + 1))
      ((x :: xs).map (fun x => encodeFrame v x.r) ++ tailFut) s hq hc
    have hstep : step1 v true (encodeFrame v x.r) = .iter (pageQ x) := step1_rows v x.r x.m x.rs hx.1.1 hx.1.2.1 hx.1.2.2.1
    have hsw := pdrainS_switch v (List.replicate W true) s1 (by rw [hq1]; rfl) (by rw [hq1]; simp [atEnd])
      (by rw [hq1]; simpa [atEnd, pageQ, qOf] using hmore)
      (encodeFrame v x.r) (xs.map (fun x => encodeFrame v x.r) ++ tailFut) (pageQ x) hstep (rowCount (x :: xs) + k)
    obtain ⟨s2, hq2, hc2, h2⟩ := ih x hx (fun y hy => hall y (by simp [hy])) hch' k tailFut { s1 with q := pageQ x } rfl hc1
    refine ⟨s2, by simpa [lastPage] using hq2, hc2, ?_⟩
    have hcount : rowCount (p :: x :: xs) + (k + 1) = p.rs.length + (rowCount (x :: xs) + (k + 1)) := by
      simp [rowCount]; omega
    have hk : rowCount (x :: xs) + (k + 1) = rowCount (x :: xs) + k + 1 := by omega
    rw [hcount, h1]
    simp only [List.map_cons, List.cons_append] at hsw ⊢
    rw [hk, hsw, ← hk, h2]
    cases pdrainS v (List.replicate W true) (k + 1) tailFut s2 with
    | none => rfl
    | some y => simp [List.flatMap_cons]

end C04
