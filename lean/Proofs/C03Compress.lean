/-
C03 — helper lemmas: request frames built with a compressor (framer.finish) against the
compression-aware specification decoder FrameSpec.decodeReqC.
-/
import Proofs.C03Body
namespace C03
open FrameSpec FrameWrite

/-- the header is read back by the compression-aware decoder just as by the plain one -/
theorem decodeReqC_frame (dec : Bytes → Option Bytes) (v fl : Nat) (stream : Int) (op : Nat) (out rest : Bytes)
    (hv1 : 1 ≤ v) (hv5 : v ≤ 5) (hs : StreamInRange v stream) (hfl : fl < 256) (hop : op < 256)
    (hlen : out.length < 2147483648) :
    decodeReqC dec (wHeader v fl stream op out.length ++ out ++ rest) =
      if bit fl 0 then
        if op = 0x01 ∨ op = 0x05 then none else
        match dec out with
        | none => none
        | some plain => decodeBody v (fl - 1) stream op plain rest
      else decodeBody v fl stream op out rest := by
  have hvb : v < 256 := by omega
  have hnv : ¬ (v < 1 ∨ v > 5) := by omega
  simp only [decodeReqC, wHeader, List.append_assoc, List.cons_append, List.nil_append,
    rdByte_byteOf _ _ hvb, rdByte_byteOf _ _ hfl, hnv, if_false, rdStream_w _ _ _ hs,
    rdByte_byteOf _ _ hop, rdInt_wUInt _ _ hlen]
  have hn : ¬ ((out.length : Int) < 0) := by omega
  simp only [hn, if_false]
  simp only [takeN_append, Int.toNat_natCast]
  split
  · split
    · rfl
    · cases dec out <;> rfl
  · rfl

theorem headerFlags_even (v : Nat) (tracing : Bool) (g : GReq) :
    bit (headerFlags v tracing g) 0 = false ∧ bit (headerFlags v tracing g + 1) 0 = true ∧
    headerFlags v tracing g + 1 < 256 := by
  unfold headerFlags
  cases tracing <;> by_cases h1 : (payloadOf g).length > 0 <;> by_cases h2 : v = 5 <;> simp [h1, h2, b2n] <;> decide

theorem opcode_compressible (g : GReq) (h : compressible g = true) : ¬ (opcode g = 0x01 ∨ opcode g = 0x05) := by
  cases g <;> simp [compressible] at h <;> simp [opcode]

/-- without a compressor the builder is the plain one -/
theorem encodeReqC_none (v : Nat) (tracing : Bool) (stream now : Int) (g : GReq) :
    encodeReqC none v tracing stream now g = encodeReq v tracing stream now g := by
  unfold encodeReqC encodeReq
  split
  · rfl
  unfold encodeReqC0 encodeReq0
  split
  · rfl
  · cases wBody v now g with
    | error e => rfl
    | ok body => simp only

/-- what the compressing builder produces, in terms of the plain one's parts -/
theorem encodeReqC_some (enc : Bytes → Bytes) (v : Nat) (tracing : Bool) (stream now : Int) (g : GReq) (bs : Bytes)
    (he : encodeReqC (some enc) v tracing stream now g = .ok bs) :
    ∃ full, encodeReq v tracing stream now g =
        .ok (wHeader v (headerFlags v tracing g) stream (opcode g) full.length ++ full) ∧
      (if v > 2 then 9 else 8) + full.length ≤ maxFrameSize ∧
      bs = if compressible g then
             wHeader v (headerFlags v tracing g + 1) stream (opcode g) (enc full).length ++ enc full
           else wHeader v (headerFlags v tracing g) stream (opcode g) full.length ++ full := by
  have htm : tooManyG g = false := by
    unfold encodeReqC at he
    cases h : tooManyG g
    · rfl
    · simp [h] at he
  have he : encodeReqC0 (some enc) v tracing stream now g = .ok bs := by
    unfold encodeReqC at he; simpa [htm] using he
  rw [encodeReq_eq0 v tracing stream now g htm]
  unfold encodeReqC0 at he
  unfold encodeReq0
  by_cases hnp : (payloadOf g).length > 0 ∧ v < 4
  · simp [hnp] at he
  · simp only [hnp, if_false] at he ⊢
    cases hb : wBody v now g with
    | error e => simp [hb] at he
    | ok body =>
      simp only [hb] at he ⊢
      by_cases hsz : (if v > 2 then 9 else 8) + (wPayload (payloadOf g) ++ body).length > maxFrameSize
      · rw [if_pos hsz] at he; cases he
      · rw [if_neg hsz] at he ⊢
        refine ⟨_, rfl, by omega, ?_⟩
        by_cases hc : compressible g = true
        · simp only [hc, if_true] at he ⊢; injection he with he; exact he.symm
        · simp only [hc] at he ⊢; injection he with he; exact he.symm

theorem wHeader_shape (v fl : Nat) (stream : Int) (op len : Nat) (x : Bytes) :
    ∃ r, wHeader v fl stream op len ++ x = byteOf v :: byteOf fl :: r := ⟨_, rfl⟩

theorem encodeReq_shape (v : Nat) (tracing : Bool) (stream now : Int) (g : GReq) (bs : Bytes)
    (he : encodeReq v tracing stream now g = .ok bs) :
    ∃ full, bs = wHeader v (headerFlags v tracing g) stream (opcode g) full.length ++ full := by
  have he := (encodeReq_ok he).2
  unfold encodeReq0 at he
  by_cases hnp : (payloadOf g).length > 0 ∧ v < 4
  · simp [hnp] at he
  · simp only [hnp, if_false] at he
    cases hb : wBody v now g with
    | error e => simp [hb] at he
    | ok body =>
      simp only [hb] at he
      by_cases hsz : (if v > 2 then 9 else 8) + (wPayload (payloadOf g) ++ body).length > maxFrameSize
      · rw [if_pos hsz] at he; cases he
      · rw [if_neg hsz] at he
        injection he with he
        exact ⟨_, he.symm⟩

end C03
