import Model.Streams
import Proofs.C08Bits
/-! C08: the inductive invariant of the concurrent machine and its preservation by every action -/
namespace C08
open Streams

/-- the id a thread is responsible for although it is not in `held`:
    `g7` = bit acquired by a successful CAS, `GetStream` has not returned yet;
    `c8/c9/c10` = `Clear(id)` called by the holder, bit not yet cleared -/
def owns : PC → Option Nat
  | .g7 id => some id
  | .c8 id => some id
  | .c9 id _ => some id
  | .c10 id => some id
  | _ => none

/-- inside `Clear`, `inuseStreams` not yet decremented -/
def inClear : PC → Bool
  | .c8 _ => true
  | .c9 _ _ => true
  | .c10 _ => true
  | .c11 _ => true
  | _ => false

/-- thread-local fact: the bit the thread is about to CAS to one is zero in the value it compares with -/
def localOk : PC → Prop
  | .g5 _ _ j b => b.getLsbD (streamOffset j) = false ∧ j < 64
  | _ => True

def isOwner (pc : PC) : Bool := (owns pc).isSome

structure Inv (s : State) : Prop where
  npos : 0 < s.sh.words.length
  reserved : bitAt s.sh.words 0 = true
  heldNodup : s.held.Nodup
  heldOk : ∀ id : Nat, id ∈ s.held → 1 ≤ id ∧ id < 64 * s.sh.words.length ∧ bitAt s.sh.words id = true
  ownOk : ∀ (t : Nat) (pc : PC) (id : Nat), s.threads[t]? = some pc → owns pc = some id →
    1 ≤ id ∧ id < 64 * s.sh.words.length ∧ bitAt s.sh.words id = true ∧ id ∉ s.held
  ownInj : ∀ (t t' : Nat) (pc pc' : PC) (id : Nat), s.threads[t]? = some pc → s.threads[t']? = some pc' →
    owns pc = some id → owns pc' = some id → t = t'
  locals : ∀ (t : Nat) (pc : PC), s.threads[t]? = some pc → localOk pc
  count : countBelow (bitAt s.sh.words) (64 * s.sh.words.length)
            = 1 + s.held.length + s.threads.countP isOwner
  inuse : s.sh.inuse = (s.held.length : Int) + (s.threads.countP inClear : Nat)

/-! ### initial state -/

theorem bitAt_init (n : Nat) (hn : 0 < n) (id : Nat) : bitAt (init n).words id = decide (id = 0) := by
  have h : (init n).words = setBit (List.replicate n 0#64) 0 := by
    simp [init, setBit, List.getD_eq_getElem?_getD, hn]
  rw [h, bitAt_setBit _ _ _ (by simpa using hn)]
  simp [bitAt, List.getD_eq_getElem?_getD, List.getElem?_replicate]
  split <;> simp

theorem length_init (n : Nat) : (init n).words.length = n := by simp [init]

theorem countBelow_single (k : Nat) : countBelow (fun id => decide (id = 0)) k = if 0 < k then 1 else 0 := by
  induction k with
  | zero => rfl
  | succ k ih =>
    simp only [countBelow, ih]
    cases k <;> simp

theorem inv_init (n k : Nat) (hn : 0 < n) : Inv (initState n k) := by
  refine ⟨?_, ?_, ?_, ?_, ?_, ?_, ?_, ?_, ?_⟩
  · simpa [initState, length_init] using hn
  · simp [initState, bitAt_init n hn]
  · simp [initState]
  · simp [initState]
  · intro t pc id ht ho
    simp [initState, List.getElem?_replicate] at ht
    obtain ⟨_, rfl⟩ := ht
    simp [owns] at ho
  · intro t t' pc pc' id ht _ ho _
    simp [initState, List.getElem?_replicate] at ht
    obtain ⟨_, rfl⟩ := ht
    simp [owns] at ho
  · intro t pc ht
    simp [initState, List.getElem?_replicate] at ht
    obtain ⟨_, rfl⟩ := ht
    trivial
  · have h1 : (bitAt (init n).words) = (fun id => decide (id = 0)) := funext (bitAt_init n hn)
    simp only [initState, h1, length_init, countBelow_single]
    have : 0 < 64 * n := by omega
    simp [this, List.countP_replicate, isOwner, owns]
  · simp [initState, init, List.countP_replicate, inClear]

/-! ### transitions that touch neither the bitset nor the counter nor the ownership -/

theorem inv_local {s : State} (hI : Inv s) {t : Nat} {pc pc' : PC} (ht : s.threads[t]? = some pc)
    (sh' : Shared) (hw : sh'.words = s.sh.words) (hu : sh'.inuse = s.sh.inuse)
    (ho : owns pc' = owns pc) (hc : inClear pc' = inClear pc) (hl : localOk pc') :
    Inv { sh := sh', threads := s.threads.set t pc', held := s.held } := by
  refine ⟨?_, ?_, ?_, ?_, ?_, ?_, ?_, ?_, ?_⟩
  · simpa [hw] using hI.npos
  · simpa [hw] using hI.reserved
  · exact hI.heldNodup
  · simpa [hw] using hI.heldOk
  · intro u pcu id hu' hou
    simp only [hw]
    simp only [get_set ht] at hu'
    split at hu'
    · cases hu'; rename_i h; subst h
      exact hI.ownOk t pc id ht (by rw [← ho]; exact hou)
    · exact hI.ownOk u pcu id hu' hou
  · intro u u' pcu pcu' id hu1 hu2 ho1 ho2
    simp only [get_set ht] at hu1 hu2
    split at hu1 <;> split at hu2
    · omega
    · cases hu1; rename_i h _; subst h
      exact hI.ownInj t u' pc pcu' id ht hu2 (by rw [← ho]; exact ho1) ho2
    · cases hu2; rename_i _ h; subst h
      exact hI.ownInj u t pcu pc id hu1 ht ho1 (by rw [← ho]; exact ho2)
    · exact hI.ownInj u u' pcu pcu' id hu1 hu2 ho1 ho2
  · intro u pcu hu'
    simp only [get_set ht] at hu'
    split at hu'
    · cases hu'; exact hl
    · exact hI.locals u pcu hu'
  · have h := countP_set isOwner s.threads t pc' pc ht
    have h2 : isOwner pc' = isOwner pc := by simp [isOwner, ho]
    have h3 := hI.count
    simp only [hw]
    rw [h2] at h
    omega
  · have h := countP_set inClear s.threads t pc' pc ht
    have h3 := hI.inuse
    simp only [hu]
    rw [hc] at h
    omega

/-! ### the four transitions that change the bitset / counter, and the ghost step at a `Clear` call -/

/-- successful CAS of `GetStream` on a word -/
theorem inv_acquire {s : State} (hI : Inv s) {t off i j : Nat} {b : Word}
    (ht : s.threads[t]? = some (.g5 off i j b))
    (hb : s.sh.words.getD ((i + off) % s.sh.words.length) 0 = b) :
    Inv { sh := { s.sh with words := s.sh.words.set ((i + off) % s.sh.words.length) (b ||| mask j) },
          threads := s.threads.set t (.g7 (streamFromBucket ((i + off) % s.sh.words.length) j)),
          held := s.held } := by
  have hn := hI.npos
  obtain ⟨hbit, hj⟩ := hI.locals t _ ht
  have hpos : (i + off) % s.sh.words.length < s.sh.words.length := Nat.mod_lt _ hn
  generalize (i + off) % s.sh.words.length = pos at *
  have hid1 : streamFromBucket pos j / 64 = pos := by unfold streamFromBucket; omega
  have hso : streamOffset (streamFromBucket pos j) = streamOffset j := by
    unfold streamOffset streamFromBucket; omega
  have hmask : mask (streamFromBucket pos j) = mask j := by unfold mask; rw [hso]
  have hset : s.sh.words.set pos (b ||| mask j) = setBit s.sh.words (streamFromBucket pos j) := by
    unfold setBit; rw [hid1, hmask, hb]
  have hfree : bitAt s.sh.words (streamFromBucket pos j) = false := by
    unfold bitAt; rw [hid1, hso, hb]; exact hbit
  have hlt : streamFromBucket pos j < 64 * s.sh.words.length := by unfold streamFromBucket; omega
  generalize streamFromBucket pos j = id at *
  have hbits : ∀ x, bitAt (setBit s.sh.words id) x = (decide (x = id) || bitAt s.sh.words x) :=
    fun x => bitAt_setBit _ _ _ (by omega)
  rw [hset]
  refine ⟨?_, ?_, ?_, ?_, ?_, ?_, ?_, ?_, ?_⟩
  · simpa [length_setBit] using hn
  · simp [hbits, hI.reserved]
  · exact hI.heldNodup
  · intro x hx
    have := hI.heldOk x hx
    simp [hbits, length_setBit, this]
  · intro u pcu x hu hou
    simp only [get_set ht] at hu
    simp only [length_setBit, hbits]
    split at hu
    · cases hu; simp [owns] at hou; subst hou
      refine ⟨?_, hlt, by simp, ?_⟩
      · rcases Nat.eq_zero_or_pos id with h0 | h0
        · rw [h0] at hfree; rw [hI.reserved] at hfree; cases hfree
        · exact h0
      · intro hm; have := (hI.heldOk id hm).2.2; rw [this] at hfree; cases hfree
    · have := hI.ownOk u pcu x hu hou
      simp [this]
  · intro u u' pcu pcu' x hu1 hu2 ho1 ho2
    simp only [get_set ht] at hu1 hu2
    split at hu1 <;> split at hu2
    · omega
    · cases hu1; simp [owns] at ho1; subst ho1
      have := (hI.ownOk u' pcu' id hu2 ho2).2.2.1; rw [this] at hfree; cases hfree
    · cases hu2; simp [owns] at ho2; subst ho2
      have := (hI.ownOk u pcu id hu1 ho1).2.2.1; rw [this] at hfree; cases hfree
    · exact hI.ownInj u u' pcu pcu' x hu1 hu2 ho1 ho2
  · intro u pcu hu
    simp only [get_set ht] at hu
    split at hu
    · cases hu; trivial
    · exact hI.locals u pcu hu
  · have h := countP_set isOwner s.threads t (.g7 id) _ ht
    have h3 := hI.count
    have h4 := countBelow_set (p := bitAt s.sh.words) (q := bitAt (setBit s.sh.words id)) id hbits hfree
      (64 * s.sh.words.length)
    simp only [length_setBit]
    simp [isOwner, owns] at h
    simp [hlt] at h4
    omega
  · have h := countP_set inClear s.threads t (.g7 id) _ ht
    have h3 := hI.inuse
    simp [inClear] at h
    simp only []
    omega

/-- `AddInt32(&inuse, 1)` and return of `GetStream` -/
theorem inv_return {s : State} (hI : Inv s) {t id : Nat} (ht : s.threads[t]? = some (.g7 id)) :
    Inv { sh := { s.sh with inuse := s.sh.inuse + 1 }, threads := s.threads.set t .idle,
          held := id :: s.held } := by
  obtain ⟨h1, h2, h3, h4⟩ := hI.ownOk t _ id ht rfl
  refine ⟨hI.npos, hI.reserved, ?_, ?_, ?_, ?_, ?_, ?_, ?_⟩
  · exact List.nodup_cons.mpr ⟨h4, hI.heldNodup⟩
  · intro x hx
    rcases List.mem_cons.mp hx with rfl | hx
    · exact ⟨h1, h2, h3⟩
    · exact hI.heldOk x hx
  · intro u pcu x hu hou
    simp only [get_set ht] at hu
    split at hu
    · cases hu; simp [owns] at hou
    · rename_i hne
      obtain ⟨a1, a2, a3, a4⟩ := hI.ownOk u pcu x hu hou
      refine ⟨a1, a2, a3, ?_⟩
      intro hm
      rcases List.mem_cons.mp hm with rfl | hm
      · exact hne (hI.ownInj t u _ pcu x ht hu rfl hou)
      · exact a4 hm
  · intro u u' pcu pcu' x hu1 hu2 ho1 ho2
    simp only [get_set ht] at hu1 hu2
    split at hu1 <;> split at hu2
    · omega
    · cases hu1; simp [owns] at ho1
    · cases hu2; simp [owns] at ho2
    · exact hI.ownInj u u' pcu pcu' x hu1 hu2 ho1 ho2
  · intro u pcu hu
    simp only [get_set ht] at hu
    split at hu
    · cases hu; trivial
    · exact hI.locals u pcu hu
  · have h := countP_set isOwner s.threads t .idle _ ht
    have := hI.count
    simp [isOwner, owns] at h
    simp only [List.length_cons]
    omega
  · have h := countP_set inClear s.threads t .idle _ ht
    have := hI.inuse
    simp [inClear] at h
    simp only [List.length_cons]
    omega

/-- successful CAS of `Clear` -/
theorem inv_release {s : State} (hI : Inv s) {t id : Nat} {b : Word}
    (ht : s.threads[t]? = some (.c9 id b)) (hb : s.sh.words.getD (bucketOffset id) 0 = b) :
    Inv { sh := { s.sh with words := s.sh.words.set (bucketOffset id) (b &&& ~~~ mask id) },
          threads := s.threads.set t (.c11 id), held := s.held } := by
  obtain ⟨h1, h2, h3, h4⟩ := hI.ownOk t _ id ht rfl
  have hset : s.sh.words.set (bucketOffset id) (b &&& ~~~ mask id) = clrBit s.sh.words id := by
    unfold clrBit bucketOffset; rw [← hb]; rfl
  have hbits : ∀ x, bitAt (clrBit s.sh.words id) x = (!decide (x = id) && bitAt s.sh.words x) :=
    fun x => bitAt_clrBit _ _ _ (by omega)
  rw [hset]
  refine ⟨?_, ?_, ?_, ?_, ?_, ?_, ?_, ?_, ?_⟩
  · simpa [length_clrBit] using hI.npos
  · have : (0 : Nat) ≠ id := by omega
    simp [hbits, hI.reserved, this]
  · exact hI.heldNodup
  · intro x hx
    have := hI.heldOk x hx
    have hne : x ≠ id := by intro h; subst h; exact h4 hx
    simp [hbits, length_clrBit, this, hne]
  · intro u pcu x hu hou
    simp only [get_set ht] at hu
    simp only [length_clrBit, hbits]
    split at hu
    · cases hu; simp [owns] at hou
    · rename_i hne
      have := hI.ownOk u pcu x hu hou
      have hx : x ≠ id := by
        intro h; subst h
        exact hne (hI.ownInj t u _ pcu x ht hu rfl hou)
      simp [this, hx]
  · intro u u' pcu pcu' x hu1 hu2 ho1 ho2
    simp only [get_set ht] at hu1 hu2
    split at hu1 <;> split at hu2
    · omega
    · cases hu1; simp [owns] at ho1
    · cases hu2; simp [owns] at ho2
    · exact hI.ownInj u u' pcu pcu' x hu1 hu2 ho1 ho2
  · intro u pcu hu
    simp only [get_set ht] at hu
    split at hu
    · cases hu; trivial
    · exact hI.locals u pcu hu
  · have h := countP_set isOwner s.threads t (.c11 id) _ ht
    have := hI.count
    have h5 := countBelow_clr (p := bitAt s.sh.words) (q := bitAt (clrBit s.sh.words id)) id hbits h3
      (64 * s.sh.words.length)
    simp [isOwner, owns] at h
    simp only [length_clrBit]
    simp [h2] at h5
    omega
  · have h := countP_set inClear s.threads t (.c11 id) _ ht
    have := hI.inuse
    simp [inClear] at h
    simp only []
    omega

/-- `AddInt32(&inuse, -1)` of `Clear`: the result is not negative -/
theorem inv_decrement {s : State} (hI : Inv s) {t x : Nat} (ht : s.threads[t]? = some (.c11 x)) :
    Inv { sh := { s.sh with inuse := s.sh.inuse - 1 }, threads := s.threads.set t .idle, held := s.held }
    ∧ ¬ (s.sh.inuse - 1 < 0) := by
  have hc := countP_set inClear s.threads t .idle _ ht
  have hi := hI.inuse
  simp [inClear] at hc
  refine ⟨⟨hI.npos, hI.reserved, hI.heldNodup, hI.heldOk, ?_, ?_, ?_, ?_, ?_⟩, by omega⟩
  · intro u pcu x hu hou
    simp only [get_set ht] at hu
    split at hu
    · cases hu; simp [owns] at hou
    · exact hI.ownOk u pcu x hu hou
  · intro u u' pcu pcu' x hu1 hu2 ho1 ho2
    simp only [get_set ht] at hu1 hu2
    split at hu1 <;> split at hu2
    · omega
    · cases hu1; simp [owns] at ho1
    · cases hu2; simp [owns] at ho2
    · exact hI.ownInj u u' pcu pcu' x hu1 hu2 ho1 ho2
  · intro u pcu hu
    simp only [get_set ht] at hu
    split at hu
    · cases hu; trivial
    · exact hI.locals u pcu hu
  · have h := countP_set isOwner s.threads t .idle _ ht
    have := hI.count
    simp [isOwner, owns] at h
    dsimp only
    omega
  · dsimp only
    omega

/-- ghost step: the holder of `id` calls `Clear(id)` and thereby gives the id up -/
theorem inv_call_clear {s : State} (hI : Inv s) {t id : Nat} (ht : s.threads[t]? = some .idle)
    (hheld : id ∈ s.held) :
    Inv { sh := s.sh, threads := s.threads.set t (.c8 id), held := s.held.erase id } := by
  obtain ⟨h1, h2, h3⟩ := hI.heldOk id hheld
  have hnd := hI.heldNodup
  have hmem : ∀ x, x ∈ s.held.erase id ↔ x ≠ id ∧ x ∈ s.held := fun x => hnd.mem_erase_iff
  refine ⟨hI.npos, hI.reserved, hnd.erase id, ?_, ?_, ?_, ?_, ?_, ?_⟩
  · intro x hx
    exact hI.heldOk x ((hmem x).mp hx).2
  · intro u pcu x hu hou
    simp only [get_set ht] at hu
    split at hu
    · cases hu; simp [owns] at hou; subst hou
      exact ⟨h1, h2, h3, fun hm => ((hmem id).mp hm).1 rfl⟩
    · obtain ⟨a1, a2, a3, a4⟩ := hI.ownOk u pcu x hu hou
      exact ⟨a1, a2, a3, fun hm => a4 ((hmem x).mp hm).2⟩
  · intro u u' pcu pcu' x hu1 hu2 ho1 ho2
    simp only [get_set ht] at hu1 hu2
    split at hu1 <;> split at hu2
    · omega
    · cases hu1; simp [owns] at ho1; subst ho1
      exact absurd hheld (hI.ownOk u' pcu' id hu2 ho2).2.2.2
    · cases hu2; simp [owns] at ho2; subst ho2
      exact absurd hheld (hI.ownOk u pcu id hu1 ho1).2.2.2
    · exact hI.ownInj u u' pcu pcu' x hu1 hu2 ho1 ho2
  · intro u pcu hu
    simp only [get_set ht] at hu
    split at hu
    · cases hu; trivial
    · exact hI.locals u pcu hu
  · have h := countP_set isOwner s.threads t (.c8 id) _ ht
    have := hI.count
    have hl := List.length_erase_of_mem hheld
    have hpos : 0 < s.held.length := List.length_pos_of_mem hheld
    simp [isOwner, owns] at h
    dsimp only
    rw [hl]
    omega
  · have h := countP_set inClear s.threads t (.c8 id) _ ht
    have := hI.inuse
    have hl := List.length_erase_of_mem hheld
    have hpos : 0 < s.held.length := List.length_pos_of_mem hheld
    simp [inClear] at h
    dsimp only
    rw [hl]
    omega

end C08
