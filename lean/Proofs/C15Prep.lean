import Model.PagingPrep
import Proofs.C15Paging
/-! helper lemmas for the failing-PREPARE model of C15 (`Model/PagingPrep.lean`) -/
namespace Paging.Prep
open Paging

/-- rows and error: a failed PREPARE is a failed fetch, for EVERY script -/
theorem runP_rows_err (pp : Nat → Nat) : ∀ (script : List PReply) (c : Bool) (q : Qry), q.disableAutoPage = false →
    (runP pp script c q).rows = Paging.Spec.rows (script.map toBase) ∧
    (runP pp script c q).err = Paging.Spec.err (script.map toBase) := by
  intro script
  induction script with
  | nil => intro c q _; simp [runP, Paging.Spec.rows, Paging.Spec.err]
  | cons r rest ih =>
    intro c q hq
    cases r with
    | prepFail f => simp [runP, toBase, Paging.Spec.rows, Paging.Spec.err]
    | base b =>
      cases b with
      | unprepared => simpa [runP, toBase, Paging.Spec.rows, Paging.Spec.err] using ih false q hq
      | fail f => simp [runP, toBase, Paging.Spec.rows, Paging.Spec.err]
      | page rows st =>
        cases st with
        | none => simp [runP, pageIter, toBase, Paging.Spec.rows, Paging.Spec.err]
        | some s =>
          have h := ih true { q with pageState := s } hq
          rw [hq] at h
          simp [runP, pageIter, hq, toBase, Paging.Spec.rows, Paging.Spec.err, h.1, h.2]

def NoEmptyStateP (script : List PReply) : Prop := NoEmptyState (script.map toBase)

theorem runP_reqs (pp : Nat → Nat) : ∀ (script : List PReply) (c : Bool) (q : Qry), q.disableAutoPage = false →
    NoEmptyStateP script →
    (runP pp script c q).reqs = Spec.reqs (template q) q.prepared script (!c) (firstState q) := by
  intro script
  induction script with
  | nil => intro c q _ _; simp [runP, Spec.reqs, prep_eq, request_eq]
  | cons r rest ih =>
    intro c q hq hne
    cases r with
    | prepFail f => simp [runP, Spec.reqs, prep_eq]
    | base b =>
      cases b with
      | unprepared =>
        have h := ih false q hq (by simpa [NoEmptyStateP, NoEmptyState, toBase] using hne)
        simp [runP, Spec.reqs, prep_eq, request_eq, h]
      | fail f => simp [runP, Spec.reqs, prep_eq, request_eq]
      | page rows st =>
        cases st with
        | none => simp [runP, pageIter, Spec.reqs, prep_eq, request_eq]
        | some s =>
          have hs : s ≠ [] ∧ NoEmptyStateP rest := by simpa [NoEmptyStateP, NoEmptyState, toBase] using hne
          have h := ih true { q with pageState := s } hq hs.2
          rw [template_next, firstState_next q s hs.1] at h
          simp only [Bool.not_true] at h
          rw [hq] at h
          simp [runP, pageIter, hq, Spec.reqs, prep_eq, request_eq, h]

/-- without a failing PREPARE the model is the base model -/
theorem runP_base (pp : Nat → Nat) : ∀ (script : List Reply) (c : Bool) (q : Qry),
    runP pp (script.map PReply.base) c q = run pp script c q := by
  intro script
  induction script with
  | nil => intro c q; rfl
  | cons r rest ih =>
    intro c q
    cases r with
    | unprepared => simp [runP, run, ih]
    | fail f => simp [runP, run, errIter]
    | page rows st =>
      have hpos : (pageIter pp q rows st).rows.drop (pageIter pp q rows st).pos = (pageIter pp q rows st).rows := by
        simp [pageIter]
      simp only [List.map, runP, run, hpos]
      cases (pageIter pp q rows st).next with
      | none => simp
      | some n => simp [ih]

end Paging.Prep
