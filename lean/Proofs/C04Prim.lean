/- C04 helper lemmas: every primitive writer of the specification is inverted by the model's reader -/
import Model.FrameRead
import Model.RespSpec
namespace C04
open FrameRead RespSpec

/-! ## the reader monad -/

theorem bind_apply {α β : Type} (p : P α) (f : α → P β) (buf : FrameRead.Bytes) :
    (p >>= f) buf = match p buf with
      | .ok (a, buf') => f a buf'
      | .err => .err
      | .crash => .crash := rfl

theorem bind_ok {α β : Type} {p : P α} {f : α → P β} {buf buf' : FrameRead.Bytes} {a : α}
    (h : p buf = .ok (a, buf')) : (p >>= f) buf = f a buf' := by
  rw [bind_apply, h]

theorem bind_bind_ok {α β γ : Type} {p : P α} {f : α → P β} {g : β → P γ} {buf buf' : FrameRead.Bytes} {a : α}
    (h : p buf = .ok (a, buf')) : ((p >>= f) >>= g) buf = (f a >>= g) buf' := by
  rw [bind_apply, bind_ok h, ← bind_apply]

theorem pure_apply {α : Type} (a : α) (buf : FrameRead.Bytes) : (pure a : P α) buf = .ok (a, buf) := rfl

theorem map_ok {α β : Type} {p : P α} {g : α → β} {buf buf' : FrameRead.Bytes} {a : α}
    (h : p buf = .ok (a, buf')) : (do let x ← p; pure (g x) : P β) buf = .ok (g a, buf') := by
  rw [bind_ok h]; rfl

/-! ## bytes -/

theorem toNat_ofNat8 (n : Nat) : (UInt8.ofNat n).toNat = n % 256 := by simp

theorem slice_append (g : Nat) (x r : FrameRead.Bytes) (hg : g ≤ x.length) :
    slice g x.length (x ++ r) = .ok (x, r) := by
  unfold slice
  have h1 : ¬ (x ++ r).length < g := by simp; omega
  have h2 : ¬ (x ++ r).length < x.length := by simp
  rw [if_neg h1, if_neg h2]
  simp

theorem slice_append' (g n : Nat) (x r : FrameRead.Bytes) (hn : x.length = n) (hg : g ≤ n) :
    slice g n (x ++ r) = .ok (x, r) := by
  subst hn; exact slice_append g x r hg

theorem needBytes_ok (need : Nat) (buf : FrameRead.Bytes) (h : need ≤ buf.length) :
    needBytes need buf = .ok ((), buf) := by
  unfold needBytes
  rw [if_neg (by omega)]

theorem readShort_eShort (n : Nat) (r : FrameRead.Bytes) (h : n < 65536) :
    readShort (eShort n ++ r) = .ok (n, r) := by
  unfold readShort
  rw [bind_ok (slice_append' 2 2 (eShort n) r rfl (by omega))]
  simp [pure_apply, eShort, beNat]; omega

theorem readByte_eByte (n : Nat) (r : FrameRead.Bytes) :
    readByte (eByte n ++ r) = .ok (UInt8.ofNat n, r) := by
  unfold readByte
  rw [bind_ok (slice_append' 1 1 (eByte n) r rfl (by omega))]
  simp [pure_apply, eByte]

theorem readInt_eInt (z : Int) (r : FrameRead.Bytes) (h : isInt32 z = true) :
    readInt (eInt z ++ r) = .ok (z, r) := by
  unfold readInt
  rw [bind_ok (slice_append' 4 4 (eInt z) r rfl (by omega))]
  simp only [isInt32, Bool.and_eq_true, decide_eq_true_eq] at h
  simp [pure_apply, eInt, eUInt, beNat, int32Of]
  omega

theorem readInt_eInt_nat (n : Nat) (r : FrameRead.Bytes) (h : n < 2147483648) :
    readInt (eInt n ++ r) = .ok ((n : Int), r) :=
  readInt_eInt _ _ (by simp [isInt32]; omega)

theorem readString_eString (s r : FrameRead.Bytes) (h : fitsShort s = true) :
    readString (eString s ++ r) = .ok (s, r) := by
  have hs : s.length < 65536 := by simpa [fitsShort] using h
  unfold readString eString
  rw [List.append_assoc, bind_ok (readShort_eShort _ _ hs)]
  exact slice_append _ _ _ (Nat.le_refl _)

theorem readShortBytes_eString (s r : FrameRead.Bytes) (h : fitsShort s = true) :
    readShortBytes (eString s ++ r) = .ok (s, r) := readString_eString s r h

theorem readBytes_eBytes (ob : Option FrameRead.Bytes) (r : FrameRead.Bytes) (h : optFitsInt ob = true) :
    readBytes (eBytes ob ++ r) = .ok (ob, r) := by
  unfold readBytes
  cases ob with
  | none =>
    rw [eBytes, bind_ok (readInt_eInt (-1) r (by decide))]
    simp [pure_apply]
  | some b =>
    have hb : b.length < 2147483648 := by simpa [optFitsInt, fitsInt] using h
    rw [eBytes, List.append_assoc, bind_ok (readInt_eInt_nat _ _ hb)]
    have : ¬ ((b.length : Int) < 0) := by omega
    simp only [this, if_false, Int.toNat_natCast]
    rw [bind_ok (slice_append _ _ _ (Nat.le_refl _))]
    rfl

theorem readUUID_ok (u r : FrameRead.Bytes) (h : u.length = 16) : readUUID (u ++ r) = .ok (u, r) :=
  slice_append' 16 16 u r h (Nat.le_refl _)

/-- n items written one after the other are read back one after the other -/
theorem readN_flatMap {α β : Type} (rd : P β) (enc : α → FrameRead.Bytes) (f : α → β)
    (xs : List α) (r : FrameRead.Bytes) (h : ∀ x ∈ xs, ∀ r, rd (enc x ++ r) = .ok (f x, r)) :
    readN rd xs.length (xs.flatMap enc ++ r) = .ok (xs.map f, r) := by
  induction xs with
  | nil => simp [readN, pure_apply]
  | cons x xs ih =>
    have hx := h x (by simp)
    have ih' := ih (fun y hy => h y (by simp [hy]))
    simp only [List.length_cons, List.flatMap_cons, List.append_assoc, readN]
    rw [bind_ok (hx _), bind_ok ih']
    rfl

theorem readN_flatMap_id {α : Type} (rd : P α) (enc : α → FrameRead.Bytes)
    (xs : List α) (r : FrameRead.Bytes) (h : ∀ x ∈ xs, ∀ r, rd (enc x ++ r) = .ok (x, r)) :
    readN rd xs.length (xs.flatMap enc ++ r) = .ok (xs, r) := by
  have := readN_flatMap rd enc id xs r h
  simpa using this

theorem readStringList_eStringList (l : List FrameRead.Bytes) (r : FrameRead.Bytes)
    (hn : isShort l.length = true) (h : l.all fitsShort = true) :
    readStringList (eStringList l ++ r) = .ok (l, r) := by
  have hn' : l.length < 65536 := by simpa [isShort] using hn
  unfold readStringList eStringList
  rw [List.append_assoc, bind_ok (readShort_eShort _ _ hn')]
  exact readN_flatMap_id readString eString l r
    (fun x hx r => readString_eString x r (List.all_eq_true.mp h x hx))

/-! ## Go maps: inserting pairs with distinct keys keeps them all, in order -/

theorem mapInsert_fresh {κ β : Type} [BEq κ] [LawfulBEq κ] (m : List (κ × β)) (k : κ) (v : β)
    (h : k ∉ m.map (·.1)) : mapInsert m k v = m ++ [(k, v)] := by
  unfold mapInsert
  have : m.any (fun kv => kv.1 == k) = false := by
    rw [List.any_eq_false]
    intro kv hkv heq
    have : kv.1 = k := by simpa using heq
    exact h (by rw [← this]; exact List.mem_map_of_mem hkv)
  simp [this]

theorem foldl_mapInsert {κ β : Type} [BEq κ] [LawfulBEq κ] (l acc : List (κ × β))
    (h : ((acc ++ l).map (·.1)).Nodup) :
    l.foldl (fun m kv => mapInsert m kv.1 kv.2) acc = acc ++ l := by
  induction l generalizing acc with
  | nil => simp
  | cons kv l ih =>
    have hfresh : kv.1 ∉ acc.map (·.1) := by
      intro hmem
      simp only [List.map_append, List.map_cons] at h
      have := (List.nodup_append.mp h).2.2 _ hmem kv.1 (by simp)
      exact this rfl
    simp only [List.foldl_cons]
    rw [mapInsert_fresh acc kv.1 kv.2 hfresh]
    have : acc ++ [(kv.1, kv.2)] ++ l = acc ++ kv :: l := by simp
    rw [ih (acc ++ [(kv.1, kv.2)]) (by rw [this]; exact h), this]

theorem mapOfList_nodup {κ β : Type} [BEq κ] [LawfulBEq κ] (l : List (κ × β))
    (h : (l.map (·.1)).Nodup) : mapOfList l = l := by
  unfold mapOfList
  have := foldl_mapInsert l [] (by simpa using h)
  simpa using this

theorem readBytesMap_eBytesMap (m : List (FrameRead.Bytes × Option FrameRead.Bytes)) (r : FrameRead.Bytes)
    (hn : isShort m.length = true)
    (h : m.all (fun kv => fitsShort kv.1 && optFitsInt kv.2) = true)
    (hd : (m.map (·.1)).Nodup) :
    readBytesMap (eBytesMap m ++ r) = .ok (m, r) := by
  have hn' : m.length < 65536 := by simpa [isShort] using hn
  unfold readBytesMap eBytesMap
  rw [List.append_assoc, bind_ok (readShort_eShort _ _ hn')]
  rw [bind_ok (readN_flatMap_id _ (fun kv : FrameRead.Bytes × Option FrameRead.Bytes => eString kv.1 ++ eBytes kv.2) m r
    (fun x hx r => by
      have hx' := List.all_eq_true.mp h x hx
      simp only [Bool.and_eq_true] at hx'
      rw [List.append_assoc, bind_ok (readString_eString _ _ hx'.1), bind_ok (readBytes_eBytes _ _ hx'.2)]
      rfl))]
  rw [pure_apply, mapOfList_nodup m hd]

theorem readStringMultiMap_e (m : List (FrameRead.Bytes × List FrameRead.Bytes)) (r : FrameRead.Bytes)
    (hn : isShort m.length = true)
    (h : m.all (fun kv => fitsShort kv.1 && isShort kv.2.length && kv.2.all fitsShort) = true)
    (hd : (m.map (·.1)).Nodup) :
    readStringMultiMap (eStringMultiMap m ++ r) = .ok (m, r) := by
  have hn' : m.length < 65536 := by simpa [isShort] using hn
  unfold readStringMultiMap eStringMultiMap
  rw [List.append_assoc, bind_ok (readShort_eShort _ _ hn')]
  rw [bind_ok (readN_flatMap_id _ (fun kv : FrameRead.Bytes × List FrameRead.Bytes => eString kv.1 ++ eStringList kv.2) m r
    (fun x hx r => by
      have hx' := List.all_eq_true.mp h x hx
      simp only [Bool.and_eq_true] at hx'
      rw [List.append_assoc, bind_ok (readString_eString _ _ hx'.1.1),
        bind_ok (readStringList_eStringList _ _ hx'.1.2 hx'.2)]
      rfl))]
  rw [pure_apply, mapOfList_nodup m hd]

/-! ## inet -/

theorem readInetAdressOnly_e (a r : FrameRead.Bytes) (h : isAddr a = true) :
    readInetAdressOnly (eInetAddr a ++ r) = .ok (a, r) := by
  have ha : a.length = 4 ∨ a.length = 16 := by simpa [isAddr] using h
  unfold readInetAdressOnly eInetAddr
  rw [List.append_assoc, bind_ok (slice_append' 1 1 (eByte a.length) (a ++ r) rfl (by omega))]
  have hsz : ((eByte a.length).headD 0).toNat = a.length := by
    simp [eByte]; omega
  simp only [hsz]
  have hc : (!(a.length == 4 || a.length == 16)) = false := by
    rcases ha with h | h <;> simp [h]
  simp only [hc]
  exact slice_append a.length a r (Nat.le_refl _)

theorem readInet_e (a r : FrameRead.Bytes) (p : Int) (h : isAddr a = true) (hp : isInt32 p = true) :
    readInet (eInet a p ++ r) = .ok ((a, p), r) := by
  unfold readInet eInet
  rw [List.append_assoc, bind_ok (readInetAdressOnly_e a _ h), bind_ok (readInt_eInt p r hp)]
  rfl

end C04
