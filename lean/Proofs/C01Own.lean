import Model.MuxOwn
/-!
# The connection's own requests and the sender's steps (helper lemmas for `Proofs/C01.lean`)

Inductive invariant of the machine `Model/MuxOwn.lean` in the configuration of the code that exists (`Cfg.code`).
-/
namespace MuxOwn

structure Inv (st : St) : Prop where
  /-- closeWithError never ran with a frame as its error value -/
  closed_plain : ∀ e, st.closed = some e → e = .plain
  /-- while the peer holds a request on s or its answer is under way, a handler for s is registered: the sender itself -/
  wire_reg : ∀ s c, st.wire s = .pending c → st.reg s = some c
  wire_reg' : ∀ s c f, st.wire s = .answered c f → st.reg s = some c
  /-- an answer under way is what the peer sent to that request, with the request's stream id -/
  ans_sent : ∀ s c f, st.wire s = .answered c f → st.sent c = some f ∧ f.sid = s
  /-- a registered call reserved that id and is in flight (registered) or gave up without a response -/
  reg_pc : ∀ s d, st.reg s = some d → (st.closed = none → st.owner s = some d) ∧ st.sidOf d = s ∧ st.pc d ≠ .idle ∧
    (∀ s' r wr ret, st.pc d = .flight s' r wr ret → s' = s ∧ r = true) ∧ (∀ f, st.pc d ≠ .done (.resp f))
  /-- a call in flight -/
  flight_ok : ∀ c s r wr ret, st.pc c = .flight s r wr ret → st.owner s = some c ∧ st.sidOf c = s ∧
    (r = true → st.reg s = some c) ∧ (r = false → st.reg s = none ∧ wr = false) ∧ (wr = false → st.wire s = .none ∧ ret = false)
  /-- an id nobody reserved has no handler and nothing on the wire (while the connection is open: closeWithError owns
      the map afterwards and no id is handed out any more) -/
  free_ok : st.closed = none → ∀ s, st.owner s = none → st.reg s = none ∧ st.wire s = .none
  /-- what a call was handed as its response is the frame the peer sent for it, with its own stream id -/
  resp_ok : ∀ c f, st.pc c = .done (.resp f) → st.sent c = some f ∧ f.sid = st.sidOf c
  /-- the error of the connection that a call was handed carries no frame -/
  err_ok : ∀ c e, st.pc c = .done (.connErr e) → e = .plain
  /-- no answer was ever discarded for want of a handler -/
  not_lost : ∀ c, st.lost c = false
  /-- addCall never finds another call registered under the id it was given -/
  no_dup : ∀ c, st.pc c ≠ .done .dupErr
  /-- a call that is about to free its id still holds it, is no longer registered under it (its registration was
      removed BEFORE: by recv's look-up or by the early exit itself) and nothing is on the wire for it -/
  rel_ok : ∀ c, st.rel c = .due → st.owner (st.sidOf c) = some c ∧ st.wire (st.sidOf c) = .none ∧
    (st.closed = none → st.reg (st.sidOf c) = none) ∧ (∀ s r wr ret, st.pc c ≠ .flight s r wr ret) ∧ st.pc c ≠ .idle
  /-- the id of a call in flight is one the allocator may hand out -/
  range : ∀ c s r wr ret, st.pc c = .flight s r wr ret → 1 ≤ s ∧ s < st.cap

theorem inv_init (cap : Nat) : Inv (init cap) := by
  constructor <;> simp [init]

macro "close_own" h:ident : tactic => `(tactic| (
  obtain ⟨h1, h2, h2', h3, h4, h5, h6, h7, h8, h9, h10, h11, h12⟩ := $h
  constructor <;> simp only [upd, closeWith, earlyExit] <;> grind))

set_option maxHeartbeats 4000000 in
theorem inv_step (st st' : St) (a : Act) (h : Inv st) (hs : step Cfg.code st a = some st') : Inv st' := by
  cases a with
  | reserve c s w =>
    simp only [step] at hs
    split at hs
    · injection hs with hs; subst hs; close_own h
    · simp at hs
  | register c =>
    simp only [step, Cfg.code] at hs
    split at hs
    · simp only [Bool.false_eq_true, ↓reduceIte] at hs
      split at hs
      · split at hs
        · split at hs
          · injection hs with hs; subst hs; close_own h
          · rename_i hne
            exfalso
            rename_i s wr ret hpc _ _
            have := (h.flight_ok c s false wr ret hpc).2.2.2.1 rfl
            exact hne this.1
        · injection hs with hs; subst hs; close_own h
      · simp at hs
    · simp at hs
  | write c =>
    simp only [step, Cfg.code] at hs
    split at hs
    · split at hs
      · simp at hs
      · injection hs with hs; subst hs; close_own h
    · simp at hs
  | writeReturned c =>
    simp only [step] at hs
    split at hs
    · injection hs with hs; subst hs; close_own h
    · simp at hs
  | writeFailed c =>
    simp only [step] at hs
    split at hs
    · injection hs with hs; subst hs; close_own h
    · simp at hs
  | answer s kind tag =>
    simp only [step] at hs
    split at hs
    · injection hs with hs; subst hs; close_own h
    · simp at hs
  | stray s =>
    simp only [step] at hs
    split at hs
    · injection hs with hs; subst hs; exact h
    · simp at hs
  | event =>
    simp only [step] at hs
    injection hs with hs; subst hs; exact h
  | deliver s =>
    simp only [step] at hs
    split at hs
    · split at hs
      · simp at hs
      · split at hs
        · injection hs with hs; subst hs; close_own h
        · split at hs
          · simp at hs
          · injection hs with hs; subst hs; close_own h
          · injection hs with hs; subst hs; close_own h
          · simp at hs
    · simp at hs
  | timeout c =>
    simp only [step] at hs
    split at hs
    · injection hs with hs; subst hs; close_own h
    · simp at hs
  | cancel c =>
    simp only [step] at hs
    split at hs
    · injection hs with hs; subst hs; close_own h
    · simp at hs
  | hbReact c =>
    simp only [step, Cfg.code] at hs
    split at hs
    · split at hs
      · injection hs with hs; subst hs; close_own h
      · simp at hs
    · simp at hs
  | close =>
    simp only [step] at hs
    injection hs with hs; subst hs; close_own h
  | connDone c =>
    simp only [step] at hs
    split at hs
    · injection hs with hs; subst hs; close_own h
    · simp at hs
  | connDoneCtx c =>
    simp only [step] at hs
    split at hs
    · injection hs with hs; subst hs; close_own h
    · simp at hs
  | buildFailed c =>
    simp only [step, earlyExit, Cfg.code, and_true] at hs
    split at hs
    · injection hs with hs; subst hs
      by_cases hc : st.closed = none <;> simp only [hc, if_true, if_false] <;> close_own h
    · simp at hs
  | writeCancelled c =>
    simp only [step, earlyExit, Cfg.code, and_true] at hs
    split at hs
    · injection hs with hs; subst hs
      by_cases hc : st.closed = none <;> simp only [hc, if_true, if_false] <;> close_own h
    · simp at hs
  | release c =>
    simp only [step] at hs
    split at hs
    · injection hs with hs; subst hs; close_own h
    · simp at hs
  | relDone c =>
    simp only [step, Cfg.code] at hs
    split at hs
    · injection hs with hs; subst hs; close_own h
    · simp at hs

theorem inv_run : ∀ (as : List Act) (s s' : St), Inv s → run Cfg.code s as = some s' → Inv s'
  | [], s, s', h, hr => by simp [run] at hr; subst hr; exact h
  | a :: as, s, s', h, hr => by
    simp only [run] at hr
    split at hr
    · rename_i s1 hs1
      exact inv_run as s1 s' (inv_step s s1 a h hs1) hr
    · simp at hr

/-- an interleaved history of several connections is, for each connection, a history of that connection alone -/
theorem mrun_proj (cfg : Cfg) : ∀ (as : List (Nat × Act)) (m m' : Nat → St), mrun cfg m as = some m' →
    ∀ k, run cfg (m k) (proj k as) = some (m' k)
  | [], m, m', h, k => by simp [mrun] at h; subst h; simp [proj, run]
  | (j, a) :: as, m, m', h, k => by
    simp only [mrun, mstep] at h
    split at h
    · rename_i m1 hm1
      split at hm1
      · rename_i s1 hs1
        injection hm1 with hm1
        subst hm1
        have ih := mrun_proj cfg as _ m' h k
        simp only [proj]
        by_cases hjk : j = k
        · subst hjk
          simp only [if_true, run, hs1]
          simpa [upd] using ih
        · simp only [hjk, if_false]
          have : upd m j s1 k = m k := by simp [upd]; intro h; exact absurd h.symm hjk
          rw [this] at ih; exact ih
      · simp at hm1
    · simp at h

end MuxOwn
