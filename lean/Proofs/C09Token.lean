import Model.Token
namespace Token

theorem beNat_lt : ∀ (bs : List UInt8), beNat bs < 256 ^ bs.length
  | [] => by simp [beNat]
  | b :: bs => by
    have ih := beNat_lt bs
    have hb : b.toNat < 256 := b.toNat_lt
    simp only [beNat, List.length_cons, Nat.pow_succ]
    have : b.toNat * 256 ^ bs.length ≤ 255 * 256 ^ bs.length := Nat.mul_le_mul_right _ (by omega)
    omega

/-- **C09 (Random)**: for every 16-byte digest the model of gocql's RandomPartitioner token equals
    |signed 128-bit big-endian value| (Cassandra: `new BigInteger(md5).abs()`). -/
theorem randomToken_eq_spec (digest : List UInt8) (h16 : digest.length = 16) :
    randomToken digest = Spec.randomToken digest := by
  match digest, h16 with
  | b :: bs, h16 =>
    have hl : bs.length = 15 := by simpa using h16
    have hlt := beNat_lt bs
    have hb : b.toNat < 256 := b.toNat_lt
    rw [hl] at hlt
    simp only [randomToken, Spec.randomToken, beNat, List.headD_cons, hl]
    have e15 : (256:Nat)^15 = 1329227995784915872903807060280344576 := by decide
    rw [e15] at hlt ⊢
    have e127 : (2:Int)^127 = 170141183460469231731687303715884105728 := by decide
    have e128 : (2:Int)^128 = 340282366920938463463374607431768211456 := by decide
    rw [e127, e128]
    by_cases hs : b.toNat > 127
    · simp only [hs, if_true]
      split <;> omega
    · simp only [hs, if_false]
      split <;> omega

/-- the Random token is never negative and at most 2^127 -/
theorem randomToken_range (digest : List UInt8) (h16 : digest.length = 16) :
    0 ≤ randomToken digest ∧ randomToken digest ≤ (2:Int)^127 := by
  rw [randomToken_eq_spec digest h16]
  have hlt := beNat_lt digest
  rw [h16] at hlt
  simp only [Spec.randomToken]
  have e16 : (256:Nat)^16 = 340282366920938463463374607431768211456 := by decide
  have e127 : (2:Int)^127 = 170141183460469231731687303715884105728 := by decide
  have e128 : (2:Int)^128 = 340282366920938463463374607431768211456 := by decide
  rw [e16] at hlt
  rw [e127, e128]
  split <;> omega

/-! ### ordered partitioner: strict total order on byte strings -/

theorem lexLt_irrefl : ∀ a, lexLt a a = false
  | [] => rfl
  | a :: as => by simp [lexLt, lexLt_irrefl as]

theorem lexLt_asymm : ∀ a b, lexLt a b = true → lexLt b a = false
  | [], [] => by simp [lexLt]
  | [], _ :: _ => by simp [lexLt]
  | _ :: _, [] => by simp [lexLt]
  | a :: as, b :: bs => by
    simp only [lexLt]
    by_cases h1 : a.toNat < b.toNat
    · have : ¬ b.toNat < a.toNat := by omega
      simp [h1, this]
    · by_cases h2 : b.toNat < a.toNat
      · simp [h1, h2]
      · simp [h1, h2]; exact lexLt_asymm as bs

theorem lexLt_total : ∀ a b, lexLt a b = true ∨ a = b ∨ lexLt b a = true
  | [], [] => by simp
  | [], _ :: _ => by simp [lexLt]
  | _ :: _, [] => by simp [lexLt]
  | a :: as, b :: bs => by
    simp only [lexLt]
    by_cases h1 : a.toNat < b.toNat
    · simp [h1]
    · by_cases h2 : b.toNat < a.toNat
      · simp [h1, h2]
      · have hab : a = b := UInt8.toNat_inj.mp (by omega)
        subst hab
        simp [h1]
        rcases lexLt_total as bs with h | h | h
        · exact Or.inl h
        · exact Or.inr (Or.inl h)
        · exact Or.inr (Or.inr h)

theorem lexLt_trans : ∀ a b c, lexLt a b = true → lexLt b c = true → lexLt a c = true
  | [], [], _ => by simp [lexLt]
  | [], _ :: _, [] => by simp [lexLt]
  | [], _ :: _, _ :: _ => by simp [lexLt]
  | _ :: _, [], _ => by simp [lexLt]
  | _ :: _, _ :: _, [] => by simp [lexLt]
  | a :: as, b :: bs, c :: cs => by
    simp only [lexLt]
    by_cases h1 : a.toNat < b.toNat
    · by_cases h3 : b.toNat < c.toNat
      · have : a.toNat < c.toNat := by omega
        simp [this]
      · by_cases h4 : c.toNat < b.toNat
        · simp [h3, h4]
        · have : a.toNat < c.toNat := by omega
          simp [this]
    · by_cases h2 : b.toNat < a.toNat
      · simp [h1, h2]
      · simp only [h1, h2, if_false]
        by_cases h3 : b.toNat < c.toNat
        · have : a.toNat < c.toNat := by omega
          simp [this]
        · by_cases h4 : c.toNat < b.toNat
          · simp [h3, h4]
          · simp only [h3, h4, if_false]
            have e1 : ¬ a.toNat < c.toNat := by omega
            have e2 : ¬ c.toNat < a.toNat := by omega
            simp only [e1, e2, if_false]
            exact lexLt_trans as bs cs

/-- equal keys ↔ neither is less (tokens of the order-preserving partitioner identify keys) -/
theorem lexLt_eq_iff (a b : List UInt8) : a = b ↔ (lexLt a b = false ∧ lexLt b a = false) := by
  constructor
  · intro h; subst h; simp [lexLt_irrefl]
  · intro ⟨h1, h2⟩
    rcases lexLt_total a b with h | h | h
    · simp [h] at h1
    · exact h
    · simp [h] at h2

/-! ### composite routing key is injective (decodable) for components < 65536 bytes -/

theorem be16_decode (n : Nat) (h : n < 65536) :
    (UInt8.ofNat (n / 256 % 256)).toNat * 256 + (UInt8.ofNat (n % 256)).toNat = n := by
  simp [UInt8.toNat_ofNat']
  omega

theorem composite_length_ge (cs : List (List UInt8)) : cs.length ≤ (composite cs).length ∨ True := Or.inr trivial

theorem decode_composite : ∀ (cs : List (List UInt8)) (fuel : Nat),
    (∀ c ∈ cs, c.length < 65536) → (composite cs).length ≤ fuel →
    decodeComposite fuel (composite cs) = some cs
  | [], fuel, _, _ => by cases fuel <;> simp [composite, decodeComposite]
  | c :: cs, fuel, hall, hf => by
    have hc : c.length < 65536 := hall c (by simp)
    have hmod : c.length % 65536 = c.length := Nat.mod_eq_of_lt hc
    cases fuel with
    | zero => simp [composite, be16] at hf
    | succ fuel =>
      simp only [composite, be16, hmod, List.cons_append, List.nil_append, decodeComposite, List.append_assoc]
      rw [be16_decode c.length hc]
      have hlen : ¬ (c ++ (0 :: composite cs)).length < c.length + 1 := by simp
      simp only [hlen, if_false]
      have hd : (c ++ (0 :: composite cs)).drop c.length = 0 :: composite cs := by simp
      have hd1 : (c ++ (0 :: composite cs)).drop (c.length + 1) = composite cs := by
        rw [← List.drop_drop, hd]; simp
      have ht : (c ++ (0 :: composite cs)).take c.length = c := by simp
      simp only [hd, hd1, ht, List.head?_cons, ne_eq, not_true_eq_false, if_false]
      rw [decode_composite cs fuel (fun x hx => hall x (by simp [hx])) (by
        simp [composite, be16] at hf; omega)]

/-- **C09 (routing key)**: the composite routing key determines its components
    (for components shorter than 65536 bytes). -/
theorem composite_injective (as bs : List (List UInt8))
    (ha : ∀ c ∈ as, c.length < 65536) (hb : ∀ c ∈ bs, c.length < 65536)
    (h : composite as = composite bs) : as = bs := by
  have h1 := decode_composite as _ ha (Nat.le_refl _)
  have h2 := decode_composite bs (composite as).length hb (by rw [h]; exact Nat.le_refl _)
  rw [h] at h1
  rw [h] at h2
  rw [h1] at h2
  exact Option.some.inj h2

/-- a component of 65536 bytes is framed with length 0: the documented limitation is real -/
theorem composite_truncates : be16 (65536 % 65536) = [0, 0] := by decide

/-- for components that fit the unsigned 16-bit length the code's framing IS the specification's -/
theorem composite_eq_frame : ∀ cs : List (List UInt8), (∀ c ∈ cs, c.length ≤ 65535) → composite cs = Spec.frame cs
  | [], _ => rfl
  | c :: cs, h => by
    have hc : c.length ≤ 65535 := h c (by simp)
    have ih := composite_eq_frame cs (fun d hd => h d (by simp [hd]))
    have e1 : c.length % 65536 = c.length := Nat.mod_eq_of_lt (by omega)
    have e2 : c.length / 256 % 256 = c.length / 256 := Nat.mod_eq_of_lt (by omega)
    simp only [composite, Spec.frame, be16, e1, e2, ih]

theorem routingKey_eq_spec (cs : List (List UInt8)) (h : ∀ c ∈ cs, c.length ≤ 65535) :
    routingKey cs = Spec.routingKey cs := by
  unfold routingKey Spec.routingKey
  split
  · rfl
  · exact composite_eq_frame cs h

end Token
