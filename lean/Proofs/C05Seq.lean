import Model.PrepLife
/-!
# C05, sequences of answers on the prepare / execute paths: lemmas

`Inv` (Model/PrepLife.lean): every cached flight exists, belongs to its key and — if it is finished — holds a
prepared statement. It is the precondition of the dereference `ifp.preparedStatment.id` in
prepared_cache.go evictPreparedID. It is preserved by every step of the machine for every answer the peer
can give, PROVIDED every arm of the flight's goroutine that stores an error also removes the key (`RmOK`);
the code that exists satisfies that (`removes_ok`).
-/
namespace C05Seq
open PrepLife Dispatch

/-- every failing arm of prepareStatement's goroutine ends with `stmtsLRU.remove(key)` -/
def RmOK (rm : PArm → Bool) : Prop := ∀ a, a.result = .failed → rm a = true

theorem removes_ok : RmOK PArm.removes := by
  intro a h
  cases a <;> simp_all [PArm.result, PArm.removes]

theorem init_inv : Inv initCore := by
  intro k f h
  simp [initCore] at h

theorem removeKey_inv {c : Core} (k : Nat) (h : Inv c) : Inv (c.removeKey k) := by
  intro k' f hc
  simp only [Core.removeKey] at hc ⊢
  split at hc
  · cases hc
  · exact h k' f hc

theorem setSt_inv {c : Core} (f : Nat) (st : FSt) (hst : st ≠ .failed) (h : Inv c) : Inv (c.setSt f st) := by
  unfold Core.setSt
  cases hf : c.flights[f]? with
  | none => simpa using h
  | some fl =>
    intro k f' hc
    simp only at hc ⊢
    obtain ⟨fl', h1, h2, h3⟩ := h k f' hc
    by_cases e : f' = f
    · subst e
      rw [hf] at h1
      cases h1
      refine ⟨{ fl with st := st }, ?_, h2, hst⟩
      have hlt : f' < c.flights.length := by
        rcases Nat.lt_or_ge f' c.flights.length with h | h
        · exact h
        · rw [List.getElem?_eq_none h] at hf; cases hf
      simp [hlt]
    · refine ⟨fl', ?_, h2, h3⟩
      rw [List.getElem?_set_ne (by omega)]
      exact h1

theorem setSt_removeKey_inv {c : Core} (f : Nat) (fl : Flight) (st : FSt) (hf : c.flights[f]? = some fl)
    (h : Inv c) : Inv ((c.setSt f st).removeKey fl.stmt) := by
  intro k f' hc
  simp only [Core.removeKey, Core.setSt, hf] at hc ⊢
  split at hc
  · cases hc
  · rename_i hk
    obtain ⟨fl', h1, h2, h3⟩ := h k f' hc
    have hne : f' ≠ f := by
      intro e
      subst e
      rw [hf] at h1
      cases h1
      exact hk h2.symm
    refine ⟨fl', ?_, h2, h3⟩
    rw [List.getElem?_set_ne (by omega)]
    exact h1

theorem complete_inv {rm : PArm → Bool} (hrm : RmOK rm) {c : Core} (f : Nat) (a : PArm) (h : Inv c) :
    Inv (complete rm c f a) := by
  unfold complete
  cases hf : c.flights[f]? with
  | none => simpa using h
  | some fl =>
    simp only
    by_cases hr : rm a = true
    · simp only [hr, if_true]
      exact setSt_removeKey_inv f fl a.result hf h
    · have hne : a.result ≠ .failed := fun e => hr (hrm a e)
      simp only [hr]
      exact setSt_inv f a.result hne h

theorem evict_inv {c c' : Core} {key id : Nat} (h : Inv c) (he : evict c key id = some c') : Inv c' := by
  unfold evict at he
  split at he
  · cases he; exact h
  · split at he
    · cases he; exact h
    · split at he
      · cases he; exact h
      · split at he
        · cases he; exact removeKey_inv key h
        · cases he; exact h
      · cases he

theorem evict_no_crash {c : Core} (key id : Nat) (h : Inv c) : evict c key id ≠ none := by
  unfold evict
  split
  · simp
  · rename_i f hc
    obtain ⟨fl, h1, _, h3⟩ := h key f hc
    rw [h1]
    simp only
    split
    · simp
    · split <;> simp
    · rename_i hst
      exact absurd hst h3

theorem insert_inv {c : Core} (s : Nat) (h : Inv c) :
    Inv { cache := fun k => if k = s then some c.flights.length else c.cache k,
          flights := c.flights ++ [{ stmt := s, st := .inflight }] } := by
  intro k f hc
  simp only at hc ⊢
  split at hc
  · rename_i hk
    cases hc
    refine ⟨{ stmt := s, st := .inflight }, ?_, hk.symm, by simp⟩
    simp
  · obtain ⟨fl, h1, h2, h3⟩ := h k f hc
    refine ⟨fl, ?_, h2, h3⟩
    have hlt : f < c.flights.length := by
      rcases Nat.lt_or_ge f c.flights.length with h | h
      · exact h
      · rw [List.getElem?_eq_none h] at h1; cases h1
    rw [List.getElem?_append_left hlt]
    exact h1

theorem prepLoop_inv (fuel c : Nat) (core : Core) (cl : Caller) (h : Inv core) :
    Inv (prepLoop fuel c core cl).1 := by
  induction fuel generalizing cl with
  | zero => simpa [prepLoop] using h
  | succ n ih =>
    unfold prepLoop
    split
    · exact h
    · rename_i s _
      split
      · exact insert_inv s h
      · split
        · exact h
        · split
          · exact ih _
          · exact h
        · exact h

theorem resume_inv (c : Nat) (core : Core) (cl : Caller) (f : Nat) (h : Inv core) :
    Inv (resume c core cl f).1 := by
  unfold resume
  split
  · split
    · exact prepLoop_inv _ _ _ _ h
    · exact h
  · exact h

theorem wake_inv (f : Nat) (i : Nat) (cs : List Caller) (core : Core) (h : Inv core) :
    Inv (wake f i cs core).2.1 := by
  induction cs generalizing i core with
  | nil => simpa [wake] using h
  | cons cl rest ih =>
    unfold wake
    split
    · exact ih _ _ (resume_inv _ _ _ _ h)
    · exact ih _ _ h

theorem restart_inv {s : State} {core : Core} {c : Nat} {cl : Caller} {rows : Nat} {s' : State} {log : List Ev}
    (h : Inv core) (he : restart s core c cl rows = .next s' log) : Inv s'.core := by
  unfold restart at he
  cases he
  exact prepLoop_inv _ _ _ _ h

theorem restart_not_crash (s : State) (core : Core) (c : Nat) (cl : Caller) (rows : Nat) :
    restart s core c cl rows ≠ .crash := by
  unfold restart
  simp

/-- the invariant is preserved by every step, whatever the peer answers -/
theorem step_inv {rm : PArm → Bool} (hrm : RmOK rm) {s s' : State} {i : Input} {log : List Ev}
    (h : Inv s.core) (he : step rm s i = .next s' log) : Inv s'.core := by
  cases i with
  | start c =>
    simp only [step] at he
    split at he
    · cases he
    · split at he
      · exact restart_inv h he
      · cases he
  | pans st a =>
    simp only [step] at he
    split at he
    · cases he
    · cases he
      exact wake_inv _ _ _ _ (complete_inv hrm _ _ h)
  | xans c a =>
    simp only [step] at he
    split at he
    · cases he
    · split at he
      · split at he
        · cases he; exact h
        · exact restart_inv h he
        · split at he
          · exact restart_inv h he
          · split at he
            · cases he
            · rename_i hev
              exact restart_inv (evict_inv h hev) he
      · cases he
  | event k =>
    simp only [step] at he
    cases he
    exact h

/-- no step dereferences a nil prepared statement -/
theorem step_no_crash (rm : PArm → Bool) {s : State} (i : Input) (h : Inv s.core) : step rm s i ≠ .crash := by
  cases i with
  | start c =>
    simp only [step]
    split
    · simp
    · split
      · exact restart_not_crash _ _ _ _ _
      · simp
  | pans st a =>
    simp only [step]
    split <;> simp
  | xans c a =>
    simp only [step]
    split
    · simp
    · split
      · split
        · simp
        · exact restart_not_crash _ _ _ _ _
        · split
          · exact restart_not_crash _ _ _ _ _
          · split
            · rename_i hev
              exact absurd hev (evict_no_crash _ _ h)
            · exact restart_not_crash _ _ _ _ _
      · simp
  | event k => simp [step]

theorem run_safe {rm : PArm → Bool} (hrm : RmOK rm) (is : List Input) (s : State) (h : Inv s.core) :
    (run rm s is).crashed = false ∧ Inv (run rm s is).state.core := by
  induction is generalizing s with
  | nil => exact ⟨rfl, h⟩
  | cons i is ih =>
    unfold run
    cases hs : step rm s i with
    | next s' log => exact ih s' (step_inv hrm h hs)
    | crash => exact absurd hs (step_no_crash rm i h)
    | bad => exact ih s h

theorem invOK_of_inv {c : Core} (n : Nat) (h : Inv c) : invOK c n = true := by
  unfold invOK
  rw [List.all_eq_true]
  intro k _
  cases hc : c.cache k with
  | none => rfl
  | some f =>
    obtain ⟨fl, h1, h2, h3⟩ := h k f hc
    simp only [h1]
    simp [h2, h3]

/-- the model's answer to op `seqinv` is `ok` for every scenario -/
theorem invAnswer_ok {rm : PArm → Bool} (hrm : RmOK rm) (is : List Input) (s : State) (h : Inv s.core) :
    invAnswer rm s is = "ok" := by
  induction is generalizing s with
  | nil => simp [invAnswer, invOK_of_inv _ h]
  | cons i is ih =>
    unfold invAnswer
    rw [invOK_of_inv _ h]
    simp only [if_true]
    cases hs : step rm s i with
    | next s' log => exact ih s' (step_inv hrm h hs)
    | crash => exact absurd hs (step_no_crash rm i h)
    | bad => exact ih s h

/-- the removal table with ONE arm forgotten: `default:` stores the error and leaves the key (every other arm as
    in the code) -/
def rmForgetDefault : PArm → Bool
  | .dflt => false
  | a => a.removes

end C05Seq
