import Proofs.C12Scalar
import Proofs.C12Coll
import Proofs.C12Frame
import Proofs.C12Vint
import Proofs.C12Nest
import Proofs.C12Decode
import Proofs.C12Hist
import Proofs.C12VintDec
import Model.MarshalInterp
/-!
# C12 — encoded values are the CQL specification's encoding, byte for byte; conformant encodings decode
(property theorems)

Specification: `Model/ValueSpec.lean` (`specEnc`/`specDec`, written from the protocol documents).
Model of gocql: `Model/MarshalScalar.lean`, `Model/Marshal.lean`, `Model/MarshalDecode.lean` (marshal.go
transliterated, defects included), tied to the code by the differential run of `harness/cmd/c12`.
`Model/MarshalInterp.lean`: `interp` (documented meaning of a Go value), `excluded` (exact known deviations).
-/
namespace C12
open ValueSpec Marshal C12Bytes C12Int C12Varint C12Scalar

/-! ## integer columns: tinyint, smallint, int, bigint, counter -/

def colTy : IntCol → CqlTy
  | .tiny => .tinyint | .small => .smallint | .int => .int | .big => .bigint

theorem specEnc_intcol (p : Nat) (col : IntCol) (v : Int) :
    specEnc p (colTy col) (.int v) = if fitsS col.bytes v = true then some (tcEnc col.bytes v) else none := by
  cases col <;> rfl

/-- FULL STATEMENT (does not hold for the unchanged code): for every Go integer kind (named or not) and every value,
    `marshal = specEnc`.  It fails exactly where an UNSIGNED Go value ≥ 2^(8w−1) is accepted and written as the two's
    complement bit pattern (D9; `C12_int_wrap`, `C12_cex_uint16_smallint`).  Proved part: everything else — in
    particular every signed kind, every in-range unsigned value, and every refusal. -/
theorem C12_int_conforms_partial (p : Nat) (col : IntCol) (k : IntKind) (named : Bool) (v : Int)
    (hv : k.holds v = true)
    (hex : ¬ (k.signed = false ∧ (256:Int) ^ col.bytes ≤ 2 * v)) :
    marshalIntKind col k named v = specEnc p (colTy col) (.int v) := by
  rw [marshalIntKind_char col k named v hv, specEnc_intcol]
  have hw : wrapsAccepted col k named v = false := by
    cases hs : k.signed
    · have : ¬ ((256:Int) ^ col.bytes ≤ 2 * v) := fun h => hex ⟨hs, h⟩
      simp [wrapsAccepted, hs, leB, this]
    · simp [wrapsAccepted, hs]
  simp [hw]

/-- what the code does on the excluded inputs: it writes the encoding of `v − 256^w`, a different (negative) number -/
theorem C12_int_wrap (p : Nat) (col : IntCol) (k : IntKind) (named : Bool) (v : Int)
    (hv : k.holds v = true) (hw : wrapsAccepted col k named v = true) :
    marshalIntKind col k named v = specEnc p (colTy col) (.int (v - (256:Int) ^ col.bytes)) ∧
    specEnc p (colTy col) (.int v) = none := by
  rw [marshalIntKind_char col k named v hv, specEnc_intcol, specEnc_intcol]
  simp only [wrapsAccepted, Bool.and_eq_true, leB_iff, ltB_iff] at hw
  have h1 : fitsS col.bytes (v - (256:Int) ^ col.bytes) = true := by
    simp only [fitsS, Bool.and_eq_true, leB_iff, ltB_iff]
    have := pow256_pos col.bytes
    rw [← cast_pow256] at hw ⊢
    omega
  have h2 : fitsS col.bytes v = false := by
    cases hf : fitsS col.bytes v
    · rfl
    · simp only [fitsS, Bool.and_eq_true, leB_iff, ltB_iff] at hf
      omega
  have h3 : tcEnc col.bytes (v - (256:Int) ^ col.bytes) = tcEnc col.bytes v := by
    have := tcEnc_add_pow col.bytes v (-1)
    simpa [Int.sub_eq_add_neg] using this
  have hw' : wrapsAccepted col k named v = true := by
    simp only [wrapsAccepted, Bool.and_eq_true, leB_iff, ltB_iff]; exact hw
  simp [h1, h2, h3, hw']

/-- encoding fails iff the value is not representable — up to the wrap window -/
theorem C12_int_error_iff (col : IntCol) (k : IntKind) (named : Bool) (v : Int) (hv : k.holds v = true) :
    marshalIntKind col k named v = none ↔ (fitsS col.bytes v = false ∧ wrapsAccepted col k named v = false) := by
  rw [marshalIntKind_char col k named v hv]
  cases fitsS col.bytes v <;> cases wrapsAccepted col k named v <;> simp

/-- counterexamples (also replay inputs): uint16 65535 → smallint is written as ff ff = −1;
    uint64 2^63+5 → bigint is written as the bytes of −2^63+5 -/
theorem C12_cex_uint16_smallint :
    marshalIntKind .small .uint16 false 65535 = some [255, 255] ∧
    specEnc 4 .smallint (.int 65535) = none ∧ specEnc 4 .smallint (.int (-1)) = some [255, 255] := by
  refine ⟨by decide, by decide, by decide⟩

theorem C12_cex_uint64_bigint :
    marshalIntKind .big .uint64 false 9223372036854775813 = some [128, 0, 0, 0, 0, 0, 0, 5] ∧
    specEnc 4 .bigint (.int 9223372036854775813) = none := by
  refine ⟨by decide, by decide⟩

/-- non-vacuity -/
example : marshalIntKind .small .int true 300 = some [1, 44] ∧ specEnc 3 .smallint (.int 300) = some [1, 44] := by
  refine ⟨by decide, by decide⟩
example : marshalIntKind .int .int64 false (-2147483649) = none := by decide

/-- a Go string bound to an integer column: the decimal number it spells, in the column's width, or an error -/
theorem C12_int_string (p : Nat) (col : IntCol) (s b : Bytes) (h : marshalIntString col s = some b) :
    ∃ n, parseDec s = some n ∧ specEnc p (colTy col) (.int n) = some b := by
  unfold marshalIntString at h
  cases hp : parseInt (8 * col.bytes) s with
  | none => rw [hp] at h; simp at h
  | some n =>
    rw [hp] at h
    injection h with h
    unfold parseInt at hp
    cases hd : parseDec s with
    | none => rw [hd] at hp; simp at hp
    | some m =>
      rw [hd] at hp
      dsimp only at hp
      split at hp
      · rename_i hr
        injection hp with hp
        subst hp
        refine ⟨m, rfl, ?_⟩
        rw [specEnc_intcol, ← h]
        cases col <;>
          simp [IntCol.bytes, fitsS, leB_iff, ltB_iff, encTiny_eq, encShort_eq, encInt_eq, encBigInt_eq,
            tcEnc_toS16, tcEnc_toS32] at hr ⊢ <;> omega
      · simp at hp

/-! ## varint -/

/-- marshalVarint on every Go integer kind (incl. uint64 ≥ 2^63): when it succeeds the bytes are the varint -/
theorem C12_varint_conforms (p : Nat) (k : IntKind) (named : Bool) (v : Int) (hv : k.holds v = true) (b : Bytes)
    (h : marshalVarintKind k named v = some b) : specEnc p .varint (.int v) = some b := by
  simp [specEnc, marshalVarintKind_spec k named v hv b h]

theorem C12_varint_string (p : Nat) (s b : Bytes) (h : marshalVarintString s = some b) :
    ∃ n, parseDec s = some n ∧ specEnc p .varint (.int n) = some b := by
  obtain ⟨n, hn, hb⟩ := marshalVarintString_spec s b h
  exact ⟨n, hn, by simp [specEnc, hb]⟩

/-- the specification's varint is the SHORTEST two's complement encoding (= `BigInteger.toByteArray`), for every
    integer: it decodes to the number, nothing shorter does, and any non-redundant byte string is the varint of its value -/
theorem C12_varint_minimal (n : Int) :
    tcDec (specVarint n) = n ∧
    (∀ b : Bytes, b ≠ [] → tcDec b = n → (specVarint n).length ≤ b.length) ∧
    (∀ b : Bytes, minimalTC b = true → tcDec b = n → b = specVarint n) :=
  ⟨tcDec_specVarint n, fun b hb h => specVarint_minimal n b hb h,
   fun b hm h => by rw [← h]; exact (specVarint_tcDec b hm).symm⟩

/-- the trimming loop of marshalVarint (marshal.go:780-805): any non-empty two's complement byte string ↦ the
    varint of its value -/
theorem C12_varint_trim (b : Bytes) (hb : b ≠ []) : trimTC b = specVarint (tcDec b) := trimTC_spec b hb

example : specVarint 128 = [0, 128] ∧ specVarint (-129) = [255, 127] ∧ specVarint (-128) = [128] := by
  refine ⟨?_, ?_, ?_⟩ <;> (rw [specVarint]; simp [byteOfNat]; try (rw [specVarint]; simp [byteOfNat]))

/-- a big.Int bound to a bigint / counter column (repair of KF-C12-2): for EVERY integer, the 8-byte two's complement
    encoding of the specification when the number is an int64, an error otherwise — never the minimal-length form -/
theorem C12_bigint_bigInt_conforms (p : Nat) (v : Int) :
    marshalScalar .bigint (.big v) = optM (specEnc p .bigint (.int v)) ∧
    marshalScalar .counter (.big v) = optM (specEnc p .counter (.int v)) := by
  have key : marshalIntColumn .big (.big v) = optM (if fitsS 8 v = true then some (tcEnc 8 v) else none) := by
    by_cases h : (-9223372036854775808 ≤ v ∧ v < 9223372036854775808)
    · have hf : fitsS 8 v = true := by simp [fitsS, leB_iff, ltB_iff]; omega
      simp [marshalIntColumn, leB, ltB, h.1, h.2, hf, optM, encBigInt_eq]
    · have hf : fitsS 8 v = false := by
        cases hf : fitsS 8 v
        · rfl
        · simp [fitsS, leB_iff, ltB_iff] at hf; omega
      have h' : ¬ ((-9223372036854775808 ≤ v) ∧ (v < 9223372036854775808)) := h
      have : (leB (-9223372036854775808) v && ltB v 9223372036854775808) = false := by
        simp only [leB, ltB, Bool.and_eq_false_iff, decide_eq_false_iff_not]
        omega
      simp [marshalIntColumn, this, hf, optM]
  exact ⟨by simpa [marshalScalar, specEnc] using key, by simpa [marshalScalar, specEnc] using key⟩

/-- the regression inputs of KF-C12-2: `spec 4 bigint big 5` is 8 bytes; 2^63 is refused -/
example : marshalScalar .bigint (.big 5) = .ok (some [0, 0, 0, 0, 0, 0, 0, 5]) := by
  have : encBigInt 5 = [0, 0, 0, 0, 0, 0, 0, 5] := by decide
  simp [marshalScalar, marshalIntColumn, leB, ltB, this]
example : marshalScalar .bigint (.big 9223372036854775808) = .err := by
  simp [marshalScalar, marshalIntColumn, leB, ltB]
/-- the OLD definition (before the repair) wrote the minimal-length form: regression of the former counterexample -/
example : encBigInt2C 5 = [5] := by simp [encBigInt2C, natBytes, byteOfNat]

/-! ## decode direction: conformant integer encodings -/

def srcOf : IntCol → IntSrc
  | .tiny => .tiny | .small => .small | .int => .int | .big => .big

theorem decodeFixed_tcEnc (col : IntCol) (n : Int) (h : fitsS col.bytes n = true) :
    decodeFixed (srcOf col) (tcEnc col.bytes n) = n := by
  cases col <;> simp only [srcOf, decodeFixed, IntCol.bytes] at h ⊢
  · exact decTiny_tcEnc n h
  · exact decShort_tcEnc n h
  · exact decInt_tcEnc n h
  · exact decBigInt_tcEnc n h

/-- FULL STATEMENT (does not hold): the conformant encoding of `n` decodes into any Go integer kind to `n`, or to a
    range error when the kind cannot hold `n`.  It fails for NEGATIVE `n` into an unsigned kind at least as wide as
    the column (the value is masked / reinterpreted: smallint −1 → uint16 65535, bigint −1 → uint64 2^64−1).
    Proved part: all signed kinds, and all non-negative values. -/
theorem C12_int_accepts_conformant_partial (col : IntCol) (n : Int) (k : IntKind)
    (hn : fitsS col.bytes n = true) (hs : k.signed = true ∨ 0 ≤ n) :
    unmarshalIntKind (srcOf col) (decodeFixed (srcOf col) (tcEnc col.bytes n)) k =
      if k.holds n = true then some n else none := by
  rw [decodeFixed_tcEnc col n hn]
  exact unmarshalIntKind_char (srcOf col) n k (by cases col <;> exact hn) hs

theorem C12_cex_smallint_uint16 :
    unmarshalIntKind .small (decodeFixed .small [255, 255]) .uint16 = some 65535 ∧
    specDec 4 .smallint [255, 255] = some (.int (-1)) := by
  refine ⟨by decide, ?_⟩
  have : tcDec [255, 255] = -1 := by decide
  simp [specDec, this]

/-! ## date and timestamp -/

/-- a millisecond count bound to a date column is written as 2^31 + FLOOR(days since the epoch) — for EVERY int64,
    before 1970 as well (repair of KF-C12-4: daysSinceEpoch) — and refused when that day number does not fit the 4
    bytes of a date (repair of KF-C12-5: encDate; the former hypothesis `hrange` is gone): exactly the specification -/
theorem C12_date_conforms (p : Nat) (ts : Int) :
    marshalScalar .date (.int .int64 false ts) = optM (specEnc p .date (.int (ts / 86400000))) := by
  show marshalDateMillis ts = _
  unfold marshalDateMillis
  rw [C12Scalar.daysSinceEpoch_floor]
  by_cases hr : fitsU 4 (ts / 86400000 + 2147483648) = true
  · simp [specEnc, hr, optM, encDateMillis_spec ts hr]
  · simp [specEnc, hr, optM]

/-- the same for a time.Time (not the zero time, milliseconds representable in int64 — open finding KF-C12-9): the day
    that CONTAINS the instant, or an error when it is outside the range of a date -/
theorem C12_date_time_conforms (p : Nat) (sec nsec : Int) (hn : 0 ≤ nsec ∧ nsec < 1000000000)
    (hz : timeIsZero sec nsec = false)
    (h1 : fitsS 8 (sec * 1000) = true) (h2 : fitsS 8 (exactMillis sec nsec) = true) :
    marshalScalar .date (.time sec nsec) = optM (specEnc p .date (.int (sec / 86400))) := by
  have hd := day_of_millis sec nsec hn
  have h := C12_date_conforms p (exactMillis sec nsec)
  rw [hd] at h
  rw [← h]
  simp [marshalScalar, hz, timeMillis_exact sec nsec h1 h2]

/-- the regression input of KF-C12-4, kernel-checked, = `spec 4 date t -43200 0` (1969-12-31T12:00:00Z): day 2^31 − 1 -/
theorem C12_date_floor_witness :
    marshalScalar .date (.time (-43200) 0) = .ok (some [127, 255, 255, 255]) ∧
    marshalScalar .date (.int .int64 false (-1)) = .ok (some [127, 255, 255, 255]) ∧
    specEnc 4 .date (.int ((-43200 : Int) / 86400)) = some [127, 255, 255, 255] := by
  refine ⟨?_, ?_, by decide⟩
  · have e : encDateMillis (timeMillis (-43200) 0) = [127, 255, 255, 255] := by decide
    have f : fitsU 4 (daysSinceEpoch (timeMillis (-43200) 0) + 2147483648) = true := by decide
    simp [marshalScalar, timeIsZero, zeroTimeSec, marshalDateMillis, e, f]
  · have e : encDateMillis (-1) = [127, 255, 255, 255] := by decide
    have f : fitsU 4 (daysSinceEpoch (-1) + 2147483648) = true := by decide
    simp [marshalScalar, marshalDateMillis, e, f]

/-- the OLD computation (truncating division, before the repair) gave the NEXT day: regression of the former counterexample -/
example : encInt (toS 32 (goDiv (-43200000) millisInADay + 2147483648)) = [128, 0, 0, 0] := by decide

/-- KF-C12-5 (repaired), regression of the former counterexample: day 2^31 used to be written as day −2^31 (00 00 00 00);
    now it is an error, like the last representable day + 1 ms … and the last day itself is still written.
    = replay inputs `enc 4 date i int64 185542587187200000`, `spec 4 date i int64 185542587187199999` -/
theorem C12_cex_date_range :
    marshalScalar .date (.int .int64 false 185542587187200000) = .err ∧
    specEnc 4 .date (.int ((185542587187200000 : Int) / 86400000)) = none ∧
    marshalScalar .date (.int .int64 false 185542587187199999) = .ok (some [255, 255, 255, 255]) := by
  refine ⟨?_, by decide, ?_⟩
  · have : specEnc 4 .date (.int ((185542587187200000 : Int) / 86400000)) = none := by decide
    rw [C12_date_conforms 4, this]; rfl
  · have : specEnc 4 .date (.int ((185542587187199999 : Int) / 86400000)) = some [255, 255, 255, 255] := by decide
    rw [C12_date_conforms 4, this]; rfl

/-- timestamp: milliseconds since the epoch (floor), 8 bytes — for every non-zero time.Time that does not overflow -/
theorem C12_timestamp_conforms_partial (p : Nat) (sec nsec : Int)
    (hz : timeIsZero sec nsec = false)
    (h1 : fitsS 8 (sec * 1000) = true) (h2 : fitsS 8 (exactMillis sec nsec) = true) :
    marshalScalar .timestamp (.time sec nsec) = .ok (specEnc p .timestamp (.int (exactMillis sec nsec))) := by
  simp [marshalScalar, specEnc, hz, h2, timeMillis_exact sec nsec h1 h2, encBigInt_eq]

example : marshalScalar .timestamp (.time (-1) 999000000) = .ok (some [255, 255, 255, 255, 255, 255, 255, 255]) := by
  have : encBigInt (timeMillis (-1) 999000000) = [255, 255, 255, 255, 255, 255, 255, 255] := by decide
  simp [marshalScalar, timeIsZero, zeroTimeSec, this]

/-! ## collections: the structural step (element theorems as hypotheses), protocol ≥ 3 -/

open C12Coll in
/-- a slice bound to a list column (the same code path serves sets, arrays and []interface{}): if every element is
    marshalled as the specification says (`ElemOK`: nil exactly for null, else the element's spec bytes) then the
    whole value is the specification's encoding — 4-byte count, 4-byte element lengths, −1 for null.  This is the
    induction step for nesting: `ElemOK` of the elements is again an instance of the conformance statement. -/
theorem C12_list_framing (p : Nat) (hp : p ≥ 3) (et : CqlTy) (vs : List GoVal) (cs : List CqlVal) (b : Bytes)
    (hall : AllOK p et vs cs)
    (h : marshal p (.list et) (.slice false vs) = .ok (some b)) :
    specEnc p (.list et) (.list cs) = some b := by
  apply marshalList_spec p hp et vs cs b hall
  simpa [marshal] using h

/-- FULL STATEMENT for protocol ≤ 2 does not hold for null elements (no null in the 2-byte framing): a zero-length
    element is written -/
theorem C12_cex_null_element_v2 :
    marshal 2 (.list .int) (.slice false [.nilptr, .ptr (.int .int false 1)]) = .ok (some [0, 2, 0, 0, 0, 4, 0, 0, 0, 1]) ∧
    specEnc 2 (.list .int) (.list [.null, .int 1]) = none := C12Coll.cex_null_element_v2

open C12Coll in
/-- a Go value bound to a tuple column, every source shape ([]interface{}; struct, slice, array): if every field is
    marshalled as the specification says (`FieldOK`: an untyped nil of a []interface{} or a nil encoding — typed nil
    pointer, nil []byte, nil slice, nil map … — exactly for null, else the field's spec bytes, shorter than 2 GiB)
    then the whole value is the specification's encoding: `[bytes]` per field, −1 for null (repair of KF-C12-6:
    appendBytes).  Induction step for nesting, like `C12_list_framing`. -/
theorem C12_tuple_framing (p : Nat) (ts : List CqlTy) (vs : List GoVal) (cs : List CqlVal) (b : Bytes) :
    (FieldsOK p true ts vs cs → marshal p (.tuple ts) (.ifaces vs) = .ok (some b) →
      specEnc p (.tuple ts) (.tuple cs) = some b) ∧
    (FieldsOK p false ts vs cs →
      (marshal p (.tuple ts) (.struct vs) = .ok (some b) ∨
       (∃ isNil, marshal p (.tuple ts) (.slice isNil vs) = .ok (some b)) ∨
       marshal p (.tuple ts) (.array vs) = .ok (some b)) →
      specEnc p (.tuple ts) (.tuple cs) = some b) :=
  marshalTuple_spec p ts vs cs b

/-- the field hypothesis is met by every kind of nil: a typed nil pointer, a pointer to a nil pointer, a nil []byte,
    a nil slice and a nil map all marshal to the nil encoding, which the tuple now writes as −1 -/
theorem C12_tuple_nil_fields (p : Nat) (vi : Bool) (t : CqlTy) :
    C12Coll.FieldOK p vi t .nilptr .null ∧ C12Coll.FieldOK p vi t (.ptr .nilptr) .null ∧
    C12Coll.FieldOK p vi .blob (.bytes false true []) .null ∧
    C12Coll.FieldOK p vi (.list t) (.slice true []) .null ∧ C12Coll.FieldOK p vi (.map t t) (.map true []) .null := by
  refine ⟨?_, ?_, ?_, ?_, ?_⟩ <;> refine Or.inr (Or.inl ⟨?_, rfl⟩) <;>
    simp [marshal, marshalScalar, marshalVarcharColumn]

/-- untyped nil bound to a tuple column is null (repair of KF-C12-7), as for every other column type;
    = replay input `spec 4 tuple 1 int nil` -/
theorem C12_tuple_nil_null (p : Nat) (ts : List CqlTy) :
    marshal p (.tuple ts) .nil = .ok none ∧ interp (.tuple ts) .nil = some .null := by
  constructor <;> simp [marshal, interp]

/-- the regression inputs of KF-C12-6, kernel-checked: `spec 4 tuple 2 int text ifs 2 nilptr s 41` and the struct
    shape with a nil []byte -/
theorem C12_tuple_typed_nil_witness :
    marshal 4 (.tuple [.int, .text]) (.ifaces [.nilptr, .str false [65]]) = .ok (some [255, 255, 255, 255, 0, 0, 0, 1, 65]) ∧
    marshal 4 (.tuple [.blob, .text]) (.struct [.bytes false true [], .str false [65]]) = .ok (some [255, 255, 255, 255, 0, 0, 0, 1, 65]) ∧
    specEnc 4 (.tuple [.int, .text]) (.tuple [.null, .bytes [65]]) = some [255, 255, 255, 255, 0, 0, 0, 1, 65] := by
  have h1 : encInt (toS 32 1) = [0, 0, 0, 1] := by decide
  have hm : encInt (-1) = [255, 255, 255, 255] := by decide
  refine ⟨?_, ?_, by decide⟩ <;>
    simp [marshal, wrapTuple, marshalTupleIfaces, marshalTupleFields, GoVal.isNil, GoVal.isNilPtr, appendBytes,
      marshalScalar, marshalVarcharColumn, h1, hm]


/-! ## the 2-byte framing of protocol ≤ 2, the decode direction of both framings, tuple / UDT fields -/

open C12Frame in
/-- `C12_list_framing` for protocol ≤ 2 (2-byte UNSIGNED count and element lengths, no null): if every element is
    marshalled to its specification bytes then the whole value is the specification's encoding.  The hypothesis
    "length ≤ 65535" is not needed as an assumption: success of Marshal implies it (second conjunct for the count,
    `C12_v2_too_large` for the elements) -/
theorem C12_list_framing_v2 (p : Nat) (hp : p ≤ 2) (et : CqlTy) (vs : List GoVal) (cs : List CqlVal) (b : Bytes)
    (hall : AllOK2 p et vs cs)
    (h : marshal p (.list et) (.slice false vs) = .ok (some b)) :
    specEnc p (.list et) (.list cs) = some b ∧ vs.length ≤ 65535 := by
  apply marshalList_spec_v2 p hp et vs cs b hall
  simpa [marshal] using h

/-- non-vacuity, kernel-checked: a list of one 1-byte text under protocol 2 -/
example : marshal 2 (.list .text) (.slice false [.str false [97]]) = .ok (some [0, 1, 0, 1, 97]) ∧
    specEnc 2 (.list .text) (.list [.bytes [97]]) = some [0, 1, 0, 1, 97] := by
  refine ⟨?_, by decide⟩
  have h1 : encShort (toS 16 1) = [0, 1] := by decide
  simp [marshal, wrapSeq, marshalElems, collSize, collItem, marshalScalar, marshalVarcharColumn, h1]

/-- "65536 must be an error" under protocol ≤ 2: neither marshal.go nor the specification can frame an element of
    more than 65535 bytes (and 65535 itself is framed: `C12_coll_length_readback`) -/
theorem C12_v2_too_large (p : Nat) (hp : p ≤ 2) (b : Bytes) (h : b.length > 65535) :
    collItem p (some b) = none ∧ elemFrame p (some b) = none := C12Frame.too_large_v2 p hp b h

/-- decode direction of the length fields: what writeCollectionSize wrote, readCollectionSize reads back — under
    protocol ≤ 2 the [short] is read back UNSIGNED, for every count / length up to 65535 (an `int16` reading would
    make 32768..65535 negative); an element's bytes come back unchanged (EMPTY stays empty) and a null (protocol ≥ 3)
    comes back as null -/
theorem C12_coll_length_readback (p : Nat) (rest : Bytes) :
    (∀ (n : Nat) (c : Bytes), collSize p (n:Int) = some c → readCollSize p (c ++ rest) = some ((n:Int), rest)) ∧
    (∀ (b e : Bytes), collItem p (some b) = some e → readCollItem p (e ++ rest) = some (some b, rest)) ∧
    (p ≥ 3 → ∀ e, collItem p none = some e → readCollItem p (e ++ rest) = some (none, rest)) :=
  ⟨fun n c h => C12Frame.readCollSize_collSize p n c rest h,
   fun b e h => C12Frame.readCollItem_collItem p b e rest h,
   fun hp e h => C12Frame.readCollItem_null p hp e rest h⟩

/-- the boundary itself, kernel-checked: length 65535 (ff ff) is written under protocol 2 and read back as 65535, 32768
    (80 00) as 32768 -/
example : collSize 2 65535 = some [255, 255] ∧ readCollSize 2 [255, 255] = some (65535, []) ∧
    collSize 2 32768 = some [128, 0] ∧ readCollSize 2 [128, 0] = some (32768, []) ∧ collSize 2 65536 = none := by
  decide

/-- the readers of the model accept whatever the SPECIFICATION's readers accept, with the same result: collection
    count, collection element (both framings; under protocol ≤ 2 the two are the same function), tuple / UDT field
    — in particular length 0 is a present, EMPTY value and only a negative length is null -/
theorem C12_readers_conform (p : Nat) (b r : Bytes) :
    (∀ n, readCount p b = some (n, r) → readCollSize p b = some ((n:Int), r)) ∧
    (∀ e, readElem p b = some (e, r) → readCollItem p b = some (e, r)) ∧
    (p ≤ 2 → readCollItem p b = readElem p b) ∧
    (∀ e, readBytesFrame b = some (e, r) → readBytesM b = some (e, r)) :=
  ⟨fun n h => C12Frame.readCollSize_of_readCount p b r n h,
   fun e h => C12Frame.readCollItem_of_readElem p b r e h,
   fun hp => C12Frame.readCollItem_eq_readElem_v2 p hp b,
   fun e h => C12Frame.readBytesM_of_readBytesFrame b r e h⟩

/-- null ≠ empty inside tuples and UDTs, both sides: the field writer followed by the field reader gives back null
    for null (−1) and the EMPTY value for an empty value (0) — for the model of marshal.go (appendBytes / readBytes)
    and for the specification (`bytesFrame` / `readBytesFrame`) -/
theorem C12_field_null_vs_empty (rest : Bytes) :
    readBytesM (appendBytes (some []) ++ rest) = some (some [], rest) ∧
    readBytesM (appendBytes none ++ rest) = some (none, rest) ∧
    readBytesFrame (bytesFrame (some []) ++ rest) = some (some [], rest) ∧
    readBytesFrame (bytesFrame none ++ rest) = some (none, rest) :=
  ⟨(C12Frame.readBytesM_empty_vs_null rest).1, (C12Frame.readBytesM_empty_vs_null rest).2,
   C12Frame.readBytesFrame_bytesFrame (some []) rest (by intro b hb; injection hb with hb; subst hb; simp),
   C12Frame.readBytesFrame_bytesFrame none rest (by intro b hb; cases hb)⟩

open C12Frame in
/-- `specDec (specEnc v) = v` for tuples and UDTs, given it for the non-null fields (`FieldsRT`): null fields, EMPTY
    fields and absent trailing fields (a UDT value shorter than its type) all come back as they were -/
theorem C12_spec_fields_roundtrip (p : Nat) (names : List String) (ts : List CqlTy) (vs : List CqlVal) (b : Bytes)
    (hf : FieldsRT p ts vs) :
    (specEnc p (.tuple ts) (.tuple vs) = some b → specDec p (.tuple ts) b = some (.tuple vs)) ∧
    (specEnc p (.udt names ts) (.tuple vs) = some b → specDec p (.udt names ts) b = some (.tuple vs)) := by
  constructor <;> intro h <;> simp only [specEnc] at h <;>
    simp [specDec, specDecFields_specEncFields p ts vs b hf h]

open C12Frame in
/-- non-vacuity: a UDT (text, text, int) holding (null, EMPTY) with the third field absent -/
example : specEnc 4 (.udt ["a", "b", "c"] [.text, .text, .int]) (.tuple [.null, .bytes []]) =
      some [255, 255, 255, 255, 0, 0, 0, 0] ∧
    specDec 4 (.udt ["a", "b", "c"] [.text, .text, .int]) [255, 255, 255, 255, 0, 0, 0, 0] =
      some (.tuple [.null, .bytes []]) := by
  have henc : specEnc 4 (.udt ["a", "b", "c"] [.text, .text, .int]) (.tuple [.null, .bytes []]) =
      some [255, 255, 255, 255, 0, 0, 0, 0] := by decide
  refine ⟨henc, ?_⟩
  refine (C12_spec_fields_roundtrip 4 ["a", "b", "c"] [.text, .text, .int] [.null, .bytes []] _ ?_).2 henc
  refine .cons (.inl rfl) (.cons (.inr ⟨rfl, ?_⟩) .nil)
  intro b hb
  simp [specEnc] at hb
  subst hb
  simp [specDec]

open C12Frame in
/-- model decode = specification decode, collections (structural step, both framings): if the model's element
    decoder `f` agrees with the specification's element decoder `g` (`ElemDecOK`: `rep c` for every decoded `c`,
    `rep null` for null) then unmarshalList's loop yields exactly the representation of what `decElems` yields -/
theorem C12_list_decode_framing (p : Nat) (f : Option Bytes → URes) (g : Bytes → Option CqlVal) (rep : CqlVal → GoVal)
    (hfg : ElemDecOK f g rep) (n : Nat) (b r : Bytes) (cs : List CqlVal)
    (h : decElems p g n b = some (cs, r)) : unmarshalElems p f n b = .ok (cs.map rep) r :=
  unmarshalElems_spec p f g rep hfg n b r cs h

open C12Frame in
/-- model decode = specification decode, tuples into scan targets (structural step): every field the specification
    reader delivers — null, EMPTY, bytes — reaches the field decoder as such, absent trailing fields are null -/
theorem C12_tuple_decode_framing (p : Nat) (ts : List CqlTy) (gs : List GoTy) (b : Bytes) (cs : List CqlVal)
    (xs : List GoVal) (h : specDecFields p ts b = some cs) (hok : ScanOK p ts gs cs xs) :
    unmarshalTupleScan p ts gs b = .ok xs [] :=
  unmarshalTupleScan_spec p ts gs b cs xs h hok

open C12Frame in
/-- model decode = specification decode, tuples into a struct / slice / array (structural step): `setField` is one
    field of unmarshalTuple — decode into goType(elem), then the slot rule `setSlot` (`unmarshalTupleSet_cons`); every
    field the specification reader delivers reaches it as null, EMPTY or bytes; absent trailing fields are null -/
theorem C12_tuple_struct_decode_framing (p : Nat) (ts : List CqlTy) (gs : List GoTy) (b : Bytes) (cs : List CqlVal)
    (xs : List GoVal) (h : specDecFields p ts b = some cs) (hok : SetOK p ts gs cs xs) :
    unmarshalTupleSet p ts gs b = .ok xs [] :=
  unmarshalTupleSet_spec p ts gs b cs xs h hok

open C12Frame in
/-- the slot rule keeps null and EMPTY apart: a pointer field of the element's Go type is nil exactly for a null
    element; a present element — empty or not — gives a non-nil pointer to the decoded value -/
theorem C12_slot_null_vs_empty (t : CqlTy) (item : Option Bytes) (v : GoVal) :
    setSlot t (.ptr (goTypeOf t)) item v = if item.isSome then .ok (.ptr v) else .ok .nilptr :=
  setSlot_ptr t item v

/-! ## duration: three zig-zag vints -/

/-- encVint = the specification's signed vint (zig-zag, then the unsigned vint whose first byte announces the number
    of extra bytes by its leading one bits, 1..9 bytes) for every int64; encIntZigZag = zig-zag -/
theorem C12_vint (n : Int) (h : fitsS 8 n = true) :
    encVint n = specVint n ∧ encIntZigZag n = zigzag n ∧ unzigzag (zigzag n) = n :=
  ⟨C12Vint.encVint_spec n h, C12Vint.encIntZigZag_spec n h, C12Vint.unzigzag_zigzag n⟩

theorem fits4_fits8 (m : Int) (h : fitsS 4 m = true) : fitsS 8 m = true := by
  simp [fitsS, leB_iff, ltB_iff] at h ⊢; omega

/-- gocql.Duration, time.Duration, int64 AND every named int64 type (the reflect.Int64 fallback, repair of KF-C12-3)
    bound to a duration column: months, days, nanoseconds as three vints -/
theorem C12_duration_conforms (p : Nat) (m d n : Int) (named : Bool)
    (hm : fitsS 4 m = true) (hd : fitsS 4 d = true) (hn : fitsS 8 n = true) :
    marshalScalar .duration (.cqldur m d n) = .ok (specEnc p .duration (.duration m d n)) ∧
    marshalScalar .duration (.dur n) = .ok (specEnc p .duration (.duration 0 0 n)) ∧
    marshalScalar .duration (.int .int64 named n) = .ok (specEnc p .duration (.duration 0 0 n)) := by
  have h0 : fitsS 4 0 = true := by decide
  have e0 := C12Vint.encVint_spec 0 (by decide)
  refine ⟨?_, ?_, ?_⟩ <;> try cases named <;>
    simp [marshalScalar, specEnc, encVints, hm, hd, hn, h0, e0,
      C12Vint.encVint_spec m (fits4_fits8 m hm), C12Vint.encVint_spec d (fits4_fits8 d hd), C12Vint.encVint_spec n hn]

/-- the regression input of KF-C12-3, kernel-checked: `spec 4 duration ni int64 1` is 00 00 02 -/
example : marshalScalar .duration (.int .int64 true 1) = .ok (some [0, 0, 2]) ∧
    specEnc 4 .duration (.duration 0 0 1) = some [0, 0, 2] := by
  have hs : specEnc 4 .duration (.duration 0 0 1) = some [0, 0, 2] := by decide
  refine ⟨?_, hs⟩
  rw [(C12_duration_conforms 4 0 0 1 true (by decide) (by decide) (by decide)).2.2, hs]

/-! ## decimal, big.Int → varint, and every other scalar; every nesting (structural induction) -/

/-- marshal.go encBigInt2C (big.Int → bytes, used WITHOUT the trimming loop by marshalDecimal) is the specification's
    varint — the shortest two's complement form — for EVERY integer, in particular at −2^(8k−1) where
    `BitLen()` is a multiple of 8 and one 0xFF has to be stripped -/
theorem C12_encBigInt2C_minimal (n : Int) : encBigInt2C n = specVarint n := C12BigInt.encBigInt2C_spec n

/-- decimal: 4-byte scale, then the unscaled value as varint — for every inf.Dec (scale is an int32) -/
theorem C12_decimal_conforms (p : Nat) (u s : Int) (hs : fitsS 4 s = true) :
    marshalScalar .decimal (.dec u s) = .ok (specEnc p .decimal (.decimal u s)) := by
  simp [marshalScalar, specEnc, hs, encInt_eq, tcEnc_toS32, C12BigInt.encBigInt2C_spec]

/-- non-vacuity at the boundary: −1.28 (unscaled −128, scale 2) is 00 00 00 02 80, not 00 00 00 02 ff 80 -/
example : marshalScalar .decimal (.dec (-128) 2) = .ok (some [0, 0, 0, 2, 128]) := by
  rw [C12_decimal_conforms 4 (-128) 2 (by decide)]
  have : specVarint (-128) = [128] := by rw [specVarint]; simp [byteOfNat]
  simp [specEnc, this]; decide

/-- a big.Int bound to a varint column: the specification's varint for every integer -/
theorem C12_varint_bigInt_conforms (p : Nat) (v : Int) :
    marshalScalar .varint (.big v) = .ok (specEnc p .varint (.int v)) := by
  simp [marshalScalar, marshalVarintColumn, specEnc, C12Nest.marshalVarintBig_spec]

/-- EVERY scalar column × every documented Go scalar that is a value of its Go type (`wfScalar`: integer in the range
    of its kind, 16-byte UUID, int32 scale, nanosecond part in [0, 10^9) …) outside the exact `excludedScalar`
    predicate (the open findings): Marshal returns the nil slice exactly for null, otherwise the specification's
    bytes of the documented meaning, or an error (no bytes); never a panic.  Covers float / double bit patterns,
    decimal, inet (4 or 16 bytes, IPv4-mapped → 4), uuid / timeuuid (also from strings and []byte), time, boolean,
    text / blob, and the integer / varint / date / timestamp / duration cases proved above -/
theorem C12_scalar_conforms (p : Nat) (t : CqlTy) (g : GoVal) (ht : Marshal.CqlTy.isScalar t = true)
    (hwf : C12Nest.wfScalar g) (hd : documentedScalar t g = true) (hx : excludedScalar t g = false) :
    C12Nest.Conf p t (marshalScalar t g) (interpScalar t g) := C12Nest.scalar_conf p t g ht hwf hd hx

/-- non-vacuity: float 1.0 (bit pattern 0x3f800000), IPv4-mapped IPv6 address → 4 bytes -/
example : marshalScalar .float (.f32 false 1065353216) = .ok (some [63, 128, 0, 0]) ∧
    specEnc 4 .float (.f32 1065353216) = some [63, 128, 0, 0] := by
  refine ⟨?_, by decide⟩
  have : encInt (toS 32 1065353216) = [63, 128, 0, 0] := by decide
  simp [marshalScalar, this]
example : marshalScalar .inet (.ip [0,0,0,0,0,0,0,0,0,0,255,255,10,0,0,1]) = .ok (some [10, 0, 0, 1]) ∧
    interpScalar .inet (.ip [0,0,0,0,0,0,0,0,0,0,255,255,10,0,0,1]) = some (.bytes [10, 0, 0, 1]) := by
  have : ipTo4 [0,0,0,0,0,0,0,0,0,0,255,255,10,0,0,1] = some [10, 0, 0, 1] := by decide
  simp [marshalScalar, interpScalar, this]

/-- CONFORMANCE AT EVERY NESTING DEPTH, EVERY PROTOCOL VERSION (both collection framings), by induction on the Go value: for every type tree built from
    the 21 scalar types with list, set, map, non-empty tuples AND user defined types (`nest`: a UDT has at least one
    field, no field name twice — `nodupB`, what CREATE TYPE enforces — and as many names as types), every Go value all of whose parts are values
    of their Go types (`wf`), documented for that column (`documented`) and outside the exact deviation predicate
    (`excluded`, the open findings): gocql.Marshal returns
      * the nil slice exactly when the documented meaning is null,
      * otherwise (result shorter than 2 GiB — a frame cannot carry more) exactly the specification's encoding
        `specEnc` of the documented meaning `interp`, collection counts, element lengths, −1 for null elements and
        null tuple fields included,
      * or an error (no bytes); never a panic, never an unmodelled combination.
    Under protocol ≤ 2 (2-byte unsigned counts and lengths, no null element) `excluded` keeps out exactly the
    collections holding a `nullish` element — untyped nil also behind pointers, typed nil pointer, nil []byte / slice /
    map (KF-C12-8, `C12_cex_null_element_v2`, `C12_cex_ptr_nil_v2`).
    The element hypotheses of `C12_list_framing` / `C12_tuple_framing` are discharged here by the induction. -/
theorem C12_marshal_conforms (p : Nat) (t : CqlTy) (g : GoVal) (hn : C12Nest.nest t = true)
    (hw : C12Nest.wf g) (hd : documented t g = true) (hx : excluded p t g = false) :
    (marshal p t g = .ok none → interp t g = some .null) ∧
    (∀ b, marshal p t g = .ok (some b) → b.length < 2^31 →
      ∃ c, interp t g = some c ∧ c.isNull = false ∧ specEnc p t c = some b) ∧
    marshal p t g ≠ .crash ∧ marshal p t g ≠ .unmodelled := by
  have h := C12Nest.marshal_conforms p t g hn hw hd hx
  refine ⟨fun e => ?_, fun b e hl => ?_, fun e => ?_, fun e => ?_⟩ <;> rw [e] at h
  · exact h
  · exact h hl
  · exact h
  · exact h

/-- non-vacuity: a list of (text, int) tuples from a slice of structs whose second field is a typed nil pointer —
    all hypotheses hold, so the real result [count 1][len 9][len 1 'a'][−1] is the specification's encoding -/
example : ∃ c, interp (.list (.tuple [.text, .int])) (.slice false [.struct [.str false [97], .nilptr]]) = some c ∧
    specEnc 4 (.list (.tuple [.text, .int])) c = some [0,0,0,1, 0,0,0,9, 0,0,0,1,97, 255,255,255,255] := by
  have hm : marshal 4 (.list (.tuple [.text, .int])) (.slice false [.struct [.str false [97], .nilptr]]) =
      .ok (some [0,0,0,1, 0,0,0,9, 0,0,0,1,97, 255,255,255,255]) := by
    have h1 : encInt (toS 32 1) = [0, 0, 0, 1] := by decide
    have h9 : encInt (toS 32 9) = [0, 0, 0, 9] := by decide
    have hm1 : encInt (-1) = [255, 255, 255, 255] := by decide
    simp [marshal, wrapSeq, marshalElems, collSize, collItem, wrapTuple, marshalTupleFields, GoVal.isNilPtr, appendBytes,
      marshalScalar, marshalVarcharColumn, h1, h9, hm1]
  obtain ⟨c, hc, _, hs⟩ := (C12_marshal_conforms 4 _ _ (by decide)
    (by simp [C12Nest.wf, C12Nest.wfAll, C12Nest.wfScalar]) (by decide) (by decide)).2.1 _ hm (by decide)
  exact ⟨c, hc, hs⟩

/-- the well-formedness of a UDT type is decidable and real definitions meet it; a definition with a field name twice
    does not -/
example : C12Nest.nest (.udt ["lat", "lon", "alt"] [.double, .double, .list .int]) = true ∧
    C12Nest.nest (.udt ["a", "a"] [.int, .bigint]) = false ∧ C12Nest.nest (.udt [] []) = false := by decide

/-- non-vacuity for UDT columns: the struct {b:"x", a:5} bound to the type (a int, b text) — fields in the order of
    the TYPE, each through its own name -/
example : ∃ c, interp (.udt ["a", "b"] [.int, .text]) (.udtstruct ["b", "a"] [.str false [120], .int .int false 5]) = some c ∧
    specEnc 4 (.udt ["a", "b"] [.int, .text]) c = some [0, 0, 0, 4, 0, 0, 0, 5, 0, 0, 0, 1, 120] := by
  have hm : marshal 4 (.udt ["a", "b"] [.int, .text]) (.udtstruct ["b", "a"] [.str false [120], .int .int false 5]) =
      .ok (some [0, 0, 0, 4, 0, 0, 0, 5, 0, 0, 0, 1, 120]) := by
    have h5 : encInt (toS 32 5) = [0, 0, 0, 5] := by decide
    have h4 : encInt (toS 32 4) = [0, 0, 0, 4] := by decide
    have h1 : encInt (toS 32 1) = [0, 0, 0, 1] := by decide
    simp [marshal, udtAssemble, marshalNamed, lookupIdx, seqItems, appendBytes, marshalScalar, marshalIntColumn, optM,
      marshalIntKind, marshalVarcharColumn, h5, h4, h1]
  obtain ⟨c, hc, _, hs⟩ := (C12_marshal_conforms 4 _ _ (by decide)
    (by simp [C12Nest.wf, C12Nest.wfAll, C12Nest.wfScalar, IntKind.holds, IntKind.signed, IntKind.bits, leB, ltB])
    (by decide) (by decide)).2.1 _ hm (by decide)
  exact ⟨c, hc, hs⟩

/-- the hypothesis "no field name twice" is needed FOR THE MODEL: marshalNamed resolves the column type of a Go entry
    through the first UDT field of its name, so for the ill-formed type (a int, a bigint) the model writes 4 + 4 bytes
    where the specification (and, checked with `enc 4 udt 2 a int a bigint us 1 a i int 5`, the real marshalUDT, which
    uses each field's own type: 4 + 8 bytes) does not.  Outside `nest` model and code differ; such types are never
    generated (Cassandra refuses them). -/
theorem C12_cex_udt_duplicate_names :
    marshal 4 (.udt ["a", "a"] [.int, .bigint]) (.udtstruct ["a"] [.int .int false 5]) =
      .ok (some [0, 0, 0, 4, 0, 0, 0, 5, 0, 0, 0, 4, 0, 0, 0, 5]) ∧
    specEnc 4 (.udt ["a", "a"] [.int, .bigint]) (.tuple [.int 5, .int 5]) =
      some [0, 0, 0, 4, 0, 0, 0, 5, 0, 0, 0, 8, 0, 0, 0, 0, 0, 0, 0, 5] := by
  refine ⟨?_, by decide⟩
  have h5 : encInt (toS 32 5) = [0, 0, 0, 5] := by decide
  have h4 : encInt (toS 32 4) = [0, 0, 0, 4] := by decide
  simp [marshal, udtAssemble, marshalNamed, lookupIdx, seqItems, appendBytes, marshalScalar, marshalIntColumn, optM,
    marshalIntKind, h5, h4]

/-- KF-C12-8 also behind a pointer: a `*interface{}` holding nil inside a collection under protocol ≤ 2 is written as a
    zero-length element; the specification has no encoding (no null in the 2-byte framing).  `nullish` (and the
    harness classifier valgen.Excluded) count it since this round: before, `excluded` tested `v == nil` only and
    the conformance statement was false for this input.  = replay input `enc 2 map int int map k int ptr iface 1 i int 1 ptr nil` -/
theorem C12_cex_ptr_nil_v2 :
    marshal 2 (.map .int .int) (.map false [(.int .int false 1, .ptr .nil)]) = .ok (some [0, 1, 0, 4, 0, 0, 0, 1, 0, 0]) ∧
    specEnc 2 (.map .int .int) (.map [(.int 1, .null)]) = none ∧
    excluded 2 (.map .int .int) (.map false [(.int .int false 1, .ptr .nil)]) = true ∧
    excluded 3 (.map .int .int) (.map false [(.int .int false 1, .ptr .nil)]) = false := by
  refine ⟨?_, by decide, by decide, by decide⟩
  have h1 : encShort (toS 16 1) = [0, 1] := by decide
  have h0 : encShort (toS 16 0) = [0, 0] := by decide
  have h4 : encShort (toS 16 4) = [0, 4] := by decide
  have hi : encInt (toS 32 1) = [0, 0, 0, 1] := by decide
  simp [marshal, wrapSeq, marshalPairs, collSize, collItem, marshalScalar, marshalIntColumn, optM, marshalIntKind, h1, h0, h4, hi]

/-- non-vacuity under protocol 2: set<text> from a slice of strings, 2-byte framing -/
example : ∃ c, interp (.set .text) (.slice false [.str false [97], .str false []]) = some c ∧
    specEnc 2 (.set .text) c = some [0, 2, 0, 1, 97, 0, 0] := by
  have hm : marshal 2 (.set .text) (.slice false [.str false [97], .str false []]) = .ok (some [0, 2, 0, 1, 97, 0, 0]) := by
    have h2 : encShort (toS 16 2) = [0, 2] := by decide
    have h1 : encShort (toS 16 1) = [0, 1] := by decide
    have h0 : encShort (toS 16 0) = [0, 0] := by decide
    simp [marshal, wrapSeq, marshalElems, collSize, collItem, marshalScalar, marshalVarcharColumn, h2, h1, h0]
  obtain ⟨c, hc, _, hs⟩ := (C12_marshal_conforms 2 _ _ (by decide)
    (by simp [C12Nest.wf, C12Nest.wfAll, C12Nest.wfScalar]) (by decide) (by decide)).2.1 _ hm (by decide)
  exact ⟨c, hc, hs⟩

/-- the converse for the scalars with a layout of their own: every specification-conformant decimal / float / double /
    time encoding (`specDec … = some …`) decodes, in the model of gocql.Unmarshal, to exactly the value the
    specification decoder reads — unscaled value as two's complement of any length and 4-byte scale, IEEE bit
    patterns unchanged (NaN payloads included), nanoseconds as 8-byte two's complement -/
theorem C12_scalar_decode_conforms (p : Nat) (isNil named : Bool) (b : Bytes) :
    (∀ u s, specDec p .decimal b = some (.decimal u s) → unmarshalScalar .decimal isNil b .dec = .ok (.dec u s)) ∧
    (∀ x, specDec p .float b = some (.f32 x) → unmarshalScalar .float isNil b (.f32 false) = .ok (.f32 false x)) ∧
    (∀ x, specDec p .double b = some (.f64 x) → unmarshalScalar .double isNil b (.f64 named) = .ok (.f64 named x)) ∧
    (∀ n, specDec p .time b = some (.int n) →
      unmarshalScalar .time isNil b (.int .int64 named) = .ok (.int .int64 named n) ∧
      unmarshalScalar .time isNil b .dur = .ok (.dur n)) :=
  ⟨fun u s h => C12Decode.decimal_decode p isNil b u s h, fun x h => C12Decode.float_decode p isNil b x h,
   fun x h => C12Decode.double_decode p isNil named b x h, fun n h => C12Decode.time_decode p isNil named b n h⟩

/-- non-vacuity: 00 00 00 02 80 is the conformant decimal −1.28 -/
example : specDec 4 .decimal [0, 0, 0, 2, 128] = some (.decimal (-128) 2) := by
  have h1 : tcDec [128] = -128 := by decide
  have h2 : tcDec [0, 0, 0, 2] = 2 := by decide
  simp [specDec, minimalTC, h1, h2]

theorem toS32_id (x : Int) (h : fitsS 4 x = true) : toS 32 x = x := by
  simp [fitsS, leB_iff, ltB_iff] at h
  simp [toS]; omega

/-- duration, converse direction — closes the chain source text → model → specification for duration: marshal.go's
    decVint (generated code = `Marshal.decVint`: GenTie.C12.decVint) reads, for EVERY byte string, exactly what the
    specification's vint reader reads (first byte's leading one bits = number of extra bytes, big-endian payload,
    zig-zag); hence every specification-conformant duration decodes into a gocql.Duration to the value the
    specification decoder reads.  (Encode direction: C12_vint, C12_duration_conforms, GenTie.C12.encVint.) -/
theorem C12_duration_decode_conforms (p : Nat) (isNil : Bool) :
    (∀ data : Bytes, decVint data = specReadVint data) ∧
    (∀ (b : Bytes) (m d n : Int), specDec p .duration b = some (.duration m d n) →
      unmarshalScalar .duration isNil b .cqldur = .ok (.cqldur m d n)) := by
  refine ⟨C12VintDec.decVint_spec, fun b m d n h => ?_⟩
  have e : unmarshalScalar .duration isNil b .cqldur =
      (if b = [] then URes.ok (.cqldur 0 0 0) else
        (match decVints b with
         | some (m, dd, n) => URes.ok (.cqldur m dd n)
         | none => URes.err)) := rfl
  cases h1 : specReadVint b with
  | none => simp [specDec, h1] at h
  | some x1 =>
    obtain ⟨m', r1⟩ := x1
    cases h2 : specReadVint r1 with
    | none => simp [specDec, h1, h2] at h
    | some x2 =>
      obtain ⟨d', r2⟩ := x2
      cases h3 : specReadVint r2 with
      | none => simp [specDec, h1, h2, h3] at h
      | some x3 =>
        obtain ⟨n', r3⟩ := x3
        simp [specDec, h1, h2, h3] at h
        obtain ⟨⟨_, hm, hd, _⟩, rfl, rfl, rfl⟩ := h
        have hne : b ≠ [] := by
          intro hb; subst hb; simp [specReadVint, specReadUVint] at h1
        have hv : decVints b = some (m', d', n') := by
          simp [decVints, C12VintDec.decVint_spec, h1, h2, h3, toS32_id _ hm, toS32_id _ hd]
        rw [e, if_neg hne, hv]

/-- non-vacuity: the one-byte vint 02 is 1, the two-byte vint 80 81 is −65, rest untouched -/
example : decVint [2, 7] = some (1, [7]) ∧ decVint [0x80, 0x81, 9] = some (-65, [9]) := by
  rw [(C12_duration_decode_conforms 4 false).1, (C12_duration_decode_conforms 4 false).1]
  decide

/-! ## histories inside one process: the same Go type marshalled for several type descriptions -/

open MarshalMemo in
/-- HISTORY INDEPENDENCE, for ALL call sequences: in the process of the code that exists (no state between calls:
    `pureRun`, the machine op `hist` is answered with, `F` = the specification's answer to the call's own protocol,
    type description and Go value) the answers to the calls `cs` are the same whatever calls `h` were made before
    them in the same process — same Go type under other UDT definitions (reordered / renamed / added fields),
    other tuple arities, other element types — and each is `F` of its own call -/
theorem C12_history_independent {α β : Type} (F : α → β) (h cs : List α) :
    (pureRun F () (h ++ cs)).drop h.length = pureRun F () cs ∧ pureRun F () cs = cs.map F := by
  simp [C12Hist.pureRun_eq]

open MarshalMemo in
/-- … and for every implementation that REMEMBERS a resolution (struct field ↔ UDT field, …) in per-process state:
    if every cache hit it accepts gives the stateless answer, all answers of all sequences are the stateless ones -/
theorem C12_memo_sound {α β ρ κ : Type} [DecidableEq κ] (M : Memo α β ρ κ)
    (hs : ∀ a a', M.key a' = M.key a → M.valid (M.resolve a') a = true → M.apply (M.resolve a') a = M.direct a)
    (as : List α) : M.run [] as = as.map M.direct :=
  C12Hist.memo_run M hs as [] (C12Hist.inv_nil M)

open MarshalMemo in
/-- non-vacuity: a cache keyed by (UDT field names, struct tags) meets the hypothesis -/
example (as : List UCall) : soundUdt.run [] as = as.map soundUdt.direct := by
  apply C12_memo_sound
  intro a a' hk _
  simp only [soundUdt, Prod.mk.injEq] at hk
  simp [Memo.direct, soundUdt, udtResolve, hk.1, hk.2]

open MarshalMemo in
/-- FULL STATEMENT "every memo is history independent" is false. Kernel-checked: the field resolution cached per
    (struct type, keyspace, type name) and re-used when the number of fields agrees — the struct {a:10, b:20} for
    the definition (a, b) and then for the look-alike definition (b, a): the second value is written in the stale
    order 10 20 instead of 20 10.  Each call alone, or the look-alike first, is right: only a SEQUENCE shows it
    (= the replay shape of op `hist`) -/
theorem C12_cex_stale_udt_cache :
    staleUdt.run [] [([1, 2], [1, 2], [10, 20]), ([2, 1], [1, 2], [10, 20])] = [[10, 20], [10, 20]] ∧
    [([1, 2], [1, 2], [10, 20]), ([2, 1], [1, 2], [10, 20])].map staleUdt.direct = [[10, 20], [20, 10]] ∧
    staleUdt.run [] [([2, 1], [1, 2], [10, 20])] = [[20, 10]] ∧
    soundUdt.run [] [([1, 2], [1, 2], [10, 20]), ([2, 1], [1, 2], [10, 20])] = [[10, 20], [20, 10]] := by
  decide

end C12
