import Model.PlacementConc
/-!
C10 helper: two goroutines, each running ONE critical section under the mutex, in any interleaving: the shared state
at the end is that of one of the two serial orders.
-/
namespace C10Conc
open PlacementConc

variable {σ L : Type}

theorem thr_set_same (m : Mach σ L) (x : Bool) (t : Thr σ L) : (setThr m x t).thr x = t := by simp [setThr]
theorem thr_set_other (m : Mach σ L) (x : Bool) (t : Thr σ L) : (setThr m x t).thr (!x) = m.thr (!x) := by
  cases x <;> simp [setThr]
theorem sh_set (m : Mach σ L) (x : Bool) (t : Thr σ L) : (setThr m x t).sh = m.sh := rfl

theorem exec_cons (f : Micro σ L) (fs : List (Micro σ L)) (st : σ × L) : exec (f :: fs) st = exec fs (f st.1 st.2) := rfl

/-- state after goroutine `x`'s mutator alone, and after the other one following it -/
def S1 (s : σ) (l0 : L) (P : Bool → List (Micro σ L)) (x : Bool) : σ := (exec (P x) (s, l0)).1
def S2 (s : σ) (l0 : L) (P : Bool → List (Micro σ L)) (x : Bool) : σ := (exec (P (!x)) (S1 s l0 P x, l0)).1

def Fresh (P : Bool → List (Micro σ L)) (l0 : L) (m : Mach σ L) (z : Bool) : Prop :=
  m.thr z = ⟨[P z], false, l0⟩
def Fin (m : Mach σ L) (z : Bool) : Prop := ∃ l, m.thr z = ⟨[], false, l⟩
def Hold (m : Mach σ L) (z : Bool) (goal : σ) : Prop :=
  ∃ r l, m.thr z = ⟨[r], true, l⟩ ∧ (exec r (m.sh, l)).1 = goal

/-- what is reachable: nobody started; `x` is inside its section and the other has not started; `x` is through and the
other has not started / is inside / is through -/
def Inv (s : σ) (l0 : L) (P : Bool → List (Micro σ L)) (m : Mach σ L) : Prop :=
  ((∀ z, Fresh P l0 m z) ∧ m.sh = s) ∨
  ∃ x, (Hold m x (S1 s l0 P x) ∧ Fresh P l0 m (!x)) ∨
       (Fin m x ∧ Fresh P l0 m (!x) ∧ m.sh = S1 s l0 P x) ∨
       (Fin m x ∧ Hold m (!x) (S2 s l0 P x)) ∨
       (Fin m x ∧ Fin m (!x) ∧ m.sh = S2 s l0 P x)

theorem bool_cases (x y : Bool) : y = x ∨ y = !x := by cases x <;> cases y <;> simp

/-- a step of a goroutine that is through changes nothing -/
theorem step_fin (m : Mach σ L) (y : Bool) (h : Fin m y) : step m y = m := by
  obtain ⟨l, hl⟩ := h
  simp [step, hl]

/-- a step of a fresh goroutine while the other one holds the mutex changes nothing (blocked) -/
theorem step_blocked (m : Mach σ L) (y : Bool) (p : List (Micro σ L)) (l0 : L) (hy : m.thr y = ⟨[p], false, l0⟩)
    (ho : (m.thr (!y)).holding = true) : step m y = m := by
  simp [step, hy, ho]

/-- a fresh goroutine takes the free mutex -/
theorem step_lock (m : Mach σ L) (y : Bool) (p : List (Micro σ L)) (l0 : L) (hy : m.thr y = ⟨[p], false, l0⟩)
    (ho : (m.thr (!y)).holding = false) : step m y = setThr m y ⟨[p], true, l0⟩ := by
  simp [step, hy, ho]

/-- a goroutine inside its section: next micro-step, or unlock at the end; what it is heading for is kept -/
theorem step_hold (m : Mach σ L) (y : Bool) (goal : σ) (h : Hold m y goal) :
    (Hold (step m y) y goal ∧ (step m y).thr (!y) = m.thr (!y)) ∨
    (Fin (step m y) y ∧ (step m y).thr (!y) = m.thr (!y) ∧ (step m y).sh = goal) := by
  obtain ⟨r, l, hl, hg⟩ := h
  cases r with
  | nil =>
    right
    have : step m y = setThr m y ⟨[], false, l⟩ := by simp [step, hl]
    rw [this]
    exact ⟨⟨l, thr_set_same _ _ _⟩, thr_set_other _ _ _, by rw [sh_set]; exact hg⟩
  | cons f fs =>
    left
    have : step m y = { setThr m y ⟨[fs], true, (f m.sh l).2⟩ with sh := (f m.sh l).1 } := by simp [step, hl]
    rw [this]
    refine ⟨⟨fs, (f m.sh l).2, by simp [setThr], ?_⟩, by cases y <;> simp [setThr]⟩
    simpa [exec_cons] using hg

theorem inv_step (s : σ) (l0 : L) (P : Bool → List (Micro σ L)) (m : Mach σ L) (y : Bool)
    (h : Inv s l0 P m) : Inv s l0 P (step m y) := by
  rcases h with ⟨hf, hs⟩ | ⟨x, h⟩
  · -- nobody started: y takes the mutex
    have hy := hf y
    have ho : (m.thr (!y)).holding = false := by rw [hf (!y)]
    rw [step_lock m y (P y) l0 hy ho]
    right
    refine ⟨y, Or.inl ⟨⟨P y, l0, thr_set_same _ _ _, ?_⟩, ?_⟩⟩
    · rw [sh_set, hs]; rfl
    · unfold Fresh; rw [thr_set_other]; exact hf (!y)
  · rcases h with ⟨hh, hfo⟩ | ⟨hfx, hfo, hs⟩ | ⟨hfx, hh⟩ | ⟨hfx, hfo, hs⟩
    · -- x inside, other fresh
      rcases bool_cases x y with rfl | rfl
      · rcases step_hold m y _ hh with ⟨h1, h2⟩ | ⟨h1, h2, h3⟩
        · exact Or.inr ⟨y, Or.inl ⟨h1, by unfold Fresh at *; rw [h2]; exact hfo⟩⟩
        · exact Or.inr ⟨y, Or.inr (Or.inl ⟨h1, by unfold Fresh at *; rw [h2]; exact hfo, h3⟩)⟩
      · obtain ⟨r, l, hl, _⟩ := hh
        have hb : step m (!x) = m := step_blocked m (!x) (P (!x)) l0 hfo (by simp [hl])
        rw [hb]
        exact Or.inr ⟨x, Or.inl ⟨⟨r, l, hl, ‹_›⟩, hfo⟩⟩
    · -- x through, other fresh
      rcases bool_cases x y with rfl | rfl
      · rw [step_fin m y hfx]
        exact Or.inr ⟨y, Or.inr (Or.inl ⟨hfx, hfo, hs⟩)⟩
      · obtain ⟨l, hl⟩ := hfx
        have ho : (m.thr (!(!x))).holding = false := by simp [hl]
        rw [step_lock m (!x) (P (!x)) l0 hfo ho]
        refine Or.inr ⟨x, Or.inr (Or.inr (Or.inl ⟨⟨l, ?_⟩, ⟨P (!x), l0, thr_set_same _ _ _, ?_⟩⟩))⟩
        · have := thr_set_other m (!x) ⟨[P (!x)], true, l0⟩
          simp only [Bool.not_not] at this
          rw [this]; exact hl
        · rw [sh_set, hs]; rfl
    · -- x through, other inside
      rcases bool_cases x y with rfl | rfl
      · rw [step_fin m y hfx]
        exact Or.inr ⟨y, Or.inr (Or.inr (Or.inl ⟨hfx, hh⟩))⟩
      · obtain ⟨l, hl⟩ := hfx
        rcases step_hold m (!x) _ hh with ⟨h1, h2⟩ | ⟨h1, h2, h3⟩
        · simp only [Bool.not_not] at h2
          exact Or.inr ⟨x, Or.inr (Or.inr (Or.inl ⟨⟨l, by rw [h2]; exact hl⟩, h1⟩))⟩
        · simp only [Bool.not_not] at h2
          exact Or.inr ⟨x, Or.inr (Or.inr (Or.inr ⟨⟨l, by rw [h2]; exact hl⟩, h1, h3⟩))⟩
    · -- both through
      have : step m y = m := by
        rcases bool_cases x y with rfl | rfl
        · exact step_fin m y hfx
        · exact step_fin m (!x) hfo
      rw [this]
      exact Or.inr ⟨x, Or.inr (Or.inr (Or.inr ⟨hfx, hfo, hs⟩))⟩

theorem inv_run (s : σ) (l0 : L) (P : Bool → List (Micro σ L)) (sched : List Bool) :
    ∀ m, Inv s l0 P m → Inv s l0 P (run m sched) := by
  induction sched with
  | nil => intro m h; exact h
  | cons y r ih => intro m h; exact ih _ (inv_step s l0 P m y h)

/-- two goroutines, one critical section each, ANY schedule: once both are through, the shared state is that of
one of the two serial orders -/
theorem mutex_serial (s : σ) (l0 : L) (P : Bool → List (Micro σ L)) (sched : List Bool)
    (hd : ∀ z, ((run (start s l0 (fun x => [P x])) sched).thr z).secs = []) :
    (run (start s l0 (fun x => [P x])) sched).sh = S2 s l0 P false ∨
    (run (start s l0 (fun x => [P x])) sched).sh = S2 s l0 P true := by
  have h0 : Inv s l0 P (start s l0 (fun x => [P x])) := Or.inl ⟨fun z => rfl, rfl⟩
  have h := inv_run s l0 P sched _ h0
  generalize run (start s l0 (fun x => [P x])) sched = m at h hd
  rcases h with ⟨hf, _⟩ | ⟨x, h⟩
  · have := hd false; rw [hf false] at this; cases this
  · rcases h with ⟨⟨r, l, hl, _⟩, _⟩ | ⟨_, hfo, _⟩ | ⟨_, ⟨r, l, hl, _⟩⟩ | ⟨_, _, hs⟩
    · have := hd x; rw [hl] at this; cases this
    · have := hd (!x); rw [hfo] at this; cases this
    · have := hd (!x); rw [hl] at this; cases this
    · cases x
      · exact Or.inl hs
      · exact Or.inr hs

end C10Conc
