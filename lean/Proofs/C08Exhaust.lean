import Proofs.C08Seq
/-! C08: `GetStream` never reports exhaustion while some id stays free for the whole call.

The calling thread is looked at in isolation: its k-th atomic operation acts on an ARBITRARY shared
state `env[k]` (between two of its operations the other threads may have done anything), only the
number of words is fixed. -/
namespace C08
open Streams

/-- the thread's call: its successive atomic operations read the successive states of `env` -/
def threadRun : PC → List Shared → PC × Option Ret
  | pc, [] => (pc, none)
  | pc, sh :: rest =>
    match tstep sh pc with
    | (_, _, some r) => (.idle, some r)
    | (_, pc', none) => threadRun pc' rest

/-- `W id` = "id was seen in use in a value loaded earlier in this call" -/
def scanInv (n : Nat) (W : Nat → Prop) : PC → Prop
  | .g1 => True
  | .g2 _ => True
  | .g3 => True
  | .g4 off i => off < n ∧ i < n ∧ ∀ i', i' < i → ∀ j, j < 64 → W (((i' + off) % n) * 64 + j)
  | .g5 off i j _ => off < n ∧ i < n ∧ j < 64 ∧ (∀ i', i' < i → ∀ j, j < 64 → W (((i' + off) % n) * 64 + j)) ∧
      ∀ j', j' < j → W (((i + off) % n) * 64 + j')
  | .g6 off i j => off < n ∧ i < n ∧ j < 64 ∧ (∀ i', i' < i → ∀ j, j < 64 → W (((i' + off) % n) * 64 + j)) ∧
      ∀ j', j' < j → W (((i + off) % n) * 64 + j')
  | .g7 _ => True
  | _ => False

theorem bitAt_word (ws : List Word) (pos j : Nat) (hj : j < 64) :
    bitAt ws (pos * 64 + j) = (ws.getD pos 0).getLsbD (streamOffset j) := by
  unfold bitAt
  have h1 : (pos * 64 + j) / 64 = pos := by omega
  have h2 : streamOffset (pos * 64 + j) = streamOffset j := by unfold streamOffset; omega
  rw [h1, h2]

theorem all_of_rotation {n off : Nat} (_hn : 0 < n) (hoff : off < n) (W : Nat → Prop)
    (h : ∀ i', i' < n → ∀ j, j < 64 → W (((i' + off) % n) * 64 + j)) : ∀ id, id < 64 * n → W id := by
  intro id hid
  have := rotation_surj hoff (fun pos => ∀ j, j < 64 → W (pos * 64 + j)) h (id / 64) (by omega) (id % 64) (by omega)
  rwa [show id / 64 * 64 + id % 64 = id by omega] at this

/-- one load of word `i` with the j-loop at `j`: either the scan goes on with the invariant extended
    by what the loaded value shows, or the call fails and every id has been seen in use -/
theorem scan_after_load {n : Nat} (hn : 0 < n) (W : Nat → Prop) (sh : Shared) (hlen : sh.words.length = n)
    (off i j : Nat) (hoff : off < n) (hi : i < n) (hj : j ≤ 64)
    (hprev : ∀ i', i' < i → ∀ j, j < 64 → W (((i' + off) % n) * 64 + j))
    (hcur : ∀ j', j' < j → W (((i + off) % n) * 64 + j'))
    (r : PC × Option Ret)
    (hr : r = afterLoad n off i j (sh.words.getD ((i + off) % n) 0) ∨
          (r = nextWord n off i ∧ ∀ j', j' < 64 → (sh.words.getD ((i + off) % n) 0).getLsbD (streamOffset j') = true)) :
    let W' := fun id => W id ∨ bitAt sh.words id = true
    (r.2 = none ∧ scanInv n W' r.1) ∨ (r.2 = some (.stream 0 false) ∧ ∀ id, id < 64 * n → W' id) := by
  intro W'
  have hmono : ∀ id, W id → W' id := fun id h => Or.inl h
  -- finishing word i with every bit of it seen set
  have hfin : (∀ j', j' < 64 → W' (((i + off) % n) * 64 + j')) →
      ((nextWord n off i).2 = none ∧ scanInv n W' (nextWord n off i).1) ∨
      ((nextWord n off i).2 = some (.stream 0 false) ∧ ∀ id, id < 64 * n → W' id) := by
    intro hall
    have hprev' : ∀ i', i' < i + 1 → ∀ j, j < 64 → W' (((i' + off) % n) * 64 + j) := by
      intro i' hi' j hj
      rcases Nat.lt_or_ge i' i with h | h
      · exact hmono _ (hprev i' h j hj)
      · have : i' = i := by omega
        subst this; exact hall j hj
    unfold nextWord
    by_cases hlast : i + 1 < n
    · left; simp only [hlast, ↓reduceIte]
      exact ⟨trivial, hoff, hlast, hprev'⟩
    · right; simp only [hlast, ↓reduceIte]
      refine ⟨trivial, all_of_rotation hn hoff W' ?_⟩
      intro i' hi'; exact hprev' i' (by omega)
  rcases hr with hr | ⟨hr, hfull⟩
  · subst hr
    unfold afterLoad
    cases hfc : firstClear (sh.words.getD ((i + off) % n) 0) j with
    | some j2 =>
      obtain ⟨h1, h2, _⟩ := firstClear_some hfc
      left
      refine ⟨rfl, hoff, hi, h2, fun i' hi' j hj => hmono _ (hprev i' hi' j hj), ?_⟩
      intro j' hj'
      rcases Nat.lt_or_ge j' j with h | h
      · exact hmono _ (hcur j' h)
      · -- bits j ≤ j' < j2 are set in the loaded value (firstClear skipped them)
        right
        rw [bitAt_word _ _ _ (by omega)]
        unfold firstClear at hfc
        have := List.find?_eq_some_iff_append.mp hfc
        obtain ⟨_, as, bs, hsplit, hnot⟩ := this
        have hmem : j' ∈ as := by
          have hj'mem : j' ∈ List.range' j (64 - j) := by
            simp [List.mem_range']; exact ⟨j' - j, by omega, by omega⟩
          rw [hsplit] at hj'mem
          rcases List.mem_append.mp hj'mem with h | h
          · exact h
          · -- j' would be ≥ j2: range' is increasing
            exfalso
            have hsorted : (List.range' j (64 - j)).Pairwise (· < ·) := List.pairwise_lt_range'
            rw [hsplit] at hsorted
            have := (List.pairwise_append.mp hsorted).2.1
            rcases List.mem_cons.mp h with h | h
            · omega
            · have := (List.pairwise_cons.mp this).1 j' h
              omega
        have := hnot j' hmem
        rw [and_mask_eq_zero] at this
        simpa using this
    | none =>
      have hnone := firstClear_none hfc
      apply hfin
      intro j' hj'
      rcases Nat.lt_or_ge j' j with h | h
      · exact hmono _ (hcur j' h)
      · right; rw [bitAt_word _ _ _ hj']; exact hnone j' h hj'
  · subst hr
    apply hfin
    intro j' hj'
    right; rw [bitAt_word _ _ _ hj']; exact hfull j' hj'

theorem scan_step {n : Nat} (hn : 0 < n) (W : Nat → Prop) (sh : Shared) (hlen : sh.words.length = n)
    (pc : PC) (hinv : scanInv n W pc) :
    let W' := fun id => W id ∨ bitAt sh.words id = true
    ((tstep sh pc).2.2 = none ∧ scanInv n W' (tstep sh pc).2.1) ∨
    ((tstep sh pc).2.2 = some (.stream 0 false) ∧ ∀ id, id < 64 * n → W' id) ∨
    (∃ id, (tstep sh pc).2.2 = some (.stream id true)) := by
  intro W'
  have hmono : ∀ id, W id → W' id := fun id h => Or.inl h
  cases pc with
  | g1 => left; exact ⟨rfl, trivial⟩
  | g2 o =>
    left
    simp only [tstep]
    split
    · refine ⟨rfl, ?_, ?_, ?_⟩
      · rw [hlen]; exact Nat.mod_lt _ hn
      · exact hn
      · intro i' hi'; omega
    · exact ⟨rfl, trivial⟩
  | g3 => left; exact ⟨rfl, trivial⟩
  | g4 off i =>
    obtain ⟨hoff, hi, hprev⟩ := hinv
    have := scan_after_load hn W sh hlen off i 0 hoff hi (by omega) hprev (by intro j' h; omega)
      (if sh.words.getD ((i + off) % n) 0 = allOnes then nextWord n off i
        else afterLoad n off i 0 (sh.words.getD ((i + off) % n) 0))
      (by
        by_cases hall : sh.words.getD ((i + off) % n) 0 = allOnes
        · right; simp only [hall, ↓reduceIte]
          exact ⟨trivial, fun j' _ => allOnes_bit j'⟩
        · left; simp only [hall, ↓reduceIte])
    simp only [tstep, hlen]
    rcases this with h | h
    · left; exact h
    · right; left; exact h
  | g5 off i j b =>
    obtain ⟨hoff, hi, hj, hprev, hcur⟩ := hinv
    simp only [tstep]
    split
    · left; exact ⟨rfl, trivial⟩
    · left
      exact ⟨rfl, hoff, hi, hj, fun i' hi' j hj => hmono _ (hprev i' hi' j hj), fun j' hj' => hmono _ (hcur j' hj')⟩
  | g6 off i j =>
    obtain ⟨hoff, hi, hj, hprev, hcur⟩ := hinv
    have := scan_after_load hn W sh hlen off i j hoff hi (by omega) hprev hcur
      (afterLoad n off i j (sh.words.getD ((i + off) % n) 0)) (Or.inl rfl)
    simp only [tstep, hlen]
    rcases this with h | h
    · left; exact h
    · right; left; exact h
  | g7 id => right; right; exact ⟨id, rfl⟩
  | idle => exact absurd hinv id
  | c8 _ => exact absurd hinv id
  | c9 _ _ => exact absurd hinv id
  | c10 _ => exact absurd hinv id
  | c11 _ => exact absurd hinv id
  | a12 => exact absurd hinv id

theorem threadRun_exhausted {n : Nat} (hn : 0 < n) :
    ∀ (env : List Shared) (pc : PC) (W : Nat → Prop), (∀ sh, sh ∈ env → sh.words.length = n) →
      scanInv n W pc → (threadRun pc env).2 = some (.stream 0 false) →
      ∀ id, id < 64 * n → W id ∨ ∃ sh, sh ∈ env ∧ bitAt sh.words id = true := by
  intro env
  induction env with
  | nil => intro pc W _ _ h; simp [threadRun] at h
  | cons sh rest ih =>
    intro pc W hlen hinv hrun id hid
    have hs := scan_step hn W sh (hlen sh (by simp)) pc hinv
    simp only [threadRun] at hrun
    rcases hs with ⟨h1, h2⟩ | ⟨h1, h2⟩ | ⟨x, h1⟩
    · -- the call goes on
      have hcont : threadRun pc (sh :: rest) = threadRun (tstep sh pc).2.1 rest := by
        simp only [threadRun]
        generalize tstep sh pc = r at h1
        obtain ⟨a, b, c⟩ := r
        simp only at h1; subst h1; rfl
      simp only [threadRun] at hcont
      rw [hcont] at hrun
      rcases ih _ _ (fun s hs => hlen s (by simp [hs])) h2 hrun id hid with h | ⟨s, hs, hb⟩
      · rcases h with h | h
        · exact Or.inl h
        · exact Or.inr ⟨sh, by simp, h⟩
      · exact Or.inr ⟨s, by simp [hs], hb⟩
    · rcases h2 id hid with h | h
      · exact Or.inl h
      · exact Or.inr ⟨sh, by simp, h⟩
    · exfalso
      generalize tstep sh pc = r at h1 hrun
      obtain ⟨a, b, c⟩ := r
      simp only at h1; subst h1
      simp at hrun

end C08
