import Model.Writer
namespace Writer

/-- the attribution loop equals the positional specification, for every batch of non-empty frames and
    every byte count -/
theorem attrib_eq_spec : ∀ (ls : List Nat), (∀ l ∈ ls, 0 < l) → ∀ (n pre : Nat),
    attrib ls (n - pre) = Spec.attrib ls n pre
  | [], _, _, _ => rfl
  | l :: ls, hpos, n, pre => by
    have hl0 : 0 < l := hpos l (by simp)
    have hrest : ∀ x ∈ ls, 0 < x := fun x hx => hpos x (by simp [hx])
    simp only [attrib, Spec.attrib]
    by_cases hl : l ≤ n - pre
    · have h2 : pre + l ≤ n := by omega
      simp only [hl, h2, if_true]
      have : n - pre - l = n - (pre + l) := by omega
      rw [this, attrib_eq_spec ls hrest n (pre + l)]
    · have h2 : ¬ pre + l ≤ n := by omega
      simp only [hl, h2, if_false]
      have : (0:Nat) = n - (pre + l) := by omega
      rw [this, attrib_eq_spec ls hrest n (pre + l)]

theorem attrib_length : ∀ (ls : List Nat) (n : Nat), (attrib ls n).length = ls.length
  | [], _ => rfl
  | l :: ls, n => by
    simp only [attrib]
    split <;> simp [attrib_length ls]

/-- the reported byte counts add up to what the socket accepted -/
theorem attrib_sum : ∀ (ls : List Nat) (n : Nat), n ≤ (ls.foldr (· + ·) 0) →
    ((attrib ls n).map (·.1)).foldr (· + ·) 0 = n
  | [], n, h => by simp at h; simp [attrib, h]
  | l :: ls, n, h => by
    simp only [attrib]
    by_cases hl : l ≤ n
    · simp only [hl, if_true, List.map_cons, List.foldr_cons]
      simp only [List.foldr_cons] at h
      rw [attrib_sum ls (n - l) (by omega)]; omega
    · simp only [hl, if_false, List.map_cons, List.foldr_cons]
      have hz : ∀ (ls : List Nat), ((attrib ls 0).map (·.1)).foldr (· + ·) 0 = 0 := by
        intro ls
        induction ls with
        | nil => rfl
        | cons x xs ih =>
          simp only [attrib]
          split
          · rename_i hx
            have : x = 0 := by omega
            subst this
            simpa using ih
          · simpa using ih
      rw [hz]; omega

/-- a buffer is reported successful only with its full length -/
theorem attrib_ok_full : ∀ (ls : List Nat) (n : Nat) (i : Nat) (r : Nat × Bool),
    (attrib ls n)[i]? = some r → r.2 = true → ls[i]? = some r.1
  | [], _, _, _ => by simp [attrib]
  | l :: ls, n, i, r => by
    simp only [attrib]
    split
    · cases i with
      | zero => simp; intro h _; rw [← h]
      | succ i => simp; exact attrib_ok_full ls (n - l) i r
    · cases i with
      | zero => simp; intro h h2; rw [← h] at h2; simp at h2
      | succ i => simp; exact attrib_ok_full ls 0 i r

end Writer
