import Model.EventQueue
/-! helper lemmas for the event-debouncer schedules (Model/EventQueue.lean): memory lemmas, the simulation between
the memory-level model of the code and the value-level specification, invariants of the specification -/
namespace C16Queue
open ClusterView EvQueue

/-! ### memory -/

theorem read_write_other (m : Mem) (a i : Nat) (e : Ev) (s : Slice) (h : s.arr ≠ a ∨ s.len ≤ i) :
    (m.write a i e).read s = m.read s := by
  unfold Mem.read Mem.write
  apply List.map_congr_left
  intro j hj
  have hj' : j < s.len := by simpa using hj
  have : ¬ (s.arr = a ∧ j = i) := by
    rcases h with h | h
    · exact fun x => h x.1
    · exact fun x => by omega
  simp [this]

theorem range_succ_map {β : Type} (f : Nat → β) (n : Nat) :
    (List.range (n + 1)).map f = (List.range n).map f ++ [f n] := by
  simp [List.range_succ]

theorem read_append (grow : Nat → Nat) (m : Mem) (s : Slice) (e : Ev) :
    (m.append grow s e).1.read (m.append grow s e).2 = m.read s ++ [e] := by
  unfold Mem.append
  split
  · show (List.range (s.len + 1)).map ((m.write s.arr s.len e).cell s.arr) = _
    rw [range_succ_map]
    have h1 : (List.range s.len).map ((m.write s.arr s.len e).cell s.arr) = m.read s :=
      read_write_other m s.arr s.len e s (Or.inr (Nat.le_refl _))
    rw [h1]
    simp [Mem.write]
  · show (List.range (s.len + 1)).map _ = _
    rw [range_succ_map]
    congr 1
    · unfold Mem.read
      apply List.map_congr_left
      intro j hj
      have hj' : j < s.len := by simpa using hj
      simp [hj']
    · simp

theorem read_append_other (grow : Nat → Nat) (m : Mem) (s : Slice) (e : Ev) (s' : Slice)
    (h1 : s'.arr ≠ s.arr) (h2 : s'.arr < m.next) :
    (m.append grow s e).1.read s' = m.read s' := by
  unfold Mem.append
  split
  · exact read_write_other m s.arr s.len e s' (Or.inl h1)
  · unfold Mem.read
    apply List.map_congr_left
    intro j _
    have : s'.arr ≠ m.next := by omega
    simp [this]

theorem append_next (grow : Nat → Nat) (m : Mem) (s : Slice) (e : Ev) :
    m.next ≤ (m.append grow s e).1.next := by
  unfold Mem.append; split
  · exact Nat.le_refl _
  · exact Nat.le_succ _

theorem append_arr (grow : Nat → Nat) (m : Mem) (s : Slice) (e : Ev) :
    (m.append grow s e).2.arr = s.arr ∨ ((m.append grow s e).2.arr = m.next ∧ (m.append grow s e).1.next = m.next + 1) := by
  unfold Mem.append; split
  · exact Or.inl rfl
  · exact Or.inr ⟨rfl, rfl⟩

theorem append_len (grow : Nat → Nat) (m : Mem) (s : Slice) (e : Ev) : (m.append grow s e).2.len = s.len + 1 := by
  unfold Mem.append; split <;> rfl

/-! ### simulation: the code's memory-level behaviour is the specification's -/

structure Sim (q : Q) (s : Spec) : Prop where
  buf : q.mem.read q.events = s.buf
  started : q.started = s.started
  pending : q.pending.map (fun p => (p.1, q.mem.read p.2)) = s.pending
  handled : q.handled = s.handled
  stopped : q.stopped = s.stopped
  evAlloc : q.events.arr < q.mem.next
  pendAlloc : ∀ p ∈ q.pending, p.2.arr < q.mem.next ∧ p.2.arr ≠ q.events.arr

theorem read_length (m : Mem) (s : Slice) : (m.read s).length = s.len := by simp [Mem.read]

theorem sim_init : Sim {} {} := by
  constructor <;> simp [Mem.read, Mem.init]

theorem map_pending_congr (m m' : Mem) (l : List (Nat × Slice)) (h : ∀ p ∈ l, m'.read p.2 = m.read p.2) :
    l.map (fun p => (p.1, m'.read p.2)) = l.map (fun p => (p.1, m.read p.2)) := by
  apply List.map_congr_left
  intro p hp
  rw [h p hp]

theorem find_map (m : Mem) (k : Nat) : ∀ (l : List (Nat × Slice)),
    (l.map (fun p => (p.1, m.read p.2))).find? (fun p => p.1 == k)
      = (l.find? (fun p => p.1 == k)).map (fun p => (p.1, m.read p.2)) := by
  intro l
  induction l with
  | nil => rfl
  | cons x t ih =>
    simp only [List.map_cons, List.find?_cons]
    cases hx : (x.1 == k) with
    | true => simp
    | false => simpa using ih

/-- erasing the found entry commutes with reading the slices, when the ordinals are pairwise distinct this is the
same entry; here the first entry with ordinal `k` on both sides -/
theorem erase_find_map (m : Mem) (k : Nat) : ∀ (l : List (Nat × Slice)) (p : Nat × Slice),
    l.find? (fun p => p.1 == k) = some p →
    (l.map (fun p => (p.1, m.read p.2))).erase (p.1, m.read p.2) = (l.erase p).map (fun p => (p.1, m.read p.2)) := by
  intro l
  induction l with
  | nil => intro p h; simp at h
  | cons x t ih =>
    intro p h
    simp only [List.find?_cons] at h
    cases hx : (x.1 == k) with
    | true =>
      rw [hx] at h
      have : x = p := by simpa using h
      subst this
      simp
    | false =>
      rw [hx] at h
      have hp := List.find?_some h
      have hpk : p.1 = k := by simpa using hp
      have hxk : x.1 ≠ k := by simpa using hx
      have hne : x ≠ p := fun e => hxk (e ▸ hpk)
      have hne' : (x.1, m.read x.2) ≠ (p.1, m.read p.2) := by
        intro e
        have : x.1 = p.1 := (Prod.mk.inj e).1
        exact hxk (this ▸ hpk)
      rw [List.map_cons, List.erase_cons_tail (by simpa using hne'), List.erase_cons_tail (by simpa using hne),
        List.map_cons, ih p h]

theorem sim_step (grow : Nat → Nat) (q : Q) (s : Spec) (a : QAct) (h : Sim q s) :
    Sim (qstep grow q a) (sstep s a) := by
  cases a with
  | debounce e =>
    have hlen : s.buf.length = q.events.len := by rw [← h.buf, read_length]
    by_cases hc : q.events.len < eventBufferSize
    · have hq : qstep grow q (.debounce e) =
          { q with mem := (q.mem.append grow q.events e).1, events := (q.mem.append grow q.events e).2, timer := true } := by
        simp [qstep, qstepWith, hc]
      have hs : sstep s (.debounce e) = { s with buf := s.buf ++ [e] } := by
        simp [sstep, debounceAdd, hlen, hc]
      rw [hq, hs]
      have hother : ∀ p ∈ q.pending, (q.mem.append grow q.events e).1.read p.2 = q.mem.read p.2 :=
        fun p hp => read_append_other grow q.mem q.events e p.2 (h.pendAlloc p hp).2 (h.pendAlloc p hp).1
      refine ⟨?_, h.started, ?_, h.handled, h.stopped, ?_, ?_⟩
      · show (q.mem.append grow q.events e).1.read (q.mem.append grow q.events e).2 = s.buf ++ [e]
        rw [read_append, h.buf]
      · show q.pending.map (fun p => (p.1, (q.mem.append grow q.events e).1.read p.2)) = s.pending
        rw [map_pending_congr _ _ _ hother, h.pending]
      · show (q.mem.append grow q.events e).2.arr < (q.mem.append grow q.events e).1.next
        rcases append_arr grow q.mem q.events e with h1 | ⟨h1, h2⟩
        · rw [h1]; exact Nat.lt_of_lt_of_le h.evAlloc (append_next _ _ _ _)
        · rw [h1, h2]; exact Nat.lt_succ_self _
      · intro p hp
        show p.2.arr < (q.mem.append grow q.events e).1.next ∧ p.2.arr ≠ (q.mem.append grow q.events e).2.arr
        have ⟨hp1, hp2⟩ := h.pendAlloc p hp
        refine ⟨Nat.lt_of_lt_of_le hp1 (append_next _ _ _ _), ?_⟩
        rcases append_arr grow q.mem q.events e with h1 | ⟨h1, _⟩
        · rw [h1]; exact hp2
        · rw [h1]; omega
    · have hq : qstep grow q (.debounce e) = { q with timer := true } := by simp [qstep, qstepWith, hc]
      have hs : sstep s (.debounce e) = s := by
        simp [sstep, debounceAdd, hlen, hc]
      rw [hq, hs]
      exact ⟨h.buf, h.started, h.pending, h.handled, h.stopped, h.evAlloc, h.pendAlloc⟩
  | stop =>
    exact ⟨h.buf, h.started, h.pending, h.handled, rfl, h.evAlloc, h.pendAlloc⟩
  | fire =>
    have hlen : s.buf.length = q.events.len := by rw [← h.buf, read_length]
    have hst := h.stopped
    by_cases hstop : q.stopped = true
    · have hq : qstep grow q .fire = { q with timer := false } := by simp [qstep, qstepWith, hstop]
      have hs : sstep s .fire = s := by simp [sstep, ← hst, hstop]
      rw [hq, hs]
      exact ⟨h.buf, h.started, h.pending, h.handled, h.stopped, h.evAlloc, h.pendAlloc⟩
    have hstop' : s.stopped = false := by rw [← hst]; simpa using hstop
    have hstopq : q.stopped = false := by simpa using hstop
    by_cases hc : q.events.len = 0
    · have hq : qstep grow q .fire = { q with timer := false } := by simp [qstep, qstepWith, hc]
      have hs : sstep s .fire = s := by simp [sstep, hlen, hc]
      rw [hq, hs]
      exact ⟨h.buf, h.started, h.pending, h.handled, h.stopped, h.evAlloc, h.pendAlloc⟩
    · have hq : qstep grow q .fire =
          { q with mem := (q.mem.alloc eventBufferSize).1, events := ⟨q.mem.next, 0⟩, timer := false,
                   started := q.started + 1, pending := q.pending ++ [(q.started, q.events)] } := by
        simp [qstep, qstepWith, hc, hstopq, flushBuffer, Mem.alloc]
      have hs : sstep s .fire =
          { s with buf := [], started := s.started + 1, pending := s.pending ++ [(s.started, s.buf)],
                   flushed := s.flushed ++ [s.buf] } := by
        simp [sstep, hlen, hc, hstop']
      rw [hq, hs]
      refine ⟨?_, ?_, ?_, h.handled, h.stopped, ?_, ?_⟩
      · simp [Mem.read]
      · show q.started + 1 = s.started + 1
        rw [h.started]
      · show (q.pending ++ [(q.started, q.events)]).map (fun p => (p.1, (q.mem.alloc eventBufferSize).1.read p.2)) = _
        have : ∀ sl : Slice, (q.mem.alloc eventBufferSize).1.read sl = q.mem.read sl := fun sl => rfl
        simp only [this, List.map_append, List.map_cons, List.map_nil]
        rw [h.pending, h.buf, h.started]
      · show q.mem.next < q.mem.next + 1
        exact Nat.lt_succ_self _
      · intro p hp
        show p.2.arr < q.mem.next + 1 ∧ p.2.arr ≠ q.mem.next
        rcases List.mem_append.mp hp with hp | hp
        · have := (h.pendAlloc p hp).1
          omega
        · have : p = (q.started, q.events) := by simpa using hp
          subst this
          have := h.evAlloc
          show q.events.arr < q.mem.next + 1 ∧ q.events.arr ≠ q.mem.next
          omega
  | run k =>
    have hfind := find_map q.mem k q.pending
    rw [h.pending] at hfind
    cases hf : q.pending.find? (fun p => p.1 == k) with
    | none =>
      have hq : qstep grow q (.run k) = q := by simp [qstep, qstepWith, hf]
      have hs : sstep s (.run k) = s := by
        rw [hf] at hfind
        simp [sstep, hfind]
      rw [hq, hs]; exact h
    | some p =>
      have hq : qstep grow q (.run k) =
          { q with pending := q.pending.erase p, handled := q.handled ++ [(p.1, q.mem.read p.2)] } := by
        simp [qstep, qstepWith, hf]
      have hs : sstep s (.run k) =
          { s with pending := s.pending.erase (p.1, q.mem.read p.2), handled := s.handled ++ [(p.1, q.mem.read p.2)] } := by
        rw [hf] at hfind
        simp [sstep, hfind]
      rw [hq, hs]
      refine ⟨h.buf, h.started, ?_, ?_, h.stopped, h.evAlloc, ?_⟩
      · show (q.pending.erase p).map (fun p => (p.1, q.mem.read p.2)) = s.pending.erase (p.1, q.mem.read p.2)
        rw [← h.pending, erase_find_map q.mem k q.pending p hf]
      · show q.handled ++ [(p.1, q.mem.read p.2)] = s.handled ++ [(p.1, q.mem.read p.2)]
        rw [h.handled]
      · intro p' hp'
        exact h.pendAlloc p' (List.mem_of_mem_erase hp')

theorem sim_run (grow : Nat → Nat) (as : List QAct) : ∀ (q : Q) (s : Spec), Sim q s → Sim (qrun grow q as) (srun s as) := by
  induction as with
  | nil => intro q s h; exact h
  | cons a t ih => intro q s h; exact ih _ _ (sim_step grow q s a h)

/-! ### invariants of the specification -/

/-- every frame the debouncer accepted is in exactly one place: the batch of a flush (by ordinal), or the buffer -/
structure SInv (s : Spec) : Prop where
  nflushed : s.flushed.length = s.started
  batches : ∀ p ∈ s.handled ++ s.pending, s.flushed[p.1]? = some p.2
  once : (s.handled ++ s.pending).map (·.1) |>.Perm (List.range s.started)
  bufLen : s.buf.length ≤ eventBufferSize

theorem sinv_init : SInv {} := by
  constructor <;> simp

theorem sinv_step (s : Spec) (a : QAct) (h : SInv s) : SInv (sstep s a) := by
  cases a with
  | debounce e =>
    refine ⟨h.nflushed, h.batches, h.once, ?_⟩
    show (debounceAdd s.buf e).length ≤ eventBufferSize
    unfold debounceAdd
    split
    · simp; omega
    · exact h.bufLen
  | stop => exact ⟨h.nflushed, h.batches, h.once, h.bufLen⟩
  | fire =>
    by_cases hstop : s.stopped = true
    · have : sstep s .fire = s := by simp [sstep, hstop]
      rw [this]; exact h
    have hstop' : s.stopped = false := by simpa using hstop
    by_cases hc : s.buf.length = 0
    · have : sstep s .fire = s := by simp [sstep, hc]
      rw [this]; exact h
    · have hs : sstep s .fire =
          { s with buf := [], started := s.started + 1, pending := s.pending ++ [(s.started, s.buf)],
                   flushed := s.flushed ++ [s.buf] } := by
        simp [sstep, hc, hstop']
      rw [hs]
      refine ⟨?_, ?_, ?_, ?_⟩
      · simp [h.nflushed]
      · intro p hp
        show (s.flushed ++ [s.buf])[p.1]? = some p.2
        have hp' : p ∈ (s.handled ++ s.pending) ++ [(s.started, s.buf)] := by
          simpa [List.append_assoc] using hp
        rcases List.mem_append.mp hp' with hp' | hp'
        · have hb := h.batches p hp'
          have hlt : p.1 < s.flushed.length := by
            rcases Nat.lt_or_ge p.1 s.flushed.length with hl | hl
            · exact hl
            · rw [List.getElem?_eq_none hl] at hb; cases hb
          rw [List.getElem?_append_left hlt]; exact hb
        · have : p = (s.started, s.buf) := by simpa using hp'
          subst this
          show (s.flushed ++ [s.buf])[s.started]? = some s.buf
          rw [← h.nflushed]
          simp
      · show ((s.handled ++ (s.pending ++ [(s.started, s.buf)])).map (·.1)).Perm (List.range (s.started + 1))
        rw [← List.append_assoc, List.map_append, List.range_succ]
        exact List.Perm.append h.once (by simp)
      · simp
  | run k =>
    cases hf : s.pending.find? (fun p => p.1 == k) with
    | none =>
      have : sstep s (.run k) = s := by simp [sstep, hf]
      rw [this]; exact h
    | some p =>
      have hs : sstep s (.run k) = { s with pending := s.pending.erase p, handled := s.handled ++ [p] } := by
        simp [sstep, hf]
      have hmem : p ∈ s.pending := List.mem_of_find?_eq_some hf
      have hperm : (s.handled ++ [p] ++ s.pending.erase p).Perm (s.handled ++ s.pending) := by
        rw [List.append_assoc]
        exact List.Perm.append_left _ (List.perm_cons_erase hmem).symm
      rw [hs]
      refine ⟨h.nflushed, ?_, ?_, h.bufLen⟩
      · intro q hq
        exact h.batches q ((hperm.mem_iff).mp hq)
      · exact (hperm.map (·.1)).trans h.once

theorem sinv_run (as : List QAct) : ∀ s, SInv s → SInv (srun s as) := by
  induction as with
  | nil => intro s h; exact h
  | cons a t ih => intro s h; exact ih _ (sinv_step s a h)

/-- the batches of the flushes, in order, followed by the buffer are exactly the accepted frames -/
theorem flushed_accepted (as : List QAct) : ∀ (s : Spec),
    (srun s as).flushed.flatten ++ (srun s as).buf = s.flushed.flatten ++ s.buf ++ acceptedFrom s.stopped s.buf.length as := by
  induction as with
  | nil => intro s; simp [srun, acceptedFrom]
  | cons a t ih =>
    intro s
    show (srun (sstep s a) t).flushed.flatten ++ (srun (sstep s a) t).buf = _
    rw [ih (sstep s a)]
    cases a with
    | debounce e =>
      by_cases hc : s.buf.length < eventBufferSize
      · simp [sstep, debounceAdd, acceptedFrom, hc]
      · simp [sstep, debounceAdd, acceptedFrom, hc]
    | stop => simp [sstep, acceptedFrom]
    | fire =>
      cases hst : s.stopped with
      | true => simp [sstep, acceptedFrom, hst]
      | false =>
        by_cases hc : s.buf.length = 0
        · have hb : s.buf = [] := List.eq_nil_of_length_eq_zero hc
          simp [sstep, acceptedFrom, hb, hst]
        · simp [sstep, acceptedFrom, hc, hst]
    | run k =>
      cases hf : s.pending.find? (fun p => p.1 == k) <;> simp [sstep, acceptedFrom, hf]

/-- after `stop` nothing is flushed any more: the handlers started and their batches are those of the flushes before -/
theorem stopped_step (s : Spec) (a : QAct) (h : s.stopped = true) :
    (sstep s a).stopped = true ∧ (sstep s a).started = s.started ∧ (sstep s a).flushed = s.flushed := by
  cases a with
  | debounce e => exact ⟨h, rfl, rfl⟩
  | stop => exact ⟨rfl, rfl, rfl⟩
  | fire => simp [sstep, h]
  | run k => cases hf : s.pending.find? (fun p => p.1 == k) <;> simp [sstep, hf, h]

theorem stopped_run (as : List QAct) : ∀ (s : Spec), s.stopped = true →
    (srun s as).started = s.started ∧ (srun s as).flushed = s.flushed := by
  induction as with
  | nil => intro s _; exact ⟨rfl, rfl⟩
  | cons a t ih =>
    intro s h
    have ⟨h1, h2, h3⟩ := stopped_step s a h
    have ⟨h4, h5⟩ := ih (sstep s a) h1
    exact ⟨h4.trans h2, h5.trans h3⟩

/-- all frames of a schedule, in order of arrival -/
def frames : List QAct → List Ev
  | [] => []
  | .debounce e :: t => e :: frames t
  | _ :: t => frames t

/-- no debounce window receives more than `eventBufferSize` frames (`n` = frames of the current window so far; after
`stop` the window never ends) -/
def WindowsBounded : Bool → Nat → List QAct → Prop
  | _, _, [] => True
  | st, n, .debounce _ :: t => n < eventBufferSize ∧ WindowsBounded st (n + 1) t
  | st, n, .fire :: t => if st then WindowsBounded st n t else WindowsBounded st 0 t
  | st, n, .run _ :: t => WindowsBounded st n t
  | _, n, .stop :: t => WindowsBounded true n t

theorem accepted_all (as : List QAct) : ∀ st n, WindowsBounded st n as → acceptedFrom st n as = frames as := by
  induction as with
  | nil => intro st n _; rfl
  | cons a t ih =>
    intro st n h
    cases a with
    | debounce e =>
      have h' : n < eventBufferSize ∧ WindowsBounded st (n + 1) t := h
      simp only [acceptedFrom, frames, h'.1, if_true]
      rw [ih st (n + 1) h'.2]
    | fire =>
      cases st with
      | true => exact ih true n h
      | false => exact ih false 0 h
    | run k => exact ih st n h
    | stop => exact ih true n h

end C16Queue
