/-
C03, handshake tier — helper lemmas: the model of conn.go's multi-step exchanges (Handshake.step)
simulates the specification (Handshake.specStep) answer by answer.
-/
import Model.Handshake
import Proofs.C03Body
namespace C03
open FrameSpec FrameWrite Handshake

/-- the specification's view of a state of the model -/
def toSpec (s : State) : SpecAt :=
  match s.phase with
  | .awaitSupported => .options
  | .awaitStartup => .startup s.compress
  | .awaitAuth hist _ _ => .auth s.compress hist
  | .conn (.use ks) rest => .use s.compress s.curKs ks rest
  | .conn .reg rest => .reg s.compress s.curKs rest
  | .conn (.prep cons vals) rest => .prep s.compress s.curKs cons vals rest
  | .conn .exe rest => .exe s.compress s.curKs rest
  | .stopped w => .stop w

/-- what the loop variables of authenticateHandshake hold: `challenger != nil` and `req` are those of
    the latest reply of the authenticator chain; no keyspace before the plan starts -/
def Inv (au : Authn) (s : State) : Prop :=
  match s.phase with
  | .awaitSupported => s.curKs = []
  | .awaitStartup => s.curKs = []
  | .awaitAuth hist hn req =>
    s.curKs = [] ∧ hn = nextOf (au.challenge hist) ∧ req = GReq.authResponse (tokenOf (au.challenge hist))
  | _ => True

theorem regEvents_eq (t s c : Bool) : regEvents t s c = specEvents t s c := by
  cases t <;> cases s <;> cases c <;> rfl

theorem askVal_gval (x : Option Bytes) : askVal (gval x) = specVal x := by
  cases x <;> simp [askVal, gval, specVal]

theorem ask_use (now : Int) (cons : Nat) (ks : Bytes) :
    ask now (GReq.query (useStmt ks) ⟨cons, false, [], 0, [], 0, false, 0, []⟩ []) = specUse cons ks := by
  simp [ask, askParams, specUse, noParams]

theorem ks_eq (v : Nat) (curKs : Bytes) :
    (if (if v > 4 then curKs else []) = [] then none else some (if v > 4 then curKs else [])) = specKs v curKs := by
  unfold specKs
  by_cases h : v > 4
  · have h5 : v ≥ 5 := h
    by_cases hk : curKs = [] <;> simp [h, h5, hk]
  · have h5 : ¬ v ≥ 5 := by omega
    simp [h, h5]

theorem ask_prepare (now : Int) (v : Nat) (curKs stmt : Bytes) :
    ask now (GReq.prepare stmt (if v > 4 then curKs else []) []) = specPrepare v curKs stmt := by
  simp only [ask, specPrepare, ks_eq]

theorem ask_execute (now : Int) (cfg : Config) (curKs id : Bytes) (cons : Nat) (vals : List (Option Bytes)) :
    ask now (GReq.execute id (execParams cfg curKs cons vals) []) = specExecute cfg curKs id cons vals := by
  have hv : List.map askVal (List.map gval vals) = List.map specVal vals := by
    rw [List.map_map]; apply List.map_congr_left; intro x _; exact askVal_gval x
  simp only [ask, askParams, execParams, specExecute, hv]
  simp
  unfold specKs
  by_cases h : 4 < cfg.v
  · have h5 : cfg.v ≥ 5 := h
    by_cases hk : curKs = [] <;> simp [h, h5, hk]
  · have h5 : ¬ cfg.v ≥ 5 := by omega
    simp [h, h5]

/-- the pair the specification lists for a request the model writes -/
def tag (now : Int) (z : Bool) (r : Option GReq) : Option (Req × Bool) := r.map (fun g => (ask now g, z))

theorem advance_sim (cfg : Config) (now : Int) (z : Bool) (succ : List (Option Bytes)) (curKs : Bytes) (rest : List Action) :
    toSpec ⟨(advance cfg curKs rest).1, curKs, z, succ⟩ = (specNext cfg z curKs rest).1 ∧
    tag now z (advance cfg curKs rest).2 = (specNext cfg z curKs rest).2 := by
  induction rest with
  | nil => simp [advance, specNext, toSpec, tag]
  | cons a rest ih =>
    cases a with
    | useKs ks => simp [advance, specNext, toSpec, tag, ask_use]
    | register t s c =>
      simp only [advance, specNext, regEvents_eq]
      by_cases h : specEvents t s c = []
      · simp only [h, List.length_nil, if_true]; exact ih
      · have h' : ¬ (specEvents t s c).length = 0 := by
          intro hl; exact h (List.eq_nil_of_length_eq_zero hl)
        simp [h, h', toSpec, tag, ask]
    | exec stmt cons vals => simp [advance, specNext, toSpec, tag, ask_prepare]

theorem advance_noawait (cfg : Config) (curKs : Bytes) (rest : List Action) :
    (∃ p r, (advance cfg curKs rest).1 = .conn p r) ∨ (∃ w, (advance cfg curKs rest).1 = .stopped w) := by
  induction rest with
  | nil => right; exact ⟨_, rfl⟩
  | cons a rest ih =>
    cases a with
    | useKs ks => left; exact ⟨_, _, rfl⟩
    | register t s c =>
      simp only [advance]
      by_cases h : (regEvents t s c).length = 0
      · simp only [h, if_true]; exact ih
      · simp only [h, if_false]; left; exact ⟨_, _, rfl⟩
    | exec stmt cons vals => left; exact ⟨_, _, rfl⟩

theorem enter_sim (cfg : Config) (au : Authn) (now : Int) (s : State) (curKs : Bytes) (rest : List Action) :
    toSpec (enter cfg s curKs rest).1 = (specNext cfg s.compress curKs rest).1 ∧
    Inv au (enter cfg s curKs rest).1 ∧
    (enter cfg s curKs rest).1.compress = s.compress ∧
    (enter cfg s curKs rest).1.successArgs = s.successArgs ∧
    tag now s.compress (enter cfg s curKs rest).2 = (specNext cfg s.compress curKs rest).2 := by
  have h := advance_sim cfg now s.compress s.successArgs curKs rest
  refine ⟨h.1, ?_, rfl, rfl, h.2⟩
  rcases advance_noawait cfg curKs rest with ⟨p, r, h⟩ | ⟨w, h⟩ <;> simp [enter, Inv, h]

/-- the compressed flag the model attaches to the request written after an answer -/
def flagOf (s s' : State) : Bool :=
  match s.phase with
  | .awaitSupported => false
  | _ => s'.compress

/-- **one answer**: the model's state stays in step with the specification, writes the request the
    specification lists (or none), and calls Success() exactly when and with what the specification says -/
theorem step_sim (cfg : Config) (au : Authn) (now : Int) (s : State) (a : PeerAnswer) (hi : Inv au s) :
    toSpec (step cfg au s a).1 = (specStep cfg au (toSpec s) a).1 ∧
    Inv au (step cfg au s a).1 ∧
    tag now (flagOf s (step cfg au s a).1) (step cfg au s a).2 = (specStep cfg au (toSpec s) a).2.1 ∧
    (step cfg au s a).1.successArgs = s.successArgs ++ (specStep cfg au (toSpec s) a).2.2.toList := by
  obtain ⟨phase, curKs, compress, succ⟩ := s
  cases phase with
  | awaitSupported =>
    simp only [Inv] at hi
    cases a <;> simp [step, toSpec, specStep, failHs, Inv, tag, flagOf]
    case supported m =>
      obtain ⟨v, cql, dn, dv, comp, hasAuth, cons, skipMeta, plan, mapOrder⟩ := cfg
      refine ⟨?_, hi, ?_⟩
      · simp only [startupOpts, negotiated, offered]
        cases comp with
        | none => rfl
        | some n => simp only; split <;> simp_all
      · simp only [ask, specStartup, startupOpts, negotiated, offered]
        cases comp with
        | none => simp
        | some n => simp only; split <;> simp_all
  | awaitStartup =>
    simp only [Inv] at hi
    subst hi
    cases a <;> simp [step, toSpec, specStep, failHs, Inv, tag, flagOf]
    case ready =>
      have h := enter_sim cfg au now ⟨.awaitStartup, [], compress, succ⟩ [] cfg.plan
      simp only [tag] at h
      refine ⟨h.1, h.2.1, ?_, h.2.2.2.1⟩
      rw [h.2.2.1]; exact h.2.2.2.2
    case authenticate cls =>
      cases hA : cfg.hasAuth <;> simp [failHs, toSpec, Inv]
      cases hc : au.challenge [some cls] <;> simp [failHs, toSpec, Inv, tokenOf, nextOf, hc, ask]
  | awaitAuth hist hn req =>
    simp only [Inv] at hi
    obtain ⟨hk, hn', hreq⟩ := hi
    subst hk hn' hreq
    cases a <;> simp [step, toSpec, specStep, failHs, Inv, tag, flagOf]
    case authSuccess t =>
      cases hN : nextOf (au.challenge hist) <;> simp
      · have h := enter_sim cfg au now ⟨.awaitAuth hist false (GReq.authResponse (tokenOf (au.challenge hist))), [], compress, succ⟩ [] cfg.plan
        simp only [tag] at h
        refine ⟨h.1, h.2.1, ?_, h.2.2.2.1⟩
        rw [h.2.2.1]; exact h.2.2.2.2
      · cases hS : au.success hist t <;> simp [failHs, toSpec, Inv]
        have h := enter_sim cfg au now ⟨.awaitAuth hist true (GReq.authResponse (tokenOf (au.challenge hist))), [], compress, succ ++ [t]⟩ [] cfg.plan
        simp only [tag] at h
        refine ⟨h.1, h.2.1, ?_, h.2.2.2.1⟩
        rw [h.2.2.1]; exact h.2.2.2.2
    case authChallenge c =>
      cases hN : nextOf (au.challenge hist) <;> simp [failHs, toSpec, Inv]
      cases hc : au.challenge (hist ++ [c]) <;> simp [failHs, toSpec, Inv, tokenOf, nextOf, hc, ask]
  | conn pending rest =>
    cases pending with
    | use ks =>
      cases a <;> simp [step, toSpec, specStep, failAct, Inv, tag, flagOf]
      case setKeyspace =>
        have h := enter_sim cfg au now ⟨.conn (.use ks) rest, curKs, compress, succ⟩ ks rest
        simp only [tag] at h
        refine ⟨h.1, h.2.1, ?_, h.2.2.2.1⟩
        rw [h.2.2.1]; exact h.2.2.2.2
    | reg =>
      cases a <;> simp [step, toSpec, specStep, failAct, Inv, tag, flagOf]
      case ready =>
        have h := enter_sim cfg au now ⟨.conn .reg rest, curKs, compress, succ⟩ curKs rest
        simp only [tag] at h
        refine ⟨h.1, h.2.1, ?_, h.2.2.2.1⟩
        rw [h.2.2.1]; exact h.2.2.2.2
    | prep cons vals =>
      cases a <;> simp [step, toSpec, specStep, failAct, Inv, tag, flagOf]
      case prepared id n =>
        by_cases hn : n = vals.length <;> simp [hn, failAct, toSpec, Inv, ask_execute]
    | exe =>
      cases a <;> simp [step, toSpec, specStep, failAct, Inv, tag, flagOf]
      case void =>
        have h := enter_sim cfg au now ⟨.conn .exe rest, curKs, compress, succ⟩ curKs rest
        simp only [tag] at h
        refine ⟨h.1, h.2.1, ?_, h.2.2.2.1⟩
        rw [h.2.2.1]; exact h.2.2.2.2
      case setKeyspace =>
        have h := enter_sim cfg au now ⟨.conn .exe rest, curKs, compress, succ⟩ curKs rest
        simp only [tag] at h
        refine ⟨h.1, h.2.1, ?_, h.2.2.2.1⟩
        rw [h.2.2.1]; exact h.2.2.2.2
  | stopped w =>
    cases a <;> simp [step, toSpec, specStep, Inv, tag, flagOf]

end C03
