/-
C03, handshake tier — helper lemmas: the model of conn.go's multi-step exchanges (Handshake.step)
simulates the specification (Handshake.specStep) answer by answer.
-/
import Model.Handshake
import Proofs.C03Body
namespace C03
open FrameSpec FrameWrite Handshake

/-- the specification's view of a state of the model -/
def toSpec (s : State) : SpecAt :=
  match s.phase with
  | .awaitSupported => .options
  | .awaitStartup => .startup s.compress
  | .awaitAuth hist _ _ => .auth s.compress hist
  | .conn (.use ks) rest => .use s.compress s.curKs ks s.cache rest
  | .conn .reg rest => .reg s.compress s.curKs s.cache rest
  | .conn (.prep stmt cons vals) rest => .prep s.compress s.curKs s.cache stmt cons vals rest
  | .conn (.exe stmt cons vals) rest => .exe s.compress s.curKs s.cache stmt cons vals rest
  | .stopped w => .stop w

/-- what the loop variables of authenticateHandshake hold: `challenger != nil` and `req` are those of
    the latest reply of the authenticator chain; no keyspace before the plan starts -/
def Inv (au : Authn) (s : State) : Prop :=
  match s.phase with
  | .awaitSupported => s.curKs = [] ∧ s.cache = []
  | .awaitStartup => s.curKs = [] ∧ s.cache = []
  | .awaitAuth hist hn req =>
    s.curKs = [] ∧ s.cache = [] ∧ hn = nextOf (au.challenge hist) ∧ req = GReq.authResponse (tokenOf (au.challenge hist))
  | _ => True

theorem regEvents_eq (t s c : Bool) : regEvents t s c = specEvents t s c := by
  cases t <;> cases s <;> cases c <;> rfl

theorem askVal_gval (x : Option Bytes) : askVal (gval x) = specVal x := by
  cases x <;> simp [askVal, gval, specVal]

theorem ask_use (now : Int) (cons : Nat) (ks : Bytes) :
    ask now (GReq.query (useStmt ks) ⟨cons, false, [], 0, [], 0, false, 0, []⟩ []) = specUse cons ks := by
  simp [ask, askParams, specUse, noParams]

theorem ks_eq (v : Nat) (curKs : Bytes) :
    (if (if v > 4 then curKs else []) = [] then none else some (if v > 4 then curKs else [])) = specKs v curKs := by
  unfold specKs
  by_cases h : v > 4
  · have h5 : v ≥ 5 := h
    by_cases hk : curKs = [] <;> simp [h, h5, hk]
  · have h5 : ¬ v ≥ 5 := by omega
    simp [h, h5]

theorem ask_prepare (now : Int) (v : Nat) (curKs stmt : Bytes) :
    ask now (GReq.prepare stmt (if v > 4 then curKs else []) []) = specPrepare v curKs stmt := by
  simp only [ask, specPrepare, ks_eq]

theorem ask_execute (now : Int) (cfg : Config) (curKs id : Bytes) (cons : Nat) (vals : List (Option Bytes)) :
    ask now (GReq.execute id (execParams cfg curKs cons vals) []) = specExecute cfg curKs id cons vals := by
  have hv : List.map askVal (List.map gval vals) = List.map specVal vals := by
    rw [List.map_map]; apply List.map_congr_left; intro x _; exact askVal_gval x
  simp only [ask, askParams, execParams, specExecute, hv]
  simp
  unfold specKs
  by_cases h : 4 < cfg.v
  · have h5 : cfg.v ≥ 5 := h
    by_cases hk : curKs = [] <;> simp [h, h5, hk]
  · have h5 : ¬ cfg.v ≥ 5 := by omega
    simp [h, h5]

/-- the pair the specification lists for a request the model writes -/
def tag (now : Int) (z : Bool) (r : Option GReq) : Option (Req × Bool) := r.map (fun g => (ask now g, z))

/-- Conn.executeQuery with the cache `cache` does what the specification says for the known ids `cache` -/
theorem execQuery_sim (cfg : Config) (now : Int) (z : Bool) (succ : List (Option Bytes)) (curKs : Bytes) (cache : Known)
    (stmt : Bytes) (cons : Nat) (vals : List (Option Bytes)) (rest : List Action) :
    toSpec ⟨(execQuery cfg curKs cache stmt cons vals rest).1, curKs, z, succ, cache⟩ =
      (specExec cfg z curKs cache stmt cons vals rest).1 ∧
    tag now z (execQuery cfg curKs cache stmt cons vals rest).2 = (specExec cfg z curKs cache stmt cons vals rest).2 := by
  unfold execQuery specExec
  cases h : List.lookup (curKs, stmt) cache with
  | none => simp [toSpec, tag, ask_prepare]
  | some info =>
    obtain ⟨id, n⟩ := info
    by_cases hn : n = vals.length
    · have hn' : ¬ vals.length ≠ n := by omega
      simp [hn, toSpec, tag, ask_execute]
    · have hn' : vals.length ≠ n := by omega
      simp [hn, hn', toSpec, tag]

theorem execQuery_noawait (cfg : Config) (curKs : Bytes) (cache : Known) (stmt : Bytes) (cons : Nat)
    (vals : List (Option Bytes)) (rest : List Action) :
    (∃ p r, (execQuery cfg curKs cache stmt cons vals rest).1 = .conn p r) ∨
    (∃ w, (execQuery cfg curKs cache stmt cons vals rest).1 = .stopped w) := by
  unfold execQuery
  cases List.lookup (curKs, stmt) cache with
  | none => left; exact ⟨_, _, rfl⟩
  | some info =>
    by_cases hn : vals.length ≠ info.2
    · right; simp only; rw [if_pos hn]; exact ⟨_, rfl⟩
    · left; simp only; rw [if_neg hn]; exact ⟨_, _, rfl⟩

theorem evict_eq (cache : Known) (key : Key) (uid : Bytes) : evictPreparedID cache key uid = specForget cache key uid := by
  unfold evictPreparedID specForget
  cases List.lookup key cache with
  | none => rfl
  | some info =>
    obtain ⟨id, n⟩ := info
    by_cases h : id = uid
    · subst h; simp
    · have h' : ¬ uid = id := fun e => h e.symm
      simp [h, h']

theorem advance_sim (cfg : Config) (now : Int) (z : Bool) (succ : List (Option Bytes)) (curKs : Bytes) (cache : Known)
    (rest : List Action) :
    toSpec ⟨(advance cfg curKs cache rest).1, curKs, z, succ, cache⟩ = (specNext cfg z curKs cache rest).1 ∧
    tag now z (advance cfg curKs cache rest).2 = (specNext cfg z curKs cache rest).2 := by
  induction rest with
  | nil => simp [advance, specNext, toSpec, tag]
  | cons a rest ih =>
    cases a with
    | useKs ks => simp [advance, specNext, toSpec, tag, ask_use]
    | register t s c =>
      simp only [advance, specNext, regEvents_eq]
      by_cases h : specEvents t s c = []
      · simp only [h, List.length_nil, if_true]; exact ih
      · have h' : ¬ (specEvents t s c).length = 0 := by
          intro hl; exact h (List.eq_nil_of_length_eq_zero hl)
        simp [h, h', toSpec, tag, ask]
    | exec stmt cons vals =>
      simp only [advance, specNext]
      exact execQuery_sim cfg now z succ curKs cache stmt cons vals rest

theorem advance_noawait (cfg : Config) (curKs : Bytes) (cache : Known) (rest : List Action) :
    (∃ p r, (advance cfg curKs cache rest).1 = .conn p r) ∨ (∃ w, (advance cfg curKs cache rest).1 = .stopped w) := by
  induction rest with
  | nil => right; exact ⟨_, rfl⟩
  | cons a rest ih =>
    cases a with
    | useKs ks => left; exact ⟨_, _, rfl⟩
    | register t s c =>
      simp only [advance]
      by_cases h : (regEvents t s c).length = 0
      · simp only [h, if_true]; exact ih
      · simp only [h, if_false]; left; exact ⟨_, _, rfl⟩
    | exec stmt cons vals => exact execQuery_noawait cfg curKs cache stmt cons vals rest

theorem enter_sim (cfg : Config) (au : Authn) (now : Int) (s : State) (curKs : Bytes) (rest : List Action) :
    toSpec (enter cfg s curKs rest).1 = (specNext cfg s.compress curKs s.cache rest).1 ∧
    Inv au (enter cfg s curKs rest).1 ∧
    (enter cfg s curKs rest).1.compress = s.compress ∧
    (enter cfg s curKs rest).1.successArgs = s.successArgs ∧
    tag now s.compress (enter cfg s curKs rest).2 = (specNext cfg s.compress curKs s.cache rest).2 := by
  have h := advance_sim cfg now s.compress s.successArgs curKs s.cache rest
  refine ⟨h.1, ?_, rfl, rfl, h.2⟩
  rcases advance_noawait cfg curKs s.cache rest with ⟨p, r, h⟩ | ⟨w, h⟩ <;> simp [enter, Inv, h]

/-- **one answer**: the model's state stays in step with the specification, writes the request the
    specification lists (or none), and calls Success() exactly when and with what the specification says -/
theorem step_sim (cfg : Config) (au : Authn) (now : Int) (s : State) (a : PeerAnswer) (hi : Inv au s) :
    toSpec (step cfg au s a).1 = (specStep cfg au (toSpec s) a).1 ∧
    Inv au (step cfg au s a).1 ∧
    tag now (flagOf s (step cfg au s a).1) (step cfg au s a).2 = (specStep cfg au (toSpec s) a).2.1 ∧
    (step cfg au s a).1.successArgs = s.successArgs ++ (specStep cfg au (toSpec s) a).2.2.toList := by
  obtain ⟨phase, curKs, compress, succ, cache⟩ := s
  cases phase with
  | awaitSupported =>
    simp only [Inv] at hi
    cases a <;> simp [step, toSpec, specStep, failHs, Inv, tag, flagOf]
    case supported m =>
      obtain ⟨v, cql, dn, dv, comp, hasAuth, cons, skipMeta, plan, mapOrder⟩ := cfg
      refine ⟨?_, hi, ?_⟩
      · simp only [startupOpts, negotiated, offered]
        cases comp with
        | none => rfl
        | some n => simp only; split <;> simp_all
      · simp only [ask, specStartup, startupOpts, negotiated, offered]
        cases comp with
        | none => simp
        | some n => simp only; split <;> simp_all
  | awaitStartup =>
    simp only [Inv] at hi
    obtain ⟨hk, hc⟩ := hi
    subst hk hc
    cases a <;> simp [step, toSpec, specStep, failHs, Inv, tag, flagOf]
    case ready =>
      have h := enter_sim cfg au now ⟨.awaitStartup, [], compress, succ, []⟩ [] cfg.plan
      simp only [tag] at h
      refine ⟨h.1, h.2.1, ?_, h.2.2.2.1⟩
      rw [h.2.2.1]; exact h.2.2.2.2
    case authenticate cls =>
      cases hA : cfg.hasAuth <;> simp [failHs, toSpec, Inv]
      cases hc : au.challenge [some cls] <;> simp [failHs, toSpec, Inv, tokenOf, nextOf, hc, ask]
  | awaitAuth hist hn req =>
    simp only [Inv] at hi
    obtain ⟨hk, hc, hn', hreq⟩ := hi
    subst hk hc hn' hreq
    cases a <;> simp [step, toSpec, specStep, failHs, Inv, tag, flagOf]
    case authSuccess t =>
      cases hN : nextOf (au.challenge hist) <;> simp
      · have h := enter_sim cfg au now ⟨.awaitAuth hist false (GReq.authResponse (tokenOf (au.challenge hist))), [], compress, succ, []⟩ [] cfg.plan
        simp only [tag] at h
        refine ⟨h.1, h.2.1, ?_, h.2.2.2.1⟩
        rw [h.2.2.1]; exact h.2.2.2.2
      · cases hS : au.success hist t <;> simp [failHs, toSpec, Inv]
        have h := enter_sim cfg au now ⟨.awaitAuth hist true (GReq.authResponse (tokenOf (au.challenge hist))), [], compress, succ ++ [t], []⟩ [] cfg.plan
        simp only [tag] at h
        refine ⟨h.1, h.2.1, ?_, h.2.2.2.1⟩
        rw [h.2.2.1]; exact h.2.2.2.2
    case authChallenge c =>
      cases hN : nextOf (au.challenge hist) <;> simp [failHs, toSpec, Inv]
      cases hc : au.challenge (hist ++ [c]) <;> simp [failHs, toSpec, Inv, tokenOf, nextOf, hc, ask]
  | conn pending rest =>
    cases pending with
    | use ks =>
      cases a <;> simp [step, toSpec, specStep, failAct, Inv, tag, flagOf]
      case setKeyspace =>
        have h := enter_sim cfg au now ⟨.conn (.use ks) rest, curKs, compress, succ, cache⟩ ks rest
        simp only [tag] at h
        refine ⟨h.1, h.2.1, ?_, h.2.2.2.1⟩
        rw [h.2.2.1]; exact h.2.2.2.2
    | reg =>
      cases a <;> simp [step, toSpec, specStep, failAct, Inv, tag, flagOf]
      case ready =>
        have h := enter_sim cfg au now ⟨.conn .reg rest, curKs, compress, succ, cache⟩ curKs rest
        simp only [tag] at h
        refine ⟨h.1, h.2.1, ?_, h.2.2.2.1⟩
        rw [h.2.2.1]; exact h.2.2.2.2
    | prep stmt cons vals =>
      cases a <;> simp [step, toSpec, specStep, failAct, Inv, tag, flagOf]
      case prepared id n =>
        by_cases hn : n = vals.length <;> simp [hn, failAct, toSpec, Inv, ask_execute]
    | exe stmt cons vals =>
      cases a <;> simp [step, toSpec, specStep, failAct, Inv, tag, flagOf]
      case void =>
        have h := enter_sim cfg au now ⟨.conn (.exe stmt cons vals) rest, curKs, compress, succ, cache⟩ curKs rest
        simp only [tag] at h
        refine ⟨h.1, h.2.1, ?_, h.2.2.2.1⟩
        rw [h.2.2.1]; exact h.2.2.2.2
      case setKeyspace =>
        have h := enter_sim cfg au now ⟨.conn (.exe stmt cons vals) rest, curKs, compress, succ, cache⟩ curKs rest
        simp only [tag] at h
        refine ⟨h.1, h.2.1, ?_, h.2.2.2.1⟩
        rw [h.2.2.1]; exact h.2.2.2.2
      case unprepared uid =>
        have h := execQuery_sim cfg now compress succ curKs (evictPreparedID cache (curKs, stmt) uid) stmt cons vals rest
        simp only [tag, toSpec] at h
        rw [evict_eq] at h ⊢
        refine ⟨h.1, ?_, h.2⟩
        rcases execQuery_noawait cfg curKs (specForget cache (curKs, stmt) uid) stmt cons vals rest with ⟨p, r, h'⟩ | ⟨w, h'⟩ <;>
          rw [h'] <;> trivial
  | stopped w =>
    cases a <;> simp [step, toSpec, specStep, Inv, tag, flagOf]

end C03

namespace C03
open FrameSpec FrameWrite Handshake

def tagP (now : Int) (p : GReq × Bool) : Req × Bool := (ask now p.1, p.2)

theorem run_sim (cfg : Config) (au : Authn) (now : Int) (answers : List PeerAnswer) :
    ∀ s, Inv au s →
      (run cfg au s answers).map (tagP now) = specRun cfg au (toSpec s) answers ∧
      toSpec (final cfg au s answers) = specFinal cfg au (toSpec s) answers ∧
      (final cfg au s answers).successArgs = s.successArgs ++ specSuccess cfg au (toSpec s) answers := by
  induction answers with
  | nil => intro s _; simp [run, specRun, final, specFinal, specSuccess]
  | cons a as ih =>
    intro s hi
    obtain ⟨h1, h2, h3, h4⟩ := step_sim cfg au now s a hi
    obtain ⟨i1, i2, i3⟩ := ih (step cfg au s a).1 h2
    refine ⟨?_, ?_, ?_⟩
    · simp only [run, specRun, List.map_append, i1, h1]
      congr 1
      rw [← h3]
      cases (step cfg au s a).2 <;> simp [tag, tagP, flagOf]
    · simp only [final, specFinal, i2, h1]
    · simp only [final, specSuccess, i3, h4, h1, List.append_assoc]

theorem init_inv (cfg : Config) (au : Authn) : Inv au (Handshake.init cfg) := ⟨rfl, rfl⟩

/-! ## bytes -/

theorem flags_even (v : Nat) (g : GReq) :
    (byteOf (headerFlags v false g) ||| 1) &&& 1 = 1 ∧
    (byteOf (headerFlags v false g) ||| 1) &&& 0xFE = byteOf (headerFlags v false g) := by
  unfold headerFlags
  by_cases h1 : (payloadOf g).length > 0 <;> by_cases h2 : v = 5 <;> simp [h1, h2, b2n] <;> decide

theorem encode_shape (v : Nat) (stream now : Int) (g : GReq) (bs : Bytes)
    (he : encodeReq v false stream now g = .ok bs) :
    ∃ r, bs = byteOf v :: byteOf (headerFlags v false g) :: r := by
  have he := (encodeReq_ok he).2
  unfold encodeReq0 at he
  by_cases hnp : (payloadOf g).length > 0 ∧ v < 4
  · simp [hnp] at he
  · simp only [hnp, if_false] at he
    cases hb : wBody v now g with
    | error e => simp [hb] at he
    | ok body =>
      simp only [hb] at he
      by_cases hsz : (if v > 2 then 9 else 8) + (wPayload (payloadOf g) ++ body).length > maxFrameSize
      · rw [if_pos hsz] at he; cases he
      · rw [if_neg hsz] at he
        injection he with he
        refine ⟨bs.drop 2, ?_⟩
        rw [← he]
        simp [wHeader]

theorem decodeZ_encode (v : Nat) (stream now : Int) (g : GReq) (bs : Bytes) (z : Bool)
    (he : encodeReq v false stream now g = .ok bs) :
    decodeZ z (if z then setCompress bs else bs) = decodeReq bs := by
  obtain ⟨r, hr⟩ := encode_shape v stream now g bs he
  subst hr
  have hf := flags_even v g
  cases z
  · simp [decodeZ, clearCompress]
  · simp [decodeZ, clearCompress, setCompress, hf.1, hf.2]

theorem encodeAll_expect (v : Nat) (now : Int) (hv1 : 1 ≤ v) (hv5 : v ≤ 5) :
    ∀ (streams : List Int) (gs : List (GReq × Bool)) (frames : List Bytes),
      (∀ s ∈ streams, StreamInRange v s) →
      (∀ p ∈ gs, Expressible v (ask now p.1) = true) →
      encodeAll v now streams gs = some frames →
      expectAll v streams (gs.map (tagP now)) frames := by
  intro streams
  induction streams with
  | nil =>
    intro gs frames _ _ he
    cases gs with
    | nil => simp [encodeAll] at he; subst he; simp [expectAll]
    | cons p gs => simp [encodeAll] at he
  | cons s ss ih =>
    intro gs frames hs hx he
    cases gs with
    | nil => simp [encodeAll] at he
    | cons p gs =>
      obtain ⟨g, z⟩ := p
      simp only [encodeAll] at he
      cases h1 : encodeReq v false s now g with
      | error e => simp [h1] at he
      | ok bs =>
        cases h2 : encodeAll v now ss gs with
        | none => simp [h1, h2] at he
        | some rest =>
          simp only [h1, h2, Option.some.injEq] at he
          subst he
          have hr := roundtrip_of_body v false s now g bs [] hv1 hv5 (hs s (by simp))
            (hx (g, z) (by simp)) (fun body hb => rdBody_w v now g body hv1 hv5 (hx (g, z) (by simp)) hb) h1
          simp only [List.append_nil] at hr
          simp only [List.map_cons, tagP, expectAll]
          refine ⟨?_, ih gs rest (fun s' h' => hs s' (by simp [h'])) (fun p' h' => hx p' (by simp [h'])) h2⟩
          rw [decodeZ_encode v s now g bs z h1, hr]

theorem expectAll_get (v : Nat) :
    ∀ (ss : List Int) (rs : List (Req × Bool)) (fs : List Bytes), expectAll v ss rs fs →
      ∀ (i : Nat) (r : Req) (z : Bool), rs[i]? = some (r, z) →
        ∃ s f, ss[i]? = some s ∧ fs[i]? = some f ∧ decodeZ z f = some ⟨v, false, s, r, []⟩ := by
  intro ss
  induction ss with
  | nil =>
    intro rs fs h i r z hi
    cases rs with
    | nil => simp at hi
    | cons p rs => cases fs <;> simp [expectAll] at h
  | cons s ss ih =>
    intro rs fs h i r z hi
    cases rs with
    | nil => simp at hi
    | cons p rs =>
      cases fs with
      | nil => simp [expectAll] at h
      | cons f fs =>
        obtain ⟨r0, z0⟩ := p
        simp only [expectAll] at h
        cases i with
        | zero =>
          simp only [List.getElem?_cons_zero, Option.some.injEq, Prod.mk.injEq] at hi
          obtain ⟨rfl, rfl⟩ := hi
          exact ⟨s, f, rfl, rfl, h.1⟩
        | succ i =>
          simp only [List.getElem?_cons_succ] at hi ⊢
          exact ih rs fs h.2 i r z hi

/-! ## the token of round k -/

/-- k+1 challenges answered: the conditions under which the authenticator chain carries on -/
def ChainOk (au : Authn) (hist : List (Option Bytes)) (cs : List (Option Bytes)) (k : Nat) : Prop :=
  ∀ i, i ≤ k → nextOf (au.challenge (hist ++ cs.take i)) = true ∧ au.challenge (hist ++ cs.take (i + 1)) ≠ .fail

theorem specRun_auth_round (cfg : Config) (au : Authn) (z : Bool) :
    ∀ (cs : List (Option Bytes)) (hist : List (Option Bytes)) (k : Nat) (more : List PeerAnswer), k < cs.length →
      ChainOk au hist cs k →
      (specRun cfg au (.auth z hist) (cs.map PeerAnswer.authChallenge ++ more))[k]? =
        some (Req.authResponse (tokenOf (au.challenge (hist ++ cs.take (k + 1)))), z) := by
  intro cs
  induction cs with
  | nil => intro hist k more hk; simp at hk
  | cons c cs ih =>
    intro hist k more hk hc
    have h0 := hc 0 (Nat.zero_le _)
    simp only [List.take_zero, List.append_nil, List.take_succ_cons, List.take_zero] at h0
    have hstep : specStep cfg au (.auth z hist) (.authChallenge c) =
        (.auth z (hist ++ [c]), some (Req.authResponse (tokenOf (au.challenge (hist ++ [c]))), z), none) := by
      simp only [specStep]
      rw [if_pos ⟨h0.1, h0.2⟩]
    cases k with
    | zero => simp [specRun, hstep]
    | succ k =>
      simp only [List.map_cons, List.cons_append, specRun, hstep, Option.toList_some, List.singleton_append,
        List.getElem?_cons_succ]
      have := ih (hist ++ [c]) k more (by simpa using hk) (by
        intro i hi
        have := hc (i + 1) (by omega)
        simpa [List.take_succ_cons, List.append_assoc] using this)
      simpa [List.take_succ_cons, List.append_assoc] using this

end C03
