import Model.Prepare
/-!
# C14 — the cache key as a function of (host id, keyspace, statement text): helper lemmas

`keyFor` (prepared_cache.go, after the repair of KF-C14-1) prefixes the plain concatenation with the decimal
lengths of host id and keyspace, each followed by '/': injective without any hypothesis (`keyFor_inj`).
`keyForOld` (the plain concatenation the code used before) is injective exactly on triples whose host-id and
keyspace LENGTHS agree — that lemma is what the length prefix reduces to.
-/
namespace C14Key
open Prepare

theorem keyForOld_inj_of_len {α : Type} (h₁ k₁ s₁ h₂ k₂ s₂ : List α)
    (hh : h₁.length = h₂.length) (hk : k₁.length = k₂.length)
    (he : keyForOld h₁ k₁ s₁ = keyForOld h₂ k₂ s₂) : h₁ = h₂ ∧ k₁ = k₂ ∧ s₁ = s₂ := by
  unfold keyForOld at he
  rw [List.append_assoc, List.append_assoc] at he
  obtain ⟨a, b⟩ := List.append_inj he hh
  obtain ⟨c, d⟩ := List.append_inj b hk
  exact ⟨a, c, d⟩

/-- the OLD key: moving the keyspace/statement border gives the same key -/
theorem keyForOld_move_ks {α : Type} (h k s : List α) : keyForOld h k s = keyForOld h [] (k ++ s) := by
  simp [keyForOld]

/-- the OLD key: moving the host/keyspace border gives the same key -/
theorem keyForOld_move_host {α : Type} (h k s : List α) : keyForOld h k s = keyForOld (h ++ k) [] s := by
  simp [keyForOld]

/-- the first occurrence of a separator splits uniquely -/
theorem split_at_sep {α : Type} (sep : α) :
    ∀ (a a' r r' : List α), sep ∉ a → sep ∉ a' → a ++ sep :: r = a' ++ sep :: r' → a = a' ∧ r = r'
  | [], [], _, _, _, _, h => by simpa using h
  | [], x :: a', _, _, _, h2, h => by
    simp only [List.nil_append, List.cons_append, List.cons.injEq] at h
    exact absurd (h.1 ▸ List.mem_cons_self) h2
  | x :: a, [], _, _, h1, _, h => by
    simp only [List.nil_append, List.cons_append, List.cons.injEq] at h
    exact absurd (h.1 ▸ List.mem_cons_self) h1
  | x :: a, y :: a', r, r', h1, h2, h => by
    simp only [List.cons_append, List.cons.injEq] at h
    have := split_at_sep sep a a' r r' (fun m => h1 (List.mem_cons_of_mem _ m))
      (fun m => h2 (List.mem_cons_of_mem _ m)) h.2
    exact ⟨by rw [h.1, this.1], this.2⟩

/-- a decimal digit survives the trip through a byte -/
theorem digit_roundtrip (c : Char) (hc : c.isDigit = true) :
    Char.ofNat (UInt8.ofNat c.toNat).toNat = c ∧ UInt8.ofNat c.toNat ≠ 0x2f := by
  have h48 : 48 ≤ c.toNat ∧ c.toNat ≤ 57 := by
    simp only [Char.isDigit, Bool.and_eq_true, decide_eq_true_eq] at hc
    obtain ⟨a, b⟩ := hc
    have a' : (48 : UInt32).toNat ≤ c.val.toNat := UInt32.le_iff_toNat_le.1 a
    have b' : c.val.toNat ≤ (57 : UInt32).toNat := UInt32.le_iff_toNat_le.1 b
    exact ⟨a', b'⟩
  have hm : (UInt8.ofNat c.toNat).toNat = c.toNat := by
    rw [UInt8.toNat_ofNat']; omega
  refine ⟨?_, ?_⟩
  · rw [hm]; exact Char.ofNat_toNat c
  · intro h
    have : (UInt8.ofNat c.toNat).toNat = (0x2f : UInt8).toNat := by rw [h]
    rw [hm] at this
    have : c.toNat = 47 := this
    omega

theorem dec_map_back (n : Nat) : (dec n).map (fun b => Char.ofNat b.toNat) = Nat.toDigits 10 n := by
  unfold dec
  rw [List.map_map]
  conv => rhs; rw [← List.map_id (Nat.toDigits 10 n)]
  apply List.map_congr_left
  intro c hc
  exact (digit_roundtrip c (Nat.isDigit_of_mem_toDigits (by decide) (by decide) hc)).1

theorem dec_inj {m n : Nat} (h : dec m = dec n) : m = n := by
  have := congrArg (List.map fun b => Char.ofNat b.toNat) h
  rw [dec_map_back, dec_map_back] at this
  have h2 := congrArg (fun l => Nat.ofDigitChars 10 l 0) this
  simpa [Nat.ofDigitChars_ten_toDigits] using h2

theorem slash_not_in_dec (n : Nat) : (0x2f : UInt8) ∉ dec n := by
  intro h
  unfold dec at h
  obtain ⟨c, hc, he⟩ := List.mem_map.1 h
  exact (digit_roundtrip c (Nat.isDigit_of_mem_toDigits (by decide) (by decide) hc)).2 he

theorem keyFor_inj (h₁ k₁ s₁ h₂ k₂ s₂ : List UInt8)
    (he : keyFor h₁ k₁ s₁ = keyFor h₂ k₂ s₂) : h₁ = h₂ ∧ k₁ = k₂ ∧ s₁ = s₂ := by
  unfold keyFor at he
  simp only [List.append_assoc, List.singleton_append] at he
  obtain ⟨a, b⟩ := split_at_sep _ _ _ _ _ (slash_not_in_dec _) (slash_not_in_dec _) he
  obtain ⟨c, d⟩ := split_at_sep _ _ _ _ _ (slash_not_in_dec _) (slash_not_in_dec _) b
  exact keyForOld_inj_of_len _ _ _ _ _ _ (dec_inj a) (dec_inj c) (by simpa [keyForOld] using d)

/-- the key is the two length prefixes followed by the old key -/
theorem keyFor_eq_prefix_old (h k s : List UInt8) :
    keyFor h k s = dec h.length ++ [0x2f] ++ (dec k.length ++ [0x2f] ++ keyForOld h k s) := rfl

end C14Key
