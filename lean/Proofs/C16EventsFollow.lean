import Proofs.C16EventsAgreeRefresh
/-! helper lemmas: after a refresh every host id that is new in the ring has a pool; the stored object of
every accepted reported host id carries the addresses of its first accepted row -/
namespace C16
open Ring ClusterView

/-- every host id of the ring that was not in `r0` has a pool -/
def NewFilled (r0 : Ring.Ring) (v : View) : Prop :=
  ∀ id, id ∈ keys v.ring.byId → id ∉ keys r0.byId → hasKey v.pools id = true

theorem hasKey_poolAdd (m : List (Nat × RHost)) (h : RHost) (k : Nat) :
    hasKey (poolAdd m h) k = true ↔ hasKey m k = true ∨ k = h.id := by
  rw [hasKey_mem, hasKey_mem]
  constructor
  · rintro ⟨e, he, rfl⟩
    rcases (mem_poolAdd _ _ _).mp he with h1 | ⟨h1, _⟩
    · exact Or.inl ⟨e, h1, rfl⟩
    · rw [h1]; exact Or.inr rfl
  · rintro (⟨e, he, rfl⟩ | rfl)
    · exact ⟨e, (mem_poolAdd _ _ _).mpr (Or.inl he), rfl⟩
    · by_cases hk : hasKey m h.id = true
      · obtain ⟨e, he, hek⟩ := (hasKey_mem _ _).mp hk
        exact ⟨e, (mem_poolAdd _ _ _).mpr (Or.inl he), hek⟩
      · refine ⟨(h.id, h), (mem_poolAdd _ _ _).mpr (Or.inr ⟨rfl, ?_⟩), rfl⟩
        intro y hy hyk
        exact hk ((hasKey_mem _ _).mpr ⟨y, hy, hyk⟩)

theorem hasKey_erase (m : List (Nat × RHost)) (k k' : Nat) :
    hasKey (erase m k) k' = true ↔ hasKey m k' = true ∧ k' ≠ k := by
  rw [hasKey_mem, hasKey_mem]
  constructor
  · rintro ⟨e, he, rfl⟩
    have := (mem_erase _ _ _).mp he
    exact ⟨⟨e, this.1, rfl⟩, this.2⟩
  · rintro ⟨⟨e, he, rfl⟩, hne⟩
    exact ⟨e, (mem_erase _ _ _).mpr ⟨he, hne⟩, rfl⟩

theorem newFilled_refresh (env : Env) (v : View) (reported : List RHost) :
    NewFilled v.ring (v.refresh env reported) := by
  apply refreshV_preserves env (NewFilled v.ring)
  · intro w h hp _ id hid hnew
    unfold View.addNew View.startPoolFill at hid ⊢
    dsimp only at hid ⊢
    rw [hasKey_poolAdd]
    rcases (ids_addIfMissing w.ring h id).mp hid with h1 | h1
    · exact Or.inr h1
    · exact Or.inl (hp id h1 hnew)
  · intro w h hp id hid hnew
    unfold View.removeHost at hid ⊢
    dsimp only at hid ⊢
    have := (ids_remove w.ring h.id id).mp hid
    rw [hasKey_erase]
    exact ⟨hp id this.1 hnew, this.2⟩
  · intro id hid hnew; exact absurd hid hnew

/-! the stored object of every reported id carries the addresses of the first accepted row of that id -/

def SameAddrs (s h : RHost) : Prop := s.addr = h.addr ∧ s.caddr = h.caddr

/-- after a refresh the ring's object of every accepted reported host id carries the node address and
connect address of the FIRST accepted row of that id (changed address ⇒ replaced) -/
theorem stored_refresh (env : Env) (v : View) (ha : Agree env v) (reported : List RHost) (id : Nat) (h : RHost)
    (hl : lookup (reportedMap env.filter reported) id = some h) :
    ∃ s, lookup (v.refresh env reported).ring.byId id = some s ∧ SameAddrs s h := by
  rw [refreshV_ring]
  obtain ⟨s, hs, h1, h2, _⟩ := refresh_stored v.ring ha.sinv.wf ha.sinv.knodup env.filter reported id h hl
  exact ⟨s, hs, h1, h2⟩

end C16
