import Proofs.C16EventsAgreeRefresh
/-! helper lemmas: after a refresh every host id that is new in the ring has a pool; the stored object of
every accepted reported host carries the reported addresses -/
namespace C16
open Ring ClusterView

/-- every host id of the ring that was not in `r0` has a pool -/
def NewFilled (r0 : Ring.Ring) (v : View) : Prop :=
  ∀ id, id ∈ keys v.ring.byId → id ∉ keys r0.byId → hasKey v.pools id = true

theorem hasKey_poolAdd (m : List (Nat × RHost)) (h : RHost) (k : Nat) :
    hasKey (poolAdd m h) k = true ↔ hasKey m k = true ∨ k = h.id := by
  rw [hasKey_mem, hasKey_mem]
  constructor
  · rintro ⟨e, he, rfl⟩
    rcases (mem_poolAdd _ _ _).mp he with h1 | ⟨h1, _⟩
    · exact Or.inl ⟨e, h1, rfl⟩
    · rw [h1]; exact Or.inr rfl
  · rintro (⟨e, he, rfl⟩ | rfl)
    · exact ⟨e, (mem_poolAdd _ _ _).mpr (Or.inl he), rfl⟩
    · by_cases hk : hasKey m h.id = true
      · obtain ⟨e, he, hek⟩ := (hasKey_mem _ _).mp hk
        exact ⟨e, (mem_poolAdd _ _ _).mpr (Or.inl he), hek⟩
      · refine ⟨(h.id, h), (mem_poolAdd _ _ _).mpr (Or.inr ⟨rfl, ?_⟩), rfl⟩
        intro y hy hyk
        exact hk ((hasKey_mem _ _).mpr ⟨y, hy, hyk⟩)

theorem hasKey_erase (m : List (Nat × RHost)) (k k' : Nat) :
    hasKey (erase m k) k' = true ↔ hasKey m k' = true ∧ k' ≠ k := by
  rw [hasKey_mem, hasKey_mem]
  constructor
  · rintro ⟨e, he, rfl⟩
    have := (mem_erase _ _ _).mp he
    exact ⟨⟨e, this.1, rfl⟩, this.2⟩
  · rintro ⟨⟨e, he, rfl⟩, hne⟩
    exact ⟨e, (mem_erase _ _ _).mpr ⟨he, hne⟩, rfl⟩

theorem newFilled_refresh (env : Env) (v : View) (reported : List RHost) :
    NewFilled v.ring (v.refresh env reported).1 := by
  apply refreshV_preserves env (NewFilled v.ring)
  · intro w h hp _ id hid hnew
    unfold View.addNew View.startPoolFill at hid ⊢
    dsimp only at hid ⊢
    rw [hasKey_poolAdd]
    rcases (ids_addIfMissing w.ring h id).mp hid with h1 | h1
    · exact Or.inr h1
    · exact Or.inl (hp id h1 hnew)
  · intro w h hp id hid hnew
    unfold View.removeHost at hid ⊢
    dsimp only at hid ⊢
    have := (ids_remove w.ring h.id id).mp hid
    rw [hasKey_erase]
    exact ⟨hp id this.1 hnew, this.2⟩
  · intro id hid hnew; exact absurd hid hnew

/-! the stored object of every processed host carries the reported addresses -/

def SameAddrs (s h : RHost) : Prop := s.addr = h.addr ∧ s.caddr = h.caddr

structure RepInv (acc : List RHost) (st : RState) : Prop where
  stored : ∀ h ∈ acc, ∃ s, lookup st.v.ring.byId h.id = some s ∧ SameAddrs s h
  gone : ∀ h ∈ acc, h.id ∉ keys st.prev

theorem stepV_rep (env : Env) (st : RState) (acc : List RHost) (h : RHost) (hi : AInv env st) (hr : RepInv acc st)
    (hf : env.filter h = false) (hnew : ∀ x ∈ acc, x.id ≠ h.id) (hok : (refreshStepV env st h).2 = .ok) :
    RepInv (acc ++ [h]) (refreshStepV env st h).1 := by
  revert hok
  unfold refreshStepV
  simp only [hf, Bool.false_eq_true, ↓reduceIte]
  cases hl : lookup st.v.ring.byId h.id with
  | none =>
    rw [addIfMissing_of_none _ h hl]
    intro _
    have hadd := lookup_add_new st.v.ring h hl
    rw [addIfMissing_of_none _ h hl] at hadd
    dsimp only at hadd ⊢
    refine ⟨?_, ?_⟩
    · intro x hx
      rcases List.mem_append.mp hx with h1 | h1
      · obtain ⟨s, hs, hsa⟩ := hr.stored x h1
        refine ⟨s, ?_, hsa⟩
        show lookup (put st.v.ring.byId h.id h) x.id = some s
        rw [hadd]; simp only [hnew x h1, ↓reduceIte]; exact hs
      · simp only [List.mem_singleton] at h1
        subst h1
        exact ⟨x, by show lookup (put st.v.ring.byId x.id x) x.id = some x; rw [hadd]; simp, rfl, rfl⟩
    · intro x hx hk
      have hk' := (mem_keys_erase _ _ _).mp hk
      rcases List.mem_append.mp hx with h1 | h1
      · exact hr.gone x h1 hk'.1
      · simp only [List.mem_singleton] at h1; subst h1; exact hk'.2 rfl
  | some e0 =>
    rw [addIfMissing_of_some _ h e0 hl]
    dsimp only
    cases hlp : lookup st.prev h.id with
    | none => intro e; cases e
    | some ex =>
      dsimp only
      have hmem : (h.id, ex) ∈ st.prev := lookup_some_mem _ _ _ hlp
      have hcur : lookup st.v.ring.byId h.id = some ex := hi.prevIn _ hmem
      have hexid : ex.id = h.id := hi.agree.sinv.wf _ (lookup_some_mem _ _ _ hcur)
      by_cases hcond : (h.caddr == ex.caddr && h.addr == ex.addr) = true
      · rw [if_pos hcond]
        intro _
        refine ⟨?_, ?_⟩
        · intro x hx
          rcases List.mem_append.mp hx with h1 | h1
          · exact hr.stored x h1
          · simp only [List.mem_singleton] at h1
            subst h1
            simp only [Bool.and_eq_true, beq_iff_eq] at hcond
            exact ⟨ex, hcur, hcond.2.symm, hcond.1.symm⟩
        · intro x hx hk
          have hk' := (mem_keys_erase _ _ _).mp hk
          rcases List.mem_append.mp hx with h1 | h1
          · exact hr.gone x h1 hk'.1
          · simp only [List.mem_singleton] at h1; subst h1; exact hk'.2 rfl
      · rw [if_neg hcond]
        have hl2 : lookup (st.v.removeHost env ex).ring.byId h.id = none := by
          rw [removeHost_ring, lookup_remove, hexid]; simp
        rw [addIfMissing_of_none _ h hl2]
        intro _
        have hadd := lookup_add_new (st.v.removeHost env ex).ring h hl2
        rw [addIfMissing_of_none _ h hl2] at hadd
        dsimp only at hadd ⊢
        refine ⟨?_, ?_⟩
        · intro x hx
          rcases List.mem_append.mp hx with h1 | h1
          · obtain ⟨s, hs, hsa⟩ := hr.stored x h1
            refine ⟨s, ?_, hsa⟩
            show lookup (put (st.v.removeHost env ex).ring.byId h.id h) x.id = some s
            rw [hadd]; simp only [hnew x h1, ↓reduceIte]
            rw [removeHost_ring, lookup_remove, hexid]
            simp only [hnew x h1, ↓reduceIte]; exact hs
          · simp only [List.mem_singleton] at h1
            subst h1
            exact ⟨x, by show lookup (put (st.v.removeHost env ex).ring.byId x.id x) x.id = some x; rw [hadd]; simp, rfl, rfl⟩
        · intro x hx hk
          have hk' := (mem_keys_erase _ _ _).mp hk
          rcases List.mem_append.mp hx with h1 | h1
          · exact hr.gone x h1 hk'.1
          · simp only [List.mem_singleton] at h1; subst h1; exact hk'.2 rfl

def accepted (env : Env) (reported : List RHost) : List RHost := reported.filter (fun h => !env.filter h)

theorem loopV_rep (env : Env) (reported : List RHost) : ∀ (st : RState) (acc : List RHost), AInv env st → RepInv acc st →
    ((acc ++ accepted env reported).map (·.id)).Nodup → (refreshLoopV env reported st).2 = .ok →
    RepInv (acc ++ accepted env reported) (refreshLoopV env reported st).1 := by
  induction reported with
  | nil => intro st acc _ hr _ _; simpa [accepted, refreshLoopV] using hr
  | cons h t ih =>
    intro st acc hi hr hn hok
    unfold refreshLoopV at hok ⊢
    cases hf : env.filter h with
    | true =>
      have e1 : refreshStepV env st h = (st, .ok) := by unfold refreshStepV; simp [hf]
      rw [e1] at hok ⊢
      simp only [↓reduceIte] at hok ⊢
      have e2 : accepted env (h :: t) = accepted env t := by simp [accepted, hf]
      rw [e2] at hn ⊢
      exact ih st acc hi hr hn hok
    | false =>
      have e2 : accepted env (h :: t) = h :: accepted env t := by simp [accepted, hf]
      rw [e2] at hn ⊢
      have hstep := stepV_agree env st h hi
      have hnew : ∀ x ∈ acc, x.id ≠ h.id := by
        intro x hx heq
        simp only [List.map_append, List.map_cons] at hn
        have := (List.nodup_append.mp hn).2.2 x.id (List.mem_map.mpr ⟨x, hx, rfl⟩) h.id List.mem_cons_self
        exact this heq
      have hrep := stepV_rep env st acc h hi hr hf hnew
      generalize refreshStepV env st h = res at hok hstep hrep ⊢
      obtain ⟨st', res'⟩ := res
      dsimp only at hok hstep hrep ⊢
      by_cases hres : res' = .ok
      · rw [if_pos hres] at hok ⊢
        have := ih st' (acc ++ [h]) (hstep.2 hres) (hrep hres) (by simpa [List.append_assoc] using hn) hok
        simpa [List.append_assoc] using this
      · rw [if_neg hres] at hok
        exact absurd hok hres

theorem removeAllV_lookup (env : Env) (prev : List (Nat × RHost)) : ∀ (v : View) (k : Nat), k ∉ keys prev →
    (∀ e ∈ prev, e.2.id = e.1) → lookup (removeAllV env v prev).ring.byId k = lookup v.ring.byId k := by
  induction prev with
  | nil => intro v k _ _; rfl
  | cons p t ih =>
    intro v k hk hw
    obtain ⟨k0, x⟩ := p
    simp only [removeAllV]
    simp only [keys, List.map_cons, List.mem_cons, not_or] at hk
    rw [ih _ k hk.2 (fun e he => hw e (List.mem_cons_of_mem _ he)), removeHost_ring, lookup_remove]
    have : x.id = k0 := hw (k0, x) List.mem_cons_self
    rw [this]
    simp [hk.1]

/-- after a successful refresh with distinct accepted ids, the ring's object of every accepted reported
host carries the reported node address and connect address (changed address ⇒ replaced) -/
theorem stored_refresh (env : Env) (v : View) (ha : Agree env v) (reported : List RHost)
    (hn : ((accepted env reported).map (·.id)).Nodup) (hok : (v.refresh env reported).2 = .ok) :
    ∀ h ∈ reported, env.filter h = false →
      ∃ s, lookup (v.refresh env reported).1.ring.byId h.id = some s ∧ SameAddrs s h := by
  have h0 : AInv env ⟨v, v.ring.byId⟩ :=
    ⟨ha, fun e he => lookup_of_mem_nodup _ ha.sinv.knodup e he, ha.sinv.knodup⟩
  have hag := loopV_agree env reported ⟨v, v.ring.byId⟩ h0
  have hrep := loopV_rep env reported ⟨v, v.ring.byId⟩ [] h0 ⟨by simp, by simp⟩ (by simpa using hn)
  unfold View.refresh at hok ⊢
  generalize refreshLoopV env reported ⟨v, v.ring.byId⟩ = res at hok hag hrep ⊢
  obtain ⟨st', res'⟩ := res
  dsimp only at hok hag hrep ⊢
  cases res' with
  | ok =>
    have hi := hag.2 rfl
    have hr := hrep rfl
    simp only [List.nil_append] at hr
    intro h hh hf
    have hacc : h ∈ accepted env reported := List.mem_filter.mpr ⟨hh, by simp [hf]⟩
    obtain ⟨s, hs, hsa⟩ := hr.stored h hacc
    refine ⟨s, ?_, hsa⟩
    dsimp only
    rw [removeAllV_lookup env st'.prev st'.v h.id (hr.gone h hacc)]
    · exact hs
    · intro e he
      exact hi.agree.sinv.wf _ (lookup_some_mem _ _ _ (hi.prevIn e he))
  | errCannotFind => cases hok
  | errAlreadyExists => cases hok

end C16
