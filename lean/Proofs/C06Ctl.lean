import Model.CtlBeat
import Model.EvDeb
/-! Invariant of the heartbeat / close machine (`Model/CtlBeat.lean`). -/

namespace CtlBeat

def live (h : Hb) : Prop := h = .sel ∨ h = .inflight ∨ h = .reconn

/-- invariant of the heartbeat / close machine -/
structure Inv (st : St) : Prop where
  started_live : st.state = .started → live st.hb
  sending : st.cl = .sending → live st.hb ∧ st.state = .closing
  begun : st.state ≠ .starting → st.hb ≠ .notStarted
  closing_cl : st.state = .closing → st.cl ≠ .idle

theorem inv_init : Inv init := by constructor <;> simp [init]

theorem inv_step (st st' : St) (a : Act) (h : Inv st) (hs : step st a = some st') : Inv st' := by
  obtain ⟨h1, h2, h3, h4⟩ := h
  cases a <;> simp only [step] at hs <;> (repeat' split at hs) <;>
    first
    | (simp at hs; done)
    | (injection hs with hs; subst hs; constructor <;> simp_all [live])

theorem inv_run : ∀ (as : List Act) (s s' : St), Inv s → run s as = some s' → Inv s'
  | [], s, s', h, hr => by simp [run] at hr; subst hr; exact h
  | a :: as, s, s', h, hr => by
    simp only [run] at hr
    split at hr
    · rename_i s1 hs1
      exact inv_run as s1 s' (inv_step s s1 a h hs1) hr
    · simp at hr

end CtlBeat

namespace EvDeb

/-- the flusher of the code that exists is never inside the handler -/
def Inv (st : St) : Prop := st.fl ≠ .inCallback

theorem inv_init : Inv init := by simp [Inv, init]

theorem inv_step (st st' : St) (a : Act) (h : Inv st) (hs : step st a = some st') : Inv st' := by
  unfold Inv at *
  cases a <;> simp only [step] at hs <;> (repeat' split at hs) <;>
    first
    | (simp at hs; done)
    | (injection hs with hs; subst hs; simp_all)

theorem inv_run : ∀ (as : List Act) (s s' : St), Inv s → run s as = some s' → Inv s'
  | [], s, s', h, hr => by simp [run] at hr; subst hr; exact h
  | a :: as, s, s', h, hr => by
    simp only [run] at hr
    split at hr
    · rename_i s1 hs1
      exact inv_run as s1 s' (inv_step s s1 a h hs1) hr
    · simp at hr

end EvDeb
