import Proofs.C12Frame
import Proofs.C12Varint
/-!
# C12, converse direction for scalars with a non-trivial layout: a specification-conformant decimal / float / double /
time encoding decodes (model of gocql.Unmarshal) to the value the specification decoder reads
-/
namespace C12Decode
open ValueSpec Marshal C12Bytes C12Varint

theorem two_pow_mul8 (n : Nat) : (2:Int) ^ (n * 8) = (256:Int) ^ n := by
  rw [Nat.mul_comm, Int.pow_mul]; rfl

/-- decBigInt2C (what `*big.Int` and inf.Dec's unscaled value get) is the two's complement value of the bytes -/
theorem decBigInt2C_tc (b : Bytes) : decBigInt2C b = tcDec b := by
  cases b with
  | nil => simp [decBigInt2C, tcDec, beNat]
  | cons x r =>
    have hs := sign_iff_head x r
    unfold decBigInt2C tcDec
    rw [two_pow_mul8]
    by_cases hx : x.toNat ≥ 128
    · simp only [if_pos hx, if_pos (hs.mpr hx)]
    · simp only [if_neg hx, if_neg (fun h => hx (hs.mp h))]

theorem decBigInt_eq_tcDec (b : Bytes) (h : b.length = 8) : decBigInt b = tcDec b := by
  match b, h with
  | [a, b, c, d, e, f, g, i], _ =>
    have ha := a.toNat_lt; have hb := b.toNat_lt; have hc := c.toNat_lt; have hd := d.toNat_lt
    have he := e.toNat_lt; have hf := f.toNat_lt; have hg := g.toNat_lt; have hi := i.toNat_lt
    have hN : beNat [a, b, c, d, e, f, g, i] = a.toNat * 72057594037927936 + b.toNat * 281474976710656 +
        c.toNat * 1099511627776 + d.toNat * 4294967296 + e.toNat * 16777216 + f.toNat * 65536 + g.toNat * 256 + i.toNat := by
      simp [beNat]; omega
    have hL : ([a, b, c, d, e, f, g, i] : Bytes).length = 8 := rfl
    have e1 : (256:Nat) ^ 8 = 18446744073709551616 := by decide
    have e2 : (256:Int) ^ 8 = 18446744073709551616 := by decide
    simp only [decBigInt, tcDec, toS, hN, hL, e1, e2]
    split <;> omega

theorem toU32_tcDec (b : Bytes) (h : b.length = 4) : (toU 32 (tcDec b)).toNat = beNat b := by
  have hl := beNat_lt b
  rw [h] at hl
  have e1 : (256:Nat) ^ 4 = 4294967296 := by decide
  have e2 : (256:Int) ^ 4 = 4294967296 := by decide
  simp only [tcDec, toU, h, e1, e2] at hl ⊢
  split <;> omega

theorem toU64_tcDec (b : Bytes) (h : b.length = 8) : (toU 64 (tcDec b)).toNat = beNat b := by
  have hl := beNat_lt b
  rw [h] at hl
  have e1 : (256:Nat) ^ 8 = 18446744073709551616 := by decide
  have e2 : (256:Int) ^ 8 = 18446744073709551616 := by decide
  simp only [tcDec, toU, h, e1, e2] at hl ⊢
  split <;> omega

theorem decimal_decode (p : Nat) (isNil : Bool) (b : Bytes) (u s : Int) (h : specDec p .decimal b = some (.decimal u s)) :
    unmarshalScalar .decimal isNil b .dec = .ok (.dec u s) := by
  simp only [specDec] at h
  split at h
  · cases h
  · rename_i hl
    split at h
    · injection h with h
      injection h with hu hs
      have h4 : (b.take 4).length = 4 := by simp [List.length_take]; omega
      have : ¬ b.length < 4 := by omega
      have e : unmarshalScalar .decimal isNil b .dec =
          (if b.length < 4 then URes.err else .ok (.dec (decBigInt2C (b.drop 4)) (decInt (b.take 4)))) := rfl
      rw [e, if_neg this, decBigInt2C_tc, C12Frame.decInt_eq_tcDec _ h4, hu, hs]
    · cases h

theorem float_decode (p : Nat) (isNil : Bool) (b : Bytes) (x : Nat) (h : specDec p .float b = some (.f32 x)) :
    unmarshalScalar .float isNil b (.f32 false) = .ok (.f32 false x) := by
  simp only [specDec] at h
  split at h
  · rename_i hl
    injection h with h
    injection h with h
    have e : unmarshalScalar .float isNil b (.f32 false) = .ok (.f32 false (toU 32 (decInt b)).toNat) := rfl
    rw [e, C12Frame.decInt_eq_tcDec b hl, toU32_tcDec b hl, h]
  · cases h

theorem double_decode (p : Nat) (isNil named : Bool) (b : Bytes) (x : Nat) (h : specDec p .double b = some (.f64 x)) :
    unmarshalScalar .double isNil b (.f64 named) = .ok (.f64 named x) := by
  simp only [specDec] at h
  split at h
  · rename_i hl
    injection h with h
    injection h with h
    have e : unmarshalScalar .double isNil b (.f64 named) = .ok (.f64 named (toU 64 (decBigInt b)).toNat) := rfl
    rw [e, decBigInt_eq_tcDec b hl, toU64_tcDec b hl, h]
  · cases h

theorem time_decode (p : Nat) (isNil named : Bool) (b : Bytes) (n : Int) (h : specDec p .time b = some (.int n)) :
    unmarshalScalar .time isNil b (.int .int64 named) = .ok (.int .int64 named n) ∧
    unmarshalScalar .time isNil b .dur = .ok (.dur n) := by
  simp only [specDec] at h
  split at h
  · rename_i hl
    injection h with h
    injection h with h
    have e1 : unmarshalScalar .time isNil b (.int .int64 named) = .ok (.int .int64 named (decBigInt b)) := rfl
    have e2 : unmarshalScalar .time isNil b .dur = .ok (.dur (decBigInt b)) := rfl
    rw [e1, e2, decBigInt_eq_tcDec b hl, h]
    exact ⟨rfl, rfl⟩
  · cases h

end C12Decode
