import Proofs.C16EventsAgreeRefresh
/-! helper lemmas: after a refresh every host object that is NEW in the ring (a new node, or the new object
of a node whose address changed) is in the policy's host lists — provided no OTHER accepted reported host
has its connect address (the policy lists are keyed by connect address, they cannot hold two hosts on one).
Since refreshRing removes what is gone before it adds anything (repair of KF-C16-4) the previous owner of
the address — a replaced node, a node that moved away in the same report — is no obstacle any more. -/
namespace C16
open Ring ClusterView

/-- no other accepted reported host has the connect address of `s` -/
def OwnConn (env : Env) (reported : List RHost) (s : RHost) : Prop :=
  ∀ y ∈ accepted env reported, y ≠ s → cAddr y ≠ cAddr s

instance (env : Env) (reported : List RHost) (s : RHost) : Decidable (OwnConn env reported s) := by
  unfold OwnConn; infer_instance

/-- `s` is in the policy's lists: in the token-aware list when the policy is token aware, and in the fallback's lists -/
def InPolicy (env : Env) (p : Policy) (s : RHost) : Prop := (env.tokenAware = true → s ∈ p.ta) ∧ (s ∈ p.loc ∨ s ∈ p.rem)

instance (env : Env) (p : Policy) (s : RHost) : Decidable (InPolicy env p s) := by unfold InPolicy; infer_instance

theorem mem_cowAdd_self (l : List RHost) (h : RHost) (hl : ∀ y ∈ l, cAddr y ≠ cAddr h) : h ∈ cowAdd l h :=
  (mem_cowAdd l h h).mpr (Or.inr ⟨rfl, hl⟩)

/-- every host of the ring has the id and connect address of an accepted reported host -/
def MatchedC (acc : List RHost) (r : Ring.Ring) : Prop := ∀ e ∈ r.byId, ∃ h ∈ acc, h.id = e.1 ∧ cAddr h = cAddr e.2

theorem inPolicy_add_keep (env : Env) (p : Policy) (h s : RHost) (hs : InPolicy env p s) : InPolicy env (p.add env h) s := by
  refine ⟨fun ht => ?_, ?_⟩
  · rw [add_ta, ht]; exact (mem_cowAdd _ _ _).mpr (Or.inl (hs.1 ht))
  · rw [add_loc, add_rem]
    rcases hs.2 with h1 | h1
    · left; split
      · exact (mem_cowAdd _ _ _).mpr (Or.inl h1)
      · exact h1
    · right; split
      · exact h1
      · exact (mem_cowAdd _ _ _).mpr (Or.inl h1)

theorem inPolicy_add_self (env : Env) (p : Policy) (h : RHost) (hfree : ∀ y ∈ p.all, cAddr y ≠ cAddr h) :
    InPolicy env (p.add env h) h := by
  have hta : ∀ y ∈ p.ta, cAddr y ≠ cAddr h := fun y hy => hfree y ((mem_all _ _).mpr (Or.inl hy))
  have hloc : ∀ y ∈ p.loc, cAddr y ≠ cAddr h := fun y hy => hfree y ((mem_all _ _).mpr (Or.inr (Or.inl hy)))
  have hrem : ∀ y ∈ p.rem, cAddr y ≠ cAddr h := fun y hy => hfree y ((mem_all _ _).mpr (Or.inr (Or.inr hy)))
  refine ⟨fun ht => ?_, ?_⟩
  · rw [add_ta, ht]; exact mem_cowAdd_self _ _ hta
  · rw [add_loc, add_rem]
    cases hl : env.isLocal h with
    | true => left; exact mem_cowAdd_self _ _ hloc
    | false => right; exact mem_cowAdd_self _ _ hrem

structure NewPol (env : Env) (reported : List RHost) (w1 w : View) : Prop where
  agree : Agree env w
  matched : MatchedC (accepted env reported) w.ring
  inpol : ∀ s, lookup w.ring.byId s.id = some s → lookup w1.ring.byId s.id = none → OwnConn env reported s →
    InPolicy env w.pol s

theorem addAllV_newPol (env : Env) (reported : List RHost) (w1 : View) (l : List RHost)
    (hl : ∀ h ∈ l, h ∈ accepted env reported) : ∀ (w : View), NewPol env reported w1 w →
      NewPol env reported w1 (l.foldl (addStepV env) w) := by
  induction l with
  | nil => intro w hw; exact hw
  | cons h t ih =>
    intro w hw
    simp only [List.foldl_cons]
    apply ih (fun x hx => hl x (List.mem_cons_of_mem _ hx))
    cases hlk : lookup w.ring.byId h.id with
    | some e => rw [addStepV_of_some env w h e hlk]; exact hw
    | none =>
      rw [addStepV_of_none env w h hlk]
      have hacc := hl h List.mem_cons_self
      have hlook := lookup_add_new w.ring h hlk
      refine ⟨agree_addNew env w h hw.agree hlk, ?_, ?_⟩
      · intro e he
        have he' : e ∈ (w.ring.addIfMissing h).1.byId := he
        rcases (mem_add_new w.ring h hlk e).mp he' with rfl | he'
        · exact ⟨h, hacc, rfl, rfl⟩
        · exact hw.matched e he'
      · intro s hs hnew hown
        have hs' : lookup (w.ring.addIfMissing h).1.byId s.id = some s := hs
        rw [hlook] at hs'
        show InPolicy env (w.pol.add env h) s
        by_cases hid : s.id = h.id
        · simp only [hid, ↓reduceIte, Option.some.injEq] at hs'
          subst hs'
          apply inPolicy_add_self
          intro y hy hcy
          have hycur := hw.agree.pol y hy
          obtain ⟨h', hh', hid', hc'⟩ := hw.matched (y.id, y) (lookup_some_mem _ _ _ hycur)
          by_cases e : h' = h
          · rw [e] at hid'
            have hid2 : h.id = y.id := hid'
            rw [← hid2, hlk] at hycur
            cases hycur
          · exact hown h' hh' e (hc'.trans hcy)
        · simp only [hid, ↓reduceIte] at hs'
          exact inPolicy_add_keep env w.pol h s (hw.inpol s hs' hnew hown)

theorem cAddr_eq (a b : RHost) (h1 : a.caddr = b.caddr) (h2 : a.addr = b.addr) : cAddr a = cAddr b := by
  unfold cAddr; rw [h1, h2]

/-- after a refresh of a reachable view, every object of the ring that was not the ring's object of its host
id before (a new node, or the new object of a node whose address changed) and whose connect address no
other accepted reported host has, is in the policy's lists -/
theorem newPol_refresh (env : Env) (v : View) (ha : Agree env v) (reported : List RHost) (s : RHost)
    (hs : lookup (v.refresh env reported).ring.byId s.id = some s) (hnew : lookup v.ring.byId s.id ≠ some s)
    (hown : OwnConn env reported s) : InPolicy env (v.refresh env reported).pol s := by
  have hr1 : (removeAllV env v (goneV env v reported)).ring = removeAll v.ring (goneOf v.ring env.filter reported) :=
    removeAllV_ring env _ v
  have h0 : NewPol env reported (removeAllV env v (goneV env v reported)) (removeAllV env v (goneV env v reported)) := by
    refine ⟨agree_pass1 env v ha reported, ?_, ?_⟩
    · intro e he
      rw [hr1] at he
      have hm := (mem_pass1 v.ring ha.sinv.wf ha.sinv.knodup env.filter reported e).mp he
      have hst := hm.2
      unfold stays at hst
      cases hl : lookup (reportedMap env.filter reported) e.1 with
      | none => rw [hl] at hst; cases hst
      | some x =>
        rw [hl] at hst
        simp only [Bool.and_eq_true, beq_iff_eq] at hst
        have hmem := lookup_some_mem _ _ _ hl
        unfold reportedMap at hmem
        obtain ⟨y, hy, hyx⟩ := List.mem_map.mp hmem
        have h1 : y.id = e.1 := congrArg Prod.fst hyx
        have h2 : y = x := congrArg Prod.snd hyx
        exact ⟨y, hy, h1, by rw [h2]; exact cAddr_eq x e.2 hst.1 hst.2⟩
    · intro s hs hn _
      rw [hs] at hn; cases hn
  have hfin := addAllV_newPol env reported _ (accepted env reported) (fun _ h => h) _ h0
  rw [← refreshV_eq] at hfin
  apply hfin.inpol s hs ?_ hown
  -- `s` was added by pass 2: it is not in the ring after pass 1
  cases hp : lookup (removeAllV env v (goneV env v reported)).ring.byId s.id with
  | none => rfl
  | some x =>
    exfalso
    have hfinal : lookup (v.refresh env reported).ring.byId s.id = some x := by
      rw [refreshV_eq, foldl_addStepV_ring, lookup_addAll, hp]
    rw [hs] at hfinal
    have hx : s = x := Option.some.inj hfinal
    subst hx
    rw [hr1] at hp
    have hm := (mem_pass1 v.ring ha.sinv.wf ha.sinv.knodup env.filter reported (s.id, s)).mp (lookup_some_mem _ _ _ hp)
    exact hnew (lookup_of_mem_nodup _ ha.sinv.knodup (s.id, s) hm.1)

end C16
