import Proofs.C16EventsAgreeRefresh
/-! helper lemmas: after a refresh a host with a new id is in the fallback policy's lists, PROVIDED its
connect address is used neither by a host of the prior ring nor by another accepted reported host
(the policy lists are keyed by connect address: see the counterexample in Proofs/C16Events.lean) -/
namespace C16
open Ring ClusterView

/-- as `refreshV_preserves`, knowing that every host added is an accepted reported host and every host
removed is an object of the prior ring -/
theorem stepV_preserves' (env : Env) (r0 : Ring.Ring) (reported : List RHost) (P : View → Prop)
    (hadd : ∀ v h, P v → lookup v.ring.byId h.id = none → h ∈ reported → env.filter h = false → P (View.addNew env v h))
    (hrm : ∀ v h, P v → h ∈ r0.allHosts → P (v.removeHost env h))
    (st : RState) (h : RHost) (hh : h ∈ reported) (hp : P st.v) (hsub : ∀ e ∈ st.prev, e ∈ r0.byId) :
    P (refreshStepV env st h).1.v ∧ (∀ e ∈ (refreshStepV env st h).1.prev, e ∈ r0.byId) := by
  unfold refreshStepV
  cases hf : env.filter h with
  | true => simp only [↓reduceIte]; exact ⟨hp, hsub⟩
  | false =>
    simp only [Bool.false_eq_true, ↓reduceIte]
    have hsub' : ∀ e ∈ erase st.prev h.id, e ∈ r0.byId := fun e he => hsub e ((mem_erase _ _ _).mp he).1
    cases hl : lookup st.v.ring.byId h.id with
    | none =>
      have := hadd st.v h hp hl hh hf
      unfold View.addNew at this
      rw [addIfMissing_of_none _ h hl] at this ⊢
      exact ⟨this, hsub'⟩
    | some e0 =>
      rw [addIfMissing_of_some _ h e0 hl]
      dsimp only
      cases hlp : lookup st.prev h.id with
      | none => exact ⟨hp, hsub⟩
      | some ex =>
        dsimp only
        by_cases hcond : (h.caddr == ex.caddr && h.addr == ex.addr) = true
        · rw [if_pos hcond]; exact ⟨hp, hsub'⟩
        · rw [if_neg hcond]
          have hex : ex ∈ r0.allHosts :=
            List.mem_map.mpr ⟨(h.id, ex), hsub _ (lookup_some_mem _ _ _ hlp), rfl⟩
          have hp2 := hrm st.v ex hp hex
          cases hl2 : lookup (st.v.removeHost env ex).ring.byId h.id with
          | none =>
            have := hadd _ h hp2 hl2 hh hf
            unfold View.addNew at this
            rw [addIfMissing_of_none _ h hl2] at this ⊢
            exact ⟨this, hsub'⟩
          | some e3 =>
            rw [addIfMissing_of_some _ h e3 hl2]
            exact ⟨hp2, hsub⟩

theorem loopV_preserves' (env : Env) (r0 : Ring.Ring) (reported : List RHost) (P : View → Prop)
    (hadd : ∀ v h, P v → lookup v.ring.byId h.id = none → h ∈ reported → env.filter h = false → P (View.addNew env v h))
    (hrm : ∀ v h, P v → h ∈ r0.allHosts → P (v.removeHost env h)) (l : List RHost) (hl : ∀ h ∈ l, h ∈ reported) :
    ∀ (st : RState), P st.v → (∀ e ∈ st.prev, e ∈ r0.byId) →
      P (refreshLoopV env l st).1.v ∧ (∀ e ∈ (refreshLoopV env l st).1.prev, e ∈ r0.byId) := by
  induction l with
  | nil => intro st hp hs; exact ⟨hp, hs⟩
  | cons h t ih =>
    intro st hp hs
    unfold refreshLoopV
    have := stepV_preserves' env r0 reported P hadd hrm st h (hl h List.mem_cons_self) hp hs
    generalize refreshStepV env st h = res at this
    obtain ⟨st', res'⟩ := res
    dsimp only at this ⊢
    split
    · exact ih (fun x hx => hl x (List.mem_cons_of_mem _ hx)) st' this.1 this.2
    · exact this

theorem removeAllV_preserves' (env : Env) (r0 : Ring.Ring) (P : View → Prop)
    (hrm : ∀ v h, P v → h ∈ r0.allHosts → P (v.removeHost env h))
    (prev : List (Nat × RHost)) : ∀ v, P v → (∀ e ∈ prev, e ∈ r0.byId) → P (removeAllV env v prev) := by
  induction prev with
  | nil => intro v hp _; exact hp
  | cons p t ih =>
    intro v hp hs
    obtain ⟨k, x⟩ := p
    exact ih _ (hrm v x hp (List.mem_map.mpr ⟨(k, x), hs _ List.mem_cons_self, rfl⟩)) (fun e he => hs e (List.mem_cons_of_mem _ he))

theorem refreshV_preserves' (env : Env) (v : View) (reported : List RHost) (P : View → Prop)
    (hadd : ∀ w h, P w → lookup w.ring.byId h.id = none → h ∈ reported → env.filter h = false → P (View.addNew env w h))
    (hrm : ∀ w h, P w → h ∈ v.ring.allHosts → P (w.removeHost env h)) (hp : P v) :
    P (v.refresh env reported).1 := by
  have := loopV_preserves' env v.ring reported P hadd hrm reported (fun _ h => h) ⟨v, v.ring.byId⟩ hp (fun _ h => h)
  unfold View.refresh
  generalize refreshLoopV env reported ⟨v, v.ring.byId⟩ = res at this
  obtain ⟨st', res'⟩ := res
  dsimp only at this
  cases res' with
  | ok => exact removeAllV_preserves' env v.ring P hrm st'.prev st'.v this.1 this.2
  | errCannotFind => exact this.1
  | errAlreadyExists => exact this.1

/-- the connect address of `s` is not the connect address of a host of the ring `r0`, nor of another accepted reported host -/
def FreshConn (env : Env) (r0 : Ring.Ring) (reported : List RHost) (s : RHost) : Prop :=
  (∀ y ∈ r0.allHosts, cAddr y ≠ cAddr s) ∧ (∀ y ∈ reported, env.filter y = false → y ≠ s → cAddr y ≠ cAddr s)

instance (env : Env) (r0 : Ring.Ring) (reported : List RHost) (s : RHost) : Decidable (FreshConn env r0 reported s) := by
  unfold FreshConn; infer_instance

structure NewPol (env : Env) (r0 : Ring.Ring) (reported : List RHost) (w : View) : Prop where
  prov : ∀ y, y ∈ w.pol.loc ∨ y ∈ w.pol.rem → y ∈ r0.allHosts ∨ (y ∈ reported ∧ env.filter y = false)
  inpol : ∀ s, lookup w.ring.byId s.id = some s → s.id ∉ keys r0.byId → FreshConn env r0 reported s →
    s ∈ w.pol.loc ∨ s ∈ w.pol.rem

theorem mem_cowAdd_self (l : List RHost) (h : RHost) (hl : ∀ y ∈ l, cAddr y = cAddr h → y = h) : h ∈ cowAdd l h := by
  rw [mem_cowAdd]
  by_cases hc : ∀ y ∈ l, cAddr y ≠ cAddr h
  · exact Or.inr ⟨rfl, hc⟩
  · have : ∃ y, y ∈ l ∧ cAddr y = cAddr h := by
      apply Classical.byContradiction
      intro hne
      apply hc
      intro y hy hcy
      exact hne ⟨y, hy, hcy⟩
    obtain ⟨y, hy, hcy⟩ := this
    rw [← hl y hy hcy]
    exact Or.inl hy

theorem newPol_refresh (env : Env) (v : View) (reported : List RHost)
    (hprov : ∀ y, y ∈ v.pol.loc ∨ y ∈ v.pol.rem → y ∈ v.ring.allHosts) :
    NewPol env v.ring reported (v.refresh env reported).1 := by
  apply refreshV_preserves' env v reported (NewPol env v.ring reported)
  · -- a new accepted host is added
    intro w h hp hn hh hf
    have hlk := lookup_add_new w.ring h hn
    refine ⟨?_, ?_⟩
    · intro y hy
      have hy' : y ∈ (w.pol.add env h).loc ∨ y ∈ (w.pol.add env h).rem := hy
      rw [add_loc, add_rem] at hy'
      rcases hy' with h1 | h1
      · split at h1
        · rcases mem_cowAdd_sub _ _ _ h1 with h2 | h2
          · exact hp.prov y (Or.inl h2)
          · rw [h2]; exact Or.inr ⟨hh, hf⟩
        · exact hp.prov y (Or.inl h1)
      · split at h1
        · exact hp.prov y (Or.inr h1)
        · rcases mem_cowAdd_sub _ _ _ h1 with h2 | h2
          · exact hp.prov y (Or.inr h2)
          · rw [h2]; exact Or.inr ⟨hh, hf⟩
    · intro s hs hnew hfresh
      have hs' : lookup (w.ring.addIfMissing h).1.byId s.id = some s := hs
      rw [hlk] at hs'
      show s ∈ (w.pol.add env h).loc ∨ s ∈ (w.pol.add env h).rem
      rw [add_loc, add_rem]
      by_cases hid : s.id = h.id
      · simp only [hid, ↓reduceIte, Option.some.injEq] at hs'
        subst hs'
        have key : ∀ (l : List RHost), (∀ y ∈ l, y ∈ w.pol.loc ∨ y ∈ w.pol.rem) → h ∈ cowAdd l h := by
          intro l hl
          apply mem_cowAdd_self
          intro y hy hcy
          rcases hp.prov y (hl y hy) with h1 | ⟨h1, h2⟩
          · exact absurd hcy (hfresh.1 y h1)
          · apply Classical.byContradiction
            intro hne
            exact hfresh.2 y h1 h2 hne hcy
        cases hloc : env.isLocal h with
        | true => simp only [↓reduceIte]; exact Or.inl (key _ (fun y hy => Or.inl hy))
        | false => simp only [Bool.false_eq_true, ↓reduceIte]; exact Or.inr (key _ (fun y hy => Or.inr hy))
      · simp only [hid, ↓reduceIte] at hs'
        rcases hp.inpol s hs' hnew hfresh with h1 | h1
        · left; split
          · exact (mem_cowAdd _ _ _).mpr (Or.inl h1)
          · exact h1
        · right; split
          · exact h1
          · exact (mem_cowAdd _ _ _).mpr (Or.inl h1)
  · -- an object of the prior ring is removed
    intro w h hp hh
    refine ⟨?_, ?_⟩
    · intro y hy
      have hy' : y ∈ (w.pol.remove env h).loc ∨ y ∈ (w.pol.remove env h).rem := hy
      rw [remove_loc, remove_rem] at hy'
      rcases hy' with h1 | h1
      · split at h1
        · exact hp.prov y (Or.inl ((mem_cowRemove _ _ _).mp h1).1)
        · exact hp.prov y (Or.inl h1)
      · split at h1
        · exact hp.prov y (Or.inr h1)
        · exact hp.prov y (Or.inr ((mem_cowRemove _ _ _).mp h1).1)
    · intro s hs hnew hfresh
      have hs' : lookup (w.ring.remove h.id).1.byId s.id = some s := hs
      rw [lookup_remove] at hs'
      have hid : s.id ≠ h.id := fun e => by simp [e] at hs'
      simp only [hid, ↓reduceIte] at hs'
      have hne : cAddr s ≠ cAddr h := fun e => hfresh.1 h hh e.symm
      show s ∈ (w.pol.remove env h).loc ∨ s ∈ (w.pol.remove env h).rem
      rw [remove_loc, remove_rem]
      rcases hp.inpol s hs' hnew hfresh with h1 | h1
      · left; split
        · exact (mem_cowRemove _ _ _).mpr ⟨h1, hne⟩
        · exact h1
      · right; split
        · exact h1
        · exact (mem_cowRemove _ _ _).mpr ⟨h1, hne⟩
  · -- initially
    refine ⟨fun y hy => Or.inl (hprov y hy), ?_⟩
    intro s hs hnew _
    exact absurd (lookup_mem_keys _ _ _ hs) hnew

end C16
