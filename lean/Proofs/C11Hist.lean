import Model.Policies
import Proofs.C11Cow
import Proofs.C11Pol
/-! helper lemmas: the policy lists against the HISTORY of notifier calls
(`known p x ↔ the last call about x was AddHost or HostUp`, for hosts with pairwise different addresses) -/
namespace C11
open Policies

theorem Inv_bump (p : Pol) (hp : Inv p) : Inv p.bump := ⟨hp.a0, hp.a1, hp.a2, hp.t0, hp.t1, hp.t2⟩
theorem Inv_setCtr (p : Pol) (hp : Inv p) (n : Nat) : Inv (p.setCtr n) := ⟨hp.a0, hp.a1, hp.a2, hp.t0, hp.t1, hp.t2⟩

theorem known_bump (p : Pol) (x : Host) : known p.bump x ↔ known p x := Iff.rfl
theorem known_setCtr (p : Pol) (n : Nat) (x : Host) : known (p.setCtr n) x ↔ known p x := Iff.rfl

theorem getLayer_setLayer (p : Pol) (i j : Nat) (l : List Host) (hi : i = 0 ∨ i = 1 ∨ i = 2) (hj : j = 0 ∨ j = 1 ∨ j = 2) :
    (p.setLayer i l).getLayer j = if j = i then l else p.getLayer j := by
  rcases hi with rfl | rfl | rfl <;> rcases hj with rfl | rfl | rfl <;> rfl

/-- with the invariant, a host is in the lists iff it is in the list of its own tier -/
theorem known_iff_layer (p : Pol) (hp : Inv p) (x : Host) : known p x ↔ x ∈ p.getLayer (p.tier x) := by
  unfold known
  constructor
  · rintro (h | h | h)
    · rw [hp.t0 x h]; exact h
    · rw [hp.t1 x h]; exact h
    · rw [hp.t2 x h]; exact h
  · intro h
    rcases tier_le_two p x with e | e | e <;> rw [e] at h
    · exact Or.inl h
    · exact Or.inr (Or.inl h)
    · exact Or.inr (Or.inr h)

/-- `AddHost` / `HostUp` of a host whose address no OTHER listed host has: it is listed afterwards, nothing else changes -/
theorem known_add (p : Pol) (hp : Inv p) (h x : Host)
    (hna : ∀ y, known p y → y.addr = h.addr → y = h) :
    known (p.add h) x ↔ known p x ∨ x = h := by
  have hp' := Inv_add p hp h
  rw [known_iff_layer _ hp', known_iff_layer p hp]
  unfold Pol.add
  rw [tier_setLayer, getLayer_setLayer p _ _ _ (tier_le_two p h) (tier_le_two p x)]
  split
  · rename_i e
    rw [mem_cowAdd, e]
    constructor
    · rintro (h1 | ⟨h1, _⟩)
      · exact Or.inl h1
      · exact Or.inr h1
    · rintro (h1 | h1)
      · exact Or.inl h1
      · subst h1
        by_cases hk : x ∈ p.getLayer (p.tier x)
        · exact Or.inl hk
        · refine Or.inr ⟨rfl, ?_⟩
          intro y hy hya
          have hyk : known p y := by
            rcases tier_le_two p x with e' | e' | e' <;> rw [e'] at hy
            · exact Or.inl hy
            · exact Or.inr (Or.inl hy)
            · exact Or.inr (Or.inr hy)
          have := hna y hyk hya
          subst this
          exact hk hy
  · rename_i e
    constructor
    · exact Or.inl
    · rintro (h1 | h1)
      · exact h1
      · subst h1; exact absurd rfl e

/-- `RemoveHost` / `HostDown` of a host whose address no OTHER listed host has: it is not listed afterwards, nothing else changes -/
theorem known_remove (p : Pol) (hp : Inv p) (h x : Host)
    (hna : ∀ y, known p y → y.addr = h.addr → y = h) :
    known (p.remove h) x ↔ known p x ∧ x ≠ h := by
  have hp' := Inv_remove p hp h
  rw [known_iff_layer _ hp', known_iff_layer p hp]
  unfold Pol.remove
  rw [tier_setLayer, getLayer_setLayer p _ _ _ (tier_le_two p h) (tier_le_two p x)]
  split
  · rename_i e
    rw [mem_cowRemove, e]
    constructor
    · rintro ⟨h1, h2⟩
      exact ⟨h1, fun e' => h2 (by rw [e'])⟩
    · rintro ⟨h1, h2⟩
      refine ⟨h1, fun e' => h2 (hna x ?_ e')⟩
      rw [known_iff_layer p hp, e]; exact h1
  · rename_i e
    constructor
    · intro h1
      exact ⟨h1, fun e' => e (by rw [e'])⟩
    · exact fun h1 => h1.1

/-! ### the status of a host according to the history -/

/-- the last call about the host was `AddHost` or `HostUp` -/
def _root_.Policies.Status.inList (s : Status) : Bool := s.last == some .add || s.last == some .hup

/-- consistency of a status value: `known` follows the last AddHost / RemoveHost -/
def _root_.Policies.Status.wf (s : Status) : Prop :=
  (s.last = none → s.known = false) ∧ (s.last = some .add → s.known = true) ∧ (s.last = some .remove → s.known = false)

theorem wf_init : Status.init.wf := by simp [Status.wf, Status.init]

theorem wf_step (s : Status) (_hs : s.wf) (e : Ev) : (s.step e).wf := by
  cases e <;> simp [Status.wf, Status.step]

/-- status when starting from `s0` -/
def statusFrom (s0 : Status) (evs : List (Ev × Host)) (h : Host) : Status :=
  evs.foldl (fun s e => if e.2 = h then s.step e.1 else s) s0

theorem statusOf_eq (evs : List (Ev × Host)) (h : Host) : statusOf evs h = statusFrom Status.init evs h := rfl

theorem statusFrom_cons (s0 : Status) (e : Ev × Host) (r : List (Ev × Host)) (h : Host) :
    statusFrom s0 (e :: r) h = statusFrom (if e.2 = h then s0.step e.1 else s0) r h := rfl

theorem wf_statusFrom (s0 : Status) (hs : s0.wf) (evs : List (Ev × Host)) (h : Host) : (statusFrom s0 evs h).wf := by
  induction evs generalizing s0 with
  | nil => exact hs
  | cons e r ih =>
    rw [statusFrom_cons]
    apply ih
    split
    · exact wf_step s0 hs e.1
    · exact hs

theorem wf_statusOf (evs : List (Ev × Host)) (h : Host) : (statusOf evs h).wf :=
  wf_statusFrom _ wf_init evs h

/-- a host no call was about has the initial status -/
theorem statusFrom_not_mem (s0 : Status) (evs : List (Ev × Host)) (h : Host) (hm : h ∉ evs.map (·.2)) :
    statusFrom s0 evs h = s0 := by
  induction evs generalizing s0 with
  | nil => rfl
  | cons e r ih =>
    rw [statusFrom_cons]
    have h1 : ¬ e.2 = h := fun e' => hm (by simp [e'])
    have h2 : h ∉ r.map (·.2) := fun e' => hm (by simp only [List.map_cons, List.mem_cons]; exact Or.inr e')
    rw [if_neg h1]
    exact ih s0 h2

theorem mem_of_known (evs : List (Ev × Host)) (h : Host) (hk : (statusOf evs h).known = true) : h ∈ evs.map (·.2) := by
  apply Classical.byContradiction
  intro hm
  rw [statusOf_eq, statusFrom_not_mem _ _ _ hm] at hk
  simp [Status.init] at hk

/-- what the property expects follows from `inList`, and conversely unless the host is a ghost
(`HostUp` of a host that is not known) -/
theorem expected_inList (s : Status) (hs : s.wf) (u : Bool) (he : s.expected u = true) : s.inList = true ∧ u = true := by
  obtain ⟨k, l⟩ := s
  obtain ⟨w1, w2, w3⟩ := hs
  simp only [Status.expected, Bool.and_eq_true, bne_iff_ne, ne_eq] at he
  obtain ⟨⟨hk, hl⟩, hu⟩ := he
  refine ⟨?_, hu⟩
  simp only at hk hl w1 w2 w3
  subst hk
  simp only [Status.inList]
  rcases l with _ | e
  · simp at w1
  · cases e
    · simp
    · simp at w3
    · simp
    · simp at hl

theorem inList_expected (s : Status) (hs : s.wf) (hg : s.ghost = false) (hi : s.inList = true) : s.expected true = true := by
  obtain ⟨k, l⟩ := s
  obtain ⟨w1, w2, w3⟩ := hs
  simp only [Status.inList, Bool.or_eq_true, beq_iff_eq] at hi
  simp only [Status.ghost, Bool.and_eq_false_imp, Bool.not_eq_true', beq_eq_false_iff_ne, ne_eq] at hg
  simp only at w1 w2 w3 hi hg
  simp only [Status.expected, Bool.and_true, Bool.and_eq_true, bne_iff_ne, ne_eq]
  rcases hi with rfl | rfl
  · exact ⟨w2 rfl, by simp⟩
  · refine ⟨?_, by simp⟩
    cases k
    · exact absurd rfl (hg rfl)
    · rfl

end C11
