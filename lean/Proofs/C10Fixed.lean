import Model.Placement
import Model.PlacementFixed
/-!
C10 after the proposed fixes — what is machine-checked so far: the two recorded failing inputs behave as Cassandra does.
NOT yet proved (the integrator's to-do after applying the patch): the general theorems
  * `ntsWalkF c st sh l = ntsWalk c st (first occurrences of l not in sh)` (revisits are skipped), from which
    `C10_nts_nodup`, `C10_nts_bound`, `C10_nts_equal` follow for ALL rings via the `_partial` theorems of Proofs/C10.lean
    plus `Spec.walk l = Spec.walk (Spec.firsts l)` (revisits are no-ops in Cassandra's algorithm);
  * `C10_no_panic` for all inputs: with the fixed guard, "all ring DCs replicated" implies no token was skipped,
    so the lengths agree (the argument of `C10_no_panic_partial`, first disjunct).
-/
namespace C10Fixed
open Placement

/-- D1 input after the fix: token 0 ↦ [A, B], as Cassandra -/
theorem fixed_D1 :
    (ntsReplicaMapF [(1, 2)] [⟨1, 1, 1⟩, ⟨2, 1, 1⟩, ⟨3, 1, 1⟩]
        [(0, ⟨1, 1, 1⟩), (5, ⟨1, 1, 1⟩), (10, ⟨2, 1, 1⟩), (20, ⟨3, 1, 1⟩)]).toOption
      = some [(0, [⟨1, 1, 1⟩, ⟨2, 1, 1⟩]), (5, [⟨1, 1, 1⟩, ⟨2, 1, 1⟩]), (10, [⟨2, 1, 1⟩, ⟨3, 1, 1⟩]),
              (20, [⟨3, 1, 1⟩, ⟨1, 1, 1⟩])] := by decide

theorem fixed_D1_is_spec :
    [0, 5, 10, 20].map (Spec.nts [(0, ⟨1, 1, 1⟩), (5, ⟨1, 1, 1⟩), (10, ⟨2, 1, 1⟩), (20, ⟨3, 1, 1⟩)] [(1, 2)])
      = [[⟨1, 1, 1⟩, ⟨2, 1, 1⟩], [⟨1, 1, 1⟩, ⟨2, 1, 1⟩], [⟨2, 1, 1⟩, ⟨3, 1, 1⟩], [⟨3, 1, 1⟩, ⟨1, 1, 1⟩]] := by decide

/-- D2 input after the fix: no panic, the dc1 token is mapped, the dc3 token has no entry -/
theorem fixed_D2 :
    (ntsReplicaMapF [(1, 1), (2, 1)] [⟨1, 1, 1⟩, ⟨2, 3, 1⟩] [(0, ⟨1, 1, 1⟩), (10, ⟨2, 3, 1⟩)]).toOption
      = some [(0, [⟨1, 1, 1⟩])] := by decide

/-- a ring whose only DC is replicated passes the fixed guard -/
example : crashOf (ntsReplicaMapF [(1, 1)] [⟨1, 1, 1⟩] [(0, ⟨1, 1, 1⟩)]) = none := by decide

end C10Fixed
