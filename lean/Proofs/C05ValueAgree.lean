import Proofs.C05Value
/-!
  C05 / value decoders: the proposed fixes (props/C05.fix-11..7.diff, `fx := true`) are
  CONSERVATIVE: on every input on which the code as it is returns (ok or err, no crash) the fixed code
  returns the same outcome; only the crashing inputs change (C05_values_total_fixed: to ok or err).
  For fix-15 (count bounded by the remaining bytes) this needs: a body that cannot hold `cnt` element
  headers never decodes to ok (`listLoop_short_not_ok`, `mapLoop_short_not_ok`).
-/
namespace C05Value
open CrashValue

/-- `y` (fixed) agrees with `x` (as it is) whenever `x` is not a crash -/
def Agree {α : Type} (x y : Res α) : Prop := (∀ a, x = .ok a → y = .ok a) ∧ (x = .err → y = .err)

theorem agree_refl {α : Type} (x : Res α) : Agree x x := ⟨fun _ h => h, fun h => h⟩
theorem agree_crash {α : Type} (s : Site) (y : Res α) : Agree (.crash s) y :=
  ⟨fun _ h => (by cases h), fun h => (by cases h)⟩

theorem agree_bind {α β : Type} {x y : Res α} {f g : α → Res β} (h : Agree x y)
    (hf : ∀ a, Agree (f a) (g a)) : Agree (x >>= f) (y >>= g) := by
  cases x with
  | ok a => rw [h.1 a rfl]; exact hf a
  | err => rw [h.2 rfl]; exact agree_refl _
  | crash s => exact agree_crash s _

/-- an outcome that is never ok agrees with err -/
theorem agree_err_of_not_ok {α : Type} {x : Res α} (h : ∀ a, x ≠ .ok a) : Agree x .err :=
  ⟨fun a ha => absurd ha (h a), fun _ => rfl⟩

theorem agree_if {α : Type} {c : Prop} [Decidable c] {a b a' b' : Res α} (h1 : Agree a a') (h2 : Agree b b') :
    Agree (if c then a else b) (if c then a' else b') := by split <;> assumption

theorem crashOrErr_agree {α : Type} (s : Site) : Agree (crashOrErr false s : Res α) (crashOrErr true s) := by
  simp [crashOrErr]; exact agree_crash _ _

theorem scalar_agree (n : Native) (g : GT) (d : Option Bytes) : Agree (scalar false n g d) (scalar true n g d) := by
  cases n
  case date =>
    simp only [scalar]
    split
    · split
      · exact agree_refl _
      · simp only [fixGuard, Bool.false_and, Bool.false_eq_true, if_false, ok_bind, Bool.true_and, decide_eq_true_eq]
        by_cases h : (d.getD []).length < 4
        · have h3 : ¬ 3 < (d.getD []).length := by omega
          simp only [h, h3, if_true, if_false, err_bind]
          exact agree_crash _ _
        · have h3 : 3 < (d.getD []).length := by omega
          simp only [h, h3, if_true, if_false, ok_bind]
          exact agree_refl _
    · split
      · exact agree_refl _
      · simp only [fixGuard, Bool.false_and, Bool.false_eq_true, if_false, ok_bind, Bool.true_and, decide_eq_true_eq]
        by_cases h : (d.getD []).length < 4
        · have h3 : ¬ 3 < (d.getD []).length := by omega
          simp only [h, h3, if_true, if_false, err_bind]
          exact agree_crash _ _
        · have h3 : 3 < (d.getD []).length := by omega
          simp only [h, h3, if_true, if_false, ok_bind]
          exact agree_refl _
    · exact agree_refl _
  all_goals (simp only [scalar]; exact agree_refl _)

theorem goType_agree : ∀ t : CT, Agree (goType false t) (goType true t)
  | .nat n => by cases n <;> simp only [goType] <;> exact agree_refl _
  | .list e => by
      simp only [goType]
      exact agree_bind (goType_agree e) (fun _ => agree_refl _)
  | .map k v => by
      simp only [goType]
      apply agree_bind (goType_agree k); intro gk
      apply agree_bind (goType_agree v); intro gv
      split
      · exact agree_refl _
      · exact agree_refl _
  | .tuple _ => by simp only [goType]; exact agree_refl _
  | .udt _ => by simp only [goType]; exact agree_refl _

theorem listLoop_agree (proto : Nat) (f1 f2 : Option Bytes → Outcome) (len : Nat) (hf : ∀ ed, Agree (f1 ed) (f2 ed)) :
    ∀ (cnt i : Nat) (d : Bytes), Agree (listLoop proto f1 len cnt i d) (listLoop proto f2 len cnt i d)
  | 0, _, _ => by simp only [listLoop]; exact agree_refl _
  | cnt+1, i, d => by
      simp only [listLoop]
      apply agree_bind (agree_refl _); intro ed
      split
      · apply agree_bind (hf _); intro _
        exact listLoop_agree proto f1 f2 len hf cnt (i+1) _
      · exact agree_refl _

theorem mapLoop_agree (proto : Nat) (k1 k2 v1 v2 : Option Bytes → Outcome)
    (hk : ∀ ed, Agree (k1 ed) (k2 ed)) (hv : ∀ ed, Agree (v1 ed) (v2 ed)) :
    ∀ (cnt : Nat) (d : Bytes), Agree (mapLoop proto k1 v1 cnt d) (mapLoop proto k2 v2 cnt d)
  | 0, _ => by simp only [mapLoop]; exact agree_refl _
  | cnt+1, d => by
      simp only [mapLoop]
      apply agree_bind (agree_refl _); intro kd
      apply agree_bind (hk _); intro _
      apply agree_bind (agree_refl _); intro vd
      apply agree_bind (hv _); intro _
      exact mapLoop_agree proto k1 k2 v1 v2 hk hv cnt _

/-- a map body that cannot hold `cnt` entries (two headers each) never decodes to ok -/
theorem mapLoop_short_not_ok (proto : Nat) (fk fv : Option Bytes → Outcome) :
    ∀ (cnt : Nat) (d : Bytes), d.length < cnt * (2 * hdr proto) → mapLoop proto fk fv cnt d ≠ .ok ()
  | 0, _, h => by simp at h
  | cnt+1, d, h => by
      simp only [mapLoop]
      rcases readElem_cases .unmarshalMap proto d with he | ⟨kd, rest, he, hlen⟩
      · simp [he]
      · simp only [he, ok_bind]
        cases hk : fk kd with
        | err => simp
        | crash s => simp
        | ok u =>
          simp only [ok_bind]
          rcases readElem_cases .unmarshalMap proto rest with he2 | ⟨vd, rest2, he2, hlen2⟩
          · simp [he2]
          · simp only [he2, ok_bind]
            cases hv : fv vd with
            | err => simp
            | crash s => simp
            | ok u2 =>
              simp only [ok_bind]
              apply mapLoop_short_not_ok proto fk fv cnt rest2
              have : (cnt + 1) * (2 * hdr proto) = cnt * (2 * hdr proto) + 2 * hdr proto := by rw [Nat.add_mul]; simp
              omega

theorem unmarshalList_agree (proto : Nat) (e1 e2 : GT → Option Bytes → Outcome)
    (he : ∀ g d, Agree (e1 g d) (e2 g d)) (g : GT) (data : Option Bytes) :
    Agree (unmarshalList false proto e1 g data) (unmarshalList true proto e2 g data) := by
  unfold unmarshalList
  split
  · exact agree_refl _
  · rename_i isArr alen e _
    split
    · exact agree_refl _
    · rename_i d
      rcases readCollectionSize_cases proto d with h | ⟨n, p, h, hp, hpe⟩
      · simp only [h, err_bind]; exact agree_refl _
      · simp only [h, ok_bind, sliceFrom_ok hp]
        split
        · split
          · exact agree_refl _
          · exact listLoop_agree proto _ _ alen (he e) _ _ _
        · unfold makeCount
          by_cases hneg : n < 0
          · simp only [hneg, if_true, crashOrErr, Bool.false_eq_true, if_false, crash_bind]
            exact agree_crash _ _
          · simp only [hneg, if_false, Bool.false_and, Bool.false_eq_true, ok_bind, Bool.true_and, decide_eq_true_eq]
            split
            · rename_i hbig
              simp only [err_bind]
              apply agree_err_of_not_ok
              intro u
              cases u
              apply listLoop_short_not_ok
              subst hpe
              exact (Nat.div_lt_iff_lt_mul (hdr_pos proto)).mp hbig
            · simp only [ok_bind]
              exact listLoop_agree proto _ _ _ (he e) _ _ _

theorem unmarshalMap_agree (proto : Nat) (k1 k2 v1 v2 : GT → Option Bytes → Outcome)
    (hk : ∀ g d, Agree (k1 g d) (k2 g d)) (hv : ∀ g d, Agree (v1 g d) (v2 g d)) (g : GT) (data : Option Bytes) :
    Agree (unmarshalMap false proto k1 v1 g data) (unmarshalMap true proto k2 v2 g data) := by
  unfold unmarshalMap
  split
  · rename_i gk gv
    split
    · exact agree_refl _
    · rename_i d
      rcases readCollectionSize_cases proto d with h | ⟨n, p, h, hp, hpe⟩
      · simp only [h, err_bind]; exact agree_refl _
      · simp only [h, ok_bind]
        unfold makeMapCount
        by_cases hneg : n < 0
        · simp only [hneg, if_true, err_bind]; exact agree_refl _
        · simp only [hneg, if_false, Bool.false_and, Bool.false_eq_true, ok_bind, Bool.true_and, decide_eq_true_eq,
            sliceFrom_ok hp]
          split
          · rename_i hbig
            simp only [err_bind]
            apply agree_err_of_not_ok
            intro u
            cases u
            apply mapLoop_short_not_ok
            subst hpe
            have := (Nat.div_lt_iff_lt_mul (show 0 < 2 * hdr proto by have := hdr_pos proto; omega)).mp hbig
            simp only [List.length_drop]
            exact this
          · simp only [ok_bind]
            exact mapLoop_agree proto _ _ _ _ (hk gk) (hv gv) _ _
  · exact agree_refl _

theorem readBytes_agree {d : Bytes} (h : 4 ≤ d.length) : Agree (readBytes false d) (readBytes true d) := by
  obtain ⟨v, hv⟩ := readInt_ok h
  simp only [readBytes, hv, ok_bind, sliceFrom_ok h]
  split
  · exact agree_refl _
  · simp only [fixGuard, Bool.false_and, Bool.false_eq_true, if_false, ok_bind, Bool.true_and, decide_eq_true_eq]
    by_cases hfit : v.toNat ≤ (List.drop 4 d).length
    · have : ¬ (List.drop 4 d).length < v.toNat := by omega
      simp only [this, if_false, ok_bind]
      exact agree_refl _
    · have : (List.drop 4 d).length < v.toNat := by omega
      simp only [this, if_true, err_bind, sliceTo, hfit, if_false, crash_bind]
      exact agree_crash _ _

theorem tupleField_agree (d : Bytes) : Agree (tupleField false d) (tupleField true d) := by
  unfold tupleField
  split
  · rename_i h; exact readBytes_agree h
  · exact agree_refl _

theorem unmG_agree {c1 c2 : GT → Option Bytes → Outcome} (h : ∀ g d, Agree (c1 g d) (c2 g d)) (g : GT) (d : Option Bytes) :
    Agree (unmG c1 g d) (unmG c2 g d) := by
  unfold unmG
  split
  · split
    · exact agree_refl _
    · exact h _ _
  · exact h _ _

theorem setSlot_agree (slots : List Slot) (i : Nat) (src : GT) : Agree (setSlot false slots i src) (setSlot true slots i src) := by
  unfold setSlot
  split
  · exact agree_refl _
  · exact agree_if (agree_refl _) (crashOrErr_agree _)

mutual
theorem core_agree (proto : Nat) : ∀ (t : CT) (g : GT) (d : Option Bytes), Agree (core false proto t g d) (core true proto t g d)
  | .nat n, g, d => by simp only [core]; exact scalar_agree n g d
  | .list e, g, d => by
      simp only [core]
      exact unmarshalList_agree proto _ _ (fun g' d' => unmG_agree (core_agree proto e) g' d') g d
  | .map k v, g, d => by
      simp only [core]
      exact unmarshalMap_agree proto _ _ _ _ (fun g' d' => unmG_agree (core_agree proto k) g' d')
        (fun g' d' => unmG_agree (core_agree proto v) g' d') g d
  | .tuple es, g, d => by
      simp only [core]
      split
      · exact agree_refl _
      · exact agree_refl _
      · exact agree_refl _
      · exact tupleLoop_agree proto es 0 _ _
  | .udt fs, g, d => by
      simp only [core]
      split
      · split
        · exact agree_refl _
        · exact udtMapLoop_agree proto fs _
      · split
        · exact agree_refl _
        · split
          · exact agree_refl _
          · exact udtStructLoop_agree proto fs _ _
theorem tupleLoop_agree (proto : Nat) : ∀ (es : List CT) (i : Nat) (slots : List Slot) (d : Bytes),
    Agree (tupleLoop false proto es i slots d) (tupleLoop true proto es i slots d)
  | [], _, _, _ => by simp only [tupleLoop]; exact agree_refl _
  | e :: es, i, slots, d => by
      simp only [tupleLoop]
      apply agree_bind (tupleField_agree d); intro pd
      apply agree_bind (goType_agree e); intro gt
      apply agree_bind (unmG_agree (core_agree proto e) gt pd.1); intro _
      apply agree_bind (setSlot_agree slots i gt); intro _
      exact tupleLoop_agree proto es (i+1) slots pd.2
theorem udtMapLoop_agree (proto : Nat) : ∀ (fs : List (Nat × CT)) (d : Bytes),
    Agree (udtMapLoop false proto fs d) (udtMapLoop true proto fs d)
  | [], _ => by simp only [udtMapLoop]; exact agree_refl _
  | (_, e) :: fs, d => by
      simp only [udtMapLoop]
      split
      · exact agree_refl _
      · split
        · exact agree_refl _
        · rename_i h0 h4
          apply agree_bind (goType_agree e); intro gt
          apply agree_bind (readBytes_agree (by omega)); intro pd
          apply agree_bind (unmG_agree (core_agree proto e) gt pd.1); intro _
          exact udtMapLoop_agree proto fs pd.2
theorem udtStructLoop_agree (proto : Nat) : ∀ (fs : List (Nat × CT)) (sf : List UField) (d : Bytes),
    Agree (udtStructLoop false proto fs sf d) (udtStructLoop true proto fs sf d)
  | [], _, _ => by simp only [udtStructLoop]; exact agree_refl _
  | (nm, e) :: fs, sf, d => by
      simp only [udtStructLoop]
      split
      · exact agree_refl _
      · split
        · exact agree_refl _
        · rename_i h0 h4
          apply agree_bind (readBytes_agree (by omega)); intro pd
          split
          · exact udtStructLoop_agree proto fs sf pd.2
          · rename_i f _
            split
            · apply agree_bind (unmG_agree (core_agree proto e) f.ty pd.1); intro _
              exact udtStructLoop_agree proto fs sf pd.2
            · exact crashOrErr_agree _
end

theorem ifsLoop_agree (proto : Nat) : ∀ (es : List CT) (i : Nat) (ds : List GT) (d : Bytes),
    Agree (ifsLoop false proto es i ds d) (ifsLoop true proto es i ds d)
  | [], _, _, _ => by simp only [ifsLoop]; exact agree_refl _
  | e :: es, i, ds, d => by
      simp only [ifsLoop]
      apply agree_bind (tupleField_agree d); intro pd
      split
      · exact crashOrErr_agree _
      · rename_i g _
        apply agree_bind (unmG_agree (core_agree proto e) g pd.1); intro _
        exact ifsLoop_agree proto es (i+1) ds pd.2

/-- a `[]interface{}` with fewer entries than tuple elements left never decodes to ok -/
theorem ifsLoop_short_not_ok (proto : Nat) : ∀ (es : List CT) (i : Nat) (ds : List GT) (d : Bytes),
    i ≤ ds.length → ds.length < i + es.length → ifsLoop false proto es i ds d ≠ .ok ()
  | [], i, ds, d, h1, h2 => by simp only [List.length_nil] at h2; omega
  | e :: es, i, ds, d, h1, h2 => by
      simp only [ifsLoop]
      cases htf : tupleField false d with
      | err => simp
      | crash s => simp
      | ok pd =>
        simp only [ok_bind]
        split
        · simp [crashOrErr]
        · rename_i g hg
          have hi : i < ds.length := by
            rcases List.getElem?_eq_some_iff.mp hg with ⟨h, _⟩
            exact h
          cases hu : unmG (core false proto e) g pd.1 with
          | err => simp
          | crash s => simp
          | ok u =>
            simp only [ok_bind]
            exact ifsLoop_short_not_ok proto es (i+1) ds pd.2 (by omega) (by simp only [List.length_cons] at h2; omega)

theorem unmarshal_agree (proto : Nat) (t : CT) (dst : Dest) (d : Option Bytes) :
    Agree (unmarshal false proto t dst d) (unmarshal true proto t dst d) := by
  unfold unmarshal
  split
  · exact unmG_agree (core_agree proto t) _ _
  · apply agree_bind (goType_agree t); intro g
    exact unmG_agree (core_agree proto t) _ _
  · split
    · rename_i _ ds _ es
      simp only [Bool.false_and, Bool.false_eq_true, if_false, Bool.true_and, decide_eq_true_eq]
      split
      · rename_i hshort
        apply agree_err_of_not_ok
        intro u
        cases u
        exact ifsLoop_short_not_ok proto es 0 ds _ (by omega) (by omega)
      · exact ifsLoop_agree proto es 0 ds _
    · exact agree_refl _

/-- The proposed fixes are conservative: on every input on which the code as it is returns `ok`
    the fixed code returns `ok`, and where it returns `err` the fixed code returns `err`. Together with
    `C05_values_total_fixed`: the fixes change exactly the crashing inputs, and those into errors. -/
theorem C05_fixes_conservative (proto : Nat) (t : CT) (dst : Dest) (data : Option Bytes) :
    (unmarshal false proto t dst data = .ok () → unmarshal true proto t dst data = .ok ())
    ∧ (unmarshal false proto t dst data = .err → unmarshal true proto t dst data = .err) :=
  ⟨(unmarshal_agree proto t dst data).1 (), (unmarshal_agree proto t dst data).2⟩

end C05Value
