import Model.LRU
/-! helper lemmas for C14: the LRU list model -/
namespace LRU
variable {κ α : Type} [DecidableEq κ]

theorem keys_without (k : κ) (l : List (κ × α)) : (without k l).map (·.1) = (l.map (·.1)).filter (· != k) := by
  induction l with
  | nil => rfl
  | cons e t ih =>
    simp only [without, List.filter_cons, List.map_cons] at ih ⊢
    by_cases h : e.1 = k <;> simp [h, ih]

theorem not_mem_keys_without (k : κ) (l : List (κ × α)) : k ∉ (without k l).map (·.1) := by
  rw [keys_without]; simp

theorem nodup_without (k : κ) (l : List (κ × α)) (h : (l.map (·.1)).Nodup) : ((without k l).map (·.1)).Nodup := by
  rw [keys_without]; exact h.filter _

theorem length_without_le (k : κ) (l : List (κ × α)) : (without k l).length ≤ l.length :=
  List.length_filter_le _ _

theorem find_none_iff (c : Cache κ α) (k : κ) : c.find k = none ↔ k ∉ c.keys := by
  unfold Cache.find Cache.keys
  induction c.items with
  | nil => simp
  | cons e t ih =>
    by_cases h : e.1 = k
    · simp [List.find?_cons, h]
    · have h' : ¬ k = e.1 := fun x => h x.symm
      simp [List.find?_cons, h, h'] at ih ⊢
      exact ih

theorem without_of_not_mem (k : κ) (l : List (κ × α)) (h : k ∉ l.map (·.1)) : without k l = l := by
  unfold without
  rw [List.filter_eq_self]
  intro e he
  have : e.1 ≠ k := fun x => h (x ▸ List.mem_map_of_mem he)
  simpa using this

theorem length_without_lt (k : κ) (l : List (κ × α)) (h : k ∈ l.map (·.1)) : (without k l).length < l.length := by
  induction l with
  | nil => simp at h
  | cons e t ih =>
    by_cases hk : e.1 = k
    · have := length_without_le k t
      simp [without, List.filter_cons, hk] at this ⊢
      omega
    · have hk' : ¬ k = e.1 := fun x => hk x.symm
      have hm : k ∈ t.map (·.1) := by simpa [hk'] using h
      have := ih hm
      simp [without, List.filter_cons, hk] at this ⊢
      omega

/-- structural invariant: keys unique, and the capacity respected when it is positive -/
def Cache.Inv (c : Cache κ α) : Prop := c.keys.Nodup ∧ (0 < c.cap → (c.len : Int) ≤ c.cap)

theorem inv_new (cap : Int) : (new cap : Cache κ α).Inv := by
  refine ⟨by simp [new, Cache.keys], fun h => ?_⟩
  simp only [new, Cache.len, List.length_nil] at h ⊢; omega

theorem nodup_dropLast {l : List κ} (h : l.Nodup) : l.dropLast.Nodup :=
  (List.dropLast_sublist l).nodup h

theorem removeOldest_inv (c : Cache κ α) (h : c.Inv) : c.removeOldest.1.Inv ∧ c.removeOldest.1.cap = c.cap ∧
    c.removeOldest.1.len = c.len - 1 := by
  unfold Cache.removeOldest
  cases hl : c.items.getLast? with
  | none =>
    have : c.items = [] := by simpa using hl
    simp [Cache.len, this]; exact h
  | some e =>
    refine ⟨⟨?_, ?_⟩, rfl, by simp [Cache.len]⟩
    · simp only [Cache.keys, List.map_dropLast]; exact nodup_dropLast h.1
    · intro hc; have := h.2 hc; simp [Cache.len] at this ⊢; omega

theorem add_inv (c : Cache κ α) (h : c.Inv) (k : κ) (v : α) : (c.add k v).1.Inv ∧ (c.add k v).1.cap = c.cap := by
  have hnd : (((k, v) :: without k c.items).map (·.1)).Nodup := by
    simp only [List.map_cons, List.nodup_cons]
    exact ⟨not_mem_keys_without k c.items, nodup_without k c.items h.1⟩
  have hl := length_without_le k c.items
  unfold Cache.add
  simp only []
  split
  · rename_i hf
    refine ⟨⟨hnd, ?_⟩, rfl⟩
    intro hc
    have hm : k ∈ c.items.map (·.1) := by
      have : c.find k ≠ none := by intro x; simp [x] at hf
      rw [Ne, find_none_iff] at this; simpa [Cache.keys] using this
    have := length_without_lt k c.items hm
    have := h.2 hc
    simp only [Cache.len, List.length_cons] at this ⊢; omega
  · split
    · rename_i hover
      refine ⟨⟨?_, ?_⟩, rfl⟩
      · simp only [Cache.keys, List.map_dropLast]; exact nodup_dropLast hnd
      · intro hc; have := h.2 hc
        simp only [Cache.len, List.length_dropLast, List.length_cons] at this ⊢; omega
    · rename_i hover
      refine ⟨⟨hnd, ?_⟩, rfl⟩
      intro hc
      have hc0 : c.cap ≠ 0 := by simp only [] at hc; omega
      have : ¬ (((k, v) :: without k c.items).length : Int) > c.cap := fun x => hover ⟨hc0, x⟩
      simp only [Cache.len, List.length_cons] at this ⊢; omega

theorem get_inv (c : Cache κ α) (h : c.Inv) (k : κ) : (c.get k).2.Inv ∧ (c.get k).2.cap = c.cap := by
  unfold Cache.get
  cases hf : c.find k with
  | none => exact ⟨h, rfl⟩
  | some v =>
    refine ⟨⟨?_, ?_⟩, rfl⟩
    · simp only [Cache.keys, List.map_cons, List.nodup_cons]
      exact ⟨not_mem_keys_without k c.items, nodup_without k c.items h.1⟩
    · intro hc
      have hm : k ∈ c.items.map (·.1) := by
        have : c.find k ≠ none := by simp [hf]
        rw [Ne, find_none_iff] at this; simpa [Cache.keys] using this
      have := length_without_lt k c.items hm
      have := h.2 hc
      simp [Cache.len] at this ⊢; omega

theorem remove_inv (c : Cache κ α) (h : c.Inv) (k : κ) : (c.remove k).2.1.Inv ∧ (c.remove k).2.1.cap = c.cap := by
  unfold Cache.remove
  cases hf : c.find k with
  | none => exact ⟨h, rfl⟩
  | some v =>
    refine ⟨⟨nodup_without k c.items h.1, ?_⟩, rfl⟩
    intro hc
    have := length_without_le k c.items
    have := h.2 hc
    simp [Cache.len] at this ⊢; omega

theorem apply_inv (c : Cache κ α) (h : c.Inv) (op : Op κ α) : (c.apply op).Inv ∧ (c.apply op).cap = c.cap := by
  cases op with
  | add k v => exact add_inv c h k v
  | get k => exact get_inv c h k
  | remove k => exact remove_inv c h k
  | removeOldest => exact ⟨(removeOldest_inv c h).1, (removeOldest_inv c h).2.1⟩

theorem run_inv (c : Cache κ α) (h : c.Inv) (ops : List (Op κ α)) : (c.run ops).Inv ∧ (c.run ops).cap = c.cap := by
  induction ops generalizing c with
  | nil => exact ⟨h, rfl⟩
  | cons op t ih =>
    have ⟨h1, h2⟩ := apply_inv c h op
    have ⟨h3, h4⟩ := ih (c.apply op) h1
    exact ⟨h3, h4.trans h2⟩

/-! ### the cache as a finite map -/

def lfind (l : List (κ × α)) (k : κ) : Option α := (l.find? (fun e => e.1 == k)).map (·.2)

theorem find_eq_lfind (c : Cache κ α) (k : κ) : c.find k = lfind c.items k := rfl

theorem lfind_cons_same (k : κ) (v : α) (l : List (κ × α)) : lfind ((k, v) :: l) k = some v := by
  simp [lfind]

theorem lfind_cons_ne (k k' : κ) (v : α) (l : List (κ × α)) (h : k ≠ k') : lfind ((k, v) :: l) k' = lfind l k' := by
  simp [lfind, List.find?_cons, h]

theorem lfind_without_ne (k k' : κ) (l : List (κ × α)) (h : k ≠ k') : lfind (without k l) k' = lfind l k' := by
  unfold lfind without
  rw [List.find?_filter]
  congr 2
  funext a
  by_cases ha : a.1 = k'
  · have : a.1 ≠ k := fun x => h (x.symm.trans ha)
    simp [ha, this]; exact fun x => h x.symm
  · simp [ha]

theorem lfind_without_same (k : κ) (l : List (κ × α)) : lfind (without k l) k = none := by
  have := not_mem_keys_without k l
  have h2 := find_none_iff ({ cap := 0, items := without k l } : Cache κ α) k
  simp only [Cache.keys] at h2
  exact h2.2 this

/-- Get does not change the map (only the recency order) and returns the map's value -/
theorem get_find (c : Cache κ α) (k k' : κ) : (c.get k).1 = c.find k ∧ (c.get k).2.find k' = c.find k' := by
  unfold Cache.get
  cases hf : c.find k with
  | none => exact ⟨rfl, rfl⟩
  | some v =>
    refine ⟨rfl, ?_⟩
    by_cases h : k = k'
    · subst h; rw [find_eq_lfind, lfind_cons_same, hf]
    · rw [find_eq_lfind, lfind_cons_ne k k' v _ h, lfind_without_ne k k' _ h]; rfl

/-- Remove deletes exactly that key from the map -/
theorem remove_find (c : Cache κ α) (k k' : κ) :
    (c.remove k).1 = (c.find k).isSome ∧
    (c.remove k).2.1.find k' = if k' = k then none else c.find k' := by
  unfold Cache.remove
  cases hf : c.find k with
  | none =>
    refine ⟨rfl, ?_⟩
    by_cases h : k' = k
    · subst h; simp [hf]
    · simp [h]
  | some v =>
    refine ⟨rfl, ?_⟩
    by_cases h : k' = k
    · subst h; simp only [if_true]; rw [find_eq_lfind]; exact lfind_without_same k' c.items
    · simp only [h, if_false]; rw [find_eq_lfind]
      exact lfind_without_ne k k' _ (fun x => h x.symm)

/-- Add puts the value at the key (for the capacities the constructor documents: 0 = unbounded, or positive) -/
theorem add_find_same (c : Cache κ α) (k : κ) (v : α) (hc : 0 ≤ c.cap) : (c.add k v).1.find k = some v := by
  unfold Cache.add
  simp only []
  split
  · exact lfind_cons_same k v _
  · split
    · rename_i hover
      have hlen : 2 ≤ ((k, v) :: without k c.items).length := by
        have := hover.2; simp only [List.length_cons] at this ⊢; omega
      rw [find_eq_lfind]
      simp only []
      cases hw : without k c.items with
      | nil => simp [hw] at hlen
      | cons e t => simp [List.dropLast, lfind]
    · exact lfind_cons_same k v _

/-- Add on a key that is present: nothing is purged and no other key changes -/
theorem add_hit (c : Cache κ α) (k : κ) (v : α) (h : (c.find k).isSome) :
    (c.add k v).2 = [] ∧ ∀ k', k' ≠ k → (c.add k v).1.find k' = c.find k' := by
  unfold Cache.add
  simp only []
  rw [if_pos h]
  refine ⟨rfl, fun k' hk => ?_⟩
  rw [find_eq_lfind]; simp only []
  rw [lfind_cons_ne k k' v _ (fun x => hk x.symm), lfind_without_ne k k' _ (fun x => hk x.symm)]; rfl

/-- what Add purges: nothing, or — only for a new key on a full cache — exactly the least recently
    used entry (the back of the list) -/
theorem add_evicts_lru (c : Cache κ α) (k : κ) (v : α) :
    (c.add k v).2 = [] ∨
    ((c.find k) = none ∧ c.cap ≠ 0 ∧ (c.len : Int) + 1 > c.cap ∧
      (c.add k v).2 = (((k, v) :: c.items).getLast?).toList) := by
  unfold Cache.add
  simp only []
  split
  · left; rfl
  · rename_i hf
    have hnone : c.find k = none := by
      cases h : c.find k with
      | none => rfl
      | some x => simp [h] at hf
    have hw : without k c.items = c.items := without_of_not_mem k c.items (by
      have := (find_none_iff c k).1 hnone; simpa [Cache.keys] using this)
    split
    · rename_i hover
      right
      rw [hw] at hover ⊢
      refine ⟨hnone, hover.1, ?_, rfl⟩
      have := hover.2; simp only [List.length_cons, Cache.len] at this ⊢; omega
    · left; rfl

/-! ### bookkeeping of keys: what enters and leaves the cache -/

theorem find_some_mem (c : Cache κ α) (k : κ) (v : α) (h : c.find k = some v) : (k, v) ∈ c.items := by
  unfold Cache.find at h
  cases hf : c.items.find? (fun e => e.1 == k) with
  | none => simp [hf] at h
  | some e =>
    have hm := List.mem_of_find?_eq_some hf
    have hp := List.find?_some hf
    simp [hf] at h
    have : e = (k, v) := by
      cases e with
      | mk a b => simp at hp h; rw [hp, h]
    exact this ▸ hm

theorem mem_without (k : κ) (l : List (κ × α)) (e : κ × α) (h : e ∈ without k l) : e ∈ l ∧ e.1 ≠ k := by
  unfold without at h
  rw [List.mem_filter] at h
  exact ⟨h.1, by simpa using h.2⟩

theorem keys_not_mem_of_find_none (c : Cache κ α) (k : κ) (h : c.find k = none) : k ∉ c.items.map (·.1) := by
  have := (find_none_iff c k).1 h; simpa [Cache.keys] using this

/-- Add of an absent key: the new key list plus the purged keys is exactly `k :: old keys` -/
theorem add_miss_keys (c : Cache κ α) (k : κ) (v : α) (h : c.find k = none) :
    (c.add k v).1.keys ++ (c.add k v).2.map (·.1) = k :: c.keys ∧
    (∀ e ∈ (c.add k v).1.items, e = (k, v) ∨ e ∈ c.items) := by
  have hw : without k c.items = c.items := without_of_not_mem k c.items (keys_not_mem_of_find_none c k h)
  unfold Cache.add
  simp only [h, Option.isSome_none, Bool.false_eq_true, if_false, hw]
  split
  · refine ⟨?_, ?_⟩
    · simp only [Cache.keys]
      rw [← List.map_append]
      have : ((k, v) :: c.items).dropLast ++ ((k, v) :: c.items).getLast?.toList = (k, v) :: c.items := by
        rw [List.getLast?_eq_some_getLast (by simp)]
        exact List.dropLast_concat_getLast (by simp)
      rw [this]; rfl
    · intro e he
      have := List.dropLast_subset _ he
      simpa using this
  · refine ⟨by simp [Cache.keys], ?_⟩
    intro e he; simpa using he

theorem count_keys_move (c : Cache κ α) (hn : c.keys.Nodup) (k : κ) (v : α) (h : c.find k = some v) (x : κ) :
    (((k, v) :: without k c.items).map (·.1)).count x = c.keys.count x := by
  have hm : k ∈ c.keys := by
    have := find_some_mem c k v h
    exact List.mem_map_of_mem (f := (·.1)) this
  simp only [List.map_cons, keys_without]
  by_cases hx : x = k
  · subst hx
    rw [List.count_cons_self, List.count_eq_zero_of_not_mem (by simp)]
    rw [hn.count]; simp [hm]
  · rw [List.count_cons_of_ne (fun e => hx e.symm), List.count_filter (by simpa using hx)]
    rfl

theorem count_keys_without (c : Cache κ α) (hn : c.keys.Nodup) (k : κ) (x : κ) :
    ((without k c.items).map (·.1)).count x + (if k ∈ c.keys ∧ x = k then 1 else 0) = c.keys.count x := by
  rw [keys_without]
  by_cases hx : x = k
  · subst hx
    rw [List.count_eq_zero_of_not_mem (by simp)]
    by_cases hm : x ∈ c.keys
    · simp [hm, hn.count]
    · simp [hm, hn.count]
  · rw [List.count_filter (by simpa using hx)]
    simp [hx, Cache.keys]

/-! ### the map after an Add that missed (used by the connection-level machine with the real cache, C14ConnLRU) -/

theorem lfind_dropLast : ∀ (L : List (κ × α)), (L.map (·.1)).Nodup → L ≠ [] → ∀ k',
    lfind L.dropLast k' = if L.getLast?.map (·.1) = some k' then none else lfind L k' := by
  intro L
  induction L with
  | nil => intro _ h; exact absurd rfl h
  | cons x t ih =>
    intro hn _ k'
    obtain ⟨xk, xv⟩ := x
    cases t with
    | nil =>
      by_cases hx : xk = k'
      · subst hx; simp [lfind]
      · have h1 : lfind [(xk, xv)] k' = lfind [] k' := lfind_cons_ne xk k' xv [] hx
        simp [List.dropLast, hx, h1]
    | cons y t' =>
      have hn' : ((y :: t').map (·.1)).Nodup := by
        simp only [List.map_cons, List.nodup_cons] at hn ⊢; exact hn.2
      have hnotin : xk ∉ (y :: t').map (·.1) := by
        simp only [List.map_cons, List.nodup_cons] at hn; simpa using hn.1
      have ih' := ih hn' (by simp) k'
      have hlast : ((xk, xv) :: y :: t').getLast? = (y :: t').getLast? := by simp [List.getLast?_cons_cons]
      have hdl : ((xk, xv) :: y :: t').dropLast = (xk, xv) :: (y :: t').dropLast := by simp [List.dropLast]
      rw [hlast, hdl]
      by_cases hx : xk = k'
      · subst hx
        rw [lfind_cons_same, lfind_cons_same]
        have : ¬ ((y :: t').getLast?.map (·.1) = some xk) := by
          intro h
          cases hl : (y :: t').getLast? with
          | none => simp [hl] at h
          | some e =>
            simp [hl] at h
            have hm := List.mem_of_getLast? hl
            exact hnotin (h ▸ List.mem_map_of_mem (f := (·.1)) hm)
        rw [if_neg this]
      · rw [lfind_cons_ne xk k' xv _ hx, lfind_cons_ne xk k' xv _ hx]
        exact ih'

theorem add_miss_find (c : Cache κ α) (hn : c.keys.Nodup) (k : κ) (v : α) (h : c.find k = none) (k' : κ) :
    (c.add k v).1.find k' =
      if k' ∈ (c.add k v).2.map (·.1) then none else if k' = k then some v else c.find k' := by
  have hnk : k ∉ c.items.map (·.1) := keys_not_mem_of_find_none c k h
  have hw : without k c.items = c.items := without_of_not_mem k c.items hnk
  have hL : (((k, v) :: c.items).map (·.1)).Nodup := by
    simp only [List.map_cons, List.nodup_cons]; exact ⟨hnk, hn⟩
  have hbase : ∀ k', lfind ((k, v) :: c.items) k' = if k' = k then some v else c.find k' := by
    intro k'
    by_cases hk : k' = k
    · subst hk; simp [lfind_cons_same]
    · rw [if_neg hk, lfind_cons_ne k k' v _ (fun e => hk e.symm)]; rfl
  unfold Cache.add
  simp only [h, Option.isSome_none, Bool.false_eq_true, if_false, hw]
  split
  · rw [find_eq_lfind]
    simp only []
    rw [lfind_dropLast _ hL (by simp) k', hbase]
    cases hl : ((k, v) :: c.items).getLast? with
    | none => simp at hl
    | some e => simp [eq_comm]
  · rw [find_eq_lfind]
    simp only [List.map_nil, List.not_mem_nil, if_false]
    exact hbase k'

end LRU
