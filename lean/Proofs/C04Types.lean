/- C04 helper lemmas: type descriptors of arbitrary nesting are read back (structural induction) -/
import Proofs.C04Prim
namespace C04
open FrameRead RespSpec

/-! ## the class-name table of the view is the model's if-chain -/

/-- a lookup table read as an if-chain -/
def chain : List (FrameRead.Bytes × Nat) → FrameRead.Bytes → Nat
  | [], _ => 0
  | (k, v) :: r, c => if c == k then v else chain r c

theorem lookup_getD_chain (tbl : List (FrameRead.Bytes × Nat)) (c : FrameRead.Bytes) :
    (tbl.lookup c).getD 0 = chain tbl c := by
  induction tbl with
  | nil => rfl
  | cons kv r ih =>
    obtain ⟨k, v⟩ := kv
    simp only [List.lookup, chain]
    cases h : c == k <;> simp [ih]

theorem chain_mem (tbl : List (FrameRead.Bytes × Nat)) (c : FrameRead.Bytes) :
    chain tbl c ∈ 0 :: tbl.map (·.2) := by
  induction tbl with
  | nil => simp [chain]
  | cons kv r ih =>
    obtain ⟨k, v⟩ := kv
    simp only [chain]
    split
    · simp
    · have := ih
      simp only [List.mem_cons, List.map_cons] at this ⊢
      rcases this with h | h
      · exact Or.inl h
      · exact Or.inr (Or.inr h)

theorem apacheSwitch_eq_chain (c : FrameRead.Bytes) : apacheSwitch c = chain classTable c := rfl

theorem apacheSwitch_eq_lookup (c : FrameRead.Bytes) : apacheSwitch c = classLookup c := by
  rw [apacheSwitch_eq_chain, classLookup, lookup_getD_chain]

theorem apache_eq_table (cls : FrameRead.Bytes) : getApacheCassandraType cls = classType cls := by
  unfold getApacheCassandraType classType
  rw [apacheSwitch_eq_lookup]
  rfl

/-- no class name maps to the UDT option id -/
theorem classType_ne_udt (cls : FrameRead.Bytes) : classType cls ≠ 0x30 := by
  unfold classType classLookup
  rw [lookup_getD_chain]
  intro h
  have := chain_mem classTable (stripMarshalPrefix cls)
  rw [h] at this
  revert this
  decide

/-- a custom option never views as a collection / tuple / UDT kind -/
theorem customType_ne (cls : FrameRead.Bytes) :
    customType cls ≠ 0x20 ∧ customType cls ≠ 0x21 ∧ customType cls ≠ 0x22 ∧ customType cls ≠ 0x31 ∧
    customType cls ≠ 0x30 := by
  have hu := classType_ne_udt cls
  unfold customType elemKinds
  by_cases h : [0x20, 0x21, 0x22, 0x31].contains (classType cls) = true
  · rw [if_pos h]; decide
  · rw [if_neg h]
    have h' : ¬ (classType cls = 0x20 ∨ classType cls = 0x21 ∨ classType cls = 0x22 ∨ classType cls = 0x31) := by
      simpa using h
    refine ⟨fun e => h' (by simp [e]), fun e => h' (by simp [e]), fun e => h' (by simp [e]), fun e => h' (by simp [e]), hu⟩

/-- the `switch` of readTypeInfo on the mapped class (frame.go, after the repair of KF-C04-1) is the
    specification's `customType` -/
theorem simple_custom (cls : FrameRead.Bytes) :
    (if (classType cls == typeCustom || classType cls == typeList || classType cls == typeSet ||
         classType cls == typeMap || classType cls == typeTuple) = true
     then ({ typ := 0, custom := cls } : Native) else { typ := classType cls, custom := cls })
      = { typ := customType cls, custom := cls } := by
  unfold customType elemKinds
  by_cases h0 : classType cls = 0
  · simp [h0, typeCustom]
  · by_cases h : classType cls = 0x20 ∨ classType cls = 0x21 ∨ classType cls = 0x22 ∨ classType cls = 0x31
    · have hc : [0x20, 0x21, 0x22, 0x31].contains (classType cls) = true := by simpa using h
      rw [if_pos hc]
      rcases h with h | h | h | h <;> simp [h, typeCustom, typeList, typeSet, typeMap, typeTuple]
    · have hc : ¬ [0x20, 0x21, 0x22, 0x31].contains (classType cls) = true := by simpa using h
      rw [if_neg hc]
      have h' : classType cls ≠ 0x20 ∧ classType cls ≠ 0x21 ∧ classType cls ≠ 0x22 ∧ classType cls ≠ 0x31 := by
        refine ⟨fun e => h (by simp [e]), fun e => h (by simp [e]), fun e => h (by simp [e]), fun e => h (by simp [e])⟩
      simp [h0, h', typeCustom, typeList, typeSet, typeMap, typeTuple]

/-! ## type descriptors -/

theorem eShort_length (n : Nat) : (eShort n).length = 2 := rfl

theorem ids_of_native (id : Nat) (h : (isShort id && !structuredIds.contains id) = true) :
    id < 65536 ∧ id ≠ 0 ∧ id ≠ 0x20 ∧ id ≠ 0x21 ∧ id ≠ 0x22 ∧ id ≠ 0x30 ∧ id ≠ 0x31 := by
  simp [isShort, structuredIds] at h
  omega

/-- the tail of readTypeInfo after `simple` has been determined, for a type that is none of
    tuple / UDT / map / list / set -/
theorem native_tail (n : Native) (r : FrameRead.Bytes)
    (h1 : n.typ ≠ 0x31) (h2 : n.typ ≠ 0x30) (h3 : n.typ ≠ 0x21) (h4 : n.typ ≠ 0x20) (h5 : n.typ ≠ 0x22) :
    (if (n.typ == typeTuple) = true then (P.fail : P TypeInfo)
     else if (n.typ == typeUDT) = true then P.fail
     else if (n.typ == typeMap) = true then P.fail
     else if (n.typ == typeList || n.typ == typeSet) = true then P.fail
     else pure (.native n)) r = .ok (.native n, r) := by
  simp [typeTuple, typeUDT, typeMap, typeList, typeSet, h1, h2, h3, h4, h5, pure_apply]

/-! every type description takes at least 2 bytes, every UDT field at least 4: the element-count
guards of readTypeInfo (`int(n)*2 > len(f.buf)`, `int(n)*4 > len(f.buf)`) pass on every encoding -/
mutual
theorem eType_len : ∀ t : TypeDesc, 2 ≤ (eType t).length
  | .native _ => by simp [eType, eShort]
  | .custom _ => by simp [eType, eShort]
  | .list _ => by simp [eType, eShort]
  | .set _ => by simp [eType, eShort]
  | .map _ _ => by simp [eType, eShort]
  | .udt _ _ _ => by simp [eType, eShort]
  | .tuple _ => by simp [eType, eShort]
theorem eTypes_len : ∀ es : TypeDescs, 2 * es.length ≤ (eTypes es).length
  | .nil => by simp [TypeDescs.length, eTypes]
  | .cons t r => by
    have h1 := eType_len t
    have h2 := eTypes_len r
    simp [TypeDescs.length, eTypes]; omega
theorem eFields_len : ∀ fs : FieldDescs, 4 * fs.length ≤ (eFields fs).length
  | .nil => by simp [FieldDescs.length, eFields]
  | .cons n t r => by
    have h1 := eType_len t
    have h2 := eFields_len r
    simp [FieldDescs.length, eFields, eString, eShort]; omega
end

mutual
theorem readType_ok : ∀ (t : TypeDesc) (fuel : Nat) (r : FrameRead.Bytes),
    wfType t = true → (eType t).length ≤ fuel →
    readTypeInfoF fuel (eType t ++ r) = .ok (viewType t, r)
  | .native id, fuel, r, hw, hf => by
    cases fuel with
    | zero => simp [eType, eShort] at hf
    | succ f =>
      obtain ⟨h0, h1, h2, h3, h4, h5, h6⟩ := ids_of_native id (by simpa [wfType] using hw)
      rw [readTypeInfoF, eType, bind_ok (readShort_eShort id r h0)]
      have hc : (id == typeCustom) = false := by simp [typeCustom, h1]
      simp only [hc, Bool.false_eq_true, if_false]
      rw [bind_ok (pure_apply _ _)]
      simp [typeTuple, typeUDT, typeMap, typeList, typeSet, h2, h3, h4, h5, h6, pure_apply, viewType]
  | .custom cls, fuel, r, hw, hf => by
    cases fuel with
    | zero => simp [eType, eShort] at hf
    | succ f =>
      have hs : fitsShort cls = true := by simpa [wfType] using hw
      obtain ⟨h4, h3, h5, h1, hu⟩ := customType_ne cls
      rw [readTypeInfoF, eType, List.append_assoc, bind_ok (readShort_eShort 0 _ (by decide))]
      have hc : ((0 : Nat) == typeCustom) = true := rfl
      simp only [hc, if_true]
      rw [bind_bind_ok (readString_eString cls r hs), apache_eq_table, bind_ok (pure_apply _ _)]
      rw [simple_custom cls]
      simp [typeTuple, typeUDT, typeMap, typeList, typeSet, pure_apply, viewType, h1, hu, h3, h4, h5]
  | .list e, fuel, r, hw, hf => by
    cases fuel with
    | zero => simp [eType, eShort] at hf
    | succ f =>
      have hl : (eType e).length ≤ f := by simp [eType, eShort] at hf; omega
      have ih := readType_ok e f r (by simpa [wfType] using hw) hl
      rw [readTypeInfoF, eType, List.append_assoc, bind_ok (readShort_eShort 0x20 _ (by decide))]
      simp [typeCustom, typeTuple, typeUDT, typeMap, typeList, typeSet, bind_ok (pure_apply _ _), bind_ok ih, pure_apply, viewType]
  | .set e, fuel, r, hw, hf => by
    cases fuel with
    | zero => simp [eType, eShort] at hf
    | succ f =>
      have hl : (eType e).length ≤ f := by simp [eType, eShort] at hf; omega
      have ih := readType_ok e f r (by simpa [wfType] using hw) hl
      rw [readTypeInfoF, eType, List.append_assoc, bind_ok (readShort_eShort 0x22 _ (by decide))]
      simp [typeCustom, typeTuple, typeUDT, typeMap, typeList, typeSet, bind_ok (pure_apply _ _), bind_ok ih, pure_apply, viewType]
  | .map k v, fuel, r, hw, hf => by
    cases fuel with
    | zero => simp [eType, eShort] at hf
    | succ f =>
      have hw' : wfType k = true ∧ wfType v = true := by simpa [wfType] using hw
      have hl : (eType k).length ≤ f ∧ (eType v).length ≤ f := by simp [eType, eShort] at hf; omega
      have ihk := readType_ok k f (eType v ++ r) hw'.1 hl.1
      have ihv := readType_ok v f r hw'.2 hl.2
      rw [readTypeInfoF, eType, List.append_assoc, List.append_assoc, bind_ok (readShort_eShort 0x21 _ (by decide))]
      simp [typeCustom, typeTuple, typeUDT, typeMap, typeList, typeSet, bind_ok (pure_apply _ _), bind_ok ihk, bind_ok ihv, pure_apply, viewType]
  | .udt ks name fs, fuel, r, hw, hf => by
    cases fuel with
    | zero => simp [eType, eShort] at hf
    | succ f =>
      have hw' : ((fitsShort ks = true ∧ fitsShort name = true) ∧ isShort fs.length = true) ∧ wfFields fs = true := by
        simpa [wfType] using hw
      have hl : (eFields fs).length ≤ f := by simp [eType, eShort, eString] at hf; omega
      have ih := readFields_ok fs f r hw'.2 hl
      have hlen : fs.length < 65536 := by simpa [isShort] using hw'.1.2
      rw [readTypeInfoF, eType, List.append_assoc, bind_ok (readShort_eShort 0x30 _ (by decide))]
      simp only [List.append_assoc]
      simp [typeCustom, typeTuple, typeUDT, typeMap, typeList, typeSet, bind_ok (pure_apply _ _),
        bind_ok (readString_eString ks _ hw'.1.1.1), bind_ok (readString_eString name _ hw'.1.1.2),
        bind_ok (readShort_eShort _ _ hlen),
        bind_ok (needBytes_ok _ _ (show 4 * fs.length ≤ (eFields fs ++ r).length by
          have := eFields_len fs; simp only [List.length_append]; omega)), bind_ok ih, pure_apply, viewType]
  | .tuple es, fuel, r, hw, hf => by
    cases fuel with
    | zero => simp [eType, eShort] at hf
    | succ f =>
      have hw' : isShort es.length = true ∧ wfTypes es = true := by simpa [wfType] using hw
      have hl : (eTypes es).length ≤ f := by simp [eType, eShort] at hf; omega
      have ih := readTypes_ok es f r hw'.2 hl
      have hlen : es.length < 65536 := by simpa [isShort] using hw'.1
      rw [readTypeInfoF, eType, List.append_assoc, bind_ok (readShort_eShort 0x31 _ (by decide))]
      simp only [List.append_assoc]
      simp [typeCustom, typeTuple, typeUDT, typeMap, typeList, typeSet, bind_ok (pure_apply _ _),
        bind_ok (readShort_eShort _ _ hlen),
        bind_ok (needBytes_ok _ _ (show 2 * es.length ≤ (eTypes es ++ r).length by
          have := eTypes_len es; simp only [List.length_append]; omega)), bind_ok ih, pure_apply, viewType]
theorem readTypes_ok : ∀ (es : TypeDescs) (fuel : Nat) (r : FrameRead.Bytes),
    wfTypes es = true → (eTypes es).length ≤ fuel →
    readN (readTypeInfoF fuel) es.length (eTypes es ++ r) = .ok (viewTypes es, r)
  | .nil, fuel, r, _, _ => by simp [TypeDescs.length, eTypes, readN, pure_apply, viewTypes]
  | .cons t rest, fuel, r, hw, hf => by
    have hw' : wfType t = true ∧ wfTypes rest = true := by simpa [wfTypes] using hw
    have hl : (eType t).length ≤ fuel ∧ (eTypes rest).length ≤ fuel := by simp [eTypes] at hf; omega
    have ih1 := readType_ok t fuel (eTypes rest ++ r) hw'.1 hl.1
    have ih2 := readTypes_ok rest fuel r hw'.2 hl.2
    simp only [TypeDescs.length, eTypes, readN, List.append_assoc]
    rw [bind_ok ih1, bind_ok ih2]
    rfl
theorem readFields_ok : ∀ (fs : FieldDescs) (fuel : Nat) (r : FrameRead.Bytes),
    wfFields fs = true → (eFields fs).length ≤ fuel →
    readN (do let fname ← readString; let t ← readTypeInfoF fuel; pure (fname, t)) fs.length (eFields fs ++ r)
      = .ok (viewFields fs, r)
  | .nil, fuel, r, _, _ => by simp [FieldDescs.length, eFields, readN, pure_apply, viewFields]
  | .cons n t rest, fuel, r, hw, hf => by
    have hw' : (fitsShort n = true ∧ wfType t = true) ∧ wfFields rest = true := by simpa [wfFields] using hw
    have hl : (eType t).length ≤ fuel ∧ (eFields rest).length ≤ fuel := by simp [eFields] at hf; omega
    have ih1 := readType_ok t fuel (eFields rest ++ r) hw'.1.2 hl.1
    have ih2 := readFields_ok rest fuel r hw'.2 hl.2
    simp only [FieldDescs.length, eFields, readN, List.append_assoc]
    rw [bind_ok (f := fun x => _) (show (do let fname ← readString; let t ← readTypeInfoF fuel; pure (fname, t) : P _)
        (eString n ++ (eType t ++ (eFields rest ++ r))) = .ok ((n, viewType t), eFields rest ++ r) from by
      rw [bind_ok (readString_eString n _ hw'.1.1), bind_ok ih1]; rfl)]
    rw [bind_ok ih2]
    rfl
end

/-- readTypeInfo with the buffer length as fuel -/
theorem readTypeInfo_ok (t : TypeDesc) (r : FrameRead.Bytes) (hw : wfType t = true) :
    readTypeInfo (eType t ++ r) = .ok (viewType t, r) := by
  unfold readTypeInfo
  exact readType_ok t _ r hw (by simp; omega)

end C04
