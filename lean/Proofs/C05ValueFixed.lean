import Model.CrashValueFixed
import Proofs.C05Value
import Proofs.C05ValueAgree
/-!
  C05 / value decoders, FIXED variant: with the seven guards of props/C05.fix-{6,10,11,12,13,14,15}.diff the full
  property holds, no exclusion: no protocol version, type tree, destination and byte string makes
  `Unmarshal` crash (`C05_values_total_fixed`); the fixes change no non-crashing outcome
  (`C05_fixes_conservative`, Proofs/C05ValueAgree.lean) and bound the element count handed to
  MakeSlice / MakeMapWithSize by the remaining bytes (`C05_alloc_bound_fixed`, Proofs/C05Value.lean).
-/
namespace C05Value
open CrashValue

/-- FULL property for the fixed code: ∀ inputs, outcome ≠ crash -/
theorem C05_values_total_fixed (proto : Nat) (t : CT) (dst : Dest) (data : Option Bytes) :
    ∀ s, CrashValueFixed.unmarshal proto t dst data ≠ .crash s := by
  intro s hs
  have h := (unmarshal_safe true proto t dst data s hs).1
  cases h

/-- each witness of the known sites is an error in the fixed variant -/
theorem C05_fixed_on_witnesses :
    CrashValueFixed.unmarshal 4 (.list (.nat .int)) (.val (.slice (.sc .int))) (some [0xff, 0xff, 0xff, 0xfe]) = .err
    ∧ CrashValueFixed.unmarshal 4 (.tuple [.nat .int, .nat .int]) (.ifs [.sc .int, .sc .int]) (some [0, 0, 0, 9, 1]) = .err
    ∧ CrashValueFixed.unmarshal 4 (.tuple [.nat .int, .nat .int]) (.ifs [.sc .int]) (some [0, 0, 0, 4, 0, 0, 0, 1]) = .err
    ∧ CrashValueFixed.unmarshal 4 (.nat .date) (.val (.sc .time)) (some [1]) = .err
    ∧ CrashValueFixed.unmarshal 4 (.map (.nat .blob) (.nat .int)) .deflt (some [0, 0, 0, 0]) = .err
    ∧ CrashValueFixed.unmarshal 4 (.tuple [.nat .int]) (.val (.struct [(65, false, .sc .int64)])) (some []) = .err
    ∧ CrashValueFixed.unmarshal 4 (.udt [(nameCode ['w','a','l','l'], .nat .int)]) (.val (.sc .time))
        (some [0, 0, 0, 4, 0, 0, 0, 1]) = .err := by
  decide

/-- restated for the fixed model's own entry point -/
theorem C05_fixed_conservative (proto : Nat) (t : CT) (dst : Dest) (data : Option Bytes) :
    (unmarshal false proto t dst data = .ok () → CrashValueFixed.unmarshal proto t dst data = .ok ())
    ∧ (unmarshal false proto t dst data = .err → CrashValueFixed.unmarshal proto t dst data = .err) :=
  C05_fixes_conservative proto t dst data

-- non-vacuity: the fixed decoder still decodes (it is not the constant `err`)
example : CrashValueFixed.unmarshal 4 (.list (.nat .int)) (.val (.slice (.sc .int)))
    (some [0,0,0,1, 0,0,0,4, 0,0,0,7]) = .ok () := by decide
example : CrashValueFixed.unmarshal 4 (.tuple [.nat .int, .nat .text]) (.ifs [.sc .int, .sc .string])
    (some [0,0,0,4, 0,0,0,7, 0,0,0,1, 0x61]) = .ok () := by decide

end C05Value
