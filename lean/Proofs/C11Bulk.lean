import Proofs.C11
/-! # C11 — hosts handed over in BULK (`tokenAwareHostPolicy.AddHosts`, what `Session.init` calls)

`AddHosts(hosts)` puts every host into the policy's own list, rebuilds the ring and recomputes every held replica
table ONCE and unconditionally, then calls `AddHost` of the fallback policy per host (`Policies.TA.addHosts`).
Histories over `BOp` = the operations of `TAOp` + `addHosts hs` (any number of bulk calls anywhere in the history,
any host lists, hosts repeated inside a call, hosts already known) + `setPartitioner` (the partitioner learned
at any point of the history, also after hosts and keyspaces); the notifier history of a bulk call is one
`AddHost` event per host of the call, in call order (`evsOfB`). The history theorems of Proofs/C11.lean are
re-proved for these histories: completeness with no exclusion, freshness of every table the policy computed itself,
exactness under the same exclusions as `C11_history_exact_partial`. -/
namespace C11
open Policies

inductive BOp
  | op (o : TAOp)
  | addHosts (hs : List Host)
  | setPartitioner          -- `SetPartitioner` with a supported name, possibly AFTER hosts / keyspaces are known

def _root_.Policies.TA.applyB (t : TA) : BOp → TA
  | .op o => t.apply o
  | .addHosts hs => t.addHosts hs
  | .setPartitioner => t.setPartitioner

/-- the notifier calls of one operation: a bulk call is `AddHost` of every host of the call, in call order -/
def BOp.evs : BOp → List (Ev × Host)
  | .op o => (match o.ev with | some e => [e] | none => [])
  | .addHosts hs => hs.map (fun h => (Ev.add, h))
  | .setPartitioner => []

def evsOfB (ops : List BOp) : List (Ev × Host) := ops.flatMap BOp.evs
def hostsOfB (ops : List BOp) : List Host := (evsOfB ops).map (·.2)
def NoAliasB (ops : List BOp) : Prop := ∀ a ∈ hostsOfB ops, ∀ b ∈ hostsOfB ops, a.addr = b.addr → a = b

/-- the sequence of single `AddHost` calls a bulk call is compared with -/
def addsOf (hs : List Host) : List TAOp := hs.map TAOp.add

theorem adds_pol (hs : List Host) (t : TA) : ((addsOf hs).foldl TA.apply t).pol = hs.foldl Pol.add t.pol := by
  induction hs generalizing t with
  | nil => rfl
  | cons h r ih =>
    simp only [addsOf, List.map_cons, List.foldl_cons]
    have := ih (t.apply (.add h))
    simp only [addsOf] at this
    rw [this]
    show List.foldl Pol.add (t.add h).pol r = _
    rw [(add_fields t h).1]

theorem adds_hosts (hs : List Host) (t : TA) :
    ((addsOf hs).foldl TA.apply t).hosts = hs.foldl (fun l h => (cowAdd l h).1) t.hosts := by
  induction hs generalizing t with
  | nil => rfl
  | cons h r ih =>
    simp only [addsOf, List.map_cons, List.foldl_cons]
    have := ih (t.apply (.add h))
    simp only [addsOf] at this
    rw [this, apply_hosts t (.add h)]

/-- a bulk call leaves the fallback policy's lists and the policy's own host list exactly as the sequence of
single `AddHost` calls does; what differs is WHEN the replica tables are recomputed (once, unconditionally) -/
theorem addHosts_pol (t : TA) (hs : List Host) : (t.addHosts hs).pol = ((addsOf hs).foldl TA.apply t).pol := by
  rw [adds_pol]; rfl

theorem addHosts_hosts (t : TA) (hs : List Host) : (t.addHosts hs).hosts = ((addsOf hs).foldl TA.apply t).hosts := by
  rw [adds_hosts]
  exact (refresh_fields { t with hosts := hs.foldl (fun l h => (cowAdd l h).1) t.hosts }).2.2.2.2.1

theorem addHosts_opts (t : TA) (hs : List Host) :
    (t.addHosts hs).nonlocal = t.nonlocal ∧ (t.addHosts hs).shuffle = t.shuffle ∧ (t.addHosts hs).sessKs = t.sessKs ∧
    (t.addHosts hs).partSet = t.partSet := by
  have h := refresh_fields { t with hosts := hs.foldl (fun l h => (cowAdd l h).1) t.hosts }
  exact ⟨h.2.2.1, h.2.1, h.2.2.2.2.2.1, h.2.2.2.1⟩

/-- after a bulk call EVERY held table lists hosts of the policy's host list only (all recomputed) -/
theorem addHosts_tabFresh (t : TA) (hs : List Host) (ks : Nat) : TabFresh (t.addHosts hs) ks :=
  tabFresh_refresh { t with hosts := hs.foldl (fun l h => (cowAdd l h).1) t.hosts } ks

theorem evsOf_adds (hs : List Host) : evsOf (addsOf hs) = hs.map (fun h => (Ev.add, h)) := by
  induction hs with
  | nil => rfl
  | cons h r ih =>
    show evsOf (TAOp.add h :: addsOf r) = _
    unfold evsOf at ih ⊢
    rw [List.filterMap_cons]
    simp only [TAOp.ev, List.map_cons]
    rw [ih]

theorem evsOf_single (o : TAOp) : evsOf [o] = (match o.ev with | some e => [e] | none => []) := by
  unfold evsOf
  rw [List.filterMap_cons]
  cases o.ev <;> rfl

theorem statusFrom_append (s0 : Status) (a b : List (Ev × Host)) (h : Host) :
    statusFrom s0 (a ++ b) h = statusFrom (statusFrom s0 a h) b h := by
  unfold statusFrom
  rw [List.foldl_append]

/-- the invariant tying the fallback policy's lists, the policy's own host list and its replica tables to the history -/
structure BI (U : Host → Prop) (t : TA) (S : Host → Status) (d : List Nat) : Prop where
  inv : Inv t.pol
  kU : ∀ x, known t.pol x → U x
  kS : ∀ x, known t.pol x ↔ (S x).inList = true
  hU : ∀ x ∈ t.hosts, U x
  hS : ∀ x, x ∈ t.hosts ↔ (S x).known = true
  fresh : ∀ ks, ks ∉ d → TabFresh t ks

theorem mem_evsOf_hosts (seg : List TAOp) (x : Host) (hx : x ∈ (evsOf seg).map (·.2)) :
    ∃ o ∈ seg, ∃ e, o.ev = some (e, x) := by
  rw [List.mem_map] at hx
  obtain ⟨⟨e, y⟩, hm, rfl⟩ := hx
  unfold evsOf at hm
  rw [List.mem_filterMap] at hm
  obtain ⟨o, ho, he⟩ := hm
  exact ⟨o, ho, e, he⟩

/-- a segment of single operations keeps the invariant -/
theorem BI_seg (U : Host → Prop) (hU : ∀ a b, U a → U b → a.addr = b.addr → a = b) (seg : List TAOp)
    (hseg : ∀ o ∈ seg, ∀ e h, o.ev = some (e, h) → U h) (t : TA) (S : Host → Status) (d : List Nat) (b : BI U t S d) :
    BI U (seg.foldl TA.apply t) (fun x => statusFrom (S x) (evsOf seg) x) (runDirty (t, d) seg).2 := by
  obtain ⟨h1, h2, h3⟩ := hist_run U hU seg t S hseg b.inv b.kU b.kS
  have h4 := hostsHist_run U hU seg t S hseg b.hU b.hS
  refine ⟨h1, h2, h3, ?_, h4, ?_⟩
  · intro x hx
    by_cases hm : x ∈ (evsOf seg).map (·.2)
    · obtain ⟨o, ho, e, he⟩ := mem_evsOf_hosts seg x hm
      exact hseg o ho e x he
    · have := (h4 x).mp hx
      rw [statusFrom_not_mem _ _ _ hm] at this
      exact b.hU x ((b.hS x).mpr this)
  · have := dirty_run seg (t, d) b.fresh
    rw [runDirty_fst] at this
    exact this

/-- a bulk call keeps the invariant; afterwards no table is stale -/
theorem BI_addHosts (U : Host → Prop) (hU : ∀ a b, U a → U b → a.addr = b.addr → a = b) (hs : List Host)
    (hhs : ∀ h ∈ hs, U h) (t : TA) (S : Host → Status) (d : List Nat) (b : BI U t S d) :
    BI U (t.addHosts hs) (fun x => statusFrom (S x) (hs.map (fun h => (Ev.add, h))) x) [] := by
  have hseg : ∀ o ∈ addsOf hs, ∀ e h, o.ev = some (e, h) → U h := by
    intro o ho e h he
    simp only [addsOf, List.mem_map] at ho
    obtain ⟨y, hy, rfl⟩ := ho
    simp only [TAOp.ev, Option.some.injEq, Prod.mk.injEq] at he
    rw [← he.2]; exact hhs y hy
  have b' := BI_seg U hU (addsOf hs) hseg t S d b
  rw [evsOf_adds] at b'
  refine ⟨?_, ?_, ?_, ?_, ?_, fun ks _ => addHosts_tabFresh t hs ks⟩
  · rw [addHosts_pol]; exact b'.inv
  · rw [addHosts_pol]; exact b'.kU
  · rw [addHosts_pol]; exact b'.kS
  · rw [addHosts_hosts]; exact b'.hU
  · rw [addHosts_hosts]; exact b'.hS

/-- the first `SetPartitioner` builds the ring from the hosts already known and computes every held table; the lists
and the policy's own host list are not touched; a later call changes nothing -/
theorem setPartitioner_fields (t : TA) :
    t.setPartitioner.pol = t.pol ∧ t.setPartitioner.hosts = t.hosts ∧ t.setPartitioner.nonlocal = t.nonlocal := by
  unfold TA.setPartitioner
  split
  · exact ⟨rfl, rfl, rfl⟩
  · have h := refresh_fields { t with partSet := true }
    exact ⟨h.1, h.2.2.2.2.1, h.2.2.1⟩

theorem BI_setPartitioner (U : Host → Prop) (t : TA) (S : Host → Status) (d : List Nat) (b : BI U t S d) :
    BI U t.setPartitioner S (if t.partSet then d else []) := by
  obtain ⟨e1, e2, _⟩ := setPartitioner_fields t
  refine ⟨e1 ▸ b.inv, e1 ▸ b.kU, e1 ▸ b.kS, e2 ▸ b.hU, e2 ▸ b.hS, ?_⟩
  intro ks hks
  unfold TA.setPartitioner
  split
  · rename_i hp
    rw [if_pos hp] at hks
    exact b.fresh ks hks
  · exact tabFresh_refresh { t with partSet := true } ks

/-- `dirtyStep` for bulk histories: a bulk call - and the call that sets the partitioner - recomputes every held table -/
def dirtyStepB (t : TA) (d : List Nat) : BOp → List Nat
  | .op o => dirtyStep t d o
  | .addHosts _ => []
  | .setPartitioner => if t.partSet then d else []

def runDirtyB : TA × List Nat → List BOp → TA × List Nat
  | s, [] => s
  | s, o :: r => runDirtyB (s.1.applyB o, dirtyStepB s.1 s.2 o) r

theorem runDirtyB_fst (s : TA × List Nat) (ops : List BOp) : (runDirtyB s ops).1 = ops.foldl TA.applyB s.1 := by
  induction ops generalizing s with
  | nil => rfl
  | cons o r ih => rw [runDirtyB, ih, List.foldl_cons]

/-- the keyspaces with a table installed from outside that the policy has not recomputed since -/
def dirtyOfB (t0 : TA) (ops : List BOp) : List Nat := (runDirtyB (t0, []) ops).2

theorem BI_run (U : Host → Prop) (hU : ∀ a b, U a → U b → a.addr = b.addr → a = b) (ops : List BOp) :
    ∀ (t : TA) (S : Host → Status) (d : List Nat), (∀ h ∈ hostsOfB ops, U h) → BI U t S d →
    BI U (ops.foldl TA.applyB t) (fun x => statusFrom (S x) (evsOfB ops) x) (runDirtyB (t, d) ops).2 := by
  induction ops with
  | nil => intro t S d _ b; exact b
  | cons o r ih =>
    intro t S d hops b
    have hev : evsOfB (o :: r) = o.evs ++ evsOfB r := by simp [evsOfB]
    have hr : ∀ h ∈ hostsOfB r, U h := by
      intro h hh
      apply hops h
      simp only [hostsOfB, hev, List.map_append, List.mem_append]
      exact Or.inr hh
    have ho : ∀ h ∈ o.evs.map (·.2), U h := by
      intro h hh
      apply hops h
      simp only [hostsOfB, hev, List.map_append, List.mem_append]
      exact Or.inl hh
    rw [List.foldl_cons, runDirtyB]
    have key : ∀ x, statusFrom (S x) (evsOfB (o :: r)) x = statusFrom (statusFrom (S x) o.evs x) (evsOfB r) x :=
      fun x => by rw [hev, statusFrom_append]
    simp only [key]
    apply ih _ (fun x => statusFrom (S x) o.evs x) _ hr
    cases o with
    | op o' =>
      have hseg : ∀ q ∈ [o'], ∀ e h, q.ev = some (e, h) → U h := by
        intro q hq e h he
        rw [List.mem_singleton] at hq
        subst hq
        apply ho h
        simp only [BOp.evs, he, List.map_cons, List.map_nil, List.mem_singleton]
      have := BI_seg U hU [o'] hseg t S d b
      rw [evsOf_single] at this
      exact this
    | addHosts hs =>
      apply BI_addHosts U hU hs _ t S d b
      intro h hh
      apply ho h
      simp only [BOp.evs, List.map_map, List.mem_map, Function.comp]
      exact ⟨h, hh, rfl⟩
    | setPartitioner =>
      exact BI_setPartitioner U t S d b

theorem BI_new (U : Host → Prop) (k : Kind) (ldc lrack : Nat) (sh nl ps : Bool) (sess : Option Nat) :
    BI U (TA.new (Pol.new k ldc lrack) sh nl ps sess) (fun _ => Status.init) [] :=
  ⟨Inv_new k ldc lrack, fun x hx => by simp [known, Pol.new, TA.new] at hx,
   fun x => by simp [known, Pol.new, TA.new, Status.inList, Status.init],
   fun x hx => by simp [TA.new] at hx, fun x => by simp [TA.new, Status.init],
   fun ks _ e he => by simp [TA.new] at he⟩

/-- the invariant in every state reachable by a bulk history -/
theorem BI_final (k : Kind) (ldc lrack : Nat) (sh nl ps : Bool) (sess : Option Nat) (ops : List BOp) (hna : NoAliasB ops) :
    BI (fun h => h ∈ hostsOfB ops) (ops.foldl TA.applyB (TA.new (Pol.new k ldc lrack) sh nl ps sess))
      (fun x => statusOf (evsOfB ops) x) (dirtyOfB (TA.new (Pol.new k ldc lrack) sh nl ps sess) ops) :=
  BI_run (fun h => h ∈ hostsOfB ops) (fun a b ha hb => hna a ha b hb) ops _ (fun _ => Status.init) []
    (fun _ hh => hh) (BI_new _ k ldc lrack sh nl ps sess)

theorem runB_nonlocal (t : TA) (ops : List BOp) : (ops.foldl TA.applyB t).nonlocal = t.nonlocal := by
  induction ops generalizing t with
  | nil => rfl
  | cons o r ih =>
    rw [List.foldl_cons, ih]
    cases o with
    | op o' => exact (apply_opts t o').1
    | addHosts hs => exact (addHosts_opts t hs).1
    | setPartitioner => exact (setPartitioner_fields t).2.2

/-! ### the theorems of the token-aware iterator, for ANY state with the list invariant -/

/-- `C11_tokenaware_all_states_partial` for any state whose fallback lists satisfy the list invariant -/
theorem ta_state_core (t : TA) (hp : Inv t.pol) (up : Nat → Bool) (σ : List Host → List Host) (hσ : ∀ l, (σ l).Perm l)
    (rk : Option (Nat × Nat)) (hrep : ∀ e ∈ t.replicas, ∀ f ∈ e.2, f.2.Nodup) :
    ∃ l, t.pickSeq up σ rk = .seq l ∧
      l.Nodup ∧ (∀ h ∈ l, up h.id = true) ∧ (∀ h, known t.pol h → up h.id = true → h ∈ l) ∧
      ∃ rest, l = specHead t.pol.tier t.pol.maxTier up t.nonlocal ((repsOf t σ rk).getD []) ++ rest ∧
        rest.Sublist (t.pol.pickSeq up) ∧ rest.Pairwise (fun a b => t.pol.tier a ≤ t.pol.tier b) := by
  have plain : t.pickSeq up σ rk = .seq (t.pol.pickSeq up) → repsOf t σ rk = none →
      ∃ l, t.pickSeq up σ rk = .seq l ∧
      l.Nodup ∧ (∀ h ∈ l, up h.id = true) ∧ (∀ h, known t.pol h → up h.id = true → h ∈ l) ∧
      ∃ rest, l = specHead t.pol.tier t.pol.maxTier up t.nonlocal ((repsOf t σ rk).getD []) ++ rest ∧
        rest.Sublist (t.pol.pickSeq up) ∧ rest.Pairwise (fun a b => t.pol.tier a ≤ t.pol.tier b) := by
    intro e1 e2
    refine ⟨_, e1, pickSeq_nodup _ hp up, fun h hh => ((mem_pickSeq _ hp up h).mp hh).2,
      fun h hk hu => (mem_pickSeq _ hp up h).mpr ⟨hk, hu⟩, t.pol.pickSeq up, ?_, List.Sublist.refl _,
      pickSeq_sorted _ hp up⟩
    rw [e2, Option.getD_none, specHead_nil, List.nil_append]
  cases rk with
  | none => exact plain rfl rfl
  | some kt =>
    obtain ⟨ks, tok⟩ := kt
    cases hr : t.replicasFor ks tok with
    | noRing => exact plain (by simp only [TA.pickSeq, hr]) (by simp only [repsOf, hr])
    | emptyRing => exact plain (by simp only [TA.pickSeq, hr]) (by simp only [repsOf, hr])
    | hosts reps ft =>
      have hreps : reps.Nodup := replicasFor_nodup t hrep ks tok reps ft hr
      have hreps' : (if (ft && t.shuffle) = true then σ reps else reps).Nodup := by
        split
        · exact (hσ reps).nodup_iff.mpr hreps
        · exact hreps
      refine ⟨taSeq t.pol.tier t.pol.maxTier up t.nonlocal (if (ft && t.shuffle) = true then σ reps else reps) (t.pol.pickSeq up),
        by simp only [TA.pickSeq, hr], taSeq_nodup _ _ _ _ _ _ hreps', ?_, ?_, ?_⟩
      · exact fun h hh => taSeq_up _ _ _ _ _ _ (fun x hx => ((mem_pickSeq _ hp up x).mp hx).2) h hh
      · exact fun h hk hu => mem_taSeq_of_fallback _ _ _ _ _ _ h ((mem_pickSeq _ hp up h).mpr ⟨hk, hu⟩)
      · refine ⟨minusUsed (taHead t.pol.tier t.pol.maxTier up t.nonlocal (if (ft && t.shuffle) = true then σ reps else reps))
            (t.pol.pickSeq up), ?_, minusUsed_sublist _ _, (pickSeq_sorted _ hp up).sublist (minusUsed_sublist _ _)⟩
        simp only [repsOf, hr, Option.getD_some, taSeq, taHead_eq_specHead]

/-- the replica list of a query whose keyspace table is fresh (or that comes from the ring) lists hosts of the policy's
own host list only -/
theorem reps_mem_hosts (t : TA) (σ : List Host → List Host) (hσ : ∀ l, (σ l).Perm l) (rk : Option (Nat × Nat))
    (hfq : match rk with
      | none => True
      | some (ks, tok) => TabFresh t ks ∨ (∃ l, t.replicasFor ks tok = .hosts l false)) :
    ∀ x ∈ (repsOf t σ rk).getD [], x ∈ t.hosts := by
  intro x hx
  cases rk with
  | none => simp [repsOf] at hx
  | some kt =>
    obtain ⟨ks, tok⟩ := kt
    simp only [repsOf] at hx
    cases hr : t.replicasFor ks tok with
    | noRing => rw [hr] at hx; simp at hx
    | emptyRing => rw [hr] at hx; simp at hx
    | hosts l ft =>
      rw [hr] at hx
      simp only [Option.getD_some] at hx
      have hxl : x ∈ l := by
        split at hx
        · exact (hσ l).mem_iff.mp hx
        · exact hx
      have hr' := hr
      unfold TA.replicasFor at hr
      split at hr
      · cases hr
      · split at hr
        · rename_i l' hl'
          injection hr with e1 e2
          subst e1 e2
          rw [Option.bind_eq_some_iff] at hl'
          obtain ⟨e, he, hlk⟩ := hl'
          obtain ⟨k', hk'⟩ := lookupTok_mem e.2 tok _ hlk
          have heks : e.1 = ks := by simpa using List.find?_some he
          rcases hfq with h2 | ⟨l2, h2⟩
          · exact h2 e (List.mem_of_find?_eq_some he) heks _ hk' x hxl
          · rw [hr'] at h2; cases h2
        · split at hr
          · rename_i h hh
            injection hr with e1 e2
            subst e1
            simp only [List.mem_singleton] at hxl
            subst hxl
            obtain ⟨k', hk'⟩ := lookupTok_mem _ tok _ hh
            exact ringOf_sub t.hosts _ hk'
          · cases hr

/-- a query on a keyspace without an installed-and-not-recomputed table, or answered from the ring -/
def FreshQueryB (t0 : TA) (ops : List BOp) (rk : Option (Nat × Nat)) : Prop :=
  match rk with
  | none => True
  | some (ks, tok) => ks ∉ dirtyOfB t0 ops ∨ (∃ l, (ops.foldl TA.applyB t0).replicasFor ks tok = .hosts l false)

/-! ### the property theorems for bulk histories -/

/-- COMPLETENESS against the history for EVERY history that may contain bulk calls (`AddHosts`, any host lists, at any
point, any number of times) next to AddHost / RemoveHost / HostUp / HostDown / KeyspaceChanged / installed tables /
picks: every host the history expects is offered, only up hosts are; no exclusion. -/
theorem C11_bulk_history_complete (k : Kind) (ldc lrack : Nat) (sh nl ps : Bool) (sess : Option Nat) (ops : List BOp)
    (up : Nat → Bool) (σ : List Host → List Host) (rk : Option (Nat × Nat)) (hna : NoAliasB ops) :
    let t := ops.foldl TA.applyB (TA.new (Pol.new k ldc lrack) sh nl ps sess)
    ∃ l, t.pickSeq up σ rk = .seq l ∧ (Pol.below t.pol → t.pickScan up σ rk = ⟨l, false⟩) ∧
      (∀ h ∈ l, up h.id = true) ∧
      ∀ x, (statusOf (evsOfB ops) x).expected (up x.id) = true → x ∈ l := by
  intro t
  have b := BI_final k ldc lrack sh nl ps sess ops hna
  obtain ⟨l, hl, hc, hm⟩ := pickSeq_struct t b.inv up σ rk
  refine ⟨l, hl, fun hb => pickScan_ideal t up σ rk hb l hl, fun h hh => (hm h hh).1, ?_⟩
  intro x hx
  obtain ⟨h1, h2⟩ := expected_inList _ (wf_statusOf _ x) _ hx
  exact hc x ((b.kS x).mpr h1) h2

/-- bulk histories: every replica list taken from the ring or from a table the policy computed itself lists hosts
that are added and not removed only - in particular right after a bulk call, for EVERY keyspace (a bulk call
recomputes every held table even when it adds no new host, so it also replaces tables installed from outside) -/
theorem C11_bulk_replica_tables_fresh (k : Kind) (ldc lrack : Nat) (sh nl ps : Bool) (sess : Option Nat) (ops : List BOp)
    (σ : List Host → List Host) (hσ : ∀ l, (σ l).Perm l) (rk : Option (Nat × Nat)) (hna : NoAliasB ops) :
    let t := ops.foldl TA.applyB (TA.new (Pol.new k ldc lrack) sh nl ps sess)
    FreshQueryB (TA.new (Pol.new k ldc lrack) sh nl ps sess) ops rk →
    ∀ x ∈ (repsOf t σ rk).getD [], x ∈ t.hosts ∧ (statusOf (evsOfB ops) x).known = true := by
  intro t hfq x hx
  have b := BI_final k ldc lrack sh nl ps sess ops hna
  have hfresh : ∀ ks, ks ∉ dirtyOfB (TA.new (Pol.new k ldc lrack) sh nl ps sess) ops → TabFresh t ks := b.fresh
  suffices h : x ∈ t.hosts from ⟨h, (b.hS x).mp h⟩
  apply reps_mem_hosts t σ hσ rk _ x hx
  cases rk with
  | none => trivial
  | some kt =>
    obtain ⟨ks, tok⟩ := kt
    rcases hfq with h | h
    · exact Or.inl (hfresh ks h)
    · exact Or.inr h

/-- EXACTNESS against the history for bulk histories, under the same exclusions as `C11_history_exact_partial`
(duplicate-free tables, no ghost host KF-C11-4, no host of the specified replica head last reported down KF-C11-5,
the replica list from a table the policy computed itself / the ring, or listing known hosts only): the drained
iterator offers EXACTLY the hosts the history expects, each once. -/
theorem C11_bulk_history_exact_partial (k : Kind) (ldc lrack : Nat) (sh nl ps : Bool) (sess : Option Nat) (ops : List BOp)
    (up : Nat → Bool) (σ : List Host → List Host) (hσ : ∀ l, (σ l).Perm l) (rk : Option (Nat × Nat)) (hna : NoAliasB ops) :
    let t := ops.foldl TA.applyB (TA.new (Pol.new k ldc lrack) sh nl ps sess)
    let S := fun x => statusOf (evsOfB ops) x
    (∀ e ∈ t.replicas, ∀ f ∈ e.2, f.2.Nodup) →
    (∀ x, (S x).ghost = false) →
    (∀ x ∈ specHead t.pol.tier t.pol.maxTier up nl ((repsOf t σ rk).getD []), (S x).last ≠ some .hdown) →
    (FreshQueryB (TA.new (Pol.new k ldc lrack) sh nl ps sess) ops rk ∨
      ∀ x ∈ specHead t.pol.tier t.pol.maxTier up nl ((repsOf t σ rk).getD []), (S x).known = true) →
    ∃ l, t.pickSeq up σ rk = .seq l ∧ (Pol.below t.pol → t.pickScan up σ rk = ⟨l, false⟩) ∧ l.Nodup ∧
      (∀ x, x ∈ l ↔ (S x).expected (up x.id) = true) ∧
      ∀ univ : List Host, univ.Nodup → (∀ h ∈ hostsOfB ops, h ∈ univ) →
        l.Perm (univ.filter (fun x => (S x).expected (up x.id))) := by
  intro t S hrep hg hdown hfresh
  have b := BI_final k ldc lrack sh nl ps sess ops hna
  have hnl : t.nonlocal = nl := runB_nonlocal _ ops
  obtain ⟨l, hl, hnd, hup, hcomp, rest, hrest, hsub, _⟩ := ta_state_core t b.inv up σ hσ rk hrep
  rw [hnl] at hrest
  have hst : ∀ x ∈ specHead t.pol.tier t.pol.maxTier up nl ((repsOf t σ rk).getD []), (S x).expected true = true := by
    intro x hx
    have hk : (S x).known = true := by
      rcases hfresh with hf | hf
      · have hxr : x ∈ (repsOf t σ rk).getD [] := by
          rw [← taHead_eq_specHead] at hx
          exact (mem_taHead _ _ _ _ _ x hx).1
        exact (C11_bulk_replica_tables_fresh k ldc lrack sh nl ps sess ops σ hσ rk hna hf x hxr).2
      · exact hf x hx
    have hl' := hdown x hx
    simp only [Status.expected, Bool.and_true, Bool.and_eq_true, bne_iff_ne, ne_eq]
    exact ⟨hk, hl'⟩
  have hmem : ∀ x, x ∈ l ↔ (S x).expected (up x.id) = true := by
    intro x
    constructor
    · intro hx
      have hu := hup x hx
      rw [hu]
      rw [hrest, List.mem_append] at hx
      rcases hx with hx | hx
      · exact hst x hx
      · have hk := ((mem_pickSeq _ b.inv up x).mp (hsub.subset hx)).1
        exact inList_expected _ (wf_statusOf _ x) (hg x) ((b.kS x).mp hk)
    · intro hx
      obtain ⟨h1, h2⟩ := expected_inList _ (wf_statusOf _ x) _ hx
      exact hcomp x ((b.kS x).mpr h1) h2
  refine ⟨l, hl, fun hb => pickScan_ideal t up σ rk hb l hl, hnd, hmem, ?_⟩
  intro univ hun hall
  rw [List.perm_ext_iff_of_nodup hnd (hun.filter _)]
  intro x
  rw [hmem x, List.mem_filter]
  constructor
  · intro hx
    refine ⟨hall x (mem_of_known _ x ?_), hx⟩
    simp only [Status.expected, Bool.and_eq_true] at hx
    exact hx.1.1
  · exact fun hx => hx.2

/-- what a bulk call does that a fold of single `AddHost` calls does not (kernel-checked): a bulk call of KNOWN hosts
only still recomputes every held table - here it replaces a table installed from outside that lists the removed host 9 -;
the fold of `AddHost` leaves it. Both leave the same lists. -/
theorem C11_bulk_vs_single_adds :
    let h1 : Host := ⟨1, 1, 0, 0, [100]⟩
    let h9 : Host := ⟨9, 9, 1, 0, [900]⟩
    let pre := [BOp.op (.setMeta 0 (some (some 1))), .addHosts [h1, h9, h1], .op (.remove h9), .op (.setReplicas 0 [(100, [h9])])]
    let t := pre.foldl TA.applyB (TA.new (Pol.new .dc 0 0) false true true none)
    (t.applyB (.addHosts [h1])).replicas = [(0, [(100, [h1])])] ∧
    ([TAOp.add h1].foldl TA.apply t).replicas = [(0, [(100, [h9])])] ∧
    (t.applyB (.addHosts [h1])).pol.l0 = [h1] ∧ ([TAOp.add h1].foldl TA.apply t).pol.l0 = [h1] ∧
    (t.applyB (.addHosts [h1])).hosts = [h1] := by
  decide

/-- non-vacuity: a bulk start with a host listed twice and one already known, then a removal - the routed query of
the session keyspace is offered exactly the remaining hosts, replica first -/
example :
    let h1 : Host := ⟨1, 1, 0, 0, [100]⟩
    let h2 : Host := ⟨2, 2, 0, 0, [200]⟩
    let h9 : Host := ⟨9, 9, 1, 0, [900]⟩
    let ops := [BOp.op (.setMeta 0 (some (some 2))), .op (.add h2), .addHosts [h1, h9, h1, h2], .op (.remove h9)]
    let t := ops.foldl TA.applyB (TA.new (Pol.new .dc 0 0) false true true (some 0))
    t.pickScan (fun _ => true) id (some (0, 150)) = ⟨[h2, h1], false⟩ ∧
    (statusOf (evsOfB ops) h9).expected true = false ∧ (statusOf (evsOfB ops) h1).expected true = true := by
  decide

/-- non-vacuity, late partitioner: hosts and the session keyspace are known first (every query is handed to the
fallback policy), `SetPartitioner` then builds ring and table from them - the replica of token 150 leads -/
example :
    let h1 : Host := ⟨1, 1, 0, 0, [100]⟩
    let h2 : Host := ⟨2, 2, 0, 0, [200]⟩
    let pre := [BOp.op (.setMeta 0 (some (some 1))), .addHosts [h1, h2]]
    let t := pre.foldl TA.applyB (TA.new (Pol.new .rr 0 0) false false false (some 0))
    t.replicas = [] ∧ t.pickScan (fun _ => true) id (some (0, 150)) = ⟨[h1, h2], false⟩ ∧
    (t.applyB .setPartitioner).pickScan (fun _ => true) id (some (0, 150)) = ⟨[h2, h1], false⟩ ∧
    (t.applyB .setPartitioner).replicas = [(0, [(100, [h1]), (200, [h2])])] ∧
    ((t.applyB .setPartitioner).applyB .setPartitioner).replicas = [(0, [(100, [h1]), (200, [h2])])] := by
  decide

end C11
